(* C15 x C03: the premises of L_C15fe.v about a mesh (partition of unity, gradient sums zero, positive volume weights, total
   volume = area) FOLLOW from C03's lifting theorems for every mesh that FunctionSpace builds from reference tables:
   vols = jac * w_q (el_vols), shapes = N(xi_q), shapeGrads = map_grad (J^-T dN) -- for reference tables satisfying the
   certificate predicates RefIds / TriQuadExact.  Exact tables (eps = 0) give the exact identities; for the certified
   tolerance eps of the binary64 tables the total mass is within an explicit multiple of eps of density * area. *)
From Coq Require Import Reals Lra Lia QArith List FunctionalExtensionality.
From Coquelicot Require Import Coquelicot.
From OV.base Require Import Num.
From OV.gen Require Import Gen_Mechanics.
From OV.model Require Import M_C03 M_C15_Newmark M_C15_FE.
From OV.proofs Require Import L_C03sn L_C03cert L_C03lift L_C15 L_C15fe.
Import ListNotations.
Local Open Scope R_scope.

Lemma Rabs_le0 x : Rabs x <= 0 -> x = 0.
Proof. intros H. destruct (Req_dec x 0) as [E|N]; [exact E|]. pose proof (Rabs_pos_lt x N). lra. Qed.

Lemma nsumR_rsum l : nsumR l = rsum l.
Proof. induction l as [|x l IH]; [apply nsumR_nil|]. rewrite nsumR_cons, IH. reflexivity. Qed.

(* the reference tables at one quadrature point: shape values, d/dxi, d/deta of the element's shape functions *)
Definition reftab : Type := (list R * (list R * list R))%type.
Definition c03_qpt (v0 v1 v2 : R * R) (w : R) (t : reftab) : @qpt R :=
  let sg := phys_grads v0 v1 v2 (fst (snd t)) (snd (snd t)) in
  mkQ (jacR v0 v1 v2 * w) (fst t) (map fst sg) (map snd sg).
Definition c03_elem {A} (ws : list R) (tabs : list reftab) (ct : list A * tri) : @elem R A :=
  let '(v0, v1, v2) := snd ct in (fst ct, map (fun wt => c03_qpt v0 v1 v2 (fst wt) (snd wt)) (combine ws tabs)).
Definition c03_mesh {A} (ws : list R) (tabs : list reftab) (els : list (list A * tri)) : list (@elem R A) :=
  map (c03_elem ws tabs) els.

(* the volume weights are exactly C03's el_vols *)
Lemma c03_elem_weights {A} ws tabs (ct : list A * tri) : length ws = length tabs ->
  map (@qw R) (snd (c03_elem ws tabs ct)) = tri_vols ws (snd ct).
Proof.
  destruct ct as [conn [[v0 v1] v2]]. cbn [c03_elem snd fst tri_vols]. rewrite volsR_eq, map_map. cbn [c03_qpt qw].
  revert tabs. induction ws as [|w ws IH]; intros [|t tabs] H; try discriminate; [reflexivity|].
  cbn [combine map fst]. rewrite IH by (cbn [length] in H; lia). reflexivity.
Qed.

Section Mesh.
  Variable A : Type.
  Variables (p : nat) (eps : R) (nodes : list (R * R)).
  Variables (ws : list R) (tabs : list reftab).
  Variable els : list (list A * tri).
  (* every table row satisfies the reference identities of order p at some point (what shapes_ok certifies) *)
  Hypothesis Htabs : forall t, In t tabs -> exists q, RefIds p eps nodes q (fst t) (fst (snd t)) (snd (snd t)).
  (* every element has one node per reference node *)
  Hypothesis Hconn : forall ct, In ct els -> length (fst ct) = length nodes.
  Notation mesh := (c03_mesh ws tabs els).

  Lemma in_c03_mesh e q : In e mesh -> In q (snd e) ->
    exists ct w t, In ct els /\ In t tabs /\ In w ws /\ fst e = fst ct /\
      q = c03_qpt (fst (fst (snd ct))) (snd (fst (snd ct))) (snd (snd ct)) w t.
  Proof.
    intros He Hq. unfold c03_mesh in He. apply in_map_iff in He. destruct He as [ct [<- Hct]].
    destruct ct as [conn [[v0 v1] v2]]. cbn [c03_elem fst snd] in *. apply in_map_iff in Hq. destruct Hq as [[w t] [<- Hwt]].
    exists (conn, (v0, v1, v2)), w, t. cbn [fst snd]. pose proof (in_combine_l _ _ _ _ Hwt). pose proof (in_combine_r _ _ _ _ Hwt).
    repeat split; assumption.
  Qed.

  (* |sum N - 1| <= eps at every quadrature point of every element *)
  Theorem c03_mesh_pou_eps : forall e q, In e mesh -> In q (snd e) ->
    length (qN q) = length (fst e) /\ Rabs (nsumR (qN q) - 1) <= eps.
  Proof.
    intros e q He Hq. destruct (in_c03_mesh e q He Hq) as (ct & w & t & Hct & Ht & _ & -> & ->).
    destruct (Htabs t Ht) as [xi HR]. cbn [c03_qpt qN].
    destruct ct as [conn [[v0 v1] v2]]. cbn [fst snd].
    pose proof (lift_partition_of_unity v0 v1 v2 p eps nodes xi _ _ _ HR) as [H1 _].
    split; [destruct HR as [L _]; rewrite L; symmetry; apply (Hconn _ Hct)|rewrite nsumR_rsum; exact H1].
  Qed.

  Section Exact.
    Hypothesis Heps : eps = 0.
    Hypothesis Hjac : forall ct, In ct els -> tri_jac (snd ct) <> 0.

    Theorem c03_mesh_partition_of_unity : partition_of_unity A mesh.
    Proof.
      intros e q He Hq. destruct (c03_mesh_pou_eps e q He Hq) as [L H]. split; [exact L|].
      rewrite Heps in H. apply Rabs_le0 in H. lra.
    Qed.

    Theorem c03_mesh_grad_sums_zero : grad_sums_zero A mesh.
    Proof.
      intros e q He Hq. destruct (in_c03_mesh e q He Hq) as (ct & w & t & Hct & Ht & _ & -> & ->).
      destruct (Htabs t Ht) as [xi HR]. cbn [c03_qpt qGx qGy].
      pose proof (Hjac ct Hct) as Hj. pose proof (Hconn ct Hct) as Hc.
      destruct ct as [conn [[v0 v1] v2]]. cbn [fst snd tri_jac] in *.
      pose proof (lift_partition_of_unity v0 v1 v2 p eps nodes xi _ _ _ HR) as [_ H2]. specialize (H2 Hj). cbv zeta in H2.
      destruct HR as (L1 & L2 & L3 & _).
      assert (Lsg : length (phys_grads v0 v1 v2 (fst (snd t)) (snd (snd t))) = length conn).
      { unfold phys_grads. rewrite map_length, combine_length. lia. }
      rewrite !map_length, !nsumR_rsum. repeat split; try exact Lsg.
      - destruct H2 as [H2 _]. rewrite Heps, Rmult_0_r in H2. apply Rabs_le0, H2.
      - destruct H2 as [_ H2]. rewrite Heps, Rmult_0_r in H2. apply Rabs_le0, H2.
    Qed.
  End Exact.

  (* ---------- volume weights, total volume, total mass *)
  Section Quad.
    Variables (d : nat) (epsq : R) (pts : list (R * R)).
    Hypothesis HQ : TriQuadExact d epsq pts ws.
    Hypothesis Hlen : length ws = length tabs.
    Hypothesis Hccw : forall ct, In ct els -> ccw (snd ct).

    Theorem c03_mesh_weights_pos : weights_pos A mesh.
    Proof.
      intros e q He Hq. destruct (in_c03_mesh e q He Hq) as (ct & w & t & Hct & _ & Hw & _ & ->).
      cbn [c03_qpt qw]. pose proof (Hccw ct Hct) as Hc. destruct ct as [conn [[v0 v1] v2]]. unfold ccw in Hc. cbn [fst snd tri_jac] in *.
      destruct HQ as (_ & _ & Hpos & _). apply Rmult_lt_0_compat; [exact Hc|apply Hpos, Hw].
    Qed.

    Lemma c03_mesh_volume : @fe_volume R NumR A mesh = rsum (map (fun t => rsum (tri_vols ws t)) (map snd els)).
    Proof.
      rewrite fe_volume_eq, fe_sum_eq. unfold c03_mesh. rewrite !map_map, nsumR_rsum. f_equal. apply map_ext. intros ct.
      unfold qsum. rewrite <- (c03_elem_weights ws tabs ct Hlen), nsumR_rsum. f_equal. apply map_ext. intros q. ring.
    Qed.

    Definition mesh_area : R := rsum (map (fun t => Rabs (tri_sarea t)) (map snd els)).
    Lemma mesh_area_nonneg : 0 <= mesh_area.
    Proof. unfold mesh_area. induction (map snd els) as [|t l IH]; cbn [map rsum]; [lra|pose proof (Rabs_pos (tri_sarea t)); lra]. Qed.

    Theorem c03_mesh_volume_area : Rabs (@fe_volume R NumR A mesh - mesh_area) <= 2 * mesh_area * epsq.
    Proof.
      rewrite c03_mesh_volume. apply (lift_mesh_area_ccw d epsq pts ws (map snd els) HQ).
      apply Forall_forall. intros t Ht. apply in_map_iff in Ht. destruct Ht as [ct [<- Hct]]. apply Hccw, Hct.
    Qed.

    (* total of the consistent mass matrix, component by component: m(c, c') for translations c, c' equals
       density * area * c.c' up to the certified tolerances of the shape tables (eps) and of the quadrature rule (epsq) *)
    Theorem c03_mass_total_eps rho cx cy dx dy : 0 <= eps -> 0 <= epsq ->
      Rabs (@fe_mass_form R NumR A rho mesh (@translation R A cx cy) (@translation R A dx dy) - rho * mesh_area * (cx * dx + cy * dy))
      <= Rabs (rho * (cx * dx + cy * dy)) * mesh_area * ((1 + 2 * epsq) * (eps * (2 + eps)) + 2 * epsq).
    Proof.
      intros He Heq.
      assert (Hwn : weights_nonneg A mesh) by (intros e q Hin Hq; apply Rlt_le, (c03_mesh_weights_pos e q Hin Hq)).
      pose proof (fe_mass_translations_eps A mesh rho eps cx cy dx dy He Hwn c03_mesh_pou_eps) as H1.
      pose proof c03_mesh_volume_area as H2. pose proof mesh_area_nonneg as Ha.
      set (V := @fe_volume R NumR A mesh) in *. set (a := mesh_area) in *. set (k := rho * (cx * dx + cy * dy)) in *.
      set (m := @fe_mass_form R NumR A rho mesh (@translation R A cx cy) (@translation R A dx dy)) in *.
      replace (rho * V * (cx * dx + cy * dy)) with (k * V) in H1 by (unfold k; ring).
      replace (rho * a * (cx * dx + cy * dy)) with (k * a) by (unfold k; ring).
      replace (m - k * a) with ((m - k * V) + k * (V - a)) by ring.
      eapply Rle_trans; [apply Rabs_triang|]. rewrite (Rabs_mult k (V - a)).
      pose proof (Rabs_pos k) as Hk. set (K := Rabs k) in *. set (eta := eps * (2 + eps)) in *.
      assert (Heta : 0 <= eta) by (unfold eta; nra).
      apply Rabs_le_between in H2.
      assert (HV : V <= a * (1 + 2 * epsq)) by lra.
      assert (HVa : Rabs (V - a) <= 2 * a * epsq) by (apply Rabs_le; lra).
      assert (T1 : K * eta * V <= K * eta * (a * (1 + 2 * epsq))) by (apply Rmult_le_compat_l; [apply Rmult_le_pos; assumption|exact HV]).
      assert (T2 : K * Rabs (V - a) <= K * (2 * a * epsq)) by (apply Rmult_le_compat_l; assumption).
      replace (K * a * ((1 + 2 * epsq) * eta + 2 * epsq)) with (K * eta * (a * (1 + 2 * epsq)) + K * (2 * a * epsq)) by ring.
      lra.
    Qed.
    Theorem c03_mass_total_exact rho cx cy dx dy : eps = 0 -> epsq = 0 ->
      @fe_mass_form R NumR A rho mesh (@translation R A cx cy) (@translation R A dx dy) = rho * mesh_area * (cx * dx + cy * dy).
    Proof.
      intros E1 E2. pose proof (c03_mass_total_eps rho cx cy dx dy) as H. rewrite E1, E2 in H.
      specialize (H (Rle_refl 0) (Rle_refl 0)). replace ((1 + 2 * 0) * (0 * (2 + 0)) + 2 * 0) with 0 in H by ring.
      rewrite Rmult_0_r in H. apply Rabs_le0 in H. lra.
    Qed.
  End Quad.

  (* ---------- the Newmark translation theorem on meshes built from exact reference tables: the only premises left about
     the mesh are counter-clockwise elements and unisolvence of the quadrature points *)
  Theorem c03_rigid_translation (d : nat) (epsq : R) (pts : list (R * R)) rho E nu g b cx cy ox oy
      (solve : @nfield R A -> R -> @nfield R A) (dts : list R) :
    eps = 0 -> TriQuadExact d epsq pts ws -> (forall ct, In ct els -> ccw (snd ct)) ->
    unisolvent A mesh ->
    0 < rho -> 0 < E -> -1 < nu < 1 / 2 -> 0 < b ->
    (forall Up dt, dt <> 0 -> fe_stationary A mesh rho E nu b dt Up (solve Up dt)) ->
    (forall dt, In dt dts -> dt <> 0) ->
    @newmark_run R NumR (@dof A) g b solve
       (mkState (@translation R A ox oy) (@translation R A cx cy) (@fzero R NumR (@dof A))) dts
    = mkState (@fadd R NumR (@dof A) (@translation R A ox oy) (@fscal R NumR (@dof A) (fold_right Rplus 0 dts) (@translation R A cx cy)))
              (@translation R A cx cy) (@fzero R NumR (@dof A)).
  Proof.
    intros He HQ Hccw Hu Hr HE Hnu Hb Hst Hnz.
    apply (fe_rigid_translation A mesh rho E nu g b cx cy ox oy solve dts Hr HE Hnu Hb); try assumption.
    - apply (c03_mesh_weights_pos d epsq pts HQ Hccw).
    - apply (c03_mesh_grad_sums_zero He). intros ct Hct. pose proof (Hccw ct Hct) as H. unfold ccw in H. lra.
  Qed.
End Mesh.

(* the premises are satisfiable: one counter-clockwise P1 triangle, the exact P1 tables at the centroid, the one-point rule *)
Lemma c03_premises_satisfiable :
  let tabs : list reftab := [([1 / 3; 1 / 3; 1 / 3], ([1; 0; -1], [0; 1; -1]))] in
  let els : list (list nat * tri) := [([0; 1; 2]%nat, ((0, 0), (2, 0), (0, 1)))] in
  (forall t, In t tabs -> exists q, RefIds 1 0 p1_nodes q (fst t) (fst (snd t)) (snd (snd t))) /\
  (forall ct, In ct els -> length (fst ct) = length p1_nodes) /\
  TriQuadExact 1 0 [p1_q] [1 / 2] /\ length [1 / 2] = length tabs /\ (forall ct, In ct els -> ccw (snd ct)) /\
  mesh_area nat els = 1.
Proof.
  cbv zeta. split; [|split; [|split; [|split; [|split]]]].
  - intros t [<-|[]]. exists p1_q. exact p1_refids_exact.
  - intros ct [<-|[]]. reflexivity.
  - exact p1_quad_exact.
  - reflexivity.
  - intros ct [<-|[]]. apply nonvacuous_triangle.
  - unfold mesh_area. cbn [map snd rsum tri_sarea]. unfold tri_area_signed. cbn [fst snd].
    replace (((2 - 0) * (1 - 0) - (0 - 0) * (0 - 0)) / 2) with 1 by field. rewrite Rabs_R1. ring.
Qed.

(* ---------- the statements of props/P_C15.v (hypotheses in reading order) *)
Lemma c03_mesh_premises : forall (A : Type) (p : nat) (nodes : list (R * R)) (ws : list R) (tabs : list reftab)
    (els : list (list A * tri)) (d : nat) (epsq : R) (pts : list (R * R)),
  (forall t, In t tabs -> exists q, RefIds p 0 nodes q (fst t) (fst (snd t)) (snd (snd t))) ->
  (forall ct, In ct els -> length (fst ct) = length nodes) ->
  TriQuadExact d epsq pts ws -> (forall ct, In ct els -> ccw (snd ct)) ->
  partition_of_unity A (c03_mesh ws tabs els) /\ grad_sums_zero A (c03_mesh ws tabs els) /\ weights_pos A (c03_mesh ws tabs els).
Proof.
  intros A p nodes ws tabs els d epsq pts Ht Hc HQ Hccw. split; [|split].
  - exact (c03_mesh_partition_of_unity A p 0 nodes ws tabs els Ht Hc eq_refl).
  - apply (c03_mesh_grad_sums_zero A p 0 nodes ws tabs els Ht Hc eq_refl).
    intros ct Hct. pose proof (Hccw ct Hct) as H. unfold ccw in H. apply Rgt_not_eq, H.
  - exact (c03_mesh_weights_pos A ws tabs els d epsq pts HQ Hccw).
Qed.
Lemma mass_total_density_area_eps : forall (A : Type) (p : nat) (eps : R) (nodes : list (R * R)) (ws : list R)
    (tabs : list reftab) (els : list (list A * tri)) (d : nat) (epsq : R) (pts : list (R * R)) (rho cx cy dx dy : R),
  (forall t, In t tabs -> exists q, RefIds p eps nodes q (fst t) (fst (snd t)) (snd (snd t))) ->
  (forall ct, In ct els -> length (fst ct) = length nodes) ->
  TriQuadExact d epsq pts ws -> length ws = length tabs -> (forall ct, In ct els -> ccw (snd ct)) ->
  0 <= eps -> 0 <= epsq ->
  Rabs (@fe_mass_form R NumR A rho (c03_mesh ws tabs els) (@translation R A cx cy) (@translation R A dx dy)
        - rho * mesh_area A els * (cx * dx + cy * dy))
  <= Rabs (rho * (cx * dx + cy * dy)) * mesh_area A els * ((1 + 2 * epsq) * (eps * (2 + eps)) + 2 * epsq).
Proof.
  intros A p eps nodes ws tabs els d epsq pts rho cx cy dx dy Ht Hc HQ Hl Hccw He Heq.
  exact (c03_mass_total_eps A p eps nodes ws tabs els Ht Hc d epsq pts HQ Hl Hccw rho cx cy dx dy He Heq).
Qed.
Lemma mass_total_density_area_exact : forall (A : Type) (p : nat) (nodes : list (R * R)) (ws : list R)
    (tabs : list reftab) (els : list (list A * tri)) (d : nat) (pts : list (R * R)) (rho cx cy dx dy : R),
  (forall t, In t tabs -> exists q, RefIds p 0 nodes q (fst t) (fst (snd t)) (snd (snd t))) ->
  (forall ct, In ct els -> length (fst ct) = length nodes) ->
  TriQuadExact d 0 pts ws -> length ws = length tabs -> (forall ct, In ct els -> ccw (snd ct)) ->
  @fe_mass_form R NumR A rho (c03_mesh ws tabs els) (@translation R A cx cy) (@translation R A dx dy)
  = rho * mesh_area A els * (cx * dx + cy * dy).
Proof.
  intros A p nodes ws tabs els d pts rho cx cy dx dy Ht Hc HQ Hl Hccw.
  exact (c03_mass_total_exact A p 0 nodes ws tabs els Ht Hc d 0 pts HQ Hl Hccw rho cx cy dx dy eq_refl eq_refl).
Qed.
Lemma c03_rigid_translation_exact : forall (A : Type) (p : nat) (nodes : list (R * R)) (ws : list R) (tabs : list reftab)
    (els : list (list A * tri)) (d : nat) (epsq : R) (pts : list (R * R)) (rho E nu g b cx cy ox oy : R)
    (solve : @nfield R A -> R -> @nfield R A) (dts : list R),
  (forall t, In t tabs -> exists q, RefIds p 0 nodes q (fst t) (fst (snd t)) (snd (snd t))) ->
  (forall ct, In ct els -> length (fst ct) = length nodes) ->
  TriQuadExact d epsq pts ws -> (forall ct, In ct els -> ccw (snd ct)) ->
  unisolvent A (c03_mesh ws tabs els) ->
  0 < rho -> 0 < E -> -1 < nu < 1 / 2 -> 0 < b ->
  (forall Up dt, dt <> 0 -> fe_stationary A (c03_mesh ws tabs els) rho E nu b dt Up (solve Up dt)) ->
  (forall dt, In dt dts -> dt <> 0) ->
  @newmark_run R NumR (@dof A) g b solve (mkState (@translation R A ox oy) (@translation R A cx cy) (@fzero R NumR (@dof A))) dts
  = mkState (@fadd R NumR (@dof A) (@translation R A ox oy) (@fscal R NumR (@dof A) (fold_right Rplus 0 dts) (@translation R A cx cy)))
            (@translation R A cx cy) (@fzero R NumR (@dof A)).
Proof.
  intros A p nodes ws tabs els d epsq pts rho E nu g b cx cy ox oy solve dts Ht Hc HQ Hccw.
  exact (c03_rigid_translation A p 0 nodes ws tabs els Ht Hc d epsq pts rho E nu g b cx cy ox oy solve dts eq_refl HQ Hccw).
Qed.
Lemma lame_moduli : forall E nu : R,
  (le_mu E nu = E / (2 * (1 + nu)) /\ le_kappa E nu = E / (3 * (1 - 2 * nu))) /\
  (0 < E -> -1 < nu < 1 / 2 -> 0 < le_mu E nu /\ 0 < le_kappa E nu).
Proof. intros E nu. exact (conj (le_moduli_closed E nu) (le_moduli_pos E nu)). Qed.
