(* C04, part H: the convex clause of the property over LISTS OF R, tied to the return of the outer-loop model.
   "For convex problems the returned point coincides with the unique constrained minimizer":
     - differentiable-convex interface over vectors = lists of R of a fixed length n (gradients as lists, pairing = dot product);
     - a normal return of al_solve whose oracles are the constraint values and the gradient of the augmented Lagrangian of a
       convex problem (objective convex, every c_i concave, first-order sense) is tol-optimal:
         f(x) - f(y) <= tol*|y - x| + tol/(2-sqrt 2) * sum_i max(c_i(x), lam_i/kappa0_i)    for EVERY feasible y,
         f(xs) - f(x) <= tol * sum_i ls_i/kappa0_i                                        (x may be slightly infeasible),
       and for a mu-strongly convex objective
         |x - xs| <= (tol + sqrt(tol^2 + 4 mu T)) / (2 mu),  T = the two sums above;
     - tol = 0 (exact KKT): global constrained minimiser, unique under strict convexity. *)
From Coq Require Import Reals Lra Lia List Bool Psatz.
From Coquelicot Require Import Rcomplements.
From OV.base Require Import Num.
From OV.gen Require Import Gen_ConstrainedObjective Gen_AlSolver Gen_BoundConstrainedObjective.
From OV.model Require Import M_C04_AL.
From OV.proofs Require Import L_C04.
Import ListNotations.
Local Open Scope R_scope.

(* ------------------------------------------------------------------ vectors *)
Definition vsub (a b : list R) : list R := map2 Rminus a b.
Definition dot (a b : list R) : R := fold_right Rplus 0 (map2 Rmult a b).
Definition sumR (l : list R) : R := fold_right Rplus 0 l.

Lemma dot_nil_l b : dot [] b = 0.
Proof. reflexivity. Qed.
Lemma dot_nil_r a : dot a [] = 0.
Proof. destruct a; reflexivity. Qed.
Lemma dot_cons a b x y : dot (x :: a) (y :: b) = x * y + dot a b.
Proof. reflexivity. Qed.

Lemma map2_length {A B C} (f : A -> B -> C) a b : length a = length b -> length (map2 f a b) = length a.
Proof.
  revert b. induction a as [|x a IH]; intros [|y b] H; cbn [map2 length] in *; try discriminate; try reflexivity.
  f_equal. apply IH. lia.
Qed.

Lemma SS_vsub_sym a b : SS (vsub a b) = SS (vsub b a).
Proof.
  unfold vsub. revert b. induction a as [|x a IH]; intros [|y b]; cbn [map2]; try reflexivity.
  rewrite !SS_cons, IH. ring.
Qed.

(* Cauchy-Schwarz for the model's norm *)
Lemma dot_sq_le a : forall b, dot a b * dot a b <= SS a * SS b.
Proof.
  induction a as [|x a IH]; intros [|y b].
  - rewrite dot_nil_l, SS_nil. lra.
  - rewrite dot_nil_l, SS_nil. lra.
  - rewrite dot_nil_r, SS_nil. lra.
  - rewrite dot_cons, !SS_cons. specialize (IH b).
    pose proof (SS_nonneg a) as HA. pose proof (SS_nonneg b) as HB.
    set (D := dot a b) in *. set (A := SS a) in *. set (B := SS b) in *.
    assert (H2 : 2 * (x * y * D) <= x * x * B + y * y * A).
    { destruct (Rle_dec (2 * (x * y * D)) 0) as [Hn|Hp].
      - assert (0 <= x * x * B) by (apply Rmult_le_pos; [apply Rle_0_sqr | exact HB]).
        assert (0 <= y * y * A) by (apply Rmult_le_pos; [apply Rle_0_sqr | exact HA]). lra.
      - apply sq_le_le; [lra| |].
        + assert (0 <= x * x * B) by (apply Rmult_le_pos; [apply Rle_0_sqr | exact HB]).
          assert (0 <= y * y * A) by (apply Rmult_le_pos; [apply Rle_0_sqr | exact HA]). lra.
        + pose proof (Rle_0_sqr (x * x * B - y * y * A)) as Q1. unfold Rsqr in Q1.
          assert (Q2 : 0 <= (x * y) * (x * y) * (A * B - D * D)) by (apply Rmult_le_pos; [apply Rle_0_sqr | lra]).
          lra. }
    nra.
Qed.

Lemma abs_dot_le a b : Rabs (dot a b) <= @norm2 R NumR a * @norm2 R NumR b.
Proof.
  rewrite !norm2_SS. pose proof (SS_nonneg a). pose proof (SS_nonneg b).
  rewrite <- sqrt_mult by assumption.
  rewrite <- sqrt_Rsqr_abs. apply sqrt_le_1_alt. unfold Rsqr. apply dot_sq_le.
Qed.

Lemma norm2_nonneg v : 0 <= @norm2 R NumR v.
Proof. rewrite norm2_SS. apply sqrt_pos. Qed.
Lemma norm2_sq v : @norm2 R NumR v * @norm2 R NumR v = SS v.
Proof. rewrite norm2_SS. apply sqrt_sqrt. apply SS_nonneg. Qed.
Lemma norm2_vsub_sym a b : @norm2 R NumR (vsub a b) = @norm2 R NumR (vsub b a).
Proof. rewrite !norm2_SS, SS_vsub_sym. reflexivity. Qed.

(* acc - mu*g, and the gradient of the Lagrangian  grad f - sum_i mu_i grad c_i  as a vector *)
Definition vaxpy (mu : R) (g acc : list R) : list R := map2 (fun gi ai => ai - mu * gi) g acc.
Fixpoint lagr_grad (gfx : list R) (l : list (R * list R)) : list R :=
  match l with [] => gfx | (mu, g) :: r => vaxpy mu g (lagr_grad gfx r) end.

Lemma dot_vaxpy mu g : forall acc w, length g = length acc -> dot (vaxpy mu g acc) w = dot acc w - mu * dot g w.
Proof.
  unfold vaxpy. induction g as [|gi g IH]; intros [|ai acc] [|wi w] H; cbn [length] in H; try discriminate;
    cbn [map2]; rewrite ?dot_nil_l, ?dot_nil_r; try lra.
  rewrite !dot_cons, IH by lia. ring.
Qed.

Lemma lagr_grad_length n gfx l : length gfx = n -> Forall (fun mg => length (snd mg) = n) l -> length (lagr_grad gfx l) = n.
Proof.
  intros Hg. induction l as [|[mu g] r IH]; intros H; cbn [lagr_grad]; [exact Hg|].
  inversion H as [|? ? H1 H2]; subst. cbn [snd] in H1. specialize (IH H2).
  unfold vaxpy. rewrite map2_length; lia.
Qed.

(* ------------------------------------------------------------------ abstract first-order lemmas, hypotheses only at the points used *)
Section Pointwise.
  Variable V : Type.
  Variable f : V -> R.
  Variable df : V -> V -> R.

  Definition concave_at (x y : V) (cons : conlist V) : Prop :=
    List.Forall (fun '(_, c, dc) => c y <= c x + dc x y) cons.

  Lemma pairing_lower_pt x y cons : mult_nonneg V cons -> concave_at x y cons -> feasible V cons y ->
    - comp_slack V x cons <= lagr_pairing V x cons y.
  Proof.
    induction cons as [|[[lam c] dc] r IH]; intros Hl HC HF; cbn [lagr_pairing comp_slack]; [lra|].
    inversion Hl as [|? ? H1 Hl']; inversion HC as [|? ? H4 HC']; inversion HF as [|? ? H5 HF']; subst.
    cbn beta iota in H1, H4, H5. specialize (IH Hl' HC' HF').
    assert (lam * (c y - c x) <= lam * dc x y) by (apply Rmult_le_compat_l; lra).
    assert (lam * c x <= lam * Rmax (c x) 0) by (apply Rmult_le_compat_l; [lra | apply Rmax_l]).
    assert (0 <= lam * c y) by (apply Rmult_le_pos; lra). lra.
  Qed.

  Lemma pairing_lower_exact_pt xs x cons : kkt_rows_exact V xs cons -> concave_at xs x cons ->
    - weighted_violation V x cons <= lagr_pairing V xs cons x.
  Proof.
    induction cons as [|[[lam c] dc] r IH]; intros HK HC; cbn [lagr_pairing weighted_violation]; [lra|].
    inversion HK as [|? ? H123 HK']; inversion HC as [|? ? H4 HC']; subst.
    cbn beta iota in H123, H4. destruct H123 as (H1 & H2 & H3). specialize (IH HK' HC').
    assert (lam * (c x - c xs) <= lam * dc xs x) by (apply Rmult_le_compat_l; lra).
    assert (lam * (- c x) <= lam * Rmax (- c x) 0) by (apply Rmult_le_compat_l; [lra | apply Rmax_l]). lra.
  Qed.

  (* approximate KKT at x (stationarity defect e in the direction of y), f convex at x, constraints concave at x:
     x is (e + complementarity slack)-optimal against the feasible point y *)
  Theorem approx_KKT_gap x y cons e :
    f x + df x y <= f y -> Rabs (df x y - lagr_pairing V x cons y) <= e ->
    mult_nonneg V cons -> concave_at x y cons -> feasible V cons y ->
    f x - f y <= e + comp_slack V x cons.
  Proof.
    intros Hf Hst Hl HC HF. pose proof (pairing_lower_pt x y cons Hl HC HF). apply Rabs_le_between in Hst. lra.
  Qed.

  (* the other side: against an exact KKT point xs, x (possibly slightly infeasible) cannot be much better *)
  Theorem exact_KKT_lower xs x cons_s :
    f xs + df xs x <= f x -> df xs x = lagr_pairing V xs cons_s x -> kkt_rows_exact V xs cons_s -> concave_at xs x cons_s ->
    f xs - f x <= weighted_violation V x cons_s.
  Proof. intros Hf HS HK HC. pose proof (pairing_lower_exact_pt xs x cons_s HK HC). lra. Qed.

  Theorem approx_KKT_distance_pt x xs cons cons_s mu eg d :
    f x + df x xs + mu / 2 * (d * d) <= f xs ->
    f xs + df xs x + mu / 2 * (d * d) <= f x ->
    Rabs (df x xs - lagr_pairing V x cons xs) <= eg * d ->
    mult_nonneg V cons -> concave_at x xs cons -> feasible V cons xs ->
    df xs x = lagr_pairing V xs cons_s x -> kkt_rows_exact V xs cons_s -> concave_at xs x cons_s ->
    mu * (d * d) <= eg * d + comp_slack V x cons + weighted_violation V x cons_s.
  Proof.
    intros SCx SCs Hst Hl HC HF HS HK HCs.
    pose proof (pairing_lower_pt x xs cons Hl HC HF). pose proof (pairing_lower_exact_pt xs x cons_s HK HCs).
    apply Rabs_le_between in Hst. lra.
  Qed.
End Pointwise.

Lemma quad_bound mu eg d T : 0 < mu -> 0 <= eg -> 0 <= d -> 0 <= T -> mu * (d * d) <= eg * d + T ->
  d <= (eg + sqrt (eg * eg + 4 * mu * T)) / (2 * mu).
Proof.
  intros Hmu Heg Hd T0 Q.
  assert (T1 : 0 <= mu * T) by (apply Rmult_le_pos; lra).
  assert (HT : 0 <= eg * eg + 4 * mu * T) by nra.
  set (s := sqrt (eg * eg + 4 * mu * T)).
  assert (Hs : 0 <= s) by apply sqrt_pos.
  assert (Hss : s * s = eg * eg + 4 * mu * T) by (apply sqrt_sqrt; exact HT).
  apply Rmult_le_reg_r with (2 * mu); [lra|]. unfold Rdiv. rewrite Rmult_assoc, Rinv_l, Rmult_1_r by lra.
  destruct (Rle_dec (d * (2 * mu)) (eg + s)) as [|N]; [assumption|exfalso].
  assert (Hgt : s < 2 * mu * d - eg) by lra.
  assert (s * s < (2 * mu * d - eg) * (2 * mu * d - eg)) by nra.
  assert (0 < 4 * mu * (mu * (d * d) - eg * d - T)) by nra.
  assert (0 < mu * (d * d) - eg * d - T) by nra. lra.
Qed.

(* ------------------------------------------------------------------ the differentiable-convex interface over lists of R *)
Definition cfun : Type := ((list R -> R) * (list R -> list R))%type.        (* a constraint c_i >= 0 and its gradient *)
Definition dfv (g : list R -> list R) (x y : list R) : R := dot (g x) (vsub y x).     (* <grad(x), y - x> *)
Definition grad_len (n : nat) (g : list R -> list R) : Prop := forall x, length x = n -> length (g x) = n.
Definition dconvex (n : nat) (f : list R -> R) (gf : list R -> list R) : Prop :=
  forall x y, length x = n -> length y = n -> f x + dfv gf x y <= f y.
Definition dstrict (n : nat) (f : list R -> R) (gf : list R -> list R) : Prop :=
  forall x y, length x = n -> length y = n -> y <> x -> f x + dfv gf x y < f y.
Definition dstrong (n : nat) (mu : R) (f : list R -> R) (gf : list R -> list R) : Prop :=
  forall x y, length x = n -> length y = n -> f x + dfv gf x y + mu / 2 * SS (vsub y x) <= f y.
Definition dconcave (n : nat) (cg : cfun) : Prop :=
  grad_len n (snd cg) /\ forall x y, length x = n -> length y = n -> fst cg y <= fst cg x + dfv (snd cg) x y.
Definition feasible_l (cs : list cfun) (y : list R) : Prop := List.Forall (fun cg : cfun => 0 <= fst cg y) cs.

Definition cvals (cs : list cfun) (x : list R) : list R := map (fun cg : cfun => fst cg x) cs.
Definition mgrads (mus : list R) (cs : list cfun) (x : list R) : list (R * list R) :=
  map2 (fun mu (cg : cfun) => (mu, snd cg x)) mus cs.
Definition pair_cons (mus : list R) (cs : list cfun) : conlist (list R) :=
  map2 (fun mu (cg : cfun) => (mu, fst cg, dfv (snd cg))) mus cs.
(* the effective multipliers of the augmented Lagrangian: the generated update statement applied per constraint *)
Definition eff_mult (lam kappa c : list R) : list R := zip3 (@sub_lam_update R NumR) lam kappa c.
(* grad_x AL(x; lam, kappa) of the problem (f, cs):  grad f(x) - sum_i max(lam_i - kappa_i c_i(x), 0) grad c_i(x) *)
Definition al_gradient (gf : list R -> list R) (cs : list cfun) (x lam kappa : list R) : list R :=
  lagr_grad (gf x) (mgrads (eff_mult lam kappa (cvals cs x)) cs x).
(* exact KKT point of the problem with multipliers ls *)
Definition kkt_point (n : nat) (gf : list R -> list R) (cs : list cfun) (xs ls : list R) : Prop :=
  length xs = n /\ length ls = length cs
  /\ List.Forall (fun a => a = 0) (lagr_grad (gf xs) (mgrads ls cs xs))
  /\ List.Forall2 (fun l (cg : cfun) => 0 <= l /\ 0 <= fst cg xs /\ l * fst cg xs = 0) ls cs.

Lemma Forall_pair_cons (P : R * (list R -> R) * (list R -> list R -> R) -> Prop) (Q : R -> Prop) (S : cfun -> Prop) :
  (forall mu cg, Q mu -> S cg -> P (mu, fst cg, dfv (snd cg))) ->
  forall mus cs, List.Forall Q mus -> List.Forall S cs -> List.Forall P (pair_cons mus cs).
Proof.
  intros HP. unfold pair_cons. induction mus as [|mu mus IH]; intros [|cg cs] HQ HS; cbn [map2]; try constructor.
  - inversion HQ; inversion HS; subst. apply HP; assumption.
  - inversion HQ; inversion HS; subst. apply IH; assumption.
Qed.

Lemma Forall_true {A} (l : list A) : List.Forall (fun _ => True) l.
Proof. induction l; constructor; auto. Qed.

Lemma dot_zero v w : List.Forall (fun a => a = 0) v -> dot v w = 0.
Proof.
  intros H. revert w. induction H as [|a v Ha Hv IH]; intros [|wi w]; rewrite ?dot_nil_l, ?dot_nil_r; try reflexivity.
  rewrite dot_cons, IH, Ha. ring.
Qed.

(* <grad f(x) - sum mu_i grad c_i(x), w> = <grad f(x), w> - sum mu_i <grad c_i(x), w>  with w = y - x *)
Lemma dot_lagr_grad n gf (cs : list cfun) x y : length (gf x) = n ->
  List.Forall (fun cg : cfun => length (snd cg x) = n) cs ->
  forall mus, dot (lagr_grad (gf x) (mgrads mus cs x)) (vsub y x) = dfv gf x y - lagr_pairing (list R) x (pair_cons mus cs) y.
Proof.
  intros Hg Hc. unfold mgrads, pair_cons. induction Hc as [|cg cs H1 H2 IH]; intros [|mu mus]; cbn [map2 lagr_grad lagr_pairing];
    try (unfold dfv; lra).
  rewrite dot_vaxpy.
  - rewrite IH. unfold dfv. cbn [snd]. ring.
  - cbn [snd]. rewrite H1. symmetry. apply lagr_grad_length; [exact Hg|].
    clear IH. revert mus. induction H2 as [|cg' cs' A B IH']; intros [|m ms]; cbn [map2]; constructor; [exact A | apply IH'].
Qed.

Lemma grads_len n (cs : list cfun) x : length x = n -> List.Forall (dconcave n) cs ->
  List.Forall (fun cg : cfun => length (snd cg x) = n) cs.
Proof. intros Hx H. eapply Forall_impl; [|exact H]. intros cg [Hl _]. apply Hl. exact Hx. Qed.

(* ------------------------------------------------------------------ slack sums controlled by the termination test *)
Lemma row_slack t c l k0 kap : 0 < t -> kkt_row t (c, l, k0) -> 0 <= l -> 0 < k0 -> 0 <= kap ->
  @sub_lam_update R NumR l kap c * Rmax c 0 <= t / (2 - sqrt 2) * Rmax c (l / k0).
Proof.
  intros Ht (H1 & H2 & H3) Hl Hk0 Hkap. rewrite sub_lam_update_closed.
  destruct two_minus_sqrt2_pos as [Hp _].
  set (q := t / (2 - sqrt 2)) in *.
  assert (Hq : 0 < q) by (unfold q; apply Rmult_lt_0_compat; [exact Ht | apply Rinv_0_lt_compat; exact Hp]).
  set (L := l / k0). assert (EL : l = L * k0) by (unfold L; field; lra).
  assert (HL : 0 <= L) by (unfold L; apply Rmult_le_pos; [exact Hl | left; apply Rinv_0_lt_compat; exact Hk0]).
  assert (HM : L <= Rmax c L) by apply Rmax_r. assert (HMc : c <= Rmax c L) by apply Rmax_l.
  destruct (Rle_dec c 0) as [Hc|Hc].
  - rewrite (Rmax_right c 0) by exact Hc. rewrite Rmult_0_r. apply Rmult_le_pos; lra.
  - rewrite (Rmax_left c 0) by lra.
    assert (Hmu : 0 <= Rmax (l - kap * c) 0 <= l).
    { split; [apply Rmax_r|]. apply Rmax_lub; [|exact Hl]. assert (0 <= kap * c) by (apply Rmult_le_pos; lra). lra. }
    assert (Rmax (l - kap * c) 0 * c <= l * c) by (apply Rmult_le_compat_r; lra).
    assert (l * c <= q * Rmax c L).
    { unfold Rmin in H3. destruct (Rle_dec (c * k0) l) as [Hm|Hm].
      - (* c k0 <= q *) rewrite EL. replace (L * k0 * c) with (L * (c * k0)) by ring.
        assert (L * (c * k0) <= L * q) by (apply Rmult_le_compat_l; lra). assert (q * L <= q * Rmax c L) by (apply Rmult_le_compat_l; lra). lra.
      - assert (l * c <= q * c) by (apply Rmult_le_compat_r; lra). assert (q * c <= q * Rmax c L) by (apply Rmult_le_compat_l; lra). lra. }
    lra.
Qed.

Lemma row_violation t c l k0 ls : 0 < t -> kkt_row t (c, l, k0) -> 0 < k0 -> 0 <= ls -> ls * Rmax (- c) 0 <= t * (ls / k0).
Proof.
  intros Ht (H1 & _ & _) Hk0 Hls.
  assert (Hi : 0 < / k0) by (apply Rinv_0_lt_compat; exact Hk0).
  assert (Hc : - c <= t / k0).
  { apply Rmult_le_reg_r with k0; [exact Hk0|]. unfold Rdiv. rewrite Rmult_assoc, Rinv_l, Rmult_1_r by lra. lra. }
  assert (Hm : Rmax (- c) 0 <= t / k0).
  { apply Rmax_lub; [exact Hc|]. unfold Rdiv. apply Rmult_le_pos; lra. }
  replace (t * (ls / k0)) with (ls * (t / k0)) by (unfold Rdiv; ring). apply Rmult_le_compat_l; assumption.
Qed.

Definition slack_sum (c lam kappa0 : list R) : R := sumR (zip3 (fun ci li ki => Rmax ci (li / ki)) c lam kappa0).
Definition mult_sum (ls kappa0 : list R) : R := sumR (map2 (fun l k => l / k) ls kappa0).

Lemma comp_slack_le t (cs : list cfun) x : 0 < t -> forall lam kappa kappa0,
  length lam = length cs -> length kappa = length cs -> length kappa0 = length cs ->
  nonneg lam -> nonneg kappa -> List.Forall (fun a => 0 < a) kappa0 ->
  List.Forall (kkt_row t) (zip3 triple (cvals cs x) lam kappa0) ->
  comp_slack (list R) x (pair_cons (eff_mult lam kappa (cvals cs x)) cs) <= t / (2 - sqrt 2) * slack_sum (cvals cs x) lam kappa0.
Proof.
  intros Ht. unfold slack_sum, pair_cons, eff_mult.
  induction cs as [|cg cs IH]; intros [|l lam] [|k kappa] [|k0 kappa0] L1 L2 L3 Hl Hk Hk0 HR; cbn [length] in *; try discriminate.
  - cbn. lra.
  - cbn [cvals map zip3 map2 comp_slack sumR fold_right] in *.
    inversion Hl; inversion Hk; inversion Hk0; inversion HR; subst.
    assert (I := IH lam kappa kappa0 ltac:(lia) ltac:(lia) ltac:(lia) ltac:(assumption) ltac:(assumption) ltac:(assumption) ltac:(assumption)).
    pose proof (row_slack t (fst cg x) l k0 k Ht ltac:(assumption) ltac:(assumption) ltac:(assumption) ltac:(assumption)) as Rw.
    unfold cvals in I. unfold sumR in I. lra.
Qed.

Lemma weighted_violation_le t (cs : list cfun) x : 0 < t -> forall ls lam kappa0,
  length ls = length cs -> length lam = length cs -> length kappa0 = length cs ->
  nonneg ls -> List.Forall (fun a => 0 < a) kappa0 ->
  List.Forall (kkt_row t) (zip3 triple (cvals cs x) lam kappa0) ->
  weighted_violation (list R) x (pair_cons ls cs) <= t * mult_sum ls kappa0.
Proof.
  intros Ht. unfold mult_sum, pair_cons.
  induction cs as [|cg cs IH]; intros [|l0 ls] [|l lam] [|k0 kappa0] L1 L2 L3 Hl Hk0 HR; cbn [length] in *; try discriminate.
  - cbn. lra.
  - cbn [cvals map zip3 map2 weighted_violation sumR fold_right] in *.
    inversion Hl; inversion Hk0; inversion HR; subst.
    assert (I := IH ls lam kappa0 ltac:(lia) ltac:(lia) ltac:(lia) ltac:(assumption) ltac:(assumption) ltac:(assumption)).
    pose proof (row_violation t (fst cg x) l k0 l0 Ht ltac:(assumption) ltac:(assumption) ltac:(assumption)) as Rw.
    unfold sumR in I. lra.
Qed.

Lemma eff_mult_nonneg lam kappa c : nonneg (eff_mult lam kappa c).
Proof. apply lam_update_nonneg. Qed.

Lemma le_vec_nonneg a b : le_vec a b -> nonneg a -> nonneg b.
Proof.
  induction 1 as [|x y a b Hxy Hab IH]; intros H; [constructor|]. inversion H; subst. constructor; [lra | apply IH; assumption].
Qed.

Lemma kkt_point_rows n gf cs xs ls : kkt_point n gf cs xs ls -> kkt_rows_exact (list R) xs (pair_cons ls cs) /\ nonneg ls.
Proof.
  intros (_ & _ & _ & H). unfold pair_cons, kkt_rows_exact.
  induction H as [|l cg ls cs (A & B & Cc) H IH]; cbn [map2]; split; try constructor.
  - cbn beta iota. repeat split; assumption.
  - apply IH.
  - exact A.
  - apply IH.
Qed.

(* ------------------------------------------------------------------ the problem-level statements *)
Section Problem.
  Variable n : nat.
  Variable f : list R -> R.
  Variable gf : list R -> list R.
  Variable cs : list cfun.
  Hypothesis Hgf : grad_len n gf.
  Hypothesis Hcs : List.Forall (dconcave n) cs.

  Lemma concave_at_pair x y mus : length x = n -> length y = n -> concave_at (list R) x y (pair_cons mus cs).
  Proof.
    intros Hx Hy. unfold concave_at.
    apply (Forall_pair_cons _ (fun _ => True) (dconcave n)); [|apply Forall_true|exact Hcs].
    intros mu cg _ [_ Hc]. cbn beta iota. apply Hc; assumption.
  Qed.
  Lemma feasible_pair y mus : feasible_l cs y -> feasible (list R) (pair_cons mus cs) y.
  Proof.
    intros Hy. unfold feasible. apply (Forall_pair_cons _ (fun _ => True) (fun cg : cfun => 0 <= fst cg y)); [|apply Forall_true|exact Hy].
    intros mu cg _ H. exact H.
  Qed.
  Lemma mult_nonneg_pair mus : nonneg mus -> mult_nonneg (list R) (pair_cons mus cs).
  Proof.
    intros Hm. unfold mult_nonneg. apply (Forall_pair_cons _ (fun a => 0 <= a) (fun _ => True)); [|exact Hm|apply Forall_true].
    intros mu cg H _. exact H.
  Qed.

  (* (x, lam, kappa) passes the termination test of the solver for THIS problem *)
  Definition passes_test (t : R) (x lam kappa kappa0 : list R) : Prop :=
    length x = n /\ length lam = length cs /\ length kappa = length cs /\ length kappa0 = length cs
    /\ nonneg lam /\ nonneg kappa /\ List.Forall (fun a => 0 < a) kappa0
    /\ @norm2 R NumR (al_gradient gf cs x lam kappa) < t
    /\ List.Forall (kkt_row t) (zip3 triple (cvals cs x) lam kappa0).

  Lemma stationarity_defect t x lam kappa kappa0 y : passes_test t x lam kappa kappa0 -> length y = n ->
    Rabs (dfv gf x y - lagr_pairing (list R) x (pair_cons (eff_mult lam kappa (cvals cs x)) cs) y) <= t * @norm2 R NumR (vsub y x).
  Proof.
    intros (Hx & _ & _ & _ & _ & _ & _ & Hg & _) Hy.
    rewrite <- (dot_lagr_grad n gf cs x y (Hgf x Hx) (grads_len n cs x Hx Hcs)).
    eapply Rle_trans; [apply abs_dot_le|]. apply Rmult_le_compat_r; [apply norm2_nonneg|].
    unfold al_gradient in Hg. lra.
  Qed.

  Lemma tol_pos t x lam kappa kappa0 : passes_test t x lam kappa kappa0 -> 0 < t.
  Proof. intros (_ & _ & _ & _ & _ & _ & _ & Hg & _). pose proof (norm2_nonneg (al_gradient gf cs x lam kappa)). lra. Qed.

  (* tol-optimality against every feasible point *)
  Theorem passes_test_gap t x lam kappa kappa0 : dconvex n f gf -> passes_test t x lam kappa kappa0 ->
    forall y, length y = n -> feasible_l cs y ->
    f x - f y <= t * @norm2 R NumR (vsub y x) + t / (2 - sqrt 2) * slack_sum (cvals cs x) lam kappa0.
  Proof.
    intros Hf HP y Hy Hfe. pose proof (tol_pos _ _ _ _ _ HP) as Ht.
    pose proof (stationarity_defect _ _ _ _ _ y HP Hy) as Hst.
    destruct HP as (Hx & L1 & L2 & L3 & Hl & Hk & Hk0 & Hg & HR).
    pose proof (approx_KKT_gap (list R) f (dfv gf) x y _ _ (Hf x y Hx Hy) Hst
                  (mult_nonneg_pair _ (eff_mult_nonneg _ _ _)) (concave_at_pair x y _ Hx Hy) (feasible_pair y _ Hfe)) as G.
    pose proof (comp_slack_le t cs x Ht lam kappa kappa0 L1 L2 L3 Hl Hk Hk0 HR). lra.
  Qed.

  Lemma kkt_point_stationary xs ls x : kkt_point n gf cs xs ls -> dfv gf xs x = lagr_pairing (list R) xs (pair_cons ls cs) x.
  Proof.
    intros (Hx & _ & Hz & _).
    pose proof (dot_lagr_grad n gf cs xs x (Hgf xs Hx) (grads_len n cs xs Hx Hcs) ls) as E.
    rewrite (dot_zero _ _ Hz) in E. lra.
  Qed.

  (* ... and not much better than the constrained minimum either (the returned point may violate constraints by < tol/kappa0) *)
  Theorem passes_test_lower t x lam kappa kappa0 xs ls : dconvex n f gf -> passes_test t x lam kappa kappa0 -> kkt_point n gf cs xs ls ->
    f xs - f x <= t * mult_sum ls kappa0.
  Proof.
    intros Hf HP HK. pose proof (tol_pos _ _ _ _ _ HP) as Ht.
    destruct HP as (Hx & L1 & L2 & L3 & Hl & Hk & Hk0 & Hg & HR).
    pose proof (kkt_point_stationary xs ls x HK) as HS. destruct (kkt_point_rows _ _ _ _ _ HK) as [HKr Hls].
    destruct HK as (Hxs & Lls & _ & _).
    pose proof (exact_KKT_lower (list R) f (dfv gf) xs x _ (Hf xs x Hxs Hx) HS HKr (concave_at_pair xs x _ Hxs Hx)) as G.
    pose proof (weighted_violation_le t cs x Ht ls lam kappa0 Lls L1 L3 Hls Hk0 HR). lra.
  Qed.

  (* strongly convex objective: the returned point is within an explicit O(sqrt tol) distance of the (unique) constrained minimiser *)
  Theorem passes_test_near_min t mu x lam kappa kappa0 xs ls : 0 < mu -> dstrong n mu f gf ->
    passes_test t x lam kappa kappa0 -> kkt_point n gf cs xs ls ->
    @norm2 R NumR (vsub x xs)
      <= (t + sqrt (t * t + 4 * mu * (t / (2 - sqrt 2) * slack_sum (cvals cs x) lam kappa0 + t * mult_sum ls kappa0))) / (2 * mu).
  Proof.
    intros Hmu Hf HP HK. pose proof (tol_pos _ _ _ _ _ HP) as Ht.
    pose proof (kkt_point_stationary xs ls x HK) as HS. destruct (kkt_point_rows _ _ _ _ _ HK) as [HKr Hls].
    assert (Hxs : length xs = n) by (destruct HK as (A & _); exact A).
    assert (Lls : length ls = length cs) by (destruct HK as (_ & A & _); exact A).
    assert (Hfe : feasible_l cs xs).
    { destruct HK as (_ & _ & _ & H). unfold feasible_l. clear - H. induction H as [|l cg ls' cs' (A & B & Cc) H IH]; constructor; assumption. }
    pose proof (stationarity_defect _ _ _ _ _ xs HP Hxs) as Hst. rewrite norm2_vsub_sym in Hst.
    destruct HP as (Hx & L1 & L2 & L3 & Hl & Hk & Hk0 & Hg & HR).
    set (d := @norm2 R NumR (vsub x xs)) in *.
    assert (Hd : 0 <= d) by apply norm2_nonneg.
    assert (Hdd : d * d = SS (vsub x xs)) by apply norm2_sq.
    pose proof (Hf x xs Hx Hxs) as SCx. rewrite SS_vsub_sym, <- Hdd in SCx.
    pose proof (Hf xs x Hxs Hx) as SCs. rewrite <- Hdd in SCs.
    pose proof (approx_KKT_distance_pt (list R) f (dfv gf) x xs _ _ mu t d SCx SCs Hst
                  (mult_nonneg_pair _ (eff_mult_nonneg _ _ _)) (concave_at_pair x xs _ Hx Hxs) (feasible_pair xs _ Hfe)
                  HS HKr (concave_at_pair xs x _ Hxs Hx)) as Q.
    pose proof (comp_slack_le t cs x Ht lam kappa kappa0 L1 L2 L3 Hl Hk Hk0 HR) as B1.
    pose proof (weighted_violation_le t cs x Ht ls lam kappa0 Lls L1 L3 Hls Hk0 HR) as B2.
    pose proof (comp_slack_nonneg (list R) x _ (mult_nonneg_pair _ (eff_mult_nonneg lam kappa (cvals cs x)))) as S0.
    pose proof (weighted_violation_nonneg (list R) x _ (mult_nonneg_pair _ Hls)) as V0.
    apply quad_bound; try lra.
  Qed.

  (* tol = 0: an exact KKT point of a convex problem is a global constrained minimiser; the only one if f is strictly convex *)
  Theorem kkt_point_is_min xs ls : dconvex n f gf -> kkt_point n gf cs xs ls ->
    feasible_l cs xs /\ forall y, length y = n -> feasible_l cs y -> f xs <= f y.
  Proof.
    intros Hf HK. split.
    - destruct HK as (_ & _ & _ & H). unfold feasible_l. clear - H. induction H as [|l cg ls' cs' (A & B & Cc) H IH]; constructor; assumption.
    - intros y Hy Hfe. pose proof (kkt_point_stationary xs ls y HK) as HS. destruct (kkt_point_rows _ _ _ _ _ HK) as [HKr Hls].
      destruct HK as (Hxs & _).
      pose proof (pairing_nonneg (list R) xs (pair_cons ls cs) y) as P.
      (* pairing_nonneg wants concavity for all y: use the pointwise lemma instead *)
      clear P. pose proof (pairing_lower_pt (list R) xs y _ (mult_nonneg_pair _ Hls) (concave_at_pair xs y _ Hxs Hy) (feasible_pair y _ Hfe)) as P.
      assert (Z : comp_slack (list R) xs (pair_cons ls cs) = 0).
      { clear - HKr. unfold kkt_rows_exact in HKr. induction HKr as [|[[l c] dc] r (A & B & Cc) H IH]; cbn [comp_slack]; [reflexivity|].
        rewrite IH. rewrite Rmax_left by lra. lra. }
      pose proof (Hf xs y Hxs Hy). lra.
  Qed.

  Theorem kkt_point_is_unique_min xs ls : dstrict n f gf -> kkt_point n gf cs xs ls ->
    forall y, length y = n -> feasible_l cs y -> y <> xs -> f xs < f y.
  Proof.
    intros Hf HK y Hy Hfe Hne. pose proof (kkt_point_stationary xs ls y HK) as HS. destruct (kkt_point_rows _ _ _ _ _ HK) as [HKr Hls].
    destruct HK as (Hxs & _).
    pose proof (pairing_lower_pt (list R) xs y _ (mult_nonneg_pair _ Hls) (concave_at_pair xs y _ Hxs Hy) (feasible_pair y _ Hfe)) as P.
    assert (Z : comp_slack (list R) xs (pair_cons ls cs) = 0).
    { clear - HKr. unfold kkt_rows_exact in HKr. induction HKr as [|[[l c] dc] r (A & B & Cc) H IH]; cbn [comp_slack]; [reflexivity|].
      rewrite IH. rewrite Rmax_left by lra. lra. }
    pose proof (Hf xs y Hxs Hy Hne). lra.
  Qed.

  (* ---- tied to the solver: a normal return of the outer-loop model whose oracles are this problem's constraint values and
     augmented-Lagrangian gradient (at the returned point) passes the test, for arbitrary sub-problem solver / second-order update *)
  Theorem al_solve_return_passes_test (cfg : @settings R) (orc : @oracles R) kappa0 x0 lam0 kap0 x lam kappa ev :
    al_solve cfg orc kappa0 x0 lam0 kap0 = (Returned x lam kappa, ev) ->
    1 <= penalty_scaling cfg -> nonneg kap0 -> List.Forall (fun a => 0 < a) kappa0 ->
    length x = n -> length lam = length cs -> length kappa = length cs -> length kappa0 = length cs ->
    (forall it, constraint orc it Sub x = cvals cs x) ->
    (forall it, gradAL orc it Sub x lam kappa = al_gradient gf cs x lam kappa) ->
    passes_test (tol cfg) x lam kappa kappa0.
  Proof.
    intros H Hps Hkap Hk0 Lx L1 L2 L3 Oc Og.
    destruct (al_solve_return_is_KKT cfg orc kappa0 x0 lam0 kap0 x lam kappa ev H) as (_ & Hl & Hk & it & _ & Hg & HR).
    unfold passes_test. repeat split; try assumption.
    - eapply le_vec_nonneg; [apply Hk; assumption | exact Hkap].
    - rewrite <- (Og it). exact Hg.
    - rewrite <- (Oc it). exact HR.
  Qed.

  (* headline: normal return of the solver on a convex problem  =>  tol-optimal against every feasible point *)
  Theorem al_solve_convex_return_tol_optimal (cfg : @settings R) (orc : @oracles R) kappa0 x0 lam0 kap0 x lam kappa ev :
    al_solve cfg orc kappa0 x0 lam0 kap0 = (Returned x lam kappa, ev) ->
    1 <= penalty_scaling cfg -> nonneg kap0 -> List.Forall (fun a => 0 < a) kappa0 ->
    length x = n -> length lam = length cs -> length kappa = length cs -> length kappa0 = length cs ->
    (forall it, constraint orc it Sub x = cvals cs x) ->
    (forall it, gradAL orc it Sub x lam kappa = al_gradient gf cs x lam kappa) ->
    dconvex n f gf ->
    forall y, length y = n -> feasible_l cs y ->
    f x - f y <= tol cfg * @norm2 R NumR (vsub y x) + tol cfg / (2 - sqrt 2) * slack_sum (cvals cs x) lam kappa0.
  Proof.
    intros H Hps Hkap Hk0 Lx L1 L2 L3 Oc Og Hf y Hy Hfe.
    apply (passes_test_gap (tol cfg) x lam kappa kappa0 Hf); [|exact Hy|exact Hfe].
    eapply al_solve_return_passes_test; eassumption.
  Qed.
End Problem.

(* ------------------------------------------------------------------ non-vacuity: min x^2 s.t. x - 1 >= 0 over lists of length 1 *)
Definition ex_f (v : list R) : R := match v with [a] => a * a | _ => 0 end.
Definition ex_gf (v : list R) : list R := match v with [a] => [2 * a] | _ => [] end.
Definition ex_c : cfun := ((fun v => match v with [a] => a - 1 | _ => 0 end), (fun v => match v with [_] => [1] | _ => [] end)).

Lemma len1 (v : list R) : length v = 1%nat -> exists a, v = [a].
Proof. destruct v as [|a [|b v]]; cbn; intros H; try discriminate. exists a. reflexivity. Qed.

Example cvx_nonvacuous :
  grad_len 1 ex_gf /\ dstrong 1 2 ex_f ex_gf /\ dconvex 1 ex_f ex_gf /\ dstrict 1 ex_f ex_gf /\ List.Forall (dconcave 1) [ex_c]
  /\ kkt_point 1 ex_gf [ex_c] [1] [2]
  /\ passes_test 1 ex_gf [ex_c] (1 / 10) [1] [2] [1] [1].
Proof.
  assert (S2 : dstrong 1 2 ex_f ex_gf).
  { intros x y Hx Hy. destruct (len1 x Hx) as [a ->]. destruct (len1 y Hy) as [b ->].
    unfold dfv, vsub. cbn [ex_f ex_gf map2]. rewrite dot_cons, dot_nil_l, SS_cons, SS_nil. nra. }
  split; [|split; [exact S2|split; [|split; [|split; [|split]]]]].
  - intros x Hx. destruct (len1 x Hx) as [a ->]. reflexivity.
  - intros x y Hx Hy. pose proof (S2 x y Hx Hy). pose proof (SS_nonneg (vsub y x)). lra.
  - intros x y Hx Hy Hne. destruct (len1 x Hx) as [a ->]. destruct (len1 y Hy) as [b ->].
    unfold dfv, vsub. cbn [ex_f ex_gf map2]. rewrite dot_cons, dot_nil_l.
    assert (b <> a) by (intros ->; apply Hne; reflexivity).
    assert (0 < (b - a) * (b - a)) by (destruct (Rtotal_order b a) as [|[|]]; [nra|contradiction|nra]). lra.
  - constructor; [|constructor]. split.
    + intros x Hx. destruct (len1 x Hx) as [a ->]. reflexivity.
    + intros x y Hx Hy. destruct (len1 x Hx) as [a ->]. destruct (len1 y Hy) as [b ->].
      unfold dfv, vsub. cbn [ex_c fst snd map2]. rewrite dot_cons, dot_nil_l. lra.
  - unfold kkt_point. cbn [length mgrads map2 lagr_grad ex_c snd fst ex_gf vaxpy]. repeat split; try reflexivity.
    + constructor; [lra|constructor].
    + constructor; [|constructor]. unfold ex_c; cbn [fst]. repeat split; lra.
  - unfold passes_test, al_gradient, eff_mult, cvals. cbn [length map zip3 ex_c fst snd mgrads map2 lagr_grad ex_gf vaxpy].
    rewrite sub_lam_update_closed.
    replace (1 - 1) with 0 by ring. rewrite Rmult_0_r, Rminus_0_r, (Rmax_left 2 0) by lra.
    repeat split; try reflexivity.
    + constructor; [lra|constructor].
    + constructor; [lra|constructor].
    + constructor; [lra|constructor].
    + rewrite norm2_SS, SS_cons, SS_nil. replace ((2 * 1 - 2 * 1) * (2 * 1 - 2 * 1) + 0) with 0 by ring. rewrite sqrt_0. lra.
    + constructor; [|constructor]. unfold kkt_row, triple. destruct two_minus_sqrt2_pos as [Hp _].
      assert (0 < 1 / 10 / (2 - sqrt 2)) by (apply Rmult_lt_0_compat; [lra | apply Rinv_0_lt_compat; exact Hp]).
      rewrite Rmult_0_l. rewrite Rmin_left by lra. lra.
Qed.
