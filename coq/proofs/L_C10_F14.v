(* C10, finding F14 characterised: the JVP rule of the spectral tensor functions differentiated a SECOND time at a repeated eigenvalue.
   The regenerated helper is generic in the numeric interface; at dual numbers (M_C10_Dual) it computes what JAX's forward mode computes
   when it differentiates the rule: the opaque eigen-solver then returns (value, tangent) pairs.  Exact witness: f = x^2 (pow_symm(., 2):
   first derivative A E + E A, second derivative E1 E2 + E2 E1, oracles exact), A = diag(1, 1, 2), eigen-pair lam = (1, 1, 2),
   V = [[0,1,0],[-1,0,0],[0,0,1]] (what eigen_sym33_unit returns there).
   (a) with the eigen-solver tangent JAX produces for the direction e00 (dlam = (1/2, 1/2, 0): the MEAN of the split pair, dV = 0 --
       logged from the implementation and replayed on every run) the rule returns the second derivative 1 in entry (0,0); it is 2;
   (b) even with the tangent of an exact differentiable eigen-decomposition of A + s e00 (dlam = (0, 1, 0), dV = 0) the rule returns 0 in
       entry (0,1) for E1 = e01 + e10; it is 1: on the x2 == x1 branch the guarded entry df(x1) is differentiated w.r.t. x1 only -- partials
       (f'', 0) instead of (f''/2, f''/2) of the divided difference. *)
From Coq Require Import Reals QArith Lra Lia Bool Arith List.
From Coquelicot Require Import Coquelicot.
From OV.base Require Import Num.
From OV.gen Require Import Gen_TensorMathJVP.
From OV.model Require Import M_C10.
From OV.model Require Import M_C10_Dual.
From OV.proofs Require Import L_C10 L_C10_DK L_C10_DKV.
From OV.proofs Require Import L_C10_Gen.
Local Open Scope R_scope.

Definition Dm := nat -> nat -> D.
Definition dap9 {X : Type} (f : D -> D -> D -> D -> D -> D -> D -> D -> D -> X) (M : Dm) : X :=
  f (M 0 0)%nat (M 0 1)%nat (M 0 2)%nat (M 1 0)%nat (M 1 1)%nat (M 1 2)%nat (M 2 0)%nat (M 2 1)%nat (M 2 2)%nat.
Definition eighD_t := D -> D -> D -> D -> D -> D -> D -> D -> D -> D * D * D * D * D * D * D * D * D * D * D * D.
Definition dual_helper (eigh : eighD_t) (func dfunc : D -> D) (rel : D -> D -> D) (C Cdot : Dm) :=
  dap9 (dap9 (@jvp_helper_gen D NumD eigh func rel dfunc) C) Cdot.
Definition dc9 (i j : nat) (t : D * D * D * D * D * D * D * D * D) : D :=
  let '(a00, a01, a02, a10, a11, a12, a20, a21, a22) := t in
  match i, j with
  | 0%nat, 0%nat => a00 | 0%nat, 1%nat => a01 | 0%nat, 2%nat => a02
  | 1%nat, 0%nat => a10 | 1%nat, 1%nat => a11 | 1%nat, 2%nat => a12
  | 2%nat, 0%nat => a20 | 2%nat, 1%nat => a21 | 2%nat, 2%nat => a22 | _, _ => (0, 0) end.
(* (value, tangent) matrix from a value matrix and a tangent matrix *)
Definition dmat (M dM : Rm) : Dm := fun i j => (M i j, dM i j).
Definition eighD (lam dlam : nat -> R) (V dV : Rm) : eighD_t := fun _ _ _ _ _ _ _ _ _ =>
  ((lam 0, dlam 0), (lam 1, dlam 1), (lam 2, dlam 2), (V 0 0, dV 0 0), (V 0 1, dV 0 1), (V 0 2, dV 0 2),
   (V 1 0, dV 1 0), (V 1 1, dV 1 1), (V 1 2, dV 1 2), (V 2 0, dV 2 0), (V 2 1, dV 2 1), (V 2 2, dV 2 2))%nat.

(* f = x^2 with its exact oracles: f' = 2x, f'' = 2, divided difference a + b (partials 1, 1) *)
Definition sqD := dlift (fun x => x * x) (fun x => 2 * x).
Definition dsqD := dlift (fun x => 2 * x) (fun _ => 2).
Definition relsqD := dlift2 (fun a b => a + b) (fun _ _ => 1) (fun _ _ => 1).

Definition Aw : Rm := Dg (fun k => match k with 2%nat => 2 | _ => 1 end).
Definition lamw : nat -> R := fun k => match k with 2%nat => 2 | _ => 1 end.
Definition Vw : Rm := fun i j => match i, j with 0%nat, 1%nat => 1 | 1%nat, 0%nat => - 1 | 2%nat, 2%nat => 1 | _, _ => 0 end.
Definition e00 : Rm := fun i j => match i, j with 0%nat, 0%nat => 1 | _, _ => 0 end.
Definition s01 : Rm := fun i j => match i, j with 0%nat, 1%nat => 1 | 1%nat, 0%nat => 1 | _, _ => 0 end.
Definition Z33 : Rm := fun _ _ => 0.

Lemma Reqb_refl x : Reqb x x = true.
Proof. apply Reqb_true. reflexivity. Qed.
Lemma Reqb_12 : Reqb 1 2 = false /\ Reqb 2 1 = false.
Proof. split; apply Reqb_false; lra. Qed.


Definition dlam_jax : nat -> R := fun k => match k with 2%nat => 0 | _ => / 2 end.
Definition dlam_ex : nat -> R := fun k => match k with 1%nat => 1 | _ => 0 end.

Ltac dual_eval :=
  unfold dual_helper, dap9, dmat, eighD, jvp_helper_gen;
  cbv [jh_sym NumD nadd nmul nconst neqb fst snd sqD dsqD relsqD dlift dlift2 lamw dlam_jax dlam_ex Vw Z33 e00 s01 Aw Dg Nat.eqb];
  rewrite !Reqb_refl; destruct Reqb_12 as [-> ->];
  cbv [dc9 Q2R' Qnum Qden]; f_equal; field.

Lemma witness_contract : orth Vw /\ eq3 Aw (cj Vw (Dg lamw)).
Proof.
  split; [split|]; intros i j Hi Hj; destruct i as [|[|[|i]]]; try lia; destruct j as [|[|[|j]]]; try lia;
    unfold cj, mm, s3, tr, Vw, I3, Aw, Dg, lamw; cbn [Nat.eqb]; ring.
Qed.

(* (a) JAX's eigen-solver tangent at the double eigenvalue *)
Lemma witness_jax :
  dc9 0 0 (dual_helper (eighD lamw dlam_jax Vw Z33) sqD dsqD relsqD (dmat Aw e00) (dmat e00 Z33)) = (2, 1).
Proof. dual_eval. Qed.
Lemma witness_jax_true : is_derive (fun s => mm (line Aw e00 s) e00 0%nat 0%nat + mm e00 (line Aw e00 s) 0%nat 0%nat) 0 2.
Proof. unfold mm, s3, line, Aw, Dg, e00; cbn [Nat.eqb]. auto_derive; [exact I|ring]. Qed.

(* (b) the tangent of an exact eigen-decomposition path *)
Lemma witness_exact_path s : orth Vw /\ eq3 (line Aw e00 s) (cj Vw (Dg (fun k => lamw k + s * dlam_ex k))).
Proof.
  split; [exact (proj1 witness_contract)|]. intros i j Hi Hj.
  destruct i as [|[|[|i]]]; try lia; destruct j as [|[|[|j]]]; try lia;
    unfold line, cj, mm, s3, tr, Vw, Aw, Dg, lamw, dlam_ex, e00; cbn [Nat.eqb]; ring.
Qed.
Lemma witness_guard :
  dc9 0 1 (dual_helper (eighD lamw dlam_ex Vw Z33) sqD dsqD relsqD (dmat Aw e00) (dmat s01 Z33)) = (2, 0).
Proof. dual_eval. Qed.
Lemma witness_guard_true : is_derive (fun s => mm (line Aw e00 s) s01 0%nat 1%nat + mm s01 (line Aw e00 s) 0%nat 1%nat) 0 1.
Proof. unfold mm, s3, line, Aw, Dg, e00, s01; cbn [Nat.eqb]. auto_derive; [exact I|ring]. Qed.

(* the first-order rule is right at the witness: over R the helper's entries are those of A E + E A (value parts 2 above) *)
Lemma second_derivative_refuted :
  orth Vw /\ eq3 Aw (cj Vw (Dg lamw))
  /\ (dtan (dc9 0 0 (dual_helper (eighD lamw dlam_jax Vw Z33) sqD dsqD relsqD (dmat Aw e00) (dmat e00 Z33))) = 1
      /\ is_derive (fun s => mm (line Aw e00 s) e00 0%nat 0%nat + mm e00 (line Aw e00 s) 0%nat 0%nat) 0 2)
  /\ ((forall s, orth Vw /\ eq3 (line Aw e00 s) (cj Vw (Dg (fun k => lamw k + s * dlam_ex k))))
      /\ dtan (dc9 0 1 (dual_helper (eighD lamw dlam_ex Vw Z33) sqD dsqD relsqD (dmat Aw e00) (dmat s01 Z33))) = 0
      /\ is_derive (fun s => mm (line Aw e00 s) s01 0%nat 1%nat + mm s01 (line Aw e00 s) 0%nat 1%nat) 0 1).
Proof.
  split; [exact (proj1 witness_contract)|]. split; [exact (proj2 witness_contract)|]. split; [split|split; [|split]].
  - rewrite witness_jax. reflexivity.
  - exact witness_jax_true.
  - exact witness_exact_path.
  - rewrite witness_guard. reflexivity.
  - exact witness_guard_true.
Qed.
