(* C13 -- order elevation, completeness of the write log: every entry (element t, position pos < n) of the elevated
   connectivity table is written (so the 0 of np.zeros never survives), for certified reference elements and
   triangulations in which no directed vertex pair occurs twice (consistently oriented manifold). *)
From Coq Require Import List Arith Lia Bool.
From OV.model Require Import M_C13_Edges M_C13_Elevate.
From OV.proofs Require Import L_C13_Edges L_C13_Elev2.
Import ListNotations.

Lemma positions_cover pe m : pe_okb pe m = true -> forall p, p < pe_n pe -> In p (pe_positions pe).
Proof.
  intros H p Hp. unfold pe_okb in H. repeat (apply andb_prop in H; destruct H as [H ?]).
  assert (Hnd : NoDup (pe_positions pe)) by (apply nodupb_sound; assumption).
  assert (Hr : forall q, In q (pe_positions pe) -> q < pe_n pe).
  { intros q Hq. match goal with Hf : forallb _ _ = true |- _ => rewrite forallb_forall in Hf; specialize (Hf q Hq) end. now apply Nat.ltb_lt. }
  assert (Hl : length (pe_positions pe) = pe_n pe) by (now apply Nat.eqb_eq).
  assert (Hincl : incl (seq 0 (pe_n pe)) (pe_positions pe)).
  { apply NoDup_length_incl; [exact Hnd | rewrite seq_length; lia |].
    intros q Hq. apply in_seq. specialize (Hr q Hq). lia. }
  apply Hincl. apply in_seq. lia.
Qed.

Section Written.
  Variable conns : list (list nat).
  Variable pe : pelem.
  Variables nV m : nat.
  Hypothesis Hok : pe_okb pe m = true.
  Hypothesis Hnd : NoDup (all_faces conns).                       (* no directed vertex pair occurs twice *)
  Hypothesis Hnondeg : forall f, In f (all_faces conns) -> fst f <> snd f.
  Hypothesis Hlen : Forall (fun c => length c = 3) conns.
  Let rows := create_edges conns.
  Let W := events pe nV m conns.
  Let Hpe := pe_okb_good pe m Hok.

  (* every side of every element is a slot of exactly the row of its edge *)
  Lemma side_has_slot t s : t < length conns -> s < 3 ->
    exists e r sl, nth_error rows e = Some r /\ In sl (slots_of r) /\ fst sl = (t, s).
  Proof.
    intros Ht Hs. set (f := side (nth t conns []) s).
    assert (Hh : holds conns t s f) by (unfold holds; auto).
    assert (Hf : In f (all_faces conns)) by (apply holds_in_faces in Hh; now apply nth_error_In in Hh).
    destruct (edges_once conns) as (_ & Hin & _). specialize (Hin f Hf).
    apply in_map_iff in Hin. destruct Hin as [r [Hk Hr]].
    destruct (In_nth_error _ _ Hr) as [e He]. fold rows in He.
    destruct (edges_adjacency conns r Hr) as [HL HR].
    assert (Hcase : (e_a r, e_b r) = f \/ (e_b r, e_a r) = f).
    { unfold edge_key, key in Hk. cbn [fst snd] in Hk. destruct f as [a b]. cbn [fst snd] in Hk. inversion Hk as [[E1 E2]].
      assert (Hab : (e_a r = a /\ e_b r = b) \/ (e_b r = a /\ e_a r = b)) by lia.
      destruct Hab as [[-> ->] | [-> ->]]; auto. }
    destruct Hcase as [E | E].
    - rewrite E in HL. destruct (holder_unique conns _ _ _ _ _ Hnd HL Hh) as [E1 E2].
      exists e, r, ((e_tl r, e_pl r), true). split; [exact He |]. split; [unfold slots_of; now left |]. cbn [fst]. congruence.
    - rewrite E in HR. destruct (e_right r) as [[tr pr] |] eqn:ER.
      + destruct (holder_unique conns _ _ _ _ _ Hnd HR Hh) as [E1 E2].
        exists e, r, ((tr, pr), false). split; [exact He |]. split; [unfold slots_of; rewrite ER; right; now left |]. cbn [fst]. congruence.
      + exfalso. exact (HR t s Hh).
  Qed.

  Theorem every_entry_written t pos : t < length conns -> pos < pe_n pe -> exists v, lookup W (t, pos) = Some v.
  Proof.
    intros Ht Hp. pose proof (positions_cover pe m Hok pos Hp) as Hin. unfold pe_positions in Hin.
    destruct (nth_error conns t) as [c |] eqn:Ec; [| apply nth_error_None in Ec; lia].
    assert (Hc : length c = 3) by (rewrite Forall_forall in Hlen; apply Hlen; now apply nth_error_In in Ec).
    apply in_app_or in Hin. destruct Hin as [Hv | Hin].
    - (* a vertex position *)
      destruct (In_nth_error _ _ Hv) as [i Hi].
      assert (i < 3) by (rewrite <- (pg_len_v _ _ Hpe); apply nth_error_Some; congruence).
      destruct (nth_error_len_some c i ltac:(lia)) as [v Hvv].
      exists v. exact (elev_vertex conns pe nV m Hpe Hnondeg t c i pos v Ec Hi Hvv).
    - assert (Hmid : forall s, s < 3 -> In pos (pe_mid pe s) -> exists v, lookup W (t, pos) = Some v).
      { intros s Hs Hm. destruct (side_has_slot t s Ht Hs) as (e & r & sl & He & Hsl & Efs).
        destruct (In_nth_error _ _ Hm) as [i Hi].
        assert (Hilt : i < m) by (rewrite <- (pg_len_m _ _ Hpe s); apply nth_error_Some; congruence).
        assert (Hids : exists v, nth_error (if snd sl then edge_ids nV m e else rev (edge_ids nV m e)) i = Some v).
        { apply nth_error_len_some. destruct (snd sl); rewrite ?rev_length; unfold edge_ids; rewrite map_length, seq_length; exact Hilt. }
        destruct Hids as [v Hv]. exists v.
        pose proof (elev_edge conns pe nV m Hpe Hnondeg e r sl i pos v He Hsl) as L.
        rewrite Efs in L. cbn [fst snd] in L. apply L; assumption. }
      apply in_app_or in Hin. destruct Hin as [H0 | Hin]; [exact (Hmid 0 ltac:(lia) H0) |].
      apply in_app_or in Hin. destruct Hin as [H1 | Hin]; [exact (Hmid 1 ltac:(lia) H1) |].
      apply in_app_or in Hin. destruct Hin as [H2 | Hi]; [exact (Hmid 2 ltac:(lia) H2) |].
      (* an interior position *)
      destruct (In_nth_error _ _ Hi) as [k Hk]. eexists.
      exact (elev_interior conns pe nV m Hpe Hnondeg t k pos Ht Hk).
  Qed.

  (* hence the table entry is the written id (never the initial 0 of np.zeros) *)
  Corollary elevated_entry_written t pos : t < length conns -> pos < pe_n pe ->
    exists v, lookup W (t, pos) = Some v /\ nth pos (nth t (elevated pe nV m conns) []) 0 = v.
  Proof.
    intros Ht Hp. destruct (every_entry_written t pos Ht Hp) as [v Hv]. exists v. split; [exact Hv |].
    rewrite (elevated_entry conns pe nV m t pos Ht Hp). fold W. now rewrite Hv.
  Qed.
End Written.
