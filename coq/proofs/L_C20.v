(* C20 -- lemmas about the VTK writer model and the independent reader of model/M_C20.v *)
From Coq Require Import ZArith List Bool PeanoNat Lia ZifyBool.
From OV.model Require Import M_C20.
Import ListNotations.

(* ------------------------------------------------------------------ reader primitives on emitted tokens *)
Lemma as_nat_tnat n : as_nat (tnat n) = Some n.
Proof.
  unfold as_nat, tnat, vnat. cbn [Pos.eqb andb].
  destruct (Z.leb_spec 0 (Z.of_nat n)); [| lia]. now rewrite Nat2Z.id.
Qed.

Lemma take_nums_app vs rest : take_nums (length vs) (map TNum vs ++ rest) = Some (vs, rest).
Proof. induction vs as [| v vs IH]; cbn; [reflexivity | now rewrite IH]. Qed.

Lemma take_nats_app l rest : take_nats (length l) (map tnat l ++ rest) = Some (l, rest).
Proof.
  induction l as [| i l IH]; [reflexivity |].
  cbn [length map app take_nats]. rewrite as_nat_tnat, IH. reflexivity.
Qed.

Definition emit3 (p : val * val * val) : list tok := [TNum (fst (fst p)); TNum (snd (fst p)); TNum (snd p)].
Lemma take_pts_app ps rest : take_pts (length ps) (flat_map emit3 ps ++ rest) = Some (ps, rest).
Proof.
  induction ps as [| [[x y] z] ps IH]; [reflexivity |].
  cbn [length flat_map emit3 fst snd app take_pts]. rewrite IH. reflexivity.
Qed.

Definition emit_cell (c : list nat) : list tok := tnat (length c) :: map tnat c.
Lemma take_cells_app cs rest : take_cells (length cs) (flat_map emit_cell cs ++ rest) = Some (cs, rest).
Proof.
  induction cs as [| c cs IH]; [reflexivity |].
  cbn [length flat_map emit_cell take_cells app]. rewrite as_nat_tnat.
  rewrite <- app_assoc, take_nats_app, IH. reflexivity.
Qed.

(* ------------------------------------------------------------------ sections of the file *)
Lemma flat_map_map {A B C} (f : B -> list C) (g : A -> B) l : flat_map f (map g l) = flat_map (fun x => f (g x)) l.
Proof. induction l; cbn; [reflexivity | now rewrite IHl]. Qed.

Lemma flat_map_ext_Forall {A B} (f g : A -> list B) (P : A -> Prop) l :
  Forall P l -> (forall x, P x -> f x = g x) -> flat_map f l = flat_map g l.
Proof. induction 1; intros E; cbn; [reflexivity |]. rewrite (E _ H), IHForall; auto. Qed.

Lemma p_points_emit w rest : p_points (emit_points w ++ rest) = Some (abs_pts w, rest).
Proof.
  unfold emit_points, p_points. cbn [app]. rewrite as_nat_tnat.
  replace (length (w_points w) + length (w_spheres w)) with (length (abs_pts w))
    by (unfold abs_pts; now rewrite app_length, !map_length).
  replace (flat_map emit_pt (w_points w) ++ flat_map emit_sph (w_spheres w)) with (flat_map emit3 (abs_pts w)).
  - apply take_pts_app.
  - unfold abs_pts. rewrite flat_map_app, !flat_map_map. reflexivity.
Qed.

Lemma list_sum_cons a l : list_sum (a :: l) = a + list_sum l.
Proof. reflexivity. Qed.

Lemma list_sum_cells k (cs : list (list nat)) : Forall (fun c => length c = k) cs ->
  list_sum (map (fun c => S (length c)) cs) = length cs * k + length cs.
Proof. induction 1 as [| c cs Hc Hcs IH]; [reflexivity |]. cbn [map length Nat.mul]. rewrite list_sum_cons, IH, Hc. lia. Qed.

Lemma abs_size w : Forall (fun c => length c = w_k w) (w_cells w) ->
  list_sum (map (fun c => S (length c)) (abs_cells w))
  = length (w_cells w) * w_k w + length (w_cells w) + length (w_edges w) * 3.
Proof.
  intros H. unfold abs_cells. rewrite map_app, list_sum_app, (list_sum_cells _ _ H), map_map. cbn [length].
  f_equal. induction (w_edges w) as [| e es IH]; [reflexivity |]. cbn [map length Nat.mul]. rewrite list_sum_cons, IH. cbn [length]. lia.
Qed.

Lemma p_cells_emit w rest : Forall (fun c => length c = w_k w) (w_cells w) ->
  p_cells (emit_cells w ++ rest)
  = Some ((list_sum (map (fun c => S (length c)) (abs_cells w)), abs_cells w), rest).
Proof.
  intros H. unfold emit_cells, p_cells. cbn [app]. rewrite !as_nat_tnat.
  replace (length (w_cells w) + length (w_edges w)) with (length (abs_cells w))
    by (unfold abs_cells; now rewrite app_length, map_length).
  replace (flat_map (fun c => tnat (w_k w) :: map tnat c) (w_cells w) ++ flat_map emit_edge (w_edges w))
    with (flat_map emit_cell (abs_cells w)).
  - rewrite take_cells_app, (abs_size _ H). reflexivity.
  - unfold abs_cells. rewrite flat_map_app, flat_map_map. f_equal.
    apply flat_map_ext_Forall with (P := fun c => length c = w_k w); [exact H |].
    intros c Hc. unfold emit_cell. now rewrite Hc.
Qed.

Lemma map_repeat {A B} (f : A -> B) x n : map f (repeat x n) = repeat (f x) n.
Proof. induction n; cbn; [reflexivity | now rewrite IHn]. Qed.

Lemma p_types_emit w rest : p_types (emit_types w ++ rest) = Some (abs_types w, rest).
Proof.
  unfold emit_types, p_types. cbn [app]. rewrite as_nat_tnat.
  replace (length (w_cells w) + length (w_edges w)) with (length (abs_types w))
    by (unfold abs_types; now rewrite app_length, !repeat_length).
  replace (repeat (tnat (w_ctype w)) (length (w_cells w)) ++ repeat (tnat 3) (length (w_edges w)))
    with (map tnat (abs_types w)) by (unfold abs_types; now rewrite map_app, !map_repeat).
  apply take_nats_app.
Qed.

(* ------------------------------------------------------------------ data arrays *)
Definition no_TF_head (ts : list tok) : Prop := match ts with TF _ :: _ => False | _ => True end.
Definition arr_len_ok (n : nat) (f : field) : Prop := length (concat (f_rows f)) = n * ncomp (f_ft f).

Lemma parse_arrays_emit n fs : Forall (fun nf => arr_len_ok n (snd nf)) fs ->
  forall fuel rest, length fs < fuel -> no_TF_head rest ->
  parse_arrays fuel n (emit_fields fs ++ rest) = Some (map to_array fs, rest).
Proof.
  induction 1 as [| [nm f] fs Hf Hfs IH]; intros fuel rest Hfuel Hrest.
  - destruct fuel as [| fuel]; [cbn in Hfuel; lia |]. cbn [emit_fields flat_map app map parse_arrays].
    destruct rest as [| [] rest]; try reflexivity. contradiction.
  - destruct fuel as [| fuel]; [cbn in Hfuel; lia |].
    cbn [length] in Hfuel. unfold emit_fields. cbn [flat_map]. fold (emit_fields fs).
    unfold emit_field, field_head, emit_rows. cbn [fst snd]. cbn [snd] in Hf. unfold arr_len_ok in Hf.
    rewrite <- !app_assoc.
    destruct f as [rows ft dt]; cbn [f_rows f_ft f_dt] in *.
    destruct ft; cbn [app parse_arrays]; rewrite <- Hf, <- (map_length TNum) at 1;
      rewrite map_length, take_nums_app, IH by (auto; lia); reflexivity.
Qed.

Lemma emit_fields_length fs : length fs <= length (emit_fields fs).
Proof.
  induction fs as [| [nm f] fs IH]; [cbn; lia |].
  unfold emit_fields in *. cbn [flat_map length]. rewrite app_length.
  remember (length (flat_map emit_field fs)) as m.
  unfold emit_field, field_head. cbn [fst snd]. rewrite app_length. destruct (f_ft f); cbn [length]; lia.
Qed.

Lemma p_data_emit kwd n fs rest : kw_eqb kwd kwd = true ->
  Forall (fun nf => arr_len_ok n (snd nf)) fs -> no_TF_head rest ->
  p_data kwd ([TK kwd; tnat n] ++ emit_fields fs ++ rest) = Some (Some (n, map to_array fs), rest).
Proof.
  intros Hk Hfs Hrest. cbn [app p_data]. rewrite Hk, as_nat_tnat.
  rewrite (parse_arrays_emit n fs Hfs); [reflexivity | | exact Hrest].
  rewrite app_length. pose proof (emit_fields_length fs). lia.
Qed.

Lemma length_concat_width {A} (rows : list (list A)) k : Forall (fun r => length r = k) rows ->
  length (concat rows) = length rows * k.
Proof. induction 1; cbn [concat length]; [reflexivity |]. rewrite app_length. lia. Qed.

Lemma field_ok_arr_len n f : field_ok n f -> arr_len_ok n f.
Proof.
  intros [H1 H2]. unfold arr_len_ok. rewrite (length_concat_width _ _ H2), H1.
  destruct (f_ft f); cbn [rpe width ncomp]; lia.
Qed.

Lemma default_rows_ok ft : length (default_rows ft) = rpe ft /\ Forall (fun r => length r = width ft) (default_rows ft).
Proof. destruct ft; cbn; repeat constructor. Qed.

Lemma concat_repeat_length {A} (l : list A) n : length (concat (repeat l n)) = n * length l.
Proof. induction n; cbn [repeat concat length]; [reflexivity |]. rewrite app_length. lia. Qed.

Lemma Forall_concat_repeat {A} (P : A -> Prop) l n : Forall P l -> Forall P (concat (repeat l n)).
Proof. intros H. induction n; cbn [repeat concat]; [constructor |]. apply Forall_app; auto. Qed.

Lemma pad_field_ok n k f : field_ok n f -> field_ok (n + k) (pad_field k f).
Proof.
  intros [H1 H2]. destruct (default_rows_ok (f_ft f)) as [D1 D2]. split; cbn [pad_field f_rows f_ft].
  - rewrite app_length, concat_repeat_length, H1, D1. lia.
  - apply Forall_app; split; [exact H2 |]. now apply Forall_concat_repeat.
Qed.

Lemma sphere_field_ok n radii : field_ok (n + length radii) (sphere_field n radii).
Proof.
  split; cbn [sphere_field f_rows f_ft rpe width].
  - rewrite map_length, app_length, repeat_length. lia.
  - apply Forall_forall. intros r Hr. apply in_map_iff in Hr. destruct Hr as [v [<- _]]. reflexivity.
Qed.

(* ------------------------------------------------------------------ dict_set *)
Lemma dict_set_fresh d k f : ~ In k (map fst d) -> dict_set d k f = d ++ [(k, f)].
Proof.
  induction d as [| [k' f'] d IH]; intros H; [reflexivity |]. cbn [dict_set].
  cbn [map fst In] in H. destruct (Z.eqb_spec k k') as [-> | _]; [tauto |].
  rewrite IH by tauto. reflexivity.
Qed.

Lemma dict_set_keys d k f : forall x, In x (map fst (dict_set d k f)) <-> x = k \/ In x (map fst d).
Proof.
  induction d as [| [k' f'] d IH]; intros x; cbn [dict_set map fst In]; [intuition |].
  destruct (Z.eqb_spec k k') as [-> | Hn]; cbn [map fst In]; [intuition |]. rewrite IH. intuition.
Qed.

Lemma dict_set_nodup d k f : NoDup (map fst d) -> NoDup (map fst (dict_set d k f)).
Proof.
  induction d as [| [k' f'] d IH]; intros H; cbn [dict_set]; [repeat constructor; intros [] |].
  cbn [map fst] in H. inversion H as [| ? ? Hn Hd]; subst.
  destruct (Z.eqb_spec k k') as [-> | Hk]; cbn [map fst]; [now constructor |].
  constructor; [| auto]. rewrite dict_set_keys. intros [-> | ?]; tauto.
Qed.

Lemma dict_set_Forall (P : Z * field -> Prop) d k f : Forall P d -> P (k, f) -> Forall P (dict_set d k f).
Proof.
  induction 1 as [| [k' f'] d Hx Hd IH]; intros Hf; cbn [dict_set]; [repeat constructor; exact Hf |].
  destruct (Z.eqb k k'); constructor; auto.
Qed.

Lemma dict_set_ok n d k f : dict_ok n d -> field_ok n f -> dict_ok n (dict_set d k f).
Proof. intros [H1 H2] Hf. split; [now apply dict_set_nodup | now apply dict_set_Forall]. Qed.

(* ------------------------------------------------------------------ the main positive theorem *)
Lemma is_nil_true {A} (l : list A) : is_nil l = true <-> l = [].
Proof. destruct l; cbn; split; congruence. Qed.
Lemma is_nil_false {A} (l : list A) : is_nil l = false <-> l <> [].
Proof. destruct l; cbn; split; congruence. Qed.

Lemma map_fst_pad n (d : fields) : map fst (map (fun nf => (fst nf, pad_field n (snd nf))) d) = map fst d.
Proof. rewrite map_map. reflexivity. Qed.

Lemma celldata_no_TF w : no_TF_head (emit_celldata w ++ []).
Proof. unfold emit_celldata. destruct (is_nil (w_cell w)); cbn; exact I. Qed.

Lemma pad_field_0 f : pad_field 0 f = f.
Proof. destruct f. unfold pad_field. cbn. now rewrite app_nil_r. Qed.

Lemma map_pad_0 (d : fields) : map (fun nf => (fst nf, pad_field 0 (snd nf))) d = d.
Proof. induction d as [| [k f] d IH]; cbn [map fst snd]; [reflexivity |]. now rewrite pad_field_0, IH. Qed.

(* the fields actually written carry one record per written point / cell *)
Lemma written_nodal_ok w : dict_ok (length (w_points w)) (w_nodal w) ->
  Forall (fun nf => field_ok (length (w_points w) + length (w_spheres w)) (snd nf)) (written_nodal w).
Proof.
  intros [_ Hf]. unfold written_nodal.
  assert (Hp : Forall (fun nf => field_ok (length (w_points w) + length (w_spheres w)) (snd nf))
                      (map (fun nf => (fst nf, pad_field (length (w_spheres w)) (snd nf))) (w_nodal w))).
  { apply Forall_forall. intros x Hx. apply in_map_iff in Hx. destruct Hx as [y [<- Hy]]. cbn [snd].
    apply pad_field_ok. rewrite Forall_forall in Hf. exact (Hf _ Hy). }
  destruct (is_nil (w_spheres w)); [exact Hp |]. apply dict_set_Forall; [exact Hp |]. cbn [snd].
  replace (length (w_spheres w)) with (length (map snd (w_spheres w))) by apply map_length. apply sphere_field_ok.
Qed.

Lemma written_cell_ok w : dict_ok (length (w_cells w)) (w_cell w) ->
  Forall (fun nf => field_ok (length (w_cells w) + length (w_edges w)) (snd nf)) (written_cell w).
Proof.
  intros [_ Hf]. unfold written_cell. apply Forall_forall. intros x Hx. apply in_map_iff in Hx.
  destruct Hx as [y [<- Hy]]. cbn [snd]. apply pad_field_ok. rewrite Forall_forall in Hf. exact (Hf _ Hy).
Qed.

Lemma p_pointdata_emit w : wf_writer w ->
  p_data KPointData (emit_pointdata w ++ emit_celldata w ++ []) = Some (abs_pd w, emit_celldata w ++ []).
Proof.
  intros (_ & _ & Hn & _). pose proof (written_nodal_ok w Hn) as Hok. unfold emit_pointdata, abs_pd.
  destruct (is_nil (w_nodal w) && is_nil (w_spheres w)) eqn:E.
  - cbn [app]. unfold emit_celldata. destruct (is_nil (w_cell w)); reflexivity.
  - rewrite <- app_assoc. rewrite p_data_emit; [reflexivity | reflexivity | | apply celldata_no_TF].
    eapply Forall_impl; [| exact Hok]. intros a Ha. now apply field_ok_arr_len.
Qed.

Lemma p_celldata_emit w : wf_writer w -> p_data KCellData (emit_celldata w ++ []) = Some (abs_cd w, []).
Proof.
  intros (_ & _ & _ & Hc). pose proof (written_cell_ok w Hc) as Hok. unfold emit_celldata, abs_cd.
  destruct (is_nil (w_cell w)) eqn:E; [reflexivity |].
  rewrite <- app_assoc, p_data_emit; [| reflexivity | | exact I].
  - unfold written_cell. now rewrite map_map.
  - eapply Forall_impl; [| exact Hok]. intros a Ha. now apply field_ok_arr_len.
Qed.

Lemma parse_write w : wf_writer w -> parse (fst (write w)) = Some (abstract w).
Proof.
  intros Hwf. unfold write. cbn [fst]. unfold header. cbn [app parse].
  rewrite p_points_emit, p_cells_emit by (destruct Hwf as (_ & Hc & _); exact Hc). rewrite p_types_emit.
  rewrite <- (app_nil_r (emit_celldata w)). cbn [app].
  rewrite (p_pointdata_emit w Hwf), (p_celldata_emit w Hwf). reflexivity.
Qed.

Lemma data_ok_fields n (fs : fields) : Forall (fun nf => field_ok n (snd nf)) fs ->
  data_ok n (Some (n, map to_array fs)) = true.
Proof.
  intros H. cbn [data_ok]. rewrite Nat.eqb_refl. cbn [andb]. apply forallb_forall. intros a Ha.
  apply in_map_iff in Ha. destruct Ha as [nf [<- Hnf]]. rewrite Forall_forall in H.
  specialize (H _ Hnf). apply field_ok_arr_len in H. unfold arr_len_ok in H. unfold arr_ok, to_array. cbn [a_vals a_ft].
  now apply Nat.eqb_eq.
Qed.

Lemma check_abstract w : wf_writer w -> in_range w -> check (abstract w) = true.
Proof.
  intros (_ & Hc & Hn & Hcf) Hr. unfold check.
  assert (E1 : c_size (abstract w) = true) by (unfold c_size, abstract; cbn [d_size d_cells]; apply Nat.eqb_refl).
  assert (E2 : c_types (abstract w) = true).
  { unfold c_types, abstract, abs_types, abs_cells. cbn [d_types d_cells].
    rewrite !app_length, !repeat_length, map_length. apply Nat.eqb_refl. }
  assert (E3 : c_range (abstract w) = true).
  { unfold c_range, abstract. cbn [d_cells d_pts]. apply forallb_forall. intros c Hcin.
    apply forallb_forall. intros i Hi. apply Nat.ltb_lt.
    unfold in_range in Hr. rewrite Forall_forall in Hr. specialize (Hr _ Hcin). rewrite Forall_forall in Hr.
    unfold abs_pts. rewrite app_length, !map_length. auto. }
  assert (E4 : c_pd (abstract w) = true).
  { unfold c_pd, abstract, abs_pd. cbn [d_pd d_pts].
    replace (length (abs_pts w)) with (length (w_points w) + length (w_spheres w))
      by (unfold abs_pts; now rewrite app_length, !map_length).
    destruct (is_nil (w_nodal w) && is_nil (w_spheres w)); [reflexivity |].
    apply data_ok_fields. exact (written_nodal_ok w Hn). }
  assert (E5 : c_cd (abstract w) = true).
  { unfold c_cd, abstract, abs_cd. cbn [d_cd d_cells].
    replace (length (abs_cells w)) with (length (w_cells w) + length (w_edges w))
      by (unfold abs_cells; now rewrite app_length, map_length).
    destruct (is_nil (w_cell w)); [reflexivity |].
    replace (map (fun nf => to_array (fst nf, pad_field (length (w_edges w)) (snd nf))) (w_cell w))
      with (map to_array (written_cell w)) by (unfold written_cell; now rewrite map_map).
    apply data_ok_fields. exact (written_cell_ok w Hcf). }
  now rewrite E1, E2, E3, E4, E5.
Qed.

(* ------------------------------------------------------------------ the operations establish the invariant *)
Lemma mapM_length {A B} (f : A -> option B) l l' : mapM f l = Some l' -> length l' = length l.
Proof.
  revert l'. induction l as [| x l IH]; intros l' H; cbn [mapM] in H.
  - now inversion H.
  - destruct (f x); [| discriminate]. destruct (mapM f l); [| discriminate]. inversion H. cbn [length]. now rewrite (IH _ eq_refl).
Qed.

Lemma mapM_Forall {A B} (f : A -> option B) (P : B -> Prop) l l' :
  (forall x y, f x = Some y -> P y) -> mapM f l = Some l' -> Forall P l'.
Proof.
  intros HP. revert l'. induction l as [| x l IH]; intros l' H; cbn [mapM] in H.
  - inversion H. constructor.
  - destruct (f x) eqn:E; [| discriminate]. destruct (mapM f l); [| discriminate]. inversion H.
    constructor; [eapply HP; eauto | now apply IH].
Qed.

Lemma init_wf m w : init m = Some w -> wf_writer w.
Proof.
  unfold init. intros H.
  destruct (if m_degree m =? 2 then _ else _) as [[outn elc] ct].
  destruct (gather (m_coords m) outn) as [pts |] eqn:Ep; [| discriminate].
  destruct (mapM (fun row => gather row elc) (m_conns m)) as [cells |] eqn:Ec; [| discriminate].
  inversion H. unfold wf_writer. cbn [w_outnodes w_points w_cells w_k w_nodal w_cell map].
  split; [symmetry; eapply mapM_length; exact Ep |]. split.
  - eapply mapM_Forall; [| exact Ec]. intros row c Hg. cbn beta in Hg. eapply mapM_length; exact Hg.
  - split; split; constructor.
Qed.

Lemma format_entity_ok ft c rs : format_entity ft c = Some rs ->
  length rs = rpe ft /\ Forall (fun r => length r = width ft) rs.
Proof.
  intros H.
  destruct ft; destruct c as [| a1 [| a2 [| a3 [| a4 [| a5 [| a6 [| a7 [| a8 [| a9 [| a10 c]]]]]]]]]];
    cbn in H; try discriminate; inversion H; cbn; split; repeat constructor.
Qed.

Lemma formatted_field_ok ft dt (sel : list (list val)) rows :
  mapM (format_entity ft) sel = Some rows -> field_ok (length sel) (mkField (concat rows) ft dt).
Proof.
  revert rows. induction sel as [| c sel IH]; intros rows H; cbn [mapM] in H.
  - inversion H. split; cbn; constructor.
  - destruct (format_entity ft c) as [rs |] eqn:E; [| discriminate].
    destruct (mapM (format_entity ft) sel) as [rows' |]; [| discriminate]. inversion H.
    destruct (format_entity_ok _ _ _ E) as [L W]. destruct (IH _ eq_refl) as [L' W'].
    cbn [f_rows f_ft] in *. split; cbn [concat length f_rows f_ft].
    + rewrite app_length, L, L'. lia.
    + apply Forall_app. split; assumption.
Qed.

Lemma add_nodal_field_wf w nm data ft dt w' :
  wf_writer w -> add_nodal_field w nm data ft dt = Some w' -> wf_writer w'.
Proof.
  intros (Hl & Hc & Hn & Hcf) H. unfold add_nodal_field in H.
  destruct (gather data (w_outnodes w)) as [sel |] eqn:Es; [| discriminate].
  destruct (mapM (format_entity ft) sel) as [rows |] eqn:Er; [| discriminate]. inversion H.
  unfold wf_writer, set_nodal. cbn [w_outnodes w_points w_cells w_k w_nodal w_cell].
  repeat split; try assumption; try apply Hcf.
  - apply dict_set_nodup, Hn.
  - apply dict_set_Forall; [apply Hn |]. cbn [snd]. rewrite <- Hl, <- (mapM_length _ _ _ Es).
    eapply formatted_field_ok; exact Er.
Qed.

Lemma add_cell_field_wf w nm data ft dt w' :
  wf_writer w -> add_cell_field w nm data ft dt = Some w' -> wf_writer w'.
Proof.
  intros Hw H. unfold add_cell_field in H.
  destruct (Nat.eqb_spec (length data) (length (w_cells w))) as [El |]; [| now inversion H; subst].
  destruct (mapM (format_entity ft) data) as [rows |] eqn:Er; [| discriminate]. inversion H.
  destruct Hw as (Hl & Hc & Hn & Hcf).
  unfold wf_writer, set_cell. cbn [w_outnodes w_points w_cells w_k w_nodal w_cell].
  repeat split; try assumption; try apply Hn.
  - apply dict_set_nodup, Hcf.
  - apply dict_set_Forall; [apply Hcf |]. cbn [snd]. rewrite <- El. eapply formatted_field_ok; exact Er.
Qed.

Lemma add_sphere_wf w x y r : wf_writer w -> wf_writer (add_sphere w x y r).
Proof. intros H. exact H. Qed.
Lemma add_contact_edges_wf w es : wf_writer w -> wf_writer (add_contact_edges w es).
Proof. intros H. exact H. Qed.

(* ------------------------------------------------------------------ repeated writes: write() does not change the writer *)
Lemma write_state w : snd (write w) = w.
Proof. reflexivity. Qed.
Lemma repeated_writes w : forall n o, In o (writes n w) -> o = fst (write w).
Proof.
  intros n. induction n as [| n IH]; intros o Hin; cbn [writes In] in Hin; [contradiction |].
  destruct Hin as [<- | Hin]; [reflexivity |]. rewrite write_state in Hin. now apply IH.
Qed.
Lemma writes_length n w : length (writes n w) = n.
Proof. revert w. induction n as [| n IH]; intros w; [reflexivity |]. cbn [writes length]. now rewrite IH. Qed.

(* ------------------------------------------------------------------ what [check] means *)
Lemma data_ok_sound n d : data_ok n d = true -> data_spec n d.
Proof.
  intros H m arrs ->. cbn [data_ok] in H. apply andb_true_iff in H. destruct H as [H1 H2].
  apply Nat.eqb_eq in H1. subst m. split; [reflexivity |]. intros a Ha.
  rewrite forallb_forall in H2. specialize (H2 _ Ha). now apply Nat.eqb_eq in H2.
Qed.
Lemma check_sound d : check d = true ->
  d_size d = list_sum (map (fun c => S (length c)) (d_cells d))
  /\ length (d_types d) = length (d_cells d)
  /\ (forall c i, In c (d_cells d) -> In i c -> i < length (d_pts d))
  /\ data_spec (length (d_pts d)) (d_pd d)
  /\ data_spec (length (d_cells d)) (d_cd d).
Proof.
  unfold check. rewrite !andb_true_iff. intros [[[[H1 H2] H3] H4] H5].
  split; [now apply Nat.eqb_eq in H1 |]. split; [now apply Nat.eqb_eq in H2 |]. split; [| split; now apply data_ok_sound].
  intros c i Hc Hi. unfold c_range in H3. rewrite forallb_forall in H3. specialize (H3 _ Hc).
  rewrite forallb_forall in H3. specialize (H3 _ Hi). now apply Nat.ltb_lt in H3.
Qed.
