(* C09: lemmas about the J2 update: flow direction (regenerated kernel), scalar reduction of the radial return with the
   C17 root-finder model inside, variational structure, hardening laws (regenerated energies) and their flow stresses. *)
From Coq Require Import Reals Lra Lia ZArith QArith Bool List Psatz.
From Coquelicot Require Import Coquelicot.
From OV.base Require Import Num.
From OV.gen Require Import Gen_ScalarRootFind Gen_Hardening Gen_TensorMath Gen_J2Flow Gen_J2Elastic.
From OV.model Require Import M_C17 M_C09.
From OV.proofs Require Import L_C17.
Import ListNotations.
Local Open Scope R_scope.

(* ---------- flow direction: deviatoric with N:N = 3/2, in both branches ---------- *)
Lemma flow_direction_props (E : @m9 R) : tr9 (flowdir E) = 0 /\ ddot (flowdir E) (flowdir E) = 3 / 2.
Proof.
  destruct E as [[[[[[[[a0 a1] a2] a3] a4] a5] a6] a7] a8].
  unfold flowdir, compute_flow_direction, dev, deviator, t_trace, tr9, ddot. unfold_num. q2r.
  match goal with |- context [Rltb ?a ?b] => destruct (Rltb a b) eqn:E; [apply Rltb_true in E|apply Rltb_false in E] end.
  - match type of E with _ < ?qq => set (q := qq) in * end.
    assert (Hq : 0 < q) by lra.
    assert (Hs : sqrt q <> 0) by (apply Rgt_not_eq, sqrt_lt_R0; exact Hq).
    split.
    + field. exact Hs.
    + match goal with |- ?lhs = _ => replace lhs with ((sqrt (3 / 2) * sqrt (3 / 2)) / (sqrt q * sqrt q) * q) by (unfold q; field; exact Hs) end.
      rewrite !sqrt_sqrt by lra. field. lra.
  - split; lra.
Qed.

(* ---------- scalar reduction of the radial return, arbitrary flow-stress function ---------- *)
Section Scalar.
  Variables Yf dYf : R -> R.
  Variables mu tol : R.
  Hypothesis Hmu : 0 < mu.
  Hypothesis Htol : 0 <= tol.

  Definition residR (s eo e : R) : R := - s + 3 * mu * (e - eo) + Yf e.
  Lemma resid_R s eo e : @resid R NumR Yf mu s eo e = residR s eo e.
  Proof. unfold resid, residR, three. unfold_num. q2r. reflexivity. Qed.

  Definition ubR (s eo : R) : R := eo + (s - Yf eo) / (3 * mu).

  Lemma yielding_spec s eo : @is_yielding R NumR Yf tol s eo = true <-> tol < s - Yf eo.
  Proof. unfold is_yielding. unfold_num. apply Rltb_true. Qed.

  Lemma resid_lb s eo : residR s eo eo = - (s - Yf eo).
  Proof. unfold residR. ring. Qed.
  Lemma resid_ub s eo : residR s eo (ubR s eo) = Yf (ubR s eo) - Yf eo.
  Proof. unfold residR, ubR. field. lra. Qed.

  (* what a successful update returns *)
  Lemma delta_spec s eo d : (tol < s - Yf eo -> Yf eo <= Yf (ubR s eo)) ->
    @delta_eqps_gen R NumR Yf dYf mu tol s eo = Some d ->
    (s - Yf eo <= tol /\ d = 0)
    \/ (tol < s - Yf eo /\ eo <= eo + d <= ubR s eo /\ Rabs (residR s eo (eo + d)) <= tol).
  Proof.
    intros Hmono. unfold delta_eqps_gen.
    destruct (is_yielding Yf tol s eo) eqn:Ey.
    - apply yielding_spec in Ey. specialize (Hmono Ey). intros H. right. split; [exact Ey|].
      unfold three in H. unfold_num. q2r.
      change (eo + (s - Yf eo) / (3 * mu)) with (ubR s eo) in H.
      destruct (rtsafe _ _ _ _ _ _ _ _) as [x cv it F dx w|] eqn:E; [|discriminate].
      destruct x as [v|]; [|discriminate]. inversion H; subst d; clear H.
      replace (eo + (v - eo)) with v by ring.
      assert (Hub : eo < ubR s eo). { unfold ubR. assert (0 < (s - Yf eo) / (3 * mu)); [|lra]. apply Rdiv_lt_0_compat; lra. }
      pose proof (result_contract _ _ _ _ _ _ _ _ _ _ _ _ _ _ E) as (Hx & Hcv & _ & Hr1 & _ & _ & _ & _ & HF).
      rewrite !resid_R in *.
      destruct (Rle_dec (Rabs (residR s eo (ubR s eo))) tol) as [Hz|Hnz].
      + (* flat hardening (perfect plasticity, saturated Voce): the residual at the upper end is within the tolerance and the
           upper end itself is returned (end-point rule of the repaired root finder) *)
        assert (Hz' : Rabs (resid Yf mu s eo (ubR s eo)) <= tol) by (rewrite resid_R; exact Hz).
        destruct (Hr1 Hz') as (Hv & _). inversion Hv; subst v. split; [lra|exact Hz].
      + assert (Hpos : tol < residR s eo (ubR s eo)).
        { rewrite resid_ub in *. rewrite Rabs_pos_eq in Hnz by lra. lra. }
        assert (Hb : resid Yf mu s eo eo * resid Yf mu s eo (ubR s eo) < 0).
        { rewrite (resid_R s eo eo), (resid_R s eo (ubR s eo)), resid_lb. assert (0 < (s - Yf eo) * residR s eo (ubR s eo)) by (apply Rmult_lt_0_compat; lra). lra. }
        destruct (result_in_bracket _ _ _ _ _ _ _ _ _ _ _ _ _ _ Hb E) as ((Hlo & Hhi) & _).
        rewrite Rmin_left in Hlo by lra. rewrite Rmax_right in Hhi by lra. split; [lra|].
        assert (Hc : cv = true) by (apply Hx; discriminate).
        assert (Hw : w = Converged) by (apply Hcv; exact Hc). subst cv w.
        pose proof (converged_small_residual _ _ _ _ _ _ _ _ _ _ _ _ (Rle_refl 0) Htol Hb E) as A. rewrite resid_R in A. exact A.
    - intros H. inversion H; subst d. left. split; [|unfold_num; q2r; reflexivity].
      apply Rnot_lt_le. intros Hc. apply yielding_spec in Hc. congruence.
  Qed.

  (* irreversibility *)
  Theorem delta_nonneg s eo d : (tol < s - Yf eo -> Yf eo <= Yf (ubR s eo)) ->
    @delta_eqps_gen R NumR Yf dYf mu tol s eo = Some d -> 0 <= d.
  Proof. intros Hm H. destruct (delta_spec s eo d Hm H) as [(_ & ->)|(_ & (A & _) & _)]; lra. Qed.

  (* yield consistency: after the update the effective stress s - 3 mu d is within tol of (or below) the flow stress *)
  Theorem yield_consistent s eo d : (tol < s - Yf eo -> Yf eo <= Yf (ubR s eo)) ->
    @delta_eqps_gen R NumR Yf dYf mu tol s eo = Some d ->
    (s - 3 * mu * d) - Yf (eo + d) <= tol /\ (0 < d -> Rabs ((s - 3 * mu * d) - Yf (eo + d)) <= tol).
  Proof.
    intros Hm H. destruct (delta_spec s eo d Hm H) as [(A & ->)|(A & _ & B)].
    - rewrite Rmult_0_r, Rminus_0_r, Rplus_0_r. split; [exact A|intros; lra].
    - assert (E : s - 3 * mu * d - Yf (eo + d) = - residR s eo (eo + d)) by (unfold residR; ring).
      rewrite E, Rabs_Ropp. split; [|intros; exact B].
      pose proof (Rle_abs (- residR s eo (eo + d))) as C. rewrite Rabs_Ropp in C. lra.
  Qed.

  (* idempotence (rate-independent: the same Yf after committing the state): the trial stress at the same deformation is
     s - 3 mu d, the committed eqps is eo + d, and the yield test -- which uses the solver's tolerance -- is not met *)
  Theorem idempotent s eo d : (tol < s - Yf eo -> Yf eo <= Yf (ubR s eo)) ->
    @delta_eqps_gen R NumR Yf dYf mu tol s eo = Some d ->
    @delta_eqps_gen R NumR Yf dYf mu tol (s - 3 * mu * d) (eo + d) = Some 0.
  Proof.
    intros Hm H. destruct (yield_consistent s eo d Hm H) as (A & _).
    unfold delta_eqps_gen. destruct (is_yielding Yf tol (s - 3 * mu * d) (eo + d)) eqn:Ey.
    - apply yielding_spec in Ey. lra.
    - unfold_num. q2r. reflexivity.
  Qed.

  (* the elastic-branch threshold must be the root tolerance: with a threshold thr in the yield test, the overstress left after a
     step is bounded by max(thr, tol), and a threshold above tol leaves states outside the yield surface by exactly thr *)
  Definition delta_thr (thr s eo : R) : option R :=
    if Rltb thr (s - Yf eo) then @delta_eqps_gen R NumR Yf dYf mu tol s eo else Some 0.
  Lemma delta_thr_tol s eo : delta_thr tol s eo = @delta_eqps_gen R NumR Yf dYf mu tol s eo.
  Proof.
    unfold delta_thr, delta_eqps_gen. destruct (is_yielding Yf tol s eo) eqn:Ey.
    - apply yielding_spec in Ey. replace (Rltb tol (s - Yf eo)) with true by (symmetry; apply Rltb_true; exact Ey). reflexivity.
    - destruct (Rltb tol (s - Yf eo)); [|unfold_num; q2r]; reflexivity.
  Qed.
  Theorem threshold_bound thr s eo d : (tol < s - Yf eo -> Yf eo <= Yf (ubR s eo)) ->
    delta_thr thr s eo = Some d -> (s - 3 * mu * d) - Yf (eo + d) <= Rmax thr tol.
  Proof.
    intros Hm. unfold delta_thr. rcases_on (Rltb thr (s - Yf eo)); intros H.
    - destruct (yield_consistent s eo d Hm H) as (A & _). pose proof (Rmax_r thr tol). lra.
    - inversion H; subst d. rewrite Rmult_0_r, Rminus_0_r, Rplus_0_r. pose proof (Rmax_l thr tol). lra.
  Qed.
  Theorem threshold_tight thr eo : tol < thr ->
    delta_thr thr (Yf eo + thr) eo = Some 0 /\ tol < (Yf eo + thr - 3 * mu * 0) - Yf (eo + 0).
  Proof.
    intros H. unfold delta_thr. replace (Rltb thr (Yf eo + thr - Yf eo)) with false by (symmetry; apply Rltb_false; lra).
    split; [reflexivity|]. rewrite Rplus_0_r. lra.
  Qed.

  Lemma ub_above s eo : tol < s - Yf eo -> eo < ubR s eo.
  Proof. intros H. unfold ubR. assert (0 < (s - Yf eo) / (3 * mu)); [apply Rdiv_lt_0_compat; lra|lra]. Qed.

  (* eqps never decreases along any history of the scalar reduction *)
  Theorem history_monotone (steps : list (R -> R)) : (forall x y, x <= y -> Yf x <= Yf y) ->
    forall eo l, @history_gen R NumR Yf dYf mu tol steps eo = Some l ->
    forall k, (k < length l)%nat -> nth k (eo :: l) 0 <= nth (S k) (eo :: l) 0.
  Proof.
    intros Hm. induction steps as [|s rest IH]; intros eo l H k Hk; cbn [history_gen] in H.
    - inversion H; subst l. inversion Hk.
    - destruct (delta_eqps_gen Yf dYf mu tol (s eo) eo) as [d|] eqn:Ed; [|discriminate].
      destruct (history_gen Yf dYf mu tol rest (nadd eo d)) as [l'|] eqn:El; [|discriminate].
      inversion H; subst l; clear H. unfold_num.
      assert (Hd : 0 <= d).
      { apply (delta_nonneg (s eo) eo d); [|exact Ed]. intros Hy. apply Hm. pose proof (ub_above _ _ Hy). lra. }
      destruct k as [|k]; [cbn [nth]; lra|].
      change (nth (S k) (eo :: eo + d :: l') 0) with (nth k ((eo + d) :: l') 0).
      change (nth (S (S k)) (eo :: eo + d :: l') 0) with (nth (S k) ((eo + d) :: l') 0).
      apply (IH (eo + d) l' El k). cbn [length] in Hk. lia.
  Qed.
End Scalar.

(* ---------- variational structure ---------- *)
(* a differentiable function whose derivative r is non-decreasing on [lo, oo) is minimised (up to delta |e - es|) where |r| <= delta *)
Lemma stationary_min (P r : R -> R) (lo es delta : R) :
  (forall x, lo <= x -> is_derive P x (r x)) -> (forall x y, lo <= x -> x <= y -> r x <= r y) -> lo <= es ->
  Rabs (r es) <= delta -> forall e, lo <= e -> P es - delta * Rabs (e - es) <= P e.
Proof.
  intros HD Hm Hes Hr e He.
  destruct (MVT_gen P es e r) as (c & Hc & Hmv).
  - intros x Hx. apply HD. unfold Rmin in Hx. destruct (Rle_dec es e); lra.
  - intros x Hx. apply continuity_pt_filterlim. apply (ex_derive_continuous P x). exists (r x). apply HD.
    unfold Rmin in Hx. destruct (Rle_dec es e); lra.
  - assert (Hr' : - delta <= r es <= delta) by (apply Rabs_le_between; exact Hr).
    unfold Rmin, Rmax in Hc. unfold Rabs. destruct (Rle_dec es e) as [Hle|Hgt], (Rcase_abs (e - es)); try lra.
    + assert (r es <= r c) by (apply Hm; lra). nra.
    + assert (r c <= r es) by (apply Hm; lra). nra.
Qed.

Section Potential.
  Variables Hf Yf : R -> R.
  Variables mu s eo : R.
  Hypothesis Hmu : 0 < mu.

  Lemma potential_derive e : is_derive Hf e (Yf e) ->
    is_derive (fun x => @potential R NumR Hf mu s eo x) e (residR Yf mu s eo e).
  Proof.
    intros H. unfold potential, residR, three. unfold_num. q2r.
    apply (is_derive_ext (fun x => plus (- ((x - eo) * s) + 3 / 2 * mu * ((x - eo) * (x - eo))) (Hf x))); [intros; reflexivity|].
    replace (- s + 3 * mu * (e - eo) + Yf e) with (plus (- s + 3 * mu * (e - eo)) (Yf e)) by reflexivity.
    apply @is_derive_plus; [|exact H].
    auto_derive; [trivial|field].
  Qed.

  (* the stationary point of the incremental potential is its minimiser over admissible eqps >= eo (convex hardening) *)
  Theorem potential_min (es delta : R) :
    (forall x, eo <= x -> is_derive Hf x (Yf x)) -> (forall x y, eo <= x -> x <= y -> Yf x <= Yf y) -> eo <= es ->
    Rabs (residR Yf mu s eo es) <= delta ->
    forall e, eo <= e -> @potential R NumR Hf mu s eo es - delta * Rabs (e - es) <= @potential R NumR Hf mu s eo e.
  Proof.
    intros HD Hm Hes Hr e He.
    apply (stationary_min (fun x => @potential R NumR Hf mu s eo x) (residR Yf mu s eo) eo es delta); auto.
    - intros x Hx. apply potential_derive, HD, Hx.
    - intros x y Hx Hxy. unfold residR. pose proof (Hm x y Hx Hxy). nra.
  Qed.
End Potential.

(* ---------- the scalar potential IS the tensor potential of the code (elastic part regenerated) ---------- *)
Lemma tensor_potential_reduction (E : @m9 R) (p0 p1 mu p3 p4 D : R) :
  let N := flowdir E in
  let '(x0, x1, x2, x3, x4, x5, x6, x7, x8) := axpy9 D N E in
  j2_elastic_deviatoric_free_energy x0 x1 x2 x3 x4 x5 x6 x7 x8 p0 p1 mu p3 p4
  = mu * ddot (dev9 E) (dev9 E) - D * trial_mises mu E + 3 / 2 * mu * (D * D).
Proof.
  intros N. pose proof (flow_direction_props E) as (Ht & Hn). fold N in Ht, Hn. unfold trial_mises. fold N.
  destruct E as [[[[[[[[a0 a1] a2] a3] a4] a5] a6] a7] a8]. destruct N as [[[[[[[[n0 n1] n2] n3] n4] n5] n6] n7] n8].
  unfold axpy9, j2_elastic_deviatoric_free_energy, norm_of_deviator_squared, dev9, dev, deviator, t_trace, ddot, tr9 in *.
  cbv beta iota zeta in *. unfold_num. q2r.
  assert (H8 : n8 = - n0 - n4) by lra. subst n8.
  replace (3 / 2) with (n0 * n0 + n1 * n1 + n2 * n2 + n3 * n3 + n4 * n4 + n5 * n5 + n6 * n6 + n7 * n7 + (- n0 - n4) * (- n0 - n4)) by exact Hn.
  field.
Qed.

(* ---------- hardening laws: flow stress = derivative of the regenerated energy; monotone ---------- *)
Lemma linear_flow_derive Y0 H e : is_derive (fun x => @h_energy R NumR (Linear Y0 H) x) e (@h_flow R NumR (Linear Y0 H) e).
Proof. unfold h_energy, h_flow, linear. unfold_num. q2r. auto_derive; [trivial|field]. Qed.
Lemma linear_flow_monotone Y0 H : 0 <= H -> forall x y, x <= y -> @h_flow R NumR (Linear Y0 H) x <= @h_flow R NumR (Linear Y0 H) y.
Proof. intros HH x y Hxy. unfold h_flow. unfold_num. nra. Qed.

Lemma voce_flow_derive Y0 Ysat eps0 e : eps0 <> 0 ->
  is_derive (fun x => @h_energy R NumR (Voce Y0 Ysat eps0) x) e (@h_flow R NumR (Voce Y0 Ysat eps0) e).
Proof. intros He. unfold h_energy, h_flow, voce. unfold_num. q2r. auto_derive; [trivial|unfold Rdiv; field; exact He]. Qed.
Lemma voce_flow_monotone Y0 Ysat eps0 : Y0 <= Ysat -> 0 < eps0 ->
  forall x y, x <= y -> @h_flow R NumR (Voce Y0 Ysat eps0) x <= @h_flow R NumR (Voce Y0 Ysat eps0) y.
Proof.
  intros HY He x y Hxy. unfold h_flow. unfold_num.
  assert (exp (- y / eps0) <= exp (- x / eps0)).
  { destruct (Req_dec x y) as [->|Hne]; [lra|]. left. apply exp_increasing.
    unfold Rdiv. apply Rmult_lt_compat_r; [apply Rinv_0_lt_compat; exact He|lra]. }
  nra.
Qed.

Lemma power_flow_derive Y0 n eps0 e : 0 < n -> 0 < eps0 -> 0 < 1 + e / eps0 ->
  is_derive (fun x => @h_energy R NumR (PowerLaw Y0 n eps0) x) e (@h_flow R NumR (PowerLaw Y0 n eps0) e).
Proof.
  intros Hn He Hu. unfold h_energy, h_flow, power_law, npowr. unfold_num. q2r.
  apply (is_derive_ext_loc (fun x => n * Y0 * eps0 / (1 + n) * (exp ((n + 1) / n * ln (1 + x / eps0)) - 1))).
  - assert (Hd : 0 < (1 + e / eps0) * eps0 / 2) by (apply Rdiv_lt_0_compat; nra).
    exists (mkposreal _ Hd). intros x Hx. unfold ball in Hx; simpl in Hx. unfold AbsRing_ball, abs, minus, plus, opp in Hx; simpl in Hx.
    assert (0 < 1 + x / eps0).
    { apply Rabs_def2 in Hx. replace (1 + x / eps0) with ((eps0 + x) / eps0) by (field; lra). apply Rdiv_lt_0_compat; [|lra].
      replace ((1 + e / eps0) * eps0 / 2) with ((eps0 + e) / 2) in Hx by (field; lra). lra. }
    replace (Reqb (1 + x / eps0) 0) with false by (symmetry; apply Reqb_false; lra). reflexivity.
  - replace (Reqb (1 + e / eps0) 0) with false by (symmetry; apply Reqb_false; lra).
    assert (Hu' : 0 < 1 + e * / eps0) by exact Hu.
    auto_derive; [exact Hu'|].
    unfold Rdiv.
    replace ((n + 1) * / n * ln (1 + e * / eps0)) with (ln (1 + e * / eps0) + 1 * / n * ln (1 + e * / eps0)) by (field; lra).
    rewrite exp_plus, exp_ln by exact Hu'.
    assert (Hpe : 0 < eps0 + e). { replace (eps0 + e) with ((1 + e * / eps0) * eps0) by (field; lra). nra. }
    field. repeat split; lra.
Qed.

Lemma power_flow_monotone Y0 n eps0 : 0 <= Y0 -> 0 < n -> 0 < eps0 ->
  forall x y, 0 < 1 + x / eps0 -> x <= y -> @h_flow R NumR (PowerLaw Y0 n eps0) x <= @h_flow R NumR (PowerLaw Y0 n eps0) y.
Proof.
  intros HY Hn He x y Hx Hxy. unfold h_flow, npowr. unfold_num. q2r.
  assert (Hy : 0 < 1 + y / eps0).
  { assert (x / eps0 <= y / eps0); [|lra]. unfold Rdiv. apply Rmult_le_compat_r; [left; apply Rinv_0_lt_compat; exact He|exact Hxy]. }
  replace (Reqb (1 + x / eps0) 0) with false by (symmetry; apply Reqb_false; lra).
  replace (Reqb (1 + y / eps0) 0) with false by (symmetry; apply Reqb_false; lra).
  apply Rmult_le_compat_l; [exact HY|].
  destruct (Req_dec x y) as [->|Hne]; [lra|]. left. apply exp_increasing.
  apply Rmult_lt_compat_l; [apply Rdiv_lt_0_compat; lra|]. apply ln_increasing; [exact Hx|].
  assert (x / eps0 < y / eps0); [|lra]. unfold Rdiv. apply Rmult_lt_compat_r; [apply Rinv_0_lt_compat; exact He|lra].
Qed.

(* the concrete, rate-independent update (model delta_eqps with the regenerated tolerance constant): irreversibility for any
   law whose flow stress is non-decreasing beyond the current eqps *)
Lemma tolY_nonneg (l : @law R) : 0 <= law_Y0 l -> 0 <= @tolY R NumR l.
Proof. intros H. unfold tolY, c__TOLERANCE. unfold_num. q2r. apply Rmult_le_pos; [|exact H]. lra. Qed.

Theorem delta_eqps_nonneg (l : @law R) mu s eo dt d : 0 < mu -> 0 <= law_Y0 l ->
  (forall x y, eo <= x -> x <= y -> @h_flow R NumR l x <= @h_flow R NumR l y) ->
  @delta_eqps R NumR l NoRate mu s eo dt = Some d -> 0 <= d.
Proof.
  intros Hmu HY Hm H. unfold delta_eqps in H.
  refine (delta_nonneg _ _ mu (tolY l) Hmu (tolY_nonneg l HY) s eo d _ H).
  intros Hy.
  pose proof (ub_above (fun e : R => nadd (h_flow l e) (k_flow NoRate e eo dt)) mu (tolY l) Hmu (tolY_nonneg l HY) s eo Hy) as Hub.
  unfold ubR in *. cbn [k_flow] in *. unfold_num. q2r.
  assert (h_flow l eo <= h_flow l (eo + (s - (h_flow l eo + 0)) / (3 * mu))) by (apply Hm; lra). lra.
Qed.

(* ---------- isochoric plastic flow ---------- *)
Definition scale9 (k : R) (a : @m9 R) : @m9 R :=
  let '(a0, a1, a2, a3, a4, a5, a6, a7, a8) := a in (k * a0, k * a1, k * a2, k * a3, k * a4, k * a5, k * a6, k * a7, k * a8).

Lemma det9_mul (a b : @m9 R) : det9 (mul9 a b) = det9 a * det9 b.
Proof.
  destruct a as [[[[[[[[a0 a1] a2] a3] a4] a5] a6] a7] a8]. destruct b as [[[[[[[[b0 b1] b2] b3] b4] b5] b6] b7] b8].
  unfold det9, mul9, t_det. unfold_num. ring.
Qed.

Section Isochoric.
  Variable expm : @m9 R -> @m9 R.                                  (* TensorMath.exp_symm, not modelled *)
  Hypothesis det_exp : forall A, det9 (expm A) = exp (tr9 A).     (* Jacobi's formula *)

  Theorem plastic_flow_isochoric (E Fp : @m9 R) (D : R) : det9 (mul9 (expm (scale9 D (flowdir E))) Fp) = det9 Fp.
  Proof.
    rewrite det9_mul, det_exp. pose proof (flow_direction_props E) as (Ht & _).
    destruct (flowdir E) as [[[[[[[[n0 n1] n2] n3] n4] n5] n6] n7] n8]. unfold scale9, tr9 in *. unfold_num.
    replace (D * n0 + D * n4 + D * n8) with (D * (n0 + n4 + n8)) by ring. rewrite Ht, Rmult_0_r, exp_0. ring.
  Qed.
End Isochoric.

(* ---------- non-vacuity ---------- *)
Lemma nonvacuous_C09 :
  (forall x y : R, x <= y -> @h_flow R NumR (Linear 1 2) x <= @h_flow R NumR (Linear 1 2) y) /\
  (@is_yielding R NumR (fun e => @h_flow R NumR (Linear 1 2) e) (1 / 10) 3 0 = true) /\
  @delta_eqps_gen R NumR (fun _ => 1) (fun _ => 0) 1 (1 / 10) 1 0 = Some 0.
Proof.
  split; [apply linear_flow_monotone; lra|]. split.
  - unfold is_yielding, h_flow. unfold_num. apply Rltb_true. lra.
  - unfold delta_eqps_gen, is_yielding. unfold_num. replace (Rltb (1 / 10) (1 - 1)) with false by (symmetry; apply Rltb_false; lra).
    q2r. reflexivity.
Qed.

Lemma elastic_threshold (Yf dYf : R -> R) (mu tol : R) : 0 < mu -> 0 <= tol ->
  (forall s eo, delta_thr Yf dYf mu tol tol s eo = @delta_eqps_gen R NumR Yf dYf mu tol s eo) /\
  (forall thr s eo d, (tol < s - Yf eo -> Yf eo <= Yf (eo + (s - Yf eo) / (3 * mu))) ->
     delta_thr Yf dYf mu tol thr s eo = Some d -> (s - 3 * mu * d) - Yf (eo + d) <= Rmax thr tol) /\
  (forall thr eo, tol < thr ->
     delta_thr Yf dYf mu tol thr (Yf eo + thr) eo = Some 0 /\ tol < (Yf eo + thr - 3 * mu * 0) - Yf (eo + 0)).
Proof.
  intros Hmu Htol. split; [|split].
  - intros. apply delta_thr_tol.
  - intros thr s eo d. apply threshold_bound; assumption.
  - intros thr eo. apply threshold_tight.
Qed.
