(* C07: the denotation of the CFG-extracted reverse rules (model/M_C07_Rule.v) returns, in every parameter position, the cotangent of the
   implicit-function theorem -- the table facts (b), the slot helpers / vjp closures of class Objective and the adjoint identity (a) composed. *)
From Coq Require Import Reals Lra List Bool Arith String Lia.
From OV.model Require Import M_C07_Refs M_C19_CFG M_C07_Rule.
From OV.gen Require Import Refs_NonlinearSolve CFG_drivers.
From OV.proofs Require Import L_C07.
Import ListNotations.
Local Open Scope R_scope.

Lemma slots_eqb_eq a : forall b, slots_eqb a b = true -> a = b.
Proof.
  induction a as [|x a IH]; intros [|y b] Hs; try discriminate; [reflexivity|].
  cbn in Hs. apply andb_prop in Hs. destruct Hs as [Hx Hr]. f_equal; [|apply IH; exact Hr].
  destruct x, y; try discriminate; [|reflexivity].
  cbn in Hx. apply andb_prop in Hx. destruct Hx as [H1 H2]. apply Nat.eqb_eq in H1, H2. subst. reflexivity.
Qed.

Lemma find_closure_spec cls : forall k c, find_closure cls k = Some c -> In c cls /\ vc_method_slot c = k.
Proof.
  induction cls as [|c0 r IH]; intros k c Hf; [discriminate|]. cbn in Hf.
  destruct (Nat.eqb (vc_method_slot c0) k) eqn:E.
  - inversion Hf; subst. split; [left; reflexivity|apply Nat.eqb_eq; exact E].
  - destruct (IH _ _ Hf) as [Hi Hk]. split; [right; exact Hi|exact Hk].
Qed.

Section RuleProof.
  Variables V P : Type.
  Variable vadd : V -> V -> V.
  Variable vscale : R -> V -> V.
  Variable ipV : V -> V -> R.
  Variable ipP : P -> P -> R.
  Variable gradx : V -> Par P -> V.
  Variable vjp_at : (P -> V) -> P -> V -> P.
  Variable jvp_at : (V -> V) -> V -> V -> V.
  Variable deriv : (P -> V) -> P -> P -> V.            (* derivative of a slot map g : P -> V at q, applied to dp *)
  Variable cg : V -> V -> (V -> V) -> (V -> V) -> option R -> V * V.
  Variable vzero : V.
  Variable precond : V -> V.
  Hypothesis ip_sym : forall a b, ipV a b = ipV b a.
  Hypothesis ip_lin : forall a b c t, ipV a (vadd b (vscale t c)) = ipV a b + t * ipV a c.
  (* JAX: the function returned by vjp(g, q) is the transpose of the derivative of g at q *)
  Hypothesis vjp_transpose : forall g q w dp, ipP dp (vjp_at g q w) = ipV (deriv g q dp) w.

  Notation hess := (hess_op V P gradx jvp_at).
  Notation out := (rule_out V P gradx vjp_at jvp_at cg vzero precond).
  Notation lam_of := (rule_lam V P gradx jvp_at cg vzero precond).
  Notation pu := (p_used V P).
  Notation updP := (upd P).

  (* the tangent of the solution map in slot k, direction dp, by the implicit function theorem: H u = - d(grad)/dp_k dp (weak form) *)
  Definition ift_tangent (p : Par P) (x : V) (k : nat) (q0 dp : P) (u : V) : Prop :=
    forall w, ipV (hess p x u) w = - ipV (deriv (fun q => gradx x (updP p k q)) q0 dp) w.

  (* what is assumed of the Hessian-vector operator (JAX jvp of a gradient: linear, self-adjoint) and of the CG sub-solver (at infinite radius
     from zero it returns, in component 0, a minimiser of the quadratic model, whatever the preconditioner) at the point of the solve *)
  Definition solve_hyps (p : Par P) (x v : V) : Prop :=
    (forall a b t, hess p x (vadd a (vscale t b)) = vadd (hess p x a) (vscale t (hess p x b)))
    /\ (forall a b, ipV (hess p x a) b = ipV a (hess p x b))
    /\ (forall pre z, qmodel V ipV (hess p x) v (fst (cg vzero v (hess p x) pre None)) <= qmodel V ipV (hess p x) v z).

  Theorem rule_slot_is_ift_cotangent cls r rk hv expected (e : renv V P) :
    revrule_ok r expected = true -> hv = true -> forallb closure_ok cls = true ->
    solve_hyps (pu rk e) (e_Uu V P e) (e_v V P e) ->
    fst (out cls r rk hv e) = vzero
    /\ forall i k g, nth_error expected i = Some (SlotVJP k g) -> guard_present V P e g = true ->
       forall q0, nth k (pu rk e) None = Some q0 -> find_closure cls k <> None ->
       exists c, nth_error (snd (out cls r rk hv e)) i = Some (CotVal P c)
                 /\ forall dp u, ift_tangent (pu rk e) (e_Uu V P e) k q0 dp u -> ipV (e_v V P e) u = ipP dp c.
  Proof.
    intros Hr Hhv Hcls (Hlin & Hsym & Hmin). subst hv.
    unfold revrule_ok in Hr.
    repeat (match goal with H : _ && _ = true |- _ => apply andb_prop in H; destruct H end).
    match goal with H : slots_eqb _ _ = true |- _ => apply slots_eqb_eq in H; rename H into Hslots end.
    split.
    - unfold rule_out. cbn [fst]. match goal with H : r_guess_cotangent_zero r = true |- _ => rewrite H end. reflexivity.
    - intros i k g Hi Hg q0 Hq Hfc.
      destruct (find_closure cls k) as [c|] eqn:Efc; [clear Hfc|congruence].
      destruct (find_closure_spec _ _ _ Efc) as [Hin Hk].
      assert (Hc : closure_ok c = true) by (rewrite forallb_forall in Hcls; apply Hcls; exact Hin).
      unfold closure_ok in Hc.
      repeat (match goal with H : _ && _ = true |- _ => apply andb_prop in H; destruct H end).
      repeat (match goal with H : Nat.eqb _ _ = true |- _ => apply Nat.eqb_eq in H end).
      assert (Hsem : closure_sem V P gradx vjp_at c (pu rk e) (e_Uu V P e) (lam_of r rk true e)
                     = Some (vjp_at (fun q => gradx (e_Uu V P e) (updP (pu rk e) k q)) q0 (lam_of r rk true e))).
      { unfold closure_sem.
        repeat (match goal with H : ?b = true |- context [?b] => rewrite H end). cbn [andb].
        replace (vc_primal_slot c) with k by congruence. replace (vc_update_slot c) with k by congruence.
        rewrite Hq. reflexivity. }
      eexists. split.
      + unfold rule_out. cbn [snd]. rewrite Hslots, nth_error_map, Hi. cbn [option_map slot_sem].
        rewrite Hg, Efc, Hsem. reflexivity.
      + intros dp u Hu.
        assert (Hlam : lam_of r rk true e = fst (cg vzero (e_v V P e) (hess (pu rk e) (e_Uu V P e)) precond None)).
        { unfold rule_lam. repeat (match goal with H : ?b = true |- context [?b] => rewrite H end). reflexivity. }
        rewrite Hlam.
        exact (adjoint_identity V P vadd vscale ipV ipP (hess (pu rk e) (e_Uu V P e))
                 (deriv (fun q => gradx (e_Uu V P e) (updP (pu rk e) k q)) q0)
                 (vjp_at (fun q => gradx (e_Uu V P e) (updP (pu rk e) k q)) q0)
                 ip_sym ip_lin Hlin Hsym (fun dp0 w => eq_sym (vjp_transpose _ q0 w dp0))
                 (e_v V P e) _ u dp (Hmin precond) Hu).
  Qed.

  (* a guarded slot whose saved parameter is absent gets Python None; a position the rule fills with None gets None *)
  Theorem rule_slot_absent cls r rk hv expected (e : renv V P) :
    revrule_ok r expected = true ->
    (forall i k g, nth_error expected i = Some (SlotVJP k g) -> guard_present V P e g = false ->
       nth_error (snd (out cls r rk hv e)) i = Some (CotNone P))
    /\ (forall i, nth_error expected i = Some SlotNone -> nth_error (snd (out cls r rk hv e)) i = Some (CotNone P)).
  Proof.
    intros Hr. unfold revrule_ok in Hr.
    repeat (match goal with H : _ && _ = true |- _ => apply andb_prop in H; destruct H end).
    match goal with H : slots_eqb _ _ = true |- _ => apply slots_eqb_eq in H; rename H into Hslots end.
    split.
    - intros i k g Hi Hg. unfold rule_out. cbn [snd]. rewrite Hslots, nth_error_map, Hi. cbn [option_map slot_sem]. rewrite Hg. reflexivity.
    - intros i Hi. unfold rule_out. cbn [snd]. rewrite Hslots, nth_error_map, Hi. reflexivity.
  Qed.
End RuleProof.

(* ------------------------------------------------------------------ slot algebra on the regenerated param_index_update table *)
(* replacing slot k by the value it holds gives the same Params: the closures linearise at the objective's actual parameters *)
Theorem upd_same (P : Type) (p : Par P) k q0 : List.length p = 6%nat -> (k < 6)%nat -> nth k p None = Some q0 -> upd P p k q0 = p.
Proof.
  intros Hl Hk Hq.
  do 7 (destruct p as [|? p]; try discriminate).
  do 6 (destruct k as [|k]; [cbn in Hq; subst; reflexivity|]). lia.
Qed.

(* the design rule re-establishes slot 2 only: if the other slots of objective.p are what they were in the forward pass, so are the parameters *)
Theorem upd_slot_agree (P : Type) (p p' : Par P) k d : (k < 6)%nat ->
  (forall j, (j < 6)%nat -> j <> k -> nth j p None = nth j p' None) -> upd P p k d = upd P p' k d.
Proof.
  intros Hk Ha.
  do 6 (destruct k as [|k]; [unfold upd, piu_apply; cbn; repeat (f_equal; try (apply Ha; lia))|]). lia.
Qed.

Theorem upd_get (P : Type) (p : Par P) k d j : List.length p = 6%nat -> (k < 6)%nat -> (j < 6)%nat ->
  nth j (upd P p k d) None = if Nat.eqb k j then Some d else nth j p None.
Proof.
  intros Hl Hk Hj.
  do 7 (destruct p as [|? p]; try discriminate).
  do 6 (destruct k as [|k]; [do 6 (destruct j as [|j]; [reflexivity|]); lia|]). lia.
Qed.

(* ------------------------------------------------------------------ the regenerated tables, by computation *)
Definition rule_tables_ok : bool :=
  forallb closure_ok objective_vjp_closures
  && objective_hessian_vec_is_jvp_of_grad_x_at_self_p && objective_grad_x_is_grad_of_f_arg0
  && match restore_nonlinear_solve_with_state_b with RestoreSaved => true | _ => false end
  (* since /repo 42a60d0: the forward rule of nonlinear_solve saves objective.p (as the primal left it) with the design slot := its argument, and the
     reverse rule re-establishes exactly that -- no longer "design slot only on whatever objective.p holds" (RestoreSlot 2, finding C07-DESIGN-RESTORE) *)
  && match restore_nonlinear_solve_b with RestoreSaved => true | _ => false end
  && match fwd_saves_nonlinear_solve with RestoreSlot 2 => true | _ => false end
  && match fwd_saves_nonlinear_solve_with_state with RestoreSaved => true | _ => false end
  && fwd_nonlinear_solve_with_state_saves_solution_and_params && defvjp_registrations_ok
  && forallb (fun k => match find_closure objective_vjp_closures k with Some _ => true | None => false end) [0; 1; 2; 4]%nat.

Theorem rule_tables_resolve : rule_tables_ok = true.
Proof. vm_compute. reflexivity. Qed.

Lemma tables_facts :
  forallb closure_ok objective_vjp_closures = true
  /\ objective_hessian_vec_is_jvp_of_grad_x_at_self_p = true
  /\ restore_nonlinear_solve_with_state_b = RestoreSaved
  /\ restore_nonlinear_solve_b = RestoreSaved
  /\ (forall k, In k [0; 1; 2; 4]%nat -> find_closure objective_vjp_closures k <> None).
Proof.
  pose proof rule_tables_resolve as H. unfold rule_tables_ok in H.
  repeat (match goal with H : _ && _ = true |- _ => apply andb_prop in H; destruct H end).
  split; [assumption|]. split; [assumption|].
  split; [destruct restore_nonlinear_solve_with_state_b; try discriminate; reflexivity|].
  split; [destruct restore_nonlinear_solve_b; try discriminate; reflexivity|].
  intros k Hk. match goal with H : forallb _ [0; 1; 2; 4]%nat = true |- _ => rewrite forallb_forall in H; specialize (H k Hk) end.
  destruct (find_closure objective_vjp_closures k); [discriminate|discriminate].
Qed.

Section Instances.
  Variables V P : Type.
  Variable vadd : V -> V -> V.
  Variable vscale : R -> V -> V.
  Variable ipV : V -> V -> R.
  Variable ipP : P -> P -> R.
  Variable gradx : V -> Par P -> V.
  Variable vjp_at : (P -> V) -> P -> V -> P.
  Variable jvp_at : (V -> V) -> V -> V -> V.
  Variable deriv : (P -> V) -> P -> P -> V.
  Variable cg : V -> V -> (V -> V) -> (V -> V) -> option R -> V * V.
  Variable vzero : V.
  Variable precond : V -> V.
  Hypothesis ip_sym : forall a b, ipV a b = ipV b a.
  Hypothesis ip_lin : forall a b c t, ipV a (vadd b (vscale t c)) = ipV a b + t * ipV a c.
  Hypothesis vjp_transpose : forall g q w dp, ipP dp (vjp_at g q w) = ipV (deriv g q dp) w.

  Notation out := (rule_out V P gradx vjp_at jvp_at cg vzero precond).
  Notation tangent := (ift_tangent V P ipV gradx jvp_at deriv).
  Notation hyps := (solve_hyps V P vadd vscale ipV gradx jvp_at cg vzero).

  (* nonlinear_solve_with_state_b: WHATEVER objective.p holds when the rule runs (e_pcur: another load step's parameters), the cotangent
     returned in position k of Params, k in {0,1,2,4}, pairs with dp as the cotangent v pairs with the implicit-function tangent of the
     solution at the SAVED parameters; absent slots and position 3 get None; the guess gets the zero vector *)
  Theorem with_state_rule_ift (e : renv V P) :
    let o := out objective_vjp_closures rule_nonlinear_solve_with_state_b restore_nonlinear_solve_with_state_b
                 objective_hessian_vec_is_jvp_of_grad_x_at_self_p e in
    hyps (e_psaved V P e) (e_Uu V P e) (e_v V P e) ->
    fst o = vzero
    /\ nth_error (snd o) 3 = Some (CotNone P)
    /\ List.length (snd o) = 5%nat
    /\ forall k, In k [0; 1; 2; 4]%nat ->
         match nth k (e_psaved V P e) None with
         | None => nth_error (snd o) k = Some (CotNone P)
         | Some q0 => exists c, nth_error (snd o) k = Some (CotVal P c)
                       /\ forall dp u, tangent (e_psaved V P e) (e_Uu V P e) k q0 dp u -> ipV (e_v V P e) u = ipP dp c
         end.
  Proof.
    intros o Hh. destruct tables_facts as (Hcl & Hhv & Hrs & Hrd & Hfind).
    destruct reverse_rules_ok as (_ & Hrule & _).
    assert (Hpu : p_used V P restore_nonlinear_solve_with_state_b e = e_psaved V P e) by (rewrite Hrs; reflexivity).
    pose proof (rule_slot_is_ift_cotangent V P vadd vscale ipV ipP gradx vjp_at jvp_at deriv cg vzero precond ip_sym ip_lin vjp_transpose
                  objective_vjp_closures rule_nonlinear_solve_with_state_b restore_nonlinear_solve_with_state_b
                  objective_hessian_vec_is_jvp_of_grad_x_at_self_p expected_slots_with_state e Hrule Hhv Hcl) as Hmain.
    rewrite Hpu in Hmain. destruct (Hmain Hh) as [H0 Hs].
    destruct (rule_slot_absent V P gradx vjp_at jvp_at cg vzero precond objective_vjp_closures rule_nonlinear_solve_with_state_b
                restore_nonlinear_solve_with_state_b objective_hessian_vec_is_jvp_of_grad_x_at_self_p expected_slots_with_state e Hrule) as [Habs Hnone].
    split; [exact H0|]. split; [apply Hnone; reflexivity|].
    split.
    { unfold o, rule_out. cbn [snd]. rewrite map_length.
      unfold revrule_ok in Hrule. repeat (match goal with H : _ && _ = true |- _ => apply andb_prop in H; destruct H end).
      match goal with H : slots_eqb _ _ = true |- _ => apply slots_eqb_eq in H; rewrite H end. reflexivity. }
    intros k Hk.
    assert (Hexp : nth_error expected_slots_with_state k = Some (SlotVJP k k))
      by (cbn in Hk; destruct Hk as [<-|[<-|[<-|[<-|[]]]]]; reflexivity).
    assert (Hk99 : Nat.eqb k 99 = false) by (cbn in Hk; destruct Hk as [<-|[<-|[<-|[<-|[]]]]]; reflexivity).
    destruct (nth k (e_psaved V P e) None) as [q0|] eqn:Eq.
    - apply (Hs k k k Hexp); [unfold guard_present; rewrite Hk99, Eq; reflexivity|exact Eq|apply Hfind; exact Hk].
    - apply (Habs k k k Hexp). unfold guard_present. rewrite Hk99, Eq. reflexivity.
  Qed.

  (* the single-slot rule shape [SlotVJP 2 99] under ANY way rk of re-establishing objective.p: if the parameters in force are pf and their design slot
     holds q0, the one returned cotangent is the implicit-function cotangent of the design slot at pf *)
  Lemma design_shape_ift (rk : restore_kind) (e : renv V P) (pf : Par P) q0 :
    let o := out objective_vjp_closures rule_nonlinear_solve_b rk objective_hessian_vec_is_jvp_of_grad_x_at_self_p e in
    p_used V P rk e = pf -> nth 2 pf None = Some q0 ->
    hyps pf (e_Uu V P e) (e_v V P e) ->
    fst o = vzero
    /\ exists c, snd o = [CotVal P c]
         /\ forall dp u, tangent pf (e_Uu V P e) 2 q0 dp u -> ipV (e_v V P e) u = ipP dp c.
  Proof.
    intros o Hpu Hq Hh. destruct tables_facts as (Hcl & Hhv & Hrs & Hrd & Hfind).
    destruct reverse_rules_ok as (Hrule & _).
    pose proof (rule_slot_is_ift_cotangent V P vadd vscale ipV ipP gradx vjp_at jvp_at deriv cg vzero precond ip_sym ip_lin vjp_transpose
                  objective_vjp_closures rule_nonlinear_solve_b rk
                  objective_hessian_vec_is_jvp_of_grad_x_at_self_p [SlotVJP 2 99] e Hrule Hhv Hcl) as Hmain.
    rewrite Hpu in Hmain. destruct (Hmain Hh) as [H0 Hs].
    split; [exact H0|].
    destruct (Hs 0%nat 2%nat 99%nat eq_refl eq_refl _ Hq (Hfind 2%nat ltac:(cbn; tauto))) as (c & Hc & Hpair).
    exists c. split; [|exact Hpair].
    assert (Hlen : List.length (snd o) = 1%nat).
    { unfold o, rule_out. cbn [snd]. rewrite map_length.
      unfold revrule_ok in Hrule. repeat (match goal with H : _ && _ = true |- _ => apply andb_prop in H; destruct H end).
      match goal with H : slots_eqb _ _ = true |- _ => apply slots_eqb_eq in H; rewrite H end. reflexivity. }
    fold o in Hc. destruct (snd o) as [|x [|y l]]; try discriminate. cbn in Hc. inversion Hc. reflexivity.
  Qed.

  (* nonlinear_solve_b as extracted (since /repo 42a60d0 it re-establishes the Params its forward rule saved): WHATEVER objective.p holds when the rule
     runs, the returned cotangent is the implicit-function cotangent of the design slot at the SAVED parameters (q0: the design they carry) *)
  Theorem design_rule_ift (e : renv V P) q0 :
    let o := out objective_vjp_closures rule_nonlinear_solve_b restore_nonlinear_solve_b objective_hessian_vec_is_jvp_of_grad_x_at_self_p e in
    nth 2 (e_psaved V P e) None = Some q0 ->
    hyps (e_psaved V P e) (e_Uu V P e) (e_v V P e) ->
    fst o = vzero
    /\ exists c, snd o = [CotVal P c]
         /\ forall dp u, tangent (e_psaved V P e) (e_Uu V P e) 2 q0 dp u -> ipV (e_v V P e) u = ipP dp c.
  Proof.
    intros o Hq Hh. destruct tables_facts as (_ & _ & _ & Hrd & _).
    apply (design_shape_ift restore_nonlinear_solve_b e (e_psaved V P e) q0); [rewrite Hrd; reflexivity|exact Hq|exact Hh].
  Qed.

  (* the rule shape BEFORE /repo 42a60d0 (RestoreSlot 2: only the design slot of objective.p re-established): correct only if the other slots of objective.p
     are what they were when the forward pass ran (pobj) *)
  Theorem design_rule_prefix_ift (e : renv V P) (pobj : Par P) :
    let o := out objective_vjp_closures rule_nonlinear_solve_b (RestoreSlot 2) objective_hessian_vec_is_jvp_of_grad_x_at_self_p e in
    let pfwd := upd P pobj 2 (e_dsaved V P e) in
    List.length pobj = 6%nat ->
    (forall j, (j < 6)%nat -> j <> 2%nat -> nth j (e_pcur V P e) None = nth j pobj None) ->
    hyps pfwd (e_Uu V P e) (e_v V P e) ->
    fst o = vzero
    /\ exists c, snd o = [CotVal P c]
         /\ forall dp u, tangent pfwd (e_Uu V P e) 2 (e_dsaved V P e) dp u -> ipV (e_v V P e) u = ipP dp c.
  Proof.
    intros o pfwd Hl Hag Hh.
    apply (design_shape_ift (RestoreSlot 2) e pfwd (e_dsaved V P e)); [|unfold pfwd; rewrite upd_get by (try exact Hl; lia); reflexivity|exact Hh].
    cbn [p_used]. apply upd_slot_agree; [lia|exact Hag].
  Qed.
End Instances.

(* ------------------------------------------------------------------ the hypotheses are jointly satisfiable (V = P = R) with a non-trivial
   Hessian h > 0 and parameter Jacobian j: gradient h x + j (p0 + p1 + p2 + p4); difference quotients (exact on affine maps) as vjp / jvp /
   derivative; the exact 1-D minimiser as the CG result *)
Section Instance.
  Variables h j : R.
  Hypothesis Hh : 0 < h.
  Definition slotv (p : Par R) k : R := match nth k p None with Some x => x | None => 0 end.
  Definition i_gradx (x : R) (p : Par R) : R := h * x + j * (slotv p 0 + slotv p 1 + slotv p 2 + slotv p 4).
  Definition i_vjp (g : R -> R) (q w : R) : R := (g (q + 1) - g q) * w.
  Definition i_jvp (g : R -> R) (x t : R) : R := (g (x + 1) - g x) * t.
  Definition i_deriv (g : R -> R) (q dp : R) : R := (g (q + 1) - g q) * dp.
  Definition i_cg (x0 r : R) (op pre : R -> R) (rad : option R) : R * R := (- r / op 1, 0).

  Lemma instance_hyps :
    (forall a b, a * b = b * a)
    /\ (forall a b c t, a * (b + t * c) = a * b + t * (a * c))
    /\ (forall g q w dp, dp * i_vjp g q w = i_deriv g q dp * w)
    /\ forall p x v, solve_hyps R R Rplus Rmult Rmult i_gradx i_jvp i_cg 0 p x v.
  Proof.
    repeat split; intros; try (unfold i_vjp, i_deriv; ring).
    - unfold hess_op, i_jvp, i_gradx. ring.
    - unfold hess_op, i_jvp, i_gradx. ring.
    - unfold hess_op, i_jvp, i_gradx, i_cg, qmodel. cbn [fst].
      replace (h * (x + 1) + j * (slotv p 0 + slotv p 1 + slotv p 2 + slotv p 4) - (h * x + j * (slotv p 0 + slotv p 1 + slotv p 2 + slotv p 4))) with h by ring.
      assert (E : v * z + / 2 * (z * (h * z)) - (v * (- v / (h * 1)) + / 2 * (- v / (h * 1) * (h * (- v / (h * 1))))) = / 2 * h * ((z + v / h) * (z + v / h))) by (field; lra).
      pose proof (Rle_0_sqr (z + v / h)) as Hs. unfold Rsqr in Hs.
      assert (0 <= / 2 * h * ((z + v / h) * (z + v / h))) by (apply Rmult_le_pos; [lra|exact Hs]). lra.
  Qed.

  (* and the implicit-function tangent exists there: u = - j dp / h *)
  Lemma instance_tangent p x k q0 dp : List.length p = 6%nat -> In k [0; 1; 2; 4]%nat ->
    ift_tangent R R Rmult i_gradx i_jvp i_deriv p x k q0 dp (- (j * dp) / h).
  Proof.
    intros Hl Hk w. unfold hess_op, i_jvp, i_deriv, i_gradx, slotv.
    do 7 (destruct p as [|? p]; try discriminate).
    cbn in Hk. destruct Hk as [<-|[<-|[<-|[<-|[]]]]]; cbn; field; lra.
  Qed.
End Instance.
