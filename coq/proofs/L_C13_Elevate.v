(* C13 -- the elevation numbering assigns every id 0..nV+nE*m+nT*nI-1 to exactly one slot *)
From Coq Require Import List Arith Lia.
From OV.model Require Import M_C13_Elevate.
Import ListNotations.

Lemma map_add_seq a s n : map (fun k => a + k) (seq s n) = seq (a + s) n.
Proof. revert s. induction n as [| n IH]; intros s; [reflexivity |]. cbn [seq map]. rewrite IH. now rewrite Nat.add_succ_r. Qed.

Lemma chunks_seq a c n : flat_map (fun e => map (fun k => a + e * c + k) (seq 0 c)) (seq 0 n) = seq a (n * c).
Proof.
  induction n as [| n IH]; [reflexivity |]. rewrite seq_S, flat_map_app, IH. cbn [flat_map Nat.add]. rewrite app_nil_r.
  rewrite map_add_seq, Nat.add_0_r. replace (S n * c) with (n * c + c) by lia. now rewrite seq_app.
Qed.

Lemma all_ids_seq nV nE nT m nI : all_ids nV nE nT m nI = seq 0 (nV + nE * m + nT * nI).
Proof.
  unfold all_ids, edge_ids, interior_ids. rewrite (chunks_seq nV m nE), (chunks_seq (nV + nE * m) nI nT).
  rewrite !seq_app. cbn [Nat.add]. now rewrite <- app_assoc.
Qed.

Lemma all_ids_nodup nV nE nT m nI : NoDup (all_ids nV nE nT m nI) /\
  forall i, In i (all_ids nV nE nT m nI) <-> i < nV + nE * m + nT * nI.
Proof. rewrite all_ids_seq. split; [apply seq_NoDup |]. intros i. rewrite in_seq. lia. Qed.

Lemma edge_ids_right_rev nV m e : edge_ids_right nV m e = rev (edge_ids nV m e) /\ length (edge_ids nV m e) = m.
Proof. split; [reflexivity |]. unfold edge_ids. now rewrite map_length, seq_length. Qed.
