(* C18: smoothed min/max/abs, friction regularisation, smooth ramp: bounds, symmetry, exactness, C1.
   All statements are about the kernels regenerated from /repo (gen/Gen_*.v), instantiated at R. *)
From Coq Require Import Reals Lra Lia QArith Qreals.
From OV.base Require Import Num.
From OV.gen Require Import Gen_SmoothFunctions Gen_Math Gen_Friction Gen_MortarContact.
Local Open Scope R_scope.

Definition smin (x y e : R) : R := @s_min R NumR x y e.
Definition smax (x y e : R) : R := @s_max R NumR x y e.
Definition sabs (x e : R) : R := @s_abs R NumR x e.
Definition szmax (x e : R) : R := @zmax R NumR x e.
Definition safeTol : R := @c_safeTol R NumR.
(* the width the code actually uses: max(eps, safeTol) *)
Definition swidth (e : R) : R := if Rlt_dec safeTol e then e else safeTol.

Lemma safeTol_val : safeTol = / 100000000000000.
Proof. unfold safeTol, c_safeTol. unfold_num. q2r. lra. Qed.
Lemma safeTol_pos : 0 < safeTol.
Proof. rewrite safeTol_val. apply Rinv_0_lt_compat. lra. Qed.
Lemma swidth_pos e : 0 < swidth e.
Proof. unfold swidth. pose proof safeTol_pos. destruct (Rlt_dec safeTol e); lra. Qed.
Lemma swidth_ge e : e <= swidth e.
Proof. unfold swidth. destruct (Rlt_dec safeTol e); lra. Qed.

(* closed form of the generated kernel *)
Lemma smin_closed x y e :
  smin x y e = if Rlt_dec (Rabs (x - y)) e
               then (- (1/4) * (x + y - swidth e)^2 + x * y) / swidth e
               else Rmin x y.
Proof.
  unfold smin, s_min, min_base, swidth, safeTol. unfold_num. q2r.
  unfold Rltb.
  destruct (Rlt_dec (Rabs (x - y)) e) as [Hin|Hout].
  - (* any algebraically equivalent way of writing the in-band expression is accepted *)
    pose proof safeTol_pos as Hp. unfold safeTol in Hp.
    destruct (Rlt_dec (@c_safeTol R NumR) e); field; lra.
  - unfold Rmin. destruct (Rlt_dec x y), (Rle_dec x y); lra.
Qed.

Lemma smin_in_band x y e : Rabs (x - y) < e ->
  smin x y e = Rmin x y - (swidth e - Rabs (x - y))^2 / (4 * swidth e).
Proof.
  intros H. rewrite smin_closed. destruct (Rlt_dec (Rabs (x - y)) e); [|lra].
  pose proof (swidth_pos e) as Hs.
  unfold Rmin, Rabs. destruct (Rle_dec x y), (Rcase_abs (x - y)); field_simplify; try lra.
  all: try (replace y with x by lra; field; lra).
Qed.

Theorem smin_le_min x y e : smin x y e <= Rmin x y.
Proof.
  destruct (Rlt_dec (Rabs (x - y)) e) as [H|H].
  - rewrite smin_in_band by exact H. pose proof (swidth_pos e).
    assert (0 <= (swidth e - Rabs (x - y))^2 / (4 * swidth e)).
    { apply Rmult_le_pos. apply pow2_ge_0. left. apply Rinv_0_lt_compat. lra. }
    lra.
  - rewrite smin_closed. destruct (Rlt_dec (Rabs (x - y)) e); [contradiction|lra].
Qed.

Theorem smin_gap x y e : Rmin x y - smin x y e <= swidth e / 4.
Proof.
  destruct (Rlt_dec (Rabs (x - y)) e) as [H|H].
  - rewrite smin_in_band by exact H. pose proof (swidth_pos e) as Hs. pose proof (swidth_ge e) as Hg.
    pose proof (Rabs_pos (x - y)) as Ha.
    set (d := Rabs (x - y)) in *. set (s := swidth e) in *.
    replace (Rmin x y - (Rmin x y - (s - d)^2 / (4 * s))) with ((s - d)^2 / (4 * s)) by lra.
    apply Rmult_le_reg_r with (4 * s); [lra|].
    unfold Rdiv. rewrite Rmult_assoc, Rinv_l by lra. nra.
  - rewrite smin_closed. destruct (Rlt_dec (Rabs (x - y)) e); [contradiction|].
    pose proof (swidth_pos e). lra.
Qed.

Theorem smin_exact_outside x y e : e <= Rabs (x - y) -> smin x y e = Rmin x y.
Proof. intros H. rewrite smin_closed. destruct (Rlt_dec (Rabs (x - y)) e); [lra|reflexivity]. Qed.

Theorem smin_sym x y e : smin x y e = smin y x e.
Proof.
  rewrite !smin_closed. rewrite (Rabs_minus_sym y x), (Rmin_comm y x).
  destruct (Rlt_dec (Rabs (x - y)) e); [|reflexivity]. f_equal. ring.
Qed.

(* for widths above safeTol the gap is a quarter of the requested width *)
Corollary smin_gap_quarter x y e : safeTol < e -> Rmin x y - smin x y e <= e / 4.
Proof. intros H. pose proof (smin_gap x y e) as G. unfold swidth in G. destruct (Rlt_dec safeTol e); lra. Qed.

(* ---- max and abs: mirrored ---- *)
Lemma smax_def x y e : smax x y e = - smin (- x) (- y) e.
Proof. reflexivity. Qed.
Lemma sabs_def x e : sabs x e = - smin (- x) x e.
Proof. reflexivity. Qed.

Lemma Rmin_opp x y : Rmin (- x) (- y) = - Rmax x y.
Proof. unfold Rmin, Rmax. destruct (Rle_dec (-x) (-y)), (Rle_dec x y); lra. Qed.

Theorem smax_ge_max x y e : Rmax x y <= smax x y e.
Proof. rewrite smax_def. pose proof (smin_le_min (-x) (-y) e). rewrite Rmin_opp in H. lra. Qed.
Theorem smax_gap x y e : smax x y e - Rmax x y <= swidth e / 4.
Proof. rewrite smax_def. pose proof (smin_gap (-x) (-y) e). rewrite Rmin_opp in H. lra. Qed.
Theorem smax_exact_outside x y e : e <= Rabs (x - y) -> smax x y e = Rmax x y.
Proof.
  intros H. rewrite smax_def, smin_exact_outside. rewrite Rmin_opp; lra.
  replace (- x - - y) with (- (x - y)) by ring. rewrite Rabs_Ropp. exact H.
Qed.
Theorem smax_sym x y e : smax x y e = smax y x e.
Proof. rewrite !smax_def. now rewrite smin_sym. Qed.

Lemma Rmin_opp_self x : Rmin (- x) x = - Rabs x.
Proof. unfold Rmin, Rabs. destruct (Rle_dec (-x) x), (Rcase_abs x); lra. Qed.
Theorem sabs_ge_abs x e : Rabs x <= sabs x e.
Proof. rewrite sabs_def. pose proof (smin_le_min (-x) x e). rewrite Rmin_opp_self in H. lra. Qed.
Theorem sabs_gap x e : sabs x e - Rabs x <= swidth e / 4.
Proof. rewrite sabs_def. pose proof (smin_gap (-x) x e). rewrite Rmin_opp_self in H. lra. Qed.
Theorem sabs_exact_outside x e : e <= 2 * Rabs x -> sabs x e = Rabs x.
Proof.
  intros H. rewrite sabs_def, smin_exact_outside. rewrite Rmin_opp_self; lra.
  replace (- x - x) with (- (2 * x)) by ring. rewrite Rabs_Ropp, Rabs_mult, (Rabs_right 2); lra.
Qed.
Theorem sabs_even x e : sabs (- x) e = sabs x e.
Proof. rewrite !sabs_def. rewrite Ropp_involutive. now rewrite smin_sym. Qed.

(* ================= C1 across the branch switches ================= *)
From Coquelicot Require Import Coquelicot.
From OV.base Require Import Piecewise.

Section SminC1.
  Variables (y e : R).
  Hypothesis He : safeTol < e.
  Let q  (x : R) : R := (- (1/4) * (x + y - e)^2 + x * y) / e.
  Let q' (x : R) : R := (y - (x + y - e) / 2) / e.
  Definition smin_pw  (x : R) : R := pw (y - e) (fun x => x) (pw (y + e) q  (fun _ => y)) x.
  Definition dsmin_dx (x : R) : R := pw (y - e) (fun _ => 1) (pw (y + e) q' (fun _ => 0)) x.

  Let epos : 0 < e. Proof. pose proof safeTol_pos. lra. Qed.

  Lemma smin_is_pw x : smin x y e = smin_pw x.
  Proof.
    rewrite smin_closed. unfold swidth. destruct (Rlt_dec safeTol e); [|lra].
    unfold smin_pw, pw, q.
    destruct (Rle_dec x (y - e)), (Rle_dec x (y + e)), (Rlt_dec (Rabs (x - y)) e) as [Ha|Ha];
      try reflexivity; try lra;
      try (apply Rabs_def2 in Ha; lra);
      try (exfalso; apply Ha; apply Rabs_def1; lra).
    - unfold Rmin; destruct (Rle_dec x y); lra.
    - (* on the upper switch x = y + e the quadratic equals y *)
      assert (x = y + e).
      { destruct (Rle_lt_or_eq_dec x (y + e)); [lra| |assumption]. exfalso. apply Ha. apply Rabs_def1; lra. }
      subst x. unfold Rmin. destruct (Rle_dec (y + e) y); [lra|]. field. lra.
    - unfold Rmin; destruct (Rle_dec x y); lra.
  Qed.

  Theorem smin_C1_in_x : C1_with (fun x => smin x y e) dsmin_dx.
  Proof.
    apply (C1_ext smin_pw dsmin_dx); [intros; symmetry; apply smin_is_pw|reflexivity|].
    unfold smin_pw, dsmin_dx. apply C1_pw.
    - c1_auto.
    - apply C1_pw.
      + unfold q, q'. c1_auto.
      + c1_auto.
      + unfold q. field. lra.
      + unfold q'. field. lra.
    - unfold pw, q. destruct (Rle_dec (y - e) (y + e)); [|lra]. field. lra.
    - unfold pw, q'. destruct (Rle_dec (y - e) (y + e)); [|lra]. field. lra.
  Qed.
End SminC1.

Theorem smin_C1_in_y x e : safeTol < e -> C1_with (fun y => smin x y e) (dsmin_dx x e).
Proof.
  intros He. apply (C1_ext (fun y => smin y x e) (dsmin_dx x e)).
  - intros y. apply smin_sym. - reflexivity. - apply smin_C1_in_x. exact He.
Qed.

Theorem smax_C1_in_x y e : safeTol < e -> C1_with (fun x => smax x y e) (fun x => dsmin_dx (- y) e (- x)).
Proof.
  intros He. apply (C1_ext (fun x => - smin (- x) (- y) e) (fun x => dsmin_dx (- y) e (- x))); try reflexivity.
  apply (C1_flip (fun x => smin x (- y) e)). apply smin_C1_in_x. exact He.
Qed.

(* |x| smoothed: three explicit pieces *)
Section SabsC1.
  Variable e : R.
  Hypothesis He : safeTol < e.
  Definition sabs_pw  (x : R) : R := pw (- e / 2) (fun x => - x) (pw (e / 2) (fun x => e / 4 + x^2 / e) (fun x => x)) x.
  Definition dsabs_dx (x : R) : R := pw (- e / 2) (fun _ => - 1) (pw (e / 2) (fun x => 2 * x / e) (fun _ => 1)) x.
  Let epos : 0 < e. Proof. pose proof safeTol_pos. lra. Qed.

  Lemma sabs_is_pw x : sabs x e = sabs_pw x.
  Proof.
    rewrite sabs_def, smin_closed. unfold swidth. destruct (Rlt_dec safeTol e); [|lra].
    unfold sabs_pw, pw.
    destruct (Rle_dec x (- e / 2)), (Rle_dec x (e / 2)), (Rlt_dec (Rabs (- x - x)) e) as [Ha|Ha];
      try lra;
      try (apply Rabs_def2 in Ha; lra);
      try (exfalso; apply Ha; apply Rabs_def1; lra).
    - unfold Rmin; destruct (Rle_dec (- x) x); lra.
    - field. lra.
    - assert (x = e / 2).
      { destruct (Rle_lt_or_eq_dec x (e / 2)); [lra| |assumption]. exfalso. apply Ha. apply Rabs_def1; lra. }
      subst x. unfold Rmin. destruct (Rle_dec (- (e / 2)) (e / 2)); [|lra]. field. lra.
    - unfold Rmin; destruct (Rle_dec (- x) x); lra.
  Qed.

  Theorem sabs_C1 : C1_with (fun x => sabs x e) dsabs_dx.
  Proof.
    apply (C1_ext sabs_pw dsabs_dx); [intros; symmetry; apply sabs_is_pw|reflexivity|].
    unfold sabs_pw, dsabs_dx. apply C1_pw.
    - c1_auto.
    - apply C1_pw; [c1_auto|c1_auto|field; lra|field; lra].
    - unfold pw. destruct (Rle_dec (- e / 2) (e / 2)); [|lra]. field. lra.
    - unfold pw. destruct (Rle_dec (- e / 2) (e / 2)); [|lra]. field. lra.
  Qed.
End SabsC1.

(* smoothed ramp zmax *)
Section ZmaxC1.
  Variable e : R.
  Hypothesis He : 0 < e.
  Definition zmax_pw  (x : R) : R := pw (- e) (fun _ => 0) (pw e (fun x => (x + e)^2 / (4 * e)) (fun x => x)) x.
  Definition dzmax_dx (x : R) : R := pw (- e) (fun _ => 0) (pw e (fun x => (x + e) / (2 * e)) (fun _ => 1)) x.

  Lemma zmax_is_pw x : szmax x e = zmax_pw x.
  Proof.
    unfold szmax, zmax. unfold_num. q2r. unfold Rleb, zmax_pw, pw.
    destruct (Rle_dec x (- e)), (Rle_dec e x), (Rle_dec x e); try lra;
      try (assert (x = e) by lra; subst x); field; lra.
  Qed.

  Theorem zmax_C1 : C1_with (fun x => szmax x e) dzmax_dx.
  Proof.
    apply (C1_ext zmax_pw dzmax_dx); [intros; symmetry; apply zmax_is_pw|reflexivity|].
    unfold zmax_pw, dzmax_dx. apply C1_pw.
    - c1_auto.
    - apply C1_pw; [c1_auto|c1_auto|field; lra|field; lra].
    - unfold pw. destruct (Rle_dec (- e) e); [|lra]. field. lra.
    - unfold pw. destruct (Rle_dec (- e) e); [|lra]. field. lra.
  Qed.

  Theorem zmax_bounds x : Rmax 0 x <= szmax x e <= Rmax 0 x + e / 4.
  Proof.
    rewrite zmax_is_pw. unfold zmax_pw, pw, Rmax.
    destruct (Rle_dec x (- e)), (Rle_dec x e), (Rle_dec 0 x); try lra.
    - assert (0 <= (x + e)^2 / (4 * e) - x <= e / 4); [|lra].
      replace ((x + e)^2 / (4 * e) - x) with ((x - e)^2 / (4 * e)) by (field; lra).
      split. apply Rmult_le_pos; [apply pow2_ge_0|left; apply Rinv_0_lt_compat; lra].
      apply Rmult_le_reg_r with (4 * e); [lra|]. unfold Rdiv. rewrite Rmult_assoc, Rinv_l by lra. nra.
    - split. apply Rmult_le_pos; [apply pow2_ge_0|left; apply Rinv_0_lt_compat; lra].
      apply Rmult_le_reg_r with (4 * e); [lra|]. unfold Rdiv. rewrite Rmult_assoc, Rinv_l by lra. nra.
  Qed.
End ZmaxC1.

(* smoothed segment parameter *)
Section SmoothLinearC1.
  Variable l : R.
  Hypothesis Hl : 0 < l <= 1 / 2.
  Definition slin (xi : R) : R := @smooth_linear R NumR xi l.
  Definition slin_pw (x : R) : R :=
    pw l (fun x => x^2 / (2 * l)) (pw (1 - l) (fun x => x - l / 2) (fun x => 1 - l - (1 - x)^2 / (2 * l))) x.
  Definition dslin (x : R) : R :=
    pw l (fun x => x / l) (pw (1 - l) (fun _ => 1) (fun x => (1 - x) / l)) x.

  Lemma slin_is_pw x : slin x = slin_pw x.
  Proof.
    unfold slin, smooth_linear. unfold_num. q2r. unfold Rltb, slin_pw, pw.
    destruct (Rlt_dec x l), (Rle_dec x l), (Rlt_dec (1 - l) x), (Rle_dec x (1 - l)); try lra; try (field; lra).
    assert (x = l) by lra. subst x. field. lra.
  Qed.

  Theorem smooth_linear_C1 : C1_with slin dslin.
  Proof.
    apply (C1_ext slin_pw dslin); [intros; symmetry; apply slin_is_pw|reflexivity|].
    unfold slin_pw, dslin. apply C1_pw.
    - c1_auto.
    - apply C1_pw; [c1_auto|c1_auto|field; lra|field; lra].
    - unfold pw. destruct (Rle_dec l (1 - l)); [|lra]. field. lra.
    - unfold pw. destruct (Rle_dec l (1 - l)); [|lra]. field. lra.
  Qed.

  (* monotone, maps [0,1] into [0, 1-l] (used by the mortar weights in C16) *)
  Theorem smooth_linear_monotone x : 0 <= x <= 1 -> 0 <= dslin x.
  Proof.
    intros Hx. unfold dslin, pw. destruct (Rle_dec x l), (Rle_dec x (1 - l)); try lra;
      (apply Rmult_le_pos; [lra|left; apply Rinv_0_lt_compat; lra]).
  Qed.
End SmoothLinearC1.

(* ================= friction regularisation ================= *)
Section Friction.
  Variables (mu sReg : R).
  Hypothesis Hmu : 0 <= mu.
  Hypothesis Hs : 0 < sReg.
  Definition phi (s0 s1 : R) : R := @compute_friction_energy_from_perp_slip R NumR s0 s1 mu sReg.
  Definition nrm (s0 s1 : R) : R := sqrt (s0 * s0 + s1 * s1).
  (* radial profile *)
  Definition prof (r : R) : R := if Rle_dec r sReg then r^2 / (2 * sReg) else r - sReg / 2.

  Lemma nrm_sq s0 s1 : nrm s0 s1 * nrm s0 s1 = s0 * s0 + s1 * s1.
  Proof. unfold nrm. apply sqrt_sqrt. nra. Qed.
  Lemma nrm_pos s0 s1 : 0 <= nrm s0 s1.
  Proof. apply sqrt_pos. Qed.

  Lemma phi_profile s0 s1 : phi s0 s1 = mu * prof (nrm s0 s1).
  Proof.
    unfold phi, compute_friction_energy_from_perp_slip, safe_sqrt. unfold_num. q2r. unfold Rleb, prof.
    pose proof (nrm_sq s0 s1) as Hq. pose proof (nrm_pos s0 s1) as Hp. fold (nrm s0 s1).
    set (r := nrm s0 s1) in *.
    destruct (Rle_dec (s0 * s0 + s1 * s1) (sReg * sReg)), (Rle_dec r sReg); f_equal.
    - rewrite <- Hq. field. lra.
    - exfalso. nra.
    - exfalso. nra.
    - lra.
  Qed.

  Theorem friction_nonneg s0 s1 : 0 <= phi s0 s1.
  Proof.
    rewrite phi_profile. pose proof (nrm_pos s0 s1). apply Rmult_le_pos; [assumption|].
    unfold prof. destruct (Rle_dec (nrm s0 s1) sReg); [|lra].
    apply Rmult_le_pos; [apply pow2_ge_0|left; apply Rinv_0_lt_compat; lra].
  Qed.

  Theorem friction_le_coulomb s0 s1 : phi s0 s1 <= mu * nrm s0 s1.
  Proof.
    rewrite phi_profile. pose proof (nrm_pos s0 s1). apply Rmult_le_compat_l; [assumption|].
    unfold prof. destruct (Rle_dec (nrm s0 s1) sReg); [|lra].
    apply Rmult_le_reg_r with (2 * sReg); [lra|]. unfold Rdiv. rewrite Rmult_assoc, Rinv_l by lra. nra.
  Qed.

  Theorem friction_outside s0 s1 : sReg < nrm s0 s1 -> phi s0 s1 = mu * (nrm s0 s1 - sReg / 2).
  Proof. intros H. rewrite phi_profile. unfold prof. destruct (Rle_dec (nrm s0 s1) sReg); [lra|reflexivity]. Qed.

  (* the profile is convex and non-decreasing on r >= 0 : tangent-line characterisation *)
  Definition dprof (r : R) : R := if Rle_dec r sReg then r / sReg else 1.
  Lemma prof_tangent r r0 : 0 <= r -> 0 <= r0 -> prof r0 + dprof r0 * (r - r0) <= prof r.
  Proof.
    intros Hr Hr0. unfold prof, dprof. destruct (Rle_dec r0 sReg), (Rle_dec r sReg).
    - assert (0 <= (r - r0)^2 / (2 * sReg)) by (apply Rmult_le_pos; [apply pow2_ge_0|left; apply Rinv_0_lt_compat; lra]).
      replace (r^2 / (2 * sReg)) with (r0^2 / (2 * sReg) + r0 / sReg * (r - r0) + (r - r0)^2 / (2 * sReg)) by (field; lra). lra.
    - apply Rmult_le_reg_r with (2 * sReg); [lra|].
      replace ((r0^2 / (2 * sReg) + r0 / sReg * (r - r0)) * (2 * sReg)) with (r0^2 + 2 * r0 * (r - r0)) by (field; lra). nra.
    - apply Rmult_le_reg_r with (2 * sReg); [lra|].
      replace (r^2 / (2 * sReg) * (2 * sReg)) with (r^2) by (field; lra). nra.
    - lra.
  Qed.
  Lemma dprof_range r : 0 <= r -> 0 <= dprof r <= 1.
  Proof.
    intros Hr. unfold dprof. destruct (Rle_dec r sReg); [|lra]. split.
    - apply Rmult_le_pos; [lra|left; apply Rinv_0_lt_compat; lra].
    - apply Rmult_le_reg_r with sReg; [lra|]. unfold Rdiv. rewrite Rmult_assoc, Rinv_l by lra. lra.
  Qed.
  Lemma prof_mono r1 r2 : 0 <= r1 <= r2 -> prof r1 <= prof r2.
  Proof.
    intros H. pose proof (prof_tangent r2 r1) as Ht. pose proof (dprof_range r1).
    assert (0 <= dprof r1 * (r2 - r1)) by (apply Rmult_le_pos; lra). lra.
  Qed.
  Lemma prof_convex r1 r2 t : 0 <= r1 -> 0 <= r2 -> 0 <= t <= 1 ->
    prof (t * r1 + (1 - t) * r2) <= t * prof r1 + (1 - t) * prof r2.
  Proof.
    intros H1 H2 Ht. set (r0 := t * r1 + (1 - t) * r2).
    assert (0 <= r0) by (unfold r0; nra).
    pose proof (prof_tangent r1 r0 H1 H) as T1. pose proof (prof_tangent r2 r0 H2 H) as T2.
    assert (t * (prof r0 + dprof r0 * (r1 - r0)) <= t * prof r1) by (apply Rmult_le_compat_l; lra).
    assert ((1 - t) * (prof r0 + dprof r0 * (r2 - r0)) <= (1 - t) * prof r2) by (apply Rmult_le_compat_l; lra).
    unfold r0 in *. nra.
  Qed.

  (* triangle inequality for the Euclidean norm in the plane *)
  Lemma nrm_convex a0 a1 b0 b1 t : 0 <= t <= 1 ->
    nrm (t * a0 + (1 - t) * b0) (t * a1 + (1 - t) * b1) <= t * nrm a0 a1 + (1 - t) * nrm b0 b1.
  Proof.
    intros Ht. pose proof (nrm_pos a0 a1) as Pa. pose proof (nrm_pos b0 b1) as Pb.
    pose proof (nrm_sq a0 a1) as Qa. pose proof (nrm_sq b0 b1) as Qb.
    set (na := nrm a0 a1) in *. set (nb := nrm b0 b1) in *.
    assert (Pab : 0 <= na * nb) by (apply Rmult_le_pos; assumption).
    (* Cauchy-Schwarz: a.b <= |a||b| *)
    assert (CS : a0 * b0 + a1 * b1 <= na * nb).
    { destruct (Rle_dec (a0 * b0 + a1 * b1) 0); [lra|].
      apply Rsqr_incr_0_var; [|exact Pab]. unfold Rsqr.
      replace (na * nb * (na * nb)) with ((na * na) * (nb * nb)) by ring. rewrite Qa, Qb.
      assert (0 <= (a0 * b1 - a1 * b0)^2) by apply pow2_ge_0. nra. }
    assert (Ht2 : 0 <= t * (1 - t)) by nra.
    assert (Hrhs : 0 <= t * na + (1 - t) * nb) by nra.
    apply Rsqr_incr_0_var; [|exact Hrhs].
    unfold nrm at 1.
    set (u := t * a0 + (1 - t) * b0). set (v := t * a1 + (1 - t) * b1).
    assert (Huv : 0 <= u * u + v * v) by (pose proof (Rle_0_sqr u); pose proof (Rle_0_sqr v); unfold Rsqr in *; lra).
    rewrite (Rsqr_sqrt _ Huv). unfold Rsqr, u, v.
    replace ((t * na + (1 - t) * nb) * (t * na + (1 - t) * nb))
      with (t * t * (na * na) + (1 - t) * (1 - t) * (nb * nb) + 2 * (t * (1 - t)) * (na * nb)) by ring.
    rewrite Qa, Qb.
    assert (2 * (t * (1 - t)) * (a0 * b0 + a1 * b1) <= 2 * (t * (1 - t)) * (na * nb)) by (apply Rmult_le_compat_l; lra).
    lra.
  Qed.

  Theorem friction_convex a0 a1 b0 b1 t : 0 <= t <= 1 ->
    phi (t * a0 + (1 - t) * b0) (t * a1 + (1 - t) * b1) <= t * phi a0 a1 + (1 - t) * phi b0 b1.
  Proof.
    intros Ht. rewrite !phi_profile.
    pose proof (nrm_convex a0 a1 b0 b1 t Ht) as Hn.
    pose proof (nrm_pos (t * a0 + (1 - t) * b0) (t * a1 + (1 - t) * b1)) as P0.
    pose proof (nrm_pos a0 a1) as Pa. pose proof (nrm_pos b0 b1) as Pb.
    assert (prof (nrm (t * a0 + (1 - t) * b0) (t * a1 + (1 - t) * b1)) <= t * prof (nrm a0 a1) + (1 - t) * prof (nrm b0 b1)).
    { eapply Rle_trans. apply prof_mono. split; [exact P0|exact Hn]. apply prof_convex; assumption. }
    nra.
  Qed.

  (* C1: as a function of q = |s|^2 the energy is C1 on the whole line, and q is a polynomial in s *)
  Definition fE  (q : R) : R := pw (sReg * sReg) (fun q => q / (2 * sReg)) (fun q => sqrt q - sReg / 2) q.
  Definition dfE (q : R) : R := pw (sReg * sReg) (fun _ => 1 / (2 * sReg)) (fun q => 1 / (2 * sqrt q)) q.

  Lemma phi_fE s0 s1 : phi s0 s1 = mu * fE (s0 * s0 + s1 * s1).
  Proof.
    unfold phi, compute_friction_energy_from_perp_slip, safe_sqrt. unfold_num. q2r. unfold Rleb, fE, pw.
    destruct (Rle_dec (s0 * s0 + s1 * s1) (sReg * sReg)); f_equal; lra.
  Qed.

  Theorem friction_profile_C1 : C1_with fE dfE.
  Proof.
    unfold fE, dfE. apply C1_pw_on.
    - split; intros x _; [auto_derive; [trivial|field; lra] | apply continuous_const].
    - assert (Hq : forall x, sReg * sReg <= x -> 0 < x) by (intros; nra).
      split; intros x Hx; specialize (Hq x Hx).
      + auto_derive; [exact Hq|field]. apply Rgt_not_eq. apply sqrt_lt_R0. exact Hq.
      + apply (ex_derive_continuous (fun q => 1 / (2 * sqrt q))). auto_derive. split; [exact Hq|].
        split; [|trivial]. apply Rgt_not_eq. apply Rmult_lt_0_compat; [lra|apply sqrt_lt_R0; exact Hq].
    - rewrite sqrt_square by lra. field. lra.
    - rewrite sqrt_square by lra. reflexivity.
  Qed.

  (* hence each partial derivative of phi exists and is continuous along coordinate lines *)
  Theorem friction_C1_partial s1 :
    C1_with (fun s0 => phi s0 s1) (fun s0 => mu * (dfE (s0 * s0 + s1 * s1) * (2 * s0))).
  Proof.
    destruct friction_profile_C1 as [D C]. split; intros s0.
    - apply (is_derive_ext (fun s0 => mu * fE (s0 * s0 + s1 * s1))); [intros; symmetry; apply phi_fE|].
      evar_last. apply (is_derive_scal (fun s0 => fE (s0 * s0 + s1 * s1)) s0 mu).
      apply (is_derive_comp fE (fun s0 => s0 * s0 + s1 * s1) s0). apply D.
      auto_derive; [trivial|reflexivity].
      unfold scal; simpl; unfold mult; simpl. ring.
    - apply (continuous_scal_r mu (fun s0 => dfE (s0 * s0 + s1 * s1) * (2 * s0))).
      apply (continuous_mult (fun s0 => dfE (s0 * s0 + s1 * s1)) (fun s0 => 2 * s0)).
      + apply (continuous_comp (fun s0 => s0 * s0 + s1 * s1) dfE); [|apply C].
        apply (ex_derive_continuous (fun s0 => s0 * s0 + s1 * s1)). auto_derive. trivial.
      + apply (ex_derive_continuous (fun s0 => 2 * s0)). auto_derive. trivial.
  Qed.
End Friction.

Lemma C18_nonvacuous_witness : safeTol < 1 /\ 0 < 1 <= 1 / 2 + 1 / 2 /\ (1:R) <= Rabs (3 - 1).
Proof.
  rewrite safeTol_val. split; [|split].
  - apply Rmult_lt_reg_r with 100000000000000; [lra|]. rewrite Rinv_l by lra. lra.
  - lra.
  - rewrite Rabs_right; lra.
Qed.

(* below safeTol the clamp of the width makes the kernel jump at the switch: widths <= safeTol are outside the
   admissible domain of the C1 clauses (the property speaks of widths "over ten decades", the code's own guard is 1e-14) *)
Lemma smin_jump_below_safeTol :
  let e := safeTol / 2 in
  smin e 0 e = 0 /\ forall d, 0 < d < e -> smin (e - d) 0 e <= - safeTol / 16.
Proof.
  intros e. pose proof safeTol_pos as Hp. assert (He : 0 < e) by (unfold e; lra).
  split.
  - rewrite smin_exact_outside. unfold Rmin; destruct (Rle_dec e 0); lra.
    rewrite Rminus_0_r, Rabs_right; lra.
  - intros d Hd. rewrite smin_in_band.
    + assert (Hs : swidth e = safeTol). { unfold swidth. destruct (Rlt_dec safeTol e); [unfold e in *; lra|reflexivity]. }
      rewrite Hs. rewrite Rminus_0_r. rewrite (Rabs_right (e - d)) by lra.
      unfold Rmin. destruct (Rle_dec (e - d) 0); [lra|].
      replace safeTol with (2 * e) by (unfold e; lra).
      assert (e / 8 <= (2 * e - (e - d)) ^ 2 / (4 * (2 * e))).
      { apply Rmult_le_reg_r with (8 * e); [lra|].
        replace ((2 * e - (e - d)) ^ 2 / (4 * (2 * e)) * (8 * e)) with ((e + d) ^ 2) by (field; lra). nra. }
      lra.
    + rewrite Rminus_0_r, Rabs_right; lra.
Qed.
