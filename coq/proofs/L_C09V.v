(* C09, finite-deformation kinematics: the premises of the commit-invariance / history theorems are satisfiable with the solver of
   L_C11e.v -- a uniaxial stretch F = diag(2,1,1) of the virgin material: invertible F and Fp, logarithmic trial strain diag(ln 2, 0, 0)
   (deviator far above the flow-direction threshold), an admissible law, and the update returns a state whose recomputed trial strain is
   again non-degenerate. *)
From Coq Require Import Reals Lra Lia ZArith QArith Bool List Psatz.
From Coquelicot Require Import Coquelicot.
From OV.base Require Import Num.
From OV.gen Require Import Gen_ScalarRootFind Gen_Hardening Gen_TensorMath Gen_J2Flow Gen_J2Elastic Gen_J2Finite.
From OV.gen Require Import Gen_HyperViscoelastic Gen_MultiBranchHyperViscoelastic Gen_ViscoState.
From OV.model Require Import M_C17 M_C09 M_C09T M_C08 M_C11 M_C11s M_C09F.
From OV.proofs Require Import L_C17 L_C09 L_C09r L_C09T L_C08 L_C11a L_C11 L_C11s L_C11t L_C11e L_C11u L_C09F L_C09G.
Import ListNotations.
Local Open Scope R_scope.

Lemma ln2_bounds : / 2 < ln 2 < 1.
Proof.
  split; [exact ln_lt_2|]. rewrite <- (ln_exp 1). apply ln_increasing; [lra|].
  pose proof (exp_ineq1 1 ltac:(lra)). lra.
Qed.

Definition Hs : @m9 R := (1, 0, 0, 0, 0, 0, 0, 0, 0).
Definition Es : @m9 R := (ln 2, 0, 0, 0, 0, 0, 0, 0, 0).

Lemma stretch_strain eo : strain_log (@fin_lss R NumR eigh_sym) Hs (eo, id9) = Es.
Proof.
  apply of9_inj. unfold fin_lss.
  assert (Hd : mdet (of9 (@id9 R NumR)) <> 0) by (change (of9 (@id9 R NumR)) with (@mid R NumR); rewrite mdet_mid; lra).
  rewrite (strain_log_form _ _ _ _ Hd). change (of9 (@id9 R NumR)) with (@mid R NumR).
  assert (EC : Ce_of (of9 Hs) mid = mdiag 4 1 1) by (unfold Hs; tnum; f_equal; field).
  assert (EJ : JJ (of9 Hs) = 2) by (unfold JJ, Hs; tnum; ring).
  assert (EL : lss_spec eigh_sym (mdiag 4 1 1) = mdiag (/ 2 * ln 4) (/ 2 * ln 1) (/ 2 * ln 1)).
  { rewrite <- lss_diag. symmetry. apply lss_R_canonical; [apply conj_sym_diag || (unfold msym; snum; reflexivity) | apply eigh_diag_ok]. }
  unfold log_strain_of. rewrite EC, EJ, EL, ln_1.
  replace (ln 4) with (ln 2 + ln 2) by (rewrite <- ln_mult by lra; f_equal; ring).
  unfold Es, mdevm. snum. f_equal; field.
Qed.

Lemma Es_nondegenerate : nondegenerate Es.
Proof.
  unfold nondegenerate, Es, ddot, dev9, dev, deviator, t_trace. unfold_num. q2r. destruct ln2_bounds as (A & B). nra.
Qed.

Lemma nonvacuous_C09_finite :
  let lss := @fin_lss R NumR eigh_sym in let expm := @fin_expm R NumR eigh_sym in
  det9 (add9 Hs id9) <> 0 /\ det9 (snd (@virgin_fin R NumR)) <> 0 /\ nondegenerate (strain_log lss Hs virgin_fin) /\
  law_admissible (Linear 10 2) 0 /\ 0 < law_Y0 (Linear 10 2) /\
  exists st', @state_new_fin R NumR lss expm (Linear 10 2) NoRate 1 1 Hs virgin_fin = Some st' /\ nondegenerate (strain_log lss Hs st').
Proof.
  intros lss expm.
  assert (HF : det9 (add9 Hs (@id9 R NumR)) <> 0) by (unfold det9, add9, Hs, id9, t_det; unfold_num; q2r; lra).
  assert (HFp : det9 (snd (@virgin_fin R NumR)) <> 0) by (cbn [snd virgin_fin]; rewrite det9_id9; lra).
  assert (HE : strain_log lss Hs virgin_fin = Es) by (unfold lss, virgin_fin; apply stretch_strain).
  split; [exact HF|]. split; [exact HFp|]. split; [rewrite HE; exact Es_nondegenerate|].
  split; [cbn; lra|]. split; [cbn; lra|].
  (* the step is elastic: trial Mises stress <= 4 < Y0 = 10 *)
  assert (Hs4 : trial_mises 1 Es <= 4).
  { rewrite (trial_mises_of 1 Es Es_nondegenerate).
    assert (Hq : ddot (dev9 Es) (dev9 Es) <= 1) by (unfold Es, ddot, dev9, dev, deviator, t_trace; unfold_num; q2r; destruct ln2_bounds as (A & B); nra).
    assert (Hq0 : 0 <= ddot (dev9 Es) (dev9 Es)) by (pose proof Es_nondegenerate as G; unfold nondegenerate in G; lra).
    assert (S1 : sqrt (ddot (dev9 Es) (dev9 Es)) <= 1) by (rewrite <- sqrt_1; apply sqrt_le_1_alt; exact Hq).
    assert (S0 : 0 <= sqrt (ddot (dev9 Es) (dev9 Es))) by apply sqrt_pos.
    assert (S2 : sqrt (3 / 2) <= 2).
    { assert (A : sqrt (3 / 2) <= sqrt 4) by (apply sqrt_le_1_alt; lra).
      assert (B : sqrt 4 = 2) by (replace 4 with (2 * 2) by ring; apply sqrt_square; lra). lra. }
    assert (S3 : 0 <= sqrt (3 / 2)) by apply sqrt_pos. nra. }
  assert (Hd : @delta_eqps R NumR (Linear 10 2) NoRate 1 (trial_mises 1 Es) (fst (@virgin_fin R NumR)) 1 = Some 0).
  { unfold delta_eqps, delta_eqps_gen, is_yielding. cbn [h_flow k_flow fst virgin_fin]. unfold tolY, c__TOLERANCE, law_Y0. unfold_num. q2r.
    match goal with |- context [Rltb ?a ?b] => replace (Rltb a b) with false by (symmetry; apply Rltb_false; lra) end. reflexivity. }
  eexists. split.
  - unfold state_new_fin, state_increment. fold lss. rewrite HE, Hd. reflexivity.
  - unfold virgin_fin. rewrite tail_fin_R. fold lss expm.
    assert (HFM : mdet (defgrad (of9 Hs)) <> 0) by (unfold Hs; tnum; lra).
    assert (HFpM : mdet (of9 (@id9 R NumR)) <> 0) by (change (of9 (@id9 R NumR)) with (@mid R NumR); rewrite mdet_mid; lra).
    pose proof (strain_log_commit eigh_sym eigh_sym eigh_sym_solver_ok eigh_sym_solver_ok Hs nzero (nzero + 0) 0 id9 HFM HFpM) as Hc.
    fold lss expm in Hc. unfold virgin_fin in HE. rewrite HE in Hc. rewrite (Hc Es_nondegenerate).
    rewrite axpy9_sub9, sub9_zero. exact Es_nondegenerate.
Qed.
