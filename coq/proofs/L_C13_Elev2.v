(* C13 -- the write log of order elevation has pairwise distinct targets, so every written value survives; consequences:
   vertex / edge / interior ids sit at the reference element's positions, neighbours share edge nodes in reversed order,
   the connectivity is in range and onto *)
From Coq Require Import List Arith Bool Lia.
From OV.model Require Import M_C13_Edges M_C13_Elevate.
From OV.proofs Require Import L_C13_Edges L_C13_Elevate.
Import ListNotations.

(* ---- generic list facts *)
Lemma nodup_app_intro {A} (l l' : list A) : NoDup l -> NoDup l' -> (forall x, In x l -> In x l' -> False) -> NoDup (l ++ l').
Proof.
  induction l as [| a l IH]; intros H H' D; [exact H' |]. inversion H as [| ? ? Ha Hl]; subst. cbn [app]. constructor.
  - intros Hin. apply in_app_or in Hin. destruct Hin as [Hin | Hin]; [contradiction | apply (D a); [now left | exact Hin]].
  - apply IH; auto. intros x Hx. apply D. now right.
Qed.
Lemma nodup_app_parts {A} (l l' : list A) : NoDup (l ++ l') -> NoDup l /\ NoDup l' /\ (forall x, In x l -> In x l' -> False).
Proof.
  induction l as [| a l IH]; intros H; [repeat split; [constructor | exact H | intros ? []] |].
  cbn [app] in H. inversion H as [| ? ? Ha Hl]; subst. destruct (IH Hl) as (H1 & H2 & H3). repeat split.
  - constructor; [intros Hin; apply Ha; apply in_or_app; now left | exact H1].
  - exact H2.
  - intros x [<- | Hx] Hx'; [apply Ha; apply in_or_app; now right | now apply (H3 x)].
Qed.
Lemma nodup_flat_map {A B} (g : A -> list B) l : NoDup l -> (forall a, In a l -> NoDup (g a)) ->
  (forall a a' x, In a l -> In a' l -> In x (g a) -> In x (g a') -> a = a') -> NoDup (flat_map g l).
Proof.
  induction 1 as [| a l Ha Hl IH]; intros Hg Hd; cbn [flat_map]; [constructor |]. apply nodup_app_intro.
  - apply Hg. now left.
  - apply IH; [intros; apply Hg; now right | intros a1 a2 x H1 H2; apply Hd; now right].
  - intros x Hx Hx'. apply in_flat_map in Hx'. destruct Hx' as [a' [Ha' Hx']].
    assert (a = a') by (apply (Hd a a' x); auto; [now left | now right]). subst. contradiction.
Qed.
Lemma nodup_map_inj_in {A B} (f : A -> B) l a b : NoDup (map f l) -> In a l -> In b l -> f a = f b -> a = b.
Proof.
  induction l as [| x l IH]; intros H Ha Hb E; [destruct Ha |]. cbn [map] in H. inversion H as [| ? ? Hx Hl]; subst.
  destruct Ha as [<- | Ha], Hb as [<- | Hb]; auto.
  - exfalso. apply Hx. rewrite E. now apply in_map.
  - exfalso. apply Hx. rewrite <- E. now apply in_map.
Qed.
Lemma nodup_map_nodup {A B} (f : A -> B) l : NoDup (map f l) -> NoDup l.
Proof.
  induction l as [| x l IH]; intros H; [constructor |]. cbn [map] in H. inversion H as [| ? ? Hx Hl]; subst.
  constructor; [intros Hin; apply Hx; now apply in_map | now apply IH].
Qed.
Lemma nodupb_sound l : nodupb l = true -> NoDup l.
Proof.
  induction l as [| x l IH]; intros H; [constructor |]. cbn [nodupb] in H. apply andb_true_iff in H. destruct H as [H1 H2].
  constructor; [| now apply IH]. intros Hin. apply negb_true_iff in H1.
  assert (existsb (Nat.eqb x) l = true) by (apply existsb_exists; exists x; split; [exact Hin | apply Nat.eqb_refl]). congruence.
Qed.
Lemma flat_map_indexed {A B} (g : A -> list B) (l : list A) i : flat_map (fun ix => g (snd ix)) (indexed_from i l) = flat_map g l.
Proof. revert i. induction l as [| x l IH]; intros i; [reflexivity |]. cbn [indexed_from flat_map snd]. now rewrite IH. Qed.
Lemma in_indexed {A} (l : list A) i j x : In (j, x) (indexed_from i l) <-> i <= j /\ nth_error l (j - i) = Some x.
Proof.
  revert i. induction l as [| y l IH]; intros i; cbn [indexed_from In].
  - split; [intros [] | intros [_ H]; destruct (j - i); discriminate].
  - rewrite IH. split.
    + intros [E | [Hle Hn]]; [inversion E; subst; split; [lia | now rewrite Nat.sub_diag] |].
      split; [lia |]. replace (j - i) with (S (j - S i)) by lia. exact Hn.
    + intros [Hle Hn]. destruct (Nat.eq_dec i j) as [-> | Hne].
      * left. rewrite Nat.sub_diag in Hn. cbn in Hn. congruence.
      * right. split; [lia |]. replace (j - i) with (S (j - S i)) in Hn by lia. exact Hn.
Qed.

(* ---- last-write lookup with distinct targets *)
Lemma key_eqb_eq a b : key_eqb a b = true <-> a = b.
Proof.
  destruct a, b. unfold key_eqb. cbn [fst snd]. rewrite andb_true_iff, !Nat.eqb_eq. split; [intros [-> ->]; reflexivity | intros H; inversion H; auto].
Qed.
Lemma lookup_none W k : ~ In k (map fst W) -> lookup W k = None.
Proof.
  induction W as [| [k' v] W IH]; intros H; [reflexivity |]. cbn [lookup]. cbn [map fst In] in H. rewrite IH by tauto.
  destruct (key_eqb k k') eqn:E; [| reflexivity]. apply key_eqb_eq in E. subst. tauto.
Qed.
Lemma lookup_some W k v : lookup W k = Some v -> In (k, v) W.
Proof.
  induction W as [| [k' v'] W IH]; cbn [lookup]; [discriminate |]. destruct (lookup W k) eqn:E.
  - intros H. inversion H; subst. right. now apply IH.
  - destruct (key_eqb k k') eqn:E'; [| discriminate]. apply key_eqb_eq in E'. intros H. inversion H; subst. now left.
Qed.
Lemma lookup_unique W k v : NoDup (map fst W) -> In (k, v) W -> lookup W k = Some v.
Proof.
  induction W as [| [k' v'] W IH]; intros Hn Hin; [destruct Hin |]. cbn [map fst] in Hn. inversion Hn as [| ? ? Hk Hn']; subst.
  cbn [lookup]. destruct Hin as [E | Hin].
  - inversion E; subst. rewrite lookup_none by exact Hk. assert (key_eqb k k = true) by now apply key_eqb_eq. now rewrite H.
  - now rewrite (IH Hn' Hin).
Qed.

(* ---- writes_at *)
Lemma writes_at_in t pos vals k v : In (k, v) (writes_at t pos vals) -> fst k = t /\ In (snd k) pos.
Proof.
  unfold writes_at. intros H. apply in_map_iff in H. destruct H as [[p x] [E Hin]]. inversion E; subst. cbn [fst snd].
  split; [reflexivity | exact (in_combine_l _ _ _ _ Hin)].
Qed.
Lemma writes_at_target_in t pos vals k : In k (map fst (writes_at t pos vals)) -> fst k = t /\ In (snd k) pos.
Proof. intros H. apply in_map_iff in H. destruct H as [[k' v] [<- Hin]]. now apply (writes_at_in t pos vals k' v). Qed.
Lemma combine_fst_nodup (pos vals : list nat) : NoDup pos -> NoDup (map fst (combine pos vals)).
Proof.
  revert vals. induction pos as [| p pos IH]; intros vals H; [constructor |]. destruct vals as [| v vals]; [constructor |].
  inversion H as [| ? ? Hp Hn]; subst. cbn [combine map fst]. constructor; [| now apply IH].
  intros Hin. apply Hp. apply in_map_iff in Hin. destruct Hin as [[p' v'] [<- Hin]]. exact (in_combine_l _ _ _ _ Hin).
Qed.
Lemma writes_at_nodup t pos vals : NoDup pos -> NoDup (map fst (writes_at t pos vals)).
Proof.
  intros H. unfold writes_at. rewrite map_map. cbn [fst].
  replace (map (fun x : nat * nat => (t, fst x)) (combine pos vals)) with (map (pair t) (map fst (combine pos vals))) by (now rewrite map_map).
  apply FinFun.Injective_map_NoDup; [intros a b E; now inversion E | now apply combine_fst_nodup].
Qed.
Lemma writes_at_nth t pos vals i p v : nth_error pos i = Some p -> nth_error vals i = Some v -> In ((t, p), v) (writes_at t pos vals).
Proof.
  revert vals i. induction pos as [| p0 pos IH]; intros vals i Hp Hv; [destruct i; discriminate |].
  destruct vals as [| v0 vals]; [destruct i; discriminate |]. destruct i as [| i]; cbn in Hp, Hv.
  - inversion Hp; inversion Hv; subst. now left.
  - right. now apply (IH vals i).
Qed.
Lemma map_flat_map {A B C} (f : B -> C) (g : A -> list B) l : map f (flat_map g l) = flat_map (fun x => map f (g x)) l.
Proof. induction l as [| x l IH]; [reflexivity |]. cbn [flat_map]. now rewrite map_app, IH. Qed.

Lemma indexed_fst {A} (l : list A) i : map fst (indexed_from i l) = seq i (length l).
Proof. revert i. induction l as [| x l IH]; intros i; [reflexivity |]. cbn [indexed_from map fst length seq]. now rewrite IH. Qed.
Lemma indexed_nodup {A} (l : list A) i : NoDup (indexed_from i l).
Proof. apply (nodup_map_nodup fst). rewrite indexed_fst. apply seq_NoDup. Qed.
Lemma indexed_same_index {A} (l : list A) i j x y : In (j, x) (indexed_from i l) -> In (j, y) (indexed_from i l) -> x = y.
Proof. intros H1 H2. apply in_indexed in H1, H2. destruct H1 as [_ H1], H2 as [_ H2]. congruence. Qed.

(* ---- reference element certificate *)
Record pe_good (pe : pelem) (m : nat) : Prop := {
  pg_len_v : length (pe_vertex pe) = 3;
  pg_len_m : forall s, length (pe_mid pe s) = m;
  pg_nd_v : NoDup (pe_vertex pe);
  pg_nd_m : forall s, NoDup (pe_mid pe s);
  pg_nd_i : NoDup (pe_interior pe);
  pg_vm : forall p s, In p (pe_vertex pe) -> In p (pe_mid pe s) -> False;
  pg_vi : forall p, In p (pe_vertex pe) -> In p (pe_interior pe) -> False;
  pg_mi : forall p s, In p (pe_mid pe s) -> In p (pe_interior pe) -> False;
  pg_mm : forall p s s', s < 3 -> s' < 3 -> In p (pe_mid pe s) -> In p (pe_mid pe s') -> s = s';
  pg_range : forall p, In p (pe_positions pe) -> p < pe_n pe;
  pg_count : length (pe_positions pe) = pe_n pe }.

Lemma pe_okb_good pe m : pe_okb pe m = true -> pe_good pe m.
Proof.
  unfold pe_okb. rewrite !andb_true_iff, !Nat.eqb_eq. intros [[[[[[Hv H0] H1] H2] Hnd] Hr] Hc].
  apply nodupb_sound in Hnd. unfold pe_positions in Hnd.
  destruct (nodup_app_parts _ _ Hnd) as (Nv & Hnd1 & Dv).
  destruct (nodup_app_parts _ _ Hnd1) as (N0 & Hnd2 & D0).
  destruct (nodup_app_parts _ _ Hnd2) as (N1 & Hnd3 & D1).
  destruct (nodup_app_parts _ _ Hnd3) as (N2 & Ni & D2).
  assert (Mid : forall s, pe_mid pe s = pe_m0 pe \/ pe_mid pe s = pe_m1 pe \/ pe_mid pe s = pe_m2 pe).
  { intros [| [| s]]; cbn [pe_mid]; auto. }
  constructor; try assumption.
  - intros [| [| s]]; cbn [pe_mid]; assumption.
  - intros [| [| s]]; cbn [pe_mid]; assumption.
  - intros p s Hp Hm. apply (Dv p Hp). destruct s as [| [| s]]; cbn [pe_mid] in Hm; apply in_or_app; [now left | right | right];
      apply in_or_app; [now left | right]; apply in_or_app; now left.
  - intros p Hp Hi. apply (Dv p Hp). do 3 (apply in_or_app; right). exact Hi.
  - intros p s Hm Hi. destruct s as [| [| s]]; cbn [pe_mid] in Hm.
    + apply (D0 p Hm). do 2 (apply in_or_app; right). exact Hi.
    + apply (D1 p Hm). apply in_or_app; right. exact Hi.
    + exact (D2 p Hm Hi).
  - intros p s s' Hs Hs' Hm Hm'.
    destruct s as [| [| [| s]]]; destruct s' as [| [| [| s']]]; try lia; try reflexivity; cbn [pe_mid] in Hm, Hm'; exfalso.
    + apply (D0 p Hm). apply in_or_app; now left.
    + apply (D0 p Hm). apply in_or_app; right. apply in_or_app; now left.
    + apply (D0 p Hm'). apply in_or_app; now left.
    + apply (D1 p Hm). apply in_or_app; now left.
    + apply (D0 p Hm'). apply in_or_app; right. apply in_or_app; now left.
    + apply (D1 p Hm'). apply in_or_app; now left.
  - intros p Hp. rewrite forallb_forall in Hr. specialize (Hr p Hp). now apply Nat.ltb_lt.
Qed.

(* ---- the slots written by the edge rows *)
Lemma key_flip a b : key (b, a) = key (a, b).
Proof. unfold key. cbn [fst snd]. now rewrite Nat.min_comm, Nat.max_comm. Qed.

Section Elev.
  Variable conns : list (list nat).
  Variable pe : pelem.
  Variables nV m : nat.
  Hypothesis Hpe : pe_good pe m.
  Hypothesis Hnondeg : forall f, In f (all_faces conns) -> fst f <> snd f.
  Let rows := create_edges conns.
  Let nT := length conns.
  Let nE := length rows.
  Let nI := length (pe_interior pe).

  (* a slot of a row is an (element, side) that holds one of the two orientations of the row's edge *)
  Lemma slot_holds r sl : In r rows -> In sl (slots_of r) ->
    exists f, holds conns (fst (fst sl)) (snd (fst sl)) f /\ key f = edge_key r
              /\ f = (if snd sl then (e_a r, e_b r) else (e_b r, e_a r)).
  Proof.
    intros Hr Hs. destruct (edges_adjacency conns r Hr) as [HL HR]. unfold slots_of in Hs. destruct Hs as [<- | Hs].
    - exists (e_a r, e_b r). cbn [fst snd]. auto.
    - destruct (e_right r) as [[tr pr] |]; [| destruct Hs]. destruct Hs as [<- | []]. exists (e_b r, e_a r). cbn [fst snd].
      split; [exact HR |]. split; [apply key_flip | reflexivity].
  Qed.

  Lemma slots_nodup_keys r : In r rows -> NoDup (map fst (slots_of r)).
  Proof.
    intros Hr. unfold slots_of. destruct (e_right r) as [[tr pr] |] eqn:E; cbn [map fst]; [| repeat constructor; intros []].
    constructor; [| repeat constructor; intros []]. intros [Heq | []].
    destruct (edges_adjacency conns r Hr) as [(_ & _ & HL) HR]. rewrite E in HR. destruct HR as (_ & _ & HR).
    inversion Heq; subst. rewrite HL in HR. inversion HR as [[E1 E2]].
    destruct (edges_once conns) as (_ & _ & Hf). apply (Hnondeg _ (Hf r Hr)). cbn [fst snd]. congruence.
  Qed.

  Lemma slot_row_unique r r' sl sl' : In r rows -> In r' rows -> In sl (slots_of r) -> In sl' (slots_of r') ->
    fst sl = fst sl' -> r = r'.
  Proof.
    intros Hr Hr' Hs Hs' E. destruct (slot_holds r sl Hr Hs) as [f [(_ & _ & Hf) [Hk _]]].
    destruct (slot_holds r' sl' Hr' Hs') as [f' [(_ & _ & Hf') [Hk' _]]]. rewrite <- E in Hf'. rewrite Hf in Hf'. subst f'.
    destruct (edges_once conns) as (Hnd & _ & _). apply (nodup_map_inj_in edge_key rows); auto. congruence.
  Qed.

  Lemma slot_side_lt r sl : In r rows -> In sl (slots_of r) -> snd (fst sl) < 3 /\ fst (fst sl) < nT.
  Proof. intros Hr Hs. destruct (slot_holds r sl Hr Hs) as [f [(Ht & Hp & _) _]]. auto. Qed.

  (* ---- targets of the three groups of writes *)
  Let W := events pe nV m conns.

  Lemma ev_vertex_in k v : In (k, v) (ev_vertex pe conns) -> fst k < nT /\ In (snd k) (pe_vertex pe).
  Proof.
    unfold ev_vertex. intros H. apply in_flat_map in H. destruct H as [[t c] [Hin Hw]]. apply writes_at_in in Hw. cbn [fst snd] in Hw.
    destruct Hw as [-> Hp]. split; [| exact Hp]. apply in_indexed in Hin. destruct Hin as [_ Hn].
    unfold nT. apply nth_error_Some. rewrite Nat.sub_0_r in Hn. congruence.
  Qed.
  Lemma ev_edges_in k v : In (k, v) (ev_edges pe nV m rows) ->
    exists e r sl, nth_error rows e = Some r /\ In sl (slots_of r) /\ fst k = fst (fst sl) /\ In (snd k) (pe_mid pe (snd (fst sl))).
  Proof.
    unfold ev_edges. intros H. apply in_flat_map in H. destruct H as [[e r] [Hin Hw]]. apply in_flat_map in Hw.
    destruct Hw as [sl [Hs Hw]]. unfold ev_slot in Hw. apply writes_at_in in Hw. cbn [fst snd] in *.
    apply in_indexed in Hin. destruct Hin as [_ Hn]. rewrite Nat.sub_0_r in Hn. exists e, r, sl. tauto.
  Qed.
  Lemma ev_interior_in k v : In (k, v) (ev_interior pe nV nE m nT) -> fst k < nT /\ In (snd k) (pe_interior pe).
  Proof.
    unfold ev_interior. intros H. apply in_flat_map in H. destruct H as [t [Hin Hw]]. apply writes_at_in in Hw.
    destruct Hw as [-> Hp]. apply in_seq in Hin. split; [lia | exact Hp].
  Qed.

  Lemma nodup_vertex_targets : NoDup (map fst (ev_vertex pe conns)).
  Proof.
    unfold ev_vertex. rewrite map_flat_map. apply nodup_flat_map.
    - apply indexed_nodup.
    - intros [t c] _. apply writes_at_nodup, (pg_nd_v _ _ Hpe).
    - intros [t c] [t' c'] x Ha Ha' Hx Hx'. apply writes_at_target_in in Hx, Hx'. cbn [fst] in Hx, Hx'.
      destruct Hx as [E _], Hx' as [E' _]. assert (Et : t = t') by congruence. clear E E'. revert Ha'. rewrite <- Et. intros Ha'. f_equal. exact (indexed_same_index _ _ _ _ _ Ha Ha').
  Qed.
  Lemma nodup_interior_targets : NoDup (map fst (ev_interior pe nV nE m nT)).
  Proof.
    unfold ev_interior. rewrite map_flat_map. apply nodup_flat_map.
    - apply seq_NoDup.
    - intros t _. apply writes_at_nodup, (pg_nd_i _ _ Hpe).
    - intros t t' x _ _ Hx Hx'. apply writes_at_target_in in Hx, Hx'. destruct Hx as [E _], Hx' as [E' _]. congruence.
  Qed.
  Lemma rows_nodup : NoDup rows.
  Proof. destruct (edges_once conns) as (Hnd & _ & _). exact (nodup_map_nodup edge_key rows Hnd). Qed.

  Lemma nodup_edge_targets : NoDup (map fst (ev_edges pe nV m rows)).
  Proof.
    unfold ev_edges. rewrite map_flat_map. apply nodup_flat_map.
    - apply indexed_nodup.
    - intros [e r] Hin. cbn [fst snd]. apply in_indexed in Hin. destruct Hin as [_ Hn]. rewrite Nat.sub_0_r in Hn.
      apply nth_error_In in Hn. rewrite map_flat_map. apply nodup_flat_map.
      + exact (nodup_map_nodup fst _ (slots_nodup_keys r Hn)).
      + intros sl _. unfold ev_slot. apply writes_at_nodup, (pg_nd_m _ _ Hpe).
      + intros sl sl' x Hs Hs' Hx Hx'. unfold ev_slot in Hx, Hx'. apply writes_at_target_in in Hx, Hx'.
        destruct Hx as [E P], Hx' as [E' P']. destruct (slot_side_lt r sl Hn Hs) as [L _]. destruct (slot_side_lt r sl' Hn Hs') as [L' _].
        pose proof (pg_mm _ _ Hpe _ _ _ L L' P P') as Es.
        apply (nodup_map_inj_in fst (slots_of r)); auto; [apply slots_nodup_keys; exact Hn |].
        destruct sl as [[t s] b], sl' as [[t' s'] b']. cbn [fst snd] in *. congruence.
    - intros [e r] [e' r'] x Hin Hin' Hx Hx'. cbn [fst snd] in Hx, Hx'.
      pose proof Hin as Hi. pose proof Hin' as Hi'. apply in_indexed in Hi, Hi'. destruct Hi as [_ Hn], Hi' as [_ Hn'].
      rewrite Nat.sub_0_r in Hn, Hn'. pose proof (nth_error_In _ _ Hn) as Hr. pose proof (nth_error_In _ _ Hn') as Hr'.
      rewrite map_flat_map in Hx, Hx'. apply in_flat_map in Hx, Hx'. destruct Hx as [sl [Hs Hx]], Hx' as [sl' [Hs' Hx']].
      unfold ev_slot in Hx, Hx'. apply writes_at_target_in in Hx, Hx'. destruct Hx as [E P], Hx' as [E' P'].
      destruct (slot_side_lt r sl Hr Hs) as [L _]. destruct (slot_side_lt r' sl' Hr' Hs') as [L' _].
      pose proof (pg_mm _ _ Hpe _ _ _ L L' P P') as Es.
      assert (r = r').
      { apply (slot_row_unique r r' sl sl'); auto. destruct sl as [[t s] b], sl' as [[t' s'] b']. cbn [fst snd] in *. congruence. }
      subst r'. f_equal. apply (proj1 (NoDup_nth_error rows) rows_nodup); [apply nth_error_Some; congruence | congruence].
  Qed.

  Theorem targets_nodup : NoDup (map fst W).
  Proof.
    unfold W, events. fold rows. fold nE. fold nT. rewrite !map_app. apply nodup_app_intro; [apply nodup_vertex_targets | |].
    - apply nodup_app_intro; [apply nodup_edge_targets | apply nodup_interior_targets |].
      intros k Hk Hk'. apply in_map_iff in Hk, Hk'. destruct Hk as [[k1 v1] [<- Hk]], Hk' as [[k2 v2] [E Hk']]. cbn [fst] in E. subst k2.
      apply ev_edges_in in Hk. destruct Hk as (e & r & sl & _ & _ & _ & P). apply ev_interior_in in Hk'. destruct Hk' as [_ P'].
      exact (pg_mi _ _ Hpe _ _ P P').
    - intros k Hk Hk'. apply in_map_iff in Hk. destruct Hk as [[k1 v1] [<- Hk]]. cbn [fst] in Hk'. apply ev_vertex_in in Hk. destruct Hk as [_ P].
      apply in_app_or in Hk'. destruct Hk' as [Hk' | Hk']; apply in_map_iff in Hk'; destruct Hk' as [[k2 v2] [E Hk']]; cbn [fst] in E; subst k2.
      + apply ev_edges_in in Hk'. destruct Hk' as (e & r & sl & _ & _ & _ & P'). exact (pg_vm _ _ Hpe _ _ P P').
      + apply ev_interior_in in Hk'. destruct Hk' as [_ P']. exact (pg_vi _ _ Hpe _ P P').
  Qed.

  (* every write survives: no later write hits the same entry *)
  Theorem write_survives k v : In (k, v) W -> lookup W k = Some v.
  Proof. apply lookup_unique, targets_nodup. Qed.
End Elev.

(* ---- consequences *)
Lemma nth_error_seq0 n k : k < n -> nth_error (seq 0 n) k = Some k.
Proof. intros H. rewrite (nth_error_nth' _ 0) by (now rewrite seq_length). now rewrite seq_nth. Qed.
Lemma edge_ids_nth nV m e k : k < m -> nth_error (edge_ids nV m e) k = Some (nV + e * m + k).
Proof. intros H. unfold edge_ids. now rewrite nth_error_map, nth_error_seq0. Qed.
Lemma interior_ids_nth nV nE m nI t k : k < nI -> nth_error (interior_ids nV nE m nI t) k = Some (nV + nE * m + t * nI + k).
Proof. intros H. unfold interior_ids. now rewrite nth_error_map, nth_error_seq0. Qed.
Lemma nth_error_len_some {A} (l : list A) k : k < length l -> exists x, nth_error l k = Some x.
Proof. intros H. destruct (nth_error l k) eqn:E; [eauto |]. apply nth_error_None in E. lia. Qed.

Section Elev2.
  Variable conns : list (list nat).
  Variable pe : pelem.
  Variables nV m : nat.
  Hypothesis Hpe : pe_good pe m.
  Hypothesis Hnondeg : forall f, In f (all_faces conns) -> fst f <> snd f.
  Let rows := create_edges conns.
  Let nT := length conns.
  Let nE := length rows.
  Let nI := length (pe_interior pe).
  Let W := events pe nV m conns.
  Let N := nV + nE * m + nT * nI.

  (* vertex ids sit at the reference element's vertex positions *)
  Theorem elev_vertex t c i p v : nth_error conns t = Some c -> nth_error (pe_vertex pe) i = Some p -> nth_error c i = Some v ->
    lookup W (t, p) = Some v.
  Proof.
    intros Ht Hp Hv. apply (write_survives conns pe nV m Hpe Hnondeg). unfold events. apply in_or_app. left.
    unfold ev_vertex. apply in_flat_map. exists (t, c). split; [apply in_indexed; split; [lia | now rewrite Nat.sub_0_r] |].
    cbn [fst snd]. now apply (writes_at_nth t _ _ i).
  Qed.

  (* edge ids sit at the interior positions of the recorded face of the left element in order, and of the right element
     in reversed order: neighbours share the edge's nodes in matching (opposite) order *)
  Theorem elev_edge e r sl i p v : nth_error rows e = Some r -> In sl (slots_of r) ->
    nth_error (pe_mid pe (snd (fst sl))) i = Some p ->
    nth_error (if snd sl then edge_ids nV m e else rev (edge_ids nV m e)) i = Some v ->
    lookup W (fst (fst sl), p) = Some v.
  Proof.
    intros Hr Hs Hp Hv. apply (write_survives conns pe nV m Hpe Hnondeg). unfold events. apply in_or_app. right. apply in_or_app. left.
    unfold ev_edges. apply in_flat_map. exists (e, r). split; [apply in_indexed; split; [lia | now rewrite Nat.sub_0_r] |].
    cbn [fst snd]. apply in_flat_map. exists sl. split; [exact Hs |]. unfold ev_slot. now apply (writes_at_nth _ _ _ i).
  Qed.

  Theorem elev_interior t k p : t < nT -> nth_error (pe_interior pe) k = Some p ->
    lookup W (t, p) = Some (nV + nE * m + t * nI + k).
  Proof.
    intros Ht Hp. apply (write_survives conns pe nV m Hpe Hnondeg). unfold events. apply in_or_app. right. apply in_or_app. right.
    unfold ev_interior. apply in_flat_map. exists t. split; [apply in_seq; fold nT; lia |].
    apply (writes_at_nth _ _ _ k); [exact Hp |]. fold rows nE nI. apply interior_ids_nth. apply nth_error_Some. congruence.
  Qed.

  (* no unused node: every id 0 .. N-1 is stored somewhere in the connectivity *)
  Theorem elev_onto : Forall (fun c => length c = 3) conns ->
    (forall n, n < nV -> exists c, In c conns /\ In n c) ->
    forall id, id < N -> exists k, lookup W k = Some id.
  Proof.
    intros H3 Hused id Hid. destruct (all_ids_nodup nV nE nT m nI) as [_ Hin]. apply Hin in Hid. unfold all_ids in Hid.
    apply in_app_or in Hid. destruct Hid as [Hid | Hid].
    - apply in_seq in Hid. destruct (Hused id ltac:(lia)) as [c [Hc Hn]]. apply In_nth_error in Hc, Hn. destruct Hc as [t Ht], Hn as [i Hi].
      rewrite Forall_forall in H3. assert (L : length c = 3) by (apply H3; eapply nth_error_In; eauto).
      assert (Hi3 : i < 3) by (rewrite <- L; apply nth_error_Some; congruence).
      destruct (nth_error_len_some (pe_vertex pe) i) as [p Hp]; [rewrite (pg_len_v _ _ Hpe); exact Hi3 |].
      exists (t, p). now apply (elev_vertex t c i p id).
    - apply in_app_or in Hid. destruct Hid as [Hid | Hid]; apply in_flat_map in Hid.
      + destruct Hid as [e [He Hk]]. apply in_seq in He. unfold edge_ids in Hk. apply in_map_iff in Hk. destruct Hk as [k [<- Hk]]. apply in_seq in Hk.
        destruct (nth_error_len_some rows e ltac:(fold nE; lia)) as [r Hr].
        destruct (nth_error_len_some (pe_mid pe (e_pl r)) k) as [p Hp]; [rewrite (pg_len_m _ _ Hpe); lia |].
        exists (e_tl r, p). apply (elev_edge e r ((e_tl r, e_pl r), true) k p); auto; [now left | apply edge_ids_nth; lia].
      + destruct Hid as [t [Ht Hk]]. apply in_seq in Ht. unfold interior_ids in Hk. apply in_map_iff in Hk. destruct Hk as [k [<- Hk]]. apply in_seq in Hk.
        destruct (nth_error_len_some (pe_interior pe) k ltac:(fold nI; lia)) as [p Hp].
        exists (t, p). apply elev_interior; [lia | exact Hp].
  Qed.

  (* in range: whatever is stored is a vertex id of the simplex mesh, an edge id or an interior id *)
  Theorem elev_in_range : Forall (Forall (fun i => i < nV)) conns -> forall k v, lookup W k = Some v -> v < N.
  Proof.
    intros Hr k v H. apply lookup_some in H. unfold W, events in H. fold rows nE nT in H.
    destruct (all_ids_nodup nV nE nT m nI) as [_ Hin]. apply in_app_or in H. destruct H as [H | H].
    - unfold ev_vertex in H. apply in_flat_map in H. destruct H as [[t c] [Hi Hw]]. unfold writes_at in Hw. apply in_map_iff in Hw.
      destruct Hw as [[p x] [E Hc]]. inversion E; subst. apply in_combine_r in Hc. cbn [snd] in Hc.
      apply in_indexed in Hi. destruct Hi as [_ Hn]. apply nth_error_In in Hn. rewrite Forall_forall in Hr. specialize (Hr _ Hn).
      rewrite Forall_forall in Hr. specialize (Hr _ Hc). unfold N. lia.
    - apply Hin. unfold all_ids. apply in_or_app. right. apply in_app_or in H. destruct H as [H | H]; apply in_or_app; [left | right].
      + unfold ev_edges in H. apply in_flat_map in H. destruct H as [[e r] [Hi Hw]]. apply in_flat_map in Hw. destruct Hw as [sl [_ Hw]].
        unfold ev_slot, writes_at in Hw. apply in_map_iff in Hw. destruct Hw as [[p x] [E Hc]]. inversion E; subst. apply in_combine_r in Hc. cbn [snd fst] in Hc.
        apply in_indexed in Hi. destruct Hi as [_ Hn]. rewrite Nat.sub_0_r in Hn. apply in_flat_map. exists e. split.
        * apply in_seq. assert (e < nE) by (apply nth_error_Some; congruence). lia.
        * destruct (snd sl); [exact Hc | now apply in_rev].
      + unfold ev_interior in H. apply in_flat_map in H. destruct H as [t [Ht Hw]]. unfold writes_at in Hw. apply in_map_iff in Hw.
        destruct Hw as [[p x] [E Hc]]. inversion E; subst. apply in_combine_r in Hc. cbn [snd] in Hc. apply in_flat_map. exists t. split; [exact Ht | exact Hc].
  Qed.

  (* no duplicates: two different writes never store the same id unless both are vertex writes *)
  (* entries of the resulting table *)
  Theorem elevated_entry t pos : t < nT -> pos < pe_n pe ->
    nth pos (nth t (elevated pe nV m conns) []) 0 = match lookup W (t, pos) with Some v => v | None => 0 end.
  Proof.
    intros Ht Hp. unfold elevated. fold W nT.
    rewrite (nth_indep _ [] (map (fun pos0 => match lookup W (0, pos0) with Some v => v | None => 0 end) (seq 0 (pe_n pe))))
      by (now rewrite map_length, seq_length).
    rewrite (map_nth (fun t0 => map (fun pos0 => match lookup W (t0, pos0) with Some v => v | None => 0 end) (seq 0 (pe_n pe))) (seq 0 nT) 0 t).
    rewrite seq_nth by exact Ht. cbn [Nat.add].
    rewrite (nth_indep _ 0 (match lookup W (t, 0) with Some v => v | None => 0 end)) by (now rewrite map_length, seq_length).
    rewrite (map_nth (fun pos0 => match lookup W (t, pos0) with Some v => v | None => 0 end) (seq 0 (pe_n pe)) 0 pos).
    now rewrite seq_nth by exact Hp.
  Qed.
End Elev2.

(* ---- coordinates of edge nodes: the left element sees edge (A,B) at parameter s', the right element sees (B,A) at
   parameter s; with (approximately) symmetric 1-D nodes, s + s' = 1 up to delta, both see the same point up to delta|A-B| *)
From Coq Require Import Reals Lra.
Lemma edge_point_conform (a b s s' delta : R) : (Rabs (s + s' - 1) <= delta)%R ->
  (Rabs (((1 - s') * a + s' * b) - ((1 - s) * b + s * a)) <= delta * Rabs (a - b))%R.
Proof.
  intros H. replace (((1 - s') * a + s' * b) - ((1 - s) * b + s * a))%R with ((1 - s - s') * (a - b))%R by ring.
  rewrite Rabs_mult. apply Rmult_le_compat_r; [apply Rabs_pos |].
  replace (1 - s - s')%R with (- (s + s' - 1))%R by ring. now rewrite Rabs_Ropp.
Qed.
