(* C20 -- concrete witnesses: where the faithful writer model violates the property, and non-vacuity examples *)
From Coq Require Import ZArith List Bool PeanoNat Lia ZifyBool.
From OV.model Require Import M_C20.
From OV.proofs Require Import L_C20.
Import ListNotations.

(* ------------------------------------------------------------------ witnesses: where the faithful model violates the property *)
Definition q (n : Z) : val := (n, 1%positive).
(* one linear triangle *)
Definition m1 : mesh := mkMesh [(q 0, q 0); (q 1, q 0); (q 0, q 1)] [[0; 1; 2]] 1 [0; 1; 2] [0; 1; 2].
(* one cubic triangle: 10 nodes, vertices first in the node numbering, at positions 0,3,9 of the element *)
Definition m3 : mesh :=
  mkMesh [(q 0, q 0); (q 3, q 0); (q 0, q 3); (q 1, q 0); (q 2, q 0); (q 2, q 1); (q 1, q 2); (q 0, q 2); (q 0, q 1); (q 1, q 1)]
         [[0; 3; 4; 1; 8; 9; 5; 7; 6; 2]] 3 [0; 3; 9] [0; 1; 2].

Ltac dec_solve := idtac; cbn; repeat (cbn; match goal with
  | |- _ /\ _ => split
  | |- Forall _ [] => constructor
  | |- Forall _ (_ :: _) => constructor
  | |- NoDup [] => constructor
  | |- NoDup (_ :: _) => constructor
  | |- ~ _ => intro
  | H : In _ _ |- _ => cbn in H
  | H : _ \/ _ |- _ => destruct H
  | H : False |- _ => destruct H
  | |- _ \/ _ => first [solve [left; dec_solve] | solve [right; dec_solve]]
  | |- _ = _ => reflexivity
  | |- _ < _ => lia
  | H : _ = _ |- _ => discriminate H
  end).
Ltac dsolve := first [solve [dec_solve] | solve [left; dec_solve] | solve [right; dec_solve]].
Ltac unf := unfold wf_writer, nodal_ok, dict_ok, field_ok, in_range, all_nodes_written_if_spheres, no_cell_data_with_edges.
Ltac conds := repeat match goal with |- _ /\ _ => split end; unf; dsolve.
Ltac vmr := repeat match goal with |- _ /\ _ => split end; vm_compute; reflexivity.

(* F9: spheres >= 1 and nodal fields >= 1: write() leaves padded rows in the state, the second file differs and is unreadable *)
Lemma double_write_witness : exists w0 w1, init m1 = Some w0 /\ add_nodal_field w0 1 [[q 5]; [q 6]; [q 7]] SCALARS DOUBLE = Some w1 /\
  let w := add_sphere w1 (q 2) (q 2) (q 1) in
  (wf_writer w /\ in_range w /\ all_nodes_written_if_spheres w /\ no_cell_data_with_edges w)
  /\ parse (fst (write w)) = Some (abstract w)
  /\ fst (write (snd (write w))) <> fst (write w)
  /\ parse (fst (write (snd (write w)))) = None
  /\ ~ wf_writer (snd (write w)).
Proof.
  eexists. eexists. split; [vm_compute; reflexivity |]. split; [vm_compute; reflexivity |]. cbv zeta.
  split; [conds |]. split; [vm_compute; reflexivity |]. split; [| split].
  - intros H. apply (f_equal (@length tok)) in H. vm_compute in H. discriminate.
  - vm_compute. reflexivity.
  - intros (_ & _ & [_ H] & _). vm_compute in H. inversion H as [| ? ? [[H1 _] | [H1 _]] _]; discriminate.
Qed.

(* F10: element order 3: sphere_radius and POINT_DATA use the all-node count, POINTS the output-node count *)
Lemma sphere_radius_count_witness : exists w0, init m3 = Some w0 /\
  let w := add_sphere w0 (q 1) (q 1) (q 1) in
  (wf_writer w /\ in_range w /\ no_cell_data_with_edges w /\ w_nall w <> length (w_points w))
  /\ exists d n arrs, parse (fst (write w)) = Some d /\ d_pd d = Some (n, arrs) /\ length (d_pts d) = 4 /\ n = 11
                      /\ c_pd d = false /\ check d = false.
Proof.
  eexists. split; [vm_compute; reflexivity |]. cbv zeta. split; [conds |].
  eexists. eexists. eexists. split; [vm_compute; reflexivity |]. cbn [d_pd]. split; [reflexivity |]. vmr.
Qed.

(* F11: CELL_DATA declares the mesh elements only although CELLS also lists the contact-edge cells *)
Lemma cell_data_count_witness : exists w0 w1, init m1 = Some w0 /\ add_cell_field w0 1 [[q 5]] SCALARS INT = Some w1 /\
  let w := add_contact_edges w1 [(0, 1)] in
  (wf_writer w /\ in_range w /\ all_nodes_written_if_spheres w)
  /\ exists d n arrs, parse (fst (write w)) = Some d /\ d_cd d = Some (n, arrs) /\ length (d_cells d) = 2 /\ n = 1
                      /\ c_cd d = false /\ check d = false.
Proof.
  eexists. eexists. split; [vm_compute; reflexivity |]. split; [vm_compute; reflexivity |]. cbv zeta. split; [conds |].
  eexists. eexists. eexists. split; [vm_compute; reflexivity |]. cbn [d_cd]. split; [reflexivity |]. vmr.
Qed.

(* non-vacuity: (a) nodal tensor field + cell vector field, (b) nodal field + sphere + contact edge on a linear mesh *)
Lemma nonvacuous_a : exists w0 w1 w2, init m1 = Some w0
  /\ add_nodal_field w0 1 [[q 1; q 2; q 3; q 4]; [q 5; q 6; q 7; q 8]; [q 9; q 1; q 2; q 3]] TENSORS FLOAT = Some w1
  /\ add_cell_field w1 2 [[q 1; q 2]] VECTORS INT = Some w2
  /\ (wf_writer w2 /\ in_range w2 /\ all_nodes_written_if_spheres w2 /\ no_cell_data_with_edges w2)
  /\ parse (fst (write w2)) = Some (abstract w2) /\ check (abstract w2) = true.
Proof.
  do 3 eexists. do 3 (split; [vm_compute; reflexivity |]). split; [conds | vmr].
Qed.

Lemma nonvacuous_b : exists w0 w1, init m1 = Some w0
  /\ add_nodal_field w0 1 [[q 1; q 2]; [q 5; q 6]; [q 9; q 1]] VECTORS DOUBLE = Some w1
  /\ let w := add_contact_edges (add_sphere w1 (q 2) (q 2) (q 1)) [(0, 3)] in
     (w_spheres w <> [] /\ w_edges w <> [] /\ w_nodal w <> [])
  /\ (wf_writer w /\ in_range w /\ all_nodes_written_if_spheres w /\ no_cell_data_with_edges w)
  /\ parse (fst (write w)) = Some (abstract w) /\ check (abstract w) = true.
Proof.
  do 2 eexists. do 2 (split; [vm_compute; reflexivity |]). cbv zeta.
  split; [repeat split; vm_compute; discriminate |]. split; [conds | vmr].
Qed.
