(* C20 -- concrete reachable states: the configurations that failed before the repairs 2cde078 / 34184b3 / 07417cb
   (regression theorems) and non-vacuity examples *)
From Coq Require Import ZArith List Bool PeanoNat Lia ZifyBool.
From OV.model Require Import M_C20.
From OV.proofs Require Import L_C20.
Import ListNotations.

(* ------------------------------------------------------------------ witnesses: where the faithful model violates the property *)
Definition q (n : Z) : val := (n, 1%positive).
(* one linear triangle *)
Definition m1 : mesh := mkMesh [(q 0, q 0); (q 1, q 0); (q 0, q 1)] [[0; 1; 2]] 1 [0; 1; 2] [0; 1; 2].
(* one cubic triangle: 10 nodes, vertices first in the node numbering, at positions 0,3,9 of the element *)
Definition m3 : mesh :=
  mkMesh [(q 0, q 0); (q 3, q 0); (q 0, q 3); (q 1, q 0); (q 2, q 0); (q 2, q 1); (q 1, q 2); (q 0, q 2); (q 0, q 1); (q 1, q 1)]
         [[0; 3; 4; 1; 8; 9; 5; 7; 6; 2]] 3 [0; 3; 9] [0; 1; 2].

Ltac dec_solve := idtac; cbn; repeat (cbn; match goal with
  | |- _ /\ _ => split
  | |- Forall _ [] => constructor
  | |- Forall _ (_ :: _) => constructor
  | |- NoDup [] => constructor
  | |- NoDup (_ :: _) => constructor
  | |- ~ _ => intro
  | H : In _ _ |- _ => cbn in H
  | H : _ \/ _ |- _ => destruct H
  | H : False |- _ => destruct H
  | |- _ \/ _ => first [solve [left; dec_solve] | solve [right; dec_solve]]
  | |- _ = _ => reflexivity
  | |- _ < _ => lia
  | H : _ = _ |- _ => discriminate H
  end).
Ltac dsolve := first [solve [dec_solve] | solve [left; dec_solve] | solve [right; dec_solve]].
Ltac unf := unfold wf_writer, dict_ok, field_ok, in_range.
Ltac conds := repeat match goal with |- _ /\ _ => split end; unf; dsolve.
Ltac vmr := repeat match goal with |- _ /\ _ => split end; vm_compute; reflexivity.

(* formerly F9: a nodal field and a sphere, written twice *)
Lemma double_write_regression : exists w0 w1, init m1 = Some w0 /\ add_nodal_field w0 1 [[q 5]; [q 6]; [q 7]] SCALARS DOUBLE = Some w1 /\
  let w := add_sphere w1 (q 2) (q 2) (q 1) in
  (wf_writer w /\ in_range w)
  /\ parse (fst (write w)) = Some (abstract w) /\ check (abstract w) = true
  /\ snd (write w) = w /\ fst (write (snd (write w))) = fst (write w)
  /\ parse (fst (write (snd (write w)))) = Some (abstract w).
Proof.
  eexists. eexists. split; [vm_compute; reflexivity |]. split; [vm_compute; reflexivity |]. cbv zeta.
  split; [conds |]. vmr.
Qed.

(* formerly F10: element order 3 (10 nodes, 3 written) with a sphere: POINTS 4, POINT_DATA 4, sphere_radius has 4 records *)
Lemma sphere_radius_count_regression : exists w0, init m3 = Some w0 /\
  let w := add_sphere w0 (q 1) (q 1) (q 1) in
  (wf_writer w /\ in_range w /\ w_nall w <> length (w_points w))
  /\ parse (fst (write w)) = Some (abstract w) /\ check (abstract w) = true
  /\ exists arrs, d_pd (abstract w) = Some (4, arrs) /\ length (d_pts (abstract w)) = 4.
Proof.
  eexists. split; [vm_compute; reflexivity |]. cbv zeta. split; [conds |].
  split; [vm_compute; reflexivity |]. split; [vm_compute; reflexivity |]. eexists. split; vm_compute; reflexivity.
Qed.

(* formerly F11: a cell field together with a contact edge: CELLS 2, CELL_TYPES 2, CELL_DATA 2 *)
Lemma cell_data_count_regression : exists w0 w1, init m1 = Some w0 /\ add_cell_field w0 1 [[q 5]] SCALARS INT = Some w1 /\
  let w := add_contact_edges w1 [(0, 1)] in
  (wf_writer w /\ in_range w)
  /\ parse (fst (write w)) = Some (abstract w) /\ check (abstract w) = true
  /\ exists arrs, d_cd (abstract w) = Some (2, arrs) /\ length (d_cells (abstract w)) = 2.
Proof.
  eexists. eexists. split; [vm_compute; reflexivity |]. split; [vm_compute; reflexivity |]. cbv zeta. split; [conds |].
  split; [vm_compute; reflexivity |]. split; [vm_compute; reflexivity |]. eexists. split; vm_compute; reflexivity.
Qed.

(* non-vacuity: everything at once on the cubic element -- tensor nodal field, vector cell field, two spheres, contact edges *)
Lemma nonvacuous_all : exists w0 w1 w2, init m3 = Some w0
  /\ add_nodal_field w0 1 [[q 1; q 2; q 3; q 4]; [q 5; q 6; q 7; q 8]; [q 9; q 1; q 2; q 3]; [q 1; q 1; q 1; q 1];
                           [q 2; q 2; q 2; q 2]; [q 3; q 3; q 3; q 3]; [q 4; q 4; q 4; q 4]; [q 5; q 5; q 5; q 5];
                           [q 6; q 6; q 6; q 6]; [q 7; q 7; q 7; q 7]] TENSORS FLOAT = Some w1
  /\ add_cell_field w1 2 [[q 1; q 2]] VECTORS INT = Some w2
  /\ let w := add_contact_edges (add_sphere (add_sphere w2 (q 2) (q 2) (q 1)) (q 4) (q 4) (q 2)) [(0, 3); (4, 1)] in
     (w_spheres w <> [] /\ w_edges w <> [] /\ w_nodal w <> [] /\ w_cell w <> [] /\ w_nall w <> length (w_points w))
  /\ (wf_writer w /\ in_range w)
  /\ parse (fst (write w)) = Some (abstract w) /\ check (abstract w) = true.
Proof.
  do 3 eexists. do 3 (split; [vm_compute; reflexivity |]). cbv zeta.
  split; [repeat split; vm_compute; discriminate |]. split; [conds | vmr].
Qed.
