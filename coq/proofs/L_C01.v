(* C01 -- trust_region_minimize (model/M_C01_TR.v at T := R) for ARBITRARY oracles:
   accepted objective values never increase (default mode), the returned point is the point of the last event / the current
   iterate, flag = true only at a ConvergedAt event whose gradient is below tolerance, the inner loop terminates. *)
From Coq Require Import Reals Lra Lia List QArith Psatz Bool.
From OV.base Require Import Num.
From OV.model Require Import M_C06_Vec M_C06_CG M_C01_TR.
From OV.proofs Require Import L_C06_Vec.
Import ListNotations.
Local Open Scope R_scope.

(* ------------------------------------------------------------------ the extended quotient over R *)
Lemma ege_ediv_sign (num den thr : R) : 0 <= thr -> 0 <= den -> @ege R NumR (@ediv R NumR num den) thr = true -> 0 <= num.
Proof.
  intros Hthr Hden. unfold ediv, ege. unfold_num. q2r. unfold Reqb, Rltb, Rleb.
  destruct (Req_EM_T den 0) as [E|E].
  - subst den. unfold Rdiv. rewrite Rinv_0, Rmult_0_r.
    destruct (Rlt_dec 0 0) as [A|A]; [lra|].
    destruct (Rlt_dec 0 num); [intros; lra|]. destruct (Rlt_dec num 0); discriminate.
  - destruct (Rle_dec thr (num / den)) as [L|L]; [intros _|discriminate].
    assert (0 < den) by lra. assert (0 <= num / den) by lra.
    replace num with (num / den * den) by (field; lra). apply Rmult_le_pos; lra.
Qed.

Section TRproofs.
  Variable value : rvec -> R.
  Variable grad : rvec -> rvec.
  Variable hessvec precond mult_approx : rvec -> rvec -> rvec.
  Variable S : settings R.

  Notation innerR := (@inner R NumR value grad hessvec mult_approx S).
  Notation outerR := (@outer R NumR value grad hessvec precond mult_approx S).
  Notation tol2R := (@tol2 R NumR S).

  (* a step is accepted only if the measured objective change is <= 0 (sign analysis of rho, both re-signing branches) *)
  Lemma accept_descent mo ro rn gn : 0 <= s_eta1 S ->
    @will_accept R NumR S (@rho_of R NumR mo ro) rn gn = true -> ro <= 0.
  Proof.
    intros Heta. unfold will_accept, rho_of. unfold_num. q2r.
    destruct (Rltb 0 mo) eqn:Hm; [apply Rltb_true in Hm|apply Rltb_false in Hm]; intros H; apply orb_true_iff in H.
    - replace (- - mo) with mo in H by ring.
      assert (0 <= - ro); [|lra].
      destruct H as [H|H]; [|apply andb_true_iff in H; destruct H as [H _]];
        eapply ege_ediv_sign; try exact H; lra.
    - assert (0 <= - ro); [|lra].
      destruct H as [H|H]; [|apply andb_true_iff in H; destruct H as [H _]];
        eapply ege_ediv_sign; try exact H; lra.
  Qed.

  (* ---- trace observations *)
  Definition accept_vals (tr : list (event R)) : list R :=
    flat_map (fun e => match e with EAccept _ o => [o] | _ => [] end) tr.
  Fixpoint chain (o : R) (l : list R) : Prop := match l with [] => True | v :: l' => v <= o /\ chain v l' end.
  Definition cur (x : rvec) (tr : list (event R)) : rvec :=
    fold_left (fun acc e => match e with EAccept y _ => y | _ => acc end) tr x.
  Definition accepts_ok (tr : list (event R)) : Prop :=
    Forall (fun e => match e with EAccept y o => o = value y | _ => True end) tr.

  Lemma accept_vals_app a b : accept_vals (a ++ b) = accept_vals a ++ accept_vals b.
  Proof. unfold accept_vals. apply flat_map_app. Qed.
  Lemma cur_app x a b : cur x (a ++ b) = cur (cur x a) b.
  Proof. unfold cur. apply fold_left_app. Qed.
  Lemma accepts_ok_app a b : accepts_ok a -> accepts_ok b -> accepts_ok (a ++ b).
  Proof. unfold accepts_ok. intros. apply Forall_app. split; assumption. Qed.
  Lemma last_cons_default (v : R) a o : last (v :: a) o = last a v.
  Proof.
    revert v o; induction a as [|w a IH]; intros v o; [reflexivity|].
    change (last (v :: w :: a) o) with (last (w :: a) o). rewrite (IH w o), (IH w v). reflexivity.
  Qed.
  Lemma chain_app o a b : chain o a -> chain (last a o) b -> chain o (a ++ b).
  Proof.
    revert o; induction a as [|v a IH]; intros o Ha Hb; [exact Hb|].
    destruct Ha as [H1 H2]. split; [assumption|]. apply IH; [assumption|].
    rewrite <- (last_cons_default v a o). exact Hb.
  Qed.
  Definition default_mode : Prop := s_use_incremental S = false.

  (* what one run of the inner `while` guarantees *)
  Definition inner_post (s : st (T:=R)) (o : inner_out (T:=R)) : Prop :=
    match o with
    | IReturn x flag ev =>
        accepts_ok ev /\ accept_vals ev = [] /\
        ((flag = true /\ (exists ev', ev = ev' ++ [EConverged x]) /\ grad x ⋅ grad x < tol2R) \/
         (flag = false /\ x = c_x s /\ exists ev', ev = ev' ++ [ETooSmall x]))
    | IContinue s' ev =>
        accepts_ok ev /\ c_o s' = value (c_x s') /\ c_x s' = cur (c_x s) ev /\
        c_o s' = last (accept_vals ev) (c_o s) /\
        (default_mode -> 0 <= s_eta1 S -> chain (c_o s) (accept_vals ev))
    | IFuel ev => accept_vals ev = [] /\ exists ev', ev = ev' ++ [EOutOfFuel]
    end.

  Lemma prepend_precond_post (s s2 : @st R) (x : bool) (o : @inner_out R) : c_x s2 = c_x s -> c_o s2 = c_o s ->
    inner_post s2 o -> inner_post s (@prepend R (if x then [EPrecond (c_x s)] else []) o).
  Proof.
    intros Ex Eo. destruct x; cbn [app]; [|destruct o; cbn [prepend app inner_post]; rewrite <- ?Ex, <- ?Eo; auto].
    destruct o as [y flag ev|s' ev|ev]; cbn [prepend inner_post app]; rewrite ?Ex, ?Eo.
    - intros (A & B & C). split; [constructor; [exact I|assumption]|]. split; [exact B|].
      destruct C as [(F & (ev' & E) & G)|(F & X & (ev' & E))]; [left|right]; repeat split; auto;
        exists (EPrecond (c_x s) :: ev'); rewrite E; reflexivity.
    - intros (A & B & C & D & E). split; [constructor; [exact I|assumption]|]. repeat split; auto.
    - intros (A & ev' & E). split; [exact A|]. exists (EPrecond (c_x s) :: ev'). rewrite E. reflexivity.
  Qed.

  Lemma inner_spec fuel : forall s cp qn stepType cgIters, c_o s = value (c_x s) ->
    inner_post s (innerR fuel s cp qn stepType cgIters).
  Proof.
    induction fuel as [|fuel IH]; intros s cp qn stepType cgIters Ho.
    - cbn. split; [reflexivity|exists []; reflexivity].
    - cbn [inner].
      match goal with |- context [nltb (vdot (grad ?yy) (grad ?yy)) _] => set (y := yy) end.
      destruct (nltb (vdot (grad y) (grad y)) tol2R) eqn:Hconv.
      { cbn [inner_post]. split; [repeat constructor|]. split; [reflexivity|]. left.
        split; [reflexivity|]. split; [exists []; reflexivity|].
        revert Hconv. unfold_num. intros Hconv. apply Rltb_true in Hconv. exact Hconv. }
      match goal with |- context [will_accept ?r ?a ?b] => destruct (will_accept r a b) eqn:Hacc end.
      + (* accepted *)
        assert (Hdesc : default_mode -> 0 <= s_eta1 S -> value y <= c_o s).
        { intros Hd He. unfold real_objective in Hacc. rewrite Hd in Hacc.
          apply accept_descent in Hacc; [|assumption]. revert Hacc. unfold_num. lra. }
        match goal with |- context [nltb ?a (s_min_tr_size S)] => destruct (nltb a (s_min_tr_size S)) end;
          match goal with |- context [orb ?a ?b] => destruct (orb a b) end;
          cbn [inner_post app c_x c_o accept_vals flat_map cur fold_left last];
          (split; [repeat constructor|]); repeat split; auto.
      + (* rejected *)
        match goal with |- context [nltb ?a (s_min_tr_size S)] => destruct (nltb a (s_min_tr_size S)) end.
        * destruct (negb (c_tried s)).
          -- match goal with |- context [orb ?a ?b] => destruct (orb a b) end;
               cbn [inner_post app c_x c_o accept_vals flat_map cur fold_left last];
               (split; [repeat constructor|]); repeat split; auto.
          -- match goal with |- context [orb ?a ?b] => destruct (orb a b) end;
               cbn [inner_post app c_x c_o accept_vals flat_map cur fold_left last];
               (split; [repeat constructor|]); (split; [reflexivity|]); right;
               (split; [reflexivity|]); (split; [reflexivity|]);
               [exists [EPrecond (c_x s)]; reflexivity|exists []; reflexivity].
        * match goal with |- inner_post s (prepend _ (inner _ _ _ _ _ _ ?s2 _ _ _ _)) =>
            apply (prepend_precond_post s s2); [reflexivity|reflexivity|] end.
          apply IH. exact Ho.
  Qed.

  (* ---- the outer loop *)
  Definition run_post (s : st (T:=R)) (r : rvec * bool * list (event R)) : Prop :=
    let '(x, flag, tr) := r in
    accepts_ok tr /\
    (default_mode -> 0 <= s_eta1 S -> chain (c_o s) (accept_vals tr)) /\
    (flag = true -> (exists tr', tr = tr' ++ [EConverged x]) /\ grad x ⋅ grad x < tol2R) /\
    (flag = false -> x = cur (c_x s) tr /\
                     exists tr', tr = tr' ++ [ETooSmall x] \/ tr = tr' ++ [EMaxIters x] \/ tr = tr' ++ [EOutOfFuel]).

  Lemma outer_spec iters fuel : forall s, c_o s = value (c_x s) -> run_post s (outerR iters fuel s).
  Proof.
    induction iters as [|k IH]; intros s Ho.
    - cbn. split; [repeat constructor|]. split; [intros; exact I|]. split; [discriminate|].
      intros _. split; [reflexivity|]. exists []. right; left; reflexivity.
    - cbn [outer]. destruct (@propose R NumR hessvec precond mult_approx S s) as [[[cp qn] stepType] cgIters].
      set (s1 := {| c_x := c_x s; c_g := c_g s; c_o := c_o s; c_gNorm := c_gNorm s; c_tr := c_tr s; c_tried := c_tried s;
                    c_cum := (c_cum s + cgIters)%nat; c_xp := c_xp s |}).
      pose proof (inner_spec fuel s1 cp qn stepType cgIters Ho) as Hin.
      destruct (innerR fuel s1 cp qn stepType cgIters) as [x flag ev|s' ev|ev]; cbn [inner_post] in Hin.
      + destruct Hin as (A & B & C). cbn [run_post]. split; [exact A|]. split; [rewrite B; intros; exact I|].
        destruct C as [(F & E & G)|(F & X & E)]; subst flag.
        * split; [intros _; split; assumption|discriminate].
        * split; [discriminate|]. intros _. split.
          -- (* no accepts in ev: cur is unchanged *)
             subst x. clear - B. change (c_x s1) with (c_x s). generalize (c_x s). induction ev as [|e ev IHev]; intros x0; [reflexivity|].
             destruct e; cbn in B |- *; try discriminate; apply IHev; assumption.
          -- destruct E as (ev' & E). exists ev'. left. exact E.
      + destruct Hin as (A & B & C & D & E).
        specialize (IH s' B). destruct (outerR k fuel s') as [[x flag] tr']. cbn [run_post] in IH |- *.
        destruct IH as (A' & B' & C' & D').
        split; [apply accepts_ok_app; assumption|]. split.
        { intros Hd He. rewrite accept_vals_app. apply chain_app; [apply E; assumption|]. 
          change (c_o s1) with (c_o s) in D. rewrite <- D. apply B'; assumption. }
        split.
        { intros F. destruct (C' F) as ((t & Et) & G). split; [|exact G]. exists (ev ++ t). rewrite Et, app_assoc. reflexivity. }
        intros F. destruct (D' F) as (X & t & Et). split.
        { rewrite cur_app. change (c_x s1) with (c_x s) in C. rewrite <- C. exact X. }
        exists (ev ++ t). destruct Et as [Et|[Et|Et]]; rewrite Et, app_assoc; auto.
      + destruct Hin as (A & ev' & E). cbn [run_post]. split.
        { clear - A. unfold accepts_ok. induction ev as [|e ev IHev]; [constructor|].
          destruct e; cbn in A; try discriminate; constructor; auto. }
        split; [rewrite A; intros; exact I|]. split; [discriminate|]. intros _. split.
        { clear - A. generalize (c_x s). induction ev as [|e ev IHev]; intros x0; [reflexivity|].
          destruct e; cbn in A |- *; try discriminate; apply IHev; assumption. }
        exists ev'. right; right. exact E.
  Qed.
End TRproofs.

(* ------------------------------------------------------------------ the public entry point *)
Section TRmain.
  Variable value : rvec -> R.
  Variable grad : rvec -> rvec.
  Variable hessvec precond mult_approx : rvec -> rvec -> rvec.
  Variable S : settings R.

  Theorem trm_spec fuel x xp0 :
    let '(xr, flag, tr) := @trust_region_minimize R NumR value grad hessvec precond mult_approx S fuel x xp0 in
    accepts_ok value tr /\
    (s_use_incremental S = false -> 0 <= s_eta1 S -> chain (value x) (accept_vals tr)) /\
    (flag = true -> ((exists tr', tr = tr' ++ [EConverged xr]) \/ tr = [EConvergedInit xr]) /\
                    grad xr ⋅ grad xr < @tol2 R NumR S) /\
    (flag = false -> xr = cur x tr /\
                     exists tr', tr = tr' ++ [ETooSmall xr] \/ tr = tr' ++ [EMaxIters xr] \/ tr = tr' ++ [EOutOfFuel]).
  Proof.
    unfold trust_region_minimize.
    destruct (nltb (vdot (grad x) (grad x)) (@tol2 R NumR S)) eqn:Hc.
    - split; [repeat constructor|]. split; [intros; exact I|]. split; [|discriminate].
      intros _. split; [right; reflexivity|]. revert Hc. unfold_num. intros Hc. apply Rltb_true in Hc. exact Hc.
    - match goal with |- context [outer _ _ _ _ _ _ _ _ ?s0] =>
        pose proof (outer_spec value grad hessvec precond mult_approx S (s_max_trust_iters S) fuel s0 eq_refl) as H;
        destruct (@outer R NumR value grad hessvec precond mult_approx S (s_max_trust_iters S) fuel s0) as [[xr flag] tr] end.
      cbn [run_post c_o c_x] in H. destruct H as (A & B & C & D).
      split; [exact A|]. split; [exact B|]. split; [|exact D].
      intros F. destruct (C F) as (E & G). split; [left; exact E|exact G].
  Qed.
End TRmain.

(* ------------------------------------------------------------------ the inner loop terminates for admissible settings *)
Lemma ege_mono (r : ext R) a b : a <= b -> @ege R NumR r b = true -> @ege R NumR r a = true.
Proof.
  intros Hab. destruct r; cbn; auto. unfold_num. unfold Rleb.
  destruct (Rle_dec b t); [|discriminate]. destruct (Rle_dec a t); [reflexivity|lra].
Qed.

Section Termination.
  Variable value : rvec -> R.
  Variable grad : rvec -> rvec.
  Variable hessvec mult_approx : rvec -> rvec -> rvec.
  Variable S : settings R.
  Hypothesis t1_range : 0 < s_t1 S < 1.
  Hypothesis min_tr_pos : 0 < s_min_tr_size S.
  Hypothesis eta_order : s_eta1 S <= s_eta2 S.

  Definition not_fuel (o : @inner_out R) : Prop := match o with IFuel _ => False | _ => True end.
  Lemma not_fuel_prepend ev o : not_fuel o -> not_fuel (prepend ev o).
  Proof. destruct o; cbn; auto. Qed.

  (* a rejected step always shrinks the radius by t1 *)
  Lemma reject_shrinks rho rn gn st tr : @will_accept R NumR S rho rn gn = false ->
    @new_radius R NumR S rho st tr = tr * s_t1 S.
  Proof.
    unfold will_accept, new_radius. intros H. apply orb_false_iff in H. destruct H as [H _].
    destruct (ege rho (s_eta2 S)) eqn:E.
    - apply (ege_mono rho _ _ eta_order) in E. congruence.
    - cbn. reflexivity.
  Qed.

  Theorem inner_terminates k : forall s cp qn stepType cgIters,
    c_tr s * s_t1 S ^ k < s_min_tr_size S ->
    not_fuel (@inner R NumR value grad hessvec mult_approx S (Datatypes.S k) s cp qn stepType cgIters).
  Proof.
    induction k as [|k IH]; intros s cp qn stepType cgIters Hk.
    - cbn [inner].
      match goal with |- context [nltb (vdot (grad ?yy) (grad ?yy)) _] => set (y := yy) end.
      destruct (nltb (vdot (grad y) (grad y)) (@tol2 R NumR S)); [exact I|].
      match goal with |- context [will_accept ?r ?a ?b] => destruct (will_accept r a b) eqn:Hacc end.
      + match goal with |- context [nltb ?a (s_min_tr_size S)] => destruct (nltb a (s_min_tr_size S)) end; exact I.
      + rewrite (reject_shrinks _ _ _ _ _ Hacc).
        assert (Hlt : c_tr s * s_t1 S < s_min_tr_size S).
        { simpl in Hk. destruct (Rle_dec 0 (c_tr s)); [|nra]. assert (c_tr s * s_t1 S <= c_tr s) by nra. lra. }
        unfold_num. apply Rltb_true in Hlt. rewrite Hlt. cbv iota. destruct (negb (c_tried s)); exact I.
    - cbn [inner].
      match goal with |- context [nltb (vdot (grad ?yy) (grad ?yy)) _] => set (y := yy) end.
      destruct (nltb (vdot (grad y) (grad y)) (@tol2 R NumR S)); [exact I|].
      match goal with |- context [will_accept ?r ?a ?b] => destruct (will_accept r a b) eqn:Hacc end.
      + match goal with |- context [nltb ?a (s_min_tr_size S)] => destruct (nltb a (s_min_tr_size S)) end; exact I.
      + rewrite (reject_shrinks _ _ _ _ _ Hacc).
        match goal with |- context [nltb ?a (s_min_tr_size S)] => destruct (nltb a (s_min_tr_size S)) end.
        * destruct (negb (c_tried s)); exact I.
        * apply not_fuel_prepend. apply IH. cbn [c_tr]. unfold_num. simpl in Hk. lra.
  Qed.
End Termination.

(* the hypotheses on the settings are satisfiable (the defaults of get_settings) *)
Definition default_settings_R : settings R :=
  {| s_t1 := 1 / 4; s_t2 := 7 / 4; s_eta1 := 1 / 10000000000; s_eta2 := 1 / 10; s_eta3 := 1 / 2;
     s_max_trust_iters := 100; s_tol := 1 / 100000000; s_max_cg_iters := 50;
     s_max_cumulative_cg_iters := 1000; s_cg_tol := 2 / 10 * (1 / 100000000); s_cg_ratio := 1 / 100000;
     s_tr_size := 2; s_min_tr_size := 1 / 100000000; s_use_pc_ip := false; s_use_incremental := false |}.
Lemma default_settings_admissible :
  0 < s_t1 default_settings_R < 1 /\ 0 < s_min_tr_size default_settings_R /\
  s_eta1 default_settings_R <= s_eta2 default_settings_R /\ 0 <= s_eta1 default_settings_R /\
  s_use_incremental default_settings_R = false /\
  s_tr_size default_settings_R * s_t1 default_settings_R ^ 14 < s_min_tr_size default_settings_R.
Proof. cbn. repeat split; lra. Qed.
