(* C13 -- the readers as functions of the whole file: no element, node-set member or side-set member is lost, every index is
   in range (model/M_C13_ReadFile.v).  Distinct final names are a HYPOTHESIS of the set / block theorems: with equal names the
   dict assignment overwrites (read_exodus_name_clash_refuted). *)
From Coq Require Import List Arith ZArith Bool Lia.
From OV.model Require Import M_C13_Combine M_C13_Read M_C13_ReadFile.
From OV.proofs Require Import L_C13_Combine L_C13_Read.
Import ListNotations.

(* ---- list facts *)
Lemma map_fst_combine_eq {A B} (l : list A) (l' : list B) : length l = length l' -> map fst (combine l l') = l.
Proof. revert l'. induction l as [| a l IH]; intros [| b l'] H; try discriminate; [reflexivity |]. cbn. f_equal. apply IH. now inversion H. Qed.
Lemma map_snd_combine_eq {A B} (l : list A) (l' : list B) : length l = length l' -> map snd (combine l l') = l'.
Proof. revert l'. induction l as [| a l IH]; intros [| b l'] H; try discriminate; [reflexivity |]. cbn. f_equal. apply IH. now inversion H. Qed.
Lemma combine_nth_error {A B} (l : list A) (l' : list B) i a b :
  nth_error l i = Some a -> nth_error l' i = Some b -> nth_error (combine l l') i = Some (a, b).
Proof.
  revert l' i. induction l as [| x l IH]; intros [| y l'] [| i] Ha Hb; try discriminate; cbn in *; [congruence | now apply IH].
Qed.
Lemma concat_nth_error {A} (ls : list (list A)) b l i : nth_error ls b = Some l -> i < length l ->
  nth_error (concat ls) (list_sum (map (@length _) (firstn b ls)) + i) = nth_error l i.
Proof.
  revert b. induction ls as [| l0 ls IH]; intros [| b] Hb Hi; try discriminate; cbn in *.
  - inversion Hb; subst. now rewrite nth_error_app1.
  - rewrite nth_error_app2 by (unfold list_sum; lia). rewrite <- (IH b Hb Hi). f_equal. unfold list_sum. lia.
Qed.
Lemma block_ranges_nth first sizes b n : nth_error sizes b = Some n ->
  nth_error (block_ranges first sizes) b = Some (seq (first + list_sum (firstn b sizes)) n).
Proof.
  revert first b. induction sizes as [| n0 r IH]; intros first [| b] H; try discriminate; cbn in *.
  - inversion H; subst. now rewrite Nat.add_0_r.
  - rewrite (IH (first + n0) b H). f_equal. f_equal. unfold list_sum. lia.
Qed.
Lemma final_names_length auto i names : length (final_names auto i names) = length names.
Proof. revert i. induction names as [| n r IH]; intros i; [reflexivity |]. cbn. now rewrite IH. Qed.

(* ---- dict(zip(names, vals)) with pairwise distinct names is the association list itself *)
Lemma dict_of_nodup {V} (names : list Z) (vals : list V) : NoDup names -> length names = length vals ->
  dict_of names vals = combine names vals.
Proof. intros Hn Hl. unfold dict_of. apply first_loop. now rewrite map_fst_combine_eq. Qed.
Lemma dget_combine_nth {V} (names : list Z) (vals : list V) i k v : NoDup names -> length names = length vals ->
  nth_error names i = Some k -> nth_error vals i = Some v -> dget (combine names vals) k = Some v.
Proof.
  intros Hn Hl Hk Hv. apply dget_in; [now rewrite map_fst_combine_eq |]. eapply nth_error_In. now apply combine_nth_error; eauto.
Qed.

(* ---- 1-based -> 0-based is reversible: nothing is merged or dropped *)
Lemma to0_back_map l : Forall (fun i => 1 <= i) l -> map S (to0 l) = l.
Proof. unfold to0. induction 1 as [| x l Hx _ IH]; [reflexivity |]. cbn [map]. rewrite IH. f_equal. lia. Qed.
Lemma read_sideset_length es ss : length es = length ss -> length (read_sideset es ss) = length es.
Proof. intros H. unfold read_sideset. rewrite combine_length, !to0_length. lia. Qed.
Lemma read_sideset_back es ss : length es = length ss -> Forall (fun i => 1 <= i) es -> Forall (fun i => 1 <= i) ss ->
  map (fun p => S (fst p)) (read_sideset es ss) = es /\ map (fun p => S (snd p)) (read_sideset es ss) = ss.
Proof.
  intros Hl He Hs. unfold read_sideset. split.
  - rewrite <- (map_map fst S), map_fst_combine_eq by (now rewrite !to0_length). now apply to0_back_map.
  - rewrite <- (map_map snd S), map_snd_combine_eq by (now rewrite !to0_length). now apply to0_back_map.
Qed.
Lemma read_sideset_in_range nE es ss : Forall (fun e => 1 <= e <= nE) es -> Forall (fun s => 1 <= s <= 3) ss ->
  Forall (fun p => fst p < nE /\ snd p < 3) (read_sideset es ss).
Proof.
  intros He Hs. apply Forall_forall. intros [e s] Hin. unfold read_sideset in Hin.
  pose proof (in_combine_l _ _ _ _ Hin) as H1. pose proof (in_combine_r _ _ _ _ Hin) as H2.
  pose proof (to0_in_range nE es He) as R1. pose proof (to0_in_range 3 ss Hs) as R2. rewrite Forall_forall in R1, R2.
  cbn [fst snd]. split; [now apply R1 | now apply R2].
Qed.

(* ---- well-formed file *)
Definition exo_nelems (f : exo_file) : nat := length (read_conns (ef_blocks f)).
Record exo_wf (six : bool) (f : exo_file) : Prop := {
  wf_conn : Forall (Forall (Forall (fun i => 1 <= i <= ef_nnodes f))) (ef_blocks f);
  wf_rows : Forall (Forall (fun row => length row = if six then 6 else 3)) (ef_blocks f);
  wf_bn : length (ef_bnames f) = length (ef_blocks f);
  wf_ns : Forall (Forall (fun i => 1 <= i <= ef_nnodes f)) (ef_nodesets f);
  wf_nsn : length (ef_nsnames f) = length (ef_nodesets f);
  wf_ss : Forall (fun es => length (fst es) = length (snd es) /\ Forall (fun e => 1 <= e <= exo_nelems f) (fst es)
                            /\ Forall (fun s => 1 <= s <= 3) (snd es)) (ef_sidesets f);
  wf_ssn : length (ef_ssnames f) = length (ef_sidesets f) }.

Lemma block_first_to0 blocks b : list_sum (map (@length _) (firstn b (map (map to0) blocks))) = block_first blocks b.
Proof. unfold block_first. rewrite firstn_map, map_map. f_equal. apply map_ext. intros. apply map_length. Qed.

Section Read.
  Variable six : bool.
  Variables aB aN aS : nat -> Z.
  Variable f : exo_file.
  Hypothesis Hwf : exo_wf six f.
  Let r := read_exodus six aB aN aS f.
  Let post (row : list nat) : list nat := if six then permute_tri6 row else row.

  Lemma rm_conns_length : length (rm_conns r) = exo_nelems f.
  Proof. unfold r, read_exodus, exo_nelems. cbn [rm_conns]. destruct six; [apply map_length | reflexivity]. Qed.

  (* ELEMENTS: the stacked table has one row per file row, row i of block b at index block_first b + i, holding the file
     row minus one (6-node rows in native order); every entry is a node id *)
  Theorem read_exodus_elements :
    length (rm_conns r) = list_sum (map (@length _) (ef_blocks f))
    /\ (forall b blk i row, nth_error (ef_blocks f) b = Some blk -> nth_error blk i = Some row ->
          nth_error (rm_conns r) (block_first (ef_blocks f) b + i) = Some (post (to0 row)))
    /\ Forall (Forall (fun n => n < ef_nnodes f)) (rm_conns r)
    /\ Forall (fun row => length row = if six then 6 else 3) (rm_conns r).
  Proof.
    split; [rewrite rm_conns_length; apply read_conns_length |]. split; [| split].
    - intros b blk i row Hb Hi.
      assert (H0 : nth_error (read_conns (ef_blocks f)) (block_first (ef_blocks f) b + i) = Some (to0 row)).
      { unfold read_conns. rewrite <- block_first_to0.
        rewrite (concat_nth_error (map (map to0) (ef_blocks f)) b (map to0 blk) i).
        - now rewrite nth_error_map, Hi.
        - now rewrite nth_error_map, Hb.
        - rewrite map_length. apply nth_error_Some. congruence. }
      unfold r, read_exodus, post. cbn [rm_conns]. destruct six; [now rewrite nth_error_map, H0 | exact H0].
    - pose proof (read_conns_in_range (ef_nnodes f) (ef_blocks f) (wf_conn _ _ Hwf)) as R.
      assert (L : Forall (fun row => length row = if six then 6 else 3) (read_conns (ef_blocks f))).
      { apply Forall_forall. intros row Hr. unfold read_conns in Hr. apply in_concat in Hr. destruct Hr as [b [Hb Hr]].
        apply in_map_iff in Hb. destruct Hb as [b' [<- Hb']]. apply in_map_iff in Hr. destruct Hr as [row' [<- Hr']].
        rewrite to0_length. pose proof (wf_rows _ _ Hwf) as W. rewrite Forall_forall in W. specialize (W _ Hb'). rewrite Forall_forall in W. now apply W. }
      unfold r, read_exodus. cbn [rm_conns]. destruct six; [| exact R].
      apply Forall_forall. intros row' Hr'. apply in_map_iff in Hr'. destruct Hr' as [row [<- Hr]].
      rewrite Forall_forall in R, L. apply Forall_forall. intros x Hx. apply (permute_tri6_perm row (L _ Hr)) in Hx.
      specialize (R _ Hr). rewrite Forall_forall in R. now apply R.
    - unfold r, read_exodus. cbn [rm_conns]. apply Forall_forall. intros row Hr.
      assert (L : forall row0, In row0 (read_conns (ef_blocks f)) -> length row0 = if six then 6 else 3).
      { intros row0 Hr0. unfold read_conns in Hr0. apply in_concat in Hr0. destruct Hr0 as [b [Hb Hr0]].
        apply in_map_iff in Hb. destruct Hb as [b' [<- Hb']]. apply in_map_iff in Hr0. destruct Hr0 as [row' [<- Hr']].
        rewrite to0_length. pose proof (wf_rows _ _ Hwf) as W. rewrite Forall_forall in W. specialize (W _ Hb'). rewrite Forall_forall in W. now apply W. }
      destruct six; [| now apply L]. apply in_map_iff in Hr. destruct Hr as [row0 [<- Hr0]]. unfold permute_tri6. now rewrite map_length.
  Qed.

  (* BLOCKS (distinct final names): block b is stored under its name as the range of its rows; the ranges, in order, are
     exactly 0 .. nE-1: every element is in exactly one block *)
  Theorem read_exodus_blocks : NoDup (final_names aB 0 (ef_bnames f)) ->
    rm_blocks r = combine (final_names aB 0 (ef_bnames f)) (read_block_ranges (ef_blocks f))
    /\ (forall b blk k, nth_error (ef_blocks f) b = Some blk -> nth_error (final_names aB 0 (ef_bnames f)) b = Some k ->
          dget (rm_blocks r) k = Some (seq (block_first (ef_blocks f) b) (length blk)))
    /\ concat (map snd (rm_blocks r)) = seq 0 (length (rm_conns r))
    /\ length (rm_blocks r) = length (ef_blocks f).
  Proof.
    intros Hn.
    assert (Hl : length (final_names aB 0 (ef_bnames f)) = length (read_block_ranges (ef_blocks f))).
    { rewrite final_names_length, read_blocks_count. apply (wf_bn _ _ Hwf). }
    assert (E : rm_blocks r = combine (final_names aB 0 (ef_bnames f)) (read_block_ranges (ef_blocks f))).
    { unfold r, read_exodus. cbn [rm_blocks]. now apply dict_of_nodup. }
    split; [exact E |]. split; [| split].
    - intros b blk k Hb Hk. rewrite E. apply (dget_combine_nth _ _ b); auto.
      unfold read_block_ranges. rewrite (block_ranges_nth 0 (map (@length _) (ef_blocks f)) b (length blk)) by (now rewrite nth_error_map, Hb).
      cbn [Nat.add]. unfold block_first. now rewrite firstn_map.
    - rewrite E, map_snd_combine_eq by exact Hl. rewrite read_blocks_cover. now rewrite rm_conns_length.
    - rewrite E, combine_length, <- Hl, Nat.min_id, final_names_length. apply (wf_bn _ _ Hwf).
  Qed.

  (* NODE SETS (distinct final names): set i is stored under its name as the file record minus one: same length, adding one
     gives back the file record (no member lost or merged), every member is a node id *)
  Theorem read_exodus_nodesets : NoDup (final_names aN 0 (ef_nsnames f)) ->
    length (rm_nodesets r) = length (ef_nodesets f)
    /\ forall i l k, nth_error (ef_nodesets f) i = Some l -> nth_error (final_names aN 0 (ef_nsnames f)) i = Some k ->
         dget (rm_nodesets r) k = Some (to0 l) /\ length (to0 l) = length l /\ map S (to0 l) = l
         /\ Forall (fun n => n < ef_nnodes f) (to0 l).
  Proof.
    intros Hn.
    assert (Hl : length (final_names aN 0 (ef_nsnames f)) = length (map to0 (ef_nodesets f))).
    { rewrite final_names_length, map_length. apply (wf_nsn _ _ Hwf). }
    assert (E : rm_nodesets r = combine (final_names aN 0 (ef_nsnames f)) (map to0 (ef_nodesets f))).
    { unfold r, read_exodus. cbn [rm_nodesets]. now apply dict_of_nodup. }
    split; [rewrite E, combine_length, <- Hl, Nat.min_id, final_names_length; apply (wf_nsn _ _ Hwf) |].
    intros i l k Hi Hk. pose proof (wf_ns _ _ Hwf) as W. rewrite Forall_forall in W. specialize (W l (nth_error_In _ _ Hi)).
    split; [rewrite E; apply (dget_combine_nth _ _ i); auto; now rewrite nth_error_map, Hi |].
    split; [apply to0_length |]. split; [| now apply to0_in_range].
    apply to0_back_map. eapply Forall_impl; [| exact W]. cbn. intros; lia.
  Qed.

  (* SIDE SETS (distinct final names): set i is stored under its name as the list of (element - 1, side - 1) pairs: same
     length, adding one to the columns gives back the two file records, every pair is (element id, side 0..2) *)
  Theorem read_exodus_sidesets : NoDup (final_names aS 0 (ef_ssnames f)) ->
    length (rm_sidesets r) = length (ef_sidesets f)
    /\ forall i es ss k, nth_error (ef_sidesets f) i = Some (es, ss) -> nth_error (final_names aS 0 (ef_ssnames f)) i = Some k ->
         dget (rm_sidesets r) k = Some (read_sideset es ss) /\ length (read_sideset es ss) = length es
         /\ map (fun p => S (fst p)) (read_sideset es ss) = es /\ map (fun p => S (snd p)) (read_sideset es ss) = ss
         /\ Forall (fun p => fst p < length (rm_conns r) /\ snd p < 3) (read_sideset es ss).
  Proof.
    intros Hn. set (vals := map (fun es => read_sideset (fst es) (snd es)) (ef_sidesets f)).
    assert (Hl : length (final_names aS 0 (ef_ssnames f)) = length vals).
    { unfold vals. rewrite final_names_length, map_length. apply (wf_ssn _ _ Hwf). }
    assert (E : rm_sidesets r = combine (final_names aS 0 (ef_ssnames f)) vals).
    { unfold r, read_exodus. cbn [rm_sidesets]. now apply dict_of_nodup. }
    split; [rewrite E, combine_length, <- Hl, Nat.min_id, final_names_length; apply (wf_ssn _ _ Hwf) |].
    intros i es ss k Hi Hk. pose proof (wf_ss _ _ Hwf) as W. rewrite Forall_forall in W. specialize (W _ (nth_error_In _ _ Hi)).
    cbn [fst snd] in W. destruct W as (W1 & W2 & W3).
    split; [rewrite E; apply (dget_combine_nth _ _ i); auto; unfold vals; now rewrite nth_error_map, Hi |].
    split; [now apply read_sideset_length |].
    assert (P2 : Forall (fun i0 => 1 <= i0) es) by (eapply Forall_impl; [| exact W2]; cbn; intros; lia).
    assert (P3 : Forall (fun i0 => 1 <= i0) ss) by (eapply Forall_impl; [| exact W3]; cbn; intros; lia).
    destruct (read_sideset_back es ss W1 P2 P3) as [B1 B2]. split; [exact B1 |]. split; [exact B2 |].
    rewrite rm_conns_length. now apply read_sideset_in_range.
  Qed.

End Read.

(* simplexNodesOrdinals: every node for 3-node files, the ids in the first three file columns for 6-node files, each once *)
Theorem read_exodus_simplex six aB aN aS f :
  let r := read_exodus six aB aN aS f in
  NoDup (rm_simplex r)
  /\ forall x, In x (rm_simplex r) <->
       if six then exists row, In row (read_conns (ef_blocks f)) /\ In x (firstn 3 row) else x < ef_nnodes f.
Proof.
  cbv zeta. unfold read_exodus. cbn [rm_simplex]. destruct six.
  - unfold vertex_ids. split; [apply NoDup_nodup |]. intros x. rewrite nodup_In, in_flat_map. reflexivity.
  - split; [apply seq_NoDup |]. intros x. rewrite in_seq. lia.
Qed.

(* ---- with EQUAL final names the dict assignment overwrites and members are lost: a 3-node file with two blocks, the
        first one named like the auto-generated name of the second ("block_2"), the second unnamed *)
Definition clash_file : exo_file := mkExo 4 [[[1; 2; 3]]; [[1; 3; 4]]] [7%Z; 0%Z] [] [] [] [].
Definition clash_auto (i : nat) : Z := (6 + Z.of_nat i)%Z.
Lemma read_exodus_name_clash_refuted :
  exo_wf false clash_file /\ (forall i, clash_auto i <> 0%Z)
  /\ let r := read_exodus false clash_auto clash_auto clash_auto clash_file in
     length (rm_conns r) = 2 /\ rm_blocks r = [(7%Z, [1])] /\ ~ In 0 (concat (map snd (rm_blocks r))).
Proof.
  split; [| split].
  - constructor; cbn; repeat constructor; cbn; lia.
  - intros i. unfold clash_auto. lia.
  - cbv zeta. split; [reflexivity |]. split; [reflexivity |]. cbn. intros [H | []]. discriminate.
Qed.

(* ---- JSON reader: a side set stored as [elements, sides] becomes the list of pairs; nothing is lost when the two lists have
        equal length (np.column_stack raises otherwise) *)
Lemma read_json_sidesets_spec ss :
  map fst (read_json_sidesets ss) = map fst ss
  /\ forall k es sd, In (k, (es, sd)) ss -> length es = length sd ->
       In (k, combine es sd) (read_json_sidesets ss) /\ length (combine es sd) = length es
       /\ map fst (combine es sd) = es /\ map snd (combine es sd) = sd.
Proof.
  split; [unfold read_json_sidesets; rewrite map_map; reflexivity |].
  intros k es sd Hin Hl. split; [| split; [| split]].
  - unfold read_json_sidesets. apply in_map_iff. exists (k, (es, sd)). split; [reflexivity | exact Hin].
  - rewrite combine_length. lia.
  - now apply map_fst_combine_eq.
  - now apply map_snd_combine_eq.
Qed.

(* non-vacuity: a well-formed two-block 6-node file with distinct names *)
Definition sample_file : exo_file :=
  mkExo 9 [[[1; 2; 3; 4; 5; 6]]; [[2; 7; 3; 8; 9; 5]]] [0%Z; 0%Z] [[1; 2]; [7]] [3%Z; 0%Z] [([1; 2], [1; 3])] [0%Z].
Lemma read_exodus_nonvacuous :
  exo_wf true sample_file /\ NoDup (final_names clash_auto 0 (ef_bnames sample_file))
  /\ NoDup (final_names clash_auto 0 (ef_nsnames sample_file)) /\ NoDup (final_names clash_auto 0 (ef_ssnames sample_file))
  /\ rm_conns (read_exodus true clash_auto clash_auto clash_auto sample_file) = [[0; 3; 1; 5; 4; 2]; [1; 7; 6; 4; 8; 2]].
Proof.
  split; [constructor; cbn; repeat constructor; cbn; lia |].
  split; [cbn; repeat constructor; cbn; intuition discriminate |].
  split; [cbn; repeat constructor; cbn; intuition discriminate |].
  split; [cbn; repeat constructor; cbn; intuition discriminate | reflexivity].
Qed.
