(* C10: the output of the JVP helper does not depend on WHICH eigen-decomposition the eigen-solver returns.
   For a repeated eigenvalue the eigenvectors are only determined up to a rotation of the eigenspace (and the order of the eigenvalues is
   a convention): for any two pairs (l1, V1), (l2, V2) satisfying the eigh contract for the same A and ANY two-argument function g,
       V2 (g(l2) o (V2^T S V2)) V2^T = V1 (g(l1) o (V1^T S V1)) V1^T          (o = entrywise product, g(l)_ab = g (l a) (l b)),
   hence the helper (g = guarded divided difference) and the primal V diag(f(lam)) V^T (g x y = f x, S = I) are functions of A alone. *)
From Coq Require Import Reals Lra Lia Bool Arith List.
From Coquelicot Require Import Coquelicot.
From OV.base Require Import Num.
From OV.model Require Import M_C10.
From OV.proofs Require Import L_C10 L_C10_DK L_C10_DKV.
Local Open Scope R_scope.

Lemma orth_tr V : orth V -> orth (tr V).
Proof. intros [H1 H2]. split; intros i j Hi Hj; [exact (H2 i j Hi Hj)|exact (H1 i j Hi Hj)]. Qed.

Lemma orth_mm A B : orth A -> orth B -> orth (mm A B).
Proof.
  intros [A1 A2] [B1 B2]. split; intros i j Hi Hj.
  - transitivity (mm (tr B) (mm (mm (tr A) A) B) i j); [unfold mm, s3, tr; ring|].
    rewrite <- (B1 i j Hi Hj). apply mm_ext3; [reflexivity|]. intros k Hk.
    rewrite (mm_ext3 (mm (tr A) A) I3 B B k j); [apply mm_I3_l; exact Hk| |reflexivity]. intros l Hl. apply A1; assumption.
  - transitivity (mm A (mm (mm B (tr B)) (tr A)) i j); [unfold mm, s3, tr; ring|].
    rewrite <- (A2 i j Hi Hj). apply mm_ext3; [reflexivity|]. intros k Hk.
    rewrite (mm_ext3 (mm B (tr B)) I3 (tr A) (tr A) k j); [apply mm_I3_l; exact Hk| |reflexivity]. intros l Hl. apply B2; assumption.
Qed.

(* columns of V are eigenvectors: A V = V diag(lam) *)
Lemma eigvec V lam A : orth V -> eq3 A (cj V (Dg lam)) -> forall a l, (a < 3)%nat -> (l < 3)%nat -> mm A V a l = V a l * lam l.
Proof.
  intros [HO _] HA a l Ha Hl.
  transitivity (mm (cj V (Dg lam)) V a l).
  { apply mm_ext3; [intros k Hk; apply HA; assumption|reflexivity]. }
  transitivity (s3 (fun c => V a c * lam c * mm (tr V) V c l)).
  { unfold cj, mm, s3, tr, Dg; cbn [Nat.eqb]. ring. }
  unfold s3. rewrite (HO 0%nat l), (HO 1%nat l), (HO 2%nat l) by lia.
  destruct l as [|[|[|l]]]; try lia; unfold I3; cbn [Nat.eqb]; ring.
Qed.

Lemma cj_diag_sym V lam a b : cj V (Dg lam) a b = cj V (Dg lam) b a.
Proof. unfold cj, mm, s3, tr, Dg; cbn [Nat.eqb]. ring. Qed.

(* Q = V1^T V2 intertwines the two eigenvalue lists: Q diag(l2) = diag(l1) Q *)
Lemma intertwine V1 l1 V2 l2 A : orth V1 -> orth V2 -> eq3 A (cj V1 (Dg l1)) -> eq3 A (cj V2 (Dg l2)) ->
  forall k l, (k < 3)%nat -> (l < 3)%nat -> mm (tr V1) V2 k l * l2 l = l1 k * mm (tr V1) V2 k l.
Proof.
  intros O1 O2 A1 A2 k l Hk Hl.
  pose proof (eigvec V2 l2 A O2 A2) as E2. pose proof (eigvec V1 l1 A O1 A1) as E1.
  assert (SY : forall a b, (a < 3)%nat -> (b < 3)%nat -> A a b = A b a).
  { intros a b Ha Hb. rewrite (A1 a b Ha Hb), (A1 b a Hb Ha). apply cj_diag_sym. }
  transitivity (s3 (fun a => V1 a k * mm A V2 a l)).
  { unfold s3. rewrite (E2 0%nat l), (E2 1%nat l), (E2 2%nat l) by lia. unfold mm, s3, tr. ring. }
  transitivity (s3 (fun b => mm A V1 b k * V2 b l)).
  { unfold mm, s3. rewrite (SY 0%nat 1%nat), (SY 0%nat 2%nat), (SY 1%nat 2%nat) by lia. ring. }
  unfold s3. rewrite (E1 0%nat k), (E1 1%nat k), (E1 2%nat k) by lia. unfold mm, s3, tr. ring.
Qed.

(* zero pattern: an entry of Q is zero unless the two eigenvalues it links are equal *)
Lemma zero_pattern (g : R -> R -> R) V1 l1 V2 l2 A : orth V1 -> orth V2 -> eq3 A (cj V1 (Dg l1)) -> eq3 A (cj V2 (Dg l2)) ->
  forall k l a b, (k < 3)%nat -> (l < 3)%nat -> (a < 3)%nat -> (b < 3)%nat ->
  mm (tr V1) V2 k a * mm (tr V1) V2 l b * (g (l2 a) (l2 b) - g (l1 k) (l1 l)) = 0.
Proof.
  intros O1 O2 A1 A2 k l a b Hk Hl Ha Hb.
  pose proof (intertwine V1 l1 V2 l2 A O1 O2 A1 A2) as IT.
  destruct (Req_dec (mm (tr V1) V2 k a) 0) as [->|N1]; [ring|].
  destruct (Req_dec (mm (tr V1) V2 l b) 0) as [->|N2]; [ring|].
  assert (E1 : l2 a = l1 k).
  { pose proof (IT k a Hk Ha) as H. apply Rminus_diag_uniq.
    apply (Rmult_eq_reg_l (mm (tr V1) V2 k a)); [|exact N1]. rewrite Rmult_0_r. lra. }
  assert (E2 : l2 b = l1 l).
  { pose proof (IT l b Hl Hb) as H. apply Rminus_diag_uniq.
    apply (Rmult_eq_reg_l (mm (tr V1) V2 l b)); [|exact N2]. rewrite Rmult_0_r. lra. }
  rewrite E1, E2. ring.
Qed.

Lemma cj_extV V V' M i j : (i < 3)%nat -> (j < 3)%nat -> eq3 V V' -> cj V M i j = cj V' M i j.
Proof.
  intros Hi Hj H. unfold cj. apply mm_ext3; [intros k Hk; apply H; assumption|].
  intros k Hk. apply mm_ext3; [reflexivity|]. intros l Hl. unfold tr. apply H; assumption.
Qed.

Lemma cjtr_extV V V' S a b : (a < 3)%nat -> (b < 3)%nat -> eq3 V V' -> cj (tr V) S a b = cj (tr V') S a b.
Proof.
  intros Ha Hb H. unfold cj. apply mm_ext3; [intros k Hk; unfold tr; apply H; assumption|].
  intros k Hk. apply mm_ext3; [reflexivity|]. intros l Hl. unfold tr. apply H; assumption.
Qed.

Lemma spectral_hadamard_invariant (g : R -> R -> R) V1 l1 V2 l2 A (S : Rm) :
  orth V1 -> orth V2 -> eq3 A (cj V1 (Dg l1)) -> eq3 A (cj V2 (Dg l2)) ->
  eq3 (cj V2 (fun a b => g (l2 a) (l2 b) * cj (tr V2) S a b)) (cj V1 (fun k l => g (l1 k) (l1 l) * cj (tr V1) S k l)).
Proof.
  intros O1 O2 A1 A2 i j Hi Hj.
  set (Q := mm (tr V1) V2).
  assert (OQ : orth Q) by (apply orth_mm; [apply orth_tr; exact O1|exact O2]).
  assert (HV2 : eq3 V2 (mm V1 Q)).
  { intros a b Ha Hb. unfold Q. rewrite <- mm_assoc. destruct O1 as [_ O1].
    rewrite (mm_ext3 (mm V1 (tr V1)) I3 V2 V2 a b); [symmetry; apply mm_I3_l; exact Ha| |reflexivity]. intros k Hk. apply O1; assumption. }
  set (W1 := cj (tr V1) S).
  assert (HW2 : eq3 (cj (tr V2) S) (cj (tr Q) W1)).
  { intros a b Ha Hb. rewrite (cjtr_extV V2 (mm V1 Q) S a b Ha Hb HV2). unfold W1, cj, mm, s3, tr. ring. }
  (* the conjugated Hadamard product, entry by entry *)
  assert (HM : eq3 (cj Q (fun a b => g (l2 a) (l2 b) * cj (tr V2) S a b)) (fun k l => g (l1 k) (l1 l) * W1 k l)).
  { intros k l Hk Hl.
    transitivity (cj Q (fun a b => g (l2 a) (l2 b) * cj (tr Q) W1 a b) k l).
    { apply cj_ext3. intros a b Ha Hb. rewrite (HW2 a b Ha Hb). reflexivity. }
    rewrite <- (cj_cj_tr Q W1 OQ k l Hk Hl). set (W2 := cj (tr Q) W1).
    apply Rminus_diag_uniq.
    transitivity (s3 (fun a => s3 (fun b => W2 a b * (Q k a * Q l b * (g (l2 a) (l2 b) - g (l1 k) (l1 l)))))).
    { unfold cj, mm, s3, tr. ring. }
    pose proof (zero_pattern g V1 l1 V2 l2 A O1 O2 A1 A2 k l) as Z. fold Q in Z.
    unfold s3. rewrite !Z by lia. ring. }
  rewrite (cj_extV V2 (mm V1 Q) _ i j Hi Hj HV2).
  transitivity (cj V1 (cj Q (fun a b => g (l2 a) (l2 b) * cj (tr V2) S a b)) i j); [unfold cj, mm, s3, tr; ring|].
  apply cj_ext3. exact HM.
Qed.

(* the primal V diag(f(lam)) V^T is a function of A alone *)
Lemma primal_invariant (f : R -> R) V1 l1 V2 l2 A :
  orth V1 -> orth V2 -> eq3 A (cj V1 (Dg l1)) -> eq3 A (cj V2 (Dg l2)) ->
  eq3 (cj V2 (Dg (fun a => f (l2 a)))) (cj V1 (Dg (fun a => f (l1 a)))).
Proof.
  intros O1 O2 A1 A2 i j Hi Hj.
  assert (D : forall V l, orth V -> eq3 (fun a b => f (l a) * cj (tr V) I3 a b) (Dg (fun a => f (l a)))).
  { intros V l O a b Ha Hb. rewrite (cj_I3 (tr V) (orth_tr V O) a b Ha Hb).
    destruct a as [|[|[|a]]]; try lia; destruct b as [|[|[|b]]]; try lia; unfold I3, Dg; cbn [Nat.eqb]; ring. }
  rewrite <- (cj_ext3 V2 _ _ i j (D V2 l2 O2)), <- (cj_ext3 V1 _ _ i j (D V1 l1 O1)).
  apply (spectral_hadamard_invariant (fun (x y : R) => f x) V1 l1 V2 l2 A I3); assumption.
Qed.

(* the guarded divided difference as a two-argument function *)
Definition DDf (f df : R -> R) (x y : R) : R := if Req_EM_T x y then df x else (f x - f y) / (x - y).
Lemma DDf_diag f df x : DDf f df x x = df x.
Proof. unfold DDf. destruct (Req_EM_T x x); [reflexivity|contradiction]. Qed.
Lemma DDf_sym f df x y : DDf f df x y = DDf f df y x.
Proof.
  unfold DDf. destruct (Req_EM_T x y) as [E|H]; destruct (Req_EM_T y x) as [E'|H'].
  - rewrite E. reflexivity.
  - exfalso. apply H'. symmetry. exact E.
  - exfalso. apply H. symmetry. exact E'.
  - field. split; intro Z; apply H; lra.
Qed.

(* the helper in spectral form, for any (df, rel) with rel the divided difference of f off the diagonal *)
Lemma helper_spectral (f df : R -> R) rel lam (V E : Rm) i j : (i < 3)%nat -> (j < 3)%nat ->
  (forall a b, a <> b -> rel a b = (f a - f b) / (a - b)) ->
  @jvp_helper R NumR df rel lam V E i j = cj V (fun k l => DDf f df (lam k) (lam l) * cj (tr V) (symd E) k l) i j.
Proof.
  intros Hi Hj Hrel. rewrite helper_conj. apply cj_ext3. intros k l Hk Hl. f_equal.
  apply (h_matrix_gen df rel lam (DDf f df)); try assumption.
  - intros x y. apply rd_guard_divided_difference. exact Hrel.
  - apply DDf_diag.
  - apply DDf_sym.
Qed.

(* the helper's output is independent of the eigen-decomposition used *)
Lemma helper_eigh_invariant (f df : R -> R) rel V1 l1 V2 l2 (A E : Rm) :
  (forall a b, a <> b -> rel a b = (f a - f b) / (a - b)) ->
  orth V1 -> orth V2 -> eq3 A (cj V1 (Dg l1)) -> eq3 A (cj V2 (Dg l2)) ->
  eq3 (@jvp_helper R NumR df rel l2 V2 E) (@jvp_helper R NumR df rel l1 V1 E).
Proof.
  intros Hrel O1 O2 A1 A2 i j Hi Hj.
  rewrite (helper_spectral f df rel l2 V2 E i j Hi Hj Hrel), (helper_spectral f df rel l1 V1 E i j Hi Hj Hrel).
  apply (spectral_hadamard_invariant (DDf f df) V1 l1 V2 l2 A (symd E)); assumption.
Qed.

(* non-vacuity: two genuinely different eigen-decompositions of the same matrix with a double eigenvalue: A = diag(2, 2, 5) with V = I and
   with V = the rotation Vrot of the (0,1) eigenplane *)
Lemma inv_nonvacuous :
  let l := fun k : nat => match k with 2%nat => 5 | _ => 2 end in
  orth I3 /\ orth Vrot /\ eq3 (Dg l) (cj I3 (Dg l)) /\ eq3 (Dg l) (cj Vrot (Dg l)) /\ Vrot 0%nat 1%nat <> I3 0%nat 1%nat.
Proof.
  intros l. split; [|split; [exact orth_Vrot|split; [|split]]].
  - split; intros i j Hi Hj; destruct i as [|[|[|i]]]; try lia; destruct j as [|[|[|j]]]; try lia; unfold mm, s3, tr, I3; cbn [Nat.eqb]; ring.
  - intros i j Hi Hj. destruct i as [|[|[|i]]]; try lia; destruct j as [|[|[|j]]]; try lia; unfold cj, mm, s3, tr, I3, Dg, l; cbn [Nat.eqb]; ring.
  - intros i j Hi Hj. destruct i as [|[|[|i]]]; try lia; destruct j as [|[|[|j]]]; try lia; unfold cj, mm, s3, tr, Vrot, Dg, l; cbn [Nat.eqb]; field.
  - unfold Vrot, I3; cbn [Nat.eqb]. lra.
Qed.
