(* C15: purity of predict / correct in the store model (model/M_C15_Purity.v):
   - a function whose static check `safe` succeeds (it is handed out wrapped in jit, OR its body never augments-assigns a name
     that may still denote a caller's object) leaves every object that existed before the call bit-for-bit unchanged, for every
     value oracle, every writability of the arguments and of fresh objects, every heap and argument list;
   - with immutable (jax) caller objects every function is pure, wrapped or not;
   - the static check is not vacuous / the jit wrapper is load-bearing: predict as written, handed out WITHOUT jit and called
     on writable (numpy) arrays, overwrites the caller's U and V (refutation witness);
   - the tables regenerated from Mechanics.py pass the static check (by computation). *)
From Coq Require Import String List Bool Arith Lia.
From OV.model Require Import M_C15_Purity.
From OV.gen Require Import CFG_c15.
Import ListNotations.

Lemma nth_upd_other {A} (h : list A) : forall n k a d, n <> k -> nth k (upd h n a) d = nth k h d.
Proof.
  induction h as [|x t IH]; intros [|n] [|k] a d H; cbn [upd nth]; try reflexivity; try congruence.
  apply IH. congruence.
Qed.
Lemma length_upd {A} (h : list A) : forall n a, length (upd h n a) = length h.
Proof. induction h as [|x t IH]; intros [|n] a; cbn [upd length]; try reflexivity. rewrite IH. reflexivity. Qed.
Lemma mem_remove_other x y l : String.eqb y x = false -> mem y (remove_name x l) = mem y l.
Proof.
  intros H. induction l as [|z r IH]; [reflexivity|]. cbn [remove_name mem].
  destruct (String.eqb x z) eqn:E.
  - apply String.eqb_eq in E. subst z. rewrite H. cbn [orb]. exact IH.
  - cbn [mem]. rewrite IH. reflexivity.
Qed.
Lemma safe_body_nil body : safe_body [] body = true.
Proof. induction body as [|[x [y|rd]|x rd] r IH]; cbn [safe_body mem remove_name]; try exact IH. reflexivity. Qed.
Lemma lookup_combine_ge (ps : list string) : forall (n m : nat) x l, lookup (combine ps (seq n m)) x = Some l -> n <= l.
Proof.
  induction ps as [|p ps IH]; intros n [|m] x l H; cbn [combine seq lookup] in H; try discriminate.
  destruct (String.eqb x p); [injection H as <-; lia|]. apply IH in H. lia.
Qed.
Lemma lookup_combine_mem (ps : list string) : forall (args : list nat) x l, lookup (combine ps args) x = Some l -> mem x ps = true.
Proof.
  induction ps as [|p ps IH]; intros [|a args] x l H; cbn [combine lookup] in H; try discriminate.
  cbn [mem]. destruct (String.eqb x p); [reflexivity|]. cbn [orb]. exact (IH _ _ _ H).
Qed.

Section Purity.
  Variable V : Type.
  Variable dv : V.
  Variable ev : nat -> list V -> V.
  Variable fm : nat -> bool.
  Notation exec1 := (exec1 V dv ev fm).
  Notation exec := (exec V dv ev fm).
  Notation call := (call V dv ev fm).
  Notation dobj := (dobj V dv).

  Lemma nth_app_below (h t : heap V) l : l < length h -> nth l (h ++ t) dobj = nth l h dobj.
  Proof. intros H. apply app_nth1. exact H. Qed.

  (* objects below `base` are the caller's.  Invariant: they are unchanged, and a name that still denotes one of them is tainted *)
  Definition inv (base : nat) (h0 : heap V) (tainted : list string) (eh : list (string * nat) * heap V) : Prop :=
    base <= length (snd eh) /\
    (forall l, l < base -> nth l (snd eh) dobj = nth l h0 dobj) /\
    (forall x l, lookup (fst eh) x = Some l -> l < base -> mem x tainted = true).

  Lemma exec_inv base h0 : forall body k tainted eh,
    inv base h0 tainted eh -> safe_body tainted body = true ->
    base <= length (snd (exec k body eh)) /\ forall l, l < base -> nth l (snd (exec k body eh)) dobj = nth l h0 dobj.
  Proof.
    induction body as [|s r IH]; intros k tainted [env h] (Hlen & Hsame & Htaint) Hsafe; cbn [exec].
    - split; assumption.
    - cbn [fst snd] in *.
      assert (Hfresh : forall o l, l < base -> nth l (h ++ [o]) dobj = nth l h0 dobj).
      { intros o l Hl. rewrite nth_app_below by lia. apply Hsame. exact Hl. }
      destruct s as [x [y|rd]|x rd]; cbn [safe_body] in Hsafe; cbn [exec1].
      + (* x = y *)
        destruct (lookup env y) as [ly|] eqn:Ey.
        * apply (IH (S k) _ _) with (2 := Hsafe). split; [exact Hlen|]. split; [exact Hsame|]. cbn [fst snd].
          intros z l Hz Hl. cbn [lookup] in Hz. destruct (String.eqb z x) eqn:Ezx.
          -- injection Hz as <-. pose proof (Htaint y ly Ey Hl) as Ty. rewrite Ty. apply String.eqb_eq in Ezx. subst z.
             cbn [mem]. rewrite String.eqb_refl. reflexivity.
          -- pose proof (Htaint z l Hz Hl) as Tz. destruct (mem y tainted).
             ++ cbn [mem]. rewrite Tz. apply orb_true_r.
             ++ rewrite mem_remove_other by exact Ezx. exact Tz.
        * apply (IH (S k) _ _) with (2 := Hsafe). split; [cbn [snd]; rewrite app_length; lia|]. split; [cbn [snd]; apply Hfresh|]. cbn [fst snd].
          intros z l Hz Hl. cbn [lookup] in Hz. destruct (String.eqb z x) eqn:Ezx.
          -- injection Hz as <-. lia.
          -- pose proof (Htaint z l Hz Hl) as Tz. destruct (mem y tainted).
             ++ cbn [mem]. rewrite Tz. apply orb_true_r.
             ++ rewrite mem_remove_other by exact Ezx. exact Tz.
      + (* x = expression *)
        apply (IH (S k) _ _) with (2 := Hsafe). split; [cbn [snd]; rewrite app_length; lia|]. split; [cbn [snd]; apply Hfresh|]. cbn [fst snd].
        intros z l Hz Hl. cbn [lookup] in Hz. destruct (String.eqb z x) eqn:Ezx.
        * injection Hz as <-. lia.
        * rewrite mem_remove_other by exact Ezx. exact (Htaint z l Hz Hl).
      + (* x += expression *)
        destruct (mem x tainted) eqn:Tx; [discriminate|].
        destruct (lookup env x) as [lx|] eqn:Ex.
        * assert (Hge : base <= lx).
          { destruct (Nat.lt_ge_cases lx base) as [Hlt|Hge]; [|exact Hge]. rewrite (Htaint x lx Ex Hlt) in Tx. discriminate. }
          destruct (snd (nth lx h dobj)).
          -- apply (IH (S k) _ _) with (2 := Hsafe). split; [cbn [snd]; rewrite length_upd; exact Hlen|]. split.
             ++ cbn [snd]. intros l Hl. rewrite nth_upd_other by lia. apply Hsame. exact Hl.
             ++ exact Htaint.
          -- apply (IH (S k) _ _) with (2 := Hsafe). split; [cbn [snd]; rewrite app_length; lia|]. split; [cbn [snd]; apply Hfresh|]. cbn [fst snd].
             intros z l Hz Hl. cbn [lookup] in Hz. destruct (String.eqb z x) eqn:Ezx.
             ** injection Hz as <-. lia.
             ** exact (Htaint z l Hz Hl).
        * apply (IH (S k) _ _) with (2 := Hsafe). split; [exact Hlen|]. split; [exact Hsame|exact Htaint].
  Qed.

  (* PURITY: a safe function leaves every object that existed before the call unchanged *)
  Theorem safe_pure wrapped f (h : heap V) (args : list nat) : safe wrapped f = true ->
    forall l, l < length h -> nth l (fst (call wrapped f h args)) dobj = nth l h dobj.
  Proof.
    intros Hs l Hl. unfold call. destruct wrapped; cbv iota beta.
    - destruct (exec 0 (f_body f) _) as [env1 h1] eqn:E. cbn [fst]. apply (f_equal snd) in E. cbn [snd] in E. rewrite <- E.
      refine (proj2 (exec_inv (length h) h (f_body f) 0 [] _ _ (safe_body_nil _)) l Hl).
      split; [cbn [snd]; rewrite app_length; lia|]. split.
      + cbn [snd]. intros l' Hl'. apply nth_app_below. exact Hl'.
      + cbn [fst]. intros x l' Hx Hl'. apply lookup_combine_ge in Hx. lia.
    - destruct (exec 0 (f_body f) _) as [env1 h1] eqn:E. cbn [fst]. apply (f_equal snd) in E. cbn [snd] in E. rewrite <- E.
      refine (proj2 (exec_inv (length h) h (f_body f) 0 (f_params f) _ _ Hs) l Hl).
      split; [cbn [snd]; lia|]. split; [reflexivity|].
      cbn [fst]. intros x l' Hx _. exact (lookup_combine_mem _ _ _ _ Hx).
  Qed.

  (* immutable caller objects (jax arrays): every function is pure, checked or not, wrapped or not *)
  Lemma exec_immutable base h0 : forall body k eh,
    base <= length (snd eh) -> (forall l, l < base -> nth l (snd eh) dobj = nth l h0 dobj) -> (forall l, l < base -> snd (nth l h0 dobj) = false) ->
    base <= length (snd (exec k body eh)) /\ forall l, l < base -> nth l (snd (exec k body eh)) dobj = nth l h0 dobj.
  Proof.
    induction body as [|s r IH]; intros k [env h] Hlen Hsame Himm; cbn [exec]; [split; assumption|].
    cbn [snd] in *.
    assert (Hfresh : forall o l, l < base -> nth l (h ++ [o]) dobj = nth l h0 dobj).
    { intros o l Hl. rewrite nth_app_below by lia. apply Hsame. exact Hl. }
    destruct s as [x [y|rd]|x rd]; cbn [exec1].
    - destruct (lookup env y); apply IH; cbn [snd]; try assumption; [rewrite app_length; lia|apply Hfresh].
    - apply IH; cbn [snd]; [rewrite app_length; lia|apply Hfresh|exact Himm].
    - destruct (lookup env x) as [lx|]; [|apply IH; assumption].
      destruct (snd (nth lx h dobj)) eqn:Em.
      + assert (base <= lx).
        { destruct (Nat.lt_ge_cases lx base) as [Hlt|Hge]; [|exact Hge]. rewrite (Hsame lx Hlt), (Himm lx Hlt) in Em. discriminate. }
        apply IH; cbn [snd]; [rewrite length_upd; exact Hlen| |exact Himm].
        intros l Hl. rewrite nth_upd_other by lia. apply Hsame. exact Hl.
      + apply IH; cbn [snd]; [rewrite app_length; lia|apply Hfresh|exact Himm].
  Qed.
  Theorem immutable_pure wrapped f (h : heap V) (args : list nat) : (forall l, l < length h -> snd (nth l h dobj) = false) ->
    forall l, l < length h -> nth l (fst (call wrapped f h args)) dobj = nth l h dobj.
  Proof.
    intros Himm l Hl. unfold call. destruct wrapped; cbv iota beta.
    - destruct (exec 0 (f_body f) _) as [env1 h1] eqn:E. cbn [fst]. apply (f_equal snd) in E. cbn [snd] in E. rewrite <- E.
      refine (proj2 (exec_immutable (length h) h (f_body f) 0 _ _ _ Himm) l Hl); cbn [snd].
      + rewrite app_length; lia.
      + intros l' Hl'. apply nth_app_below. exact Hl'.
    - destruct (exec 0 (f_body f) _) as [env1 h1] eqn:E. cbn [fst]. apply (f_equal snd) in E. cbn [snd] in E. rewrite <- E.
      refine (proj2 (exec_immutable (length h) h (f_body f) 0 _ _ _ Himm) l Hl); cbn [snd]; [lia|reflexivity].
  Qed.
End Purity.

(* the functions of the real factory (tables regenerated from Mechanics.py): the static check succeeds -- by computation *)
Lemma c15_predict_safe : safe c15_predict_wrapped c15_predict = true.
Proof. vm_compute. reflexivity. Qed.
Lemma c15_correct_safe : safe c15_correct_wrapped c15_correct = true.
Proof. vm_compute. reflexivity. Qed.
Theorem predict_pure (V : Type) (dv : V) (ev : nat -> list V -> V) (fm : nat -> bool) (h : heap V) (args : list nat) :
  forall l, l < length h -> nth l (fst (call V dv ev fm c15_predict_wrapped c15_predict h args)) (dobj V dv) = nth l h (dobj V dv).
Proof. apply safe_pure. exact c15_predict_safe. Qed.
Theorem correct_pure (V : Type) (dv : V) (ev : nat -> list V -> V) (fm : nat -> bool) (h : heap V) (args : list nat) :
  forall l, l < length h -> nth l (fst (call V dv ev fm c15_correct_wrapped c15_correct h args)) (dobj V dv) = nth l h (dobj V dv).
Proof. apply safe_pure. exact c15_correct_safe. Qed.
(* the tables are not trivial: the bodies have statements and the functions return as many objects as the kernels have outputs *)
Lemma c15_tables_nontrivial :
  f_body c15_predict <> [] /\ f_body c15_correct <> [] /\ length (f_ret c15_predict) = 2 /\ length (f_ret c15_correct) = 2 /\
  length (f_params c15_predict) = 4 /\ length (f_params c15_correct) = 4.
Proof. vm_compute. repeat split; discriminate. Qed.

(* the wrapper matters: predict as written, NOT wrapped, on writable arrays: the caller's U and V are overwritten *)
Theorem unwrapped_predict_mutates_refuted :
  safe false predict_as_written = false /\
  exists (ev : nat -> list nat -> nat) (h : heap nat) (args : list nat),
    nth 0 (fst (call nat 0 ev (fun _ => true) false predict_as_written h args)) (dobj nat 0) <> nth 0 h (dobj nat 0) /\
    nth 1 (fst (call nat 0 ev (fun _ => true) false predict_as_written h args)) (dobj nat 0) <> nth 1 h (dobj nat 0) /\
    (* the same call through the jit wrapper, and the same call on immutable arrays, leave them alone *)
    (forall l, l < 4 -> nth l (fst (call nat 0 ev (fun _ => true) true predict_as_written h args)) (dobj nat 0) = nth l h (dobj nat 0)) /\
    (forall l, l < 4 -> nth l (fst (call nat 0 ev (fun _ => true) false predict_as_written (map (fun o => (fst o, false)) h) args)) (dobj nat 0)
                        = nth l (map (fun o => (fst o, false)) h) (dobj nat 0)).
Proof.
  split; [reflexivity|].
  exists (fun _ vs => S (fold_right plus 0 vs)), [(10, true); (20, true); (30, true); (1, false)], [0; 1; 2; 3].
  split; [vm_compute; discriminate|]. split; [vm_compute; discriminate|]. split.
  - intros l Hl. apply safe_pure; [reflexivity|exact Hl].
  - intros l Hl. apply immutable_pure; [|exact Hl].
    intros [|[|[|[|k]]]] Hk; try reflexivity. cbn [length map] in Hk. lia.
Qed.
