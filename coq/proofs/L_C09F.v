(* C09, finite-deformation kinematics (model/M_C09F.v: regenerated logarithmic trial strain, regenerated multiplicative tail
   FpNew = exp_symm(Delta Ep) @ FpOld): (A) what a step returns; (B) ISOCHORIC plastic flow along ANY history, for the spectral
   exponential over any eigen-solver that meets its contract on symmetric matrices -- and, with the solver of proofs/L_C11e.v (the
   spectral theorem), with no premise on the matrix functions at all; eqps never decreases. *)
From Coq Require Import Reals Lra Lia ZArith QArith Bool List Psatz.
From Coquelicot Require Import Coquelicot.
From OV.base Require Import Num.
From OV.gen Require Import Gen_ScalarRootFind Gen_Hardening Gen_TensorMath Gen_J2Flow Gen_J2Elastic Gen_J2Finite.
From OV.gen Require Import Gen_HyperViscoelastic Gen_MultiBranchHyperViscoelastic Gen_ViscoState.
From OV.model Require Import M_C17 M_C09 M_C09T M_C08 M_C11 M_C11s M_C09F.
From OV.proofs Require Import L_C17 L_C09 L_C09r L_C09T L_C08 L_C11a L_C11 L_C11s L_C11t L_C11e L_C11u.
Import ListNotations.
Local Open Scope R_scope.

Ltac d9 a := destruct a as [[[[[[[[? ?] ?] ?] ?] ?] ?] ?] ?].

(* ---------- flat 3x3 tuples <-> the matrix records of model/M_C08.v ---------- *)
Lemma to9_of9 (x : @m9 R) : to9 (of9 x) = x.
Proof. d9 x. reflexivity. Qed.
Lemma of9_to9 (A : M) : of9 (to9 A) = A.
Proof. dm A. reflexivity. Qed.
Lemma of9_inj (x y : @m9 R) : of9 x = of9 y -> x = y.
Proof. intros E. rewrite <- (to9_of9 x), <- (to9_of9 y), E. reflexivity. Qed.
Lemma det9_M (x : @m9 R) : det9 x = mdet (of9 x).
Proof. d9 x. unfold det9, t_det, mdet, of9. cbn [m00 m01 m02 m10 m11 m12 m20 m21 m22]. unfold_num. ring. Qed.
Lemma tr9_M (x : @m9 R) : tr9 x = mtrace (of9 x).
Proof. d9 x. reflexivity. Qed.
Lemma mul9_M (x y : @m9 R) : of9 (mul9 x y) = mmul (of9 x) (of9 y).
Proof. d9 x. d9 y. reflexivity. Qed.
Lemma smul9_M (k : R) (x : @m9 R) : of9 (smul9 k x) = mscal k (of9 x).
Proof. d9 x. reflexivity. Qed.
Lemma sub9_M (x y : @m9 R) : of9 (sub9 x y) = msub (of9 x) (of9 y).
Proof. d9 x. d9 y. reflexivity. Qed.
Lemma add9_M (x y : @m9 R) : of9 (add9 x y) = madd (of9 x) (of9 y).
Proof. d9 x. d9 y. reflexivity. Qed.
Lemma ddot_M (x y : @m9 R) : ddot x y = mddot (of9 x) (of9 y).
Proof. d9 x. d9 y. reflexivity. Qed.
Lemma dev9_M (x : @m9 R) : of9 (dev9 x) = mdev (of9 x).
Proof. d9 x. unfold dev9, dev, deviator, t_trace, mdev, of9, msub, map2, mscal, mid, mtrace. cbn [m00 m01 m02 m10 m11 m12 m20 m21 m22]. unfold_num. q2r. f_equal; field. Qed.

Definition app9 (f : @fn9 R) (a : @m9 R) : @m9 R := let '(a0, a1, a2, a3, a4, a5, a6, a7, a8) := a in f a0 a1 a2 a3 a4 a5 a6 a7 a8.
Lemma app9_lift1 (g : M -> M) (a : @m9 R) : app9 (lift1 g) a = to9 (g (of9 a)).
Proof. d9 a. reflexivity. Qed.

Definition sym9 (a : @m9 R) : Prop := msym (of9 a).

(* ---------- (A) what a step returns ---------- *)
Lemma tail_fin_R (expm : @fn9 R) (eo d : R) (Fp dEp : @m9 R) :
  @tail_fin R NumR expm (eo, Fp) (d, dEp) = (eo + d, mul9 (app9 expm dEp) Fp).
Proof.
  d9 Fp. d9 dEp. unfold tail_fin, j2_state_new_finite_tail, app9. cbv zeta.
  match goal with |- context [expm ?a0 ?a1 ?a2 ?a3 ?a4 ?a5 ?a6 ?a7 ?a8] => destruct (expm a0 a1 a2 a3 a4 a5 a6 a7 a8) as [[[[[[[[q0 q1] q2] q3] q4] q5] q6] q7] q8] end.
  reflexivity.
Qed.

Lemma state_new_fin_spec (lss expm : @fn9 R) (l : @law R) (r : @rate R) mu dt H (st st' : @tstate R) :
  @state_new_fin R NumR lss expm l r mu dt H st = Some st' ->
  exists d, @delta_eqps R NumR l r mu (trial_mises mu (strain_log lss H st)) (fst st) dt = Some d /\
            st' = (fst st + d, mul9 (app9 expm (smul9 d (flowdir (strain_log lss H st)))) (snd st)).
Proof.
  unfold state_new_fin, state_increment.
  destruct (delta_eqps l r mu (trial_mises mu (strain_log lss H st)) (fst st) dt) as [d|]; [|discriminate].
  intros E. inversion E. exists d. split; [reflexivity|]. destruct st as [eo Fp]. cbn [fst snd]. apply tail_fin_R.
Qed.

(* ---------- (B) isochoric flow ---------- *)
(* symmetry is inherited: trial strain from a symmetric log_sqrt_symm value, flow direction from the trial strain *)
Lemma strain_log_sym (lss : @fn9 R) H st : (forall C, sym9 (app9 lss C)) -> sym9 (strain_log lss H st).
Proof.
  intros Hs. d9 H. destruct st as [eo Fp]. d9 Fp. unfold strain_log, compute_elastic_logarithmic_strain. cbv zeta.
  match goal with |- context [t_inv ?a0 ?a1 ?a2 ?a3 ?a4 ?a5 ?a6 ?a7 ?a8] => destruct (t_inv a0 a1 a2 a3 a4 a5 a6 a7 a8) as [[[[[[[[i0 i1] i2] i3] i4] i5] i6] i7] i8] end.
  match goal with |- context [lss ?a0 ?a1 ?a2 ?a3 ?a4 ?a5 ?a6 ?a7 ?a8] => pose proof (Hs (a0, a1, a2, a3, a4, a5, a6, a7, a8)) as Hq; unfold app9 in Hq;
    destruct (lss a0 a1 a2 a3 a4 a5 a6 a7 a8) as [[[[[[[[q0 q1] q2] q3] q4] q5] q6] q7] q8] end.
  unfold sym9, msym, of9, mtr in *. cbn [m00 m01 m02 m10 m11 m12 m20 m21 m22] in *. injection Hq as E1 E2 E3 E4 E5 E6.
  unfold dev, deviator, t_trace. unfold_num. q2r. subst. f_equal; ring.
Qed.
Lemma flowdir_sym (E : @m9 R) : sym9 E -> sym9 (flowdir E).
Proof.
  d9 E. unfold sym9, msym, of9, mtr. cbn [m00 m01 m02 m10 m11 m12 m20 m21 m22]. intros Hq. injection Hq as E1 E2 E3 E4 E5 E6.
  unfold flowdir, compute_flow_direction, dev, deviator, t_trace. unfold_num. q2r.
  match goal with |- context [Rltb ?a ?b] => destruct (Rltb a b) end; subst; f_equal; ring.
Qed.
Lemma smul9_sym k (E : @m9 R) : sym9 E -> sym9 (smul9 k E).
Proof. unfold sym9. rewrite smul9_M. apply mscal_sym. Qed.

Definition jacobi_on_symmetric (expm : @fn9 R) : Prop := forall A, sym9 A -> det9 (app9 expm A) = exp (tr9 A).

Theorem fin_step_invariants (lss expm : @fn9 R) (l : @law R) (r : @rate R) mu dt H (st st' : @tstate R) :
  (forall C, sym9 (app9 lss C)) -> jacobi_on_symmetric expm ->
  0 < mu -> law_admissible l (fst st) -> rate_admissible r -> 0 < dt ->
  @state_new_fin R NumR lss expm l r mu dt H st = Some st' -> fst st <= fst st' /\ det9 (snd st') = det9 (snd st).
Proof.
  intros Hs Hj Hmu Ha Hr Hdt E. destruct (state_new_fin_spec lss expm l r mu dt H st st' E) as (d & Hd & ->). cbn [fst snd].
  pose proof (delta_nonneg_laws l r mu _ _ dt d Hmu Ha Hr Hdt Hd). split; [lra|].
  rewrite det9_mul, Hj by (apply smul9_sym, flowdir_sym, strain_log_sym, Hs).
  rewrite tr9_smul9. destruct (flow_direction_props (strain_log lss H st)) as (-> & _). rewrite Rmult_0_r, exp_0. apply Rmult_1_l.
Qed.

Theorem fin_history_invariants (lss expm : @fn9 R) (l : @law R) (r : @rate R) mu :
  (forall C, sym9 (app9 lss C)) -> jacobi_on_symmetric expm -> 0 < mu -> rate_admissible r ->
  forall (steps : list (@m9 R * R)) (st : @tstate R) sts, law_admissible l (fst st) -> List.Forall (fun p => 0 < snd p) steps ->
  @history_fin R NumR lss expm l r mu steps st = Some sts ->
  forall k, (k < length sts)%nat ->
    fst (nth k (st :: sts) st) <= fst (nth (S k) (st :: sts) st) /\ det9 (snd (nth (S k) (st :: sts) st)) = det9 (snd st).
Proof.
  intros Hs Hj Hmu Hr. induction steps as [|[H dt] rest IH]; intros st sts Ha Hdts E k Hk; cbn [history_fin] in E.
  - inversion E; subst sts. inversion Hk.
  - destruct (state_new_fin lss expm l r mu dt H st) as [st'|] eqn:E1; [|discriminate].
    destruct (history_fin lss expm l r mu rest st') as [sts'|] eqn:E2; [|discriminate].
    inversion E; subst sts; clear E. inversion Hdts as [|p ps Hdt Hrest]; subst. cbn [snd] in Hdt.
    destruct (fin_step_invariants lss expm l r mu dt H st st' Hs Hj Hmu Ha Hr Hdt E1) as (Hm1 & Ht1).
    destruct k as [|k]; [cbn [nth]; split; assumption|].
    assert (Ha' : law_admissible l (fst st')) by (apply (admissible_later l (fst st)); assumption).
    cbn [length] in Hk. assert (Hk' : (k < length sts')%nat) by lia.
    destruct (IH st' sts' Ha' Hrest E2 k Hk') as (A & B).
    assert (Hn1 : nth (S k) (st :: st' :: sts') st = nth k (st' :: sts') st') by (change (nth (S k) (st :: st' :: sts') st) with (nth k (st' :: sts') st); apply nth_indep; cbn [length]; lia).
    assert (Hn2 : nth (S (S k)) (st :: st' :: sts') st = nth (S k) (st' :: sts') st') by (change (nth (S (S k)) (st :: st' :: sts') st) with (nth (S k) (st' :: sts') st); apply nth_indep; cbn [length]; lia).
    rewrite Hn1, Hn2. split; [exact A|]. rewrite B. exact Ht1.
Qed.

(* the spectral functions over eigen-solvers: log_sqrt_symm values are symmetric for ANY solver; Jacobi's formula on symmetric
   arguments follows from the contract of the solver used by exp_symm (L_C11s.expm_spec_det) *)
Lemma fin_lss_sym (eigh : M -> E3) C : sym9 (app9 (fin_lss eigh) C).
Proof. unfold fin_lss, sym9. rewrite app9_lift1, of9_to9. apply lss_spec_sym. Qed.
Lemma fin_expm_jacobi (eigh : M -> E3) : solver_ok eigh -> jacobi_on_symmetric (fin_expm eigh).
Proof.
  intros Hok A HA. unfold fin_expm. rewrite app9_lift1, det9_M, of9_to9, tr9_M. apply expm_spec_det, Hok, HA.
Qed.

Theorem fin_history_isochoric_spectral (eighL eighE : M -> E3) (l : @law R) (r : @rate R) mu :
  solver_ok eighE -> 0 < mu -> rate_admissible r ->
  forall (steps : list (@m9 R * R)) (st : @tstate R) sts, law_admissible l (fst st) -> List.Forall (fun p => 0 < snd p) steps ->
  @history_fin R NumR (fin_lss eighL) (fin_expm eighE) l r mu steps st = Some sts ->
  forall k, (k < length sts)%nat ->
    fst (nth k (st :: sts) st) <= fst (nth (S k) (st :: sts) st) /\ det9 (snd (nth (S k) (st :: sts) st)) = det9 (snd st).
Proof. intros HE. apply fin_history_invariants; [apply fin_lss_sym | apply fin_expm_jacobi, HE]. Qed.

(* with the solver constructed in L_C11e.v (spectral theorem) nothing is assumed; from the virgin state det Fp = 1 throughout *)
Lemma det9_id9 : det9 (@id9 R NumR) = 1.
Proof. unfold det9, id9, t_det. unfold_num. q2r. lra. Qed.
Theorem fin_history_isochoric_unconditional (l : @law R) (r : @rate R) mu : 0 < mu -> rate_admissible r ->
  forall (steps : list (@m9 R * R)) sts, law_admissible l 0 -> List.Forall (fun p => 0 < snd p) steps ->
  @history_fin R NumR (fin_lss eigh_sym) (fin_expm eigh_sym) l r mu steps virgin_fin = Some sts ->
  forall k, (k < length sts)%nat ->
    fst (nth k (virgin_fin :: sts) virgin_fin) <= fst (nth (S k) (virgin_fin :: sts) virgin_fin) /\
    det9 (snd (nth (S k) (virgin_fin :: sts) virgin_fin)) = 1.
Proof.
  intros Hmu Hr steps sts Ha Hp E k Hk.
  assert (Ha' : law_admissible l (fst (@virgin_fin R NumR))) by (cbn [fst virgin_fin]; unfold_num; q2r; exact Ha).
  destruct (fin_history_isochoric_spectral eigh_sym eigh_sym l r mu eigh_sym_solver_ok Hmu Hr steps virgin_fin sts Ha' Hp E k Hk) as (A & B).
  split; [exact A|]. rewrite B. apply det9_id9.
Qed.
