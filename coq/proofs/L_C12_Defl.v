(* C12 (round 4): the part of eigen_sym33_non_unit AFTER the trigonometric root -- pivoted deflation, 2x2 Wilkinson shift, eigenvectors --
   in exact arithmetic.  The four stage kernels eig_pivot / eig_gs / eig_wilkinson / eig_vectors are regenerated from the source segment
   between `eval2 = ...` and `evec1 = ...` on every run (cut at the assignments of ki_ki, evec2, eval1); eig_compose (model/M_C12_Defl.v)
   chains them as the routine's data flow does.
   (p1) pivot_shape: the pivot row k is the row of C = D - lam I of largest norm, (k, p, q) a permutation of the rows, ki = 1/|k|^2;
   (p2) gs_shape: a is the larger Gram-Schmidt residual of p, q against k, k.a = 0, evec2 = k x a, and when det C = 0 all rows of C are
        orthogonal to evec2; a = 0 only if C has rank <= 1;
   (p3) wilkinson_shape: rm2xx, rm2yy, rm2xy^2 are the entries of D restricted to span(k, a) in the orthonormal basis, and eval0, eval1
        are the two roots of its characteristic polynomial (sum and product), eval0 = rm2yy when the off-diagonal vanishes;
   (p4) vectors_shape: evec0 = fac1 a - fac2 k with the two null-vector relations and (fac1, fac2) <> 0 in every branch, evec1 = evec2 x evec0.
        Since /repo e63b801 the pair is the STORED pair (fac1, fac2) / facmax, facmax = where(max(|fac1|, |fac2|) > 0, max(..), 1) > 0, and the
        fallback test `both_zero` is made on that stored pair: the proof uses only 0 < facmax (a positive rescaling keeps both null-vector
        relations), shows that the fallback is unreachable when |rm2xx| < |rm2yy| and that in the other branch (0, 0) forces
        rm2xx = rm2yy = k_a_rm2xy = 0, where evec0 = a_row2 is a null vector;
   (p5) Plane: orthogonal-basis algebra (trace, second invariant via the adjugate, expansion of D k and D a);
   (t)  compose_exact: for a traceless symmetric D and a SIMPLE root lam of its characteristic polynomial x^3 + c2 x + c3, the values
        eval0, eval1 are the other two roots (Vieta, as a polynomial identity), evec2 / evec0 / evec1 are nonzero, mutually orthogonal
        eigenvectors for lam / eval0 / eval1.  The exact trigonometric root of L_C12_Trig (largest magnitude) is always simple. *)
From Coq Require Import Reals Lra Lia Nsatz Psatz Bool.
From OV.base Require Import Num.
From OV.gen Require Import Gen_Math Gen_TensorMath Gen_TensorMathFun Gen_TensorMathEig.
From OV.model Require Import M_C08 M_C12_Trig M_C12_Defl.
From OV.proofs Require Import L_C08 L_C12 L_C12_Trig.
Local Open Scope R_scope.


(* scalar consequences used component by component *)
Lemma eig_combo (ee kk aa Dk Da k a f1 f2 ev0 xx yy kDk kDa aDa : R) :
  ee = kk * aa -> ee * Dk = aa * kDk * k + kk * kDa * a -> ee * Da = aa * kDa * k + kk * aDa * a ->
  xx * kk = kDk -> yy * aa = aDa -> f1 * kDa = f2 * kk * (xx - ev0) -> f1 * aa * (yy - ev0) = f2 * kDa ->
  ee * (f1 * Da - f2 * Dk) = ee * (ev0 * (f1 * a - f2 * k)).
Proof. intros. nsatz. Qed.
Lemma eig_combo2 (ee kk aa Dk Da k a f1 f2 ev0 ev1 xx yy kDk kDa aDa : R) :
  ee = kk * aa -> ee * Dk = aa * kDk * k + kk * kDa * a -> ee * Da = aa * kDa * k + kk * aDa * a ->
  xx * kk = kDk -> yy * aa = aDa -> f1 * kDa = f2 * kk * (xx - ev0) -> f1 * aa * (yy - ev0) = f2 * kDa -> ev0 + ev1 = xx + yy ->
  ee * (- f1 * aa * Dk - f2 * kk * Da) = ee * (ev1 * (- f1 * aa * k - f2 * kk * a)).
Proof. intros. nsatz. Qed.

(* ---------- pure algebra: an orthogonal pair k, a spanning the plane orthogonal to an eigenvector e = k x a ---------- *)
Section Plane.
  Variables dxx dyy dzz dxy dyz dzx lam k0 k1 k2 a0 a1 a2 : R.
  Let e0 := k1 * a2 - k2 * a1.
  Let e1 := k2 * a0 - k0 * a2.
  Let e2 := k0 * a1 - k1 * a0.
  Let kk := k0 * k0 + k1 * k1 + k2 * k2.
  Let aa := a0 * a0 + a1 * a1 + a2 * a2.
  Let ka := k0 * a0 + k1 * a1 + k2 * a2.
  Let ee := e0 * e0 + e1 * e1 + e2 * e2.
  Let Dk0 := dxx * k0 + dxy * k1 + dzx * k2.
  Let Dk1 := dxy * k0 + dyy * k1 + dyz * k2.
  Let Dk2 := dzx * k0 + dyz * k1 + dzz * k2.
  Let Da0 := dxx * a0 + dxy * a1 + dzx * a2.
  Let Da1 := dxy * a0 + dyy * a1 + dyz * a2.
  Let Da2 := dzx * a0 + dyz * a1 + dzz * a2.
  Let De0 := dxx * e0 + dxy * e1 + dzx * e2.
  Let De1 := dxy * e0 + dyy * e1 + dyz * e2.
  Let De2 := dzx * e0 + dyz * e1 + dzz * e2.
  Let kDk := k0 * Dk0 + k1 * Dk1 + k2 * Dk2.
  Let kDa := k0 * Da0 + k1 * Da1 + k2 * Da2.
  Let aDa := a0 * Da0 + a1 * Da1 + a2 * Da2.
  Let E2 := dxx * dyy + dyy * dzz + dzz * dxx - dxy * dxy - dyz * dyz - dzx * dzx.
  Hypothesis Hka : ka = 0.
  Hypothesis Hkk : 0 < kk.
  Hypothesis Haa : 0 < aa.
  Hypothesis Htr : dxx + dyy + dzz = 0.
  Hypothesis He0 : De0 = lam * e0.
  Hypothesis He1 : De1 = lam * e1.
  Hypothesis He2 : De2 = lam * e2.

  Ltac unf := unfold ee, kDk, kDa, aDa, De0, De1, De2, Dk0, Dk1, Dk2, Da0, Da1, Da2, E2, kk, aa, ka, e0, e1, e2 in *.

  Lemma pl_ee : ee = kk * aa.
  Proof. assert (L : ee = kk * aa - ka * ka) by (unf; ring). rewrite L, Hka. ring. Qed.
  Lemma pl_ee_pos : 0 < ee. Proof. rewrite pl_ee. apply Rmult_lt_0_compat; assumption. Qed.

  (* trace in the orthogonal basis: xx + yy + lam = tr D = 0 *)
  Lemma pl_trace : kDk / kk + aDa / aa + lam = 0.
  Proof.
    assert (I1 : (dxx + dyy + dzz) * ee = (e0 * De0 + e1 * De1 + e2 * De2) + aa * kDk - 2 * ka * kDa + kk * aDa) by (unf; ring).
    rewrite He0, He1, He2, Htr, Hka in I1.
    assert (G : aa * kDk + kk * aDa + lam * (kk * aa) = 0).
    { rewrite <- pl_ee.
      assert (X : e0 * (lam * e0) + e1 * (lam * e1) + e2 * (lam * e2) = lam * ee) by (unfold ee; ring).
      rewrite X in I1. lra. }
    replace (kDk / kk + aDa / aa + lam) with ((aa * kDk + kk * aDa + lam * (kk * aa)) / (kk * aa)) by (field; lra).
    rewrite G. field. lra.
  Qed.
  (* second invariant in the orthogonal basis: xx yy - xy^2 = lam^2 + E2(D)  (adj(D) e = (lam^2 - tr D lam + E2) e) *)
  Lemma pl_minor : (kDk / kk) * (aDa / aa) - kDa * kDa / (aa * kk) = lam * lam + E2.
  Proof.
    assert (I2 : kDk * aDa - kDa * kDa
                 = (De0 * De0 + De1 * De1 + De2 * De2) - (dxx + dyy + dzz) * (e0 * De0 + e1 * De1 + e2 * De2) + E2 * ee) by (unf; ring).
    rewrite He0, He1, He2, Htr in I2.
    assert (G : kDk * aDa - kDa * kDa = (lam * lam + E2) * (kk * aa)).
    { rewrite <- pl_ee.
      assert (X : e0 * (lam * e0) + e1 * (lam * e1) + e2 * (lam * e2) = lam * ee) by (unfold ee; ring).
      assert (Y : lam * e0 * (lam * e0) + lam * e1 * (lam * e1) + lam * e2 * (lam * e2) = lam * lam * ee) by (unfold ee; ring).
      rewrite X, Y in I2. lra. }
    replace (kDk / kk * (aDa / aa) - kDa * kDa / (aa * kk)) with ((kDk * aDa - kDa * kDa) / (kk * aa)) by (field; lra).
    rewrite G. field. lra.
  Qed.

  (* D k and D a in the basis (k, a): the e-components vanish because D e = lam e and D is symmetric *)
  Lemma kDe0 : k0 * De0 + k1 * De1 + k2 * De2 = 0.
  Proof. rewrite He0, He1, He2. unfold e0, e1, e2. ring. Qed.
  Lemma aDe0 : a0 * De0 + a1 * De1 + a2 * De2 = 0.
  Proof. rewrite He0, He1, He2. unfold e0, e1, e2. ring. Qed.
  Lemma pl_Dk0 : ee * Dk0 = aa * kDk * k0 + kk * kDa * a0.
  Proof. assert (I : ee * Dk0 = (k0 * De0 + k1 * De1 + k2 * De2) * e0 + (aa * kDk - ka * kDa) * k0 + (kk * kDa - ka * kDk) * a0) by (unf; ring).
    rewrite kDe0, Hka in I. rewrite I. ring. Qed.
  Lemma pl_Dk1 : ee * Dk1 = aa * kDk * k1 + kk * kDa * a1.
  Proof. assert (I : ee * Dk1 = (k0 * De0 + k1 * De1 + k2 * De2) * e1 + (aa * kDk - ka * kDa) * k1 + (kk * kDa - ka * kDk) * a1) by (unf; ring).
    rewrite kDe0, Hka in I. rewrite I. ring. Qed.
  Lemma pl_Dk2 : ee * Dk2 = aa * kDk * k2 + kk * kDa * a2.
  Proof. assert (I : ee * Dk2 = (k0 * De0 + k1 * De1 + k2 * De2) * e2 + (aa * kDk - ka * kDa) * k2 + (kk * kDa - ka * kDk) * a2) by (unf; ring).
    rewrite kDe0, Hka in I. rewrite I. ring. Qed.
  Lemma pl_Da0 : ee * Da0 = aa * kDa * k0 + kk * aDa * a0.
  Proof. assert (I : ee * Da0 = (a0 * De0 + a1 * De1 + a2 * De2) * e0 + (aa * kDa - ka * aDa) * k0 + (kk * aDa - ka * kDa) * a0) by (unf; ring).
    rewrite aDe0, Hka in I. rewrite I. ring. Qed.
  Lemma pl_Da1 : ee * Da1 = aa * kDa * k1 + kk * aDa * a1.
  Proof. assert (I : ee * Da1 = (a0 * De0 + a1 * De1 + a2 * De2) * e1 + (aa * kDa - ka * aDa) * k1 + (kk * aDa - ka * kDa) * a1) by (unf; ring).
    rewrite aDe0, Hka in I. rewrite I. ring. Qed.
  Lemma pl_Da2 : ee * Da2 = aa * kDa * k2 + kk * aDa * a2.
  Proof. assert (I : ee * Da2 = (a0 * De0 + a1 * De1 + a2 * De2) * e2 + (aa * kDa - ka * aDa) * k2 + (kk * aDa - ka * kDa) * a2) by (unf; ring).
    rewrite aDe0, Hka in I. rewrite I. ring. Qed.

  (* the in-plane eigenvectors: u = f1 a - f2 k with the two relations the routine's (fac1, fac2) satisfy, w = e x u *)
  Variables f1 f2 xx yy ev0 ev1 : R.
  Hypothesis Hxx : xx = kDk / kk.
  Hypothesis Hyy : yy = aDa / aa.
  Hypothesis R1 : f1 * kDa = f2 * kk * (xx - ev0).
  Hypothesis R2 : f1 * aa * (yy - ev0) = f2 * kDa.
  Hypothesis Hsum : ev0 + ev1 = xx + yy.
  Hypothesis Hf : f1 <> 0 \/ f2 <> 0.
  Let u0 := f1 * a0 + - f2 * k0.
  Let u1 := f1 * a1 + - f2 * k1.
  Let u2 := f1 * a2 + - f2 * k2.
  Let w0 := e1 * u2 - e2 * u1.
  Let w1 := e2 * u0 - e0 * u2.
  Let w2 := e0 * u1 - e1 * u0.
  Lemma Hxx' : xx * kk = kDk. Proof. rewrite Hxx. field. lra. Qed.
  Lemma Hyy' : yy * aa = aDa. Proof. rewrite Hyy. field. lra. Qed.

  Ltac ucomp Dkl Dal Dki Dai ki ai :=
    apply Rmult_eq_reg_l with ee; [|assert (P := pl_ee_pos); lra];
    transitivity (ee * (f1 * Dai - f2 * Dki)); [unfold u0, u1, u2; unf; ring|];
    rewrite (eig_combo ee kk aa Dki Dai ki ai f1 f2 ev0 xx yy kDk kDa aDa pl_ee Dkl Dal Hxx' Hyy' R1 R2); unfold u0, u1, u2; ring.
  Lemma pl_u0 : dxx * u0 + dxy * u1 + dzx * u2 = ev0 * u0. Proof. ucomp pl_Dk0 pl_Da0 Dk0 Da0 k0 a0. Qed.
  Lemma pl_u1 : dxy * u0 + dyy * u1 + dyz * u2 = ev0 * u1. Proof. ucomp pl_Dk1 pl_Da1 Dk1 Da1 k1 a1. Qed.
  Lemma pl_u2 : dzx * u0 + dyz * u1 + dzz * u2 = ev0 * u2. Proof. ucomp pl_Dk2 pl_Da2 Dk2 Da2 k2 a2. Qed.

  Lemma pl_w0e : w0 = - f1 * aa * k0 - f2 * kk * a0.
  Proof. transitivity (f1 * (ka * a0 - aa * k0) - f2 * (kk * a0 - ka * k0)); [unfold w0, u0, u1, u2; unf; ring | rewrite Hka; ring]. Qed.
  Lemma pl_w1e : w1 = - f1 * aa * k1 - f2 * kk * a1.
  Proof. transitivity (f1 * (ka * a1 - aa * k1) - f2 * (kk * a1 - ka * k1)); [unfold w1, u0, u1, u2; unf; ring | rewrite Hka; ring]. Qed.
  Lemma pl_w2e : w2 = - f1 * aa * k2 - f2 * kk * a2.
  Proof. transitivity (f1 * (ka * a2 - aa * k2) - f2 * (kk * a2 - ka * k2)); [unfold w2, u0, u1, u2; unf; ring | rewrite Hka; ring]. Qed.
  Ltac wcomp Dkl Dal Dki Dai ki ai we :=
    rewrite pl_w0e, pl_w1e, pl_w2e;
    apply Rmult_eq_reg_l with ee; [|assert (P := pl_ee_pos); lra];
    transitivity (ee * (- f1 * aa * Dki - f2 * kk * Dai)); [unf; ring|];
    rewrite (eig_combo2 ee kk aa Dki Dai ki ai f1 f2 ev0 ev1 xx yy kDk kDa aDa pl_ee Dkl Dal Hxx' Hyy' R1 R2 Hsum); ring.
  Lemma pl_w0 : dxx * w0 + dxy * w1 + dzx * w2 = ev1 * w0. Proof. wcomp pl_Dk0 pl_Da0 Dk0 Da0 k0 a0 pl_w0e. Qed.
  Lemma pl_w1 : dxy * w0 + dyy * w1 + dyz * w2 = ev1 * w1. Proof. wcomp pl_Dk1 pl_Da1 Dk1 Da1 k1 a1 pl_w1e. Qed.
  Lemma pl_w2 : dzx * w0 + dyz * w1 + dzz * w2 = ev1 * w2. Proof. wcomp pl_Dk2 pl_Da2 Dk2 Da2 k2 a2 pl_w2e. Qed.

  Lemma pl_uu : 0 < u0 * u0 + u1 * u1 + u2 * u2.
  Proof.
    assert (E : u0 * u0 + u1 * u1 + u2 * u2 = f1 * f1 * aa + f2 * f2 * kk - 2 * f1 * f2 * ka) by (unfold u0, u1, u2; unf; ring).
    rewrite E, Hka. destruct Hf as [H|H].
    - assert (0 < f1 * f1) by nra. assert (0 <= f2 * f2) by nra. nra.
    - assert (0 < f2 * f2) by nra. assert (0 <= f1 * f1) by nra. nra.
  Qed.
  Lemma pl_ww : 0 < w0 * w0 + w1 * w1 + w2 * w2.
  Proof.
    assert (E : w0 * w0 + w1 * w1 + w2 * w2 = ee * (u0 * u0 + u1 * u1 + u2 * u2)) by (unfold w0, w1, w2, u0, u1, u2; unf; ring).
    rewrite E. apply Rmult_lt_0_compat; [apply pl_ee_pos | apply pl_uu].
  Qed.
  Lemma pl_ue : u0 * e0 + u1 * e1 + u2 * e2 = 0. Proof. unfold u0, u1, u2; unf; ring. Qed.
  Lemma pl_we : w0 * e0 + w1 * e1 + w2 * e2 = 0. Proof. unfold w0, w1, w2; ring. Qed.
  Lemma pl_uw : u0 * w0 + u1 * w1 + u2 * w2 = 0. Proof. unfold w0, w1, w2; ring. Qed.
End Plane.


Ltac snum f := cbv beta iota zeta delta [f dot cross vscale vlin smv safe_sqrt]; unfold_num; q2r.
Ltac rleb_cases := repeat match goal with |- context [Rleb ?x ?y] =>
    let H := fresh "Hc" in destruct (Rleb x y) eqn:H; [apply Rleb_true in H | apply Rleb_false in H] end.

Lemma t3 (a b c a' b' c' : R) : a = a' -> b = b' -> c = c' -> (a, b, c) = (a', b', c').
Proof. intros; subst; reflexivity. Qed.
(* ---------- stage 1: the pivot ---------- *)
Definition pivot_ok (dxx dyy dzz dxy dyz dzx lam : R) (out : R * R * R * R * R * R * R * R * R * R) : Prop :=
  let '(k0, k1, k2, p0, p1, p2, q0, q1, q2, ki) := out in
  let c0 := (dxx - lam, dxy, dzx) in let c1 := (dxy, dyy - lam, dyz) in let c2 := (dzx, dyz, dzz - lam) in
  let k := (k0, k1, k2) in let p := (p0, p1, p2) in let q := (q0, q1, q2) in
  ki = 1 / dot k k /\ dot c0 c0 <= dot k k /\ dot c1 c1 <= dot k k /\ dot c2 c2 <= dot k k
  /\ ((k = c0 /\ p = c1 /\ q = c2) \/ (k = c1 /\ p = c0 /\ q = c2) \/ (k = c2 /\ p = c0 /\ q = c1)).
Lemma pivot_shape dxx dyy dzz dxy dyz dzx lam : pivot_ok dxx dyy dzz dxy dyz dzx lam (@eig_pivot R NumR dxx dyy dzz dxy dyz dzx lam).
Proof.
  unfold pivot_ok. snum (@eig_pivot). rleb_cases; cbn [andb orb negb]. all: try (exfalso; lra).
  all: (split; [f_equal; ring|]); (split; [nra|]); (split; [nra|]); (split; [nra|]);
  first [ left; repeat split; apply t3; ring | right; left; repeat split; apply t3; ring | right; right; repeat split; apply t3; ring ].
Qed.

(* ---------- stage 2: Gram-Schmidt against the pivot row, choice of the larger residual, cross product ---------- *)
Definition gs_ok (k0 k1 k2 p0 p1 p2 q0 q1 q2 : R) (out : R * R * R * R * R * R * R) : Prop :=
  let '(a0, a1, a2, ai, e0, e1, e2) := out in
  let k := (k0, k1, k2) in let p := (p0, p1, p2) in let q := (q0, q1, q2) in let a := (a0, a1, a2) in
  (e0, e1, e2) = cross k a /\ ai = 1 / dot a a /\ dot k a = 0
  /\ (dot k (cross p q) = 0 -> dot p (cross k a) = 0 /\ dot q (cross k a) = 0)
  /\ (dot a a = 0 -> exists al be, p = vscale al k /\ q = vscale be k).
Lemma sq3_zero x y z : x * x + y * y + z * z <= 0 -> x = 0 /\ y = 0 /\ z = 0.
Proof. intros H. assert (0 <= x * x) by nra. assert (0 <= y * y) by nra. assert (0 <= z * z) by nra. repeat split; nra. Qed.
Lemma gs_shape k0 k1 k2 p0 p1 p2 q0 q1 q2 ki : dot (k0, k1, k2) (k0, k1, k2) <> 0 -> ki = 1 / dot (k0, k1, k2) (k0, k1, k2) ->
  gs_ok k0 k1 k2 p0 p1 p2 q0 q1 q2 (@eig_gs R NumR k0 k1 k2 p0 p1 p2 q0 q1 q2 ki).
Proof.
  intros Hkk Hki. unfold gs_ok. cbv [dot] in Hkk, Hki. snum (@eig_gs).
  match goal with |- context [p0 - ?c * k0] => set (al := c) end.
  match goal with |- context [q0 - ?c * k0] => set (be := c) end.
  assert (Hal : al * (k0 * k0 + k1 * k1 + k2 * k2) = k0 * p0 + k1 * p1 + k2 * p2) by (unfold al; rewrite Hki; field; exact Hkk).
  assert (Hbe : be * (k0 * k0 + k1 * k1 + k2 * k2) = k0 * q0 + k1 * q1 + k2 * q2) by (unfold be; rewrite Hki; field; exact Hkk).
  clearbody al be.
  rleb_cases.
  - split; [apply t3; ring|]. split; [f_equal; ring|]. split; [nra|]. split.
    + intros Ht. split; nra.
    + intros Haa.
      destruct (sq3_zero (q0 - be * k0) (q1 - be * k1) (q2 - be * k2)) as (Z0 & Z1 & Z2); [lra|].
      destruct (sq3_zero (p0 - al * k0) (p1 - al * k1) (p2 - al * k2)) as (Y0 & Y1 & Y2); [lra|].
      exists al, be. split; apply t3; lra.
  - split; [apply t3; ring|]. split; [f_equal; ring|]. split; [nra|]. split.
    + intros Ht. split; nra.
    + intros Haa.
      destruct (sq3_zero (p0 - al * k0) (p1 - al * k1) (p2 - al * k2)) as (Y0 & Y1 & Y2); [lra|].
      destruct (sq3_zero (q0 - be * k0) (q1 - be * k1) (q2 - be * k2)) as (Z0 & Z1 & Z2); [nra|].
      exists al, be. split; apply t3; lra.
Qed.

(* ---------- stage 3: the 2x2 projected problem and the Wilkinson-shift formula ---------- *)
Definition wilk_ok (dxx dyy dzz dxy dyz dzx k0 k1 k2 a0 a1 a2 : R) (out : R * R * R * R * R * R) : Prop :=
  let '(xx, yy, kaxy, xy2, e0, e1) := out in
  let k := (k0, k1, k2) in let a := (a0, a1, a2) in let D := smv dxx dyy dzz dxy dyz dzx in
  xx = dot k (D k) / dot k k /\ yy = dot a (D a) / dot a a /\ kaxy = dot k (D a) /\ xy2 = kaxy * kaxy / (dot a a * dot k k)
  /\ e0 + e1 = xx + yy /\ e0 * e1 = xx * yy - xy2 /\ (xy2 = 0 -> e0 = yy).
Lemma wilk2 xx yy xy2 sq sg : 0 <= xy2 -> 0 <= sq -> sq * sq = (1 / 2 * (xx - yy)) * (1 / 2 * (xx - yy)) + xy2 ->
  (sg = -1 /\ 1 / 2 * (xx - yy) < 0 \/ sg = 1 /\ 0 <= 1 / 2 * (xx - yy)) ->
  let e0 := yy + 1 / 2 * (xx - yy) - sq * sg in let e1 := xx + yy - e0 in
  e0 + e1 = xx + yy /\ e0 * e1 = xx * yy - xy2 /\ (xy2 = 0 -> e0 = yy).
Proof.
  intros Hx Hs Hq Hg. cbv zeta. split; [ring|]. split.
  - destruct Hg as [[-> _]|[-> _]]; nra.
  - intros Z. rewrite Z in Hq. set (b := 1 / 2 * (xx - yy)) in *.
    assert (Hb : sq = Rabs b). { rewrite <- (sqrt_Rsqr_abs b). unfold Rsqr. rewrite <- (sqrt_square sq Hs). f_equal. lra. }
    destruct Hg as [[-> Hb0]|[-> Hb0]]; [rewrite Rabs_left in Hb by lra|rewrite Rabs_right in Hb by lra]; lra.
Qed.
Lemma wilkinson_shape dxx dyy dzz dxy dyz dzx k0 k1 k2 a0 a1 a2 ki ai :
  0 < dot (k0, k1, k2) (k0, k1, k2) -> 0 < dot (a0, a1, a2) (a0, a1, a2) ->
  ki = 1 / dot (k0, k1, k2) (k0, k1, k2) -> ai = 1 / dot (a0, a1, a2) (a0, a1, a2) ->
  wilk_ok dxx dyy dzz dxy dyz dzx k0 k1 k2 a0 a1 a2 (@eig_wilkinson R NumR dxx dyy dzz dxy dyz dzx k0 k1 k2 a0 a1 a2 ki ai).
Proof.
  intros Hkk Haa Hki Hai. unfold wilk_ok. cbv [dot] in Hkk, Haa, Hki, Hai. snum (@eig_wilkinson).
  set (kk := k0 * k0 + k1 * k1 + k2 * k2) in *. set (aa := a0 * a0 + a1 * a1 + a2 * a2) in *.
  match goal with |- _ = _ /\ _ = _ /\ ?KA = _ /\ _ => set (kaxy := KA) end.
  match goal with |- ?XX = _ /\ ?YY = _ /\ _ = _ /\ ?XY = _ /\ _ => set (xx := XX); set (yy := YY); set (xy2 := XY) end.
  assert (Exy : xy2 = kaxy * kaxy / (aa * kk)) by (unfold xy2; rewrite Hki, Hai; field; lra).
  assert (Hxy : 0 <= xy2).
  { rewrite Exy. apply Rmult_le_pos; [nra|]. apply Rlt_le, Rinv_0_lt_compat. nra. }
  split; [unfold xx; rewrite Hki; unfold kk; field; fold kk; lra|].
  split; [unfold yy; rewrite Hai; unfold aa; field; fold aa; lra|].
  split; [unfold kaxy; ring|]. split; [exact Exy|].
  clearbody xx yy kaxy xy2.
  match goal with |- context [sqrt ?t] => set (rad := t); set (sq := sqrt rad) end.
  assert (Hrad : 0 <= rad). { unfold rad. pose proof (Rle_0_sqr (1 / 2 * (xx - yy))) as Hsq0. unfold Rsqr in Hsq0. lra. }
  assert (Hs : 0 <= sq) by apply sqrt_pos.
  assert (Hq : sq * sq = rad) by (apply sqrt_sqrt; exact Hrad).
  match goal with |- context [if ?c then _ else _] => set (sg := if c then _ else _) end.
  assert (Hg : sg = -1 /\ 1 / 2 * (xx - yy) < 0 \/ sg = 1 /\ 0 <= 1 / 2 * (xx - yy)).
  { unfold sg. match goal with |- context [Rltb ?x ?y] => destruct (Rltb x y) eqn:Hc; [apply Rltb_true in Hc|apply Rltb_false in Hc] end;
    [left|right]; split; lra. }
  clearbody sg sq.
  exact (wilk2 xx yy xy2 sq sg Hxy Hs Hq Hg).
Qed.

(* ---------- stage 4: the in-plane eigenvectors ---------- *)
Definition vec_ok (xx yy kaxy e0 k0 k1 k2 a0 a1 a2 v0 v1 v2 : R) (out : R * R * R * R * R * R) : Prop :=
  let '(u0, u1, u2, w0, w1, w2) := out in
  let k := (k0, k1, k2) in let a := (a0, a1, a2) in
  exists f1 f2, (u0, u1, u2) = vlin f1 a (- f2) k /\ (w0, w1, w2) = cross (v0, v1, v2) (u0, u1, u2)
    /\ f1 * kaxy = f2 * dot k k * (xx - e0) /\ f1 * dot a a * (yy - e0) = f2 * kaxy /\ (f1 <> 0 \/ f2 <> 0).
Lemma vectors_shape xx yy kaxy xy2 e0 k0 k1 k2 a0 a1 a2 ki ai v0 v1 v2 :
  0 < dot (k0, k1, k2) (k0, k1, k2) -> 0 < dot (a0, a1, a2) (a0, a1, a2) ->
  ki = 1 / dot (k0, k1, k2) (k0, k1, k2) -> ai = 1 / dot (a0, a1, a2) (a0, a1, a2) ->
  xy2 = kaxy * kaxy / (dot (a0, a1, a2) (a0, a1, a2) * dot (k0, k1, k2) (k0, k1, k2)) ->
  (xx - e0) * (yy - e0) = xy2 -> (xy2 = 0 -> e0 = yy) ->
  vec_ok xx yy kaxy e0 k0 k1 k2 a0 a1 a2 v0 v1 v2 (@eig_vectors R NumR xx yy kaxy xy2 e0 k0 k1 k2 a0 a1 a2 ki ai v0 v1 v2).
Proof.
  intros Hkk Haa Hki Hai Exy Hsing Hz. unfold vec_ok. cbv [dot] in *. snum (@eig_vectors).
  set (kk := k0 * k0 + k1 * k1 + k2 * k2) in *. set (aa := a0 * a0 + a1 * a1 + a2 * a2) in *.
  assert (Hka2 : kaxy * kaxy = xy2 * (aa * kk)) by (rewrite Exy; field; lra).
  assert (Hiki : ki * kk = 1) by (rewrite Hki; field; lra).
  assert (Hiai : ai * aa = 1) by (rewrite Hai; field; lra).
  assert (H1 : kaxy * kaxy * ai = xy2 * kk).
  { rewrite Hka2. transitivity (xy2 * kk * (ai * aa)); [ring|]. rewrite Hiai. ring. }
  assert (H2 : kaxy * kaxy * ki = xy2 * aa).
  { rewrite Hka2. transitivity (xy2 * aa * (ki * kk)); [ring|]. rewrite Hiki. ring. }
  clear Hki Hai Exy.
  (* the selection rm2xx2 < rm2yy2 of the pair (fac1, fac2) *)
  destruct (Rltb ((xx - e0) * (xx - e0)) ((yy - e0) * (yy - e0))) eqn:Hc; [apply Rltb_true in Hc|apply Rltb_false in Hc].
  (* facmax = where(max(|fac1|, |fac2|) > 0, max(|fac1|, |fac2|), 1) is positive; nothing else about it is used *)
  all: match goal with |- context [Rltb 0 ?M] => set (m0 := M) end;
       set (m := if Rltb 0 m0 then m0 else 1);
       assert (Hm : 0 < m) by (unfold m; destruct (Rltb 0 m0) eqn:Hq; [apply Rltb_true in Hq; exact Hq | lra]);
       clearbody m; clear m0.
  (* the stored, scaled pair tested by both_zero *)
  all: match goal with |- context [andb (Reqb ?A 0) (Reqb ?B 0)] => set (g1 := A); set (g2 := B) end.
  { (* |xx - e0| < |yy - e0| : fac2 = yy - e0 <> 0, the fallback is not taken *)
    assert (G1 : g1 * m = kaxy * ai) by (unfold g1; field; lra).
    assert (G2 : g2 * m = yy - e0) by (unfold g2; field; lra).
    assert (N2 : g2 <> 0).
    { intro E. rewrite E in G2. assert (Y : yy - e0 = 0) by lra. rewrite Y in Hc.
      pose proof (Rle_0_sqr (xx - e0)) as S0. unfold Rsqr in S0. lra. }
    clearbody g1 g2.
    destruct (Reqb g1 0) eqn:Z1; (destruct (Reqb g2 0) eqn:Z2; [apply Reqb_true in Z2; contradiction|]); cbn [andb].
    all: exists g1, g2.
    all: split; [apply t3; ring|]; (split; [apply t3; ring|]); (split; [|split; [|right; exact N2]]).
    all: apply Rmult_eq_reg_r with m; [|lra].
    1,3: transitivity (g1 * m * kaxy); [ring|]; transitivity (g2 * m * kk * (xx - e0)); [|ring]; rewrite G1, G2;
         transitivity (kaxy * kaxy * ai); [ring|]; rewrite H1, <- Hsing; ring.
    all: transitivity (g1 * m * aa * (yy - e0)); [ring|]; transitivity (g2 * m * kaxy); [|ring]; rewrite G1, G2;
         transitivity (kaxy * (ai * aa) * (yy - e0)); [ring|]; rewrite Hiai; ring.
  }
  { (* |yy - e0| <= |xx - e0| : fac1 = xx - e0, fac2 = ki kaxy *)
    assert (G1 : g1 * m = xx - e0) by (unfold g1; field; lra).
    assert (G2 : g2 * m = ki * kaxy) by (unfold g2; field; lra).
    clearbody g1 g2.
    destruct (Reqb g1 0) eqn:Z1; [apply Reqb_true in Z1|apply Reqb_false in Z1];
    (destruct (Reqb g2 0) eqn:Z2; [apply Reqb_true in Z2|apply Reqb_false in Z2]); cbn [andb].
    1: { (* the stored pair is (0, 0): xx = yy = e0 and the off-diagonal vanishes (double in-plane eigenvalue), evec0 = a *)
         exists 1, 0. rewrite Z1 in G1. rewrite Z2 in G2.
         assert (X0 : xx - e0 = 0) by lra.
         assert (K0 : kaxy = 0). { transitivity (ki * kaxy * kk); [transitivity (ki * kk * kaxy); [rewrite Hiki; ring|ring]|]. rewrite <- G2. ring. }
         assert (Y0 : yy - e0 = 0). { rewrite X0 in Hc. pose proof (Rle_0_sqr (yy - e0)) as S0. unfold Rsqr in S0. nra. }
         split; [apply t3; ring|]. split; [apply t3; ring|]. split; [rewrite K0, X0; ring|]. split; [rewrite K0, Y0; ring|]. left; lra. }
    all: exists g1, g2.
    all: split; [apply t3; ring|]; (split; [apply t3; ring|]); (split; [|split; [|tauto]]).
    all: apply Rmult_eq_reg_r with m; [|lra].
    1,3,5: transitivity (g1 * m * kaxy); [ring|]; transitivity (g2 * m * kk * (xx - e0)); [|ring]; rewrite G1, G2;
           transitivity (ki * kk * kaxy * (xx - e0)); [rewrite Hiki; ring|ring].
    all: transitivity (g1 * m * aa * (yy - e0)); [ring|]; transitivity (g2 * m * kaxy); [|ring]; rewrite G1, G2;
         transitivity (kaxy * kaxy * ki); [|ring]; rewrite H2, <- Hsing; ring.
  }
Qed.

(* ---------- assembly: from a pivoted triple of rows to the exact deflation ---------- *)
Lemma t3_inv (a b c a' b' c' : R) : (a, b, c) = (a', b', c') -> a = a' /\ b = b' /\ c = c'.
Proof. intros H. injection H. auto. Qed.

Lemma chain_exact dxx dyy dzz dxy dyz dzx lam k0 k1 k2 p0 p1 p2 q0 q1 q2 ki :
  let k := (k0, k1, k2) in let p := (p0, p1, p2) in let q := (q0, q1, q2) in
  dxx + dyy + dzz = 0 ->
  cubic3 (sE2 dxx dyy dzz dxy dyz dzx) (sC3 dxx dyy dzz dxy dyz dzx) lam = 0 ->
  0 < dot k k -> ki = 1 / dot k k ->
  dot k (cross p q) = 0 ->
  (forall v, dot k v = 0 -> dot p v = 0 -> dot q v = 0 -> smv dxx dyy dzz dxy dyz dzx v = vscale lam v) ->
  ((exists al be, p = vscale al k /\ q = vscale be k) -> False) ->
  deflation_exact dxx dyy dzz dxy dyz dzx lam
    (let '(a0, a1, a2, ai, e0, e1, e2) := @eig_gs R NumR k0 k1 k2 p0 p1 p2 q0 q1 q2 ki in
     let '(xx, yy, kaxy, xy2, ev0, ev1) := @eig_wilkinson R NumR dxx dyy dzz dxy dyz dzx k0 k1 k2 a0 a1 a2 ki ai in
     let '(u0, u1, u2, w0, w1, w2) := @eig_vectors R NumR xx yy kaxy xy2 ev0 k0 k1 k2 a0 a1 a2 ki ai e0 e1 e2 in
     (ev0, ev1, u0, u1, u2, w0, w1, w2, e0, e1, e2)).
Proof.
  intros k p q Htr Hcub Hkk Hki Htri Hrows Hndeg.
  assert (Hkk0 : dot k k <> 0) by lra.
  pose proof (gs_shape k0 k1 k2 p0 p1 p2 q0 q1 q2 ki Hkk0 Hki) as HG.
  destruct (@eig_gs R NumR k0 k1 k2 p0 p1 p2 q0 q1 q2 ki) as [[[[[[a0 a1] a2] ai] e0] e1] e2].
  unfold gs_ok in HG. fold k p q in HG. destruct HG as (He & Hai & Hka & Hpe & Hdeg).
  destruct (Hpe Htri) as [Hp Hq].
  assert (Haa : 0 < dot (a0, a1, a2) (a0, a1, a2)).
  { destruct (Rle_lt_dec (dot (a0, a1, a2) (a0, a1, a2)) 0) as [Hle|]; [|assumption]. exfalso. apply Hndeg, Hdeg.
    cbv [dot] in *. nra. }
  pose proof (wilkinson_shape dxx dyy dzz dxy dyz dzx k0 k1 k2 a0 a1 a2 ki ai Hkk Haa Hki Hai) as HW.
  destruct (@eig_wilkinson R NumR dxx dyy dzz dxy dyz dzx k0 k1 k2 a0 a1 a2 ki ai) as [[[[[xx yy] kaxy] xy2] ev0] ev1].
  unfold wilk_ok in HW. destruct HW as (Hxx & Hyy & Hkaxy & Hxy2 & Hsum & Hprod & Hz).
  assert (Hsing : (xx - ev0) * (yy - ev0) = xy2) by nra.
  pose proof (vectors_shape xx yy kaxy xy2 ev0 k0 k1 k2 a0 a1 a2 ki ai e0 e1 e2 Hkk Haa Hki Hai Hxy2 Hsing Hz) as HV.
  destruct (@eig_vectors R NumR xx yy kaxy xy2 ev0 k0 k1 k2 a0 a1 a2 ki ai e0 e1 e2) as [[[[[u0 u1] u2] w0] w1] w2].
  unfold vec_ok in HV. destruct HV as (f1 & f2 & Hu & Hw & R1 & R2 & Hf).
  (* the eigenvector for lam *)
  assert (Hke : dot k (cross k (a0, a1, a2)) = 0) by (cbv [dot cross k]; ring).
  pose proof (Hrows (cross k (a0, a1, a2)) Hke Hp Hq) as HDe.
  apply t3_inv in He. destruct He as (E0 & E1 & E2). apply t3_inv in Hu. destruct Hu as (U0 & U1 & U2).
  apply t3_inv in Hw. destruct Hw as (W0 & W1 & W2).
  cbv [dot cross smv vscale vlin k p q] in *. apply t3_inv in HDe. destruct HDe as (D0 & D1 & D2).
  subst e0 e1 e2 u0 u1 u2 w0 w1 w2.
  rewrite Hkaxy in *.
  assert (Htrace := pl_trace dxx dyy dzz dxy dyz dzx lam k0 k1 k2 a0 a1 a2 Hka Hkk Haa Htr D0 D1 D2).
  assert (Hminor := pl_minor dxx dyy dzz dxy dyz dzx lam k0 k1 k2 a0 a1 a2 Hka Hkk Haa Htr D0 D1 D2).
  unfold deflation_exact. cbv [dot cross smv vscale vlin]. 
  split; [|split; [|split; [|split; [|split; [|split; [|split; [|split; [|split]]]]]]]].
  - (* Vieta *)
    rewrite <- Hxx, <- Hyy in Htrace, Hminor. rewrite <- Hxy2 in Hminor.
    unfold cubic3, sE2 in *. set (c3 := sC3 _ _ _ _ _ _) in *.
    match type of Hminor with _ = _ + ?e => set (c2 := e) in * end.
    clearbody c2 c3. clear - Htrace Hminor Hsum Hprod Hcub. intros x. nsatz.
  - apply t3; assumption.
  - apply t3; [apply (pl_u0 dxx dyy dzz dxy dyz dzx lam k0 k1 k2 a0 a1 a2 Hka Hkk Haa D0 D1 D2 f1 f2 xx yy ev0 Hxx Hyy R1 R2)
              |apply (pl_u1 dxx dyy dzz dxy dyz dzx lam k0 k1 k2 a0 a1 a2 Hka Hkk Haa D0 D1 D2 f1 f2 xx yy ev0 Hxx Hyy R1 R2)
              |apply (pl_u2 dxx dyy dzz dxy dyz dzx lam k0 k1 k2 a0 a1 a2 Hka Hkk Haa D0 D1 D2 f1 f2 xx yy ev0 Hxx Hyy R1 R2)].
  - apply t3; [apply (pl_w0 dxx dyy dzz dxy dyz dzx lam k0 k1 k2 a0 a1 a2 Hka Hkk Haa D0 D1 D2 f1 f2 xx yy ev0 ev1 Hxx Hyy R1 R2 Hsum)
              |apply (pl_w1 dxx dyy dzz dxy dyz dzx lam k0 k1 k2 a0 a1 a2 Hka Hkk Haa D0 D1 D2 f1 f2 xx yy ev0 ev1 Hxx Hyy R1 R2 Hsum)
              |apply (pl_w2 dxx dyy dzz dxy dyz dzx lam k0 k1 k2 a0 a1 a2 Hka Hkk Haa D0 D1 D2 f1 f2 xx yy ev0 ev1 Hxx Hyy R1 R2 Hsum)].
  - apply (pl_ee_pos k0 k1 k2 a0 a1 a2 Hka Hkk Haa).
  - apply (pl_uu k0 k1 k2 a0 a1 a2 Hka Hkk Haa f1 f2 Hf).
  - apply (pl_ww k0 k1 k2 a0 a1 a2 Hka Hkk Haa f1 f2 Hf).
  - apply (pl_ue k0 k1 k2 a0 a1 a2 f1 f2).
  - apply (pl_we k0 k1 k2 a0 a1 a2 f1 f2).
  - apply (pl_uw k0 k1 k2 a0 a1 a2 f1 f2).
Qed.

(* ---------- the theorem about the composed stage kernels ---------- *)
Theorem compose_exact dxx dyy dzz dxy dyz dzx lam :
  dxx + dyy + dzz = 0 ->
  cubic3 (sE2 dxx dyy dzz dxy dyz dzx) (sC3 dxx dyy dzz dxy dyz dzx) lam = 0 ->
  3 * lam * lam + sE2 dxx dyy dzz dxy dyz dzx <> 0 ->
  deflation_exact dxx dyy dzz dxy dyz dzx lam (@eig_compose R NumR dxx dyy dzz dxy dyz dzx lam).
Proof.
  intros Htr Hcub Hsimple. unfold eig_compose.
  pose proof (pivot_shape dxx dyy dzz dxy dyz dzx lam) as HP.
  destruct (@eig_pivot R NumR dxx dyy dzz dxy dyz dzx lam) as [[[[[[[[[k0 k1] k2] p0] p1] p2] q0] q1] q2] ki].
  unfold pivot_ok in HP. destruct HP as (Hki & G0 & G1 & G2 & Hperm).
  assert (Hkk : 0 < dot (k0, k1, k2) (k0, k1, k2)).
  { destruct (Rle_lt_dec (dot (k0, k1, k2) (k0, k1, k2)) 0) as [Hle|]; [|assumption]. exfalso. apply Hsimple.
    destruct (sq3_zero (dxx - lam) dxy dzx) as (Z0 & Z1 & Z2); [cbv [dot] in *; lra|].
    destruct (sq3_zero dxy (dyy - lam) dyz) as (Y0 & Y1 & Y2); [cbv [dot] in *; lra|].
    destruct (sq3_zero dzx dyz (dzz - lam)) as (X0 & X1 & X2); [cbv [dot] in *; lra|].
    unfold sE2. assert (lam = 0) by lra. subst lam. replace dxx with 0 by lra. replace dyy with 0 by lra. replace dzz with 0 by lra.
    rewrite Z1, Z2, Y2. ring. }
  apply chain_exact; try assumption.
  - (* det (D - lam I) = 0 *)
    unfold cubic3, sE2, sC3 in Hcub. cbv [dot cross]. clear Hki G0 G1 G2 Hkk Hsimple.
    destruct Hperm as [(Ek & Ep & Eq)|[(Ek & Ep & Eq)|(Ek & Ep & Eq)]]; apply t3_inv in Ek; apply t3_inv in Ep; apply t3_inv in Eq;
      destruct Ek as (? & ? & ?); destruct Ep as (? & ? & ?); destruct Eq as (? & ? & ?); subst; nsatz.
  - (* vectors orthogonal to the three pivoted rows are in the kernel of D - lam I *)
    intros [[v0 v1] v2]. cbv [dot smv vscale].
    destruct Hperm as [(Ek & Ep & Eq)|[(Ek & Ep & Eq)|(Ek & Ep & Eq)]]; apply t3_inv in Ek; apply t3_inv in Ep; apply t3_inv in Eq;
      destruct Ek as (? & ? & ?); destruct Ep as (? & ? & ?); destruct Eq as (? & ? & ?); subst; intros A B C; apply t3; lra.
  - (* rank one is excluded by the simple root *)
    intros (al & be & Ep' & Eq'). apply Hsimple. cbv [vscale] in Ep', Eq'. apply t3_inv in Ep'. apply t3_inv in Eq'.
    destruct Ep' as (P0 & P1 & P2). destruct Eq' as (Q0 & Q1 & Q2). unfold sE2. clear Hcub Hki G0 G1 G2 Hkk Hsimple.
    destruct Hperm as [(Ek & Ep & Eq)|[(Ek & Ep & Eq)|(Ek & Ep & Eq)]]; apply t3_inv in Ek; apply t3_inv in Ep; apply t3_inv in Eq;
      destruct Ek as (? & ? & ?); destruct Ep as (? & ? & ?); destruct Eq as (? & ? & ?); subst k0 k1 k2 p0 p1 p2 q0 q1 q2; nsatz.
Qed.


(* ---------- the statement for a tensor A: D = deviator of sym A, invariants as the routine's first stage computes them ---------- *)
Definition dv (A : mat R) : R * R * R * R * R * R :=
  let D := devsym A in (m00 D, m11 D, m22 D, m01 D, m12 D, m20 D).
Definition deflate_tensor (A : mat R) (lam : R) :=
  let '(dxx, dyy, dzz, dxy, dyz, dzx) := dv A in @eig_compose R NumR dxx dyy dzz dxy dyz dzx lam.
Definition deflation_exact_tensor (A : mat R) (lam : R) : Prop :=
  let '(dxx, dyy, dzz, dxy, dyz, dzx) := dv A in deflation_exact dxx dyy dzz dxy dyz dzx lam (deflate_tensor A lam).

Lemma dv_invariants (A : mat R) : let '(dxx, dyy, dzz, dxy, dyz, dzx) := dv A in
  dxx + dyy + dzz = 0 /\ sE2 dxx dyy dzz dxy dyz dzx = st_c2 A /\ sC3 dxx dyy dzz dxy dyz dzx = st_c3 A.
Proof. dm A. unfold dv, sE2, sC3. stnum. repeat split; field. Qed.

Theorem deflation_exact_tensor_thm (A : mat R) (lam : R) :
  cubic (st_c2 A) (st_c3 A) lam = 0 -> 3 * lam * lam + st_c2 A <> 0 -> deflation_exact_tensor A lam.
Proof.
  intros Hc Hs. unfold deflation_exact_tensor, deflate_tensor. pose proof (dv_invariants A) as HI.
  destruct (dv A) as [[[[[dxx dyy] dzz] dxy] dyz] dzx]. destruct HI as (Htr & E2 & E3).
  apply compose_exact; [exact Htr| rewrite E2, E3; exact Hc | rewrite E2; exact Hs].
Qed.
(* the Vieta clause speaks about the characteristic polynomial of the deviator (C12_trig_stage_invariants) *)
Lemma deflation_vieta_charpoly (A : mat R) (lam : R) : deflation_exact_tensor A lam ->
  let '(e0, e1, _, _, _, _, _, _, _, _, _) := deflate_tensor A lam in
  forall x, charpoly (devsym A) x = (x - lam) * (x - e0) * (x - e1).
Proof.
  unfold deflation_exact_tensor, deflate_tensor. pose proof (dv_invariants A) as HI. pose proof (stage_invariants A) as [_ HS].
  destruct (dv A) as [[[[[dxx dyy] dzz] dxy] dyz] dzx]. destruct HI as (Htr & E2 & E3).
  destruct (@eig_compose R NumR dxx dyy dzz dxy dyz dzx lam) as [[[[[[[[[[e0 e1] u0] u1] u2] w0] w1] w2] v0] v1] v2].
  unfold deflation_exact. intros (HV & _) x. rewrite HS, <- E2, <- E3. exact (HV x).
Qed.

(* the exact trigonometric root (largest magnitude) is a simple root, so the deflation run with it is exact *)
Theorem deflation_after_exact_trig_root (A : mat R) : st_c2 A < 0 -> Rabs (st_rr A) <= 1 ->
  let lam := exact_root (st_c2 A) (st_c3 A) in
  deflation_exact_tensor A lam
  /\ Rabs (st_eval2 A - lam) <= 4 / 100000000000000 * sqrt (- st_c2 A / 3)
  /\ (forall mu, cubic (st_c2 A) (st_c3 A) mu = 0 -> Rabs mu <= Rabs lam).
Proof.
  intros Hc Hr. cbv zeta. destruct (stage_shape A Hc) as (Err & Earg & Eev). cbv zeta in *.
  assert (Hr' := Hr). rewrite Err in Hr'.
  assert (H0 : cubic (st_c2 A) (st_c3 A) (exact_root (st_c2 A) (st_c3 A)) = 0) by (apply exact_root_is_root; assumption).
  assert (HL : forall mu, cubic (st_c2 A) (st_c3 A) mu = 0 -> Rabs mu <= Rabs (exact_root (st_c2 A) (st_c3 A)))
    by (intros mu Hmu; apply exact_root_largest; assumption).
  split; [|split].
  - apply deflation_exact_tensor_thm; [exact H0|].
    set (l := exact_root (st_c2 A) (st_c3 A)) in *. set (c2 := st_c2 A) in *. set (c3 := st_c3 A) in *.
    intros Hd. assert (Hm : cubic c2 c3 (- 2 * l) = 0) by (unfold cubic in *; nra).
    apply HL in Hm. replace (-2 * l) with (- (2 * l)) in Hm by ring. rewrite Rabs_Ropp, Rabs_mult, (Rabs_pos_eq 2) in Hm by lra.
    assert (Hl : l = 0). { assert (0 <= Rabs l) by apply Rabs_pos. assert (Rabs l = 0) by lra. destruct (Req_dec l 0); [assumption|]. exfalso. apply Rabs_no_R0 in H2; auto. }
    rewrite Hl in Hd. lra.
  - rewrite Eev, Earg, Err. rewrite Rmin_left by exact Hr'. apply candidate_error; assumption.
  - exact HL.
Qed.

Lemma deflation_nonvacuous : cubic (st_c2 Aex) (st_c3 Aex) 3 = 0 /\ 3 * 3 * 3 + st_c2 Aex <> 0 /\ st_c2 Aex < 0 /\ Rabs (st_rr Aex) <= 1.
Proof. destruct trig_nonvacuous as (_ & E2 & E3 & Hc & Hr & H3 & _). repeat split; try assumption. rewrite E2. lra. Qed.
