(* C19: the order property of the four regenerated driver trees for EVERY execution (any branch outcomes, any number of loop
   passes), from the soundness of the static checker (proofs/L_C19_Sem.v) and one computation per driver. *)
From Coq Require Import List Bool String.
From OV.model Require Import M_C19_CFG M_C19_Sem.
From OV.gen Require Import CFG_drivers.
From OV.proofs Require Import L_C19 L_C19_Sem.
Import ListNotations.

Definition every_execution_ok (e : expect) (l : list stmt) : Prop :=
  forall ts o, execs l ts o -> ((exists x u f, o = ORet x u f) \/ o = ORaise) /\ path_ok e (ts, ending_of o) = true.

Theorem drivers_every_execution :
  every_execution_ok exp_flag_unscaled cfg_nonlinear_equation_solve
  /\ every_execution_ok exp_flag_unscaled cfg_spg_solve
  /\ every_execution_ok exp_noflag_unscaled cfg_bound_constrained_solve
  /\ every_execution_ok exp_noflag_raw cfg_augmented_lagrange_solve.
Proof. split; [|split; [|split]]; unfold every_execution_ok; apply sa_sound; vm_compute; reflexivity. Qed.

(* the semantics is not empty and goes beyond the enumerator `paths` (three passes through a loop); the checker accepts this tree *)
Definition demo_tree : list stmt := [Do AssignPNew; Do SubSolve; Loop [Do SubSolve]; Ret true false FlagNone].
Example exec_nonvacuous :
  execs demo_tree ([AssignPNew] ++ [SubSolve] ++ ([SubSolve] ++ [SubSolve] ++ [SubSolve] ++ []) ++ []) (ORet true false FlagNone)
  /\ sa_ok exp_noflag_raw demo_tree = true.
Proof.
  split; [|vm_compute; reflexivity]. unfold demo_tree.
  apply XSeq; [apply XDo|]. apply XSeq; [apply XDo|]. apply XSeq.
  - assert (B : execs [Do SubSolve] [SubSolve] ONormal) by (apply (XSeq (Do SubSolve) [] [SubSolve] [] ONormal); [apply XDo|apply XNil]).
    apply XLoopPass; [exact B|]. apply XLoopPass; [exact B|]. apply XLoopPass; [exact B|]. apply XLoopDone.
  - apply XStop; [apply XRet|discriminate].
Qed.
