(* C04: the state updates of the outer loop restated over GENERATED code (gen/Gen_AlSolver.v: the three update statements of
   AlSolver.solve_sub_step; gen/Gen_BoundConstrainedObjective.v: the clipping of the initial multipliers), and the
   bound-constrained front end (BoundConstrainedSolver.bound_constrained_solve around augmented_lagrange_solve). *)
From Coq Require Import Reals Lra Lia QArith List Bool Psatz.
From OV.base Require Import Num.
From OV.gen Require Import Gen_ConstrainedObjective Gen_AlSolver Gen_BoundConstrainedObjective.
From OV.model Require Import M_C04_AL.
From OV.proofs Require Import L_C04.
Import ListNotations.
Local Open Scope R_scope.

(* ---- the generated statements, one constraint ---- *)
Theorem multiplier_update_generated l k c :
  @sub_lam_update R NumR l k c = Rmax (l - k * c) 0 /\ 0 <= @sub_lam_update R NumR l k c.
Proof. split; [apply sub_lam_update_closed | apply sub_lam_update_nonneg]. Qed.

Theorem penalty_update_generated k p s :
  @sub_kappa_update R NumR k p s = (if p then s * k else k)
  /\ (1 <= s -> 0 <= k -> k <= @sub_kappa_update R NumR k p s /\ 0 <= @sub_kappa_update R NumR k p s).
Proof.
  split.
  - unfold sub_kappa_update. unfold_num. destruct p; reflexivity.
  - apply sub_kappa_update_mono.
Qed.

Theorem poor_progress_generated e old tdf tl m :
  @sub_poor_progress R NumR e old tdf tl m = true <-> Rmax (tdf * old) (10 * tl / sqrt m) < e.
Proof.
  unfold sub_poor_progress, nmax. unfold_num. q2r. rewrite Rltb_true. unfold Rmax.
  destruct (Rle_dec (tdf * old) (10 * tl / sqrt m)); rcases; split; intros; lra.
Qed.

(* ---- one sub-step of the outer-loop model IS these statements applied per constraint ---- *)
Definition updated_by_generated (s : R) (kappa kappa' : list R) : Prop :=
  List.Forall2 (fun k k' => exists p, k' = @sub_kappa_update R NumR k p s) kappa kappa'.

Lemma keep_generated s kappa : updated_by_generated s kappa kappa.
Proof. unfold updated_by_generated. induction kappa; constructor; [exists false; reflexivity | assumption]. Qed.

Lemma scale_where_generated s poor kappa : updated_by_generated s kappa (@scale_where R NumR s poor kappa).
Proof.
  unfold updated_by_generated. revert poor. induction kappa as [|k ks IH]; intros poor.
  - destruct poor; cbn [scale_where]; constructor.
  - destruct poor as [|p ps]; cbn [scale_where].
    + apply keep_generated.
    + constructor; [exists p; reflexivity | apply IH].
Qed.

Theorem sub_step_by_generated_updates (cfg : @settings R) (orc : @oracles R) kappa0 it x lam kappa ncpOld s' ok ev :
  sub_step cfg orc kappa0 it x lam kappa ncpOld = (s', ok, ev) ->
  slam s' = zip3 (@sub_lam_update R NumR) lam kappa (constraint orc it Sub (sx s'))
  /\ updated_by_generated (penalty_scaling cfg) kappa (skap s')
  /\ (ok = false -> skap s' = kappa).
Proof.
  unfold sub_step. destruct (sub_solve orc it x lam kappa) as [x' ok'].
  intros H. inversion H; subst; clear H. cbn [slam skap sx]. split; [reflexivity|]. split.
  - match goal with |- context [if ?g then _ else _] => destruct g end; [apply scale_where_generated | apply keep_generated].
  - intros ->. rewrite andb_false_r. reflexivity.
Qed.

(* consequences read off the generated statements alone *)
Theorem generated_updates_invariants s lam kappa c kappa' :
  updated_by_generated s kappa kappa' -> 1 <= s -> nonneg kappa ->
  nonneg (zip3 (@sub_lam_update R NumR) lam kappa c) /\ le_vec kappa kappa' /\ nonneg kappa'.
Proof.
  intros HU Hs Hk. split; [exact (lam_update_nonneg lam kappa c)|].
  induction HU as [|k k' ks ks' [p ->] _ IH].
  - split; constructor.
  - inversion Hk; subst. destruct (IH H2) as [I1 I2]. destruct (sub_kappa_update_mono k p s Hs H1).
    split; constructor; assumption.
Qed.

(* ---- bound-constrained front end ---- *)
Definition pos (v : list R) : Prop := List.Forall (fun a => 0 < a) v.

Lemma bc_initial_multiplier_closed g : @bc_initial_multiplier R NumR g = Rmax g 0.
Proof. unfold bc_initial_multiplier, nmax. unfold_num. q2r. unfold Rmax. destruct (Rle_dec g 0); rcases; lra. Qed.

Theorem bc_initial_state g :
  nonneg (@bc_initial_lam R NumR g) /\ pos (@bc_initial_kappa R NumR g)
  /\ length (@bc_initial_lam R NumR g) = length g /\ length (@bc_initial_kappa R NumR g) = length g.
Proof.
  unfold bc_initial_lam, bc_initial_kappa. repeat split; try apply map_length.
  - induction g; cbn [map]; constructor; [rewrite bc_initial_multiplier_closed; apply Rmax_r | assumption].
  - induction g; cbn [map]; constructor; [unfold c_quarter; unfold_num; q2r; lra | assumption].
Qed.

Lemma vmul_nonneg a b : nonneg a -> nonneg b -> nonneg (@vmul R NumR a b).
Proof.
  unfold vmul. intros Ha; revert b. induction Ha as [|x a Hx Ha IH]; intros [|y b] Hb; cbn [map2]; try constructor.
  - inversion Hb; subst. unfold_num. nra.
  - inversion Hb; subst. apply IH. assumption.
Qed.

Lemma pos_nonneg v : pos v -> nonneg v.
Proof. intros H. eapply Forall_impl; [|exact H]. cbn. intros; lra. Qed.

(* every normal return of bound_constrained_solve: multipliers (raw and as returned by get_multipliers) >= 0 exactly; the solve
   starts from kappa = constraintKappa (reset_kappa) and penalties only grow, so kappa0 <= kappa componentwise at the return -- the
   hypothesis 0 < k0 <= k of C04_al_gradient_is_lagrangian_gradient holds BY CONSTRUCTION on this front end --; the scaled point
   passed the termination test (approximate KKT rows with kappa0), and the returned point is invScaling * xBar *)
Theorem bc_solve_return (cfg : @settings R) (orc : @oracles R) scaling isc sc_c kappa0 x0 dxBar lam x mult lam' kappa' ev :
  bc_solve cfg orc scaling isc sc_c kappa0 x0 dxBar lam = (BCReturned x mult lam' kappa', ev) ->
  1 <= penalty_scaling cfg -> pos kappa0 -> pos sc_c ->
  nonneg lam' /\ nonneg mult /\ mult = @vmul R NumR lam' sc_c
  /\ List.Forall2 (fun k0 k => 0 < k0 <= k) kappa0 kappa'
  /\ exists xBar it, x = @vmul R NumR isc xBar /\ (it < max_al_iters cfg)%nat
       /\ @norm2 R NumR (gradAL orc it Sub xBar lam' kappa') < tol cfg
       /\ List.Forall (kkt_row (tol cfg)) (zip3 triple (constraint orc it Sub xBar) lam' kappa0).
Proof.
  unfold bc_solve. intros H Hs Hk Hsc.
  destruct (al_solve cfg orc kappa0 _ lam kappa0) as [[xB lB kB|xB lB kB] ev'] eqn:E; inversion H; subst; clear H.
  destruct (al_solve_return_is_KKT _ _ _ _ _ _ _ _ _ _ E) as (_ & L & K & it & Hit & Hg & Hrows).
  split; [exact L|]. split; [apply vmul_nonneg; [exact L | apply pos_nonneg; exact Hsc]|]. split; [reflexivity|]. split.
  - specialize (K Hs (pos_nonneg _ Hk)). clear - K Hk. induction K as [|k0 k a b Hkk Hab IH]; [constructor|].
    inversion Hk; subst. constructor; [lra | apply IH; assumption].
  - exists xB, it. repeat split; assumption.
Qed.

Example generated_updates_nonvacuous :
  @sub_lam_update R NumR 1 2 3 = 0 /\ @sub_lam_update R NumR 1 2 (-3) = 7 /\ @sub_kappa_update R NumR 2 true 4 = 8
  /\ @sub_poor_progress R NumR 1 1 (3 / 4) (1 / 100) 4 = true /\ @sub_poor_progress R NumR (1 / 2) 1 (3 / 4) (1 / 100) 4 = false.
Proof.
  repeat split.
  - rewrite sub_lam_update_closed. unfold Rmax. destruct (Rle_dec (1 - 2 * 3) 0); lra.
  - rewrite sub_lam_update_closed. unfold Rmax. destruct (Rle_dec (1 - 2 * -3) 0); lra.
  - unfold sub_kappa_update. unfold_num. lra.
  - apply poor_progress_generated. replace (sqrt 4) with 2 by (symmetry; replace 4 with (2 * 2) by lra; apply sqrt_square; lra).
    unfold Rmax. destruct (Rle_dec (3 / 4 * 1) (10 * (1 / 100) / 2)); lra.
  - apply not_true_is_false. intros H. apply poor_progress_generated in H.
    replace (sqrt 4) with 2 in H by (symmetry; replace 4 with (2 * 2) by lra; apply sqrt_square; lra).
    unfold Rmax in H. destruct (Rle_dec (3 / 4 * 1) (10 * (1 / 100) / 2)); lra.
Qed.
