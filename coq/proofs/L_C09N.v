(* C09, "the update never returns NaN": composition of the scalar radial return with the result contract of the C17 root finder.
   For every flow stress that does not drop over the bracket (rate-independent laws with admissible constants in particular) the ONLY
   way the update can return NaN is the iteration-cap exit of the root finder (C17 finding F7); "not bracketed", 0/0 and fuel are
   excluded, flat hardening over the bracket returns the upper bracket end with zero iterations. *)
From Coq Require Import Reals Lra Lia ZArith QArith Bool List Psatz.
From Coquelicot Require Import Coquelicot.
From OV.base Require Import Num.
From OV.gen Require Import Gen_ScalarRootFind Gen_Hardening Gen_TensorMath Gen_J2Flow Gen_J2Elastic.
From OV.model Require Import M_C17 M_C09.
From OV.proofs Require Import L_C17 L_C09 L_C09r.
Import ListNotations.
Local Open Scope R_scope.

Section NaN.
  Variables Yf dYf : R -> R.
  Variables mu tol : R.
  Hypothesis Hmu : 0 < mu.
  Hypothesis Htol : 0 <= tol.

  (* the root-finder call made by update_state *)
  Definition root_call (s eo : R) : @result R :=
    rtsafe (@resid R NumR Yf mu s eo) (@dresid R NumR dYf mu) ((eo + ubR Yf mu s eo) / 2) eo (ubR Yf mu s eo) 50 0 tol.

  Lemma delta_is_root_call s eo : tol < s - Yf eo ->
    @delta_eqps_gen R NumR Yf dYf mu tol s eo = match root_call s eo with Res (Some v) _ _ _ _ _ => Some (v - eo) | _ => None end.
  Proof.
    intros Hy. unfold delta_eqps_gen. replace (is_yielding Yf tol s eo) with true by (symmetry; apply (proj2 (yielding_spec Yf tol s eo)); exact Hy).
    unfold root_call, ubR, three. unfold_num. q2r.
    replace (1 / 2 * (eo + (eo + (s - Yf eo) / (3 * mu)))) with ((eo + (eo + (s - Yf eo) / (3 * mu))) / 2) by (field; lra).
    reflexivity.
  Qed.

  Theorem nan_only_by_iteration_cap s eo : (tol < s - Yf eo -> Yf eo <= Yf (ubR Yf mu s eo)) ->
    @delta_eqps_gen R NumR Yf dYf mu tol s eo = None ->
    tol < s - Yf eo /\ tol < Yf (ubR Yf mu s eo) - Yf eo /\
    exists it F dx, root_call s eo = Res None false it F dx IterCap /\ 50 <= it.
  Proof.
    intros Hm Hn.
    assert (Hy : tol < s - Yf eo).
    { apply Rnot_le_lt. intros Hc. unfold delta_eqps_gen in Hn.
      replace (is_yielding Yf tol s eo) with false in Hn; [discriminate|]. symmetry.
      destruct (is_yielding Yf tol s eo) eqn:E; [|reflexivity]. apply (proj1 (yielding_spec Yf tol s eo)) in E. lra. }
    specialize (Hm Hy). rewrite (delta_is_root_call s eo Hy) in Hn.
    destruct (root_call s eo) as [x cv it F dx w|] eqn:E; [|exfalso; exact (never_out_of_fuel _ _ _ _ _ _ _ _ E)].
    destruct x as [v|]; [discriminate|].
    unfold root_call in E.
    pose proof (result_contract _ _ _ _ _ _ _ _ _ _ _ _ _ _ E) as (Hx & Hcv & Hnb & Hr1 & _ & _ & Hcap & Hzz & _).
    rewrite !(resid_R Yf mu) in *. rewrite (resid_lb Yf mu), (resid_ub Yf mu Hmu) in *.
    assert (Hflat : tol < Yf (ubR Yf mu s eo) - Yf eo).
    { apply Rnot_le_lt. intros Hc. assert (A : Rabs (Yf (ubR Yf mu s eo) - Yf eo) <= tol) by (rewrite Rabs_pos_eq; lra).
      destruct (Hr1 A) as (B & _). discriminate. }
    split; [exact Hy|]. split; [exact Hflat|].
    assert (Hcvf : cv = false) by (destruct cv; [exfalso; apply (proj2 Hx eq_refl); reflexivity | reflexivity]).
    assert (Hw : w = IterCap).
    { destruct w.
      - exfalso. pose proof (proj2 Hcv eq_refl). congruence.
      - exfalso. destruct (proj1 Hnb eq_refl) as (A & _). apply A.
        assert (0 < (s - Yf eo) * (Yf (ubR Yf mu s eo) - Yf eo)) by (apply Rmult_lt_0_compat; lra). lra.
      - exfalso. exact (Hzz Htol eq_refl).
      - reflexivity. }
    subst. exists it, F, dx. split; [reflexivity|]. pose proof (Hcap eq_refl) as A. cbn in A. lra.
  Qed.

  (* contrapositive, the form the property uses: unless the root finder exhausts its 50 iterations the update returns a number *)
  Theorem update_defined_unless_cap s eo : (tol < s - Yf eo -> Yf eo <= Yf (ubR Yf mu s eo)) ->
    (forall it F dx, root_call s eo <> Res None false it F dx IterCap) ->
    exists d, @delta_eqps_gen R NumR Yf dYf mu tol s eo = Some d.
  Proof.
    intros Hm Hc. destruct (delta_eqps_gen Yf dYf mu tol s eo) as [d|] eqn:E; [exists d; reflexivity|].
    destruct (nan_only_by_iteration_cap s eo Hm E) as (_ & _ & it & F & dx & A & _). exfalso. exact (Hc it F dx A).
  Qed.

  (* flat hardening over the bracket (perfect plasticity, saturated Voce): never NaN, the elastic-predictor bound is returned *)
  Theorem flat_hardening_defined s eo : tol < s - Yf eo -> Rabs (Yf (ubR Yf mu s eo) - Yf eo) <= tol ->
    @delta_eqps_gen R NumR Yf dYf mu tol s eo = Some ((s - Yf eo) / (3 * mu)).
  Proof.
    intros Hy Hf. rewrite (delta_is_root_call s eo Hy).
    destruct (root_call s eo) as [x cv it F dx w|] eqn:E; [|exfalso; exact (never_out_of_fuel _ _ _ _ _ _ _ _ E)].
    unfold root_call in E.
    pose proof (result_contract _ _ _ _ _ _ _ _ _ _ _ _ _ _ E) as (_ & _ & _ & Hr1 & _).
    rewrite !(resid_R Yf mu) in *. rewrite (resid_ub Yf mu Hmu) in *.
    destruct (Hr1 Hf) as (-> & _). f_equal. unfold ubR. ring.
  Qed.
End NaN.

(* the three rate-independent laws with admissible constants *)
Theorem nan_only_by_iteration_cap_laws (l : @law R) mu s eo dt : 0 < mu -> law_admissible l eo ->
  @delta_eqps R NumR l NoRate mu s eo dt = None ->
  exists it F dx,
    root_call (fun e => @h_flow R NumR l e + @k_flow R NumR NoRate e eo dt) (fun e => @h_slope R NumR l e + @k_slope R NumR NoRate e eo dt) mu (@tolY R NumR l) s eo
    = Res None false it F dx IterCap /\ 50 <= it.
Proof.
  intros Hmu Ha Hn. unfold delta_eqps in Hn. unfold_num.
  pose proof (tolY_nonneg l (admissible_Y0 l eo Ha)) as Ht.
  set (Yf := fun e : R => h_flow l e + k_flow NoRate e eo dt) in *.
  set (dYf := fun e : R => h_slope l e + k_slope NoRate e eo dt) in *.
  assert (Hm : tolY l < s - Yf eo -> Yf eo <= Yf (ubR Yf mu s eo)).
  { intros Hy. assert (Hub : eo <= ubR Yf mu s eo).
    { unfold ubR. assert (0 < (s - Yf eo) / (3 * mu)); [apply Rdiv_lt_0_compat; lra|lra]. }
    pose proof (admissible_flow_monotone l eo Ha eo (ubR Yf mu s eo) (Rle_refl eo) Hub) as A.
    change (h_flow l eo + k_flow NoRate eo eo dt <= h_flow l (ubR Yf mu s eo) + k_flow NoRate (ubR Yf mu s eo) eo dt).
    cbn [k_flow]. unfold_num. q2r. lra. }
  destruct (nan_only_by_iteration_cap Yf dYf mu (tolY l) Hmu Ht s eo Hm Hn) as (_ & _ & R). exact R.
Qed.
