(* C02 (round 4): element batching.  The element Hessians are a per-element map (sb_hessians = map (hk m) elems: the vmap of
   Mechanics._compute_element_stiffnesses).  Any evaluation "a batch of elements at a time" -- the harness's reference
   (index chunks of 128, the last one padded with a valid index, results concatenated and truncated) or a future batched
   implementation in FunctionSpace -- is the same list PROVIDED the batches, read in order, list the elements 0..n-1 followed
   only by padding.  A window that is shifted back to fit (lax.dynamic_slice semantics) does not satisfy this and gives a
   different list (batched_clamped_refuted). *)
From Coq Require Import List Arith Lia.
From OV.model Require Import M_C14_Dof M_C02_Assembly M_C02_MultiBlock.
Import ListNotations.

Lemma gather_app {E} (edef : E) elems a b : gather edef elems (a ++ b) = gather edef elems a ++ gather edef elems b.
Proof. unfold gather. apply map_app. Qed.

Lemma gather_seq_all {E} (edef : E) elems : gather edef elems (seq 0 (length elems)) = elems.
Proof.
  unfold gather. apply nth_ext with (d := edef) (d' := edef).
  - rewrite map_length, seq_length. reflexivity.
  - intros n Hn. rewrite map_length, seq_length in Hn.
    rewrite (nth_indep _ edef (nth 0 elems edef)) by (rewrite map_length, seq_length; exact Hn).
    rewrite (map_nth (fun i => nth i elems edef) (seq 0 (length elems)) 0 n). rewrite seq_nth by exact Hn. reflexivity.
Qed.

Lemma concat_map_gather {E H} (edef : E) (f : E -> H) elems batches :
  concat (map (fun ids => map f (gather edef elems ids)) batches) = map f (gather edef elems (concat batches)).
Proof.
  induction batches as [|b bs IH]; simpl; [reflexivity|].
  rewrite IH, gather_app, map_app. reflexivity.
Qed.

Theorem batched_map_correct {E H} (edef : E) (f : E -> H) elems batches pad :
  concat batches = seq 0 (length elems) ++ pad ->
  batched_map edef f elems batches = map f elems.
Proof.
  intros Hc. unfold batched_map. rewrite concat_map_gather, Hc, gather_app, map_app, gather_seq_all.
  rewrite <- (map_length f elems) at 1. rewrite firstn_app, Nat.sub_diag, firstn_all. simpl. apply app_nil_r.
Qed.

(* element Hessians of the single-block model, any batching *)
Corollary batched_hessians_correct {E M H} (edef : E) (hk : M -> E -> H) (m : M) elems batches pad :
  concat batches = seq 0 (length elems) ++ pad ->
  batched_map edef (hk m) elems batches = sb_hessians hk elems m.
Proof. intros. unfold sb_hessians. eapply batched_map_correct; eassumption. Qed.

(* fixed-size windows [b*c, b*c + c) whose start is clamped so that the window fits (dynamic_slice): 3 elements, windows of 2 *)
Example batched_clamped_refuted :
  clamped_windows 3 2 = [[0; 1]; [1; 2]]
  /\ batched_map 0 (fun e => e) [10; 20; 30] (clamped_windows 3 2) = [10; 20; 20]
  /\ batched_map 0 (fun e => e) [10; 20; 30] (clamped_windows 3 2) <> map (fun e => e) [10; 20; 30].
Proof. vm_compute. repeat split; discriminate. Qed.

(* non-vacuity: chunks of 2 with the last index repeated as padding *)
Example batched_nonvacuous :
  concat [[0; 1]; [2; 2]] = seq 0 (length [10; 20; 30]) ++ [2]
  /\ batched_map 0 (fun e => 2 * e) [10; 20; 30] [[0; 1]; [2; 2]] = [20; 40; 60].
Proof. vm_compute. split; reflexivity. Qed.
