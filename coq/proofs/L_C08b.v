(* C08 (deepening): the complete three-branch (Prony) incremental energy of MultiBranchHyperViscoelastic is objective and
   isotropic; isotropy of the stateful models (J2 logarithmic / seth hill, single- and three-branch viscoelastic) for EVERY admissible
   internal state, the reference-configuration state tensors being rotated along with the reference configuration.
   Method: per-branch bridge (generated kernels -> function of tr Ee and Ee:Ee, Ee = lss((F Fv^-1)^T (F Fv^-1))) by unfolding + field,
   then the matrix algebra of L_C08; the inverse (cofactor formula of the translator / TensorMath.inv) is characterised as the
   two-sided inverse, which gives inv(Q^T A Q) = Q^T inv(A) Q without expanding anything. *)
From Coq Require Import Reals Lra QArith Nsatz.
From Coquelicot Require Import Coquelicot.
From OV.base Require Import Num.
From OV.gen Require Import Gen_TensorMath Gen_LinearElastic Gen_Neohookean Gen_Gent Gen_J2Elastic
  Gen_HyperViscoelastic Gen_MultiBranchHyperViscoelastic Gen_PhaseFieldThreshold.
From OV.model Require Import M_C08 M_C08b.
From OV.proofs Require Import L_C08.
Local Open Scope R_scope.

(* ---------- the inverse used by the translator for np.linalg.inv, and TensorMath.inv: two-sided inverse, conjugation ---------- *)
Lemma linv_r (A : M) : mdet A <> 0 -> mmul A (linv A) = mid.
Proof. dm A. unfold linv. mnum. intros Hd. f_equal; field; exact Hd. Qed.
Lemma linv_l (A : M) : mdet A <> 0 -> mmul (linv A) A = mid.
Proof. dm A. unfold linv. mnum. intros Hd. f_equal; field; exact Hd. Qed.
Lemma linv_unique (A B : M) : mdet A <> 0 -> mmul A B = mid -> B = linv A.
Proof. intros Hd HB. rewrite <- (mmul_id_l B), <- (linv_l A Hd), mmul_assoc, HB, mmul_id_r. reflexivity. Qed.
Lemma mdet_conj Q (A : M) : rotation Q -> mdet (conj Q A) = mdet A.
Proof. intros (H1 & H2 & H3). unfold conj. rewrite !mdet_mmul, mdet_mtr, H3. ring. Qed.
Lemma linv_conj Q (A : M) : rotation Q -> mdet A <> 0 -> linv (conj Q A) = conj Q (linv A).
Proof.
  intros HR Hd. symmetry. apply linv_unique.
  - rewrite mdet_conj by exact HR. exact Hd.
  - rewrite conj_mul, linv_r, conj_id by assumption. reflexivity.
Qed.
Lemma tinv_linv (A : M) : mdet A <> 0 -> tinv A = linv A.
Proof. dm A. unfold tinv, linv, t_inv. mnum. intros Hd. f_equal; field; exact Hd. Qed.
Lemma tinv_conj Q (A : M) : rotation Q -> mdet A <> 0 -> tinv (conj Q A) = conj Q (tinv A).
Proof. intros HR Hd. rewrite !tinv_linv by (rewrite ?mdet_conj by exact HR; exact Hd). apply linv_conj; assumption. Qed.

Lemma CCe_sym H G : msym (CCe H G).
Proof. unfold msym, CCe. rewrite mtr_mmul, mtr_mtr. reflexivity. Qed.
(* rotation of the reference configuration with the internal (reference-configuration) tensor rotated along: G -> Q^T G Q *)
Lemma CCe_rotR Q H G : rotation Q -> CCe (rotR Q H) (conj Q G) = conj Q (CCe H G).
Proof.
  intros HR. destruct HR as (H1 & H2 & H3). unfold CCe. rewrite defgrad_rotR.
  replace (mmul (mmul (defgrad H) Q) (conj Q G)) with (mmul (mmul (defgrad H) G) Q).
  - unfold conj. rewrite mtr_mmul, !mmul_assoc. reflexivity.
  - unfold conj. rewrite !mmul_assoc. rewrite <- (mmul_assoc Q (mtr Q)), H2, mmul_id_l. reflexivity.
Qed.

(* ---------- MultiBranchHyperViscoelastic: the complete three-branch (Prony) incremental energy ---------- *)
Definition mb_pair (Gn tau dt a b : R) : R * R :=
  (Gn * ((1 - hv_c tau dt) * (1 - hv_c tau dt)) * (b - a * a / 3), Gn * tau * (hv_c tau dt / dt * (hv_c tau dt / dt)) * (b - a * a / 3)).
Definition mb_tail (lss : M -> M) (Gn tau dt : R) (Fv H : M) : R :=
  let Ee := lss (CCe H (linv Fv)) in hv_tail Gn tau dt (mtrace Ee) (mddot Ee Ee).

Ltac mb_branch_tac lss p Fv H :=
  destruct p as [[[[[[[?K ?G] ?G1] ?t1] ?G2] ?t2] ?G3] ?t3]; dm H; dm Fv;
  unfold mb_pair, hv_c, CCe, linv; mnum;
  let Hd := fresh "Hd" in let Hdt := fresh "Hdt" in let Htau := fresh "Htau" in intros Hd Hdt Htau;
  sync_arg lss ltac:(f_equal; field; let Hx := fresh "Hx" in intro Hx; apply Hd; (etransitivity; [|exact Hx]); ring);
  match goal with |- context [lss ?X] => destruct (lss X) end; mnum;
  f_equal; field; repeat split; lra.

Lemma mb_branch_b1 lss p Fv dt H : mdet Fv <> 0 -> 0 < dt -> (let '(_, _, _, t1, _, _, _, _) := p in 0 < t1) ->
  mb_branch (@_compute_state_increment_b1 R NumR) (@_neq_strain_energy_b1 R NumR) (@_dissipation_potential_b1 R NumR) lss p Fv dt H =
  let '(_, _, G1, t1, _, _, _, _) := p in let Ee := lss (CCe H (linv Fv)) in mb_pair G1 t1 dt (mtrace Ee) (mddot Ee Ee).
Proof. mb_branch_tac lss p Fv H. Qed.
Lemma mb_branch_b2 lss p Fv dt H : mdet Fv <> 0 -> 0 < dt -> (let '(_, _, _, _, _, t2, _, _) := p in 0 < t2) ->
  mb_branch (@_compute_state_increment_b2 R NumR) (@_neq_strain_energy_b2 R NumR) (@_dissipation_potential_b2 R NumR) lss p Fv dt H =
  let '(_, _, _, _, G2, t2, _, _) := p in let Ee := lss (CCe H (linv Fv)) in mb_pair G2 t2 dt (mtrace Ee) (mddot Ee Ee).
Proof. mb_branch_tac lss p Fv H. Qed.
Lemma mb_branch_b3 lss p Fv dt H : mdet Fv <> 0 -> 0 < dt -> (let '(_, _, _, _, _, _, _, t3) := p in 0 < t3) ->
  mb_branch (@_compute_state_increment_b3 R NumR) (@_neq_strain_energy_b3 R NumR) (@_dissipation_potential_b3 R NumR) lss p Fv dt H =
  let '(_, _, _, _, _, _, G3, t3) := p in let Ee := lss (CCe H (linv Fv)) in mb_pair G3 t3 dt (mtrace Ee) (mddot Ee Ee).
Proof. mb_branch_tac lss p Fv H. Qed.

Definition mb_taus_pos (p : p8) : Prop := let '(_, _, _, t1, _, t2, _, t3) := p in 0 < t1 /\ 0 < t2 /\ 0 < t3.
Lemma mb_bridge lss p Fv1 Fv2 Fv3 dt H :
  JJ H <> 0 -> mdet Fv1 <> 0 -> mdet Fv2 <> 0 -> mdet Fv3 <> 0 -> 0 < dt -> mb_taus_pos p ->
  E_mb lss p Fv1 Fv2 Fv3 dt H =
  let '(K, G, G1, t1, G2, t2, G3, t3) := p in
  psi_adagio K G (I1 H) (JJ H) + mb_tail lss G1 t1 dt Fv1 H + mb_tail lss G2 t2 dt Fv2 H + mb_tail lss G3 t3 dt Fv3 H.
Proof.
  intros HJ Hd1 Hd2 Hd3 Hdt Htau. unfold E_mb.
  rewrite (mbeq_bridge p H HJ).
  destruct p as [[[[[[[K G] G1] t1] G2] t2] G3] t3]. destruct Htau as (Ht1 & Ht2 & Ht3).
  rewrite mb_branch_b1, mb_branch_b2, mb_branch_b3 by assumption.
  unfold mb_tail, hv_tail, mb_pair. cbv zeta.
  cbv beta iota delta [nadd nmul nzero nZ nconst NumR Q2R' Qnum Qden inject_Z]. 
  ring.
Qed.

Lemma mb_tail_rotL lss Gn tau dt Fv Q H : rotation Q -> mb_tail lss Gn tau dt Fv (rotL Q H) = mb_tail lss Gn tau dt Fv H.
Proof. intros HR. unfold mb_tail. rewrite CCe_rotL by exact HR. reflexivity. Qed.
Lemma mb_tail_rotR lss Gn tau dt Fv Q H : LogSqrtSpec lss -> rotation Q -> mdet Fv <> 0 ->
  mb_tail lss Gn tau dt (conj Q Fv) (rotR Q H) = mb_tail lss Gn tau dt Fv H.
Proof.
  intros HS HR Hd. unfold mb_tail. rewrite linv_conj, CCe_rotR by assumption. cbv zeta.
  rewrite (lss_equivariant _ HS) by (first [assumption | apply CCe_sym]).
  rewrite trace_conj, ddot_conj by exact HR. reflexivity.
Qed.

Theorem mb_objective lss p Fv1 Fv2 Fv3 dt Q H :
  rotation Q -> 0 < JJ H -> mdet Fv1 <> 0 -> mdet Fv2 <> 0 -> mdet Fv3 <> 0 -> 0 < dt -> mb_taus_pos p ->
  E_mb lss p Fv1 Fv2 Fv3 dt (rotL Q H) = E_mb lss p Fv1 Fv2 Fv3 dt H.
Proof.
  intros HR HJ Hd1 Hd2 Hd3 Hdt Htau. rewrite !mb_bridge by (try assumption; inv_rw HR; lra).
  destruct p as [[[[[[[K G] G1] t1] G2] t2] G3] t3]. inv_rw HR. rewrite !mb_tail_rotL by exact HR. reflexivity.
Qed.
(* isotropy for EVERY admissible viscous state: the three viscous distortions live in the reference configuration and rotate with it *)
Theorem mb_isotropic lss p Fv1 Fv2 Fv3 dt Q H : LogSqrtSpec lss ->
  rotation Q -> 0 < JJ H -> mdet Fv1 <> 0 -> mdet Fv2 <> 0 -> mdet Fv3 <> 0 -> 0 < dt -> mb_taus_pos p ->
  E_mb lss p (conj Q Fv1) (conj Q Fv2) (conj Q Fv3) dt (rotR Q H) = E_mb lss p Fv1 Fv2 Fv3 dt H.
Proof.
  intros HS HR HJ Hd1 Hd2 Hd3 Hdt Htau.
  rewrite !mb_bridge by (try assumption; rewrite ?mdet_conj by exact HR; try assumption; inv_rw HR; lra).
  destruct p as [[[[[[[K G] G1] t1] G2] t2] G3] t3]. inv_rw HR. rewrite !mb_tail_rotR by assumption. reflexivity.
Qed.
Theorem mb_isotropic_virgin lss p dt Q H : LogSqrtSpec lss -> rotation Q -> 0 < JJ H -> 0 < dt -> mb_taus_pos p ->
  E_mb lss p mid mid mid dt (rotR Q H) = E_mb lss p mid mid mid dt H.
Proof.
  intros HS HR HJ Hdt Htau. rewrite <- (mb_isotropic lss p mid mid mid dt Q H) by (try assumption; rewrite mdet_mid; lra).
  rewrite (conj_id Q HR). reflexivity.
Qed.
Theorem mb_rest lss p dt : LogSqrtSpec lss -> 0 < dt -> mb_taus_pos p -> E_mb lss p mid mid mid dt mzero = 0.
Proof.
  intros HS Hdt Htau. rewrite mb_bridge by (try assumption; try (rewrite mdet_mid; lra); rewrite JJ_zero; lra).
  destruct p as [[[[[[[K G] G1] t1] G2] t2] G3] t3]. unfold mb_tail.
  rewrite linv_id, CCe_id, CC_zero, I1_zero, JJ_zero, psi_adagio_rest. cbv zeta.
  rewrite (lss_identity _ HS), mtrace_mzero, mddot_mzero, !hv_tail_zero. ring.
Qed.

(* ---------- isotropy with a NON-virgin internal state (rotated along with the reference configuration) ---------- *)
Theorem hv_isotropic lss p Fv dt Q H : LogSqrtSpec lss -> rotation Q -> 0 < JJ H -> mdet Fv <> 0 -> 0 < dt ->
  (let '(_, _, _, tau) := p in 0 < tau) -> E_hv lss p (conj Q Fv) dt (rotR Q H) = E_hv lss p Fv dt H.
Proof.
  intros HS HR HJ Hd Hdt Htau. rewrite !hv_bridge by (try assumption; rewrite ?mdet_conj by exact HR; try assumption; inv_rw HR; lra).
  destruct p as [[[K G] Gn] tau]. inv_rw HR. rewrite linv_conj, CCe_rotR by assumption.
  cbv zeta. rewrite (lss_equivariant _ HS) by (first [assumption | apply CCe_sym]).
  rewrite trace_conj, ddot_conj by exact HR. reflexivity.
Qed.
Theorem j2_log_isotropic lss p eqps Fp Q H : LogSqrtSpec lss -> rotation Q -> mdet Fp <> 0 ->
  E_j2_log lss p eqps (conj Q Fp) (rotR Q H) = E_j2_log lss p eqps Fp H.
Proof.
  intros HS HR Hd. unfold E_j2_log. rewrite !j2_strain_log_bridge by (rewrite ?mdet_conj by exact HR; exact Hd).
  rewrite tinv_conj, CCe_rotR, JJ_rotR by assumption.
  rewrite log_strain_of_conj by (first [assumption | apply CCe_sym]). apply W_j2_conj. exact HR.
Qed.
Theorem j2_seth_hill_isotropic pw p eqps Ep Q H : PowSpec pw -> rotation Q ->
  E_j2_seth_hill pw p eqps (conj Q Ep) (rotR Q H) = E_j2_seth_hill pw p eqps Ep H.
Proof.
  intros HP HR. unfold E_j2_seth_hill. rewrite !j2_strain_seth_hill_bridge, CC_rotR by exact HR.
  rewrite (pw_equivariant _ HP) by (first [assumption | apply CC_sym]).
  rewrite <- (conj_id Q HR) at 1. rewrite <- conj_sub, <- conj_scal, <- conj_sub. apply W_j2_conj. exact HR.
Qed.

(* the three-call-site variant used by the correspondence stream is the same function (for every carrier, hence also at binary64) *)
Lemma E_mb_E_mb3 {T} {NT : Num T} (lss : mat T -> mat T) p Fv1 Fv2 Fv3 dt H :
  E_mb lss p Fv1 Fv2 Fv3 dt H = E_mb3 lss lss lss p Fv1 Fv2 Fv3 dt H.
Proof. reflexivity. Qed.

Example nonvacuous_witness_mb :
  mb_taus_pos (8, 3 / 2, 3, 7 / 10, 2, 7, 1, 70) /\ mdet (mk 1 (/ 4) 0 0 1 0 0 (/ 5) 1) <> 0
  /\ conj (mk 0 (-1) 0 1 0 0 0 0 1) (mk 1 (/ 4) 0 0 1 0 0 (/ 5) 1) <> mk 1 (/ 4) 0 0 1 0 0 (/ 5) 1.
Proof.
  split; [unfold mb_taus_pos; lra|]. split; [mnum; lra|].
  unfold conj. mnum. intros Hc. injection Hc. intros. lra.
Qed.
