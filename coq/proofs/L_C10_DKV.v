(* C10: Daleckii-Krein for NON-DIAGONAL arguments under the eigh contract A = V diag(lam) V^T, V orthogonal:
   the JVP helper returns the derivative of the matrix monomial / matrix polynomial along A + t sym(E). *)
From Coq Require Import Reals Lra Lia Bool Arith List.
From Coquelicot Require Import Coquelicot.
From OV.base Require Import Num.
From OV.model Require Import M_C10.
From OV.proofs Require Import L_C10 L_C10_DK.
Import ListNotations.
Local Open Scope R_scope.

Definition tr (A : Rm) : Rm := fun i j => A j i.
Definition eq3 (A B : Rm) : Prop := forall i j, (i < 3)%nat -> (j < 3)%nat -> A i j = B i j.
(* the eigh contract on V: orthogonal (both products; for square matrices either implies the other, not needed here) *)
Definition orth (V : Rm) : Prop := eq3 (mm (tr V) V) I3 /\ eq3 (mm V (tr V)) I3.
Definition cj (V M : Rm) : Rm := mm V (mm M (tr V)).          (* V M V^T *)
Definition symd (E : Rm) : Rm := fun a b => (E a b + E b a) / 2.

Lemma mm_assoc A B C i j : mm (mm A B) C i j = mm A (mm B C) i j.
Proof. unfold mm, s3. ring. Qed.

Lemma mm_ext3 A A' B B' i j :
  (forall k, (k < 3)%nat -> A i k = A' i k) -> (forall k, (k < 3)%nat -> B k j = B' k j) -> mm A B i j = mm A' B' i j.
Proof. intros HA HB. unfold mm, s3. rewrite !HA, !HB by lia. reflexivity. Qed.

Lemma mm_I3_l B i j : (i < 3)%nat -> mm I3 B i j = B i j.
Proof. intros Hi. destruct i as [|[|[|i]]]; try lia; unfold mm, s3, I3; cbn [Nat.eqb]; ring. Qed.
Lemma mm_I3_r A i j : (j < 3)%nat -> mm A I3 i j = A i j.
Proof. intros Hj. destruct j as [|[|[|j]]]; try lia; unfold mm, s3, I3; cbn [Nat.eqb]; ring. Qed.

Lemma cj_ext3 V M N i j : eq3 M N -> cj V M i j = cj V N i j.
Proof.
  intros H. unfold cj. apply mm_ext3; [reflexivity|]. intros k Hk. apply mm_ext3; [|reflexivity].
  intros l Hl. apply H; assumption.
Qed.

(* (V M V^T)(V N V^T) = V (M N) V^T *)
Lemma cj_mm V M N : orth V -> eq3 (mm (cj V M) (cj V N)) (cj V (mm M N)).
Proof.
  intros [HO _] i j Hi Hj. unfold cj.
  transitivity (mm V (mm M (mm (mm (tr V) V) (mm N (tr V)))) i j); [unfold mm, s3; ring|].
  transitivity (mm V (mm M (mm N (tr V))) i j); [|unfold mm, s3; ring].
  apply mm_ext3; [reflexivity|]. intros k Hk. apply mm_ext3; [reflexivity|]. intros l Hl.
  rewrite (mm_ext3 (mm (tr V) V) I3 (mm N (tr V)) (mm N (tr V)) l j); [apply mm_I3_l; exact Hl| |reflexivity].
  intros m Hm. apply HO; assumption.
Qed.

Lemma cj_I3 V : orth V -> eq3 (cj V I3) I3.
Proof.
  intros [_ HO] i j Hi Hj. unfold cj. rewrite <- (HO i j Hi Hj).
  apply mm_ext3; [reflexivity|]. intros k Hk. apply mm_I3_l. exact Hk.
Qed.

Lemma mpow_ext3 A B n : eq3 A B -> eq3 (mpow A n) (mpow B n).
Proof.
  intros H. induction n; intros i j Hi Hj; [reflexivity|]. cbn [mpow].
  apply mm_ext3; intros k Hk; [apply IHn|apply H]; assumption.
Qed.

Lemma mpow_cj V M n : orth V -> eq3 (mpow (cj V M) n) (cj V (mpow M n)).
Proof.
  intros HO. induction n; intros i j Hi Hj.
  - cbn [mpow]. symmetry. apply cj_I3; assumption.
  - cbn [mpow]. rewrite <- (cj_mm V (mpow M n) M HO i j Hi Hj).
    apply mm_ext3; intros k Hk; [apply IHn; assumption|reflexivity].
Qed.

(* V (V^T S V) V^T = S *)
Lemma cj_cj_tr V S : orth V -> eq3 (cj V (cj (tr V) S)) S.
Proof.
  intros [_ HO] i j Hi Hj. unfold cj.
  transitivity (mm (mm V (tr V)) (mm S (mm V (tr V))) i j); [unfold mm, s3, tr; ring|].
  rewrite (mm_ext3 (mm V (tr V)) I3 (mm S (mm V (tr V))) (mm S I3) i j).
  - rewrite mm_I3_l by exact Hi. apply mm_I3_r. exact Hj.
  - intros k Hk. apply HO; assumption.
  - intros k Hk. apply mm_ext3; [reflexivity|]. intros l Hl. apply HO; assumption.
Qed.

Lemma line_cj V D S t : orth V -> eq3 (line (cj V D) S t) (cj V (line D (cj (tr V) S) t)).
Proof.
  intros HO i j Hi Hj.
  transitivity (cj V D i j + t * cj V (cj (tr V) S) i j); [|unfold line, cj, mm, s3; ring].
  unfold line. rewrite (cj_cj_tr V S HO i j Hi Hj). reflexivity.
Qed.

Lemma s3_derive (g : R -> nat -> R) (dg : nat -> R) x :
  (forall k, is_derive (fun t => g t k) x (dg k)) -> is_derive (fun t => s3 (g t)) x (s3 dg).
Proof.
  intros H. unfold s3.
  apply (is_derive_plus (V := R_NormedModule)); [apply (is_derive_plus (V := R_NormedModule))|]; apply H.
Qed.

Lemma cj_derive V (M : R -> Rm) (dM : Rm) x i j :
  (forall k l, is_derive (fun t => M t k l) x (dM k l)) -> is_derive (fun t => cj V (M t) i j) x (cj V dM i j).
Proof.
  intros H. unfold cj, mm.
  apply (s3_derive (fun t k => V i k * s3 (fun l => M t k l * tr V l j)) (fun k => V i k * s3 (fun l => dM k l * tr V l j))).
  intros k. apply (is_derive_scal (fun t => s3 (fun l => M t k l * tr V l j)) x (V i k)).
  apply (s3_derive (fun t l => M t k l * tr V l j) (fun l => dM k l * tr V l j)).
  intros l. apply is_derive_ext with (f := fun t => tr V l j * M t k l); [intros t; apply Rmult_comm|].
  replace (dM k l * tr V l j) with (tr V l j * dM k l) by ring.
  apply (is_derive_scal (fun t => M t k l) x (tr V l j)). apply H.
Qed.

(* the helper, for ANY V, in conjugation form: V (h o (V^T sym(E) V)) V^T -- pure algebra (h is symmetric by construction) *)
Lemma helper_conj (df : R -> R) rel lam (V E : Rm) i j :
  @jvp_helper R NumR df rel lam V E i j
  = cj V (fun k l => @h_matrix R NumR df rel lam k l * cj (tr V) (symd E) k l) i j.
Proof.
  unfold jvp_helper, msym, mmul, mtr, sum3, cj, mm, s3, tr, symd, h_matrix.
  generalize (@rd_guard R NumR df rel (lam 0%nat) (lam 1%nat)) (@rd_guard R NumR df rel (lam 1%nat) (lam 2%nat))
             (@rd_guard R NumR df rel (lam 2%nat) (lam 0%nat)) (df (lam 0%nat)) (df (lam 1%nat)) (df (lam 2%nat)).
  intros h01 h12 h20 d0 d1 d2.
  cbv beta iota zeta delta [nunit nzero nhalf nZ]; unfold_num; q2r; field.
Qed.

(* the divided-difference matrix for any (df, rel) whose guarded entry is a symmetric two-argument function DD with DD x x = df x *)
Lemma h_matrix_gen (df : R -> R) rel lam (DD : R -> R -> R) :
  (forall x y, @rd_guard R NumR df rel x y = DD x y) -> (forall x, DD x x = df x) -> (forall x y, DD x y = DD y x) ->
  eq3 (@h_matrix R NumR df rel lam) (fun k l => DD (lam k) (lam l)).
Proof.
  intros G Hd Hs i j Hi Hj.
  destruct i as [|[|[|i]]]; try lia; destruct j as [|[|[|j]]]; try lia; unfold h_matrix;
    rewrite ?G; try (symmetry; apply Hd); try reflexivity; apply Hs.
Qed.

Lemma guard_monomial n rel : (forall a b, a <> b -> rel a b = (a ^ n - b ^ n) / (a - b)) ->
  forall x y, @rd_guard R NumR (fun x => INR n * x ^ (n - 1)) rel x y = dd n x y.
Proof.
  intros Hrel x y. rewrite (rd_guard_divided_difference (fun x => x ^ n)) by exact Hrel.
  destruct (Req_EM_T x y) as [->|H]; [symmetry; apply dd_confluent|symmetry; apply dd_quotient; exact H].
Qed.

(* derivative of the matrix monomial along A + t S, A = V diag(lam) V^T *)
Lemma mpow_line_cj_derive V lam A S n i j : (i < 3)%nat -> (j < 3)%nat -> orth V -> eq3 A (cj V (Dg lam)) ->
  is_derive (fun t => mpow (line A S t) n i j) 0 (cj V (fun k l => dd n (lam k) (lam l) * cj (tr V) S k l) i j).
Proof.
  intros Hi Hj HO HA.
  apply is_derive_ext with (f := fun t => cj V (mpow (line (Dg lam) (cj (tr V) S) t) n) i j).
  - intros t. rewrite <- (mpow_cj V _ n HO i j Hi Hj). apply mpow_ext3; try assumption.
    intros a b Ha Hb. rewrite <- (line_cj V (Dg lam) S t HO a b Ha Hb). unfold line. rewrite (HA a b Ha Hb). reflexivity.
  - rewrite (cj_ext3 V (fun k l => dd n (lam k) (lam l) * cj (tr V) S k l) (Dpow (Dg lam) (cj (tr V) S) n) i j).
    + apply cj_derive. intros k l. apply mpow_derive.
    + intros k l Hk Hl. symmetry. apply Dpow_diag; assumption.
Qed.

(* Daleckii-Krein, monomial, non-diagonal argument *)
Lemma daleckii_krein_monomial_eigh n rel lam (V A E : Rm) i j : (i < 3)%nat -> (j < 3)%nat ->
  orth V -> eq3 A (cj V (Dg lam)) ->
  (forall a b, a <> b -> rel a b = (a ^ n - b ^ n) / (a - b)) ->
  is_derive (fun t => mpow (line A (symd E) t) n i j) 0 (@jvp_helper R NumR (fun x => INR n * x ^ (n - 1)) rel lam V E i j).
Proof.
  intros Hi Hj HO HA Hrel. rewrite helper_conj.
  rewrite (cj_ext3 V _ (fun k l => dd n (lam k) (lam l) * cj (tr V) (symd E) k l) i j).
  - apply mpow_line_cj_derive; assumption.
  - intros k l Hk Hl. f_equal.
    apply (h_matrix_gen _ rel lam (dd n) (guard_monomial n rel Hrel) (dd_confluent n) (dd_sym n)); assumption.
Qed.

(* ------------------------------------------------------------------ polynomials p(x) = sum_m c_m x^(k+m) *)
Fixpoint peval (k : nat) (c : list R) (x : R) : R := match c with [] => 0 | c0 :: cs => c0 * x ^ k + peval (S k) cs x end.
Fixpoint pderiv (k : nat) (c : list R) (x : R) : R := match c with [] => 0 | c0 :: cs => c0 * (INR k * x ^ (k - 1)) + pderiv (S k) cs x end.
Fixpoint pdd (k : nat) (c : list R) (x y : R) : R := match c with [] => 0 | c0 :: cs => c0 * dd k x y + pdd (S k) cs x y end.
Fixpoint mpoly (k : nat) (c : list R) (A : Rm) : Rm :=
  match c with [] => fun _ _ => 0 | c0 :: cs => fun i j => c0 * mpow A k i j + mpoly (S k) cs A i j end.

Lemma pdd_quotient k c x y : x <> y -> pdd k c x y = (peval k c x - peval k c y) / (x - y).
Proof.
  intros H. revert k. induction c as [|c0 cs IH]; intros k; cbn [pdd peval]; [field; lra|].
  rewrite IH, dd_quotient by exact H. field. lra.
Qed.
Lemma pdd_confluent k c x : pdd k c x x = pderiv k c x.
Proof. revert k. induction c as [|c0 cs IH]; intros k; cbn [pdd pderiv]; [reflexivity|]. rewrite IH, dd_confluent. reflexivity. Qed.
Lemma pdd_sym k c x y : pdd k c x y = pdd k c y x.
Proof. revert k. induction c as [|c0 cs IH]; intros k; cbn [pdd]; [reflexivity|]. rewrite IH, dd_sym. reflexivity. Qed.

Lemma guard_poly k c rel : (forall a b, a <> b -> rel a b = (peval k c a - peval k c b) / (a - b)) ->
  forall x y, @rd_guard R NumR (pderiv k c) rel x y = pdd k c x y.
Proof.
  intros Hrel x y. rewrite (rd_guard_divided_difference (peval k c)) by exact Hrel.
  destruct (Req_EM_T x y) as [->|H]; [symmetry; apply pdd_confluent|symmetry; apply pdd_quotient; exact H].
Qed.

Lemma mpoly_line_cj_derive V lam A Sd c : orth V -> eq3 A (cj V (Dg lam)) ->
  forall k i j, (i < 3)%nat -> (j < 3)%nat ->
  is_derive (fun t => mpoly k c (line A Sd t) i j) 0 (cj V (fun a b => pdd k c (lam a) (lam b) * cj (tr V) Sd a b) i j).
Proof.
  intros HO HA. induction c as [|c0 cs IH]; intros k i j Hi Hj.
  - cbn [mpoly pdd]. evar_last; [apply (is_derive_const (V := R_NormedModule))|].
    unfold zero; simpl. unfold cj, mm, s3. ring.
  - cbn [mpoly pdd]. evar_last.
    + apply (is_derive_plus (V := R_NormedModule)).
      * apply (is_derive_scal (fun t => mpow (line A Sd t) k i j) 0 c0). apply (mpow_line_cj_derive V lam A Sd k i j Hi Hj HO HA).
      * apply (IH (S k) i j Hi Hj).
    + unfold plus; simpl. unfold cj, mm, s3. ring.
Qed.

(* Daleckii-Krein for polynomials, non-diagonal argument under the eigh contract *)
Lemma daleckii_krein_polynomial_eigh c rel lam (V A E : Rm) i j : (i < 3)%nat -> (j < 3)%nat ->
  orth V -> eq3 A (cj V (Dg lam)) ->
  (forall a b, a <> b -> rel a b = (peval 0 c a - peval 0 c b) / (a - b)) ->
  is_derive (fun t => mpoly 0 c (line A (symd E) t) i j) 0 (@jvp_helper R NumR (pderiv 0 c) rel lam V E i j).
Proof.
  intros Hi Hj HO HA Hrel. rewrite helper_conj.
  rewrite (cj_ext3 V _ (fun k l => pdd 0 c (lam k) (lam l) * cj (tr V) (symd E) k l) i j).
  - apply mpoly_line_cj_derive; assumption.
  - intros k l Hk Hl. f_equal.
    apply (h_matrix_gen _ rel lam (pdd 0 c) (guard_poly 0 c rel Hrel) (pdd_confluent 0 c) (pdd_sym 0 c)); assumption.
Qed.

(* the primal: the matrix polynomial of A = V diag(lam) V^T is V diag(p(lam)) V^T -- what symmetric_matrix_function computes *)
Lemma mpoly_cj_diag V lam A c : orth V -> eq3 A (cj V (Dg lam)) ->
  forall k, eq3 (mpoly k c A) (cj V (Dg (fun a => peval k c (lam a)))).
Proof.
  intros HO HA. induction c as [|c0 cs IH]; intros k i j Hi Hj.
  - cbn [mpoly peval]. unfold cj, mm, s3, Dg; cbn [Nat.eqb]. ring.
  - cbn [mpoly peval]. rewrite (IH (S k) i j Hi Hj).
    rewrite (mpow_ext3 A (cj V (Dg lam)) k HA i j Hi Hj), (mpow_cj V (Dg lam) k HO i j Hi Hj).
    rewrite (cj_ext3 V (mpow (Dg lam) k) (Dg (fun a => lam a ^ k)) i j).
    + unfold cj, mm, s3, Dg; cbn [Nat.eqb]. ring.
    + intros a b Ha Hb. rewrite mpow_diag by assumption. reflexivity.
Qed.

(* ------------------------------------------------------------------ non-vacuity: a genuinely non-diagonal instance *)
Definition Vrot : Rm := fun i j =>
  match i, j with
  | 0%nat, 0%nat => 3 / 5 | 0%nat, 1%nat => - (4 / 5) | 1%nat, 0%nat => 4 / 5 | 1%nat, 1%nat => 3 / 5 | 2%nat, 2%nat => 1 | _, _ => 0
  end.

Lemma orth_Vrot : orth Vrot.
Proof.
  split; intros i j Hi Hj; destruct i as [|[|[|i]]]; try lia; destruct j as [|[|[|j]]]; try lia;
    unfold mm, s3, tr, Vrot, I3; cbn [Nat.eqb]; field.
Qed.

Lemma dkv_nonvacuous :
  orth Vrot /\ eq3 (cj Vrot (Dg (fun k => INR k + 1))) (cj Vrot (Dg (fun k => INR k + 1)))
  /\ cj Vrot (Dg (fun k => INR k + 1)) 0%nat 1%nat = - (12 / 25)
  /\ peval 0 [1; 0; 2] 3 = 19 /\ pderiv 0 [1; 0; 2] 3 = 12 /\ pdd 0 [1; 0; 2] 3 5 = (peval 0 [1; 0; 2] 3 - peval 0 [1; 0; 2] 5) / (3 - 5).
Proof.
  split; [exact orth_Vrot|]. split; [intros i j _ _; reflexivity|]. split; [|split; [|split]].
  - unfold cj, mm, s3, tr, Dg, Vrot; cbn [Nat.eqb]. simpl. field.
  - simpl. ring.
  - simpl. ring.
  - apply pdd_quotient. lra.
Qed.
