(* C04, part I: NewtonSolver.globalized_newton_step (model/M_C04_AL.v, Section GNewton), arbitrary oracles (residual, GMRES
   Newton step, directional slope).  Descent lemma: whenever a step is returned, the residual energy 0.5|r|^2 at x+s is strictly
   below the one at x, by the factor 1 - t(1 - etak') of the Eisenstat-Walker test with the forcing term etak' actually in force;
   the forcing term stays in [etak, 1); the returned step is the Newton step scaled by the product of the cutback factors, each
   in [0.01, 0.5]. *)
From Coq Require Import Reals Lra Lia QArith List Bool Psatz.
From OV.base Require Import Num.
From OV.gen Require Import Gen_ConstrainedObjective Gen_AlSolver Gen_BoundConstrainedObjective.
From OV.model Require Import M_C04_AL.
From OV.proofs Require Import L_C04.
Import ListNotations.
Local Open Scope R_scope.

Lemma renergy_nonneg r : 0 <= @renergy R NumR r.
Proof.
  unfold renergy, nhalf. unfold_num. q2r. pose proof (Rle_0_sqr (@norm2 R NumR r)) as H. unfold Rsqr in H.
  change (nsqrt (nsum (map (fun a : R => nmul a a) r))) with (@norm2 R NumR r). lra.
Qed.

Lemma c_001_val : @c_001 R NumR = 1 / 100.
Proof. unfold c_001. unfold_num. q2r. reflexivity. Qed.
Lemma c_05_val : @c_05 R NumR = 1 / 2.
Proof. unfold c_05, nhalf. unfold_num. q2r. reflexivity. Qed.

Lemma vscale_vscale a b (s : list R) : @vscale R NumR a (@vscale R NumR b s) = @vscale R NumR (b * a) s.
Proof. unfold vscale. rewrite map_map. apply map_ext. intros v. unfold_num. ring. Qed.
Lemma vscale_one (s : list R) : @vscale R NumR 1 s = s.
Proof. unfold vscale. rewrite <- (map_id s) at 2. apply map_ext. intros v. unfold_num. ring. Qed.

Section GN.
  Variable orc : @gn_oracles R.
  Variables (x : list R) (t rE0 : R).
  Hypothesis Ht : 0 < t.
  Hypothesis HE0 : 0 <= rE0.

  (* loop invariant: rEN is the energy at x+s (site = count+1), etak < 1 *)
  Lemma gn_loop_spec fuel : forall count s etak rEN r ev,
    gn_loop orc fuel count x s etak t rE0 rEN = (Some r, ev) ->
    etak < 1 -> rEN = renergy (gn_res orc (S count) (@vadd R NumR x s)) ->
    exists k c etak',
      (k < fuel)%nat /\ r = @vscale R NumR c s /\ (1 / 100) ^ k <= c <= (1 / 2) ^ k
      /\ etak <= etak' < 1
      /\ renergy (gn_res orc (S (count + k)) (@vadd R NumR x r)) < (1 - t * (1 - etak')) * rE0
      /\ renergy (gn_res orc (S (count + k)) (@vadd R NumR x r)) < rE0.
  Proof.
    induction fuel as [|f IH]; intros count s etak rEN r ev; cbn [gn_loop]; [intros H; inversion H|].
    intros H He HrEN.
    destruct (nltb rEN (nmul (nsub nunit (nmul t (nsub nunit etak))) rE0)) eqn:E1.
    - inversion H; subst r ev; clear H.
      revert E1. unfold_num. q2r. intros E1. apply Rltb_true in E1.
      exists 0%nat, 1, etak. rewrite vscale_one, Nat.add_0_r. split; [lia|]. split; [reflexivity|]. split; [cbn; lra|].
      split; [lra|]. rewrite <- HrEN. split; [exact E1|].
      assert (0 < t * (1 - etak)) by (apply Rmult_lt_0_compat; lra).
      assert ((1 - t * (1 - etak)) * rE0 <= rE0) by nra. lra.
    - destruct (nleb nzero (gn_slope orc count s)) eqn:E2; [inversion H|].
      set (theta := compute_min_p rE0 rEN (gn_slope orc count s) c_001 c_05) in *.
      destruct (gn_loop orc f (S count) x (vscale theta s) _ t rE0 _) as [r' ev'] eqn:EL.
      inversion H; subst r' ev; clear H.
      assert (Hth : 1 / 100 <= theta <= 1 / 2).
      { unfold theta. rewrite <- c_001_val, <- c_05_val. apply compute_min_p_in_bounds. rewrite c_001_val, c_05_val. lra. }
      assert (He' : nsub nunit (nmul theta (nsub nunit etak)) < 1 /\ etak <= nsub nunit (nmul theta (nsub nunit etak))).
      { unfold_num. q2r. assert (0 < theta * (1 - etak)) by (apply Rmult_lt_0_compat; lra). nra. }
      destruct (IH _ _ _ _ _ _ EL (proj1 He') eq_refl) as (k & c & etak' & Hk & Hr & Hc & Hek & Hd).
      exists (S k), (theta * c), etak'. split; [lia|]. split; [rewrite Hr, vscale_vscale; reflexivity|].
      split.
      + cbn [pow]. destruct Hc as [Hc1 Hc2].
        assert (0 < (1 / 100) ^ k) by (apply pow_lt; lra). assert (0 < (1 / 2) ^ k) by (apply pow_lt; lra). split; nra.
      + split; [lra|]. replace (count + S k)%nat with (S count + k)%nat by lia. exact Hd.
  Qed.
End GN.

(* descent: a returned step strictly decreases the residual energy, by the sufficient-decrease factor; it is the (GMRES) Newton
   step scaled by c in [0.01^k, 0.5^k] after k < maxLinesearchIters cutbacks; no step is returned when GMRES reported failure *)
Theorem gn_descent (orc : @gn_oracles R) x etak t maxLs s ev :
  globalized_newton_step orc x etak t maxLs = (Some s, ev) -> 0 < t -> etak < 1 ->
  snd (gn_newton orc) = false
  /\ exists k c etak', (k < maxLs)%nat /\ s = @vscale R NumR c (fst (gn_newton orc)) /\ (1 / 100) ^ k <= c <= (1 / 2) ^ k
     /\ etak <= etak' < 1
     /\ renergy (gn_res orc (S k) (@vadd R NumR x s)) < (1 - t * (1 - etak')) * renergy (gn_res orc 0 x)
     /\ renergy (gn_res orc (S k) (@vadd R NumR x s)) < renergy (gn_res orc 0 x).
Proof.
  unfold globalized_newton_step. destruct (gn_newton orc) as [s0 failed]. cbn [fst snd].
  destruct failed; [intros H; inversion H|]. intros H Ht He. split; [reflexivity|].
  destruct (gn_loop_spec orc x t _ Ht (renergy_nonneg _) _ _ _ _ _ _ _ H He eq_refl) as (k & c & etak' & Hk & Hr & Hc & Hek & Hd).
  exists k, c, etak'. cbn [Nat.add] in Hd. repeat split; try tauto; try lia; try lra.
Qed.

(* with the default parameters of the source *)
Example gn_nonvacuous :
  let orc := {| gn_res := fun site _ => match site with O => [2] | _ => [1] end; gn_newton := ([1], false); gn_slope := fun _ _ => -1 |} in
  exists ev, @globalized_newton_step R NumR orc [0] (1 / 1000) (1 / 10000) 4 = (Some [1], ev).
Proof.
  cbv zeta. eexists. unfold globalized_newton_step. cbn [gn_newton gn_res gn_loop].
  match goal with |- context [nltb ?a ?b] => assert (E : nltb a b = true) end.
  { unfold renergy, norm2, nhalf. cbn [map nsum]. unfold_num. q2r. apply Rltb_true.
    replace (1 * 1 + 0) with 1 by ring. replace (2 * 2 + 0) with (2 * 2) by ring.
    rewrite sqrt_1. replace (2 * 2) with (Rsqr 2) by (unfold Rsqr; ring). rewrite sqrt_Rsqr by lra. lra. }
  rewrite E. reflexivity.
Qed.
