(* C11: the coaxial update identity Hcoax, PROVED for the spectral log_sqrt_symm / exponential of model/M_C11s.v from the contract
   of the eigen-solver at the three matrices it is called on during a held step.  Key fact: a spectral matrix function does not depend
   on WHICH orthogonal eigen-decomposition the solver returns (spectral_unique). *)
From Coq Require Import Reals Lra QArith List.
From OV.base Require Import Num.
From OV.gen Require Import Gen_TensorMath Gen_HyperViscoelastic Gen_MultiBranchHyperViscoelastic Gen_ViscoState.
From OV.model Require Import M_C08 M_C11.
From OV.model Require Import M_C11s.
From OV.proofs Require Import L_C08 L_C11a L_C11.
From OV.proofs Require Import L_C11s.
Import ListNotations.
Local Open Scope R_scope.

Definition cj (V D : M) : M := mmul (mmul V D) (mtr V).
Definition mdev (A : M) : M := msub A (mscal (mtrace A / 3) mid).

Lemma cj_sub V D1 D2 : msub (cj V D1) (cj V D2) = cj V (msub D1 D2).
Proof. unfold cj. dm V; dm D1; dm D2. snum. f_equal; ring. Qed.
Lemma cj_scal s V D : mscal s (cj V D) = cj V (mscal s D).
Proof. unfold cj. dm V; dm D. snum. f_equal; ring. Qed.
Lemma cj_mul V D1 D2 : mmul (mtr V) V = mid -> mmul (cj V D1) (cj V D2) = cj V (mmul D1 D2).
Proof.
  intros HV. unfold cj. rewrite !mmul_assoc. rewrite <- (mmul_assoc (mtr V) V), HV, mmul_id_l. reflexivity.
Qed.
Lemma cj_id V : mmul V (mtr V) = mid -> cj V mid = mid.
Proof. intros HV. unfold cj. rewrite mmul_id_r. exact HV. Qed.
Lemma cj_tr V a b c : mtr (cj V (mdiag a b c)) = cj V (mdiag a b c).
Proof. apply conj_sym. Qed.
Lemma cj_dev V D : mmul (mtr V) V = mid -> mmul V (mtr V) = mid -> mdev (cj V D) = cj V (mdev D).
Proof.
  intros H1 H2. unfold mdev. unfold cj at 2. rewrite (conj_trace V D H1). rewrite <- (cj_id V H2) at 1. rewrite cj_scal, cj_sub. reflexivity.
Qed.
Lemma cj_inv_l V D : mmul (mtr V) V = mid -> mmul (mtr V) (mmul (cj V D) V) = D.
Proof. intros HV. unfold cj. rewrite !mmul_assoc, HV, mmul_id_r, <- mmul_assoc, HV, mmul_id_l. reflexivity. Qed.

Lemma mdiag_mul a b c a' b' c' : mmul (mdiag a b c) (mdiag a' b' c') = mdiag (a * a') (b * b') (c * c').
Proof. snum. f_equal; ring. Qed.
Lemma mdiag_sub a b c a' b' c' : msub (mdiag a b c) (mdiag a' b' c') = mdiag (a - a') (b - b') (c - c').
Proof. snum. f_equal; ring. Qed.
Lemma mdiag_scal s a b c : mscal s (mdiag a b c) = mdiag (s * a) (s * b) (s * c).
Proof. snum. f_equal; ring. Qed.
Lemma mdiag_dev a b c : mdev (mdiag a b c) = mdiag (a - (a + b + c) / 3) (b - (a + b + c) / 3) (c - (a + b + c) / 3).
Proof. unfold mdev. snum. f_equal; field. Qed.
Lemma mdiag_id : mdiag 1 1 1 = mid.
Proof. snum. reflexivity. Qed.

(* the backward-Euler increment is a multiple of the deviator of the trial strain *)
Lemma inc_hv_form K G Gn tau dt (E : M) : 0 < dt -> 0 < tau -> inc_hv (K, G, Gn, tau) dt E = mscal (dt * fac dt tau / tau) (mdev E).
Proof. intros Hd Ht. pose proof (den_ne dt tau Hd Ht). unfold mdev, fac. dm E. cnum. f_equal; field; split; lra. Qed.
Lemma inc_b_form n p dt (E : M) : 0 < dt -> 0 < taub n p -> inc_b n p dt E = mscal (dt * fac dt (taub n p) / taub n p) (mdev E).
Proof. dp8 p. d3 n; cbn [taub]; intros Hd Ht; pose proof (den_ne dt _ Hd Ht); unfold mdev, fac; dm E; cnum; f_equal; field; split; lra. Qed.

(* ---- a spectral function does not depend on the decomposition *)
Ltac entry q a b :=
  destruct (Req_dec q 0) as [Hz | Hz];
  [rewrite Hz; ring | assert (Hab : a = b) by (apply (Rmult_eq_reg_r q); [lra | exact Hz]); rewrite Hab; ring].
Lemma diag_commute (Q : M) a0 a1 a2 b0 b1 b2 (f : R -> R) :
  mmul (mdiag a0 a1 a2) Q = mmul Q (mdiag b0 b1 b2) -> mmul (mdiag (f a0) (f a1) (f a2)) Q = mmul Q (mdiag (f b0) (f b1) (f b2)).
Proof.
  destruct Q as [q00 q01 q02 q10 q11 q12 q20 q21 q22]. snum. intros HE. injection HE as E0 E1 E2 E3 E4 E5 E6 E7 E8.
  f_equal.
  - entry q00 a0 b0.
  - entry q01 a0 b1.
  - entry q02 a0 b2.
  - entry q10 a1 b0.
  - entry q11 a1 b1.
  - entry q12 a1 b2.
  - entry q20 a2 b0.
  - entry q21 a2 b1.
  - entry q22 a2 b2.
Qed.

Lemma spectral_unique (V V' : M) a0 a1 a2 b0 b1 b2 (f : R -> R) :
  mmul (mtr V) V = mid -> mmul V (mtr V) = mid -> mmul (mtr V') V' = mid -> mmul V' (mtr V') = mid ->
  cj V (mdiag a0 a1 a2) = cj V' (mdiag b0 b1 b2) -> cj V (mdiag (f a0) (f a1) (f a2)) = cj V' (mdiag (f b0) (f b1) (f b2)).
Proof.
  intros H1 H2 H1' H2' HE.
  set (Q := mmul (mtr V) V').
  assert (HQ : mmul (mdiag a0 a1 a2) Q = mmul Q (mdiag b0 b1 b2)).
  { unfold Q. rewrite <- (cj_inv_l V (mdiag a0 a1 a2) H1), HE. unfold cj.
    rewrite !mmul_assoc. rewrite <- (mmul_assoc V (mtr V) V'), H2, mmul_id_l, H1', mmul_id_r. reflexivity. }
  apply (diag_commute Q _ _ _ _ _ _ f) in HQ. unfold Q in HQ.
  (* V Df V^T = V Df (V^T V') V'^T = V (V^T V') Df' V'^T = V' Df' V'^T *)
  unfold cj.
  transitivity (mmul (mmul V (mmul (mdiag (f a0) (f a1) (f a2)) (mmul (mtr V) V'))) (mtr V')).
  - rewrite !mmul_assoc. rewrite H2'. rewrite mmul_id_r. reflexivity.
  - rewrite HQ. rewrite <- !mmul_assoc. rewrite H2. rewrite mmul_id_l. reflexivity.
Qed.

(* ---- the inverse (adjugate / determinant) *)
Lemma minv_r (A : M) : mdet A <> 0 -> mmul A (minv A) = mid.
Proof. dm A. tnum. intros Hd. f_equal; field; exact Hd. Qed.
Lemma minv_l (A : M) : mdet A <> 0 -> mmul (minv A) A = mid.
Proof. dm A. tnum. intros Hd. f_equal; field; exact Hd. Qed.
Lemma minv_unique (A B : M) : mdet A <> 0 -> mmul A B = mid -> minv A = B.
Proof.
  intros Hd HB. rewrite <- (mmul_id_r (minv A)), <- HB, <- mmul_assoc, (minv_l A Hd), mmul_id_l. reflexivity.
Qed.
Lemma mdet_minv (A : M) : mdet A <> 0 -> mdet (minv A) <> 0.
Proof.
  intros Hd Hz. pose proof (f_equal mdet (minv_l A Hd)) as E. rewrite mdet_mmul, mdet_mid, Hz in E. lra.
Qed.

(* ---- eigenvalues of Fe^T Fe are positive when Fe is invertible *)
Lemma gram_diag_pos (G : M) w0 w1 w2 : mmul (mtr G) G = mdiag w0 w1 w2 -> mdet G <> 0 -> 0 < w0 /\ 0 < w1 /\ 0 < w2.
Proof.
  intros HG Hd. pose proof (f_equal mdet HG) as Ed. rewrite mdet_mmul, mdet_mtr, mdet_mdiag in Ed.
  assert (Hp : 0 < w0 * w1 * w2) by (rewrite <- Ed; nra).
  destruct G as [g00 g01 g02 g10 g11 g12 g20 g21 g22]. revert HG. snum. intros HG. injection HG as E0 _ _ _ E4 _ _ _ E8.
  assert (N0 : 0 <= w0) by (rewrite <- E0; nra). assert (N1 : 0 <= w1) by (rewrite <- E4; nra). assert (N2 : 0 <= w2) by (rewrite <- E8; nra).
  repeat split.
  - destruct (Rle_lt_or_eq_dec 0 w0 N0) as [L | L]; [exact L | rewrite <- L in Hp; lra].
  - destruct (Rle_lt_or_eq_dec 0 w1 N1) as [L | L]; [exact L | rewrite <- L in Hp; lra].
  - destruct (Rle_lt_or_eq_dec 0 w2 N2) as [L | L]; [exact L | rewrite <- L in Hp; lra].
Qed.
Lemma eig_pos (V Fe : M) w0 w1 w2 : mmul (mtr V) V = mid -> cj V (mdiag w0 w1 w2) = mmul (mtr Fe) Fe -> mdet Fe <> 0 ->
  0 < w0 /\ 0 < w1 /\ 0 < w2.
Proof.
  intros H1 HC Hd. apply (gram_diag_pos (mmul Fe V)).
  - rewrite mtr_mmul, mmul_assoc, <- (mmul_assoc (mtr Fe) Fe V), <- HC. apply cj_inv_l. exact H1.
  - rewrite mdet_mmul. pose proof (f_equal mdet H1) as E. rewrite mdet_mmul, mdet_mtr, mdet_mid in E. intros Hz.
    apply Rmult_integral in Hz. destruct Hz as [Hz | Hz]; [exact (Hd Hz) | rewrite Hz in E; lra].
Qed.

Lemma nhalf_R : @nhalf R NumR = / 2.
Proof. unfold_num. q2r. field. Qed.

(* ---- the coaxial update: trial strain after the update = trial strain - increment, for ANY multiple c of the deviator *)
Lemma coax_core (eighL eighE : M -> E3) (F Fv : M) (c : R) :
  let Fe := mmul F (minv Fv) in
  let Ce := mmul (mtr Fe) Fe in
  let Ee := lss_spec eighL Ce in
  let dE := mscal c (mdev Ee) in
  let X := expm_spec eighE dE in
  let Fe' := mmul F (minv (mmul X Fv)) in
  let Ce' := mmul (mtr Fe') Fe' in
  mdet F <> 0 -> mdet Fv <> 0 -> eigh_ok eighL Ce -> eigh_ok eighE dE -> eigh_ok eighL Ce' ->
  lss_spec eighL Ce' = msub Ee dE.
Proof.
  intros Fe Ce Ee dE X Fe' Ce' HF HFv K1 K2 K3.
  assert (HFe : mdet Fe <> 0).
  { unfold Fe. rewrite mdet_mmul. pose proof (mdet_minv Fv HFv). intros Hz. apply Rmult_integral in Hz. tauto. }
  (* decomposition of Ce *)
  unfold eigh_ok in K1. destruct (eighL Ce) as [[[w0 w1] w2] V] eqn:EL. destruct K1 as (H1 & H2 & HC). fold (cj V (mdiag w0 w1 w2)) in HC.
  destruct (eig_pos V Fe w0 w1 w2 H1 HC HFe) as (P0 & P1 & P2).
  assert (EE : Ee = cj V (mdiag (nhalf * ln w0) (nhalf * ln w1) (nhalf * ln w2))).
  { unfold Ee, lss_spec, spectral. rewrite EL. fold (cj V (mdiag (nln w0) (nln w1) (nln w2))). rewrite cj_scal, mdiag_scal. reflexivity. }
  set (e0 := nhalf * ln w0) in *. set (e1 := nhalf * ln w1) in *. set (e2 := nhalf * ln w2) in *.
  set (d0 := c * (e0 - (e0 + e1 + e2) / 3)). set (d1 := c * (e1 - (e0 + e1 + e2) / 3)). set (d2 := c * (e2 - (e0 + e1 + e2) / 3)).
  assert (EdE : dE = cj V (mdiag d0 d1 d2)).
  { unfold dE. rewrite EE, (cj_dev V _ H1 H2), cj_scal, mdiag_dev, mdiag_scal. reflexivity. }
  (* the exponential of the increment *)
  unfold eigh_ok in K2. destruct (eighE dE) as [[[x0 x1] x2] V'] eqn:EXe. destruct K2 as (H1' & H2' & HD). fold (cj V' (mdiag x0 x1 x2)) in HD.
  assert (EX : X = cj V (mdiag (exp d0) (exp d1) (exp d2))).
  { unfold X, expm_spec, spectral. rewrite EXe. fold (cj V' (mdiag (nexp x0) (nexp x1) (nexp x2))).
    symmetry. apply (spectral_unique V V' d0 d1 d2 x0 x1 x2 exp H1 H2 H1' H2'). rewrite HD. symmetry. exact EdE. }
  set (Y := cj V (mdiag (exp (- d0)) (exp (- d1)) (exp (- d2)))).
  assert (XY : mmul X Y = mid).
  { rewrite EX. unfold Y. rewrite (cj_mul V _ _ H1), mdiag_mul, <- !exp_plus, !Rplus_opp_r, exp_0, mdiag_id. apply cj_id, H2. }
  assert (HdX : mdet X <> 0).
  { intros Hz. pose proof (f_equal mdet XY) as E. rewrite mdet_mmul, mdet_mid, Hz in E. lra. }
  assert (EI : minv (mmul X Fv) = mmul (minv Fv) Y).
  { apply minv_unique.
    - rewrite mdet_mmul. intros Hz. apply Rmult_integral in Hz. tauto.
    - rewrite mmul_assoc, <- (mmul_assoc Fv), (minv_r Fv HFv), mmul_id_l. exact XY. }
  assert (YT : mtr Y = Y) by apply cj_tr.
  assert (EC' : Ce' = cj V (mdiag (exp (- d0) * (w0 * exp (- d0))) (exp (- d1) * (w1 * exp (- d1))) (exp (- d2) * (w2 * exp (- d2))))).
  { unfold Ce', Fe'. rewrite EI, <- (mmul_assoc F). fold Fe. rewrite mtr_mmul, YT, mmul_assoc, <- (mmul_assoc (mtr Fe) Fe Y). fold Ce.
    rewrite <- HC. unfold Y. rewrite !(cj_mul V _ _ H1), !mdiag_mul. reflexivity. }
  (* log_sqrt_symm of the new Ce' *)
  unfold eigh_ok in K3. destruct (eighL Ce') as [[[u0 u1] u2] V''] eqn:EL'. destruct K3 as (H1'' & H2'' & HC'). fold (cj V'' (mdiag u0 u1 u2)) in HC'.
  unfold lss_spec, spectral. rewrite EL'. fold (cj V'' (mdiag (nln u0) (nln u1) (nln u2))). change (@nln R NumR) with ln.
  rewrite <- (spectral_unique V V'' _ _ _ u0 u1 u2 ln H1 H2 H1'' H2'') by (rewrite HC'; symmetry; exact EC').
  rewrite cj_scal, mdiag_scal, EE, EdE, cj_sub, mdiag_sub. f_equal.
  assert (L : forall w d, 0 < w -> nhalf * ln (exp (- d) * (w * exp (- d))) = nhalf * ln w - d).
  { intros w d Pw. pose proof (exp_pos (- d)). rewrite !ln_mult, !ln_exp by (try apply Rmult_lt_0_compat; assumption). rewrite nhalf_R. field. }
  unfold e0, e1, e2. rewrite !L by assumption. reflexivity.
Qed.

(* ---- Hcoax for the single-branch model and for every branch of the three-branch model *)
Section CoaxModels.
  Variables (eighL eighE : M -> E3).
  Let lss := lss_spec eighL.
  Let expm := expm_spec eighE.

  (* what the eigen-solvers have to deliver during one step from (H, Fv) with increment kernel inc: valid decompositions of
     Ce = Fe^T Fe, of the increment, and of Ce at the updated viscous distortion *)
  Definition step_ok_hv (p : p4) (H Fv : M) (dt : R) : Prop :=
    eigh_ok eighL (Ce_of H Fv) /\ eigh_ok eighE (inc_hv p dt (Etrial lss H Fv)) /\ eigh_ok eighL (Ce_of H (state_new_hv lss expm p Fv dt H)).
  Definition step_ok_b (n : nat) (p : p8) (H Fv : M) (dt : R) : Prop :=
    eigh_ok eighL (Ce_of H Fv) /\ eigh_ok eighE (inc_b n p dt (Etrial_mb lss H Fv)) /\ eigh_ok eighL (Ce_of H (state_new_b n lss expm p Fv dt H)).

  Lemma coax_hv K G Gn tau (H Fv : M) dt : 0 < tau -> 0 < dt -> mdet (defgrad H) <> 0 -> mdet Fv <> 0 ->
    step_ok_hv (K, G, Gn, tau) H Fv dt ->
    Etrial lss H (state_new_hv lss expm (K, G, Gn, tau) Fv dt H) = relax_hv (K, G, Gn, tau) dt (Etrial lss H Fv).
  Proof.
    intros Ht Hd HF HFv (K1 & K2 & K3). revert K2 K3. unfold relax_hv.
    rewrite state_new_hv_bridge, !Etrial_form, !inc_hv_form by assumption. unfold Ce_of, Fe_of. intros K2 K3.
    exact (coax_core eighL eighE (defgrad H) Fv _ HF HFv K1 K2 K3).
  Qed.
  Lemma coax_b n p (H Fv : M) dt : 0 < taub n p -> 0 < dt -> mdet (defgrad H) <> 0 -> mdet Fv <> 0 ->
    step_ok_b n p H Fv dt ->
    Etrial_mb lss H (state_new_b n lss expm p Fv dt H) = relax_b n p dt (Etrial_mb lss H Fv).
  Proof.
    intros Ht Hd HF HFv (K1 & K2 & K3). revert K2 K3. unfold relax_b, state_new_b.
    rewrite !Etrial_mb_form, !inc_b_form by assumption. unfold Ce_of, Fe_of. intros K2 K3.
    exact (coax_core eighL eighE (defgrad H) Fv _ HF HFv K1 K2 K3).
  Qed.

  (* ---- relaxation along arbitrary step sequences at held deformation, with no hypothesis on the matrix functions beyond the
          contract of the eigen-solvers along the sequence *)
  Fixpoint seq_ok_hv (p : p4) (H Fv : M) (dts : list R) : Prop :=
    match dts with
    | [] => True
    | dt :: r => step_ok_hv p H Fv dt /\ seq_ok_hv p H (state_new_hv lss expm p Fv dt H) r
    end.
  Fixpoint seq_ok_b (n : nat) (p : p8) (H Fv : M) (dts : list R) : Prop :=
    match dts with
    | [] => True
    | dt :: r => step_ok_b n p H Fv dt /\ seq_ok_b n p H (state_new_b n lss expm p Fv dt H) r
    end.

  Lemma relaxation_step_spec K G Gn tau (H Fv : M) dt dt' : 0 < tau -> 0 <= Gn -> 0 < dt -> 0 < dt' ->
    mdet (defgrad H) <> 0 -> mdet Fv <> 0 -> step_ok_hv (K, G, Gn, tau) H Fv dt ->
    Wneq_reported_hv lss (K, G, Gn, tau) (state_new_hv lss expm (K, G, Gn, tau) Fv dt H) dt' H
    = fac dt' tau * fac dt' tau * Wneq_reported_hv lss (K, G, Gn, tau) Fv dt H
    /\ Wneq_reported_hv lss (K, G, Gn, tau) (state_new_hv lss expm (K, G, Gn, tau) Fv dt H) dt' H <= Wneq_reported_hv lss (K, G, Gn, tau) Fv dt H.
  Proof.
    intros Ht HG Hd Hd' HF HFv Hok. pose proof (coax_hv K G Gn tau H Fv dt Ht Hd HF HFv Hok) as Hc.
    rewrite !(Wneq_reported_form lss K G Gn tau Ht H) by assumption. rewrite Hc, relax_nds by assumption.
    destruct (fac_pos dt tau Hd Ht) as [F0 F1]. destruct (fac_pos dt' tau Hd' Ht) as [F0' F1'].
    pose proof (nds_nonneg (Etrial lss H Fv)) as Hn.
    set (x := Gn * (fac dt tau * fac dt tau * nds (Etrial lss H Fv))).
    assert (Hx : 0 <= x) by (unfold x; apply Rmult_le_pos; [lra |]; apply Rmult_le_pos; [apply Rmult_le_pos; lra | lra]).
    replace (Gn * (fac dt' tau * fac dt' tau * (fac dt tau * fac dt tau * nds (Etrial lss H Fv)))) with (fac dt' tau * fac dt' tau * x) by (unfold x; ring).
    split; [reflexivity |]. assert (fac dt' tau * fac dt' tau <= 1) by nra. nra.
  Qed.
  Lemma relaxation_monotone_spec K G Gn tau (H : M) dts : 0 < tau -> 0 <= Gn -> mdet (defgrad H) <> 0 -> Forall (fun dt => 0 < dt) dts ->
    forall Fv, mdet Fv <> 0 -> seq_ok_hv (K, G, Gn, tau) H Fv dts -> nonincreasing (reported lss expm K G Gn tau H Fv dts).
  Proof.
    intros Ht HG HF Hp. induction Hp as [| dt r Hd Hr IH]; intros Fv HFv Hok; [exact I |]. cbn [reported].
    destruct r as [| dt' r']; [exact I |]. cbn [reported nonincreasing]. inversion Hr as [| ? ? Hd' _]; subst.
    destruct Hok as [Hs Hrest]. split.
    - apply relaxation_step_spec; assumption.
    - apply IH; [| exact Hrest]. destruct Hs as (_ & K2 & _). unfold expm. rewrite (state_new_hv_det_spec lss eighE K G Gn tau Fv dt H Ht Hd K2). exact HFv.
  Qed.

  Lemma relaxation_step_b_spec n p (H Fv : M) dt dt' : (forall n, 0 < taub n p) -> (forall n, 0 <= Gb n p) -> 0 < dt -> 0 < dt' ->
    mdet (defgrad H) <> 0 -> mdet Fv <> 0 -> step_ok_b n p H Fv dt ->
    Wneq_reported_b n lss p (state_new_b n lss expm p Fv dt H) dt' H <= Wneq_reported_b n lss p Fv dt H.
  Proof.
    intros Htau HG Hd Hd' HF HFv Hok. pose proof (Htau n) as Ht. pose proof (coax_b n p H Fv dt Ht Hd HF HFv Hok) as Hc.
    unfold Wneq_reported_b. rewrite Hc. rewrite !Wneq_b_form, !relax_b_nds by assumption.
    set (x := Gb n p * (fac dt (taub n p) * fac dt (taub n p) * nds (Etrial_mb lss H Fv))).
    assert (Hx : 0 <= x).
    { destruct (fac_pos dt _ Hd Ht). pose proof (nds_nonneg (Etrial_mb lss H Fv)). pose proof (HG n).
      unfold x. apply Rmult_le_pos; [lra |]. apply Rmult_le_pos; [apply Rmult_le_pos; lra | lra]. }
    replace (Gb n p * (fac dt' (taub n p) * fac dt' (taub n p) * (fac dt (taub n p) * fac dt (taub n p) * nds (Etrial_mb lss H Fv))))
      with (fac dt' (taub n p) * fac dt' (taub n p) * x) by (unfold x; ring).
    destruct (fac_pos dt' _ Hd' Ht) as [F0 F1]. assert (fac dt' (taub n p) * fac dt' (taub n p) <= 1) by nra. nra.
  Qed.
  Lemma relaxation_monotone_b_spec n p (H : M) dts : (forall n, 0 < taub n p) -> (forall n, 0 <= Gb n p) -> mdet (defgrad H) <> 0 ->
    Forall (fun dt => 0 < dt) dts ->
    forall Fv, mdet Fv <> 0 -> seq_ok_b n p H Fv dts -> nonincreasing (reported_b lss expm p H n Fv dts).
  Proof.
    intros Htau HG HF Hp. induction Hp as [| dt r Hd Hr IH]; intros Fv HFv Hok; [exact I |]. cbn [reported_b].
    destruct r as [| dt' r']; [exact I |]. cbn [reported_b nonincreasing]. inversion Hr as [| ? ? Hd' _]; subst.
    destruct Hok as [Hs Hrest]. split.
    - apply relaxation_step_b_spec; assumption.
    - apply IH; [| exact Hrest]. destruct Hs as (_ & K2 & _). unfold expm. rewrite (state_new_b_det_spec n lss eighE p Fv dt H (Htau n) Hd K2). exact HFv.
  Qed.
End CoaxModels.

(* ---- non-vacuity: along ANY sequence of positive steps of a diagonal stretch history the solver (diagonal entries, identity)
   meets the contract everywhere *)
Lemma Ce_diag h0 h1 h2 v0 v1 v2 : v0 <> 0 -> v1 <> 0 -> v2 <> 0 -> exists c0 c1 c2, Ce_of (mdiag h0 h1 h2) (mdiag v0 v1 v2) = mdiag c0 c1 c2.
Proof.
  intros N0 N1 N2. exists (m00 (Ce_of (mdiag h0 h1 h2) (mdiag v0 v1 v2))), (m11 (Ce_of (mdiag h0 h1 h2) (mdiag v0 v1 v2))), (m22 (Ce_of (mdiag h0 h1 h2) (mdiag v0 v1 v2))).
  tnum. f_equal; field; repeat split; assumption.
Qed.
Lemma lss_diag a b c : lss_spec eigh_diag (mdiag a b c) = mdiag (/ 2 * ln a) (/ 2 * ln b) (/ 2 * ln c).
Proof. unfold lss_spec, spectral, eigh_diag. snum. f_equal; field. Qed.
Lemma expm_diag a b c : expm_spec eigh_diag (mdiag a b c) = mdiag (exp a) (exp b) (exp c).
Proof. unfold expm_spec, spectral, eigh_diag. snum. f_equal; ring. Qed.
Lemma diag_step K G Gn tau h0 h1 h2 v0 v1 v2 dt : 0 < tau -> 0 < dt -> v0 <> 0 -> v1 <> 0 -> v2 <> 0 ->
  step_ok_hv eigh_diag eigh_diag (K, G, Gn, tau) (mdiag h0 h1 h2) (mdiag v0 v1 v2) dt
  /\ exists v0' v1' v2', state_new_hv (lss_spec eigh_diag) (expm_spec eigh_diag) (K, G, Gn, tau) (mdiag v0 v1 v2) dt (mdiag h0 h1 h2) = mdiag v0' v1' v2'
                         /\ v0' <> 0 /\ v1' <> 0 /\ v2' <> 0.
Proof.
  intros Ht Hd N0 N1 N2. unfold step_ok_hv.
  destruct (Ce_diag h0 h1 h2 v0 v1 v2 N0 N1 N2) as (c0 & c1 & c2 & EC).
  rewrite state_new_hv_bridge, Etrial_form, EC, lss_diag.
  destruct (inc_hv_diag K G Gn tau dt (/ 2 * ln c0) (/ 2 * ln c1) (/ 2 * ln c2) Ht Hd) as (x & y & z & ->).
  rewrite expm_diag, mdiag_mul.
  assert (P : forall t v, v <> 0 -> exp t * v <> 0) by (intros t v Nv Hz; apply Rmult_integral in Hz; pose proof (exp_pos t); destruct Hz; [lra | tauto]).
  destruct (Ce_diag h0 h1 h2 _ _ _ (P x v0 N0) (P y v1 N1) (P z v2 N2)) as (c0' & c1' & c2' & ->).
  split; [split; [apply eigh_diag_ok | split; apply eigh_diag_ok] |].
  exists (exp x * v0), (exp y * v1), (exp z * v2). split; [reflexivity | split; [| split]]; apply P; assumption.
Qed.
Lemma diag_seq K G Gn tau h0 h1 h2 dts : 0 < tau -> Forall (fun dt => 0 < dt) dts -> forall v0 v1 v2, v0 <> 0 -> v1 <> 0 -> v2 <> 0 ->
  seq_ok_hv eigh_diag eigh_diag (K, G, Gn, tau) (mdiag h0 h1 h2) (mdiag v0 v1 v2) dts.
Proof.
  intros Ht Hp. induction Hp as [| dt r Hd Hr IH]; intros v0 v1 v2 N0 N1 N2; [exact I |]. cbn [seq_ok_hv].
  destruct (diag_step K G Gn tau h0 h1 h2 v0 v1 v2 dt Ht Hd N0 N1 N2) as (Hs & v0' & v1' & v2' & -> & M0 & M1 & M2).
  split; [exact Hs | apply IH; assumption].
Qed.
Lemma spectral_sequence_satisfiable : exists (eigh : M -> E3) (H Fv : M), mdet (defgrad H) <> 0 /\ mdet Fv <> 0 /\ H <> mzero
  /\ forall K G Gn tau dts, 0 < tau -> Forall (fun dt => 0 < dt) dts -> seq_ok_hv eigh eigh (K, G, Gn, tau) H Fv dts.
Proof.
  exists eigh_diag, (mdiag 1 0 0), (mdiag 1 1 1). split; [| split; [| split]].
  - tnum. lra.
  - tnum. lra.
  - intros E. apply (f_equal m00) in E. revert E. tnum. lra.
  - intros K G Gn tau dts Ht Hp. apply diag_seq; try assumption; lra.
Qed.
