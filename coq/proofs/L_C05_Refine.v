(* C05 -- REFINEMENT: every run of the complete solver model (model/M_C05_Full.v full_minimize: Cauchy search + SPG sub-problem
   solve + outer loop) is a run of the proposal-oracle model (model/M_C05_SPG.v bc_minimize) for the proposal sequence that
   the complete run itself computes: same returned point, same flag, same callback / update_precond / return events.  A complete
   run that ends in the Cauchy search's RuntimeError (or outside the model's range) after j complete outer iterations is the
   proposal-oracle run with the iteration cap j, minus its final MaxIters event.  Hence descent on accepted iterates and
   returns-the-last-iterate (L_C05.bc_outer_spec, proved for ARBITRARY proposals) hold for the complete model. *)
From Coq Require Import Reals Lra Lia List QArith Psatz Bool.
From OV.base Require Import Num.
From OV.gen Require Import Gen_TrustRegionSPG.
From OV.model Require Import M_C06_Vec M_C06_CG M_C01_TR M_C05_SPG M_C05_Full.
From OV.proofs Require Import L_C06_Vec L_C01 L_C05 L_C05_Full.
Import ListNotations.
Local Open Scope R_scope.

(* the callback / update_precond / return events of a complete trace, in order *)
Definition outs (tr : list (fevent R)) : list (event R) :=
  flat_map (fun e => match e with FOut e' => [e'] | _ => [] end) tr.
Lemma outs_app a b : outs (a ++ b) = outs a ++ outs b.
Proof. unfold outs. apply flat_map_app. Qed.
Lemma outs_map_FOut ev : outs (map FOut ev) = ev.
Proof. induction ev as [|e ev IH]; [reflexivity|]. cbn. f_equal. exact IH. Qed.

Definition proposal_t := (rvec * R * bool * nat)%type.
Definition no_proposal : proposal_t := ([], 0, false, O).

Section Refine.
  Variable value : rvec -> R.
  Variable grad : rvec -> rvec.
  Variable hessvec : rvec -> rvec -> rvec.
  Variable brent : nat -> R.
  Variable bs : list rbound.
  Variable S : settings R.
  Variable G : spg_settings R.

  Notation outerF := (@full_outer R NumR value grad hessvec brent bs S G).
  Notation decideR := (@decide R NumR value grad bs S).
  Notation bcO := (fun P => @bc_outer R NumR value grad bs P S).

  (* the outer-loop state of the proposal-oracle model inside the state of the complete model *)
  Definition bst_of (s : @fstate R) : @bst R :=
    {| b_x := f_x s; b_g := f_g s; b_o := f_o s; b_prevOpt := f_prevOpt s; b_tr := f_tr s; b_tried := f_tried s; b_cum := f_cum s |}.

  (* the step proposals (s, modelObjective, stepType == 'boundary', spgIters) that the complete run computes, one per outer iteration *)
  Fixpoint full_props (iters : nat) (s : @fstate R) : list proposal_t :=
    match iters with
    | O => []
    | Datatypes.S iters' =>
      match cauchy_point bs G (f_x s) (f_g s) (hessvec (f_x s)) (f_tr s) (f_alpha s) with
      | CPOk fwd n1 n2 alpha1 cs =>
        let r := solve_spg brent bs S G (f_x s) cs (f_g s) (hessvec (f_x s)) (f_tr s) (f_k s) in
        if Nat.eqb (o_kind r) 3 then []
        else (o_z r, o_q r, Nat.eqb (o_kind r) 1, o_iters r) ::
             match decideR s alpha1 (o_k r) (o_z r) (o_q r) (Nat.eqb (o_kind r) 1) (o_iters r) with
             | DNext s' _ => full_props iters' s'
             | _ => []
             end
      | _ => []
      end
    end.

  (* the sub-problem solve emits no callback / return events *)
  Lemma spg_loop_outs rem : forall i x Hv tr tol2 z d q xNew lam h k chi2,
    outs (o_ev (@spg_loop R NumR brent bs G rem i x Hv tr tol2 z d q xNew lam h k chi2)) = [].
  Proof.
    induction rem as [|rem IH]; intros; [reflexivity|].
    cbn [spg_loop]. unfold sub_opt.
    repeat match goal with |- context [ptr brent bs ?a ?b ?c ?e] => destruct (ptr brent bs a b c e) end.
    match goal with |- context [if nltb ?a ?b then _ else _] => destruct (nltb a b) end; cbn [o_ev]; [reflexivity|].
    cbn [outs flat_map app]. apply IH.
  Qed.
  Lemma solve_spg_outs x cs r Hv tr k : outs (o_ev (@solve_spg R NumR brent bs S G x cs r Hv tr k)) = [].
  Proof.
    unfold solve_spg, sub_opt.
    match goal with |- context [ptr brent bs ?a ?b ?c ?e] => destruct (ptr brent bs a b c e) end.
    match goal with |- context [if nltb ?a ?b then _ else _] => destruct (nltb a b) end; cbn [o_ev]; [reflexivity|].
    destruct (Nat.eqb (s_max_cg_iters S) 0); cbn [o_ev]; [reflexivity|].
    cbn [outs flat_map app]. apply spg_loop_outs.
  Qed.

  (* one outer iteration of the proposal-oracle model IS `decide` applied to the proposal *)
  Lemma bc_step P iters k s a1 k1 sv mo onb it :
    P k (f_x s) = (sv, mo, onb, it) ->
    bcO P (Datatypes.S iters) k (bst_of s) =
    match decideR s a1 k1 sv mo onb it with
    | DConverged y => (y, true, [EConverged y])
    | DStop x ev => (x, false, ev)
    | DNext s' ev => let '(x, f, ev') := bcO P iters (Datatypes.S k) (bst_of s') in (x, f, ev ++ ev')
    end.
  Proof.
    intros HP. cbn [bc_outer]. unfold bst_of. cbn [b_x b_g b_o b_prevOpt b_tr b_tried b_cum]. rewrite HP.
    unfold decide. cbv zeta.
    match goal with |- context [if nltb ?a (s_tol S) then _ else _] => destruct (nltb a (s_tol S)) end; [reflexivity|].
    match goal with |- context [will_accept S ?r ?a ?b] => destruct (will_accept S r a b) end;
      (match goal with |- context [nltb ?a (s_min_tr_size S)] => destruct (nltb a (s_min_tr_size S)) end);
      cbn [negb]; try destruct (f_tried s); cbn [negb]; try reflexivity;
      cbn [f_x f_g f_o f_prevOpt f_tr f_tried f_cum];
      match goal with |- context [bc_outer ?v ?g ?b ?p ?st ?i ?kk ?ss] => destruct (bc_outer v g b p st i kk ss) as [[x f] ev] end;
      rewrite <- ?app_assoc; reflexivity.
  Qed.

  Definition agrees (P : nat -> rvec -> proposal_t) (k : nat) (props : list proposal_t) : Prop :=
    forall j x, (j < length props)%nat -> P (k + j)%nat x = nth j props no_proposal.
  Lemma agrees_tail P k p props : agrees P k (p :: props) -> agrees P (Datatypes.S k) props.
  Proof.
    intros H j x Hj. specialize (H (Datatypes.S j) x ltac:(cbn; lia)). cbn [nth] in H.
    replace (Datatypes.S k + j)%nat with (k + Datatypes.S j)%nat by lia. exact H.
  Qed.

  Lemma full_outer_refines iters : forall s k P, agrees P k (full_props iters s) ->
    match outerF iters s with
    | (Some (xr, flag), tr) => bcO P iters k (bst_of s) = (xr, flag, outs tr)
    | (None, tr) => exists j x, (j < iters)%nat /\ bcO P j k (bst_of s) = (x, false, outs tr ++ [EMaxIters x])
    end.
  Proof.
    induction iters as [|iters IH]; intros s k P HP.
    - cbn. reflexivity.
    - cbn [full_outer full_props] in *. cbv zeta in *.
      destruct (cauchy_point bs G (f_x s) (f_g s) (hessvec (f_x s)) (f_tr s) (f_alpha s)) as [fwd n1 n2 a1 cs|ph|].
      2:{ exists O, (f_x s). split; [lia|]. cbn. reflexivity. }
      2:{ exists O, (f_x s). split; [lia|]. cbn. reflexivity. }
      set (o := solve_spg brent bs S G (f_x s) cs (f_g s) (hessvec (f_x s)) (f_tr s) (f_k s)) in *.
      assert (Hpre : forall rest,
                outs ((FIter (f_x s) (f_tr s) :: FCauchy fwd n1 n2 a1 :: o_ev o ++ [FSpgExit (o_kind o) (o_iters o)]) ++ rest) = outs rest).
      { intros rest. rewrite outs_app. cbn [outs flat_map app]. fold (outs (o_ev o ++ [FSpgExit (o_kind o) (o_iters o)])).
        rewrite outs_app. unfold o at 1. rewrite solve_spg_outs. cbn. reflexivity. }
      destruct (Nat.eqb (o_kind o) 3).
      { exists O, (f_x s). split; [lia|]. rewrite Hpre. cbn. reflexivity. }
      pose proof (HP O (f_x s) ltac:(cbn; lia)) as H0. cbn [nth] in H0. rewrite Nat.add_0_r in H0.
      apply agrees_tail in HP.
      destruct (decideR s a1 (o_k o) (o_z o) (o_q o) (Nat.eqb (o_kind o) 1) (o_iters o)) as [y'|x1 ev|s' ev] eqn:Ed.
      + rewrite (bc_step P iters k s a1 (o_k o) _ _ _ _ H0), Ed, Hpre. cbn. reflexivity.
      + rewrite (bc_step P iters k s a1 (o_k o) _ _ _ _ H0), Ed, Hpre. cbn [outs flat_map app]. fold (outs (map FOut ev)).
        rewrite outs_map_FOut. reflexivity.
      + specialize (IH s' (Datatypes.S k) P HP).
        destruct (outerF iters s') as [[[xr flag]|] tr'].
        * rewrite (bc_step P iters k s a1 (o_k o) _ _ _ _ H0), Ed, IH, Hpre. cbn [outs flat_map app].
          fold (outs (map FOut ev ++ tr')). rewrite outs_app, outs_map_FOut. reflexivity.
        * destruct IH as (j & x & Hj & E). exists (Datatypes.S j), x. split; [lia|].
          rewrite (bc_step P j k s a1 (o_k o) _ _ _ _ H0), Ed, E, Hpre. cbn [outs flat_map app].
          fold (outs (map FOut ev ++ tr')). rewrite outs_app, outs_map_FOut, <- app_assoc. reflexivity.
  Qed.

  (* the proposal oracle read off the complete run *)
  Definition run_proposals (x0 : rvec) : nat -> rvec -> proposal_t :=
    let g := grad x0 in
    let gHg := vdot g (hessvec x0 g) in
    let alpha := if nltb nzero gHg then ndiv (vdot g g) gHg else ndiv (s_tr_size S) (vnorm g) in
    let s0 := {| f_x := x0; f_g := g; f_o := value x0; f_prevOpt := optimality x0 g bs; f_tr := s_tr_size S; f_tried := false;
                 f_cum := O; f_alpha := alpha; f_k := O |} in
    fun k _ => nth k (full_props (s_max_trust_iters S) s0) no_proposal.

  Theorem full_minimize_refines x0 : forall xr flag tr,
    @full_minimize R NumR value grad hessvec brent bs S G x0 = (Some (xr, flag), tr) ->
    @bc_minimize R NumR value grad bs (run_proposals x0) S x0 = (xr, flag, outs tr).
  Proof.
    intros xr flag tr. unfold full_minimize, bc_minimize. cbv zeta.
    match goal with |- context [if nltb ?a (s_tol S) then _ else _] => destruct (nltb a (s_tol S)) end.
    - intros H; inversion H; subst. reflexivity.
    - match goal with |- full_outer _ _ _ _ _ _ _ ?it ?s0 = _ -> _ =>
        pose proof (full_outer_refines it s0 O (run_proposals x0)) as H end.
      intros E. rewrite E in H. apply H.
      intros j x _. reflexivity.
  Qed.

  (* descent on accepted iterates and returns-the-last-iterate for EVERY run of the complete model, error exits included *)
  Theorem full_minimize_trace x0 :
    let '(res, tr) := @full_minimize R NumR value grad hessvec brent bs S G x0 in
    accepts_ok value (outs tr) /\
    (s_use_incremental S = false -> 0 <= s_eta1 S -> chain (value x0) (accept_vals (outs tr))) /\
    (forall xr, res = Some (xr, false) ->
       xr = cur x0 (outs tr) /\ exists tr', outs tr = tr' ++ [ETooSmall xr] \/ outs tr = tr' ++ [EMaxIters xr]).
  Proof.
    unfold full_minimize. cbv zeta.
    match goal with |- context [if nltb ?a (s_tol S) then _ else _] => destruct (nltb a (s_tol S)) end.
    - cbn. split; [repeat constructor|]. split; [intros; exact I|]. intros xr H; discriminate.
    - match goal with |- context [full_outer _ _ _ _ _ _ _ ?it ?s0] =>
        pose proof (full_outer_refines it s0 O (run_proposals x0) ltac:(intros j x _; reflexivity)) as H;
        destruct (outerF it s0) as [[[xr flag]|] tr];
        [pose proof (bc_outer_spec value grad bs (run_proposals x0) S it O (bst_of s0) eq_refl) as Hs
        |destruct H as (j & x & Hj & H);
         pose proof (bc_outer_spec value grad bs (run_proposals x0) S j O (bst_of s0) eq_refl) as Hs] end;
        rewrite H in Hs; cbn [bc_post bst_of b_o b_x] in Hs; destruct Hs as (A & B & _ & D).
      + split; [exact A|]. split; [exact B|]. intros xr' E; inversion E; subst. apply D. reflexivity.
      + split.
        { unfold accepts_ok in *. apply Forall_app in A. apply A. }
        split; [|intros xr E; discriminate].
        intros Hd He. specialize (B Hd He). rewrite accept_vals_app in B. cbn in B. rewrite app_nil_r in B. exact B.
  Qed.
End Refine.
