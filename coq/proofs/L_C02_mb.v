(* C02: the multi-block clause as one statement over the gather / scatter model (model/M_C02_MultiBlock.v). *)
From Coq Require Import ZArith List Bool Arith Lia Permutation Reals.
From OV.model Require Import M_C14_Dof M_C02_Assembly.
From OV.model Require Import M_C02_MultiBlock.
From OV.proofs Require Import L_C14 L_C02.
Import ListNotations.

Lemma same_material_combine {M} (m : M) (blocks : list (list nat)) mats :
  length mats = length blocks -> Forall (eq m) mats -> combine blocks mats = map (fun b => (b, m)) blocks.
Proof.
  revert mats; induction blocks as [|b blocks IH]; intros [|m' mats] HL HF; simpl in *; try discriminate; auto.
  inversion HF; subst. f_equal. apply IH; auto.
Qed.

Lemma fold_left_map {A B C} (f : A -> C -> A) (g : B -> C) l a : fold_left f (map g l) a = fold_left (fun acc b => f acc (g b)) l a.
Proof. revert a; induction l; simpl; auto. Qed.

Lemma fold_left_ext' {A B} (f g : A -> B -> A) l : (forall a b, f a b = g a b) -> forall a, fold_left f l a = fold_left g l a.
Proof. intros H. induction l; simpl; auto. intros a0. rewrite H. apply IHl. Qed.

Lemma map_nth_seq {A B} (f : A -> B) (d : A) l : map (fun i => f (nth i l d)) (seq 0 (length l)) = map f l.
Proof. rewrite <- (map_map (fun i => nth i l d) f). f_equal. symmetry. apply list_as_map_nth. Qed.

Lemma perm_covers n blocks : Permutation (concat blocks) (seq 0 n) -> covers n blocks.
Proof.
  intros HP e He.
  assert (Hin : In e (concat blocks)). { eapply Permutation_in; [apply Permutation_sym; exact HP|]. apply in_seq. lia. }
  apply in_concat in Hin. destruct Hin as (ids & H1 & H2). exists ids; auto.
Qed.

Section MB.
  Context {E M S H : Type} (edef : E).
  Variable ek : M -> E -> list R.
  Variable vols : E -> list R.
  Variable sk : M -> E -> S.
  Variable hk : M -> E -> H.

  (* splitting the element list into blocks that carry the SAME material changes neither the energy, nor the state update,
     nor the element Hessians (hence not the assembled stiffness) *)
  Lemma multiblock_same_material (elems : list E) (blocks : list (list nat)) (mats : list M) (m : M) (base : list S) (zeros : list H) :
    (forall e, length (ek m e) = length (vols e)) ->
    length mats = length blocks -> Forall (eq m) mats ->
    Permutation (concat blocks) (seq 0 (length elems)) ->
    length base = length elems -> length zeros = length elems ->
    mb_energy 0%R Rplus Rmult edef ek vols elems (combine blocks mats) = sb_energy 0%R Rplus Rmult edef ek vols elems m
    /\ mb_states edef sk elems (combine blocks mats) base = sb_states sk elems m
    /\ mb_hessians edef hk elems (combine blocks mats) zeros = sb_hessians hk elems m.
  Proof.
    intros Hnq HL HF HP Hb Hz. rewrite (same_material_combine m blocks mats HL HF).
    pose proof (perm_covers _ _ HP) as HC.
    split; [|split].
    - unfold mb_energy, sb_energy. rewrite fold_left_map. cbn [fst snd].
      apply (integrate_multi_block 0%R Rplus Rmult Rplus_comm Rplus_assoc' Rplus_0_l edef (ek m) vols Hnq elems blocks HP).
    - unfold mb_states, sb_states. rewrite fold_left_map. cbn [fst snd].
      pose proof (multi_block_scatter_full (fun i => sk m (nth i elems edef)) blocks base) as HS.
      unfold multi_block_scatter in HS. unfold gather.
      rewrite (fold_left_ext' _ (fun acc ids => scatter acc ids (map (fun i => sk m (nth i elems edef)) ids))) by (intros; rewrite map_map; reflexivity).
      rewrite HS by (rewrite Hb; exact HC). rewrite Hb. apply map_nth_seq.
    - unfold mb_hessians, sb_hessians. rewrite fold_left_map. cbn [fst snd].
      pose proof (multi_block_scatter_full (fun i => hk m (nth i elems edef)) blocks zeros) as HS.
      unfold multi_block_scatter in HS. unfold gather.
      rewrite (fold_left_ext' _ (fun acc ids => scatter acc ids (map (fun i => hk m (nth i elems edef)) ids))) by (intros; rewrite map_map; reflexivity).
      rewrite HS by (rewrite Hz; exact HC). rewrite Hz. apply map_nth_seq.
  Qed.
End MB.

(* packaged: element Hessians as flat lists of reals, so that the assembled stiffness can be stated too *)
Lemma multiblock_full :
  forall (E M S : Type) (edef : E) (ek : M -> E -> list R) (vols : E -> list R) (sk : M -> E -> S) (hk : M -> E -> list R)
         (elems : list E) (blocks : list (list nat)) (mats : list M) (m : M) (base : list S) (zeros : list (list R)),
  (forall e, length (ek m e) = length (vols e)) ->
  length mats = length blocks -> Forall (eq m) mats ->
  Permutation (concat blocks) (seq 0 (length elems)) ->
  length base = length elems -> length zeros = length elems ->
  mb_energy 0%R Rplus Rmult edef ek vols elems (combine blocks mats) = sb_energy 0%R Rplus Rmult edef ek vols elems m
  /\ mb_states edef sk elems (combine blocks mats) base = sb_states sk elems m
  /\ mb_hessians edef hk elems (combine blocks mats) zeros = sb_hessians hk elems m
  /\ (forall isBc dim conns i j,
        dense 0%R Rplus (coo_triples isBc dim conns (mb_hessians edef hk elems (combine blocks mats) zeros)) i j
        = dense 0%R Rplus (coo_triples isBc dim conns (sb_hessians hk elems m)) i j).
Proof.
  intros E M S edef ek vols sk hk elems blocks mats m base zeros Hnq HL HF HP Hb Hz.
  destruct (multiblock_same_material edef ek vols sk hk elems blocks mats m base zeros Hnq HL HF HP Hb Hz) as (H1 & H2 & H3).
  repeat split; auto. intros. rewrite H3. reflexivity.
Qed.

(* the loops do something and the hypotheses are satisfiable: 3 elements, blocks [[2]; [0; 1]] listed out of order, one material;
   and with two DIFFERENT materials the result is NOT the single-block one (the same-material hypothesis is needed) *)
Lemma multiblock_nonvacuous :
  let elems := [10; 20; 30]%Z in
  let sk := fun (m : Z) (e : Z) => (m * e)%Z in
  Permutation (concat [[2]; [0; 1]]) (seq 0 (length elems)) /\ Forall (eq 7%Z) [7; 7]%Z
  /\ mb_states 0%Z sk elems (combine [[2]; [0; 1]] [7; 7]%Z) [0; 0; 0]%Z = [70; 140; 210]%Z
  /\ sb_states sk elems 7%Z = [70; 140; 210]%Z
  /\ mb_states 0%Z sk elems (combine [[2]; [0; 1]] [7; 5]%Z) [0; 0; 0]%Z <> sb_states sk elems 7%Z.
Proof.
  cbv zeta. split.
  { simpl. apply (Permutation_cons_app [0; 1] [] 2). simpl. reflexivity. }
  split; [repeat constructor|]. split; [reflexivity|]. split; [reflexivity|]. vm_compute. discriminate.
Qed.
