(* Real inner-product facts about the list-vector operations of model/M_C06_Vec.v (T := R).
   Vectors of a common length n; `len n v` is the only side condition.  Shared by C06, C01, C05. *)
From Coq Require Import Reals Lra Lia List QArith.
From OV.base Require Import Num.
From OV.model Require Import M_C06_Vec.
Import ListNotations.
Local Open Scope R_scope.

Notation rvec := (list R).
Definition len (n : nat) (v : rvec) : Prop := length v = n.
Notation rdot := (@vdot R NumR).
Notation radd := (@vadd R NumR).
Notation rsub := (@vsub R NumR).
Notation rscale := (@vscale R NumR).
Notation rneg := (@vneg R NumR).
Notation raxpy := (@vaxpy R NumR).
Notation rzero := (@vzero_like R NumR).
Notation "a ⋅ b" := (@vdot R NumR a b) (at level 38, left associativity).

Ltac vunf := unfold vdot, vadd, vsub, vscale, vneg, vaxpy, vzero_like in *.

Lemma rdot_nil_l b : [] ⋅ b = 0.
Proof. vunf. simpl. unfold_num. q2r. reflexivity. Qed.
Lemma rdot_nil_r a : a ⋅ [] = 0.
Proof. vunf. destruct a; simpl; unfold_num; q2r; reflexivity. Qed.
Lemma rdot_cons x a y b : (x :: a) ⋅ (y :: b) = x * y + a ⋅ b.
Proof. reflexivity. Qed.

Lemma rdot_comm a b : a ⋅ b = b ⋅ a.
Proof.
  revert b; induction a as [|x a IH]; intros [|y b]; rewrite ?rdot_nil_l, ?rdot_nil_r; try reflexivity.
  rewrite !rdot_cons, IH. ring.
Qed.

Lemma len_radd n a b : len n a -> len n b -> len n (radd a b).
Proof.
  unfold len. revert n b; induction a as [|x a IH]; intros n [|y b] Ha Hb; simpl in *; try congruence.
  destruct n; [discriminate|]. f_equal. apply IH; congruence.
Qed.
Lemma len_rsub n a b : len n a -> len n b -> len n (rsub a b).
Proof.
  unfold len. revert n b; induction a as [|x a IH]; intros n [|y b] Ha Hb; simpl in *; try congruence.
  destruct n; [discriminate|]. f_equal. apply IH; congruence.
Qed.
Lemma len_rscale n k a : len n a -> len n (rscale k a).
Proof. unfold len, vscale. rewrite map_length. auto. Qed.
Lemma len_rneg n a : len n a -> len n (rneg a).
Proof. unfold len, vneg. rewrite map_length. auto. Qed.
Lemma len_rzero n a : len n a -> len n (rzero a).
Proof. unfold len, vzero_like. rewrite map_length. auto. Qed.
Lemma len_raxpy n z k d : len n z -> len n d -> len n (raxpy z k d).
Proof. intros. unfold vaxpy. apply len_radd; auto. apply len_rscale; auto. Qed.
#[export] Hint Resolve len_radd len_rsub len_rscale len_rneg len_rzero len_raxpy : vlen.

Lemma rdot_radd_l n a b c : len n a -> len n b -> (radd a b) ⋅ c = a ⋅ c + b ⋅ c.
Proof.
  unfold len. revert n b c; induction a as [|x a IH]; intros n [|y b] c Ha Hb; simpl in Ha, Hb; subst; try discriminate.
  - change (radd [] []) with (@nil R). rewrite !rdot_nil_l. ring.
  - destruct c as [|w c].
    + rewrite !rdot_nil_r. ring.
    + change (radd (x :: a) (y :: b)) with ((x + y) :: radd a b). rewrite !rdot_cons.
      rewrite (IH (length a) b c) by congruence. ring.
Qed.
Lemma rdot_radd_r n a b c : len n a -> len n b -> c ⋅ (radd a b) = c ⋅ a + c ⋅ b.
Proof. intros. rewrite rdot_comm, (rdot_radd_l n) by assumption. rewrite (rdot_comm a), (rdot_comm b). ring. Qed.
Lemma rdot_rsub_l n a b c : len n a -> len n b -> (rsub a b) ⋅ c = a ⋅ c - b ⋅ c.
Proof.
  unfold len. revert n b c; induction a as [|x a IH]; intros n [|y b] c Ha Hb; simpl in Ha, Hb; subst; try discriminate.
  - change (rsub [] []) with (@nil R). rewrite !rdot_nil_l. ring.
  - destruct c as [|w c].
    + rewrite !rdot_nil_r. ring.
    + change (rsub (x :: a) (y :: b)) with ((x - y) :: rsub a b). rewrite !rdot_cons.
      rewrite (IH (length a) b c) by congruence. ring.
Qed.
Lemma rdot_rsub_r n a b c : len n a -> len n b -> c ⋅ (rsub a b) = c ⋅ a - c ⋅ b.
Proof. intros. rewrite rdot_comm, (rdot_rsub_l n) by assumption. rewrite (rdot_comm a), (rdot_comm b). ring. Qed.
Lemma rdot_rscale_l k a c : (rscale k a) ⋅ c = k * (a ⋅ c).
Proof.
  revert c; induction a as [|x a IH]; intros [|w c].
  - change (rscale k []) with (@nil R). rewrite !rdot_nil_l. ring.
  - change (rscale k []) with (@nil R). rewrite !rdot_nil_l. ring.
  - rewrite !rdot_nil_r. ring.
  - change (rscale k (x :: a)) with ((k * x) :: rscale k a). rewrite !rdot_cons, IH. ring.
Qed.
Lemma rdot_rscale_r k a c : c ⋅ (rscale k a) = k * (c ⋅ a).
Proof. rewrite rdot_comm, rdot_rscale_l, rdot_comm. reflexivity. Qed.
Lemma rdot_rneg_l a c : (rneg a) ⋅ c = - (a ⋅ c).
Proof.
  revert c; induction a as [|x a IH]; intros [|w c].
  - change (rneg []) with (@nil R). rewrite !rdot_nil_l. ring.
  - change (rneg []) with (@nil R). rewrite !rdot_nil_l. ring.
  - rewrite !rdot_nil_r. ring.
  - change (rneg (x :: a)) with ((- x) :: rneg a). rewrite !rdot_cons, IH. ring.
Qed.
Lemma rdot_rneg_r a c : c ⋅ (rneg a) = - (c ⋅ a).
Proof. rewrite rdot_comm, rdot_rneg_l, rdot_comm. reflexivity. Qed.
Lemma rdot_rzero_l a c : (rzero a) ⋅ c = 0.
Proof.
  revert c; induction a as [|x a IH]; intros [|w c].
  - apply rdot_nil_l.
  - apply rdot_nil_l.
  - apply rdot_nil_r.
  - change (rzero (x :: a)) with (0 :: rzero a). rewrite rdot_cons, IH. ring.
Qed.
Lemma rdot_rzero_r a c : c ⋅ (rzero a) = 0.
Proof. rewrite rdot_comm. apply rdot_rzero_l. Qed.
Lemma rdot_raxpy_l n z k d c : len n z -> len n d -> (raxpy z k d) ⋅ c = z ⋅ c + k * (d ⋅ c).
Proof. intros. unfold vaxpy.
  rewrite (rdot_radd_l n), rdot_rscale_l; auto with vlen. Qed.
Lemma rdot_raxpy_r n z k d c : len n z -> len n d -> c ⋅ (raxpy z k d) = c ⋅ z + k * (c ⋅ d).
Proof. intros. rewrite rdot_comm, (rdot_raxpy_l n) by assumption. rewrite (rdot_comm z), (rdot_comm d). reflexivity. Qed.

Lemma rdot_self_nonneg a : 0 <= a ⋅ a.
Proof. induction a as [|x a IH]. rewrite rdot_nil_l; lra. rewrite rdot_cons. nra. Qed.
(* a vector with zero square norm is orthogonal to everything *)
Lemma rdot_self_zero a : a ⋅ a = 0 -> forall c, a ⋅ c = 0.
Proof.
  induction a as [|x a IH]; intros H c. apply rdot_nil_l.
  rewrite rdot_cons in H. pose proof (rdot_self_nonneg a).
  assert (x = 0) by nra. assert (a ⋅ a = 0) by nra.
  destruct c as [|w c]. apply rdot_nil_r. rewrite rdot_cons, IH by assumption. subst. ring.
Qed.
(* squared norm of z + k d *)
Lemma rdot_raxpy_self n z k d : len n z -> len n d ->
  (raxpy z k d) ⋅ (raxpy z k d) = z ⋅ z + 2 * k * (z ⋅ d) + k * k * (d ⋅ d).
Proof.
  intros. rewrite (rdot_raxpy_l n), !(rdot_raxpy_r n) by auto with vlen. rewrite (rdot_comm d z). ring.
Qed.
(* Cauchy-Schwarz *)
Lemma rdot_cauchy_schwarz n a b : len n a -> len n b -> (a ⋅ b) * (a ⋅ b) <= (a ⋅ a) * (b ⋅ b).
Proof.
  intros Ha Hb. pose proof (rdot_self_nonneg b) as Hbb.
  destruct (Req_dec (b ⋅ b) 0) as [Hz|Hnz].
  - rewrite (rdot_comm a b), (rdot_self_zero b Hz). rewrite Hz. lra.
  - pose proof (rdot_self_nonneg (raxpy a (- (a ⋅ b) / (b ⋅ b)) b)) as H.
    rewrite (rdot_raxpy_self n) in H by assumption.
    set (ab := a ⋅ b) in *. set (bb := b ⋅ b) in *. set (aa := a ⋅ a) in *.
    assert (0 < bb) by lra.
    assert (E : aa + 2 * (- ab / bb) * ab + - ab / bb * (- ab / bb) * bb = aa - ab * ab / bb) by (field; lra).
    rewrite E in H. apply Rmult_le_compat_r with (r := bb) in H; [|lra].
    replace ((aa - ab * ab / bb) * bb) with (aa * bb - ab * ab) in H by (field; lra). lra.
Qed.
