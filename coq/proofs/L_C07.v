(* C07: adjoint identity (abstract inner-product form); static reference / arity / unpack table of inverse/NonlinearSolve.py,
   reverse-rule descriptors and function-space constructor terms, all regenerated from the AST, checked by computation. *)
From Coq Require Import Reals Lra List Bool Arith String.
From OV.model Require Import M_C07_Refs.
From OV.gen Require Import Refs_NonlinearSolve.
Import ListNotations.
Local Open Scope list_scope.
Local Open Scope R_scope.

(* ------------------------------------------------------------------ A. adjoint identity *)
Lemma lin_quad_nonneg a b : (forall t, 0 <= a * t + b * (t * t)) -> a = 0.
Proof.
  intros H. destruct (Req_dec a 0) as [|Ha]; [assumption|exfalso].
  set (c := Rabs b + 1). assert (Hc : 1 <= c) by (unfold c; pose proof (Rabs_pos b); lra).
  assert (Hb : b <= c - 1) by (unfold c; pose proof (Rle_abs b); lra).
  specialize (H (- a / (2 * c))).
  assert (E : a * (- a / (2 * c)) + b * ((- a / (2 * c)) * (- a / (2 * c))) = (a * a) * (b - 2 * c) / (4 * (c * c))) by (field; lra).
  rewrite E in H.
  assert (Ha2 : 0 < a * a) by nra.
  assert (Hneg : (a * a) * (b - 2 * c) < 0) by nra.
  assert (Hd : 0 < / (4 * (c * c))) by (apply Rinv_0_lt_compat; nra).
  unfold Rdiv in H. nra.
Qed.

Section Adjoint.
  (* V: unknowns, P: one parameter slot; real inner products, H the Hessian at the solution, J = d(gradient)/dp, Jt its transpose *)
  Variables V P : Type.
  Variable vadd : V -> V -> V.
  Variable vscale : R -> V -> V.
  Variable ipV : V -> V -> R.
  Variable ipP : P -> P -> R.
  Variable H : V -> V.
  Variable J : P -> V.
  Variable Jt : V -> P.
  Hypothesis ip_sym : forall a b, ipV a b = ipV b a.
  Hypothesis ip_lin : forall a b c t, ipV a (vadd b (vscale t c)) = ipV a b + t * ipV a c.
  Hypothesis H_lin : forall a b t, H (vadd a (vscale t b)) = vadd (H a) (vscale t (H b)).
  Hypothesis H_sym : forall a b, ipV (H a) b = ipV a (H b).
  Hypothesis J_adj : forall dp w, ipV (J dp) w = ipP dp (Jt w).

  (* the quadratic model the reverse rule hands to the CG solver: minimise v.z + 1/2 z.Hz *)
  Definition qmodel (v z : V) : R := ipV v z + / 2 * ipV z (H z).

  Lemma qmodel_expand v lam w t :
    qmodel v (vadd lam (vscale t w)) - qmodel v lam = (ipV v w + ipV (H lam) w) * t + (/ 2 * ipV (H w) w) * (t * t).
  Proof.
    unfold qmodel. rewrite H_lin, !ip_lin.
    rewrite (ip_sym (vadd lam (vscale t w)) (H lam)), (ip_sym (vadd lam (vscale t w)) (H w)), !ip_lin.
    rewrite (ip_sym (H lam) lam), (ip_sym (H w) lam), <- (H_sym lam w). field.
  Qed.

  (* a minimiser of the quadratic model is stationary: v + H lam = 0 in weak form *)
  Lemma minimiser_stationary v lam : (forall z, qmodel v lam <= qmodel v z) -> forall w, ipV v w + ipV (H lam) w = 0.
  Proof.
    intros Hmin w. apply (lin_quad_nonneg _ (/ 2 * ipV (H w) w)). intros t.
    rewrite <- (qmodel_expand v lam w t). specialize (Hmin (vadd lam (vscale t w))). lra.
  Qed.

  (* adjoint identity: with u the tangent of the solution, H u = - J dp (implicit function theorem, weak form),
     the cotangent pairing <v, u> equals <Jt lam, dp> for the minimiser lam of the quadratic model *)
  Theorem adjoint_identity v lam u dp :
    (forall z, qmodel v lam <= qmodel v z) ->
    (forall w, ipV (H u) w = - ipV (J dp) w) ->
    ipV v u = ipP dp (Jt lam).
  Proof.
    intros Hmin Hu. pose proof (minimiser_stationary v lam Hmin u) as S.
    rewrite <- J_adj. pose proof (Hu lam) as E. rewrite (ip_sym (H u) lam), <- H_sym in E. lra.
  Qed.

  (* with an inexact adjoint solve: residual rho(w) = <v + H lam, w> shows up linearly *)
  Theorem adjoint_identity_inexact v lam u dp :
    (forall w, ipV (H u) w = - ipV (J dp) w) ->
    ipV v u = ipP dp (Jt lam) + (ipV v u + ipV (H lam) u).
  Proof.
    intros Hu. rewrite <- J_adj. pose proof (Hu lam) as E. rewrite (ip_sym (H u) lam), <- H_sym in E. lra.
  Qed.
End Adjoint.

(* hypotheses are satisfiable: V = P = R, H = h (h > 0), J = j *)
Example adjoint_nonvacuous (h j v dp : R) : 0 < h ->
  let lam := - v / h in let u := - (j * dp) / h in v * u = dp * (j * lam).
Proof. intros Hh lam u. unfold lam, u. field. lra. Qed.

Example adjoint_instance (h j v dp : R) : 0 < h ->
  (forall z, qmodel R Rmult (fun x => h * x) v (- v / h) <= qmodel R Rmult (fun x => h * x) v z)
  /\ (forall w, (h * (- (j * dp) / h)) * w = - ((j * dp) * w)).
Proof.
  intros Hh. split.
  - intros z. unfold qmodel.
    assert (E : v * z + / 2 * (z * (h * z)) - (v * (- v / h) + / 2 * (- v / h * (h * (- v / h)))) = / 2 * h * ((z + v / h) * (z + v / h))) by (field; lra).
    pose proof (Rle_0_sqr (z + v / h)) as Hs. unfold Rsqr in Hs.
    assert (0 <= / 2 * h * ((z + v / h) * (z + v / h))) by (apply Rmult_le_pos; [lra|exact Hs]). lra.
  - intros w. field. lra.
Qed.

(* ------------------------------------------------------------------ B. static tables, by computation *)
Definition refs_ok : bool :=
  forallb call_ok refs && forallb unpack_ok unpacks && forallb (fun r => snd r) attr_refs.

Theorem refs_resolve : refs_ok = true.
Proof. vm_compute. reflexivity. Qed.

(* the table is not empty where it matters: both reverse rules call the CG sub-solver, and the result of each is indexed *)
Definition is_adjoint_call (c : callref) : bool := String.eqb (c_callee c) "EquationSolver.solve_trust_region_minimization".
Theorem refs_nonvacuous :
  List.length (filter is_adjoint_call refs) = 2%nat
  /\ List.length (filter (fun u => String.eqb (u_callee u) "EquationSolver.solve_trust_region_minimization") unpacks) = 2%nat
  /\ (16 <= List.length refs)%nat.
Proof. vm_compute. repeat split; repeat constructor. Qed.

Definition expected_slots_with_state : list slotdesc := [SlotVJP 0 0; SlotVJP 1 1; SlotVJP 2 2; SlotNone; SlotVJP 4 4].

Theorem reverse_rules_ok :
  revrule_ok rule_nonlinear_solve_b [SlotVJP 2 99] = true
  /\ revrule_ok rule_nonlinear_solve_with_state_b expected_slots_with_state = true
  /\ nonlinear_solve_slot_forward = 2%nat /\ nonlinear_solve_slot_reverse = 2%nat.
Proof. vm_compute. repeat split; reflexivity. Qed.

(* the Params(...) call of the second rule leaves slot 5 to the namedtuple default (None) *)
Theorem params_defaults_cover :
  existsb (fun c => String.eqb (c_callee c) "Objective.Params" && Nat.eqb (c_npos c) 5 && Nat.eqb (List.length (c_params c)) 6
                    && Nat.eqb (c_ndefaults c) 6) refs = true.
Proof. vm_compute. reflexivity. Qed.

Theorem adjoint_space_same_term : String.eqb afs_term_adjoint afs_term_direct = true.
Proof. vm_compute. reflexivity. Qed.

(* the mesh re-made by the adjoint constructor carries EVERY field of the Mesh namedtuple, each copied verbatim from the
   original mesh except coords := coords (fails if a field is dropped again, as block_maps was before ce2f754) *)
Theorem adjoint_mesh_rebuild :
  afs_mesh_fields_missing = [] /\ afs_mesh_fields_wrong = [] /\ afs_mesh_rebuild_copies_all_fields = true.
Proof. vm_compute. repeat split; reflexivity. Qed.
