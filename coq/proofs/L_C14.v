(* C14: lemmas about the DofManager model (model/M_C14_Dof.v). *)
From Coq Require Import ZArith List Bool Arith Lia Permutation Sorted.
From Coq Require Import ZifyBool.
From OV.model Require Import M_C14_Dof.
Import ListNotations.

(* ------------------------------------------------------------------ generic list facts *)

Lemma mask_select_map {A B} (f : A -> B) m l : mask_select m (map f l) = map f (mask_select m l).
Proof.
  revert l; induction m as [|b m IH]; intros [|x l]; simpl; auto.
  destruct b; simpl; rewrite IH; reflexivity.
Qed.

Lemma count_true_negb m : count_true m + count_true (map negb m) = length m.
Proof. induction m as [|[] m IH]; simpl; lia. Qed.

Lemma mask_select_length {A} m (l : list A) : length m = length l -> length (mask_select m l) = count_true m.
Proof.
  revert l; induction m as [|b m IH]; intros [|x l] H; simpl in *; try discriminate; auto.
  destruct b; simpl; rewrite IH by lia; reflexivity.
Qed.

Lemma mask_select_In {A} m (l : list A) x : In x (mask_select m l) -> In x l.
Proof.
  revert l; induction m as [|b m IH]; intros [|y l]; simpl; try tauto.
  destruct b; simpl; intros H; [destruct H as [H|H]; auto|]; right; apply IH; assumption.
Qed.

Lemma mask_select_perm {A} m (l : list A) :
  length m = length l -> Permutation (mask_select (map negb m) l ++ mask_select m l) l.
Proof.
  revert l; induction m as [|b m IH]; intros [|x l] H; simpl in *; try discriminate; auto.
  destruct b; simpl.
  - apply Permutation_sym, Permutation_cons_app, Permutation_sym, IH; lia.
  - constructor; apply IH; lia.
Qed.

Lemma mask_select_sorted {A} (R : A -> A -> Prop) m l :
  StronglySorted R l -> StronglySorted R (mask_select m l).
Proof.
  revert l; induction m as [|b m IH]; intros [|x l] H; simpl; try constructor.
  inversion H; subst. destruct b; [constructor|]; auto.
  rewrite Forall_forall in *; intros y Hy; eauto using mask_select_In.
Qed.

Lemma seq_sorted s n : StronglySorted lt (seq s n).
Proof.
  revert s; induction n; intros s; simpl; constructor; auto.
  rewrite Forall_forall; intros y Hy; apply in_seq in Hy; lia.
Qed.

Lemma sorted_lt_NoDup l : StronglySorted lt l -> NoDup l.
Proof.
  induction 1; constructor; auto.
  intros Hin; rewrite Forall_forall in H0; specialize (H0 _ Hin); lia.
Qed.

Lemma nth_map_negb i m : i < length m -> nth i (map negb m) false = negb (nth i m false).
Proof.
  intros H. rewrite (nth_indep _ false (negb true)) by (rewrite map_length; lia).
  rewrite map_nth. f_equal. apply nth_indep; assumption.
Qed.

Lemma In_mask_select_seq m s i :
  In i (mask_select m (seq s (length m))) <-> (s <= i < s + length m /\ nth (i - s) m false = true).
Proof.
  revert s; induction m as [|b m IH]; intros s; simpl.
  - split; [tauto|intros [H _]; lia].
  - destruct (lt_eq_lt_dec i s) as [[Hlt|Heq]|Hgt]; [| subst i |].
    + destruct b; simpl; rewrite ?IH; split; intros H; try lia.
    + rewrite Nat.sub_diag. destruct b; simpl; rewrite ?IH.
      * split; auto. intros _; split; [lia|reflexivity].
      * split; [intros [H _]; lia|intros [_ H]; discriminate].
    + replace (i - s) with (S (i - S s)) by lia.
      destruct b; simpl; rewrite ?IH; split.
      * intros [H|[H1 H2]]; [lia|split; [lia|assumption]].
      * intros [H1 H2]; right; split; [lia|assumption].
      * intros [H1 H2]; split; [lia|assumption].
      * intros [H1 H2]; split; [lia|assumption].
Qed.

(* ------------------------------------------------------------------ partition, sizes *)

Lemma is_unknown_in_range isBc d : d < length isBc -> is_unknown isBc d = negb (is_bc isBc d).
Proof. intros H; unfold is_unknown, is_bc, isUnknown; apply nth_map_negb; assumption. Qed.

Lemma is_bc_out_of_range isBc d : length isBc <= d -> is_bc isBc d = false /\ is_unknown isBc d = false.
Proof.
  intros H; unfold is_unknown, is_bc, isUnknown; split; apply nth_overflow; rewrite ?map_length; assumption.
Qed.

Lemma In_unknownIndices isBc i : In i (unknownIndices isBc) <-> (i < length isBc /\ is_bc isBc i = false).
Proof.
  unfold unknownIndices, ids, nDofs, isUnknown, is_bc.
  rewrite <- (map_length negb isBc) at 1. rewrite In_mask_select_seq, map_length, Nat.sub_0_r. simpl.
  split; intros [H1 H2]; (split; [lia|]).
  - rewrite nth_map_negb in H2 by lia. destruct (nth i isBc false); simpl in *; congruence.
  - rewrite nth_map_negb by lia. rewrite H2; reflexivity.
Qed.

Lemma In_bcIndices isBc i : In i (bcIndices isBc) <-> (i < length isBc /\ is_bc isBc i = true).
Proof.
  unfold bcIndices, ids, nDofs, is_bc. rewrite In_mask_select_seq, Nat.sub_0_r. simpl.
  split; intros [H1 H2]; (split; [lia|assumption]).
Qed.

Lemma partition_perm isBc : Permutation (unknownIndices isBc ++ bcIndices isBc) (seq 0 (length isBc)).
Proof. apply mask_select_perm. rewrite seq_length; reflexivity. Qed.

Lemma unknownIndices_sorted isBc : StronglySorted lt (unknownIndices isBc).
Proof. apply mask_select_sorted, seq_sorted. Qed.
Lemma bcIndices_sorted isBc : StronglySorted lt (bcIndices isBc).
Proof. apply mask_select_sorted, seq_sorted. Qed.

Lemma partition_disjoint isBc i : In i (unknownIndices isBc) -> In i (bcIndices isBc) -> False.
Proof. rewrite In_unknownIndices, In_bcIndices; intros [_ H1] [_ H2]; congruence. Qed.

Lemma length_unknownIndices isBc : length (unknownIndices isBc) = get_unknown_size isBc.
Proof. apply mask_select_length. unfold isUnknown, ids, nDofs. rewrite map_length, seq_length; reflexivity. Qed.
Lemma length_bcIndices isBc : length (bcIndices isBc) = get_bc_size isBc.
Proof. apply mask_select_length. unfold ids, nDofs. rewrite seq_length; reflexivity. Qed.
Lemma sizes_sum isBc : get_unknown_size isBc + get_bc_size isBc = length isBc.
Proof. unfold get_unknown_size, get_bc_size, isUnknown. pose proof (count_true_negb isBc); lia. Qed.

Lemma partition_full isBc :
  Permutation (unknownIndices isBc ++ bcIndices isBc) (seq 0 (length isBc))
  /\ StronglySorted lt (unknownIndices isBc) /\ StronglySorted lt (bcIndices isBc)
  /\ (forall i, In i (unknownIndices isBc) -> In i (bcIndices isBc) -> False)
  /\ (forall i, In i (unknownIndices isBc) <-> (i < length isBc /\ is_bc isBc i = false))
  /\ (forall i, In i (bcIndices isBc) <-> (i < length isBc /\ is_bc isBc i = true)).
Proof.
  split; [apply partition_perm|]. split; [apply unknownIndices_sorted|]. split; [apply bcIndices_sorted|].
  split; [apply partition_disjoint|]. split; intros i; [apply In_unknownIndices|apply In_bcIndices].
Qed.

Lemma sizes_full isBc :
  get_unknown_size isBc = length (unknownIndices isBc) /\ get_bc_size isBc = length (bcIndices isBc)
  /\ get_unknown_size isBc + get_bc_size isBc = length isBc
  /\ (forall A (U : list A), length U = length isBc ->
        length (get_unknown_values isBc U) = get_unknown_size isBc /\ length (get_bc_values isBc U) = get_bc_size isBc).
Proof.
  split; [symmetry; apply length_unknownIndices|]. split; [symmetry; apply length_bcIndices|].
  split; [apply sizes_sum|]. intros A U H; split; apply mask_select_length; auto.
  unfold isUnknown; rewrite map_length; auto.
Qed.

(* ------------------------------------------------------------------ round trip *)

Lemma mask_set_length {A} m (base vals : list A) : length (mask_set m base vals) = length base.
Proof.
  revert base vals; induction m as [|b m IH]; intros [|x base] vals; simpl; auto.
  destruct b; [destruct vals|]; simpl; rewrite IH; reflexivity.
Qed.

Lemma select_mask_set {A} m (base vals : list A) :
  length base = length m -> length vals = count_true m -> mask_select m (mask_set m base vals) = vals.
Proof.
  revert base vals; induction m as [|b m IH]; intros [|x base] vals H1 H2; simpl in *; try discriminate.
  - destruct vals; simpl in *; [reflexivity|discriminate].
  - destruct b; [destruct vals as [|v vals]; simpl in *; [discriminate|]|]; simpl; rewrite IH by lia; reflexivity.
Qed.

Lemma select_negb_mask_set {A} m (base vals : list A) :
  mask_select (map negb m) (mask_set m base vals) = mask_select (map negb m) base.
Proof.
  revert base vals; induction m as [|b m IH]; intros [|x base] vals; simpl; auto.
  destruct b; [destruct vals|]; simpl; rewrite IH; reflexivity.
Qed.

Lemma select_mask_set_negb {A} m (base vals : list A) :
  mask_select m (mask_set (map negb m) base vals) = mask_select m base.
Proof.
  revert base vals; induction m as [|b m IH]; intros [|x base] vals; simpl; auto.
  destruct b; [|destruct vals]; simpl; rewrite IH; reflexivity.
Qed.

Lemma mask_set_rebuild {A} m (base U : list A) :
  length base = length m -> length U = length m ->
  mask_set (map negb m) (mask_set m base (mask_select m U)) (mask_select (map negb m) U) = U.
Proof.
  revert base U; induction m as [|b m IH]; intros [|x base] [|u U] H1 H2; simpl in *; try discriminate; auto.
  destruct b; simpl; rewrite IH by lia; reflexivity.
Qed.

Section RoundTrip.
  Context {A : Type} (zero : A) (isBc : list bool).

  Lemma create_field_length Uu Ubc : length (create_field isBc zero Uu Ubc) = length isBc.
  Proof. unfold create_field. rewrite !mask_set_length, repeat_length. reflexivity. Qed.

  Lemma get_unknown_create Uu Ubc :
    length Uu = get_unknown_size isBc -> get_unknown_values isBc (create_field isBc zero Uu Ubc) = Uu.
  Proof.
    intros H. unfold get_unknown_values, create_field. apply select_mask_set; auto.
    rewrite mask_set_length, repeat_length. unfold isUnknown, nDofs. rewrite map_length; reflexivity.
  Qed.

  Lemma get_bc_create Uu Ubc :
    length Ubc = get_bc_size isBc -> get_bc_values isBc (create_field isBc zero Uu Ubc) = Ubc.
  Proof.
    intros H. unfold get_bc_values, create_field, isUnknown. rewrite select_mask_set_negb.
    apply select_mask_set; auto. rewrite repeat_length; reflexivity.
  Qed.

  Lemma create_get U :
    length U = length isBc -> create_field isBc zero (get_unknown_values isBc U) (get_bc_values isBc U) = U.
  Proof.
    intros H. unfold create_field, get_unknown_values, get_bc_values, isUnknown.
    apply mask_set_rebuild; auto. rewrite repeat_length; reflexivity.
  Qed.

  (* default Ubc = scalar: the constrained entries all carry that scalar *)
  Lemma get_bc_create_scalar Uu c :
    get_bc_values isBc (create_field_scalar isBc zero Uu c) = repeat c (get_bc_size isBc).
  Proof. unfold create_field_scalar. apply get_bc_create. apply repeat_length. Qed.

  Lemma roundtrip_full :
    (forall Uu Ubc, length Uu = get_unknown_size isBc -> length Ubc = get_bc_size isBc ->
        get_unknown_values isBc (create_field isBc zero Uu Ubc) = Uu
        /\ get_bc_values isBc (create_field isBc zero Uu Ubc) = Ubc
        /\ length (create_field isBc zero Uu Ubc) = length isBc)
    /\ (forall U, length U = length isBc ->
        create_field isBc zero (get_unknown_values isBc U) (get_bc_values isBc U) = U)
    /\ (forall Uu c, length Uu = get_unknown_size isBc ->
        get_unknown_values isBc (create_field_scalar isBc zero Uu c) = Uu
        /\ get_bc_values isBc (create_field_scalar isBc zero Uu c) = repeat c (get_bc_size isBc)).
  Proof.
    repeat split; auto using get_unknown_create, get_bc_create, create_field_length, create_get, get_bc_create_scalar.
    unfold create_field_scalar; apply get_unknown_create; assumption.
  Qed.
End RoundTrip.

(* ------------------------------------------------------------------ dofToUnknown *)

(* closed form of the scatter: running counter over the mask *)
Fixpoint d2u_rec (m : list bool) (k : nat) : list Z :=
  match m with
  | [] => []
  | b :: m' => if b then (-1)%Z :: d2u_rec m' k else Z.of_nat k :: d2u_rec m' (S k)
  end.

Lemma set_nth_app_len {A} (pre : list A) v x r : set_nth (length pre) v (pre ++ x :: r) = pre ++ v :: r.
Proof. induction pre; simpl; [reflexivity|rewrite IHpre; reflexivity]. Qed.

Lemma scatter_d2u m : forall pre k,
  scatter (pre ++ repeat (-1)%Z (length m)) (mask_select (map negb m) (seq (length pre) (length m)))
          (map Z.of_nat (seq k (count_true (map negb m))))
  = pre ++ d2u_rec m k.
Proof.
  induction m as [|b m IH]; intros pre k.
  - unfold scatter; simpl. reflexivity.
  - destruct b.
    + change (length (true :: m)) with (S (length m)).
      change (map negb (true :: m)) with (false :: map negb m).
      cbn [repeat seq mask_select count_true d2u_rec Nat.add].
      replace (pre ++ (-1)%Z :: repeat (-1)%Z (length m)) with ((pre ++ [(-1)%Z]) ++ repeat (-1)%Z (length m))
        by (rewrite <- app_assoc; reflexivity).
      replace (S (length pre)) with (length (pre ++ [(-1)%Z])) by (rewrite app_length; simpl; lia).
      rewrite IH. rewrite <- app_assoc. reflexivity.
    + change (length (false :: m)) with (S (length m)).
      change (map negb (false :: m)) with (true :: map negb m).
      cbn [repeat seq mask_select count_true d2u_rec Nat.add map].
      unfold scatter. cbn [combine fold_left fst snd].
      rewrite set_nth_app_len.
      replace (pre ++ Z.of_nat k :: repeat (-1)%Z (length m)) with ((pre ++ [Z.of_nat k]) ++ repeat (-1)%Z (length m))
        by (rewrite <- app_assoc; reflexivity).
      replace (S (length pre)) with (length (pre ++ [Z.of_nat k])) by (rewrite app_length; simpl; lia).
      fold (scatter ((pre ++ [Z.of_nat k]) ++ repeat (-1)%Z (length m))
                    (mask_select (map negb m) (seq (length (pre ++ [Z.of_nat k])) (length m)))
                    (map Z.of_nat (seq (S k) (count_true (map negb m))))).
      rewrite IH. rewrite <- app_assoc. reflexivity.
Qed.

Lemma dofToUnknown_closed isBc : dofToUnknown isBc = d2u_rec isBc 0.
Proof.
  unfold dofToUnknown. rewrite length_unknownIndices. unfold unknownIndices, ids, nDofs, get_unknown_size, isUnknown.
  apply (scatter_d2u isBc [] 0).
Qed.

Lemma d2u_rec_length m k : length (d2u_rec m k) = length m.
Proof. revert k; induction m as [|[] m IH]; intros k; simpl; auto. Qed.

Lemma d2u_rec_bc m : forall k i, nth i m false = true -> nth i (d2u_rec m k) (-1)%Z = (-1)%Z.
Proof.
  induction m as [|b m IH]; intros k [|i] H; simpl in *; try discriminate.
  - subst b; reflexivity.
  - destruct b; simpl; apply IH; assumption.
Qed.

Lemma d2u_rec_unk {A} (d : A) m : forall k i (U : list A),
  length U = length m -> i < length m -> nth i m false = false ->
  exists j, nth i (d2u_rec m k) (-1)%Z = Z.of_nat (k + j) /\ j < count_true (map negb m)
            /\ nth j (mask_select (map negb m) U) d = nth i U d.
Proof.
  induction m as [|b m IH]; intros k i [|u U] HU Hi Hb; simpl in *; try lia.
  destruct i as [|i].
  - subst b. exists 0; simpl. rewrite Nat.add_0_r. repeat split; auto; lia.
  - destruct b; simpl.
    + destruct (IH k i U) as (j & H1 & H2 & H3); try lia; auto.
      exists j; repeat split; auto.
    + destruct (IH (S k) i U) as (j & H1 & H2 & H3); try lia; auto.
      exists (S j); simpl. repeat split; auto; try lia.
Qed.

Section D2U.
  Variable isBc : list bool.
  Let N := length isBc.

  Lemma dofToUnknown_length : length (dofToUnknown isBc) = N.
  Proof. rewrite dofToUnknown_closed; apply d2u_rec_length. Qed.

  Lemma unk_bc i : is_bc isBc i = true -> unk isBc i = (-1)%Z.
  Proof. unfold unk, is_bc. rewrite dofToUnknown_closed. apply d2u_rec_bc. Qed.

  Lemma unk_out_of_range i : N <= i -> unk isBc i = (-1)%Z.
  Proof. intros H. unfold unk. apply nth_overflow. rewrite dofToUnknown_length; assumption. Qed.

  Lemma unk_unknown {A} (d : A) i (U : list A) :
    length U = N -> i < N -> is_bc isBc i = false ->
    exists j, unk isBc i = Z.of_nat j /\ j < get_unknown_size isBc /\ nth j (get_unknown_values isBc U) d = nth i U d.
  Proof.
    intros HU Hi Hb. unfold unk, get_unknown_size, get_unknown_values, isUnknown. rewrite dofToUnknown_closed.
    destruct (d2u_rec_unk d isBc 0 i U HU Hi Hb) as (j & H1 & H2 & H3). exists j; auto.
  Qed.

  (* unknown dof i: 0 <= unk i < nUnknowns and unknownIndices[unk i] = i *)
  Lemma unk_inverse_left i : i < N -> is_bc isBc i = false ->
    exists j, unk isBc i = Z.of_nat j /\ j < length (unknownIndices isBc) /\ nth j (unknownIndices isBc) 0 = i.
  Proof.
    intros Hi Hb. destruct (unk_unknown 0 i (seq 0 N)) as (j & H1 & H2 & H3); auto using seq_length.
    exists j. rewrite length_unknownIndices. repeat split; auto.
    unfold get_unknown_values in H3. unfold unknownIndices, ids, nDofs. fold N. rewrite H3. apply seq_nth; assumption.
  Qed.

  (* dofToUnknown[unknownIndices[k]] = k *)
  Lemma unk_inverse_right k : k < length (unknownIndices isBc) -> unk isBc (nth k (unknownIndices isBc) 0) = Z.of_nat k.
  Proof.
    intros Hk. set (i := nth k (unknownIndices isBc) 0).
    assert (Hin : In i (unknownIndices isBc)) by (apply nth_In; assumption).
    apply In_unknownIndices in Hin. destruct Hin as [Hi Hb].
    destruct (unk_inverse_left i Hi Hb) as (j & H1 & H2 & H3).
    rewrite H1. f_equal.
    pose proof (sorted_lt_NoDup _ (unknownIndices_sorted isBc)) as ND.
    rewrite (NoDup_nth _ 0) in ND. apply ND; auto.
  Qed.

  Lemma unk_minus_one_iff i : i < N -> (unk isBc i = (-1)%Z <-> is_bc isBc i = true).
  Proof.
    intros Hi; split; [|apply unk_bc].
    intros H. destruct (is_bc isBc i) eqn:E; auto.
    destruct (unk_inverse_left i Hi E) as (j & H1 & _). lia.
  Qed.

  Lemma dofToUnknown_full :
    length (dofToUnknown isBc) = N
    /\ (forall k, k < length (unknownIndices isBc) -> unk isBc (nth k (unknownIndices isBc) 0) = Z.of_nat k)
    /\ (forall i, i < N -> is_bc isBc i = false ->
          exists j, unk isBc i = Z.of_nat j /\ j < length (unknownIndices isBc) /\ nth j (unknownIndices isBc) 0 = i)
    /\ (forall i, i < N -> (unk isBc i = (-1)%Z <-> is_bc isBc i = true)).
  Proof.
    split; [apply dofToUnknown_length|]. split; [apply unk_inverse_right|]. split; [apply unk_inverse_left|apply unk_minus_one_iff].
  Qed.
End D2U.

(* ------------------------------------------------------------------ slicing the unknown vector *)

Lemma mask_select_map_filter {A B} (f : A -> bool) (g : A -> B) l :
  mask_select (map f l) (map g l) = map g (filter f l).
Proof. induction l as [|x l IH]; simpl; auto. destruct (f x); simpl; rewrite IH; reflexivity. Qed.

Lemma mask_select_filter {A} (f : A -> bool) l : mask_select (map f l) l = filter f l.
Proof. rewrite <- (map_id l) at 2. rewrite mask_select_map_filter. apply map_id. Qed.

Section Slice.
  Context {A : Type} (zero : A) (isBc : list bool).

  Lemma slice_spec U pos :
    length U = length isBc -> Forall (fun p => p < length isBc) pos ->
    slice_unknowns isBc zero (get_unknown_values isBc U) pos
    = map (fun p => nth p U zero) (filter (is_unknown isBc) pos).
  Proof.
    intros HU Hpos. unfold slice_unknowns, gatherZ.
    induction Hpos as [|p pos Hp Hpos IH]; simpl; auto.
    destruct (is_unknown isBc p) eqn:E; simpl; [|apply IH].
    rewrite IH. f_equal.
    rewrite is_unknown_in_range in E by assumption.
    destruct (unk_unknown isBc zero p U HU Hp) as (j & H1 & H2 & H3).
    { destruct (is_bc isBc p); simpl in E; congruence. }
    rewrite H1. unfold nthZ.
    replace (Z.of_nat j <? 0)%Z with false by lia. rewrite Nat2Z.id. assumption.
  Qed.

  (* the component slice [:, c] *)
  Lemma slice_component nNodes dim c U :
    length isBc = nNodes * dim -> c < dim -> length U = nNodes * dim ->
    slice_unknowns isBc zero (get_unknown_values isBc U) (comp_positions nNodes dim c)
    = map (fun n => nth (n * dim + c) U zero) (filter (fun n => is_unknown isBc (n * dim + c)) (seq 0 nNodes)).
  Proof.
    intros HN Hc HU. rewrite slice_spec; try congruence.
    - unfold comp_positions. induction (seq 0 nNodes) as [|n l IH]; simpl; auto.
      destruct (is_unknown isBc (n * dim + c)); simpl; rewrite IH; reflexivity.
    - unfold comp_positions. rewrite Forall_forall. intros p Hp. apply in_map_iff in Hp.
      destruct Hp as (n & <- & Hn). apply in_seq in Hn. rewrite HN. nia.
  Qed.
End Slice.

(* ------------------------------------------------------------------ Hessian coordinate arrays and mask *)

Lemma mask_select_app {A} m1 m2 (l1 l2 : list A) :
  length m1 = length l1 -> mask_select (m1 ++ m2) (l1 ++ l2) = mask_select m1 l1 ++ mask_select m2 l2.
Proof.
  revert l1; induction m1 as [|b m1 IH]; intros [|x l1] H; simpl in *; try discriminate; auto.
  destruct b; simpl; rewrite IH by lia; reflexivity.
Qed.

Lemma combine_app' {A B} (a1 a2 : list A) (b1 b2 : list B) :
  length a1 = length b1 -> combine (a1 ++ a2) (b1 ++ b2) = combine a1 b1 ++ combine a2 b2.
Proof.
  revert b1; induction a1 as [|x a1 IH]; intros [|y b1] H; simpl in *; try discriminate; auto.
  rewrite IH by lia; reflexivity.
Qed.

Lemma combine_repeat {A B} (ys : list A) (x : B) : combine ys (repeat x (length ys)) = map (fun y => (y, x)) ys.
Proof. induction ys; simpl; auto. rewrite IHys; reflexivity. Qed.

Lemma concat_repeat_length {A} (ys : list A) n : length (concat (repeat ys n)) = n * length ys.
Proof. induction n; simpl; auto. rewrite app_length, IHn; reflexivity. Qed.

Lemma flat_map_repeat_length {A} (xs : list A) n : length (flat_map (fun x => repeat x n) xs) = length xs * n.
Proof. induction xs; simpl; auto. rewrite app_length, repeat_length, IHxs; reflexivity. Qed.

Lemma tile_combine {A} (xs ys : list A) :
  combine (concat (repeat ys (length xs))) (flat_map (fun x => repeat x (length ys)) xs)
  = flat_map (fun x => map (fun y => (y, x)) ys) xs.
Proof.
  induction xs as [|x xs IH]; simpl; auto.
  rewrite combine_app' by (rewrite repeat_length; reflexivity).
  rewrite combine_repeat, IH. reflexivity.
Qed.

Lemma count_true_map_filter {A} (f : A -> bool) l : count_true (map f l) = length (filter f l).
Proof. induction l as [|x l IH]; simpl; auto. destruct (f x); simpl; rewrite IH; reflexivity. Qed.

Lemma list_as_map_nth {A} (d : A) l : l = map (fun a => nth a l d) (seq 0 (length l)).
Proof.
  induction l as [|x l IH]; simpl; auto. f_equal.
  rewrite <- seq_shift, map_map. exact IH.
Qed.

Lemma flat_map_map {A B C} (k : A -> B) (g : B -> list C) l : flat_map g (map k l) = flat_map (fun a => g (k a)) l.
Proof. induction l; simpl; auto. rewrite IHl; reflexivity. Qed.

Lemma flat_map_ext_in' {A B} (f g : A -> list B) l : (forall a, In a l -> f a = g a) -> flat_map f l = flat_map g l.
Proof. induction l; simpl; intros H; auto. rewrite H, IHl; auto. Qed.

Lemma map_list_prod {A B C} (G : A * B -> C) X Y :
  map G (list_prod X Y) = flat_map (fun a => map (fun b => G (a, b)) Y) X.
Proof. induction X; simpl; auto. rewrite map_app, map_map, IHX; reflexivity. Qed.

Lemma filter_map_comm {A B} (p : B -> bool) (g : A -> B) l : filter p (map g l) = map g (filter (fun a => p (g a)) l).
Proof. induction l as [|x l IH]; simpl; auto. destruct (p (g x)); simpl; rewrite IH; reflexivity. Qed.

Lemma filter_false {A} (l : list A) : filter (fun _ => false) l = [].
Proof. induction l; simpl; auto. Qed.

Lemma filter_list_prod {A B} (h : A -> bool) (k : B -> bool) X Y :
  filter (fun ab => h (fst ab) && k (snd ab)) (list_prod X Y) = list_prod (filter h X) (filter k Y).
Proof.
  induction X as [|a X IH]; simpl; auto.
  rewrite filter_app, IH, filter_map_comm. simpl.
  destruct (h a); simpl; [reflexivity|]. rewrite filter_false. reflexivity.
Qed.

Lemma combine_flat_map {A B C} (r : A -> list B) (c : A -> list C) l :
  (forall x, In x l -> length (r x) = length (c x)) ->
  combine (flat_map r l) (flat_map c l) = flat_map (fun x => combine (r x) (c x)) l.
Proof.
  induction l as [|x l IH]; simpl; intros H; auto.
  rewrite combine_app' by auto. rewrite IH by auto. reflexivity.
Qed.

Lemma mask_select_flat_map {A B} (m : A -> list bool) (v : A -> list B) l :
  (forall x, In x l -> length (m x) = length (v x)) ->
  mask_select (flat_map m l) (flat_map v l) = flat_map (fun x => mask_select (m x) (v x)) l.
Proof.
  induction l as [|x l IH]; simpl; intros H; auto.
  rewrite mask_select_app by auto. rewrite IH by auto. reflexivity.
Qed.

Lemma mask_select_combine_filter {A B} (P : A -> bool) (l : list A) (vs : list B) :
  mask_select (map P l) vs = map snd (filter (fun av => P (fst av)) (combine l vs)).
Proof.
  revert vs; induction l as [|a l IH]; intros [|v vs]; simpl; auto.
  destruct (P a); simpl; rewrite IH; reflexivity.
Qed.

Lemma NoDup_app_intro {A} (l1 l2 : list A) :
  NoDup l1 -> NoDup l2 -> (forall x, In x l1 -> In x l2 -> False) -> NoDup (l1 ++ l2).
Proof.
  induction l1 as [|x l1 IH]; simpl; intros H1 H2 H; auto.
  inversion H1; subst. constructor.
  - rewrite in_app_iff. intros [Hx|Hx]; eauto.
  - apply IH; eauto.
Qed.

Lemma NoDup_list_prod' {A B} (X : list A) (Y : list B) : NoDup X -> NoDup Y -> NoDup (list_prod X Y).
Proof.
  induction X as [|a X IH]; simpl; intros HX HY; [constructor|].
  inversion HX; subst. apply NoDup_app_intro; auto.
  - clear -HY. induction HY; simpl; constructor; auto.
    rewrite in_map_iff. intros (y & E & Hy). inversion E; subst; contradiction.
  - intros [a' b] K1 K2. apply in_map_iff in K1. destruct K1 as (y & E & _). inversion E; subst.
    apply in_prod_iff in K2. tauto.
Qed.

Section Hess.
  Variable isBc : list bool.
  Variable dim : nat.
  Let N := length isBc.

  Definition el_in_range (en : list nat) : Prop := Forall (fun d => d < N) (el_dofs dim en).

  (* a valid connectivity (every node < nNodes) keeps every element dof in range *)
  Lemma el_in_range_nodes nNodes en : N = nNodes * dim -> Forall (fun n => n < nNodes) en -> el_in_range en.
  Proof.
    intros HN H. unfold el_in_range, el_dofs. rewrite Forall_forall in *. intros d Hd.
    apply in_flat_map in Hd. destruct Hd as (n & Hn & Hd). apply in_map_iff in Hd. destruct Hd as (c & <- & Hc).
    apply in_seq in Hc. specialize (H _ Hn). rewrite HN. nia.
  Qed.

  Section Element.
    Variable en : list nat.
    Hypothesis Hr : el_in_range en.
    Let ds := el_dofs dim en.
    Let nd := length ds.
    Let X := seq 0 nd.
    Let dof (a : nat) := nth a ds 0.
    Let h (a : nat) := is_unknown isBc (dof a).

    Lemma dof_in_range a : In a X -> dof a < N.
    Proof.
      intros Ha. apply in_seq in Ha. unfold el_in_range in Hr. rewrite Forall_forall in Hr.
      apply Hr. apply nth_In. fold ds. fold nd. lia.
    Qed.

    Lemma el_mask_as_map : el_mask isBc dim en = map (el_both_unknown isBc dim en) (el_pairs dim en).
    Proof.
      unfold el_mask, el_pairs, el_bc_flags. cbv zeta. fold ds. fold nd. fold X.
      assert (E : map (is_bc isBc) ds = map (fun a => is_bc isBc (dof a)) X).
      { rewrite (list_as_map_nth 0 ds) at 1. rewrite map_map. reflexivity. }
      rewrite E, map_list_prod, flat_map_map. apply flat_map_ext_in'. intros a Ha.
      rewrite map_map. apply map_ext_in. intros b Hb.
      unfold el_both_unknown; simpl. fold ds. fold (dof a). fold (dof b).
      rewrite !is_unknown_in_range by (apply dof_in_range; assumption). reflexivity.
    Qed.

    Lemma el_mask_length : length (el_mask isBc dim en) = length (el_pairs dim en).
    Proof. rewrite el_mask_as_map, map_length; reflexivity. Qed.

    Lemma el_pairs_length : length (el_pairs dim en) = nd * nd.
    Proof. unfold el_pairs. fold ds. fold nd. rewrite prod_length, seq_length. reflexivity. Qed.

    Lemma el_mask_selects : mask_select (el_mask isBc dim en) (el_pairs dim en) = el_selected isBc dim en.
    Proof. rewrite el_mask_as_map. apply mask_select_filter. Qed.

    (* the values of an element block selected by the mask are those at (a, b) with both dofs unknown, in row-major order *)
    Lemma el_mask_selects_values {V} (vs : list V) :
      mask_select (el_mask isBc dim en) vs
      = map snd (filter (fun pv => el_both_unknown isBc dim en (fst pv)) (combine (el_pairs dim en) vs)).
    Proof. rewrite el_mask_as_map. apply mask_select_combine_filter. Qed.

    Lemma el_unknowns_as_map : el_unknowns isBc dim en = map (fun a => unk isBc (dof a)) (filter h X).
    Proof.
      unfold el_unknowns, el_unknown_flags. fold ds. rewrite mask_select_filter.
      rewrite (list_as_map_nth 0 ds) at 1. fold nd. fold X.
      rewrite filter_map_comm, map_map. reflexivity.
    Qed.

    Lemma n_el_unknowns_length : n_el_unknowns isBc dim en = length (el_unknowns isBc dim en).
    Proof.
      unfold n_el_unknowns, el_unknowns, el_unknown_flags. rewrite map_length, mask_select_filter.
      apply count_true_map_filter.
    Qed.

    Lemma el_rows_cols_length : length (el_rows isBc dim en) = length (el_cols isBc dim en).
    Proof.
      unfold el_rows, el_cols. rewrite concat_repeat_length, flat_map_repeat_length, n_el_unknowns_length. lia.
    Qed.

    Lemma el_coords_spec :
      combine (el_rows isBc dim en) (el_cols isBc dim en) = map (el_coord isBc dim en) (el_selected isBc dim en).
    Proof.
      unfold el_rows, el_cols. rewrite n_el_unknowns_length, tile_combine.
      unfold el_selected, el_pairs. fold ds. fold nd. fold X.
      assert (E : forall ab, el_both_unknown isBc dim en ab = h (fst ab) && h (snd ab)) by reflexivity.
      rewrite (filter_ext _ _ E), filter_list_prod, map_list_prod.
      rewrite el_unknowns_as_map, flat_map_map.
      apply flat_map_ext_in'. intros a _. rewrite map_map. reflexivity.
    Qed.

    Lemma el_selected_NoDup : NoDup (el_selected isBc dim en).
    Proof. unfold el_selected, el_pairs. apply NoDup_filter, NoDup_list_prod'; apply seq_NoDup. Qed.

    Lemma el_selected_In a b :
      In (a, b) (el_selected isBc dim en)
      <-> (a < nd /\ b < nd /\ is_bc isBc (dof a) = false /\ is_bc isBc (dof b) = false).
    Proof.
      unfold el_selected, el_pairs. fold ds. fold nd. fold X.
      rewrite filter_In, in_prod_iff. unfold el_both_unknown; simpl. fold ds. fold (dof a). fold (dof b).
      unfold X. rewrite !in_seq, andb_true_iff.
      split.
      - intros [[Ha Hb] [H1 H2]].
        rewrite is_unknown_in_range in H1, H2 by (apply dof_in_range; apply in_seq; lia).
        destruct (is_bc isBc (dof a)), (is_bc isBc (dof b)); simpl in *; try discriminate. repeat split; lia.
      - intros (Ha & Hb & H1 & H2).
        rewrite !is_unknown_in_range by (apply dof_in_range; apply in_seq; lia).
        rewrite H1, H2. repeat split; lia.
    Qed.

    Lemma el_lengths :
      length (el_rows isBc dim en) = count_true (el_mask isBc dim en)
      /\ length (el_cols isBc dim en) = count_true (el_mask isBc dim en)
      /\ length (el_mask isBc dim en) = nd * nd.
    Proof.
      assert (L : length (combine (el_rows isBc dim en) (el_cols isBc dim en)) = count_true (el_mask isBc dim en)).
      { rewrite el_coords_spec, map_length, <- el_mask_selects. apply mask_select_length, el_mask_length. }
      rewrite combine_length, <- el_rows_cols_length, Nat.min_id in L.
      rewrite <- el_rows_cols_length, el_mask_length, el_pairs_length. auto.
    Qed.
  End Element.

  Lemma count_true_app m1 m2 : count_true (m1 ++ m2) = count_true m1 + count_true m2.
  Proof. induction m1 as [|b m1 IHm]; simpl; auto. rewrite IHm; lia. Qed.

  Lemma hess_lengths cs : Forall el_in_range cs ->
    length (HessRowCoords isBc dim cs) = count_true (hessian_bc_mask isBc dim cs)
    /\ length (HessColCoords isBc dim cs) = count_true (hessian_bc_mask isBc dim cs)
    /\ length (hessian_bc_mask isBc dim cs) = length (flat_map (el_pairs dim) cs).
  Proof.
    unfold HessRowCoords, HessColCoords, hessian_bc_mask.
    induction 1 as [|en r Hen Hr IH]; simpl; auto.
    destruct (el_lengths en Hen) as (L1 & L2 & L3).
    destruct IH as (I1 & I2 & I3).
    rewrite !app_length, count_true_app, L1, L2, I1, I2, I3, (el_mask_length en Hen). auto.
  Qed.

  (* ----- the whole connectivity table ----- *)
  Variable conns : list (list nat).
  Hypothesis Hc : Forall el_in_range conns.

  Lemma hess_coords_spec :
    combine (HessRowCoords isBc dim conns) (HessColCoords isBc dim conns)
    = flat_map (fun en => map (el_coord isBc dim en) (el_selected isBc dim en)) conns.
  Proof.
    unfold HessRowCoords, HessColCoords. rewrite Forall_forall in Hc.
    rewrite combine_flat_map by (intros en Hen; apply el_rows_cols_length).
    apply flat_map_ext_in'. intros en Hen. apply el_coords_spec; auto.
  Qed.

  Lemma hess_mask_selects_pairs :
    mask_select (hessian_bc_mask isBc dim conns) (flat_map (el_pairs dim) conns)
    = flat_map (el_selected isBc dim) conns.
  Proof.
    unfold hessian_bc_mask. rewrite Forall_forall in Hc.
    rewrite mask_select_flat_map by (intros en Hen; apply el_mask_length; auto).
    apply flat_map_ext_in'. intros en Hen. apply el_mask_selects; auto.
  Qed.

End Hess.

(* ------------------------------------------------------------------ isBc from node sets x components *)

Lemma set_nth_length {A} i (v : A) l : length (set_nth i v l) = length l.
Proof. revert i; induction l; intros [|i]; simpl; auto. Qed.

Lemma nth_set_nth_eq {A} i (v d : A) l : i < length l -> nth i (set_nth i v l) d = v.
Proof. revert i; induction l; intros [|i] H; simpl in *; try lia; auto. apply IHl; lia. Qed.

Lemma nth_set_nth_neq {A} i j (v d : A) l : i <> j -> nth i (set_nth j v l) d = nth i l d.
Proof. revert i j; induction l; intros [|i] [|j] H; simpl; auto; try lia. Qed.

Lemma rowmajor_unique dim n c n' c' : c < dim -> c' < dim -> n * dim + c = n' * dim + c' -> n = n' /\ c = c'.
Proof.
  intros Hc Hc' E.
  assert (n = n').
  { destruct (lt_eq_lt_dec n n') as [[H|H]|H]; auto; exfalso.
    - assert (S n * dim <= n' * dim) by (apply Nat.mul_le_mono_r; lia). simpl in *; lia.
    - assert (S n' * dim <= n * dim) by (apply Nat.mul_le_mono_r; lia). simpl in *; lia. }
  subst; split; lia.
Qed.

Section MkIsBc.
  Variables nNodes dim : nat.

  Lemma set_bc_node_length comp acc n : length (set_bc_node nNodes dim comp acc n) = length acc.
  Proof. unfold set_bc_node. destruct (_ && _); auto using set_nth_length. Qed.

  Lemma set_bc_node_spec comp acc n' n c :
    length acc = nNodes * dim -> n < nNodes -> c < dim ->
    (nth (n * dim + c) (set_bc_node nNodes dim comp acc n') false = true
     <-> ((n = n' /\ c = comp) \/ nth (n * dim + c) acc false = true)).
  Proof.
    intros HL Hn Hc. unfold set_bc_node.
    destruct (n' <? nNodes) eqn:E1; destruct (comp <? dim) eqn:E2; simpl;
      try (split; [auto|intros [[-> ->]|H]; [lia|assumption]]).
    destruct (Nat.eq_dec (n * dim + c) (n' * dim + comp)) as [E|NE].
    - assert (n = n' /\ c = comp) as [-> ->] by (apply (rowmajor_unique dim); assumption || lia).
      rewrite nth_set_nth_eq by (rewrite HL; nia). tauto.
    - rewrite nth_set_nth_neq by assumption. split; [auto|].
      intros [[-> ->]|H]; [congruence|assumption].
  Qed.

  Lemma apply_ebc_length acc ebc : length (apply_ebc nNodes dim acc ebc) = length acc.
  Proof.
    unfold apply_ebc. revert acc; induction (fst ebc) as [|x l IH]; intros acc; simpl; auto.
    rewrite IH. apply set_bc_node_length.
  Qed.

  Lemma apply_ebc_spec nodes comp acc n c :
    length acc = nNodes * dim -> n < nNodes -> c < dim ->
    (nth (n * dim + c) (apply_ebc nNodes dim acc (nodes, comp)) false = true
     <-> ((In n nodes /\ c = comp) \/ nth (n * dim + c) acc false = true)).
  Proof.
    unfold apply_ebc; simpl. revert acc; induction nodes as [|x l IH]; intros acc HL Hn Hc; simpl.
    - tauto.
    - rewrite IH by (rewrite ?set_bc_node_length; assumption).
      rewrite set_bc_node_spec by assumption. intuition congruence.
  Qed.

  Lemma mk_isBc_length ebcs : length (mk_isBc nNodes dim ebcs) = nNodes * dim.
  Proof.
    unfold mk_isBc. generalize (repeat_length false (nNodes * dim)).
    generalize (repeat false (nNodes * dim)) as acc.
    induction ebcs as [|e l IH]; intros acc H; simpl; auto.
    apply IH. rewrite apply_ebc_length. assumption.
  Qed.

  Lemma nth_repeat_false i k : nth i (repeat false k) false = false.
  Proof. revert i; induction k; intros [|i]; simpl; auto. Qed.

  Lemma mk_isBc_spec ebcs n c : n < nNodes -> c < dim ->
    (is_bc (mk_isBc nNodes dim ebcs) (n * dim + c) = true <-> exists nodes, In (nodes, c) ebcs /\ In n nodes).
  Proof.
    intros Hn Hc. unfold is_bc, mk_isBc.
    assert (G : forall acc, length acc = nNodes * dim ->
      (nth (n * dim + c) (fold_left (apply_ebc nNodes dim) ebcs acc) false = true
       <-> ((exists nodes, In (nodes, c) ebcs /\ In n nodes) \/ nth (n * dim + c) acc false = true))).
    { induction ebcs as [|[nodes comp] l IH]; intros acc HL; simpl.
      - split; [auto|intros [(x & [] & _)|H]; assumption].
      - rewrite IH by (rewrite apply_ebc_length; assumption).
        rewrite apply_ebc_spec by assumption. split.
        + intros [(x & H1 & H2)|[[H1 ->]|H]]; eauto.
        + intros [(x & [E|H1] & H2)|H]; eauto. inversion E; subst. auto. }
    rewrite G by apply repeat_length. rewrite nth_repeat_false. split; [intros [H|H]; [assumption|discriminate]|auto].
  Qed.
End MkIsBc.

(* ------------------------------------------------------------------ non-vacuity: concrete BC sets *)
(* 4 nodes, 2 fields; BCs: node set [0;2;2] (repeated node) on component 0, node set [2;3] on component 0 (overlap),
   node set [] on component 1 (empty) *)
Definition ex_isBc : list bool := mk_isBc 4 2 [([0;2;2], 0); ([2;3], 0); ([], 1)].
Definition ex_conns : list (list nat) := [[0;1;2]; [2;1;3]].

Lemma ex_values :
  ex_isBc = [true;false; false;false; true;false; true;false]
  /\ unknownIndices ex_isBc = [1;2;3;5;7] /\ bcIndices ex_isBc = [0;4;6]
  /\ dofToUnknown ex_isBc = [-1;0;1;2;-1;3;-1;4]%Z
  /\ Forall (el_in_range ex_isBc 2) ex_conns
  /\ length (HessRowCoords ex_isBc 2 ex_conns) = 32
  /\ mk_isBc 2 2 [] = [false;false;false;false]
  /\ mk_isBc 2 1 [([0;1;1;0], 0)] = [true;true].
Proof.
  repeat split; try reflexivity.
  rewrite Forall_forall; intros en [<-|[<-|[]]]; unfold el_in_range; rewrite Forall_forall; simpl; intros d Hd;
    repeat (destruct Hd as [<-|Hd]; [vm_compute; lia|]); destruct Hd.
Qed.

(* ------------------------------------------------------------------ packaged statement for the Hessian index maps *)
Definition valid_conns (nNodes : nat) (conns : list (list nat)) : Prop :=
  Forall (Forall (fun n => n < nNodes)) conns.

Lemma valid_conns_in_range isBc dim nNodes conns :
  length isBc = nNodes * dim -> valid_conns nNodes conns -> Forall (el_in_range isBc dim) conns.
Proof.
  intros HN H. unfold valid_conns in H. rewrite Forall_forall in *. intros en Hen.
  apply (el_in_range_nodes isBc dim nNodes); auto.
Qed.

Lemma hessian_maps_full isBc dim nNodes conns :
  length isBc = nNodes * dim -> valid_conns nNodes conns ->
  (* k-th stored coordinate pair = (unknown of b, unknown of a) of the k-th both-unknown local pair, element by element *)
  combine (HessRowCoords isBc dim conns) (HessColCoords isBc dim conns)
    = flat_map (fun en => map (el_coord isBc dim en) (el_selected isBc dim en)) conns
  (* the mask selects, in row-major (e, a, b) order, exactly those pairs *)
  /\ mask_select (hessian_bc_mask isBc dim conns) (flat_map (el_pairs dim) conns) = flat_map (el_selected isBc dim) conns
  (* lengths agree *)
  /\ length (HessRowCoords isBc dim conns) = count_true (hessian_bc_mask isBc dim conns)
  /\ length (HessColCoords isBc dim conns) = count_true (hessian_bc_mask isBc dim conns)
  /\ length (hessian_bc_mask isBc dim conns) = length (flat_map (el_pairs dim) conns)
  (* every unknown-by-unknown pair of every element is addressed, exactly once; nothing else is; coordinates are valid *)
  /\ (forall en, In en conns ->
        NoDup (el_selected isBc dim en)
        /\ (forall a b, In (a, b) (el_selected isBc dim en)
              <-> (a < length (el_dofs dim en) /\ b < length (el_dofs dim en)
                   /\ is_bc isBc (nth a (el_dofs dim en) 0) = false /\ is_bc isBc (nth b (el_dofs dim en) 0) = false))
        /\ (forall a b, In (a, b) (el_selected isBc dim en) ->
              exists i j, el_coord isBc dim en (a, b) = (Z.of_nat i, Z.of_nat j)
                          /\ nth i (unknownIndices isBc) 0 = nth b (el_dofs dim en) 0
                          /\ nth j (unknownIndices isBc) 0 = nth a (el_dofs dim en) 0
                          /\ i < get_unknown_size isBc /\ j < get_unknown_size isBc)).
Proof.
  intros HN HV. pose proof (valid_conns_in_range isBc dim nNodes conns HN HV) as HR.
  split; [apply hess_coords_spec; assumption|]. split; [apply hess_mask_selects_pairs; assumption|].
  destruct (hess_lengths isBc dim conns HR) as (L1 & L2 & L3). repeat (split; [assumption|]).
  intros en Hen. rewrite Forall_forall in HR. specialize (HR _ Hen).
  split; [apply el_selected_NoDup|]. split; [intros a b; apply el_selected_In; assumption|].
  intros a b Hab. apply el_selected_In in Hab; [|assumption]. destruct Hab as (Ha & Hb & Ua & Ub).
  assert (Ra : nth a (el_dofs dim en) 0 < length isBc).
  { unfold el_in_range in HR. rewrite Forall_forall in HR. apply HR, nth_In; assumption. }
  assert (Rb : nth b (el_dofs dim en) 0 < length isBc).
  { unfold el_in_range in HR. rewrite Forall_forall in HR. apply HR, nth_In; assumption. }
  destruct (unk_inverse_left isBc _ Rb Ub) as (i & I1 & I2 & I3).
  destruct (unk_inverse_left isBc _ Ra Ua) as (j & J1 & J2 & J3).
  exists i, j. unfold el_coord; simpl. rewrite I1, J1. rewrite <- !length_unknownIndices. auto.
Qed.

Lemma isBc_from_node_sets_full nNodes dim ebcs :
  length (mk_isBc nNodes dim ebcs) = nNodes * dim
  /\ forall n c, n < nNodes -> c < dim ->
       (is_bc (mk_isBc nNodes dim ebcs) (n * dim + c) = true <-> exists nodes, In (nodes, c) ebcs /\ In n nodes).
Proof. split; [apply mk_isBc_length|intros; apply mk_isBc_spec; assumption]. Qed.
