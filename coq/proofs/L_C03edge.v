(* C03 -- the edge quadrature sum of FunctionSpace.integrate_function_on_edge AT THE IMPLEMENTATION'S OWN POINTS.
   The implementation evaluates F at X_q = sum_a N_a(s_q) X_a (1-D shape tables applied to the coordinates of the edge nodes),
   not at the exact edge points A + s_q t.  Here: (1) an explicit Lipschitz constant of a polynomial on a box (from its
   monomial normal form), (2) the distance of X_q from A + s_q t from the certified 1-D reference identities (RefIds1, k = 0, 1)
   and the placement error delta of the edge nodes, (3) the resulting bound for the discrete flux, in the shape the
   implementation computes it (unit normal and edge Jacobian of Mesh.compute_edge_vectors, model/M_C03.v edge_vectors at R),
   (4) summed over the boundary edges of a mesh and combined with the divergence theorem. *)
From Coq Require Import ZArith List Lia Reals Lra Psatz Permutation.
From Coquelicot Require Import Coquelicot.
From OV.base Require Import Num.
From OV.model Require Import M_C03.
From OV.proofs Require Import L_C03sn L_C03cert L_C03lift L_C03int L_C03div.
Import ListNotations.
Local Open Scope R_scope.

(* ------------------------------------------------------------------ Lipschitz bound for powers and monomials *)
Lemma pow_abs_le x M n : Rabs x <= M -> Rabs (x ^ n) <= M ^ n.
Proof. intros H. rewrite <- RPow_abs. apply pow_incr. split; [apply Rabs_pos | exact H]. Qed.

Lemma rdmon_nonneg M i : 0 <= M -> 0 <= rdmon M i.
Proof. intros HM. unfold rdmon. apply Rmult_le_pos; [apply pos_INR | apply pow_le, HM]. Qed.
Lemma rdmon_S M i : rdmon M (S i) = M * rdmon M i + M ^ i.
Proof. unfold rdmon. destruct i as [|i']; [cbn; ring|]. cbn [pred]. rewrite (S_INR (S i')). cbn [pow]. ring. Qed.

Lemma pow_lip x x' M i : Rabs x <= M -> Rabs x' <= M -> Rabs (x ^ i - x' ^ i) <= rdmon M i * Rabs (x - x').
Proof.
  intros Hx Hx'. assert (HM : 0 <= M) by (pose proof (Rabs_pos x); lra).
  induction i as [|i IH].
  - unfold rdmon; cbn [pow INR pred]. rewrite Rminus_eq_0, Rabs_R0. lra.
  - replace (x ^ S i - x' ^ S i) with (x * (x ^ i - x' ^ i) + (x - x') * x' ^ i) by (cbn [pow]; ring).
    eapply Rle_trans; [apply Rabs_triang|]. rewrite !Rabs_mult, rdmon_S.
    pose proof (pow_abs_le x' M i Hx') as Hp. pose proof (rdmon_nonneg M i HM) as Hr.
    pose proof (Rabs_pos (x - x')) as Hd. pose proof (Rabs_pos x). pose proof (Rabs_pos (x ^ i - x' ^ i)). pose proof (Rabs_pos (x' ^ i)).
    assert (T1 : Rabs x * Rabs (x ^ i - x' ^ i) <= M * (rdmon M i * Rabs (x - x'))) by (apply Rmult_le_compat; assumption).
    assert (T2 : Rabs (x - x') * Rabs (x' ^ i) <= Rabs (x - x') * M ^ i) by (apply Rmult_le_compat_l; assumption).
    lra.
Qed.

(* Lipschitz constant of the monomial x^i y^j on the box [-M, M]^2 for the max-norm: (d/dx + d/dy) at (M, M) *)
Definition mlip (M : R) (m : mono) : R := rmon_dx (M, M) m + rmon_dy (M, M) m.
Lemma mlip_nonneg M m : 0 <= M -> 0 <= mlip M m.
Proof.
  intros HM. unfold mlip, rmon_dx, rmon_dy; cbn [fst snd].
  pose proof (rdmon_nonneg M (fst m) HM). pose proof (rdmon_nonneg M (snd m) HM).
  pose proof (pow_le M (fst m) HM). pose proof (pow_le M (snd m) HM). nra.
Qed.

Definition inbox (M : R) (X : R * R) : Prop := Rabs (fst X) <= M /\ Rabs (snd X) <= M.

Lemma rmon_lip X X' M d m : inbox M X -> inbox M X' -> pclose d X X' -> Rabs (rmon X m - rmon X' m) <= mlip M m * d.
Proof.
  intros [Hx Hy] [Hx' Hy'] [Dx Dy]. destruct m as [i j]. unfold rmon, mlip, rmon_dx, rmon_dy; cbn [fst snd].
  assert (HM : 0 <= M) by (pose proof (Rabs_pos (fst X)); lra).
  replace (fst X ^ i * snd X ^ j - fst X' ^ i * snd X' ^ j)
    with ((fst X ^ i - fst X' ^ i) * snd X ^ j + fst X' ^ i * (snd X ^ j - snd X' ^ j)) by ring.
  eapply Rle_trans; [apply Rabs_triang|]. rewrite !Rabs_mult.
  pose proof (pow_lip (fst X) (fst X') M i Hx Hx') as L1. pose proof (pow_lip (snd X) (snd X') M j Hy Hy') as L2.
  pose proof (pow_abs_le (snd X) M j Hy) as P1. pose proof (pow_abs_le (fst X') M i Hx') as P2.
  pose proof (rdmon_nonneg M i HM) as R1. pose proof (rdmon_nonneg M j HM) as R2.
  pose proof (pow_le M i HM). pose proof (pow_le M j HM).
  pose proof (Rabs_pos (fst X - fst X')) as D1. pose proof (Rabs_pos (snd X - snd X')) as D2.
  assert (Hd : 0 <= d) by lra.
  assert (L1' : Rabs (fst X ^ i - fst X' ^ i) <= rdmon M i * d) by (eapply Rle_trans; [exact L1|]; apply Rmult_le_compat_l; assumption).
  assert (L2' : Rabs (snd X ^ j - snd X' ^ j) <= rdmon M j * d) by (eapply Rle_trans; [exact L2|]; apply Rmult_le_compat_l; assumption).
  assert (T1 : Rabs (fst X ^ i - fst X' ^ i) * Rabs (snd X ^ j) <= (rdmon M i * d) * M ^ j)
    by (apply Rmult_le_compat; try assumption; apply Rabs_pos).
  assert (T2 : Rabs (fst X' ^ i) * Rabs (snd X ^ j - snd X' ^ j) <= M ^ i * (rdmon M j * d))
    by (apply Rmult_le_compat; try assumption; apply Rabs_pos).
  lra.
Qed.

(* ------------------------------------------------------------------ polynomials: explicit Lipschitz constant on a box *)
Definition plip (P : poly) (M : R) : R := rsum (map (fun t => Rabs (fst t) * mlip M (snd t)) P).
Lemma plip_cons t P M : plip (t :: P) M = Rabs (fst t) * mlip M (snd t) + plip P M.
Proof. reflexivity. Qed.
Lemma plip_nonneg P M : 0 <= M -> 0 <= plip P M.
Proof.
  intros HM. induction P as [|t P IH]; [unfold plip; cbn; lra|]. rewrite plip_cons.
  pose proof (Rabs_pos (fst t)). pose proof (mlip_nonneg M (snd t) HM). nra.
Qed.
Theorem peval_lip P X X' M d : inbox M X -> inbox M X' -> pclose d X X' -> Rabs (peval P X - peval P X') <= plip P M * d.
Proof.
  intros HX HX' HD. induction P as [|t P IH].
  - unfold peval, plin, plip; cbn [map rsum]. rewrite Rminus_0_r, Rabs_R0. lra.
  - unfold peval in *. rewrite !plin_cons, plip_cons.
    replace (fst t * rmon X (snd t) + plin (rmon X) P - (fst t * rmon X' (snd t) + plin (rmon X') P))
      with (fst t * (rmon X (snd t) - rmon X' (snd t)) + (plin (rmon X) P - plin (rmon X') P)) by ring.
    eapply Rle_trans; [apply Rabs_triang|]. rewrite Rabs_mult.
    pose proof (rmon_lip X X' M d (snd t) HX HX' HD). pose proof (Rabs_pos (fst t)). nra.
Qed.
(* the constant grows with the box *)
Lemma rdmon_mono M M' i : 0 <= M <= M' -> rdmon M i <= rdmon M' i.
Proof. intros H. unfold rdmon. apply Rmult_le_compat_l; [apply pos_INR | apply pow_incr, H]. Qed.
Lemma mlip_mono M M' m : 0 <= M <= M' -> mlip M m <= mlip M' m.
Proof.
  intros H. unfold mlip, rmon_dx, rmon_dy; cbn [fst snd].
  assert (HM : 0 <= M) by lra. assert (HM' : 0 <= M') by lra.
  pose proof (rdmon_mono M M' (fst m) H). pose proof (rdmon_mono M M' (snd m) H).
  pose proof (pow_incr M M' (fst m) H). pose proof (pow_incr M M' (snd m) H).
  pose proof (rdmon_nonneg M (fst m) HM). pose proof (rdmon_nonneg M (snd m) HM).
  pose proof (pow_le M (fst m) HM). pose proof (pow_le M (snd m) HM).
  apply Rplus_le_compat; apply Rmult_le_compat; assumption.
Qed.
Lemma plip_mono P M M' : 0 <= M <= M' -> plip P M <= plip P M'.
Proof.
  intros H. induction P as [|t P IH]; [unfold plip; cbn; lra|]. rewrite !plip_cons.
  pose proof (mlip_mono M M' (snd t) H). pose proof (Rabs_pos (fst t)). nra.
Qed.

(* ------------------------------------------------------------------ the edge: box, weights *)
(* max-norm radius of a box around the origin that contains the segment A B *)
Definition emax (A B : R * R) : R := Rmax (Rabs (fst A) + Rabs (fst B - fst A)) (Rabs (snd A) + Rabs (snd B - snd A)).
Lemma emax_nonneg A B : 0 <= emax A B.
Proof. unfold emax. eapply Rle_trans; [|apply Rmax_l]. pose proof (Rabs_pos (fst A)). pose proof (Rabs_pos (fst B - fst A)). lra. Qed.
Lemma lin_abs_le a t s : 0 <= s <= 1 -> Rabs (a + s * t) <= Rabs a + Rabs t.
Proof.
  intros Hs. eapply Rle_trans; [apply Rabs_triang|]. rewrite Rabs_mult, (Rabs_pos_eq s) by lra.
  pose proof (Rabs_pos t). nra.
Qed.
Lemma seg_inbox A B s : 0 <= s <= 1 -> inbox (emax A B) (seg A B s).
Proof.
  intros Hs. unfold inbox, seg, emax; cbn [fst snd]. split.
  - eapply Rle_trans; [apply lin_abs_le, Hs | apply Rmax_l].
  - eapply Rle_trans; [apply lin_abs_le, Hs | apply Rmax_r].
Qed.
Lemma inbox_pclose M eta X X' : inbox M X' -> pclose eta X X' -> inbox (M + eta) X.
Proof.
  intros [H1 H2] [D1 D2]. split.
  - replace (fst X) with (fst X' + (fst X - fst X')) by ring. eapply Rle_trans; [apply Rabs_triang|]. lra.
  - replace (snd X) with (snd X' + (snd X - snd X')) by ring. eapply Rle_trans; [apply Rabs_triang|]. lra.
Qed.
Lemma inbox_mono M M' X : M <= M' -> inbox M X -> inbox M' X.
Proof. intros H [H1 H2]. split; lra. Qed.

Lemma gauss_weight_sum d eps xs ws : Gauss1dExact d eps xs ws -> Rabs (rsum ws - 1) <= eps.
Proof.
  intros [L [H _]]. specialize (H 0%nat (Nat.le_0_l d)).
  rewrite (rdot_map_ext ws (fun x => x ^ 0) (fun _ => 1)) in H by (intros; reflexivity).
  rewrite rdot_ones in H by (symmetry; exact L). cbn [INR] in H. replace (1 / 1) with 1 in H by field. exact H.
Qed.

(* perturbing the evaluation points of a positively weighted sum *)
Lemma rdot_pert_points (F : R * R -> R) e : 0 <= e -> forall Xq Xq', Forall2 (fun X X' => Rabs (F X - F X') <= e) Xq Xq' ->
  forall ws, (forall w, In w ws -> 0 < w) -> Rabs (rdot ws (map F Xq) - rdot ws (map F Xq')) <= e * rsum ws.
Proof.
  intros He Xq Xq' HF. induction HF as [|X X' Xq Xq' HX HF IH]; intros ws Hw.
  - cbn [map]. rewrite !rdot_nil_r, Rminus_0_r, Rabs_R0.
    assert (0 <= rsum ws). { clear - Hw. induction ws as [|w ws IH]; cbn [rsum]; [lra|]. pose proof (Hw w (or_introl eq_refl)). assert (0 <= rsum ws) by (apply IH; intros; apply Hw; right; assumption). lra. }
    nra.
  - destruct ws as [|w ws]; [cbn [rdot rsum]; rewrite Rminus_0_r, Rabs_R0; lra|].
    cbn [map rdot rsum]. specialize (IH ws (fun w' H => Hw w' (or_intror H))).
    pose proof (Hw w (or_introl eq_refl)) as W.
    replace (w * F X + rdot ws (map F Xq) - (w * F X' + rdot ws (map F Xq')))
      with (w * (F X - F X') + (rdot ws (map F Xq) - rdot ws (map F Xq'))) by ring.
    eapply Rle_trans; [apply Rabs_triang|]. rewrite Rabs_mult, (Rabs_pos_eq w) by lra.
    pose proof (Rabs_pos (F X - F X')). nra.
Qed.

(* ------------------------------------------------------------------ level 1: the flux sum at perturbed points *)
Definition flux_at (F1 F2 : R * R -> R) (A B : R * R) (Xq : list (R * R)) (ws : list R) : R :=
  rdot ws (map F1 Xq) * (snd B - snd A) - rdot ws (map F2 Xq) * (fst B - fst A).
Lemma discrete_flux_at F1 F2 A B xs ws : discrete_flux F1 F2 A B xs ws = flux_at F1 F2 A B (map (seg A B) xs) ws.
Proof. unfold discrete_flux, flux_at. rewrite !map_map. reflexivity. Qed.

(* bound of the theorems below: quadrature term + Lipschitz term *)
Definition lip_term (P1 P2 : poly) (A B : R * R) (eta : R) : R :=
  eta * (plip P1 (emax A B + eta) * Rabs (snd B - snd A) + plip P2 (emax A B + eta) * Rabs (fst B - fst A)).
Lemma lip_term_nonneg P1 P2 A B eta : 0 <= eta -> 0 <= lip_term P1 P2 A B eta.
Proof.
  intros H. unfold lip_term. pose proof (emax_nonneg A B).
  pose proof (plip_nonneg P1 (emax A B + eta)). pose proof (plip_nonneg P2 (emax A B + eta)).
  pose proof (Rabs_pos (snd B - snd A)). pose proof (Rabs_pos (fst B - fst A)).
  apply Rmult_le_pos; [exact H|]. apply Rplus_le_le_0_compat; apply Rmult_le_pos; try assumption; [apply H1 | apply H2]; lra.
Qed.
Lemma lip_term_mono P1 P2 A B eta eta' : 0 <= eta <= eta' -> lip_term P1 P2 A B eta <= lip_term P1 P2 A B eta'.
Proof.
  intros H. unfold lip_term. pose proof (emax_nonneg A B) as HE.
  assert (HM : 0 <= emax A B + eta <= emax A B + eta') by lra.
  pose proof (plip_mono P1 _ _ HM). pose proof (plip_mono P2 _ _ HM).
  pose proof (plip_nonneg P1 (emax A B + eta) (proj1 HM)). pose proof (plip_nonneg P2 (emax A B + eta) (proj1 HM)).
  pose proof (Rabs_pos (snd B - snd A)). pose proof (Rabs_pos (fst B - fst A)).
  apply Rmult_le_compat; try lra.
  - apply Rplus_le_le_0_compat; apply Rmult_le_pos; assumption.
  - apply Rplus_le_compat; apply Rmult_le_compat_r; assumption.
Qed.

Lemma flux_at_pert P1 P2 F1 F2 A B eps eta d1 xs ws Xq :
  (forall x, F1 x = peval P1 x) -> (forall x, F2 x = peval P2 x) ->
  Gauss1dExact d1 eps xs ws -> 0 <= eta -> Forall2 (fun s X => pclose eta X (seg A B s)) xs Xq ->
  Rabs (flux_at F1 F2 A B Xq ws - flux_at F1 F2 A B (map (seg A B) xs) ws) <= (1 + eps) * lip_term P1 P2 A B eta.
Proof.
  intros E1 E2 HQ Heta HF.
  pose proof (gauss_weight_sum d1 eps xs ws HQ) as HW. apply Rabs_le_between in HW.
  destruct HQ as [L [_ [Hw Hx]]].
  set (M := emax A B + eta).
  assert (HM : 0 <= M) by (unfold M; pose proof (emax_nonneg A B); lra).
  assert (HL : forall P F, (forall x, F x = peval P x) -> Forall2 (fun X X' => Rabs (F X - F X') <= plip P M * eta) Xq (map (seg A B) xs)).
  { intros P F EF. clear - HF Hx EF Heta. induction HF as [|s X xs Xq HX HF IH]; cbn [map]; constructor.
    - rewrite !EF. apply peval_lip; [|apply (inbox_mono (emax A B)); [unfold M; lra|]|exact HX].
      + apply (inbox_pclose _ _ _ (seg A B s)); [apply seg_inbox, Hx; left; reflexivity | exact HX].
      + apply seg_inbox, Hx. left; reflexivity.
    - apply IH. intros x Hin. apply Hx. right. exact Hin. }
  assert (HP : forall P, 0 <= plip P M * eta) by (intros P; apply Rmult_le_pos; [apply plip_nonneg, HM | exact Heta]).
  pose proof (rdot_pert_points F1 _ (HP P1) _ _ (HL P1 F1 E1) ws Hw) as B1.
  pose proof (rdot_pert_points F2 _ (HP P2) _ _ (HL P2 F2 E2) ws Hw) as B2.
  unfold flux_at.
  match goal with |- Rabs (?a * ?u - ?c * ?v - (?a' * ?u - ?c' * ?v)) <= _ =>
    replace (a * u - c * v - (a' * u - c' * v)) with (u * (a - a') - v * (c - c')) by ring end.
  unfold Rminus at 1. eapply Rle_trans; [apply Rabs_triang|]. rewrite Rabs_Ropp, !Rabs_mult.
  unfold lip_term. fold M.
  pose proof (Rabs_pos (snd B - snd A)) as T1. pose proof (Rabs_pos (fst B - fst A)) as T2.
  pose proof (HP P1) as Q1. pose proof (HP P2) as Q2.
  assert (S1 : plip P1 M * eta * rsum ws <= plip P1 M * eta * (1 + eps)) by (apply Rmult_le_compat_l; lra).
  assert (S2 : plip P2 M * eta * rsum ws <= plip P2 M * eta * (1 + eps)) by (apply Rmult_le_compat_l; lra).
  assert (U1 : Rabs (snd B - snd A) * Rabs (rdot ws (map F1 Xq) - rdot ws (map F1 (map (seg A B) xs))) <= Rabs (snd B - snd A) * (plip P1 M * eta * (1 + eps)))
    by (apply Rmult_le_compat_l; lra).
  assert (U2 : Rabs (fst B - fst A) * Rabs (rdot ws (map F2 Xq) - rdot ws (map F2 (map (seg A B) xs))) <= Rabs (fst B - fst A) * (plip P2 M * eta * (1 + eps)))
    by (apply Rmult_le_compat_l; lra).
  lra.
Qed.

Theorem edge_flux_perturbed k F1 f1x f1y l F2 f2x f2y A B d1 :
  PolyG k F1 f1x f1y -> PolyG l F2 f2x f2y -> (k <= d1)%nat -> (l <= d1)%nat ->
  exists C P1 P2, 0 <= C /\ pdeg_le k P1 /\ pdeg_le l P2 /\ (forall x, F1 x = peval P1 x) /\ (forall x, F2 x = peval P2 x) /\
    forall eps eta xs ws Xq, Gauss1dExact d1 eps xs ws -> 0 <= eta ->
      Forall2 (fun s X => pclose eta X (seg A B s)) xs Xq ->
      Rabs (flux_at F1 F2 A B Xq ws - flux F1 F2 A B) <= C * eps + (1 + eps) * lip_term P1 P2 A B eta.
Proof.
  intros H1 H2 K1 K2.
  destruct (edge_flux_quadrature k F1 f1x f1y l F2 f2x f2y A B d1 H1 H2 K1 K2) as [C [HC HB]].
  destruct (PolyG_normal_form k F1 f1x f1y H1) as [P1 [D1 E1]]. destruct (PolyG_normal_form l F2 f2x f2y H2) as [P2 [D2 E2]].
  exists C, P1, P2. split; [exact HC|]. split; [exact D1|]. split; [exact D2|].
  split; [intros x; apply (E1 x)|]. split; [intros x; apply (E2 x)|].
  intros eps eta xs ws Xq HQ Heta HF.
  specialize (HB eps xs ws HQ). rewrite discrete_flux_at in HB.
  pose proof (flux_at_pert P1 P2 F1 F2 A B eps eta d1 xs ws Xq (fun x => proj1 (E1 x)) (fun x => proj1 (E2 x)) HQ Heta HF) as HP.
  replace (flux_at F1 F2 A B Xq ws - flux F1 F2 A B)
    with ((flux_at F1 F2 A B Xq ws - flux_at F1 F2 A B (map (seg A B) xs) ws) + (flux_at F1 F2 A B (map (seg A B) xs) ws - flux F1 F2 A B)) by ring.
  eapply Rle_trans; [apply Rabs_triang|]. lra.
Qed.

(* ------------------------------------------------------------------ level 2: the interpolated points X_q = sum_a N_a X_a *)
(* FunctionSpace.interpolate_nodal_field_on_edge applied to the coordinate field: edgeShapes.values.T @ edgeCoords *)
Definition interp_pt (N : list R) (Xn : list (R * R)) : R * R := (rdot N (map fst Xn), rdot N (map snd Xn)).

Lemma rdot_pert_vals N d : 0 <= d -> forall u v, Forall2 (fun a c => Rabs (a - c) <= d) u v ->
  Rabs (rdot N u - rdot N v) <= d * rsum (map Rabs N).
Proof.
  intros Hd u v HF. revert N. induction HF as [|a c u v Hac HF IH]; intros N.
  - rewrite !rdot_nil_r, Rminus_0_r, Rabs_R0.
    assert (0 <= rsum (map Rabs N)) by (induction N as [|n N IHN]; cbn [map rsum]; [lra | pose proof (Rabs_pos n); lra]). nra.
  - destruct N as [|n N]; [cbn [rdot map rsum]; rewrite Rminus_0_r, Rabs_R0; lra|].
    cbn [rdot map rsum]. specialize (IH N).
    replace (n * a + rdot N u - (n * c + rdot N v)) with (n * (a - c) + (rdot N u - rdot N v)) by ring.
    eapply Rle_trans; [apply Rabs_triang|]. rewrite Rabs_mult. pose proof (Rabs_pos n). nra.
Qed.

Lemma interp_coord p eps nodes s N dN a t : (1 <= p)%nat -> RefIds1 p eps nodes s N dN ->
  Rabs (rdot N (map (fun sg => a + sg * t) nodes) - (a + s * t)) <= eps * (Rabs a + Rabs t).
Proof.
  intros Hp [_ [_ H]]. destruct (H 0%nat (Nat.le_0_l p)) as [H0 _]. destruct (H 1%nat Hp) as [H1 _].
  rewrite (rdot_map_ext N (fun sg => a + sg * t) (fun sg => a * sg ^ 0 + t * sg ^ 1)) by (intros; cbn [pow]; ring).
  rewrite rdot_map_add, !rdot_map_scal.
  replace (a * rdot N (map (fun x => x ^ 0) nodes) + t * rdot N (map (fun x => x ^ 1) nodes) - (a + s * t))
    with (a * (rdot N (map (fun x => x ^ 0) nodes) - s ^ 0) + t * (rdot N (map (fun x => x ^ 1) nodes) - s ^ 1)) by (cbn [pow]; ring).
  eapply Rle_trans; [apply Rabs_triang|]. rewrite !Rabs_mult. pose proof (Rabs_pos a). pose proof (Rabs_pos t). nra.
Qed.

(* distance of the implementation's edge point from the exact edge point: node placement error delta (amplified by the
   Lebesgue sum of the shape values) plus the certified error of the 1-D reference identities *)
Theorem interp_pt_close p eps delta nodes s N dN A B Xn : (1 <= p)%nat -> RefIds1 p eps nodes s N dN -> 0 <= delta ->
  Forall2 (fun sg X => pclose delta X (seg A B sg)) nodes Xn ->
  pclose (delta * rsum (map Rabs N) + eps * emax A B) (interp_pt N Xn) (seg A B s).
Proof.
  intros Hp HR Hd HF.
  assert (He : 0 <= eps). { destruct HR as [_ [_ H]]. destruct (H 0%nat (Nat.le_0_l p)) as [H0 _]. pose proof (Rabs_pos (rdot N (map (fun x => x ^ 0) nodes) - s ^ 0)). lra. }
  assert (F1 : Forall2 (fun a c => Rabs (a - c) <= delta) (map fst Xn) (map (fun sg => fst A + sg * (fst B - fst A)) nodes)).
  { clear - HF. induction HF as [|sg X nodes Xn [HX _] HF IH]; cbn [map]; constructor; [exact HX | exact IH]. }
  assert (F2 : Forall2 (fun a c => Rabs (a - c) <= delta) (map snd Xn) (map (fun sg => snd A + sg * (snd B - snd A)) nodes)).
  { clear - HF. induction HF as [|sg X nodes Xn [_ HX] HF IH]; cbn [map]; constructor; [exact HX | exact IH]. }
  pose proof (rdot_pert_vals N delta Hd _ _ F1) as B1. pose proof (rdot_pert_vals N delta Hd _ _ F2) as B2.
  pose proof (interp_coord p eps nodes s N dN (fst A) (fst B - fst A) Hp HR) as C1.
  pose proof (interp_coord p eps nodes s N dN (snd A) (snd B - snd A) Hp HR) as C2.
  pose proof (Rmax_l (Rabs (fst A) + Rabs (fst B - fst A)) (Rabs (snd A) + Rabs (snd B - snd A))) as M1.
  pose proof (Rmax_r (Rabs (fst A) + Rabs (fst B - fst A)) (Rabs (snd A) + Rabs (snd B - snd A))) as M2.
  fold (emax A B) in M1, M2.
  unfold pclose, interp_pt, seg; cbn [fst snd]. split.
  - replace (rdot N (map fst Xn) - (fst A + s * (fst B - fst A)))
      with ((rdot N (map fst Xn) - rdot N (map (fun sg => fst A + sg * (fst B - fst A)) nodes))
            + (rdot N (map (fun sg => fst A + sg * (fst B - fst A)) nodes) - (fst A + s * (fst B - fst A)))) by ring.
    eapply Rle_trans; [apply Rabs_triang|]. nra.
  - replace (rdot N (map snd Xn) - (snd A + s * (snd B - snd A)))
      with ((rdot N (map snd Xn) - rdot N (map (fun sg => snd A + sg * (snd B - snd A)) nodes))
            + (rdot N (map (fun sg => snd A + sg * (snd B - snd A)) nodes) - (snd A + s * (snd B - snd A)))) by ring.
    eapply Rle_trans; [apply Rabs_triang|]. nra.
Qed.

(* ------------------------------------------------------------------ the sum the implementation computes *)
(* FunctionSpace.integrate_function_on_edge with func(u, X, n) = F(X).n:
     _, normal, jac = compute_edge_vectors(...);  integrand_q = F(X_q).normal;  dot(integrand, jac * wgauss)
   with the R-instance of model/M_C03.v edge_vectors (normal = (t_y, -t_x)/|t|, jac = |t|) *)
Definition impl_edge_flux (F1 F2 : R * R -> R) (A B : R * R) (Xn : list (R * R)) (Ns : list (list R)) (ws : list R) : R :=
  let nj := @edge_vectors R NumR A B in
  let n := snd (fst nj) in let jac := snd nj in
  rdot (map (fun X => F1 X * fst n + F2 X * snd n) (map (fun N => interp_pt N Xn) Ns)) (map (fun w => jac * w) ws).

Lemma edge_jac_nonzero A B : A <> B ->
  sqrt ((fst B - fst A) * (fst B - fst A) + (snd B - snd A) * (snd B - snd A)) <> 0.
Proof.
  intros HAB E.
  pose proof (Rle_0_sqr (fst B - fst A)) as S1. pose proof (Rle_0_sqr (snd B - snd A)) as S2. unfold Rsqr in S1, S2.
  apply sqrt_eq_0 in E; [|lra].
  apply HAB. destruct A as [a1 a2], B as [b1 b2]; cbn [fst snd] in *.
  assert (Z : forall u, 0 <= u * u -> u * u <= 0 -> u = 0) by (intros u _ Hu; destruct (Req_dec u 0) as [|Hn]; [assumption|]; pose proof (Rsqr_pos_lt u Hn) as Hp; unfold Rsqr in Hp; lra).
  f_equal; [assert (b1 - a1 = 0) by (apply Z; lra) | assert (b2 - a2 = 0) by (apply Z; lra)]; lra.
Qed.

Lemma impl_edge_flux_eq F1 F2 A B Xn Ns ws : A <> B ->
  impl_edge_flux F1 F2 A B Xn Ns ws = flux_at F1 F2 A B (map (fun N => interp_pt N Xn) Ns) ws.
Proof.
  intros HAB. pose proof (edge_jac_nonzero A B HAB) as HJ.
  unfold impl_edge_flux, edge_vectors, flux_at. unfold_num. cbn [fst snd].
  set (tx := fst B - fst A) in *. set (ty := snd B - snd A) in *. set (j := sqrt (tx * tx + ty * ty)) in *.
  set (Xq := map (fun N => interp_pt N Xn) Ns).
  rewrite rdot_comm, rdot_scal_l.
  rewrite (rdot_map_ext ws (fun X => F1 X * (ty / j) + F2 X * (- tx / j)) (fun X => (ty / j) * F1 X + (- tx / j) * F2 X)) by (intros; ring).
  rewrite rdot_map_add, !rdot_map_scal. field. exact HJ.
Qed.

(* the general statement: edge nodes within delta of their exact positions A + sigma_a t, Lebesgue sums bounded by Lam *)
Theorem edge_flux_impl_points k F1 f1x f1y l F2 f2x f2y A B d1 p :
  PolyG k F1 f1x f1y -> PolyG l F2 f2x f2y -> (k <= d1)%nat -> (l <= d1)%nat -> (1 <= p)%nat -> A <> B ->
  exists C P1 P2, 0 <= C /\ pdeg_le k P1 /\ pdeg_le l P2 /\ (forall x, F1 x = peval P1 x) /\ (forall x, F2 x = peval P2 x) /\
    forall eps_q eps_s delta Lam nodes Xn xs Ns ws,
      Gauss1dExact d1 eps_q xs ws ->
      Forall2 (fun s N => (exists dN, RefIds1 p eps_s nodes s N dN) /\ rsum (map Rabs N) <= Lam) xs Ns ->
      Forall2 (fun sg X => pclose delta X (seg A B sg)) nodes Xn ->
      0 <= eps_s -> 0 <= delta -> 0 <= Lam ->
      Rabs (impl_edge_flux F1 F2 A B Xn Ns ws - flux F1 F2 A B)
        <= C * eps_q + (1 + eps_q) * lip_term P1 P2 A B (delta * Lam + eps_s * emax A B).
Proof.
  intros H1 H2 K1 K2 Hp HAB.
  destruct (edge_flux_perturbed k F1 f1x f1y l F2 f2x f2y A B d1 H1 H2 K1 K2) as [C [P1 [P2 [HC [D1 [D2 [E1 [E2 HB]]]]]]]].
  exists C, P1, P2. repeat (split; [assumption|]).
  intros eps_q eps_s delta Lam nodes Xn xs Ns ws HQ HN HX Hes Hd HL.
  rewrite (impl_edge_flux_eq _ _ _ _ _ _ _ HAB).
  pose proof (emax_nonneg A B) as HE.
  apply (HB eps_q _ xs ws _ HQ).
  - apply Rplus_le_le_0_compat; apply Rmult_le_pos; assumption.
  - clear - HN HX Hp Hd HE Hes. induction HN as [|s N xs Ns [[dN HR] HLam] HN IH]; cbn [map]; constructor; [|exact IH].
    pose proof (interp_pt_close p eps_s delta nodes s N dN A B Xn Hp HR Hd HX) as [C1 C2].
    assert (delta * rsum (map Rabs N) <= delta * Lam) by (apply Rmult_le_compat_l; assumption).
    split; lra.
Qed.

(* edge nodes exactly at A + sigma_a t (straight-sided meshes whose higher-order nodes are the affine images of the
   reference nodes): only the certified table errors remain *)
Theorem edge_flux_impl_points_exact_nodes k F1 f1x f1y l F2 f2x f2y A B d1 p :
  PolyG k F1 f1x f1y -> PolyG l F2 f2x f2y -> (k <= d1)%nat -> (l <= d1)%nat -> (1 <= p)%nat -> A <> B ->
  exists C P1 P2, 0 <= C /\ pdeg_le k P1 /\ pdeg_le l P2 /\ (forall x, F1 x = peval P1 x) /\ (forall x, F2 x = peval P2 x) /\
    forall eps_q eps_s nodes xs Ns ws,
      Gauss1dExact d1 eps_q xs ws ->
      Forall2 (fun s N => exists dN, RefIds1 p eps_s nodes s N dN) xs Ns ->
      0 <= eps_s ->
      Rabs (impl_edge_flux F1 F2 A B (map (seg A B) nodes) Ns ws - flux F1 F2 A B)
        <= C * eps_q + (1 + eps_q) * lip_term P1 P2 A B (eps_s * emax A B).
Proof.
  intros H1 H2 K1 K2 Hp HAB.
  destruct (edge_flux_perturbed k F1 f1x f1y l F2 f2x f2y A B d1 H1 H2 K1 K2) as [C [P1 [P2 [HC [D1 [D2 [E1 [E2 HB]]]]]]]].
  exists C, P1, P2. repeat (split; [assumption|]).
  intros eps_q eps_s nodes xs Ns ws HQ HN Hes.
  rewrite (impl_edge_flux_eq _ _ _ _ _ _ _ HAB).
  pose proof (emax_nonneg A B) as HE.
  assert (HX : Forall2 (fun sg X => pclose 0 X (seg A B sg)) nodes (map (seg A B) nodes)).
  { clear. induction nodes as [|sg nodes IH]; cbn [map]; constructor; [|exact IH].
    unfold pclose. rewrite !Rminus_eq_0, Rabs_R0. lra. }
  apply (HB eps_q _ xs ws _ HQ); [apply Rmult_le_pos; assumption|].
  clear - HN HX Hp. induction HN as [|s N xs Ns [dN HR] HN IH]; cbn [map]; constructor; [|exact IH].
  pose proof (interp_pt_close p eps_s 0 nodes s N dN A B _ Hp HR (Rle_refl 0) HX) as [C1 C2].
  rewrite Rmult_0_l, Rplus_0_l in C1, C2. split; assumption.
Qed.

(* the same in Lipschitz form: constants C, L that depend only on F and the edge, for every table error eps_s <= 1 *)
Theorem edge_flux_impl_lipschitz k F1 f1x f1y l F2 f2x f2y A B d1 p :
  PolyG k F1 f1x f1y -> PolyG l F2 f2x f2y -> (k <= d1)%nat -> (l <= d1)%nat -> (1 <= p)%nat -> A <> B ->
  exists C L, 0 <= C /\ 0 <= L /\
    forall eps_q eps_s nodes xs Ns ws,
      Gauss1dExact d1 eps_q xs ws ->
      Forall2 (fun s N => exists dN, RefIds1 p eps_s nodes s N dN) xs Ns ->
      0 <= eps_s <= 1 ->
      Rabs (impl_edge_flux F1 F2 A B (map (seg A B) nodes) Ns ws - flux F1 F2 A B) <= C * eps_q + L * (1 + eps_q) * eps_s.
Proof.
  intros H1 H2 K1 K2 Hp HAB.
  destruct (edge_flux_impl_points_exact_nodes k F1 f1x f1y l F2 f2x f2y A B d1 p H1 H2 K1 K2 Hp HAB) as [C [P1 [P2 [HC [_ [_ [_ [_ HB]]]]]]]].
  pose proof (emax_nonneg A B) as HE.
  set (M0 := emax A B + emax A B).
  set (L := emax A B * (plip P1 M0 * Rabs (snd B - snd A) + plip P2 M0 * Rabs (fst B - fst A))).
  assert (HM0 : 0 <= M0) by (unfold M0; lra).
  pose proof (plip_nonneg P1 M0 HM0) as Q1. pose proof (plip_nonneg P2 M0 HM0) as Q2.
  pose proof (Rabs_pos (snd B - snd A)) as T1. pose proof (Rabs_pos (fst B - fst A)) as T2.
  assert (HL : 0 <= L) by (unfold L; apply Rmult_le_pos; [exact HE|]; apply Rplus_le_le_0_compat; apply Rmult_le_pos; assumption).
  exists C, L. split; [exact HC|]. split; [exact HL|].
  intros eps_q eps_s nodes xs Ns ws HQ HN [Hs0 Hs1].
  specialize (HB eps_q eps_s nodes xs Ns ws HQ HN Hs0).
  assert (Hq : 0 <= eps_q). { pose proof (gauss_weight_sum d1 eps_q xs ws HQ). pose proof (Rabs_pos (rsum ws - 1)). lra. }
  eapply Rle_trans; [exact HB|]. apply Rplus_le_compat_l.
  assert (HT : lip_term P1 P2 A B (eps_s * emax A B) <= L * eps_s).
  { unfold lip_term, L.
    assert (HMM : 0 <= emax A B + eps_s * emax A B <= M0) by (unfold M0; split; nra).
    pose proof (plip_mono P1 _ _ HMM) as W1. pose proof (plip_mono P2 _ _ HMM) as W2.
    pose proof (plip_nonneg P1 _ (proj1 HMM)) as V1. pose proof (plip_nonneg P2 _ (proj1 HMM)) as V2.
    assert (S : plip P1 (emax A B + eps_s * emax A B) * Rabs (snd B - snd A) + plip P2 (emax A B + eps_s * emax A B) * Rabs (fst B - fst A)
                <= plip P1 M0 * Rabs (snd B - snd A) + plip P2 M0 * Rabs (fst B - fst A))
      by (apply Rplus_le_compat; apply Rmult_le_compat_r; assumption).
    assert (0 <= eps_s * emax A B) by (apply Rmult_le_pos; assumption).
    replace (emax A B * (plip P1 M0 * Rabs (snd B - snd A) + plip P2 M0 * Rabs (fst B - fst A)) * eps_s)
      with (eps_s * emax A B * (plip P1 M0 * Rabs (snd B - snd A) + plip P2 M0 * Rabs (fst B - fst A))) by ring.
    apply Rmult_le_compat_l; assumption. }
  replace (L * (1 + eps_q) * eps_s) with ((1 + eps_q) * (L * eps_s)) by ring.
  apply Rmult_le_compat_l; lra.
Qed.

(* ------------------------------------------------------------------ summed over a list of edges *)
Definition impl_eflux (F1 F2 : R * R -> R) (nodes : list R) (Ns : list (list R)) (ws : list R) (e : dedge) : R :=
  impl_edge_flux F1 F2 (fst e) (snd e) (map (seg (fst e) (snd e)) nodes) Ns ws.

Theorem edges_flux_impl_lipschitz k F1 f1x f1y l F2 f2x f2y d1 p (edges : list dedge) :
  PolyG k F1 f1x f1y -> PolyG l F2 f2x f2y -> (k <= d1)%nat -> (l <= d1)%nat -> (1 <= p)%nat ->
  (forall e, In e edges -> fst e <> snd e) ->
  exists C L, 0 <= C /\ 0 <= L /\
    forall eps_q eps_s nodes xs Ns ws,
      Gauss1dExact d1 eps_q xs ws ->
      Forall2 (fun s N => exists dN, RefIds1 p eps_s nodes s N dN) xs Ns ->
      0 <= eps_s <= 1 ->
      Rabs (rsum (map (impl_eflux F1 F2 nodes Ns ws) edges) - rsum (map (eflux F1 F2) edges)) <= C * eps_q + L * (1 + eps_q) * eps_s.
Proof.
  intros H1 H2 K1 K2 Hp. induction edges as [|e edges IH]; intros Hne.
  - exists 0, 0. split; [lra|]. split; [lra|]. intros. cbn [map rsum]. rewrite Rminus_0_r, Rabs_R0. lra.
  - destruct IH as [C [L [HC [HL HB]]]]; [intros e' He'; apply Hne; right; exact He'|].
    destruct (edge_flux_impl_lipschitz k F1 f1x f1y l F2 f2x f2y (fst e) (snd e) d1 p H1 H2 K1 K2 Hp (Hne e (or_introl eq_refl)))
      as [C0 [L0 [HC0 [HL0 HB0]]]].
    exists (C0 + C), (L0 + L). split; [lra|]. split; [lra|].
    intros eps_q eps_s nodes xs Ns ws HQ HN Hs.
    specialize (HB eps_q eps_s nodes xs Ns ws HQ HN Hs). specialize (HB0 eps_q eps_s nodes xs Ns ws HQ HN Hs).
    cbn [map rsum]. unfold impl_eflux at 1. unfold eflux at 1.
    match goal with |- Rabs (?a + ?b - (?c + ?e')) <= _ => replace (a + b - (c + e')) with ((a - c) + (b - e')) by ring end.
    eapply Rle_trans; [apply Rabs_triang|]. lra.
Qed.

(* non-vacuity: exact P1 edge data (nodes 0, 1; one-point rule at 1/2) satisfy the hypotheses *)
Lemma p1_edge_refids : RefIds1 1 0 [0; 1] (1 / 2) [1 / 2; 1 / 2] [-1; 1].
Proof.
  split; [reflexivity|]. split; [reflexivity|]. intros k Hk.
  assert (C : (k = 0 \/ k = 1)%nat) by lia. destruct C as [-> | ->]; unfold rdmon; cbn [map rdot pow pred INR];
    split; match goal with |- Rabs ?x <= 0 => replace x with 0 by field; rewrite Rabs_R0; lra end.
Qed.
Lemma p1_edge_gauss : Gauss1dExact 1 0 [1 / 2] [1].
Proof.
  split; [reflexivity|]. split; [|split].
  - intros k Hk. assert (C : (k = 0 \/ k = 1)%nat) by lia. destruct C as [-> | ->]; cbn [map rdot pow INR];
      match goal with |- Rabs ?x <= 0 => replace x with 0 by field; rewrite Rabs_R0; lra end.
  - intros w [<-|[]]. lra.
  - intros x [<-|[]]. lra.
Qed.

(* ------------------------------------------------------------------ mesh: the boundary flux the implementation computes *)
From OV.model Require Import M_C13_Edges.
From OV.proofs Require Import L_C03_C13.

(* sum over the edges create_edges reports as boundary of the implementation's edge sums  vs  sum over the elements of the
   integrals of div F: the divergence clause at the implementation's own numbers, up to the certified table errors *)
Theorem divergence_mesh_discrete (X : nat -> R * R) k F1 f1x f1y l F2 f2x f2y conns d1 p :
  NoDup (all_faces conns) -> nondegenerate conns ->
  PolyG k F1 f1x f1y -> PolyG l F2 f2x f2y -> (k <= d1)%nat -> (l <= d1)%nat -> (1 <= p)%nat ->
  (forall f, In f (boundary_faces conns) -> X (fst f) <> X (snd f)) ->
  exists C L, 0 <= C /\ 0 <= L /\
    forall eps_q eps_s nodes xs Ns ws,
      Gauss1dExact d1 eps_q xs ws ->
      Forall2 (fun s N => exists dN, RefIds1 p eps_s nodes s N dN) xs Ns ->
      0 <= eps_s <= 1 ->
      Rabs (rsum (map (impl_eflux F1 F2 nodes Ns ws) (map (xface X) (boundary_faces conns)))
            - rsum (map (int_tri' (fun x => f1x x + f2y x)) (mesh_of X conns)))
        <= C * eps_q + L * (1 + eps_q) * eps_s.
Proof.
  intros HN HD H1 H2 K1 K2 Hp HX.
  rewrite <- (divergence_mesh_create_edges X k F1 f1x f1y l F2 f2x f2y conns HN HD H1 H2).
  apply (edges_flux_impl_lipschitz k F1 f1x f1y l F2 f2x f2y d1 p _ H1 H2 K1 K2 Hp).
  intros e He. apply in_map_iff in He. destruct He as [f [<- Hf]]. unfold xface; cbn [fst snd]. apply HX, Hf.
Qed.
Lemma nonvacuous_edge :
  Gauss1dExact 1 0 [1 / 2] [1] /\ Forall2 (fun s N => exists dN, RefIds1 1 0 [0; 1] s N dN) [1 / 2] [[1 / 2; 1 / 2]] /\
  ((0, 0) : R * R) <> (1, 0).
Proof.
  split; [exact p1_edge_gauss|]. split; [constructor; [exists [-1; 1]; exact p1_edge_refids | constructor]|].
  intros E. inversion E. lra.
Qed.

(* ------------------------------------------------------------------ certified Lebesgue sums of the 1-D shape tables *)
Theorem lebesgue1_ok_sound_b2 qrecs ln ld : (0 < ld)%Z -> lebesgue1_ok 2 qrecs ln ld = true ->
  forall s N dN, In (s, (N, dN)) qrecs -> rsum (map Rabs (map (s2r 2) N)) <= IZR ln / IZR ld.
Proof.
  intros Hld H s N dN Hin. unfold lebesgue1_ok in H. rewrite forallb_forall in H. specialize (H _ Hin). cbn [fst snd] in H.
  apply (s_leb_sound 2 two_le_2) in H. rewrite s2r_scale, (s2r_sum 2 two_le_2), s2r_Z, map_map in H.
  rewrite map_map. rewrite (map_ext (fun x => s2r 2 (s_abs x)) (fun x => Rabs (s2r 2 x))) in H by (intros; apply (s2r_abs 2 two_le_2)).
  assert (0 < IZR ld) by (apply IZR_lt; lia).
  apply Rmult_le_reg_l with (IZR ld); [assumption|]. field_simplify; [|lra]. lra.
Qed.

(* ------------------------------------------------------------------ impl_edge_flux is the R-instance of the executed model *)
Lemma edge_pt_R N Xn : @edge_pt R NumR N Xn = interp_pt N Xn.
Proof. unfold edge_pt, interp_pt. rewrite !ndot_R. reflexivity. Qed.
Theorem edge_flux_sum_R F1 F2 A B Xn Ns ws :
  @edge_flux_sum R NumR F1 F2 A B Xn Ns ws = impl_edge_flux F1 F2 A B Xn Ns ws.
Proof.
  unfold edge_flux_sum, impl_edge_flux. cbv zeta. rewrite ndot_R, map_map. f_equal; try (apply map_ext; intros N; rewrite edge_pt_R; reflexivity).
Qed.
Lemma npow_R x n : @npow R NumR x n = x ^ n.
Proof.
  induction n as [|n IH]; [cbn; unfold_num; q2r; reflexivity|].
  destruct n as [|n]; [cbn; ring|]. change (@npow R NumR x (S (S n))) with (x * @npow R NumR x (S n)). rewrite IH. cbn [pow]. ring.
Qed.
Lemma mono_fn_R a c X : @mono_fn R NumR a c X = rmon X (a, c).
Proof. unfold mono_fn, rmon; cbn [fst snd]. unfold_num. rewrite !npow_R. reflexivity. Qed.

(* ------------------------------------------------------------------ the nodal field interpolated on an edge *)
(* FunctionSpace.interpolate_nodal_field_on_edge for a polynomial nodal field u of degree <= p sampled at the exact edge nodes:
   u_q = sum_a N_a(s_q) u(A + sigma_a t) reproduces u(A + s_q t) up to C * eps *)
Theorem edge_interp_exact k u ux uy A B p : PolyG k u ux uy -> (k <= p)%nat ->
  exists C, 0 <= C /\ forall eps nodes s N dN, RefIds1 p eps nodes s N dN ->
    Rabs (rdot N (map (fun sg => u (seg A B sg)) nodes) - u (seg A B s)) <= C * eps.
Proof.
  intros HP Hk.
  pose proof (PolyG_affine k u ux uy (fst A) (fst B - fst A) 0 (snd A) (snd B - snd A) 0 HP) as HA. cbv zeta in HA.
  apply PolyG_normal_form in HA. destruct HA as [P [DP EP]].
  assert (E : forall s, u (seg A B s) = peval P (s, 0)).
  { intros s. destruct (EP (s, 0)) as [E0 _]. rewrite <- E0. f_equal. unfold affmap, seg; cbn [fst snd]. f_equal; ring. }
  exists (pnorm1 P). split; [apply pnorm1_nonneg|]. intros eps nodes s N dN [_ [_ HR]].
  rewrite E.
  replace (map (fun sg => u (seg A B sg)) nodes) with (map (peval P) (map (fun sg => (sg, 0)) nodes)) by (rewrite map_map; apply map_ext; intros; symmetry; apply E).
  rewrite rdot_peval, (Rmult_comm (pnorm1 P)). unfold peval.
  apply plin_diff_bound with (k := p); [eapply pdeg_mono; eassumption|].
  intros [i j] Hm; cbn [fst snd] in *.
  rewrite map_map.
  rewrite (rdot_map_ext N (fun sg => rmon (sg, 0) (i, j)) (fun sg => 0 ^ j * sg ^ i)) by (intros; unfold rmon; cbn [fst snd]; ring).
  rewrite rdot_map_scal. unfold rmon; cbn [fst snd].
  replace (0 ^ j * rdot N (map (fun sg => sg ^ i) nodes) - s ^ i * 0 ^ j) with (0 ^ j * (rdot N (map (fun sg => sg ^ i) nodes) - s ^ i)) by ring.
  rewrite Rabs_mult. assert (Hi : (i <= p)%nat) by lia. destruct (HR i Hi) as [H0 _].
  assert (Rabs (0 ^ j) <= 1) by (destruct j; [simpl; rewrite Rabs_R1; lra | rewrite pow_i by lia; rewrite Rabs_R0; lra]).
  pose proof (Rabs_pos (0 ^ j)). pose proof (Rabs_pos (rdot N (map (fun sg => sg ^ i) nodes) - s ^ i)). nra.
Qed.
