(* C13 -- the structured generator produces a valid mesh *)
From Coq Require Import List Arith Lia Reals Lra.
From OV.base Require Import Num.
From OV.model Require Import M_C13_Struct.
Import ListNotations.

Lemma flat_map_length_const {A B} (f : A -> list B) k l :
  (forall x, In x l -> length (f x) = k) -> length (flat_map f l) = length l * k.
Proof.
  induction l as [| x l IH]; intros H; [reflexivity |]. cbn [flat_map length]. rewrite app_length, H by (now left).
  rewrite IH by (intros; apply H; now right). lia.
Qed.

Lemma struct_count Nx Ny : length (struct_conns Nx Ny) = 2 * (Nx - 1) * (Ny - 1).
Proof.
  unfold struct_conns. rewrite (flat_map_length_const _ (2 * (Ny - 1))).
  - rewrite seq_length. lia.
  - intros ex _. rewrite (flat_map_length_const _ 2); [rewrite seq_length; lia | reflexivity].
Qed.

Lemma in_struct_conns Nx Ny t : In t (struct_conns Nx Ny) <->
  exists ex ey, ex < Nx - 1 /\ ey < Ny - 1 /\ In t (tri_pair Nx ex ey).
Proof.
  unfold struct_conns. rewrite in_flat_map. split.
  - intros [ex [Hex H]]. apply in_flat_map in H. destruct H as [ey [Hey H]]. apply in_seq in Hex, Hey.
    exists ex, ey. repeat split; try lia. exact H.
  - intros [ex [ey (Hex & Hey & H)]]. exists ex. split; [apply in_seq; lia |]. apply in_flat_map.
    exists ey. split; [apply in_seq; lia | exact H].
Qed.

Lemma struct_three Nx Ny t : In t (struct_conns Nx Ny) -> length t = 3.
Proof. intros H. apply in_struct_conns in H. destruct H as [ex [ey (_ & _ & [<- | [<- | []]])]]; reflexivity. Qed.

Lemma struct_in_range Nx Ny t i : In t (struct_conns Nx Ny) -> In i t -> i < Nx * Ny.
Proof.
  intros H Hi. apply in_struct_conns in H. destruct H as [ex [ey (Hex & Hey & H)]].
  destruct H as [<- | [<- | []]]; cbn [In] in Hi; repeat (destruct Hi as [<- | Hi]; [nia |]); destruct Hi.
Qed.

Lemma struct_every_node_used Nx Ny n : 2 <= Nx -> 2 <= Ny -> n < Nx * Ny ->
  exists t, In t (struct_conns Nx Ny) /\ In n t.
Proof.
  intros HNx HNy Hn.
  assert (Hx : n mod Nx < Nx) by (apply Nat.mod_upper_bound; lia).
  assert (Hy : n / Nx < Ny) by (apply Nat.div_lt_upper_bound; lia).
  pose proof (Nat.div_mod n Nx ltac:(lia)) as Hdm.
  set (nx := n mod Nx) in *. set (ny := n / Nx) in *.
  destruct (Nat.lt_ge_cases nx (Nx - 1)) as [Hxl | Hxr]; destruct (Nat.lt_ge_cases ny (Ny - 1)) as [Hyl | Hyr].
  - exists [nx + Nx * ny; nx + 1 + Nx * ny; nx + 1 + Nx * (ny + 1)]. split.
    + apply in_struct_conns. exists nx, ny. repeat split; try lia. now left.
    + left. lia.
  - exists [nx + Nx * (ny - 1); nx + 1 + Nx * (ny - 1 + 1); nx + Nx * (ny - 1 + 1)]. split.
    + apply in_struct_conns. exists nx, (ny - 1). repeat split; try lia. right. now left.
    + right. right. left. replace (ny - 1 + 1) with ny by lia. lia.
  - exists [nx - 1 + Nx * ny; nx - 1 + 1 + Nx * ny; nx - 1 + 1 + Nx * (ny + 1)]. split.
    + apply in_struct_conns. exists (nx - 1), ny. repeat split; try lia. now left.
    + right. left. replace (nx - 1 + 1) with nx by lia. lia.
  - exists [nx - 1 + Nx * (ny - 1); nx - 1 + 1 + Nx * (ny - 1); nx - 1 + 1 + Nx * (ny - 1 + 1)]. split.
    + apply in_struct_conns. exists (nx - 1), (ny - 1). repeat split; try lia. now left.
    + right. right. left. replace (nx - 1 + 1) with nx by lia. replace (ny - 1 + 1) with ny by lia. lia.
Qed.

Lemma struct_block0_ok Nx Ny : struct_block0 Nx Ny = seq 0 (2 * (Nx - 1) * (Ny - 1)).
Proof. unfold struct_block0. now rewrite struct_count. Qed.

(* coordinates of node nx + Nx*ny *)
Lemma nth_error_flat_map_const {B} (f : nat -> list B) k : forall n s i j,
  (forall x, length (f x) = k) -> i < k -> j < n ->
  nth_error (flat_map f (seq s n)) (i + k * j) = nth_error (f (s + j)) i.
Proof.
  induction n as [| n IH]; intros s i j Hk Hi Hj; [lia |]. cbn [seq flat_map].
  destruct j as [| j].
  - rewrite Nat.mul_0_r, !Nat.add_0_r. apply nth_error_app1. now rewrite Hk.
  - rewrite nth_error_app2 by (rewrite Hk; nia). rewrite Hk.
    replace (i + k * S j - k) with (i + k * j) by nia. rewrite IH by (auto; lia). f_equal. f_equal. lia.
Qed.

Lemma struct_coords_nth {A} Nx Ny (xs ys : nat -> A) nx ny : nx < Nx -> ny < Ny ->
  nth_error (struct_coords Nx Ny xs ys) (nx + Nx * ny) = Some (xs nx, ys ny).
Proof.
  intros Hx Hy. unfold struct_coords.
  rewrite (nth_error_flat_map_const _ Nx) by (auto; intros; now rewrite map_length, seq_length).
  cbn [Nat.add]. rewrite nth_error_map, nth_error_nth' with (d := 0) by (now rewrite seq_length).
  rewrite seq_nth by exact Hx. reflexivity.
Qed.

Lemma struct_coords_length {A} Nx Ny (xs ys : nat -> A) : length (struct_coords Nx Ny xs ys) = Ny * Nx.
Proof.
  unfold struct_coords. rewrite (flat_map_length_const _ Nx); [now rewrite seq_length |].
  intros. now rewrite map_length, seq_length.
Qed.

Local Open Scope R_scope.
(* every element is counter-clockwise with twice-area (xs[ex+1]-xs[ex]) (ys[ey+1]-ys[ey]) > 0 *)
Lemma struct_ccw Nx Ny (xs ys : nat -> R) t :
  (forall i, (S i < Nx)%nat -> xs i < xs (S i)) -> (forall j, (S j < Ny)%nat -> ys j < ys (S j)) ->
  In t (struct_conns Nx Ny) ->
  exists ex ey, (ex < Nx - 1)%nat /\ (ey < Ny - 1)%nat /\
    @tri_area2 R NumR (struct_coords Nx Ny xs ys) t = Some ((xs (S ex) - xs ex) * (ys (S ey) - ys ey))
    /\ 0 < (xs (S ex) - xs ex) * (ys (S ey) - ys ey).
Proof.
  intros Hxs Hys H. apply in_struct_conns in H. destruct H as [ex [ey (Hex & Hey & H)]].
  exists ex, ey. split; [exact Hex |]. split; [exact Hey |].
  specialize (Hxs ex ltac:(lia)). specialize (Hys ey ltac:(lia)).
  split; [| apply Rmult_lt_0_compat; lra].
  destruct H as [<- | [<- | []]]; unfold tri_area2;
    rewrite !struct_coords_nth by lia; unfold area2; unfold_num; cbn [fst snd];
    replace (ex + 1)%nat with (S ex) by lia; replace (ey + 1)%nat with (S ey) by lia; f_equal; ring.
Qed.
