(* C13 -> C03: for a consistently oriented manifold triangulation (no directed vertex pair twice, no degenerate side) the
   directed element sides are exactly the boundary rows of Mesh.create_edges (those with no right element) plus the
   interior rows once in each direction.  This discharges the premise of C03_divergence_mesh from C13's theorems about
   the create_edges model, so that the boundary flux over the edges create_edges reports as boundary equals the sum of
   the element integrals of the divergence. *)
From Coq Require Import List Arith Bool Lia Permutation Reals.
From OV.model Require Import M_C13_Edges.
From OV.proofs Require Import L_C13_Edges L_C03sn L_C03cert L_C03lift L_C03int L_C03div.
Import ListNotations.

Definition is_boundary (r : edge_row) : bool := match e_right r with None => true | Some _ => false end.
Definition row_face (r : edge_row) : face := (e_a r, e_b r).
(* edgeConns rows whose edges row has rightT = -1, resp. >= 0 *)
Definition boundary_faces (conns : list (list nat)) : list face := map row_face (filter is_boundary (create_edges conns)).
Definition interior_faces (conns : list (list nat)) : list face := map row_face (filter (fun r => negb (is_boundary r)) (create_edges conns)).
Definition both_dirs (f : face) : list face := [f; flip f].
Definition nondegenerate (conns : list (list nat)) : Prop := forall f, In f (all_faces conns) -> fst f <> snd f.

Lemma in_faces_holds conns f : In f (all_faces conns) <-> exists t p, holds conns t p f.
Proof.
  split.
  - intros H. apply In_nth_error in H. destruct H as [i Hi]. eexists; eexists. apply (all_faces_at conns i f Hi).
  - intros [t [p H]]. apply holds_in_faces in H. eapply nth_error_In, H.
Qed.
Lemma key_eq_cases f g : key f = key g -> f = g \/ f = flip g.
Proof.
  destruct f as [a b], g as [c d]. unfold key, flip; cbn [fst snd]. intros H. inversion H.
  destruct (Nat.min_spec a b) as [[? E1]|[? E1]], (Nat.max_spec a b) as [[? E2]|[? E2]],
           (Nat.min_spec c d) as [[? E3]|[? E3]], (Nat.max_spec c d) as [[? E4]|[? E4]];
    rewrite E1, E3 in H1; rewrite E2, E4 in H2; subst; try (left; f_equal; lia); try (right; f_equal; lia).
Qed.
Lemma key_flip f : key (flip f) = key f.
Proof. destruct f as [a b]. unfold key, flip; cbn [fst snd]. rewrite Nat.min_comm, Nat.max_comm. reflexivity. Qed.

(* what one row contributes: its directed pair, and the reversed pair iff a right element exists *)
Definition row_dirs (r : edge_row) : list face := if is_boundary r then [row_face r] else both_dirs (row_face r).


Lemma NoDup_app_intro {A} (l l' : list A) : NoDup l -> NoDup l' -> (forall x, In x l -> In x l' -> False) -> NoDup (l ++ l').
Proof.
  induction l as [|a l IH]; intros H1 H2 H3; cbn [app]; [exact H2|].
  inversion H1; subst. constructor.
  - intros Hin. apply in_app_or in Hin. destruct Hin as [Hin|Hin]; [contradiction | apply (H3 a); [left; reflexivity | exact Hin]].
  - apply IH; try assumption. intros x Hx Hx'. apply (H3 x); [right; exact Hx | exact Hx'].
Qed.
Lemma NoDup_flat_map_keys {A} (K : A -> face) (g : A -> list face) rows :
  NoDup (map K rows) -> (forall r, In r rows -> NoDup (g r)) -> (forall r f, In r rows -> In f (g r) -> key f = K r) ->
  NoDup (flat_map g rows).
Proof.
  induction rows as [|r rows IH]; intros HK Hg Hk; cbn [flat_map map] in *; [constructor|].
  inversion HK as [|? ? Hnin HK']; subst.
  apply NoDup_app_intro.
  - apply Hg. left; reflexivity.
  - apply IH; [exact HK' | intros; apply Hg; right; assumption | intros; eapply Hk; [right|]; eassumption].
  - intros f Hf Hf'. apply in_flat_map in Hf'. destruct Hf' as [r' [Hr' Hf']].
    apply Hnin. rewrite <- (Hk r f (or_introl eq_refl) Hf), (Hk r' f (or_intror Hr') Hf'). apply in_map, Hr'.
Qed.

Section Compose.
  Variable conns : list (list nat).
  Hypothesis Hnd : NoDup (all_faces conns).          (* no directed pair twice: manifold and consistently oriented *)
  Hypothesis Hdeg : nondegenerate conns.             (* the two end points of every element side differ *)
  Let rows := create_edges conns.

  Lemma row_in_faces r : In r rows -> In (row_face r) (all_faces conns).
  Proof. intros H. destruct (edges_once conns) as [_ [_ H3]]. apply (H3 r H). Qed.
  Lemma row_flip_in_faces r : In r rows -> (In (flip (row_face r)) (all_faces conns) <-> is_boundary r = false).
  Proof.
    intros H. pose proof (edges_adjacency conns r H) as [_ HR]. unfold is_boundary. unfold flip, row_face; cbn [fst snd].
    destruct (e_right r) as [[t p]|].
    - split; [reflexivity|]. intros _. apply in_faces_holds. exists t, p. exact HR.
    - split; [|discriminate]. intros Hin. apply in_faces_holds in Hin. destruct Hin as [t [p Hh]]. exfalso. apply (HR t p Hh).
  Qed.

  Lemma faces_same_members f : In f (all_faces conns) <-> In f (flat_map row_dirs rows).
  Proof.
    rewrite in_flat_map. split.
    - intros Hf. destruct (edges_once conns) as [_ [H2 _]]. specialize (H2 f Hf).
      apply in_map_iff in H2. destruct H2 as [r [Hk Hr]]. exists r. split; [exact Hr|].
      unfold edge_key in Hk. fold (row_face r) in Hk. symmetry in Hk. apply key_eq_cases in Hk. unfold row_dirs.
      destruct Hk as [-> | ->].
      + destruct (is_boundary r); cbn; auto.
      + assert (Hb : is_boundary r = false) by (apply (row_flip_in_faces r Hr); exact Hf). rewrite Hb. cbn. auto.
    - intros [r [Hr Hf]]. unfold row_dirs in Hf. destruct (is_boundary r) eqn:Eb.
      + destruct Hf as [<-|[]]. apply row_in_faces, Hr.
      + destruct Hf as [<-|[<-|[]]]; [apply row_in_faces, Hr | apply (row_flip_in_faces r Hr), Eb].
  Qed.

  Lemma row_dirs_nodup : NoDup (flat_map row_dirs rows).
  Proof.
    apply (NoDup_flat_map_keys edge_key).
    - destruct (edges_once conns) as [H1 _]. exact H1.
    - intros r Hr. unfold row_dirs. destruct (is_boundary r); [repeat constructor; intros []|].
      constructor; [|repeat constructor; intros []]. intros [E|[]].
      pose proof (Hdeg _ (row_in_faces r Hr)) as Hne. unfold flip, row_face in *; cbn [fst snd] in *. inversion E. congruence.
    - intros r f Hr Hf. unfold row_dirs in Hf. unfold edge_key. fold (row_face r).
      destruct (is_boundary r); [destruct Hf as [<-|[]]; reflexivity|].
      destruct Hf as [<-|[<-|[]]]; [reflexivity | apply key_flip].
  Qed.

  Lemma row_dirs_split l :
    Permutation (flat_map row_dirs l)
                (map row_face (filter is_boundary l) ++ flat_map both_dirs (map row_face (filter (fun r => negb (is_boundary r)) l))).
  Proof.
    induction l as [|r l IH]; [constructor|]. cbn [flat_map filter]. unfold row_dirs at 1. destruct (is_boundary r); cbn [negb map flat_map app].
    - constructor. exact IH.
    - eapply Permutation_trans; [apply Permutation_app_head, IH|].
      rewrite app_assoc. rewrite (app_assoc (map row_face (filter is_boundary l))).
      apply Permutation_app_tail. apply Permutation_app_comm.
  Qed.

  (* the directed sides of all elements = boundary edges + interior edges once in each direction *)
  Theorem faces_boundary_interior :
    Permutation (all_faces conns) (boundary_faces conns ++ flat_map both_dirs (interior_faces conns)).
  Proof.
    eapply Permutation_trans; [|apply row_dirs_split].
    apply NoDup_Permutation; [exact Hnd | apply row_dirs_nodup | apply faces_same_members].
  Qed.
End Compose.

(* ------------------------------------------------------------------ with coordinates: the premise of divergence_mesh *)
Section Coordinates.
  Variable X : nat -> R * R.                 (* node coordinates *)
  Definition xface (f : face) : dedge := (X (fst f), X (snd f)).
  Definition xtri (c : list nat) : tri := (X (nth 0 c 0), X (nth 1 c 0), X (nth 2 c 0)).
  Definition mesh_of (conns : list (list nat)) : list tri := map xtri conns.

  Lemma tri_edges_sides c : tri_edges (xtri c) = [xface (side c 0); xface (side c 1); xface (side c 2)].
  Proof. reflexivity. Qed.
  Lemma stacked_perm {A B} (f0 f1 f2 : A -> B) l :
    Permutation (flat_map (fun c => [f0 c; f1 c; f2 c]) l) (map f0 l ++ map f1 l ++ map f2 l).
  Proof.
    induction l as [|c l IH]; [constructor|]. cbn [flat_map map app].
    constructor. eapply Permutation_trans; [apply perm_skip, perm_skip, IH|].
    eapply Permutation_trans; [apply perm_skip; apply (Permutation_middle (map f0 l) (map f1 l ++ map f2 l) (f2 c))|]. 
    eapply Permutation_trans; [apply (Permutation_middle (map f0 l) (f2 c :: map f1 l ++ map f2 l) (f1 c))|].
    apply Permutation_app_head. constructor. 
    change (f2 c :: map f1 l ++ map f2 l) with ((f2 c :: map f1 l) ++ map f2 l).
    eapply Permutation_trans; [apply Permutation_app_tail; apply (Permutation_cons_append (map f1 l) (f2 c))|].
    rewrite <- app_assoc. apply Permutation_app_head. cbn. apply Permutation_refl.
  Qed.
  Lemma mesh_edges_faces conns : Permutation (flat_map tri_edges (mesh_of conns)) (map xface (all_faces conns)).
  Proof.
    unfold mesh_of, all_faces. rewrite flat_map_concat_map, map_map, <- flat_map_concat_map.
    rewrite !map_app, !map_map.
    eapply Permutation_trans; [|apply (stacked_perm (fun c => xface (side c 0)) (fun c => xface (side c 1)) (fun c => xface (side c 2)))].
    apply Permutation_refl.
  Qed.
  Lemma xface_both f : map xface (both_dirs f) = both_ways (xface f).
  Proof. reflexivity. Qed.
  Lemma map_flat_both l : map xface (flat_map both_dirs l) = flat_map both_ways (map xface l).
  Proof. induction l as [|f l IH]; [reflexivity|]. cbn [flat_map map]. rewrite map_app, IH. reflexivity. Qed.

  (* divergence theorem on the mesh, with the boundary taken from create_edges *)
  Theorem divergence_mesh_create_edges k F1 f1x f1y l F2 f2x f2y conns :
    NoDup (all_faces conns) -> nondegenerate conns ->
    PolyG k F1 f1x f1y -> PolyG l F2 f2x f2y ->
    rsum (map (eflux F1 F2) (map xface (boundary_faces conns)))
    = rsum (map (int_tri' (fun x => (f1x x + f2y x)%R)) (mesh_of conns)).
  Proof.
    intros Hnd Hdeg H1 H2.
    apply (divergence_mesh k F1 f1x f1y l F2 f2x f2y (mesh_of conns) (map xface (boundary_faces conns)) (map xface (interior_faces conns)) H1 H2).
    eapply Permutation_trans; [apply mesh_edges_faces|].
    rewrite <- map_flat_both, <- map_app. apply Permutation_map. apply faces_boundary_interior; assumption.
  Qed.
End Coordinates.


(* non-vacuity: two counter-clockwise triangles sharing the edge 0-2; create_edges reports four boundary edges and one
   interior edge *)
Definition ex_two_tris : list (list nat) := [[0; 1; 2]; [0; 2; 3]].
Lemma ex_two_tris_ok :
  NoDup (all_faces ex_two_tris) /\ nondegenerate ex_two_tris
  /\ boundary_faces ex_two_tris = [(0, 1); (3, 0); (1, 2); (2, 3)] /\ interior_faces ex_two_tris = [(0, 2)].
Proof.
  split; [|split; [|split; reflexivity]].
  - cbv [ex_two_tris all_faces side map app nth Nat.modulo Nat.divmod Nat.add fst snd].
    repeat (constructor; [cbn [In]; intros H; repeat (destruct H as [H|H]; [discriminate H|]); exact H|]). constructor.
  - intros f H. cbv [ex_two_tris all_faces side map app nth Nat.modulo Nat.divmod Nat.add fst snd] in H.
    cbn [In] in H. repeat (destruct H as [<-|H]; [cbn; discriminate|]). destruct H.
Qed.
