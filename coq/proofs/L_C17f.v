(* C17, binary64: what the PrimFloat instance of the root-finder model (model/M_C17.v at T := float, NumF -- the instance that is
   executed bit-for-bit against rtsafe_ run op by op) keeps, and what it does not keep.
   KEPT, for arbitrary oracles f, f' : float -> float (f' may return anything, NaN included), by the IEEE comparison laws of
   FloatAxioms alone (no rounding analysis): with a sign change detected by the code's sign test, every iterate keeps
   (f xl < 0) = true and (f xh < 0) = false (so 0 <= f xh whenever f xh is not NaN), F = f root, and after the first iteration
   the iterate IS one of the two bracket ends; the returned value is therefore an end of a pair of evaluated points with a sign
   change of f (or the untouched start value), and the reported residual is f at the returned value.
   NOT KEPT (refuted by executed witnesses below): "every iterate / the result lies in [min b0 b1, max b0 b1]".  Over R the Newton
   range test ((root-xh) DF - F)((root-xl) DF - F) <= 0 says exactly that the Newton iterate is in the bracket (C17_newton_in_range_test);
   in binary64 the products are rounded: with xl = 0 and F = fl(root*DF) the second factor is computed as 0, the step is accepted,
   and root + fl(-F/DF) = -ulp(root)/2 < 0 = xl. *)
From Coq Require Import ZArith QArith List Bool Floats.
From OV.base Require Import Num.
From OV.gen Require Import Gen_ScalarRootFind.
From OV.model Require Import M_C17.
Import ListNotations.
Local Open Scope float_scope.

Notation fz := (@nzero float NumF).

Lemma fz_SF : Prim2SF fz = S754_zero false.
Proof. vm_compute. reflexivity. Qed.

(* ---------- IEEE comparison laws against the literal zero (FloatAxioms specification) ---------- *)
Lemma F_pos_not_neg x : (fz <? x) = true -> (x <? fz) = false.
Proof.
  rewrite !ltb_spec, fz_SF. unfold SFltb, SFcompare.
  destruct (Prim2SF x) as [s|s| |s m e]; try destruct s; intros H; try reflexivity; try discriminate.
Qed.
Lemma F_neg_not_pos x : (x <? fz) = true -> (fz <? x) = false.
Proof.
  rewrite !ltb_spec, fz_SF. unfold SFltb, SFcompare.
  destruct (Prim2SF x) as [s|s| |s m e]; try destruct s; intros H; try reflexivity; try discriminate.
Qed.
Lemma F_is_nan_SF x : PrimFloat.is_nan x = false -> Prim2SF x <> S754_nan.
Proof.
  unfold PrimFloat.is_nan. rewrite eqb_spec. intros H E. rewrite E in H. discriminate.
Qed.
Lemma F_not_neg_nonneg x : PrimFloat.is_nan x = false -> (x <? fz) = false -> (fz <=? x) = true.
Proof.
  intros Hn. apply F_is_nan_SF in Hn. revert Hn. rewrite ltb_spec, leb_spec, fz_SF. unfold SFltb, SFleb, SFcompare.
  destruct (Prim2SF x) as [s|s| |s m e]; try destruct s; intros Hn H; try reflexivity; try discriminate; congruence.
Qed.

(* the code's bracketing test sign(fl)*sign(fh) < 0 means: exactly one of fl, fh is < 0 and the other is > 0 *)
Lemma sign_test_binary64 (fl fh : float) :
  @nltb float NumF (nmul (nsign fl) (nsign fh)) fz = true ->
  ((fl <? fz) = true /\ (fh <? fz) = false /\ (fz <? fh) = true) \/ ((fl <? fz) = false /\ (fz <? fl) = true /\ (fh <? fz) = true).
Proof.
  unfold nsign. cbn [nltb nmul nopp NumF].
  pose proof (F_pos_not_neg fl) as A1. pose proof (F_pos_not_neg fh) as A2.
  change (@nltb float NumF) with PrimFloat.ltb in *.
  destruct (fz <? fl) eqn:E1; destruct (fl <? fz) eqn:E2; destruct (fz <? fh) eqn:E3; destruct (fh <? fz) eqn:E4;
    intros H; try (specialize (A1 eq_refl)); try (specialize (A2 eq_refl)); try discriminate;
    vm_compute in H; try discriminate; auto.
Qed.

(* ---------- the invariant that survives rounding ---------- *)
Definition Inv64 (f : float -> float) (c : @carry float) : Prop :=
  (f (c_xl c) <? fz) = true /\ (f (c_xh c) <? fz) = false /\ c_F c = f (c_root c).

Ltac unfold_carry64 := unfold c_root, c_dx, c_dxOld, c_F, c_DF, c_xl, c_xh, c_conv, c_i in *.

Lemma body64_inv (f df : float -> float) (xt rt : float) (c : @carry float) : Inv64 f c ->
  let c' := body (fun x => (f x, df x)) xt rt c in
  Inv64 f c' /\ (c_root c' = c_xl c' \/ c_root c' = c_xh c').
Proof.
  destruct c as [[[[[[[[root dx] dxOld] F] DF] xl] xh] cv] i]. unfold Inv64. unfold_carry64. intros (Hl & Hh & _).
  cbv zeta. unfold body, loop_body, bisection_step, newton_step. cbv beta iota zeta.
  match goal with |- context [f (if orb ?a ?b then ?u else ?v)] => set (r' := if orb a b then u else v) end.
  change (@nltb float NumF) with PrimFloat.ltb.
  change (@nconst float NumF (Qmake 0 1) (0%Z, 0%Z)) with fz.
  destruct (f r' <? fz) eqn:E.
  - split; [split; [exact E|split; [exact Hh|reflexivity]]|left; reflexivity].
  - split; [split; [exact Hl|split; [exact E|reflexivity]]|right; reflexivity].
Qed.

Lemma wloop64_inv (f df : float -> float) (xt rt mi : float) (fuel : nat) : forall c, Inv64 f c ->
  match wloop (fun x => (f x, df x)) xt rt mi fuel c with
  | LDone c' | LNaN c' | LFuel c' => Inv64 f c' /\ (c' = c \/ c_root c' = c_xl c' \/ c_root c' = c_xh c')
  end.
Proof.
  induction fuel as [|k IH]; intros c Hc; cbn [wloop].
  - destruct (cond mi c); auto.
  - destruct (cond mi c); [|auto]. destruct (zero_over_zero c); [auto|].
    destruct (body64_inv f df xt rt c Hc) as (Hb & He).
    specialize (IH _ Hb).
    destruct (wloop (fun x => (f x, df x)) xt rt mi k (body (fun x => (f x, df x)) xt rt c)) as [c'|c'|c'];
      destruct IH as (A & [B|B]); (split; [exact A|]); right; try exact B; rewrite B; exact He.
Qed.

Lemma init64_inv (f df : float -> float) (x0 b0 b1 rt : float) c0 :
  @nltb float NumF (nmul (nsign (f b0)) (nsign (f b1))) fz = true ->
  init f df x0 b0 b1 rt = Some c0 ->
  Inv64 f c0 /\ (c_root c0 = b0 \/ c_root c0 = b1 \/ c_root c0 = clip x0 b0 b1) /\
  ((c_xl c0 = b0 /\ c_xh c0 = b1) \/ (c_xl c0 = b1 /\ c_xh c0 = b0)).
Proof.
  intros Hs. unfold init. rewrite Hs. cbn [negb andb].
  intros H. injection H as <-. unfold Inv64. unfold_carry64. cbv beta iota zeta.
  change (@nltb float NumF) with PrimFloat.ltb in *.
  change (float_of_me (0%Z, 0%Z)) with fz.
  destruct (sign_test_binary64 _ _ Hs) as [(A & B & _)|(A & _ & B)]; rewrite A.
  - split; [repeat split; assumption|]. split; [|left; auto].
    destruct (abs (f b1) <=? rt); [auto|]. destruct (abs (f b0) <=? rt); auto.
  - split; [repeat split; assumption|]. split; [|right; auto].
    destruct (abs (f b1) <=? rt); [auto|]. destruct (abs (f b0) <=? rt); auto.
Qed.

(* ---------- binary64 theorem: arbitrary float oracles, any settings ---------- *)
Theorem binary64_sign_invariant (f df : float -> float) (x0 b0 b1 : float) (n : nat) (xt rt : float) v cv it Fv dxv w :
  @nltb float NumF (nmul (nsign (f b0)) (nsign (f b1))) fz = true ->
  @rtsafe float NumF f df x0 b0 b1 n xt rt = Res (Some v) cv it Fv dxv w ->
  Fv = f v /\ cv = true /\ w = Converged /\
  exists xl xh, (f xl <? fz) = true /\ (f xh <? fz) = false /\
                (PrimFloat.is_nan (f xh) = false -> (fz <=? f xh) = true) /\
                (v = xl \/ v = xh \/ v = b0 \/ v = b1 \/ v = clip x0 b0 b1).
Proof.
  intros Hs. unfold rtsafe. destruct (init f df x0 b0 b1 rt) as [c0|] eqn:Ei; [|discriminate].
  destruct (init64_inv f df x0 b0 b1 rt c0 Hs Ei) as (H0 & Hr0 & _).
  pose proof (wloop64_inv f df xt rt (nZ (Z.of_nat n)) n c0 H0) as Hw.
  destruct (wloop (fun x => (f x, df x)) xt rt (nZ (Z.of_nat n)) n c0) as [c|c|c]; try discriminate.
  destruct (c_conv c) eqn:Ec; [|discriminate].
  intros H. injection H as <- <- <- <- <- <-.
  destruct Hw as ((Hl & Hh & HF) & Hv).
  split; [exact HF|]. split; [reflexivity|]. split; [reflexivity|].
  exists (c_xl c), (c_xh c). split; [exact Hl|]. split; [exact Hh|]. split.
  - intros Hn. apply F_not_neg_nonneg; assumption.
  - destruct Hv as [->|[E|E]]; [|left; exact E|right; left; exact E].
    destruct Hr0 as [E|[E|E]]; rewrite E; auto.
Qed.

(* non-NaN result <-> converged, whatever the oracles (structure of the epilogue) *)
Theorem binary64_nan_iff_not_converged (f df : float -> float) (x0 b0 b1 : float) (n : nat) (xt rt : float) x cv it Fv dxv w :
  @rtsafe float NumF f df x0 b0 b1 n xt rt = Res x cv it Fv dxv w -> (x <> None <-> cv = true) /\ (cv = true <-> w = Converged).
Proof.
  unfold rtsafe. destruct (init f df x0 b0 b1 rt) as [c0|].
  - destruct (wloop _ _ _ _ _ _) as [c|c|c]; try discriminate; [destruct (c_conv c)|]; intros H; injection H as <- <- <- <- <- <-;
      split; split; intros; try congruence; try discriminate.
  - intros H; injection H as <- <- <- <- <- <-. split; split; intros; try congruence; try discriminate.
Qed.

(* ---------- refutation of the location clause in binary64 (executed witnesses) ----------
   f(x) = s x + q with q = -1e-30: f(0) < 0 < f(1), the root 6e-31 lies in [0,1]; guess x0 with fl(fl(s x0)/s) = x0 + ulp(x0)/2. *)
Definition ovs_s : float := 0x1.a6256e8c2df76p+0.      (* 1.649008664344334 *)
Definition ovs_q : float := (-0x1.4484bfeebc2a0p-100). (* -1e-30 *)
Definition ovs_x0 : float := 0x1.e00ff2721b480p-4.     (* 0.11720270829546742 *)
Definition ovs_f : @fam float := FPoly [ovs_s; ovs_q] [ovs_s].
Definition f_one : float := 1.
Definition x_tol_quarter : float := 0x1p-2.
Definition x_tol_default : float := 0x1.c25c268497682p-44.   (* 1e-13 *)

(* (a) requested tolerance x_tol = 0.25, r_tol = 0: the run converges after one accepted Newton step on a NEGATIVE number *)
Lemma binary64_result_outside_bracket_witness :
  (feval ovs_f fz <? fz) = true /\ (fz <? feval ovs_f f_one) = true /\
  @nltb float NumF (nmul (nsign (feval ovs_f fz)) (nsign (feval ovs_f f_one))) fz = true /\
  match @rtsafe float NumF (feval ovs_f) (fdiff ovs_f) ovs_x0 fz f_one 50 x_tol_quarter fz with
  | Res (Some v) true _ _ _ Converged => (v <? fz)
  | _ => false
  end = true.
Proof. vm_compute. repeat split; reflexivity. Qed.

(* (b) default settings (50, 1e-13, 0): the first iterate already leaves the bracket: the bracket end xl becomes negative *)
Lemma binary64_iterate_outside_bracket_witness :
  match init (feval ovs_f) (fdiff ovs_f) ovs_x0 fz f_one fz with
  | Some c0 => let c1 := body (fun x => (feval ovs_f x, fdiff ovs_f x)) x_tol_default fz c0 in
               andb (andb (c_xl c0 =? fz) (c_xh c0 =? f_one)) (andb (c_root c1 <? fz) (c_xl c1 <? fz))
  | None => false
  end = true.
Proof. vm_compute. reflexivity. Qed.
