(* C20 -- number formatting: round trip of the integer tokens, the word lexer on the writer's words, text-level round trip *)
From Coq Require Import ZArith List Bool String Ascii DecimalString DecimalZ DecimalPos Decimal PeanoNat Lia.
From OV.model Require Import M_C20.
From OV.model Require Import M_C20_Num.
From OV.proofs Require Import L_C20 L_C20w.
Import ListNotations.
Open Scope string_scope.

Lemma to_int_not_nil z : Z.to_int z <> Pos Nil /\ Z.to_int z <> Neg Nil.
Proof.
  destruct z; cbn; split; try discriminate; intro H; injection H; apply Unsigned.to_uint_nonnil.
Qed.
Lemma read_int_fmt_int z : read_int (fmt_int z) = Some z.
Proof.
  unfold read_int, fmt_int. destruct (to_int_not_nil z) as [H1 H2].
  rewrite (NilZero.isi _ H1 H2). cbn. now rewrite DecimalZ.of_to.
Qed.
Lemma read_num_fmt_int z : read_num (fmt_int z) = Some (z, 1%positive).
Proof. unfold read_num. now rewrite read_int_fmt_int. Qed.
(* the reader of counts on the text of a count *)
Lemma count_roundtrip n : option_map (fun v => as_nat (TNum v)) (read_num (fmt_int (Z.of_nat n))) = Some (Some n).
Proof. rewrite read_num_fmt_int. cbn [option_map]. f_equal. apply (as_nat_tnat n). Qed.
(* fmt_int is injective: different integers are never written as the same word *)
Lemma fmt_int_inj a b : fmt_int a = fmt_int b -> a = b.
Proof. intro H. pose proof (read_int_fmt_int a) as Ha. rewrite H, read_int_fmt_int in Ha. now injection Ha. Qed.

(* an integer within the range of the declared integer data type, written by fmt_int, is read back exactly at that type;
   a word with a '.' or an exponent is NOT a word of an integer type *)
Lemma read_at_fmt_int d lo hi z : int_range d = Some (lo, hi) -> (lo <= z <= hi)%Z -> read_at d (fmt_int z) = Some (z, 1%positive).
Proof.
  intros H [H1 H2]. unfold read_at. rewrite H, read_int_fmt_int.
  apply Z.leb_le in H1. apply Z.leb_le in H2. now rewrite H1, H2.
Qed.
Lemma read_at_int_only d r s v : int_range d = Some r -> read_at d s = Some v -> exists z, read_int s = Some z /\ v = (z, 1%positive).
Proof.
  intros H. unfold read_at. rewrite H. destruct r as [lo hi]. destruct (read_int s) as [z |]; [| discriminate].
  destruct ((lo <=? z)%Z && (z <=? hi)%Z); [| discriminate]. intro E. injection E as <-. now exists z.
Qed.
Lemma float_literal_not_integer_word : read_at ULONG "9007199254740992.0" = None /\ read_at ULONG "3.0" = None /\ read_at INT "1e+16" = None
  /\ read_at ULONG "9007199254740993" = Some (9007199254740993%Z, 1%positive) /\ read_at UINT "-1" = None.
Proof. repeat split; vm_compute; reflexivity. Qed.

Lemma word_table_lex names s t : In (s, t) word_table -> lex_word names s = t.
Proof.
  intro H. cbn in H.
  repeat (destruct H as [H | H]; [injection H as <- <-; vm_compute; reflexivity |]). destruct H.
Qed.
Lemma lex_word_renders names t s : renders names t s -> lex_word names s = t.
Proof.
  intros [s' t' H | z | x s' me H1 H2 H3 | i s' H1 H2 H3 H4].
  - now apply word_table_lex.
  - unfold lex_word. now rewrite read_num_fmt_int.
  - unfold lex_word, read_num. now rewrite H1, H2, H3.
  - unfold lex_word. now rewrite H3, H4, H2.
Qed.
Lemma lex_words_renders names ts ws : Forall2 (renders names) ts ws -> map (lex_word names) ws = ts.
Proof. induction 1; cbn; [reflexivity |]. f_equal; [now apply lex_word_renders | assumption]. Qed.

Definition body (w : writer) : list tok := tl (tl (fst (write w))).
Lemma write_body w : fst (write w) = TK KMagic :: TK KTitle :: body w.
Proof. reflexivity. Qed.
Lemma header_lines : lex_line0 magic_line = TK KMagic /\ lex_line1 title_line = TK KTitle.
Proof. split; vm_compute; reflexivity. Qed.

(* text-level round trip: ANY file whose first two lines are the writer's and whose words are renderings of the model's tokens
   in the implementation's number formats parses, with the Coq lexer + reader, to exactly the supplied dataset *)
Lemma text_roundtrip names w ws : wf_writer w -> Forall2 (renders names) (body w) ws ->
  parse_words names (magic_line :: title_line :: ws) = Some (abstract w).
Proof.
  intros Hw Hr. unfold parse_words, lex_file. destruct header_lines as [-> ->].
  rewrite (lex_words_renders _ _ _ Hr), <- write_body. now apply parse_write.
Qed.

(* the bridge from the named hypothesis about CPython's repr to [renders] *)
Lemma contract_renders repr64 names x : float_repr_contract repr64 -> is_b64 x -> renders names (TNum x) (repr64 x).
Proof. intros H Hx. destruct (H x Hx) as [H1 [me [H2 H3]]]. now apply (R_float names x _ me). Qed.

(* ---- boolean version of [renders] (used for the concrete non-vacuity example and by the harness) *)
Lemma list_Z_eqb_eq (a b : list Z) : forallb2_eq a b = true -> a = b.
Proof.
  revert b. induction a as [| x a IH]; destruct b as [| y b]; cbn; try discriminate; [reflexivity |].
  rewrite andb_true_iff, Z.eqb_eq. intros [-> H]. f_equal. now apply IH.
Qed.
Lemma enc_tok_inj a b : enc_tok a = enc_tok b -> a = b.
Proof.
  destruct a as [k | f | d | n | [x p]], b as [k' | f' | d' | n' | [x' p']]; cbn; try discriminate.
  - destruct k, k'; cbn; try discriminate; reflexivity.
  - destruct f, f'; cbn; try discriminate; reflexivity.
  - destruct d, d'; cbn; try discriminate; reflexivity.
  - intro H. now injection H as ->.
  - intro H. now injection H as -> ->.
Qed.
Lemma index_of_nth s l : forall k i, index_of s l k = Some i -> k <= i /\ nth_error l (i - k) = Some s.
Proof.
  induction l as [| a l IH]; cbn; intros k i H; [discriminate |].
  destruct (String.eqb s a) eqn:E.
  - injection H as <-. apply String.eqb_eq in E. subst. rewrite Nat.sub_diag. split; [lia | reflexivity].
  - destruct (IH _ _ H) as [H1 H2]. split; [lia |]. replace (i - k) with (S (i - S k)) by lia. exact H2.
Qed.
Lemma renders_b_sound names t s : renders_b names t s = true -> renders names t s.
Proof.
  unfold renders_b. destruct t as [k | f | d | n | v].
  1-3: (destruct (assoc s word_table) as [t' |] eqn:E; [| discriminate]; intro H; apply list_Z_eqb_eq, enc_tok_inj in H; subst t';
        apply R_word; revert E; cbn;
        repeat (match goal with |- context [String.eqb ?a ?k] => destruct (String.eqb_spec a k) as [-> | _] end;
                [intro H; injection H as <-; cbn; tauto |]); discriminate).
  - destruct (read_num s) eqn:E1; [discriminate |]. destruct (assoc s word_table) eqn:E2; [discriminate |].
    destruct (index_of s names 0) as [i |] eqn:E3; [| discriminate]. rewrite Z.eqb_eq. intros <-.
    apply R_name; try assumption. destruct (index_of_nth _ _ _ _ E3) as [_ H]. now rewrite Nat.sub_0_r in H.
  - destruct (read_int s) as [z |] eqn:E1.
    + rewrite andb_true_iff. intros [H1 H2]. apply list_Z_eqb_eq in H1. apply String.eqb_eq in H2. subst s.
      destruct v as [a p]. cbn in H1. injection H1 as -> ->. apply R_int.
    + destruct (read_dec s) as [me |] eqn:E2; [| discriminate]. destruct (round_b64 (dec_val me)) as [x |] eqn:E3; [| discriminate].
      intro H. apply list_Z_eqb_eq in H. destruct v as [a p], x as [a' p']. cbn in H. injection H as -> ->.
      now apply (R_float names _ _ me).
Qed.
Lemma renders_all_sound names ts ws : renders_all names ts ws = true -> Forall2 (renders names) ts ws.
Proof.
  revert ws. induction ts as [| t ts IH]; destruct ws as [| s ws]; cbn; try discriminate; [constructor |].
  rewrite andb_true_iff. intros [H1 H2]. constructor; [now apply renders_b_sound | now apply IH].
Qed.

(* ---- non-vacuity: the words of the file the implementation writes for a linear triangle with a double nodal field
   (0.1, 1e-05, -2.5), an int cell field, a marker sphere at (0.5, 0.25) of radius 0.125 and one contact edge *)
Definition ex_names : list string := ["sphere_radius"; "u"; "f1"].
Definition ex_words : list string :=
  ["ASCII"; "DATASET"; "UNSTRUCTURED_GRID"; "POINTS"; "4"; "double"; "0.0"; "0.0"; "0.0"; "1.0"; "0.0"; "0.0"; "0.0"; "1.0"; "0.0";
   "0.5"; "0.25"; "0.0"; "CELLS"; "2"; "7"; "3"; "0"; "1"; "2"; "2"; "0"; "1"; "CELL_TYPES"; "2"; "5"; "3"; "POINT_DATA"; "4";
   "SCALARS"; "u"; "double"; "LOOKUP_TABLE"; "default"; "0.1"; "1e-05"; "-2.5"; "0.0"; "SCALARS"; "sphere_radius"; "double";
   "LOOKUP_TABLE"; "default"; "0.0"; "0.0"; "0.0"; "0.125"; "CELL_DATA"; "2"; "SCALARS"; "f1"; "int"; "LOOKUP_TABLE"; "default";
   "7"; "0"].
Definition ex_u : list (list val) :=
  [[(3602879701896397, 36028797018963968%positive)]; [(5902958103587057, 590295810358705651712%positive)]; [((-5), 2%positive)]]%Z.
Lemma text_nonvacuous : exists w0 w1 w2, init m1 = Some w0
  /\ add_nodal_field w0 1 ex_u SCALARS DOUBLE = Some w1 /\ add_cell_field w1 2 [[q 7]] SCALARS INT = Some w2
  /\ let w := add_contact_edges (add_sphere w2 (1, 2%positive)%Z (1, 4%positive)%Z (1, 8%positive)%Z) [(0, 1)] in
     wf_writer w /\ Forall2 (renders ex_names) (body w) ex_words
     /\ parse_words ex_names (magic_line :: title_line :: ex_words) = Some (abstract w)
     /\ (exists x s, In (TNum x) (body w) /\ In s ex_words /\ read_int s = None /\ renders ex_names (TNum x) s /\ snd x <> 1%positive).
Proof.
  do 3 eexists. do 3 (split; [vm_compute; reflexivity |]). cbv zeta.
  split; [conds |]. split; [apply renders_all_sound; vm_compute; reflexivity |]. split; [vm_compute; reflexivity |].
  exists (3602879701896397, 36028797018963968%positive)%Z, "0.1".
  split; [vm_compute; tauto |]. split; [vm_compute; tauto |]. split; [vm_compute; reflexivity |].
  split; [apply renders_b_sound; vm_compute; reflexivity | discriminate].
Qed.
