(* C03 layer 1 -- the tabulated triangle rules as they stand in optimism/QuadratureRule.py (gen/Tab_TriQuad.v,
   regenerated from the source text on every run): for every degree d = 1..10 the if/elif chain selects a rule that
   integrates every monomial x^a y^b, a + b <= d, over the reference triangle to a! b!/(a+b+2)! within 2e-15, has
   strictly positive weights and points inside the closed reference triangle. *)
From Coq Require Import ZArith QArith List Bool Lia Reals Lra.
From OV.model Require Import M_C03.
From OV.proofs Require Import L_C03sn L_C03cert.
From OV.gen Require Import Tab_TriQuad.
Import ListNotations.

Definition tri_tol_num : Z := 2.
Definition tri_tol_den : Z := 1000000000000000.

Lemma tri_tables_check : tri_tables_ok tri_scale tri_branches tri_tol_num tri_tol_den 10 = true.
Proof. vm_cast_no_check (@eq_refl bool true). Qed.

Local Open Scope R_scope.
Theorem tri_tables_exact : forall d, (1 <= d <= 10)%nat ->
  exists pts ws, select_branch tri_branches (Z.of_nat d) = Some (pts, ws) /\
    TriQuadExact d (2 / 1000000000000000) (map Q2R2 pts) (map Q2R ws).
Proof.
  intros d Hd. apply (tri_tables_ok_sound tri_scale tri_branches tri_tol_num tri_tol_den 10); [vm_compute; discriminate | reflexivity | exact tri_tables_check | exact Hd].
Qed.

(* degrees above the last branch are refused, degrees below 1 get the one-point rule *)
Lemma tri_select_refuses_11 : select_branch tri_branches 11 = None.
Proof. vm_compute. reflexivity. Qed.

(* the rules are not exact one degree higher than advertised for d = 1, 2, 4, 5, 6 (so the check is sharp) *)
Lemma tri_tables_sharp :
  map (fun d => match select_branch tri_branches (Z.of_nat d) with
                | Some (pts, ws) => match omap (q2dec2 tri_scale) pts, omap (q2dec tri_scale) ws with
                                    | Some dp, Some dw => tri_rule_ok 10 (S d) dp dw 1 1000000
                                    | _, _ => true end
                | None => true end) [1; 2; 4; 5; 6]%nat = [false; false; false; false; false].
Proof. vm_compute. reflexivity. Qed.
