(* C16 part 3: the MESH-LEVEL level-set / penalty functions (model/M_C16_Mesh.v):
   - shape and entries of compute_levelset_constraints / compute_contact_point_coordinates: entry (i, q) is the obstacle
     function at the point  (x0 + u0) + ((x1 + u1) - (x0 + u0)) * xi_q  of edge i, x0/x1 (u0/u1) the reference positions
     (displacements) of the edge's two nodes conns[el][s], conns[el][(s+1) mod 3]  -- for EVERY numeric type (so also binary64),
     every mesh, every field, every rule, every edge list, stated with partial lookups (no defaults);
   - over R: the same point is lerp xi_q (x0+u0) (x1+u1);
   - the mesh-level penalty energy is the sample-level penalty_total of the already proved clause, hence >= 0 and = 0 exactly
     when no entry of the constraint array is negative; for plane / corner / circle obstacles: exactly when no deformed
     sample point lies strictly inside the obstacle. *)
From Coq Require Import Reals Lra Lia ZArith QArith List Bool.
From OV.base Require Import Num.
From OV.gen Require Import Gen_Levelset.
From OV.model Require Import M_C16_Mortar M_C16_Mesh.
From OV.proofs Require Import L_C16 L_C16m.
Import ListNotations.

(* partial lookup with a Z index: None outside [0, length) *)
Definition lookupZ {A} (l : list A) (z : Z) : option A := if (z <? 0)%Z then None else nth_error l (Z.to_nat z).

Lemma lookupZ_nthZ {A} (d : A) l z x : lookupZ l z = Some x -> nthZ16 d l z = x.
Proof. unfold lookupZ, nthZ16. destruct (z <? 0)%Z; [discriminate|]. intros H. apply nth_error_nth. exact H. Qed.
Lemma lookupZ_range {A} (l : list A) z x : lookupZ l z = Some x -> (0 <= z < Z.of_nat (length l))%Z.
Proof.
  unfold lookupZ. destruct (Z.ltb_spec z 0); [discriminate|]. intros E.
  assert (Z.to_nat z < length l)%nat by (apply nth_error_Some; rewrite E; discriminate). lia.
Qed.
Lemma pick3_map {A B} (f : A -> B) a b c k : pick3 (f a, f b, f c) k = f (pick3 (a, b, c) k).
Proof. unfold pick3. destruct (k =? 0)%Z; [reflexivity|]. destruct (k =? 1)%Z; reflexivity. Qed.

(* the two-level gather of Surface.eval_field is the lookup at the edge's two global node numbers *)
Lemma eval_field_nodes {A} (d : A) field conns edge :
  eval_field d field (get_field_index conns edge)
  = (nthZ16 d field (fst (edge_nodes conns edge)), nthZ16 d field (snd (edge_nodes conns edge))).
Proof.
  unfold eval_field, get_field_index, edge_nodes. cbv zeta.
  destruct (nthZ16 (0, 0, 0)%Z conns (fst edge)) as [[c0 c1] c2]. cbn [fst snd].
  rewrite !(pick3_map (nthZ16 d field)). reflexivity.
Qed.

Section Generic.
  Context {T : Type} {NT : Num T}.
  Notation ptT := (T * T)%type.

  Theorem mesh_constraints_shape (phi : T -> T -> T) coords disp conns xig edges :
    length (levelset_constraints phi coords disp conns xig edges) = length edges /\
    (forall row, In row (levelset_constraints phi coords disp conns xig edges) -> length row = length xig) /\
    length (contact_point_coordinates coords disp conns xig edges) = length edges /\
    (forall row, In row (contact_point_coordinates coords disp conns xig edges) -> length row = length xig).
  Proof.
    unfold levelset_constraints, contact_point_coordinates. rewrite !map_length. repeat split.
    - intros row H. apply in_map_iff in H. destruct H as (e & <- & _).
      unfold edge_levelset_constraints, eval_at_iso_points. rewrite !map_length. reflexivity.
    - intros row H. apply in_map_iff in H. destruct H as (e & <- & _).
      unfold contact_point_coords_on_edge, eval_at_iso_points. rewrite !map_length. reflexivity.
  Qed.

  (* constraint values = the obstacle function at the contact point coordinates, entry by entry *)
  Theorem mesh_constraints_are_phi_at_contact_points (phi : T -> T -> T) coords disp conns xig edges :
    levelset_constraints phi coords disp conns xig edges
    = map (map (fun p : ptT => phi (fst p) (snd p))) (contact_point_coordinates coords disp conns xig edges).
  Proof. unfold levelset_constraints, contact_point_coordinates. rewrite map_map. reflexivity. Qed.

  Definition sample_point (X0 U0 X1 U1 : ptT) (xi : T) : ptT :=
    (nadd (nadd (fst X0) (fst U0)) (nmul (nsub (nadd (fst X1) (fst U1)) (nadd (fst X0) (fst U0))) xi),
     nadd (nadd (snd X0) (snd U0)) (nmul (nsub (nadd (snd X1) (snd U1)) (nadd (snd X0) (snd U0))) xi)).

  Lemma edge_current_lookup coords disp conns el s c (X0 U0 X1 U1 : ptT) :
    lookupZ conns el = Some c ->
    lookupZ coords (pick3 c s) = Some X0 -> lookupZ disp (pick3 c s) = Some U0 ->
    lookupZ coords (pick3 c ((s + 1) mod 3)%Z) = Some X1 -> lookupZ disp (pick3 c ((s + 1) mod 3)%Z) = Some U1 ->
    edge_current coords disp conns (el, s) = (padd X0 U0, padd X1 U1).
  Proof.
    intros Hc HX0 HU0 HX1 HU1. unfold edge_current. cbv zeta. rewrite !eval_field_nodes.
    unfold edge_nodes. cbn [fst snd]. rewrite (lookupZ_nthZ _ _ _ _ Hc).
    rewrite (lookupZ_nthZ _ _ _ _ HX0), (lookupZ_nthZ _ _ _ _ HU0), (lookupZ_nthZ _ _ _ _ HX1), (lookupZ_nthZ _ _ _ _ HU1).
    reflexivity.
  Qed.

  Theorem mesh_contact_point_entry coords disp conns xig edges i q el s c (X0 U0 X1 U1 : ptT) xi :
    nth_error edges i = Some (el, s) -> lookupZ conns el = Some c -> (0 <= s <= 2)%Z ->
    lookupZ coords (pick3 c s) = Some X0 -> lookupZ disp (pick3 c s) = Some U0 ->
    lookupZ coords (pick3 c ((s + 1) mod 3)%Z) = Some X1 -> lookupZ disp (pick3 c ((s + 1) mod 3)%Z) = Some U1 ->
    nth_error xig q = Some xi ->
    exists row, nth_error (contact_point_coordinates coords disp conns xig edges) i = Some row /\
                nth_error row q = Some (sample_point X0 U0 X1 U1 xi).
  Proof.
    intros He Hc _ HX0 HU0 HX1 HU1 Hq.
    exists (contact_point_coords_on_edge coords disp conns xig (el, s)). split.
    - unfold contact_point_coordinates. apply map_nth_error. exact He.
    - unfold contact_point_coords_on_edge. rewrite (edge_current_lookup _ _ _ _ _ _ _ _ _ _ Hc HX0 HU0 HX1 HU1).
      unfold eval_at_iso_points. rewrite (map_nth_error _ _ _ Hq). reflexivity.
  Qed.

  Theorem mesh_constraint_entry (phi : T -> T -> T) coords disp conns xig edges i q el s c (X0 U0 X1 U1 : ptT) xi :
    nth_error edges i = Some (el, s) -> lookupZ conns el = Some c -> (0 <= s <= 2)%Z ->
    lookupZ coords (pick3 c s) = Some X0 -> lookupZ disp (pick3 c s) = Some U0 ->
    lookupZ coords (pick3 c ((s + 1) mod 3)%Z) = Some X1 -> lookupZ disp (pick3 c ((s + 1) mod 3)%Z) = Some U1 ->
    nth_error xig q = Some xi ->
    exists row, nth_error (levelset_constraints phi coords disp conns xig edges) i = Some row /\
                nth_error row q = Some (phi (fst (sample_point X0 U0 X1 U1 xi)) (snd (sample_point X0 U0 X1 U1 xi))).
  Proof.
    intros He Hc Hs HX0 HU0 HX1 HU1 Hq.
    destruct (mesh_contact_point_entry coords disp conns xig edges i q el s c X0 U0 X1 U1 xi He Hc Hs HX0 HU0 HX1 HU1 Hq) as (row & Hr & Hp).
    rewrite mesh_constraints_are_phi_at_contact_points.
    exists (map (fun p : ptT => phi (fst p) (snd p)) row). split.
    - apply map_nth_error. exact Hr.
    - rewrite (map_nth_error _ _ _ Hp). reflexivity.
  Qed.

  (* the edge energy written sample by sample: (jac * w_q) * min(0, phi_q)^2 summed in the order of the rule *)
  Lemma ndot_map_combine (jac : T) (f : T -> T) wg row :
    ndot (map (nmul jac) wg) (map f row) = nsum (map (fun q : T * T => nmul (nmul jac (fst q)) (f (snd q))) (combine wg row)).
  Proof.
    revert row. induction wg as [|w wg IH]; intros [|v row]; cbn [map ndot combine nsum fst snd]; try reflexivity.
    rewrite IH. reflexivity.
  Qed.

  Theorem mesh_edge_energy_is_penalty_edge (phi : T -> T -> T) coords disp conns xig wg k edge :
    edge_penalty_contact_energy phi coords disp conns xig wg k edge
    = penalty_edge k (edge_jac (eval_field pzero coords (get_field_index conns edge)))
                   (combine wg (edge_levelset_constraints phi coords disp conns xig edge)).
  Proof.
    unfold edge_penalty_contact_energy, integrate_values, penalty_edge. cbv zeta.
    rewrite map_map. rewrite ndot_map_combine. f_equal. f_equal. apply map_ext. intros [w v]. reflexivity.
  Qed.

  Theorem mesh_total_energy_is_penalty_total (phi : T -> T -> T) coords disp conns xig wg edges k :
    total_penalty_contact_energy phi coords disp conns xig wg edges k
    = penalty_total (map (fun edge => (k, edge_jac (eval_field pzero coords (get_field_index conns edge)),
                                       combine wg (edge_levelset_constraints phi coords disp conns xig edge))) edges).
  Proof.
    unfold total_penalty_contact_energy, penalty_total. rewrite map_map. f_equal. apply map_ext. intros e.
    apply mesh_edge_energy_is_penalty_edge.
  Qed.
End Generic.

Local Open Scope R_scope.

(* over R the sample point is the convex combination of the two deformed end nodes *)
Theorem sample_point_lerp (X0 U0 X1 U1 : R * R) xi :
  @sample_point R NumR X0 U0 X1 U1 xi
  = (lerp xi (fst X0 + fst U0) (fst X1 + fst U1), lerp xi (snd X0 + snd U0) (snd X1 + snd U1)).
Proof. unfold sample_point, lerp. unfold_num. f_equal; ring. Qed.

Theorem mesh_constraint_entry_R (phi : R -> R -> R) coords disp conns xig edges i q el s c (X0 U0 X1 U1 : R * R) xi :
  nth_error edges i = Some (el, s) -> lookupZ conns el = Some c -> (0 <= s <= 2)%Z ->
  lookupZ coords (pick3 c s) = Some X0 -> lookupZ disp (pick3 c s) = Some U0 ->
  lookupZ coords (pick3 c ((s + 1) mod 3)%Z) = Some X1 -> lookupZ disp (pick3 c ((s + 1) mod 3)%Z) = Some U1 ->
  nth_error xig q = Some xi ->
  exists row, nth_error (@levelset_constraints R NumR phi coords disp conns xig edges) i = Some row /\
              nth_error row q = Some (phi (lerp xi (fst X0 + fst U0) (fst X1 + fst U1)) (lerp xi (snd X0 + snd U0) (snd X1 + snd U1))).
Proof.
  intros He Hc Hs HX0 HU0 HX1 HU1 Hq.
  destruct (mesh_constraint_entry phi coords disp conns xig edges i q el s c X0 U0 X1 U1 xi He Hc Hs HX0 HU0 HX1 HU1 Hq) as (row & Hr & Hv).
  exists row. split; [exact Hr|]. rewrite Hv. rewrite sample_point_lerp. reflexivity.
Qed.

(* an edge whose element, side and nodes are in range and whose REFERENCE end points are distinct (jac > 0) *)
Definition edge_ok (coords disp : list (R * R)) (conns : list tri) (edge : Z * Z) : Prop :=
  exists c X0 U0 X1 U1,
    lookupZ conns (fst edge) = Some c /\ (0 <= snd edge <= 2)%Z /\
    lookupZ coords (pick3 c (snd edge)) = Some X0 /\ lookupZ disp (pick3 c (snd edge)) = Some U0 /\
    lookupZ coords (pick3 c ((snd edge + 1) mod 3)%Z) = Some X1 /\ lookupZ disp (pick3 c ((snd edge + 1) mod 3)%Z) = Some U1 /\
    X0 <> X1.

Lemma edge_ok_jac_pos coords disp conns edge : edge_ok coords disp conns edge ->
  0 < @edge_jac R NumR (eval_field pzero coords (get_field_index conns edge)).
Proof.
  intros (c & X0 & U0 & X1 & U1 & Hc & _ & HX0 & _ & HX1 & _ & Hne).
  rewrite eval_field_nodes. unfold edge_nodes. rewrite (lookupZ_nthZ _ _ _ _ Hc).
  cbn [fst snd]. rewrite (lookupZ_nthZ _ _ _ _ HX0), (lookupZ_nthZ _ _ _ _ HX1).
  unfold edge_jac. cbv zeta. cbn [fst snd]. unfold_num. apply sqrt_lt_R0.
  destruct X0 as [a0 a1], X1 as [b0 b1]. cbn [fst snd].
  pose proof (d2_pos b0 b1 a0 a1) as H. unfold d2 in H. apply H. intros E. apply Hne. inversion E. reflexivity.
Qed.

Lemma in_combine_snd {A B} (l : list A) (l' : list B) v : length l = length l' -> In v l' -> exists w, In (w, v) (combine l l').
Proof.
  revert l'. induction l as [|a l IH]; intros [|b l'] Hlen Hin; cbn in *; try discriminate; try contradiction.
  destruct Hin as [->|Hin].
  - exists a. left. reflexivity.
  - destruct (IH l' (eq_add_S _ _ Hlen) Hin) as (w & Hw). exists w. right. exact Hw.
Qed.

Theorem mesh_penalty_sign (phi : R -> R -> R) coords disp conns xig wg edges k :
  0 < k -> (forall w, In w wg -> 0 < w) -> length wg = length xig ->
  (forall e, In e edges -> edge_ok coords disp conns e) ->
  0 <= @total_penalty_contact_energy R NumR phi coords disp conns xig wg edges k /\
  (@total_penalty_contact_energy R NumR phi coords disp conns xig wg edges k = 0 <->
   forall row v, In row (@levelset_constraints R NumR phi coords disp conns xig edges) -> In v row -> 0 <= v).
Proof.
  intros Hk Hw Hlen Hok. rewrite mesh_total_energy_is_penalty_total.
  set (pe := map _ edges).
  assert (Hpe : forall e, In e pe -> 0 < fst (fst e) /\ 0 < snd (fst e) /\ forall q, In q (snd e) -> 0 < fst q).
  { intros e He. apply in_map_iff in He. destruct He as (edge & <- & Hin). cbn [fst snd]. split; [exact Hk|]. split.
    - apply (edge_ok_jac_pos coords disp). apply Hok. exact Hin.
    - intros [w v] Hq. cbn [fst]. apply Hw. apply in_combine_l in Hq. exact Hq. }
  destruct (penalty_total_sign pe Hpe) as [P Z]. split; [exact P|]. rewrite Z. split.
  - intros H row v Hrow Hv. unfold levelset_constraints in Hrow. apply in_map_iff in Hrow. destruct Hrow as (edge & <- & Hin).
    assert (Hl : length wg = length (@edge_levelset_constraints R NumR phi coords disp conns xig edge)).
    { unfold edge_levelset_constraints, eval_at_iso_points. rewrite !map_length. exact Hlen. }
    destruct (in_combine_snd wg _ v Hl Hv) as (w & Hwv).
    apply (H (k, edge_jac (eval_field pzero coords (get_field_index conns edge)),
              combine wg (@edge_levelset_constraints R NumR phi coords disp conns xig edge)) (w, v)); [|exact Hwv].
    unfold pe. apply in_map_iff. exists edge. split; [reflexivity|exact Hin].
  - intros H e [w v] He Hq. cbn [snd]. unfold pe in He. apply in_map_iff in He. destruct He as (edge & <- & Hin). cbn [snd] in Hq.
    apply (H (@edge_levelset_constraints R NumR phi coords disp conns xig edge)).
    + unfold levelset_constraints. apply in_map. exact Hin.
    + apply in_combine_r in Hq. exact Hq.
Qed.

(* zero energy <=> no deformed sample point is strictly inside the obstacle, for any obstacle whose admissible region is P *)
Theorem mesh_penalty_zero_iff_admissible (phi : R -> R -> R) (P : R -> R -> Prop) coords disp conns xig wg edges k :
  (forall x y, 0 <= phi x y <-> P x y) ->
  0 < k -> (forall w, In w wg -> 0 < w) -> length wg = length xig ->
  (forall e, In e edges -> edge_ok coords disp conns e) ->
  (@total_penalty_contact_energy R NumR phi coords disp conns xig wg edges k = 0 <->
   forall row p, In row (@contact_point_coordinates R NumR coords disp conns xig edges) -> In p row -> P (fst p) (snd p)).
Proof.
  intros HP Hk Hw Hlen Hok. rewrite (proj2 (mesh_penalty_sign phi coords disp conns xig wg edges k Hk Hw Hlen Hok)).
  rewrite mesh_constraints_are_phi_at_contact_points. split.
  - intros H row p Hrow Hp. apply HP. apply (H (map (fun p : R * R => phi (fst p) (snd p)) row)).
    + apply in_map. exact Hrow.
    + apply (in_map (fun p : R * R => phi (fst p) (snd p))). exact Hp.
  - intros H row v Hrow Hv. apply in_map_iff in Hrow. destruct Hrow as (prow & <- & Hprow).
    apply in_map_iff in Hv. destruct Hv as (p & <- & Hp). apply HP. apply (H prow p Hprow Hp).
Qed.

Theorem mesh_penalty_zero_plane yLoc coords disp conns xig wg edges k :
  0 < k -> (forall w, In w wg -> 0 < w) -> length wg = length xig -> (forall e, In e edges -> edge_ok coords disp conns e) ->
  (@total_penalty_contact_energy R NumR (fun x y => @plane R NumR x y yLoc) coords disp conns xig wg edges k = 0 <->
   forall row p, In row (@contact_point_coordinates R NumR coords disp conns xig edges) -> In p row -> snd p <= yLoc).
Proof.
  apply (mesh_penalty_zero_iff_admissible (fun x y => @plane R NumR x y yLoc) (fun _ y => y <= yLoc)).
  intros x y. rewrite plane_value. lra.
Qed.
Theorem mesh_penalty_zero_corner xLoc yLoc coords disp conns xig wg edges k :
  0 < k -> (forall w, In w wg -> 0 < w) -> length wg = length xig -> (forall e, In e edges -> edge_ok coords disp conns e) ->
  (@total_penalty_contact_energy R NumR (fun x y => @corner R NumR x y xLoc yLoc) coords disp conns xig wg edges k = 0 <->
   forall row p, In row (@contact_point_coordinates R NumR coords disp conns xig edges) -> In p row -> xLoc <= fst p /\ yLoc <= snd p).
Proof.
  apply (mesh_penalty_zero_iff_admissible (fun x y => @corner R NumR x y xLoc yLoc) (fun x y => xLoc <= x /\ yLoc <= y)).
  intros x y. apply corner_sign.
Qed.
Theorem mesh_penalty_zero_sphere xLoc yLoc Rad coords disp conns xig wg edges k : 0 <= Rad ->
  0 < k -> (forall w, In w wg -> 0 < w) -> length wg = length xig -> (forall e, In e edges -> edge_ok coords disp conns e) ->
  (@total_penalty_contact_energy R NumR (fun x y => @sphere R NumR x y xLoc yLoc Rad) coords disp conns xig wg edges k = 0 <->
   forall row p, In row (@contact_point_coordinates R NumR coords disp conns xig edges) -> In p row ->
                 Rad * Rad <= d2 (fst p) (snd p) xLoc yLoc).
Proof.
  intros HR. apply (mesh_penalty_zero_iff_admissible (fun x y => @sphere R NumR x y xLoc yLoc Rad) (fun x y => Rad * Rad <= d2 x y xLoc yLoc)).
  intros x y. apply sphere_sign. exact HR.
Qed.

(* non-vacuity: one triangle, its side 2 (nodes 2 -> 0), a displacement, the 2-point rule weights; the edge is ok and the
   theorems' lookups succeed *)
Definition ex_coords : list (R * R) := [(0, 0); (1, 0); (0, 1)].
Definition ex_disp : list (R * R) := [(0, 1 / 4); (0, 0); (1 / 4, 0)].
Definition ex_conns : list tri := [(0, 1, 2)%Z].
Lemma ex_edge_ok : forall e, In e [(0, 2)%Z] -> edge_ok ex_coords ex_disp ex_conns e.
Proof.
  intros e [<-|[]]. exists (0, 1, 2)%Z, (0, 1), (1 / 4, 0), (0, 0), (0, 1 / 4).
  cbn [fst snd]. repeat split; try reflexivity; try lia. intros E. inversion E. lra.
Qed.
Lemma ex_w_pos : forall w, In w [1 / 2; 1 / 2] -> 0 < w.
Proof. intros w [<-|[<-|[]]]; lra. Qed.
Lemma ex_points : @contact_point_coordinates R NumR ex_coords ex_disp ex_conns [1 / 4; 3 / 4] [(0, 2)%Z]
                  = [[(1 / 4 - 1 / 16, 13 / 16); (1 / 4 - 3 / 16, 7 / 16)]].
Proof.
  unfold contact_point_coordinates, contact_point_coords_on_edge. cbn [map].
  rewrite (edge_current_lookup ex_coords ex_disp ex_conns 0%Z 2%Z (0, 1, 2)%Z (0, 1) (1 / 4, 0) (0, 0) (0, 1 / 4)); try reflexivity.
  unfold eval_at_iso_points, iso_point, padd. cbn [map fst snd]. unfold_num.
  apply f_equal2; [|reflexivity]. apply f_equal2; [|apply f_equal2; [|reflexivity]]; apply f_equal2; lra.
Qed.
Example C16_mesh_nonvacuous :
  (forall e, In e [(0, 2)%Z] -> edge_ok ex_coords ex_disp ex_conns e) /\ (forall w, In w [1 / 2; 1 / 2] -> 0 < w) /\
  @levelset_constraints R NumR (fun x y => @plane R NumR x y 2) ex_coords ex_disp ex_conns [1 / 4; 3 / 4] [(0, 2)%Z] = [[19 / 16; 25 / 16]] /\
  @total_penalty_contact_energy R NumR (fun x y => @plane R NumR x y 2) ex_coords ex_disp ex_conns [1 / 4; 3 / 4] [1 / 2; 1 / 2] [(0, 2)%Z] 10 = 0 /\
  0 < @total_penalty_contact_energy R NumR (fun x y => @plane R NumR x y (1 / 2)) ex_coords ex_disp ex_conns [1 / 4; 3 / 4] [1 / 2; 1 / 2] [(0, 2)%Z] 10.
Proof.
  assert (Hk : 0 < 10) by lra.
  split; [exact ex_edge_ok|]. split; [exact ex_w_pos|]. split; [|split].
  - rewrite mesh_constraints_are_phi_at_contact_points, ex_points. cbn [map fst snd]. rewrite !plane_value.
    apply f_equal2; [|reflexivity]. apply f_equal2; [|apply f_equal2; [|reflexivity]]; lra.
  - apply (proj2 (mesh_penalty_zero_plane 2 ex_coords ex_disp ex_conns [1 / 4; 3 / 4] [1 / 2; 1 / 2] [(0, 2)%Z] 10 Hk ex_w_pos eq_refl ex_edge_ok)).
    rewrite ex_points. intros row p [<-|[]] [<-|[<-|[]]]; cbn [snd]; lra.
  - destruct (mesh_penalty_sign (fun x y => @plane R NumR x y (1 / 2)) ex_coords ex_disp ex_conns [1 / 4; 3 / 4] [1 / 2; 1 / 2] [(0, 2)%Z] 10 Hk
                ex_w_pos eq_refl ex_edge_ok) as [[P|P] Z]; [exact P|]. exfalso. symmetry in P. rewrite Z in P.
    rewrite mesh_constraints_are_phi_at_contact_points, ex_points in P. cbn [map fst snd] in P. rewrite !plane_value in P.
    specialize (P _ (1 / 2 - 13 / 16) (or_introl eq_refl) (or_introl eq_refl)). lra.
Qed.
