(* C13 -- reader index arithmetic *)
From Coq Require Import List Arith Lia.
From OV.model Require Import M_C13_Read.
Import ListNotations.

Lemma to0_in_range n l : Forall (fun i => 1 <= i <= n) l -> Forall (fun i => i < n) (to0 l).
Proof. intros H. unfold to0. apply Forall_forall. intros x Hx. apply in_map_iff in Hx. destruct Hx as [y [<- Hy]].
  rewrite Forall_forall in H. specialize (H _ Hy). lia. Qed.

Lemma to0_length l : length (to0 l) = length l.
Proof. apply map_length. Qed.

(* members are preserved one-to-one *)
Lemma to0_nodup l : Forall (fun i => 1 <= i) l -> NoDup l -> NoDup (to0 l).
Proof.
  intros Hp Hn. induction Hn as [| x l Hx Hn IH]; [constructor |]. inversion Hp as [| ? ? Hx1 Hp']; subst.
  cbn [to0 map]. constructor; [| now apply IH]. intros Hin. apply in_map_iff in Hin. destruct Hin as [y [E Hy]].
  rewrite Forall_forall in Hp'. specialize (Hp' _ Hy). assert (y = x) by lia. now subst.
Qed.
Lemma to0_back l x : Forall (fun i => 1 <= i) l -> In x (to0 l) <-> In (S x) l.
Proof.
  intros Hp. unfold to0. rewrite in_map_iff. split.
  - intros [y [<- Hy]]. rewrite Forall_forall in Hp. specialize (Hp _ Hy). now replace (S (pred y)) with y by lia.
  - intros H. exists (S x). split; [reflexivity | exact H].
Qed.

(* blocks are consecutive ranges covering all elements *)
Lemma block_ranges_concat first sizes : concat (block_ranges first sizes) = seq first (list_sum sizes).
Proof.
  revert first. induction sizes as [| n r IH]; intros first; [reflexivity |].
  cbn [block_ranges concat list_sum fold_right]. rewrite IH. fold (list_sum r). now rewrite seq_app.
Qed.
Lemma read_conns_length blocks : length (read_conns blocks) = list_sum (map (@length _) blocks).
Proof.
  unfold read_conns. induction blocks as [| b r IH]; [reflexivity |].
  cbn [map concat list_sum fold_right]. rewrite app_length, map_length, IH. reflexivity.
Qed.
Lemma read_blocks_cover blocks : concat (read_block_ranges blocks) = seq 0 (length (read_conns blocks)).
Proof. unfold read_block_ranges. now rewrite block_ranges_concat, read_conns_length. Qed.
Lemma read_blocks_count blocks : length (read_block_ranges blocks) = length blocks.
Proof.
  unfold read_block_ranges. generalize 0. induction blocks as [| b r IH]; intros first; [reflexivity |].
  cbn [map block_ranges length]. now rewrite IH.
Qed.
Lemma read_conns_in_range n blocks :
  Forall (Forall (Forall (fun i => 1 <= i <= n))) blocks -> Forall (Forall (fun i => i < n)) (read_conns blocks).
Proof.
  intros H. unfold read_conns. apply Forall_forall. intros row Hr. apply in_concat in Hr. destruct Hr as [b [Hb Hr]].
  apply in_map_iff in Hb. destruct Hb as [b' [<- Hb']]. apply in_map_iff in Hr. destruct Hr as [row' [<- Hr']].
  rewrite Forall_forall in H. specialize (H _ Hb'). rewrite Forall_forall in H. specialize (H _ Hr'). now apply to0_in_range.
Qed.

(* 6-node rows: Exodus order (v0 v1 v2 m01 m12 m20) -> native order; on every side s the native face lists
   vertex s, the mid-side node of side s, vertex s+1; native vertex positions hold v0 v1 v2 *)
Lemma permute_tri6_faces v0 v1 v2 m01 m12 m20 :
  let row := permute_tri6 [v0; v1; v2; m01; m12; m20] in
  map (map (fun p => nth p row 0)) native_faces = [[v0; m01; v1]; [v1; m12; v2]; [v2; m20; v0]]
  /\ map (fun p => nth p row 0) native_vertex = [v0; v1; v2].
Proof. split; reflexivity. Qed.
Lemma permute_tri6_perm row : length row = 6 -> forall x, In x (permute_tri6 row) <-> In x row.
Proof.
  intros H x. destruct row as [| a [| b [| c [| d [| e [| f [| ? ?]]]]]]]; try discriminate. cbn. tauto.
Qed.
