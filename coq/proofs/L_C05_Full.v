(* C05 -- the complete solver model (model/M_C05_Full.v at T := R): EVERY point the solver forms is in the box
   (the Cauchy point, every SPG iterate x+z, every trial point, every reported / returned point), for arbitrary value /
   gradient / Hessian-vector oracles of the right shape and for EVERY sequence of root-finder answers; and the flag clause
   for the complete model: success is only reported at a trial point whose projected-gradient measure is below tol. *)
From Coq Require Import Reals Lra Lia List QArith Psatz Bool.
From OV.base Require Import Num.
From OV.gen Require Import Gen_TrustRegionSPG.
From OV.model Require Import M_C06_Vec M_C06_CG M_C01_TR M_C05_SPG M_C05_Full.
From OV.proofs Require Import L_C06_Vec L_C01 L_C05.
Import ListNotations.
Local Open Scope R_scope.

Definition ev_point (e : event R) : option rvec :=
  match e with
  | EConvergedInit x | EAccept x _ | EConverged x | ETooSmall x | EMaxIters x | EPrecond x => Some x
  | EOutOfFuel => None
  end.
Definition ev_feasible (bs : list rbound) (e : event R) : Prop :=
  match ev_point e with Some x => in_box bs x | None => True end.
(* every point carried by a trace event of the complete model is in the box *)
Definition fev_feasible (bs : list rbound) (e : fevent R) : Prop :=
  match e with
  | FSpg p _ _ => in_box bs p
  | FTrial y => in_box bs y
  | FOut e => ev_feasible bs e
  | FIter x _ => in_box bs x
  | _ => True
  end.

Lemma vmap2_length (f : R -> R -> R) (a c : rvec) : length a = length c -> length (vmap2 f a c) = length a.
Proof. revert c; induction a as [|? a IHa]; intros [|? c] E; simpl in *; try discriminate; auto. Qed.
Lemma radd_length a c : length a = length c -> length (radd a c) = length c.
Proof. intros E. unfold vadd. rewrite vmap2_length; auto. Qed.
Lemma rsub_length a c : length a = length c -> length (rsub a c) = length c.
Proof. intros E. unfold vsub. rewrite vmap2_length; auto. Qed.
Lemma rscale_length k a : length (rscale k a) = length a.
Proof. unfold vscale. apply map_length. Qed.
Lemma raxpy_length z k d : length d = length z -> length (raxpy z k d) = length z.
Proof. intros E. unfold vaxpy. rewrite radd_length; rewrite rscale_length; auto. Qed.

(* x + (p - x) = p *)
Lemma radd_rsub_cancel x p : length p = length x -> radd x (rsub p x) = p.
Proof.
  revert p; induction x as [|a x IH]; intros [|c p] E; simpl in E; try discriminate; [reflexivity|].
  unfold vadd, vsub in *. cbn [vmap2]. unfold_num. f_equal; [lra|apply IH; lia].
Qed.
(* x + (z + a (p - (x + z))) = (x + z) + a (p - (x + z)): the SPG update of z IS the convex-combination update of xNew = x + z *)
Lemma spg_z_update x z p a : length z = length x -> length p = length x ->
  radd x (raxpy z a (rsub p (radd x z))) = @spg_update R NumR (radd x z) p a.
Proof.
  revert z p; induction x as [|b x IH]; intros [|c z] [|e p] Ez Ep; simpl in Ez, Ep; try discriminate; [reflexivity|].
  unfold spg_update, vaxpy, vadd, vsub, vscale in *. cbn [vmap2 map]. unfold_num. f_equal; [lra|apply IH; lia].
Qed.

Lemma snoc_shift {A} (p : list A) x m t e : p ++ x :: m ++ t ++ [e] = (p ++ x :: m ++ t) ++ [e].
Proof. rewrite <- app_assoc. cbn [app]. rewrite <- app_assoc. reflexivity. Qed.

Section FullProofs.
  Variable value : rvec -> R.
  Variable grad : rvec -> rvec.
  Variable hessvec : rvec -> rvec -> rvec.
  Variable brent : nat -> R.
  Variable bs : list rbound.
  Variable S : settings R.
  Variable G : spg_settings R.
  Hypothesis W : wf_box bs.
  Hypothesis grad_len : forall x, length x = length bs -> length (grad x) = length bs.
  Hypothesis hv_len : forall x v, length x = length bs -> length v = length bs -> length (hessvec x v) = length bs.

  Notation feas := (fev_feasible bs).

  (* ------------------------------------------------------------ the Cauchy step is (projection) - x *)
  Lemma pstep_props x g a : length x = length bs -> length g = length bs ->
    length (@pstep R NumR bs x g a) = length bs /\ in_box bs (radd x (@pstep R NumR bs x g a)).
  Proof.
    intros Ex Eg. unfold pstep.
    assert (L : length (rsub x (rscale a g)) = length bs).
    { rewrite rsub_length; rewrite rscale_length; congruence. }
    pose proof (project_length _ _ L) as Lp.
    split; [rewrite rsub_length; congruence|].
    rewrite radd_rsub_cancel by congruence. apply project_in_box; assumption.
  Qed.

  Section CauchyProofs.
    Variables (x g : rvec) (Hv : rvec -> rvec) (tr : R).
    Notation PS := (@pstep R NumR bs x g).
    Lemma fwd_loop_pstep fuel : forall i q alpha s aT sT qT r,
      (exists a, s = PS a) -> (exists a, sT = PS a) ->
      @fwd_loop R NumR bs G x g Hv tr fuel i q alpha s aT sT qT = Some r -> exists a, snd r = PS a.
    Proof.
      induction fuel as [|fuel IH]; intros i q alpha s aT sT qT r Hs HsT E; [discriminate|].
      cbn [fwd_loop] in E. cbv zeta in E.
      match type of E with (if ?c then _ else _) = _ => destruct c end.
      - inversion E; subst r; cbn [snd]. match goal with |- context [if ?c then _ else _] => destruct c end; assumption.
      - eapply IH; [| |exact E].
        + match goal with |- context [if ?c then _ else _] => destruct c end; assumption.
        + eexists; reflexivity.
    Qed.
    Lemma shrink_loop_pstep again fuel : forall i alpha r,
      @shrink_loop R NumR bs G x g again fuel i alpha = Some r -> exists a, snd r = PS a.
    Proof.
      induction fuel as [|fuel IH]; intros i alpha r E; [discriminate|].
      cbn [shrink_loop] in E. cbv zeta in E.
      match type of E with (if ?c then _ else _) = _ => destruct c end.
      - eapply IH; exact E.
      - inversion E; subst r; cbn [snd]. eexists; reflexivity.
    Qed.
    Lemma tr_cutback_pstep fwd n1 alpha s fwd' n1' n2' a' s' : (exists a, s = PS a) ->
      @tr_cutback R NumR bs G x g tr fwd n1 alpha s = CPOk fwd' n1' n2' a' s' -> exists a, s' = PS a.
    Proof.
      intros Hs. unfold tr_cutback. destruct (outside_tr tr s).
      - destruct (shrink_loop bs G x g (outside_tr tr) (Datatypes.S (g_max_ls G)) 0 alpha) as [[[i a2] s2]|] eqn:E; [|discriminate].
        destruct (Nat.eqb i (g_max_ls G)); [discriminate|]. intros H; inversion H; subst.
        apply shrink_loop_pstep in E. exact E.
      - intros H; inversion H; subst. exact Hs.
    Qed.
    Lemma cauchy_point_pstep alpha fwd n1 n2 a s :
      @cauchy_point R NumR bs G x g Hv tr alpha = CPOk fwd n1 n2 a s -> exists a', s = PS a'.
    Proof.
      unfold cauchy_point. cbv zeta.
      match goal with |- (if ?c then _ else _) = _ -> _ => destruct c end.
      - match goal with |- match ?f with _ => _ end = _ -> _ => destruct f as [[[i a1] s1]|] eqn:E end; [|discriminate].
        apply fwd_loop_pstep in E; [|eexists; reflexivity|eexists; reflexivity].
        intros H. eapply tr_cutback_pstep; [exact E|exact H].
      - match goal with |- match ?f with _ => _ end = _ -> _ => destruct f as [[[i a1] s1]|] eqn:E end; [|discriminate].
        apply shrink_loop_pstep in E.
        destruct (Nat.eqb i (g_max_ls G)); [discriminate|].
        intros H. eapply tr_cutback_pstep; [exact E|exact H].
    Qed.
  End CauchyProofs.

  (* ------------------------------------------------------------ the SPG iterations *)
  Lemma ptr_props p xk tr k : length p = length bs -> length xk = length bs ->
    let r := @ptr R NumR brent bs p xk tr k in length (fst r) = length bs /\ in_box bs (fst r).
  Proof.
    intros Ep Ek. cbv zeta. unfold ptr. cbn [fst].
    pose proof (project_onto_tr_in_box p xk bs tr (brent k) W Ep Ek) as H.
    split; [apply in_box_length; exact H|exact H].
  Qed.

  Lemma spg_loop_feasible rem : forall i x Hv tr tol2 z d q xNew lam h k chi2,
    length x = length bs -> (forall v, length v = length bs -> length (Hv v) = length bs) ->
    length z = length bs -> length d = length bs -> xNew = radd x z -> in_box bs xNew ->
    let r := @spg_loop R NumR brent bs G rem i x Hv tr tol2 z d q xNew lam h k chi2 in
    length (o_z r) = length bs /\ in_box bs (radd x (o_z r)) /\ Forall feas (o_ev r).
  Proof.
    induction rem as [|rem IH]; intros i x Hv tr tol2 z d q xNew lam h k chi2 Ex HHv Ez Ed EX Hin; cbv zeta.
    - cbn. subst xNew. auto.
    - cbn [spg_loop]. unfold sub_opt.
      set (pk := ptr brent bs (rsub xNew (rscale lam d)) x tr k).
      assert (LX : length xNew = length bs) by (apply in_box_length; exact Hin).
      assert (Larg : length (rsub xNew (rscale lam d)) = length bs) by (rewrite rsub_length; rewrite rscale_length; congruence).
      pose proof (ptr_props _ _ tr k Larg Ex) as Hp. cbv zeta in Hp. fold pk in Hp. destruct Hp as (Lp & Pin).
      destruct pk as [p k1]. cbn [fst] in Lp, Pin.
      set (s := rsub p xNew). set (Bs := Hv s).
      assert (Ls : length s = length bs) by (unfold s; rewrite rsub_length; congruence).
      assert (LBs : length Bs = length bs) by (apply HHv; exact Ls).
      set (alpha := spg_alpha (g_nonmonotone G) (rdot d s) (rdot s Bs) q (hist_max h)).
      set (z1 := raxpy z alpha s). set (d1 := raxpy d alpha Bs).
      assert (Lz1 : length z1 = length bs) by (unfold z1; rewrite raxpy_length; congruence).
      assert (Ld1 : length d1 = length bs) by (unfold d1; rewrite raxpy_length; congruence).
      assert (Hin1 : in_box bs (radd x z1)).
      { unfold z1, s. subst xNew. rewrite spg_z_update by congruence. apply spg_step_feasible; assumption. }
      set (q1 := (q + alpha * (rdot d s + (1 / 2) * alpha * rdot s Bs))%R).
      match goal with |- context [ptr brent bs ?a ?b ?c ?e] => set (pk2 := ptr brent bs a b c e) end.
      destruct pk2 as [p2 k2].
      match goal with |- context [if nltb ?a ?b then _ else _] => destruct (nltb a b) end.
      + cbn [o_z o_ev]. split; [exact Lz1|]. split; [exact Hin1|]. constructor; [exact Hin1|constructor].
      + cbn [o_z o_ev].
        match goal with |- context [spg_loop brent bs G rem ?i' x Hv tr tol2 z1 d1 ?q' (radd x z1) ?l' ?h' k2 ?c'] =>
          pose proof (IH i' x Hv tr tol2 z1 d1 q' (radd x z1) l' h' k2 c' Ex HHv Lz1 Ld1 eq_refl Hin1) as H end.
        cbv zeta in H. destruct H as (A & B & C).
        split; [exact A|]. split; [exact B|]. constructor; [exact Hin1|exact C].
  Qed.

  Lemma solve_spg_feasible x cs r Hv tr k :
    length x = length bs -> (forall v, length v = length bs -> length (Hv v) = length bs) ->
    length cs = length bs -> length r = length bs -> in_box bs (radd x cs) ->
    let o := @solve_spg R NumR brent bs S G x cs r Hv tr k in
    length (o_z o) = length bs /\ in_box bs (radd x (o_z o)) /\ Forall feas (o_ev o).
  Proof.
    intros Ex HHv Ec Er Hin. cbv zeta. unfold solve_spg. unfold sub_opt.
    match goal with |- context [ptr brent bs ?a ?b ?c ?e] => set (pk := ptr brent bs a b c e) end.
    destruct pk as [p k1].
    match goal with |- context [if nltb ?a ?b then _ else _] => destruct (nltb a b) end.
    - cbn [o_z o_ev]. split; [exact Ec|]. split; [exact Hin|]. constructor; [exact Hin|constructor].
    - destruct (Nat.eqb (s_max_cg_iters S) 0).
      + cbn [o_z o_ev]. split; [exact Ec|]. split; [exact Hin|]. constructor; [exact Hin|constructor].
      + cbn [o_z o_ev].
        assert (Ld : length (radd r (Hv cs)) = length bs) by (rewrite radd_length; [apply HHv; exact Ec|rewrite HHv; congruence]).
        match goal with |- context [spg_loop brent bs G ?rem ?i' x Hv tr ?t2 cs ?d' ?q' (radd x cs) ?l' ?h' k1 ?c'] =>
          pose proof (spg_loop_feasible rem i' x Hv tr t2 cs d' q' (radd x cs) l' h' k1 c' Ex HHv Ec Ld eq_refl Hin) as H end.
        cbv zeta in H. destruct H as (A & B & C).
        split; [exact A|]. split; [exact B|]. constructor; [exact Hin|exact C].
  Qed.

  (* ------------------------------------------------------------ one outer iteration after the sub-problem solve *)
  Notation decideR := (@decide R NumR value grad bs S).
  Lemma decide_feasible s a1 k1 sv mo onb it :
    in_box bs (f_x s) -> length (f_g s) = length bs -> in_box bs (radd (f_x s) sv) ->
    match decideR s a1 k1 sv mo onb it with
    | DConverged y => y = radd (f_x s) sv
    | DStop x ev => in_box bs x /\ Forall (ev_feasible bs) ev
    | DNext s' ev => in_box bs (f_x s') /\ length (f_g s') = length bs /\ Forall (ev_feasible bs) ev
    end.
  Proof.
    intros Hx Hg Hy. unfold decide. cbv zeta.
    set (y := radd (f_x s) sv) in *.
    assert (Lgy : length (grad y) = length bs) by (apply grad_len, in_box_length; exact Hy).
    match goal with |- context [if nltb ?a (s_tol S) then _ else _] => destruct (nltb a (s_tol S)) end; [reflexivity|].
    match goal with |- context [will_accept S ?r ?a ?b] => destruct (will_accept S r a b) end;
      (match goal with |- context [nltb ?a (s_min_tr_size S)] => destruct (nltb a (s_min_tr_size S)) end);
      cbn [negb]; try destruct (f_tried s); cbn [negb f_x f_g app];
      repeat match goal with
             | |- _ /\ _ => split
             | |- Forall _ (_ :: _) => constructor
             | |- Forall _ [] => constructor
             end; try assumption; try exact Hx; try exact Hy.
  Qed.
  Lemma decide_converged s a1 k1 sv mo onb it y :
    decideR s a1 k1 sv mo onb it = DConverged y -> y = radd (f_x s) sv /\ @optimality R NumR y (grad y) bs < s_tol S.
  Proof.
    unfold decide. cbv zeta.
    match goal with |- context [if nltb ?a (s_tol S) then _ else _] => destruct (nltb a (s_tol S)) eqn:E end.
    - intros H; inversion H; subst. split; [reflexivity|]. revert E. unfold_num. intros E. apply Rltb_true in E. exact E.
    - match goal with |- context [nltb ?a (s_min_tr_size S)] => destruct (nltb a (s_min_tr_size S)) end;
        [match goal with |- context [negb ?b] => destruct (negb b) end|]; discriminate.
  Qed.

  (* ------------------------------------------------------------ the whole solver *)
  Notation outerF := (@full_outer R NumR value grad hessvec brent bs S G).
  Definition full_post (r : option (rvec * bool) * list (fevent R)) : Prop :=
    let '(res, tr) := r in
    Forall feas tr /\ (forall xr flag, res = Some (xr, flag) -> in_box bs xr).

  Lemma Forall_map_FOut ev : Forall (ev_feasible bs) ev -> Forall feas (map FOut ev).
  Proof. induction 1; cbn; constructor; auto. Qed.

  Lemma full_outer_feasible iters : forall s, in_box bs (f_x s) -> length (f_g s) = length bs -> full_post (outerF iters s).
  Proof.
    induction iters as [|iters IH]; intros s Hx Hg.
    - cbn. split; [constructor; [exact Hx|constructor]|]. intros xr flag H; inversion H; subst; exact Hx.
    - cbn [full_outer]. cbv zeta.
      pose proof (in_box_length _ _ Hx) as Lx.
      destruct (cauchy_point bs G (f_x s) (f_g s) (hessvec (f_x s)) (f_tr s) (f_alpha s)) as [fwd n1 n2 a1 cs|ph|] eqn:Ecp.
      2:{ cbn. split; [constructor; [exact Hx|repeat constructor]|]. intros ? ? H; discriminate. }
      2:{ cbn. split; [constructor; [exact Hx|repeat constructor]|]. intros ? ? H; discriminate. }
      apply cauchy_point_pstep in Ecp. destruct Ecp as (a' & Ecs).
      destruct (pstep_props (f_x s) (f_g s) a' Lx Hg) as (Lcs & Hcs). rewrite <- Ecs in Lcs, Hcs.
      pose proof (solve_spg_feasible (f_x s) cs (f_g s) (hessvec (f_x s)) (f_tr s) (f_k s) Lx (fun v Lv => hv_len (f_x s) v Lx Lv) Lcs Hg Hcs) as Hsp.
      cbv zeta in Hsp. set (o := solve_spg brent bs S G (f_x s) cs (f_g s) (hessvec (f_x s)) (f_tr s) (f_k s)) in *.
      destruct Hsp as (Lz & Hy & Hev).
      assert (Hpre : Forall feas (FIter (f_x s) (f_tr s) :: FCauchy fwd n1 n2 a1 :: o_ev o ++ [FSpgExit (o_kind o) (o_iters o)])).
      { constructor; [exact Hx|]. constructor; [exact I|]. apply Forall_app. split; [exact Hev|repeat constructor]. }
      destruct (Nat.eqb (o_kind o) 3).
      { split; [apply Forall_app; split; [exact Hpre|repeat constructor]|]. intros ? ? H; discriminate. }
      pose proof (decide_feasible s a1 (o_k o) (o_z o) (o_q o) (Nat.eqb (o_kind o) 1) (o_iters o) Hx Hg Hy) as Hd.
      destruct (decideR s a1 (o_k o) (o_z o) (o_q o) (Nat.eqb (o_kind o) 1) (o_iters o)) as [y'|x1 ev|s' ev].
      + subst y'. split.
        * apply Forall_app. split; [exact Hpre|]. constructor; [exact Hy|]. constructor; [exact Hy|constructor].
        * intros ? ? H; inversion H; subst; exact Hy.
      + destruct Hd as (Hx1 & Hev1). split.
        * apply Forall_app. split; [exact Hpre|]. constructor; [exact Hy|]. apply Forall_map_FOut; exact Hev1.
        * intros ? ? H; inversion H; subst; exact Hx1.
      + destruct Hd as (Hx1 & Hg1 & Hev1). specialize (IH s' Hx1 Hg1).
        destruct (outerF iters s') as [res tr]. cbn [full_post] in IH |- *. destruct IH as (A & B).
        split; [|exact B].
        apply Forall_app. split; [exact Hpre|]. constructor; [exact Hy|]. apply Forall_app. split; [apply Forall_map_FOut; exact Hev1|exact A].
  Qed.

  Theorem full_minimize_feasible x0 : in_box bs x0 ->
    let '(res, tr) := @full_minimize R NumR value grad hessvec brent bs S G x0 in
    Forall feas tr /\ (forall xr flag, res = Some (xr, flag) -> in_box bs xr).
  Proof.
    intros Hx. unfold full_minimize. cbv zeta.
    match goal with |- context [if nltb ?a (s_tol S) then _ else _] => destruct (nltb a (s_tol S)) end.
    - split; [constructor; [exact Hx|constructor]|]. intros ? ? H; inversion H; subst; exact Hx.
    - match goal with |- context [full_outer _ _ _ _ _ _ _ ?it ?s0] =>
        pose proof (full_outer_feasible it s0 Hx (grad_len x0 (in_box_length _ _ Hx))) as H;
        destruct (outerF it s0) as [res tr] end.
      exact H.
  Qed.

  (* ------------------------------------------------------------ flag clause of the complete model (no hypotheses used) *)
  Definition flag_post (r : option (rvec * bool) * list (fevent R)) : Prop :=
    let '(res, tr) := r in
    forall xr, res = Some (xr, true) ->
      @optimality R NumR xr (grad xr) bs < s_tol S /\ exists tr', tr = tr' ++ [FOut (EConverged xr)].

  Lemma full_outer_flag iters : forall s, flag_post (outerF iters s).
  Proof.
    induction iters as [|iters IH]; intros s.
    - cbn. intros xr H; discriminate.
    - cbn [full_outer]. cbv zeta.
      destruct (cauchy_point bs G (f_x s) (f_g s) (hessvec (f_x s)) (f_tr s) (f_alpha s)) as [fwd n1 n2 a1 cs|ph|];
        [|cbn; intros ? H; discriminate|cbn; intros ? H; discriminate].
      set (o := solve_spg brent bs S G (f_x s) cs (f_g s) (hessvec (f_x s)) (f_tr s) (f_k s)).
      destruct (Nat.eqb (o_kind o) 3); [cbn; intros ? H; discriminate|].
      destruct (decideR s a1 (o_k o) (o_z o) (o_q o) (Nat.eqb (o_kind o) 1) (o_iters o)) as [y'|x1 ev|s' ev] eqn:Ed.
      + apply decide_converged in Ed. destruct Ed as (Ey & Hopt).
        cbn [flag_post]. intros xr H; inversion H; subst xr. split; [exact Hopt|].
        eexists (_ ++ [_]). rewrite <- app_assoc. reflexivity.
      + cbn [flag_post]. intros xr H; discriminate.
      + specialize (IH s'). destruct (outerF iters s') as [res tr]. cbn [flag_post] in IH |- *.
        intros xr H. destruct (IH xr H) as (Hopt & tr' & Et). split; [exact Hopt|].
        rewrite Et. eexists. apply snoc_shift.
  Qed.

  Theorem full_minimize_flag x0 :
    let '(res, tr) := @full_minimize R NumR value grad hessvec brent bs S G x0 in
    forall xr, res = Some (xr, true) ->
      @optimality R NumR xr (grad xr) bs < s_tol S /\
      (tr = [FOut (EConvergedInit xr)] \/ exists tr', tr = tr' ++ [FOut (EConverged xr)]).
  Proof.
    unfold full_minimize. cbv zeta.
    match goal with |- context [if nltb ?a (s_tol S) then _ else _] => destruct (nltb a (s_tol S)) eqn:E end.
    - intros xr H; inversion H; subst xr. split; [|left; reflexivity].
      revert E. unfold_num. intros E. apply Rltb_true in E. exact E.
    - match goal with |- context [full_outer _ _ _ _ _ _ _ ?it ?s0] =>
        pose proof (full_outer_flag it s0) as H; destruct (outerF it s0) as [res tr] end.
      cbn [flag_post] in H. intros xr Hr. destruct (H xr Hr) as (A & B). split; [exact A|right; exact B].
  Qed.
End FullProofs.

(* non-vacuity of the hypotheses of full_minimize_feasible: a box with a finite, a one-sided, a degenerate and a free component,
   a feasible start, shape-preserving oracles (gradient x, Hessian-vector v) *)
Lemma example_full_hypotheses :
  let b := [(Some 0, Some 1); (None, Some 2); (Some 3, Some 3); (None, None)] in
  wf_box b /\ in_box b [1/2; -5; 3; 7] /\
  (forall x : rvec, length x = length b -> length ((fun y : rvec => y) x) = length b) /\
  (forall x v : rvec, length x = length b -> length v = length b -> length ((fun (_ y : rvec) => y) x v) = length b).
Proof. cbv zeta. split; [apply example_box|]. split; [apply example_box|]. split; intros; assumption. Qed.
