(* C01 -- finding F1: the convergence test precedes the acceptance test, so the converged exit can go uphill.
   f(x) = x + x^2/2 - 4x^3 - 3x^4 (the polynomial family of model/M_C01_TR.v with A = [[1]], b = [1], c = [-4], d = [-3]),
   x0 = 0, default settings: the first trial point is the Newton point y = -1, f'(-1) = 0, and the solver returns (-1, True)
   although f(-1) = 1/2 > f(0) = 0 (a local maximum).  Every number involved is a small dyadic rational, so the binary64
   instance of the model (the one executed against the implementation) computes exactly; the statement is about that instance. *)
From Coq Require Import ZArith List Floats.PrimFloat.
From OV.base Require Import Num.
From OV.model Require Import M_C06_Vec M_C06_CG M_C01_TR.
Import ListNotations.

Definition f1_A : list (list float) := [[F 1 0]].
Definition f1_E : list (list float) := [[F 0 0]].
Definition f1_b : list float := [F 1 0].
Definition f1_c : list float := [F (-4) 0].
Definition f1_d : list float := [F (-3) 0].
Definition f1_value := @pvalue float NumF f1_A f1_b f1_c f1_d.
Definition f1_grad := @pgrad float NumF f1_A f1_b f1_c f1_d.
Definition f1_hessvec := @phessvec float NumF f1_A f1_E f1_c f1_d.
Definition f1_id (xp v : list float) : list float := v.
(* get_settings() defaults: t1=0.25 t2=1.75 eta1=1e-10 eta2=0.1 eta3=0.5 tol=1e-8 cg_tol=0.2*tol ratio=1e-5 tr_size=2 min_tr_size=1e-8 *)
Definition f1_settings : settings float :=
  {| s_t1 := F 1 (-2); s_t2 := F 7 (-2); s_eta1 := F 7737125245533627 (-86); s_eta2 := F 3602879701896397 (-55); s_eta3 := F 1 (-1);
     s_max_trust_iters := 100; s_tol := F 3022314549036573 (-78); s_max_cg_iters := 50;
     s_max_cumulative_cg_iters := 1000; s_cg_tol := F 4835703278458517 (-81); s_cg_ratio := F 5902958103587057 (-69);
     s_tr_size := F 2 0; s_min_tr_size := F 3022314549036573 (-78); s_use_pc_ip := false; s_use_incremental := false |}.

Definition f1_run := @trust_region_minimize float NumF f1_value f1_grad f1_hessvec f1_id f1_id f1_settings 30 [F 0 0] [F 0 0].

Lemma f1_converged_exit_goes_uphill_binary64 :
  match f1_run with
  | ([y], true, [EConverged [y']]) =>
      andb (PrimFloat.eqb y (F (-1) 0)) (andb (PrimFloat.eqb y' y)
        (andb (PrimFloat.eqb (f1_value [y]) (F 1 (-1))) (andb (PrimFloat.eqb (f1_value [F 0 0]) (F 0 0))
              (PrimFloat.ltb (f1_value [F 0 0]) (f1_value [y])))))
  | _ => false
  end = true.
Proof. vm_compute. reflexivity. Qed.
