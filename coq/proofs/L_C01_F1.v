(* C01 -- finding F1 over the reals: the convergence test precedes the acceptance test, so the converged exit can go uphill.
   f(x) = x + x^2/2 - 4x^3 - 3x^4, x0 = 0, default settings (any iteration caps >= 1): the first trial point is the Newton
   point y = -1, f'(-1) = 0, and the solver returns (-1, True) although f(-1) = 1/2 > f(0) = 0 (a local maximum). *)
From Coq Require Import Reals Lra Lia List QArith Psatz Bool.
From OV.base Require Import Num.
From OV.gen Require Import Gen_EquationSolver.
From OV.model Require Import M_C06_Vec M_C06_CG M_C01_TR.
From OV.proofs Require Import L_C06_Vec.
Import ListNotations.
Local Open Scope R_scope.

Definition f1_value (x : rvec) : R := match x with [t] => t + t * t / 2 - 4 * (t * t * t) - 3 * (t * t * t * t) | _ => 0 end.
Definition f1_grad (x : rvec) : rvec := match x with [t] => [1 + t - 12 * (t * t) - 12 * (t * t * t)] | _ => [] end.
Definition f1_hessvec (x v : rvec) : rvec :=
  match x, v with [t], [w] => [(1 - 24 * t - 36 * (t * t)) * w] | _, _ => [] end.
Definition f1_id (xp v : rvec) : rvec := v.

(* get_settings() defaults; the two iteration caps are arbitrary positive numbers (defaults 100 and 50 included) *)
Definition f1_settings (k m : nat) : settings R :=
  {| s_t1 := 1 / 4; s_t2 := 7 / 4; s_eta1 := 1 / 10000000000; s_eta2 := 1 / 10; s_eta3 := 1 / 2;
     s_max_trust_iters := Datatypes.S k; s_tol := 1 / 100000000; s_max_cg_iters := Datatypes.S m;
     s_max_cumulative_cg_iters := 1000; s_cg_tol := 2 / 10 * (1 / 100000000); s_cg_ratio := 1 / 100000;
     s_tr_size := 2; s_min_tr_size := 1 / 100000000; s_use_pc_ip := false; s_use_incremental := false |}.

Ltac split_cmp :=
  match goal with
  | |- context [Rltb ?a ?b] =>
      let H := fresh "Hc" in destruct (Rltb a b) eqn:H; [apply Rltb_true in H | apply Rltb_false in H]
  | |- context [Rleb ?a ?b] =>
      let H := fresh "Hc" in destruct (Rleb a b) eqn:H; [apply Rleb_true in H | apply Rleb_false in H]
  end.

(* refute the most recent comparison hypothesis after normalising its constant field expressions *)
Ltac kill_last :=
  match goal with
  | H : (_ < _)%R |- _ => field_simplify in H; lra
  | H : (_ <= _)%R |- _ => field_simplify in H; lra
  end.

Theorem f1_converged_exit_goes_uphill : forall k m fuel,
  exists y,
    @trust_region_minimize R NumR f1_value f1_grad f1_hessvec f1_id f1_id (f1_settings k m) (Datatypes.S fuel) [0] [0]
      = ([y], true, [EConverged [y]]) /\
    y = -1 /\ f1_value [y] = 1 / 2 /\ f1_value [0] = 0 /\ f1_value [0] < f1_value [y].
Proof.
  intros k m fuel.
  cbv -[Rplus Rmult Rminus Ropp Rdiv Rinv sqrt Rabs Rltb Rleb Reqb IZR Rlt Rle].
  repeat (split_cmp; try solve [exfalso; lra | exfalso; kill_last]).
  eexists. split; [reflexivity|]. repeat split; try lra; field.
Qed.
