(* C08 (deepening, round 4, part 1):
   (A) a small calculus of matrix-valued curves (component-wise derivatives, product rule) used by the two goals below;
   (B) zero stress at rest for J2 'seth hill' (strain (C^(1/4) - I)/(1/2) through TensorMath.pow_symm) under the hypothesis PowDiffAtId:
       pow_symm(., m) is differentiable at the identity with derivative m * sym, stated along curves exactly as LogSqrtDiffAtId;
   (C) Kirchhoff-stress symmetry FROM OBJECTIVITY: if an energy E is invariant under every superposed rotation at H and differentiable
       at H along every differentiable curve through H with gradient P (d/dt E(g t) = P : g'(0)), then tau = P F^T is symmetric
       (the derivative along the curve t |-> R_k(t) F - I of rotations about each coordinate axis vanishes, which is tau : W_k = 0 for the
       three generators W_k of the skew matrices).  No equivariance of the derivative of the spectral function is needed. *)
From Coq Require Import Reals Lra QArith Nsatz.
From Coquelicot Require Import Coquelicot.
From OV.base Require Import Num.
From OV.gen Require Import Gen_TensorMath Gen_LinearElastic Gen_Neohookean Gen_Gent Gen_J2Elastic
  Gen_HyperViscoelastic Gen_MultiBranchHyperViscoelastic Gen_PhaseFieldThreshold.
From OV.model Require Import M_C08 M_C08b.
From OV.proofs Require Import L_C08 L_C08b L_C08c.
Local Open Scope R_scope.

(* ---------- (A) curves of matrices ---------- *)
Definition mfun (a00 a01 a02 a10 a11 a12 a20 a21 a22 : R -> R) (t : R) : M :=
  mk (a00 t) (a01 t) (a02 t) (a10 t) (a11 t) (a12 t) (a20 t) (a21 t) (a22 t).
Lemma mfun_eta (A : R -> M) t :
  A t = mfun (fun t => m00 (A t)) (fun t => m01 (A t)) (fun t => m02 (A t)) (fun t => m10 (A t)) (fun t => m11 (A t)) (fun t => m12 (A t))
             (fun t => m20 (A t)) (fun t => m21 (A t)) (fun t => m22 (A t)) t.
Proof. unfold mfun. apply mat_eta. Qed.
Lemma mderive_ext (A B : R -> M) x D : (forall t, A t = B t) -> mderive A x D -> mderive B x D.
Proof.
  intros HE (D0 & D1 & D2 & D3 & D4 & D5 & D6 & D7 & D8). unfold mderive.
  repeat match goal with |- _ /\ _ => split end;
    match goal with |- is_derive (fun t => ?p (B t)) _ _ => apply (is_derive_ext (fun t => p (A t))); [intros t; rewrite HE; reflexivity | assumption] end.
Qed.

Definition done_ (P : Prop) : Prop := P.
Ltac dfacts :=
  repeat match goal with P : is_derive ?f 0 ?d |- _ =>
    let g := eval cbv beta in (fun x : R => f x) in
    assert (Derive g 0 = d) by (apply is_derive_unique; exact P); change (done_ (is_derive f 0 d)) in P end;
  unfold done_ in *.
Ltac dsubst := repeat match goal with E : Derive _ 0 = _ |- _ => rewrite ?E; clear E end.

Section TwoCurves.
  Variables (a00 a01 a02 a10 a11 a12 a20 a21 a22 b00 b01 b02 b10 b11 b12 b20 b21 b22 : R -> R).
  Variables (A' B' : M).
  Let A := mfun a00 a01 a02 a10 a11 a12 a20 a21 a22.
  Let B := mfun b00 b01 b02 b10 b11 b12 b20 b21 b22.
  Hypothesis HA : mderive A 0 A'.
  Hypothesis HB : mderive B 0 B'.
  Ltac exd := repeat split; try (eexists; eassumption).
  Ltac der f H := assert (Derive (fun x => f x) 0 = _) by (apply is_derive_unique; exact H).
  Lemma mderive_mmul_fun : mderive (fun t => mmul (A t) (B t)) 0 (madd (mmul A' (B 0)) (mmul (A 0) B')).
  Proof.
    destruct HA as (P0 & P1 & P2 & P3 & P4 & P5 & P6 & P7 & P8). destruct HB as (Q0 & Q1 & Q2 & Q3 & Q4 & Q5 & Q6 & Q7 & Q8).
    unfold A, B, mfun in *. cbn [m00 m01 m02 m10 m11 m12 m20 m21 m22] in *.
    destruct A' as [x00 x01 x02 x10 x11 x12 x20 x21 x22]. destruct B' as [y00 y01 y02 y10 y11 y12 y20 y21 y22].
    cbn [m00 m01 m02 m10 m11 m12 m20 m21 m22] in *.
    dfacts. unfold mderive. mnum.
    repeat match goal with |- _ /\ _ => split end; (auto_derive; [exd | dsubst; ring]).
  Qed.
End TwoCurves.

Lemma mderive_mmul (A B : R -> M) A' B' : mderive A 0 A' -> mderive B 0 B' ->
  mderive (fun t => mmul (A t) (B t)) 0 (madd (mmul A' (B 0)) (mmul (A 0) B')).
Proof.
  intros HA HB.
  apply (mderive_ext (fun t => mmul (mfun (fun t => m00 (A t)) (fun t => m01 (A t)) (fun t => m02 (A t)) (fun t => m10 (A t)) (fun t => m11 (A t))
                                          (fun t => m12 (A t)) (fun t => m20 (A t)) (fun t => m21 (A t)) (fun t => m22 (A t)) t)
                                    (mfun (fun t => m00 (B t)) (fun t => m01 (B t)) (fun t => m02 (B t)) (fun t => m10 (B t)) (fun t => m11 (B t))
                                          (fun t => m12 (B t)) (fun t => m20 (B t)) (fun t => m21 (B t)) (fun t => m22 (B t)) t))).
  - intros t. rewrite <- !mfun_eta. reflexivity.
  - rewrite (mfun_eta A 0), (mfun_eta B 0). apply mderive_mmul_fun; unfold mfun; [exact HA | exact HB].
Qed.
Lemma mderive_const (A : M) x : mderive (fun _ => A) x mzero.
Proof. unfold mderive. repeat match goal with |- _ /\ _ => split end; apply (is_derive_const (V := R_NormedModule)). Qed.
Lemma mderive_mtr (A : R -> M) x A' : mderive A x A' -> mderive (fun t => mtr (A t)) x (mtr A').
Proof. intros (D0 & D1 & D2 & D3 & D4 & D5 & D6 & D7 & D8). unfold mderive, mtr; cbn [m00 m01 m02 m10 m11 m12 m20 m21 m22]. tauto. Qed.
Lemma is_derive_plus' (f g : R -> R) x a b : is_derive f x a -> is_derive g x b -> is_derive (fun t => f t + g t) x (a + b).
Proof. intros Hf Hg. exact (is_derive_plus f g x a b Hf Hg). Qed.
Lemma is_derive_minus' (f g : R -> R) x a b : is_derive f x a -> is_derive g x b -> is_derive (fun t => f t - g t) x (a - b).
Proof. intros Hf Hg. exact (is_derive_minus f g x a b Hf Hg). Qed.
Lemma is_derive_scal' (f : R -> R) x k a : is_derive f x a -> is_derive (fun t => k * f t) x (k * a).
Proof. intros Hf. exact (is_derive_scal f x k a Hf). Qed.
Lemma mderive_madd (A B : R -> M) x A' B' : mderive A x A' -> mderive B x B' -> mderive (fun t => madd (A t) (B t)) x (madd A' B').
Proof.
  intros (D0 & D1 & D2 & D3 & D4 & D5 & D6 & D7 & D8) (E0 & E1 & E2 & E3 & E4 & E5 & E6 & E7 & E8).
  unfold mderive, madd, map2; cbn [m00 m01 m02 m10 m11 m12 m20 m21 m22]. unfold nadd, NumR.
  repeat match goal with |- _ /\ _ => split end; apply is_derive_plus'; assumption.
Qed.
Lemma mderive_msub (A B : R -> M) x A' B' : mderive A x A' -> mderive B x B' -> mderive (fun t => msub (A t) (B t)) x (msub A' B').
Proof.
  intros (D0 & D1 & D2 & D3 & D4 & D5 & D6 & D7 & D8) (E0 & E1 & E2 & E3 & E4 & E5 & E6 & E7 & E8).
  unfold mderive, msub, map2; cbn [m00 m01 m02 m10 m11 m12 m20 m21 m22]. unfold nsub, NumR.
  repeat match goal with |- _ /\ _ => split end; apply is_derive_minus'; assumption.
Qed.
Lemma mderive_mscal (A : R -> M) x k A' : mderive A x A' -> mderive (fun t => mscal k (A t)) x (mscal k A').
Proof.
  intros (D0 & D1 & D2 & D3 & D4 & D5 & D6 & D7 & D8).
  unfold mderive, mscal; cbn [m00 m01 m02 m10 m11 m12 m20 m21 m22]. unfold nmul, NumR.
  repeat match goal with |- _ /\ _ => split end; apply is_derive_scal'; assumption.
Qed.
Lemma madd_mzero_r (A : M) : madd A mzero = A. Proof. dm A. mat_eq. Qed.
Lemma madd_mzero_l (A : M) : madd mzero A = A. Proof. dm A. mat_eq. Qed.
Lemma mderive_cast (A : R -> M) x D D' : D = D' -> mderive A x D -> mderive A x D'.
Proof. intros <-. trivial. Qed.
Lemma mderive_defgrad (g : R -> M) x D : mderive g x D -> mderive (fun t => defgrad (g t)) x D.
Proof. intros Hg. unfold defgrad. apply (mderive_cast _ _ (madd D mzero)); [apply madd_mzero_r |]. apply mderive_madd; [exact Hg | apply mderive_const]. Qed.
Lemma mderive_mmul_r (A : R -> M) G A' : mderive A 0 A' -> mderive (fun t => mmul (A t) G) 0 (mmul A' G).
Proof.
  intros HA. apply (mderive_cast _ _ (madd (mmul A' G) (mmul (A 0) mzero))).
  - replace (mmul (A 0) mzero) with (@mzero R NumR) by (destruct (A 0); mat_eq). apply madd_mzero_r.
  - apply (mderive_mmul A (fun _ => G)); [exact HA | apply mderive_const].
Qed.
Lemma mderive_mmul_l (A : R -> M) G A' : mderive A 0 A' -> mderive (fun t => mmul G (A t)) 0 (mmul G A').
Proof.
  intros HA. apply (mderive_cast _ _ (madd (mmul mzero (A 0)) (mmul G A'))).
  - replace (mmul mzero (A 0)) with (@mzero R NumR) by (destruct (A 0); mat_eq). apply madd_mzero_l.
  - apply (mderive_mmul (fun _ => G) A); [apply mderive_const | exact HA].
Qed.

(* the elastic right Cauchy-Green tensor (F G)^T (F G) along a curve of displacement gradients; G = inverse plastic / viscous distortion *)
Definition dCCe (H G D : M) : M := madd (mmul (mtr (mmul D G)) (mmul (defgrad H) G)) (mmul (mtr (mmul (defgrad H) G)) (mmul D G)).
Lemma CCe_curve (g : R -> M) G D : mderive g 0 D -> mderive (fun t => CCe (g t) G) 0 (dCCe (g 0) G D).
Proof.
  intros Hg. unfold CCe, dCCe.
  apply (mderive_mmul (fun t => mtr (mmul (defgrad (g t)) G)) (fun t => mmul (defgrad (g t)) G)).
  - apply mderive_mtr, mderive_mmul_r, mderive_defgrad, Hg.
  - apply mderive_mmul_r, mderive_defgrad, Hg.
Qed.
Lemma CC_CCe H : CC H = CCe H mid. Proof. symmetry. apply CCe_id. Qed.
Lemma CC_curve (g : R -> M) D : mderive g 0 D -> mderive (fun t => CC (g t)) 0 (dCCe (g 0) mid D).
Proof. intros Hg. apply (mderive_ext (fun t => CCe (g t) mid)); [intros t; apply CCe_id | apply CCe_curve, Hg]. Qed.

(* scalar invariants along a curve *)
Section OneCurve.
  Variables (a00 a01 a02 a10 a11 a12 a20 a21 a22 : R -> R) (A' : M).
  Let A := mfun a00 a01 a02 a10 a11 a12 a20 a21 a22.
  Hypothesis HA : mderive A 0 A'.
  Ltac exd := repeat split; try (eexists; eassumption).
  Ltac prep :=
    destruct HA as (P0 & P1 & P2 & P3 & P4 & P5 & P6 & P7 & P8);
    unfold A, mfun in *; cbn [m00 m01 m02 m10 m11 m12 m20 m21 m22] in *;
    destruct A' as [x00 x01 x02 x10 x11 x12 x20 x21 x22]; cbn [m00 m01 m02 m10 m11 m12 m20 m21 m22] in *; dfacts.
  Ltac fin := dsubst.
  Lemma JJ_curve_fun : is_derive (fun t => JJ (A t)) 0 (mddot (mcof (defgrad (A 0))) A').
  Proof. prep. unfold JJ, mcof. mnum. auto_derive; [exd | fin; ring]. Qed.
  Lemma I1_curve_fun : is_derive (fun t => I1 (A t)) 0 (2 * mddot (defgrad (A 0)) A').
  Proof. prep. unfold I1. mnum. auto_derive; [exd | fin; ring]. Qed.
  Lemma mtrace_curve_fun : is_derive (fun t => mtrace (A t)) 0 (mtrace A').
  Proof. prep. mnum. auto_derive; [exd | fin; ring]. Qed.
  Lemma mddot_curve_fun : is_derive (fun t => mddot (A t) (A t)) 0 (2 * mddot (A 0) A').
  Proof. prep. mnum. auto_derive; [exd | fin; ring]. Qed.
End OneCurve.
Ltac via_fun lem g :=
  let G := constr:(mfun (fun t => m00 (g t)) (fun t => m01 (g t)) (fun t => m02 (g t)) (fun t => m10 (g t)) (fun t => m11 (g t))
                        (fun t => m12 (g t)) (fun t => m20 (g t)) (fun t => m21 (g t)) (fun t => m22 (g t))) in
  match goal with |- is_derive (fun t => ?f (g t)) 0 _ =>
    apply (is_derive_ext (fun t => f (G t))); [intros t; rewrite <- (mfun_eta g t); reflexivity |];
    try rewrite (mfun_eta g 0); apply lem; unfold mfun; assumption end.
Lemma JJ_curve (g : R -> M) D : mderive g 0 D -> is_derive (fun t => JJ (g t)) 0 (mddot (mcof (defgrad (g 0))) D).
Proof. intros Hg. via_fun JJ_curve_fun g. Qed.
Lemma I1_curve (g : R -> M) D : mderive g 0 D -> is_derive (fun t => I1 (g t)) 0 (2 * mddot (defgrad (g 0)) D).
Proof. intros Hg. via_fun I1_curve_fun g. Qed.
Lemma mtrace_curve (g : R -> M) D : mderive g 0 D -> is_derive (fun t => mtrace (g t)) 0 (mtrace D).
Proof. intros Hg. via_fun mtrace_curve_fun g. Qed.
Lemma mddot_curve (g : R -> M) D : mderive g 0 D -> is_derive (fun t => mddot (g t) (g t)) 0 (2 * mddot (g 0) D).
Proof.
  intros Hg.
  pose (G := mfun (fun t => m00 (g t)) (fun t => m01 (g t)) (fun t => m02 (g t)) (fun t => m10 (g t)) (fun t => m11 (g t))
                  (fun t => m12 (g t)) (fun t => m20 (g t)) (fun t => m21 (g t)) (fun t => m22 (g t))).
  apply (is_derive_ext (fun t => mddot (G t) (G t))); [intros t; unfold G; rewrite <- (mfun_eta g t); reflexivity |].
  rewrite (mfun_eta g 0). apply mddot_curve_fun; unfold mfun; assumption.
Qed.

(* ---------- (B) zero stress at rest for J2 'seth hill' ---------- *)
(* Differentiability of pow_symm(., m) at the identity with derivative m * sym, along curves (Hadamard form), for every exponent m *)
Definition PowDiffAtId (pw : M -> R -> M) : Prop :=
  forall (m : R) (C : R -> M) (C' : M), (forall t, msym (C t)) -> C 0 = mid -> mderive C 0 C' -> mderive (fun t => pw (C t) m) 0 (mscal m C').

(* a polynomial instance that meets PowSpec and PowDiffAtId together (NOT the matrix power): A + (m - 1) A (A - I) *)
Definition pw_poly (A : M) (m : R) : M := madd A (mscal (m - 1) (mmul A (msub A mid))).
Lemma PowSpec_poly : PowSpec pw_poly.
Proof.
  split.
  - intros Q A m HR _. unfold pw_poly. rewrite conj_add, conj_scal, <- conj_mul, conj_sub, conj_id by exact HR. reflexivity.
  - intros m. unfold pw_poly. mat_eq.
  - intros m _. unfold pw_poly. mat_eq.
Qed.
Lemma PowDiffAtId_poly : PowDiffAtId pw_poly.
Proof.
  intros m C C' _ H0 HD. unfold pw_poly.
  apply (mderive_cast _ _ (madd C' (mscal (m - 1) (madd (mmul C' (msub (C 0) mid)) (mmul (C 0) (msub C' mzero)))))).
  - rewrite H0. dm C'. mat_eq.
  - apply mderive_madd; [exact HD |]. apply mderive_mscal.
    apply (mderive_mmul C (fun t => msub (C t) mid)); [exact HD |]. apply mderive_msub; [exact HD | apply mderive_const].
Qed.

Section RestStressSethHill.
  Variable pw : M -> R -> M.
  Hypothesis HP : PowSpec pw.
  Hypothesis HD : PowDiffAtId pw.
  Variable D : M.
  Let Pf (t : R) : M := pw (CC (mscal t D)) (/ 4).
  Let Sf (t : R) : M := msub (mscal 2 (msub (Pf t) mid)) mzero.
  Lemma Pf_derive : mderive Pf 0 (mscal (/ 4) (madd D (mtr D))).
  Proof. unfold Pf. exact (HD (/ 4) (fun t => CC (mscal t D)) (madd D (mtr D)) (fun t => CC_sym (mscal t D)) (CC_path0 D) (CC_path D)). Qed.
  Lemma Sf_derive : mderive Sf 0 (mscal (/ 2) (madd D (mtr D))).
  Proof.
    unfold Sf. apply (mderive_cast _ _ (msub (mscal 2 (msub (mscal (/ 4) (madd D (mtr D))) mzero)) mzero)).
    - dm D. mnum. f_equal; field.
    - apply mderive_msub; [| apply mderive_const]. apply mderive_mscal. apply mderive_msub; [apply Pf_derive | apply mderive_const].
  Qed.
  Lemma Sf_0 : Sf 0 = mzero.
  Proof. unfold Sf, Pf. rewrite CC_path0, (pw_identity _ HP). mat_eq. Qed.
  Theorem j2_seth_hill_rest_stress p eqps : is_derive (fun t => E_j2_seth_hill pw p eqps mzero (mscal t D)) 0 0.
  Proof.
    destruct p as [[[[a b] c] d] e].
    destruct (quad_paths Sf _ (fun t => JJ (mscal t D)) _ Sf_derive Sf_0 (JJ_path D) (JJ_path0 D)) as (P1 & P2 & P3 & _).
    apply (is_derive_ext (fun t => phi_q d c (mtrace (Sf t)) (mddot (Sf t) (Sf t)))).
    - intros t. unfold E_j2_seth_hill. rewrite W_j2_bridge, j2_strain_seth_hill_bridge. reflexivity.
    - eapply phi_q_path_derive; eassumption.
  Qed.
End RestStressSethHill.

(* ---------- (C) Kirchhoff-stress symmetry from objectivity ---------- *)
(* E is differentiable at H along every differentiable curve through H, with gradient P *)
Definition curve_diff (E : M -> R) (H : M) (l : M -> R) : Prop :=
  forall (g : R -> M) (D : M), g 0 = H -> mderive g 0 D -> is_derive (fun t => E (g t)) 0 (l D).

Definition rotx (t : R) : M := mk 1 0 0 0 (cos t) (- sin t) 0 (sin t) (cos t).
Definition roty (t : R) : M := mk (cos t) 0 (sin t) 0 1 0 (- sin t) 0 (cos t).
Definition rotz (t : R) : M := mk (cos t) (- sin t) 0 (sin t) (cos t) 0 0 0 1.
Lemma cs1 t : cos t * cos t + sin t * sin t = 1.
Proof. pose proof (sin2_cos2 t) as E. unfold Rsqr in E. lra. Qed.
Lemma rotx_rot t : rotation (rotx t).
Proof. pose proof (cs1 t). unfold rotation, rotx. repeat split; mnum; try (f_equal; nra); nra. Qed.
Lemma roty_rot t : rotation (roty t).
Proof. pose proof (cs1 t). unfold rotation, roty. repeat split; mnum; try (f_equal; nra); nra. Qed.
Lemma rotz_rot t : rotation (rotz t).
Proof. pose proof (cs1 t). unfold rotation, rotz. repeat split; mnum; try (f_equal; nra); nra. Qed.
Definition Wx : M := mk 0 0 0 0 0 (-1) 0 1 0.
Definition Wy : M := mk 0 0 1 0 0 0 (-1) 0 0.
Definition Wz : M := mk 0 (-1) 0 1 0 0 0 0 0.
Lemma rot_curve_x H : rotL (rotx 0) H = H /\ mderive (fun t => rotL (rotx t) H) 0 (mmul Wx (defgrad H)).
Proof.
  split.
  - unfold rotx. rewrite cos_0, sin_0. dm H. mat_eq.
  - dm H. unfold mderive, rotx, Wx. mnum. repeat match goal with |- _ /\ _ => split end; (auto_derive; [trivial | rewrite ?cos_0, ?sin_0; ring]).
Qed.
Lemma rot_curve_y H : rotL (roty 0) H = H /\ mderive (fun t => rotL (roty t) H) 0 (mmul Wy (defgrad H)).
Proof.
  split.
  - unfold roty. rewrite cos_0, sin_0. dm H. mat_eq.
  - dm H. unfold mderive, roty, Wy. mnum. repeat match goal with |- _ /\ _ => split end; (auto_derive; [trivial | rewrite ?cos_0, ?sin_0; ring]).
Qed.
Lemma rot_curve_z H : rotL (rotz 0) H = H /\ mderive (fun t => rotL (rotz t) H) 0 (mmul Wz (defgrad H)).
Proof.
  split.
  - unfold rotz. rewrite cos_0, sin_0. dm H. mat_eq.
  - dm H. unfold mderive, rotz, Wz. mnum. repeat match goal with |- _ /\ _ => split end; (auto_derive; [trivial | rewrite ?cos_0, ?sin_0; ring]).
Qed.

Lemma spin_power_zero (E : M -> R) (H : M) (l : M -> R) (q : R -> M) (W : M) :
  (forall Q, rotation Q -> E (rotL Q H) = E H) -> curve_diff E H l -> (forall t, rotation (q t)) ->
  rotL (q 0) H = H -> mderive (fun t => rotL (q t) H) 0 (mmul W (defgrad H)) -> l (mmul W (defgrad H)) = 0.
Proof.
  intros Hobj Hd Hq H0 Hc.
  pose proof (Hd (fun t => rotL (q t) H) _ H0 Hc) as D1.
  assert (D2 : is_derive (fun t => E (rotL (q t) H)) 0 0).
  { apply (is_derive_ext (fun _ => E H)); [intros t; symmetry; apply Hobj, Hq | apply (is_derive_const (V := R_NormedModule))]. }
  rewrite <- (is_derive_unique _ _ _ D1). apply is_derive_unique. exact D2.
Qed.

Theorem kirchhoff_from_objectivity (E : M -> R) (H P : M) :
  (forall Q, rotation Q -> E (rotL Q H) = E H) -> curve_diff E H (mddot P) -> msym (mmul P (mtr (defgrad H))).
Proof.
  intros Hobj Hd.
  pose proof (spin_power_zero E H _ rotx Wx Hobj Hd rotx_rot (proj1 (rot_curve_x H)) (proj2 (rot_curve_x H))) as Ex.
  pose proof (spin_power_zero E H _ roty Wy Hobj Hd roty_rot (proj1 (rot_curve_y H)) (proj2 (rot_curve_y H))) as Ey.
  pose proof (spin_power_zero E H _ rotz Wz Hobj Hd rotz_rot (proj1 (rot_curve_z H)) (proj2 (rot_curve_z H))) as Ez.
  revert Ex Ey Ez. dm H. dm P. unfold msym, Wx, Wy, Wz. mnum. intros Ex Ey Ez. f_equal; lra.
Qed.
