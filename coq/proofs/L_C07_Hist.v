(* C07: (1) the cotangents a reverse rule returns, TOGETHER, are the transposed total derivative of the solution map (all parameter slots moving at
   once); (2) a reverse sweep over a load history on ONE Objective (model/M_C07_Hist.v) returns the adjoint of the chained implicit-function
   tangents -- whatever objective.p holds when a rule runs, for both entry points (since /repo 42a60d0 nonlinear_solve_b re-establishes the saved Params too);
   (3) the rule shape before that fix (design slot only) is refuted under load stepping through objective.p (finding C07-DESIGN-RESTORE, fixed). *)
From Coq Require Import Reals Lra List Bool Arith String Lia.
From OV.model Require Import M_C07_Refs M_C19_CFG M_C07_Rule M_C07_Hist.
From OV.gen Require Import Refs_NonlinearSolve CFG_drivers.
From OV.proofs Require Import L_C07 L_C07_Rule.
Import ListNotations.
Local Open Scope R_scope.

(* ------------------------------------------------------------------ weighted sums over (slot descriptor, returned cotangent) *)
Section Sums.
  Variable P : Type.
  Fixpoint wsum (psi : nat -> P -> R) (sl : list slotdesc) (cs : list (cot P)) : R :=
    match sl, cs with
    | SlotVJP k _ :: sl', CotVal _ c :: cs' => psi k c + wsum psi sl' cs'
    | _ :: sl', _ :: cs' => wsum psi sl' cs'
    | _, _ => 0
    end.

  (* the shapes `acc` accepts *)
  Fixpoint wf (sl : list slotdesc) (cs : list (cot P)) : Prop :=
    match sl, cs with
    | [], [] => True
    | SlotVJP _ _ :: sl', CotVal _ _ :: cs' => wf sl' cs'
    | SlotVJP _ _ :: sl', CotNone _ :: cs' => wf sl' cs'
    | SlotNone :: sl', CotNone _ :: cs' => wf sl' cs'
    | _, _ => False
    end.

  Lemma wsum_add psi1 psi2 psi : (forall k c, psi k c = psi1 k c + psi2 k c) ->
    forall sl cs, wsum psi sl cs = wsum psi1 sl cs + wsum psi2 sl cs.
  Proof.
    intros Hp. induction sl as [|s sl IH]; intros cs; [cbn; lra|].
    destruct cs as [|c cs]; [destruct s; cbn; lra|].
    destruct s, c; cbn; rewrite ?IH, ?Hp; lra.
  Qed.

  Lemma acc_sum (X : Type) (add : X -> X -> X) (f : nat -> P -> X) (phi : X -> R) :
    (forall a b, phi (add a b) = phi a + phi b) ->
    forall sl cs a, wf sl cs -> exists y, acc P X add f sl cs a = Some y /\ phi y = phi a + wsum (fun k c => phi (f k c)) sl cs.
  Proof.
    intros Hphi. induction sl as [|s sl IH]; intros cs a Hw.
    - destruct cs; [|contradiction]. exists a. split; [reflexivity|cbn; lra].
    - destruct cs as [|c cs]; [destruct s; contradiction|].
      destruct s, c; cbn in Hw; try contradiction; cbn [acc wsum].
      + destruct (IH cs a Hw) as (y & Hy & E). exists y. split; [exact Hy|exact E].
      + destruct (IH cs (add a (f k c)) Hw) as (y & Hy & E). exists y. split; [exact Hy|]. rewrite E, Hphi. lra.
      + destruct (IH cs a Hw) as (y & Hy & E). exists y. split; [exact Hy|exact E].
  Qed.
End Sums.

Section Total.
  Variables V P : Type.
  Variable vadd : V -> V -> V.
  Variable vscale : R -> V -> V.
  Variable ipV : V -> V -> R.
  Variable ipP : P -> P -> R.
  Variable gradx : V -> Par P -> V.
  Variable vjp_at : (P -> V) -> P -> V -> P.
  Variable jvp_at : (V -> V) -> V -> V -> V.
  Variable deriv : (P -> V) -> P -> P -> V.
  Variable cg : V -> V -> (V -> V) -> (V -> V) -> option R -> V * V.
  Variable vzero : V.
  Variable precond : V -> V.
  Hypothesis ip_sym : forall a b, ipV a b = ipV b a.
  Hypothesis ip_lin : forall a b c t, ipV a (vadd b (vscale t c)) = ipV a b + t * ipV a c.
  Hypothesis vjp_transpose : forall g q w dp, ipP dp (vjp_at g q w) = ipV (deriv g q dp) w.

  Notation hess := (hess_op V P gradx jvp_at).
  Notation out := (rule_out V P gradx vjp_at jvp_at cg vzero precond).
  Notation lam_of := (rule_lam V P gradx jvp_at cg vzero precond).
  Notation hyps := (solve_hyps V P vadd vscale ipV gradx jvp_at cg vzero).

  (* sum over the parameter slots a rule differentiates (guard evaluated on the saved parameters, as the rule does) *)
  Fixpoint slot_sum (e : renv V P) (sl : list slotdesc) (F : nat -> R) : R :=
    match sl with
    | [] => 0
    | SlotVJP k g :: sl' => (if guard_present V P e g then F k else 0) + slot_sum e sl' F
    | _ :: sl' => slot_sum e sl' F
    end.

  (* <d(grad_x)/dp_k (dp k), w> at the parameters pf, slot k holding q0 *)
  Definition slot_dir (pf : Par P) (x : V) (dp : nat -> P) (w : V) (k : nat) : R :=
    match nth k pf None with Some q0 => ipV (deriv (fun q => gradx x (upd P pf k q)) q0 (dp k)) w | None => 0 end.

  (* the tangent of the solution when EVERY differentiated slot k moves in direction dp k: H dU = - sum_k d(grad_x)/dp_k (dp k)   (weak form) *)
  Definition total_tangent (pf : Par P) (e : renv V P) (sl : list slotdesc) (dp : nat -> P) (dU : V) : Prop :=
    forall w, ipV (hess pf (e_Uu V P e) dU) w = - slot_sum e sl (slot_dir pf (e_Uu V P e) dp w).

  Lemma slot_sum_ext e e' sl F : (forall g, guard_present V P e g = guard_present V P e' g) -> slot_sum e sl F = slot_sum e' sl F.
  Proof. intros Hg. induction sl as [|s sl IH]; [reflexivity|]. destruct s; cbn; rewrite ?Hg, IH; reflexivity. Qed.

  Lemma closure_sem_ok c k (p : Par P) x w q0 : closure_ok c = true -> vc_method_slot c = k -> nth k p None = Some q0 ->
    closure_sem V P gradx vjp_at c p x w = Some (vjp_at (fun q => gradx x (upd P p k q)) q0 w).
  Proof.
    intros Hc Hk Hq. unfold closure_ok in Hc.
    repeat (match goal with H : _ && _ = true |- _ => apply andb_prop in H; destruct H end).
    repeat (match goal with H : Nat.eqb _ _ = true |- _ => apply Nat.eqb_eq in H end).
    unfold closure_sem.
    repeat (match goal with H : ?b = true |- context [?b] => rewrite H end). cbn [andb].
    replace (vc_primal_slot c) with k by congruence. replace (vc_update_slot c) with k by congruence.
    rewrite Hq. reflexivity.
  Qed.

  (* every differentiated slot whose guard holds is present in the parameters in force and has a slot helper *)
  Definition resolvable (cls : list vjpclosure) (pf : Par P) (e : renv V P) (sl : list slotdesc) : Prop :=
    (forall k g, In (SlotVJP k g) sl -> guard_present V P e g = true -> (exists q0, nth k pf None = Some q0) /\ find_closure cls k <> None)
    /\ ~ In SlotOtherExpr sl.

  Lemma slots_pair cls r rk (e : renv V P) dp sl :
    forallb closure_ok cls = true -> resolvable cls (p_used V P rk e) e sl ->
    let cs := map (slot_sem V P gradx vjp_at jvp_at cg vzero precond cls r rk true e) sl in
    wf P sl cs
    /\ slot_sum e sl (slot_dir (p_used V P rk e) (e_Uu V P e) dp (lam_of r rk true e)) = wsum P (fun k c => ipP (dp k) c) sl cs.
  Proof.
    intros Hcls. induction sl as [|s sl IH]; intros [Hres Hno]; [split; [exact I|reflexivity]|].
    assert (Hres' : resolvable cls (p_used V P rk e) e sl).
    { split; [intros k g Hi; apply Hres; right; exact Hi|intros Hi; apply Hno; right; exact Hi]. }
    destruct (IH Hres') as [Hw Hs]. cbn zeta in *. cbn [map].
    destruct s as [k g| |].
    - cbn [slot_sem slot_sum].
      destruct (guard_present V P e g) eqn:Eg.
      + destruct (Hres k g (or_introl eq_refl) Eg) as [[q0 Hq] Hfc].
        destruct (find_closure cls k) as [c|] eqn:Efc; [clear Hfc|congruence].
        destruct (find_closure_spec _ _ _ Efc) as [Hin Hk].
        assert (Hc : closure_ok c = true) by (rewrite forallb_forall in Hcls; apply Hcls; exact Hin).
        rewrite (closure_sem_ok c k _ _ _ q0 Hc Hk Hq). cbn [wf wsum]. split; [exact Hw|].
        rewrite Hs. unfold slot_dir at 1. rewrite Hq, vjp_transpose. reflexivity.
      + cbn [wf wsum]. split; [exact Hw|]. rewrite Hs. lra.
    - cbn [slot_sem slot_sum wf wsum]. split; [exact Hw|exact Hs].
    - exfalso. apply Hno. left. reflexivity.
  Qed.

  (* one reverse rule, all slots at once *)
  Theorem rule_total cls r rk expected (e : renv V P) pf dp dU :
    revrule_ok r expected = true -> forallb closure_ok cls = true -> p_used V P rk e = pf ->
    hyps pf (e_Uu V P e) (e_v V P e) -> resolvable cls pf e expected -> total_tangent pf e expected dp dU ->
    r_slots r = expected /\ fst (out cls r rk true e) = vzero /\ wf P expected (snd (out cls r rk true e))
    /\ ipV (e_v V P e) dU = wsum P (fun k c => ipP (dp k) c) expected (snd (out cls r rk true e)).
  Proof.
    intros Hr Hcls Hpu (Hlin & Hsym & Hmin) Hres Htan. subst pf.
    unfold revrule_ok in Hr.
    repeat (match goal with H : _ && _ = true |- _ => apply andb_prop in H; destruct H end).
    match goal with H : slots_eqb _ _ = true |- _ => apply slots_eqb_eq in H; rename H into Hslots end.
    destruct (slots_pair cls r rk e dp expected Hcls Hres) as [Hw Hs]. cbn zeta in Hw, Hs.
    split; [exact Hslots|]. split.
    { unfold rule_out. cbn [fst]. match goal with H : r_guess_cotangent_zero r = true |- _ => rewrite H end. reflexivity. }
    unfold rule_out. cbn [snd]. rewrite Hslots. split; [exact Hw|].
    rewrite <- Hs.
    assert (Hlam : lam_of r rk true e = fst (cg vzero (e_v V P e) (hess (p_used V P rk e) (e_Uu V P e)) precond None)).
    { unfold rule_lam. repeat (match goal with H : ?b = true |- context [?b] => rewrite H end). reflexivity. }
    assert (Hmin' : forall z, qmodel V ipV (hess (p_used V P rk e) (e_Uu V P e)) (e_v V P e) (lam_of r rk true e)
                              <= qmodel V ipV (hess (p_used V P rk e) (e_Uu V P e)) (e_v V P e) z) by (rewrite Hlam; apply Hmin).
    pose proof (minimiser_stationary V vadd vscale ipV (hess (p_used V P rk e) (e_Uu V P e)) ip_sym ip_lin Hlin Hsym
                  (e_v V P e) (lam_of r rk true e) Hmin' dU) as Hst.
    pose proof (Htan (lam_of r rk true e)) as E.
    rewrite (ip_sym _ (lam_of r rk true e)), <- Hsym in E. lra.
  Qed.
End Total.

(* ------------------------------------------------------------------ slot algebra needed by the sweep *)
Lemma upd_length (P : Type) (p : Par P) k d : List.length p = 6%nat -> (k < 6)%nat -> List.length (upd P p k d) = 6%nat.
Proof.
  intros Hl Hk. do 7 (destruct p as [|? p]; try discriminate).
  do 6 (destruct k as [|k]; [reflexivity|]). lia.
Qed.

Definition agree_off2 (P : Type) (p p' : Par P) : Prop := forall j, (j < 6)%nat -> j <> 2%nat -> nth j p None = nth j p' None.

Lemma agree_off2_upd (P : Type) (p p' : Par P) d : List.length p = 6%nat -> agree_off2 P p p' -> agree_off2 P (upd P p 2 d) p'.
Proof.
  intros Hl Ha j Hj Hn. rewrite upd_get by (try exact Hl; lia).
  destruct (Nat.eqb 2 j) eqn:E; [apply Nat.eqb_eq in E; lia|apply Ha; assumption].
Qed.

(* ------------------------------------------------------------------ the reverse sweep over a history on one Objective *)
Section History.
  Variables V P Th : Type.
  Variable vadd : V -> V -> V.
  Variable vscale : R -> V -> V.
  Variable thadd : Th -> Th -> Th.
  Variable ipV : V -> V -> R.
  Variable ipP : P -> P -> R.
  Variable ipT : Th -> Th -> R.
  Variable gradx : V -> Par P -> V.
  Variable vjp_at : (P -> V) -> P -> V -> P.
  Variable jvp_at : (V -> V) -> V -> V -> V.
  Variable deriv : (P -> V) -> P -> P -> V.
  Variable cg : V -> V -> (V -> V) -> (V -> V) -> option R -> V * V.
  Variable vzero : V.
  Variable precond : V -> V.
  Hypothesis ip_sym : forall a b, ipV a b = ipV b a.
  Hypothesis ip_lin : forall a b c t, ipV a (vadd b (vscale t c)) = ipV a b + t * ipV a c.
  Hypothesis ip_zero : forall a, ipV a vzero = 0.
  Hypothesis ipT_add : forall a b c, ipT a (thadd b c) = ipT a b + ipT a c.
  Hypothesis vjp_transpose : forall g q w dp, ipP dp (vjp_at g q w) = ipV (deriv g q dp) w.

  Notation bstep := (bstep V P Th).
  Notation sstate := (sstate V P Th).
  Notation hyps := (solve_hyps V P vadd vscale ipV gradx jvp_at cg vzero).
  Notation tot := (total_tangent V P ipV gradx jvp_at deriv).
  Notation vpl := (vplus V vadd vscale).
  (* the sweep on the regenerated tables *)
  Notation bstep_of := (back_step V P Th gradx vjp_at jvp_at cg vzero precond vadd vscale thadd objective_vjp_closures
                          rule_nonlinear_solve_with_state_b rule_nonlinear_solve_b restore_nonlinear_solve_with_state_b restore_nonlinear_solve_b
                          objective_hessian_vec_is_jvp_of_grad_x_at_self_p).
  Notation sweep_of := (sweep V P Th gradx vjp_at jvp_at cg vzero precond vadd vscale thadd objective_vjp_closures
                          rule_nonlinear_solve_with_state_b rule_nonlinear_solve_b restore_nonlinear_solve_with_state_b restore_nonlinear_solve_b
                          objective_hessian_vec_is_jvp_of_grad_x_at_self_p).

  (* tangent data of one solve: direction of every parameter slot, tangent of the solution *)
  Record tstep := { t_dp : nat -> P; t_dU : V }.

  Definition expected_of (b : bstep) : list slotdesc := if b_state V P Th b then expected_slots_with_state else [SlotVJP 2 99].
  Definition pf_of (bt : bstep * tstep) : Par P := p_fwd V P Th (fst bt).
  Definition head_dU (dU0 : V) (l : list (bstep * tstep)) : V := match l with [] => dU0 | bt :: _ => t_dU (snd bt) end.
  (* what is asked of one solve, given the direction dth of the global parameters and the tangent dUprev of the previous solution -- NOTHING about
     objective.p at the moment its reverse rule runs:
     - nonlinear_solve only: the saved Params carry a design (they do: the forward rule puts its argument there, fwd_rule_saves_params_run_with);
     - at the forward solution and parameters: jvp of the gradient linear and self-adjoint, CG returns a minimiser for every right-hand side;
     - t_dp k is the tangent of the value of slot k (b_At k, b_Bt k are transposed derivatives: JAX's part of the chain);
     - t_dU is the implicit-function tangent of the solution for these slot directions *)
  Definition step_ok (dth : Th) (dUprev : V) (bt : bstep * tstep) : Prop :=
    let b := fst bt in let t := snd bt in
    (b_state V P Th b = false -> exists q0, nth 2 (pf_of bt) None = Some q0)
    /\ (forall v, hyps (pf_of bt) (e_Uu V P (b_env V P Th b)) v)
    /\ (forall k c, ipP (t_dp t k) c = ipT dth (b_At V P Th b k c) + ipV dUprev (b_Bt V P Th b k c))
    /\ tot (pf_of bt) (b_env V P Th b) (expected_of b) (t_dp t) (t_dU t).

  Fixpoint hist_ok (dth : Th) (dU0 : V) (l : list (bstep * tstep)) : Prop :=
    match l with
    | [] => True
    | bt :: l' => step_ok dth (head_dU dU0 l') bt /\ hist_ok dth dU0 l'
    end.

  Fixpoint vsum (l : list (bstep * tstep)) : R :=
    match l with [] => 0 | bt :: l' => ipV (t_dU (snd bt)) (b_vout V P Th (fst bt)) + vsum l' end.

  Lemma ipV_vplus d a b : ipV d (vpl a b) = ipV d a + ipV d b.
  Proof. unfold vplus. rewrite ip_lin. lra. Qed.

  Lemma resolvable_state (e : renv V P) :
    resolvable V P objective_vjp_closures (e_psaved V P e) e expected_slots_with_state.
  Proof.
    destruct tables_facts as (_ & _ & _ & _ & Hfind). split.
    - intros k g Hi Hg.
      assert (Hk : In k [0; 1; 2; 4]%nat /\ g = k).
      { cbn in Hi. destruct Hi as [E|[E|[E|[E|[E|[]]]]]]; try discriminate; inversion E; subst; cbn; tauto. }
      destruct Hk as [Hk ->]. split; [|apply Hfind; exact Hk].
      unfold guard_present in Hg.
      assert (Hk99 : Nat.eqb k 99 = false) by (cbn in Hk; destruct Hk as [<-|[<-|[<-|[<-|[]]]]]; reflexivity).
      rewrite Hk99 in Hg. destruct (nth k (e_psaved V P e) None) as [q0|]; [exists q0; reflexivity|discriminate].
    - cbn. intros [E|[E|[E|[E|[E|[]]]]]]; discriminate.
  Qed.

  Lemma resolvable_design (e : renv V P) q0 : nth 2 (e_psaved V P e) None = Some q0 ->
    resolvable V P objective_vjp_closures (e_psaved V P e) e [SlotVJP 2 99].
  Proof.
    intros Hq. destruct tables_facts as (_ & _ & _ & _ & Hfind). split.
    - intros k g [E|[]] _. inversion E; subst. split; [|apply Hfind; cbn; tauto]. exists q0. exact Hq.
    - intros [E|[]]. discriminate.
  Qed.

  (* one step of the sweep *)
  Lemma back_step_adjoint (st : sstate) (dth : Th) (dUprev : V) (bt : bstep * tstep) :
    step_ok dth dUprev bt ->
    exists st', bstep_of st (fst bt) = Some st'
      /\ ipT dth (s_thbar V P Th st') + ipV dUprev (s_ubar V P Th st')
         = ipT dth (s_thbar V P Th st) + ipV (t_dU (snd bt)) (s_ubar V P Th st) + ipV (t_dU (snd bt)) (b_vout V P Th (fst bt)).
  Proof.
    destruct bt as [b t]. unfold step_ok. cbn [fst snd]. intros (Hdes & Hh & Hdp & Htan).
    destruct tables_facts as (Hcl & Hhv & Hrs & Hrd & Hfind).
    destruct reverse_rules_ok as (Hrule_d & Hrule_s & _).
    set (e := env_of V P Th vadd vscale st b).
    set (r := if b_state V P Th b then rule_nonlinear_solve_with_state_b else rule_nonlinear_solve_b).
    set (rk := if b_state V P Th b then restore_nonlinear_solve_with_state_b else restore_nonlinear_solve_b).
    set (pf := pf_of (b, t)) in *.
    assert (Hgd : forall g, guard_present V P (b_env V P Th b) g = guard_present V P e g) by (intros g; reflexivity).
    assert (Hpu : p_used V P rk e = pf
                  /\ revrule_ok r (expected_of b) = true /\ resolvable V P objective_vjp_closures pf e (expected_of b)).
    { unfold rk, r, pf, pf_of, p_fwd, expected_of in *. cbn [fst snd] in *. destruct (b_state V P Th b) eqn:Eb.
      - rewrite Hrs. cbn [p_used]. split; [reflexivity|]. split; [exact Hrule_s|].
        exact (resolvable_state e).
      - destruct (Hdes eq_refl) as (q0 & Hq). rewrite Hrd. cbn [p_used].
        split; [reflexivity|]. split; [exact Hrule_d|].
        exact (resolvable_design e q0 Hq). }
    destruct Hpu as (Hpu & Hrule & Hres).
    assert (Htan' : total_tangent V P ipV gradx jvp_at deriv pf e (expected_of b) (t_dp t) (t_dU t)).
    { intros w. rewrite <- (slot_sum_ext V P (b_env V P Th b) e _ _ Hgd). exact (Htan w). }
    destruct (rule_total V P vadd vscale ipV ipP gradx vjp_at jvp_at deriv cg vzero precond ip_sym ip_lin vjp_transpose
                objective_vjp_closures r rk (expected_of b) e pf (t_dp t) (t_dU t) Hrule Hcl Hpu (Hh _) Hres Htan')
      as (Hslots & H0 & Hw & Hpair).
    destruct (acc_sum P Th thadd (b_At V P Th b) (ipT dth) (ipT_add dth) _ _ (s_thbar V P Th st) Hw) as (th & Hth & Eth).
    destruct (acc_sum P V vpl (b_Bt V P Th b) (ipV dUprev) (ipV_vplus dUprev) _ _
                (fst (rule_out V P gradx vjp_at jvp_at cg vzero precond objective_vjp_closures r rk true e)) Hw) as (ub & Hub & Eub).
    exists {| s_pobj := p_used V P rk e; s_ubar := ub; s_thbar := th |}.
    split.
    { unfold back_step. fold e. fold r. fold rk. rewrite Hhv, Hslots, Hth, Hub. reflexivity. }
    cbn [s_thbar s_ubar]. rewrite Eth, Eub, H0, ip_zero.
    rewrite (wsum_add P (fun k c => ipT dth (b_At V P Th b k c)) (fun k c => ipV dUprev (b_Bt V P Th b k c)) _ Hdp) in Hpair.
    assert (Ev : ipV (e_v V P e) (t_dU t) = ipV (t_dU t) (b_vout V P Th b) + ipV (t_dU t) (s_ubar V P Th st)).
    { unfold e, env_of. cbn [e_v]. rewrite ip_sym, ipV_vplus. reflexivity. }
    lra.
  Qed.

  (* the sweep over the whole history: any mix of the two entry points, any objective.p at the start *)
  Theorem history_adjoint (dth : Th) (dU0 : V) : forall (l : list (bstep * tstep)) (st0 : sstate),
    hist_ok dth dU0 l ->
    exists st, sweep_of st0 (map fst l) = Some st
      /\ ipT dth (s_thbar V P Th st) + ipV dU0 (s_ubar V P Th st)
         = ipT dth (s_thbar V P Th st0) + ipV (head_dU dU0 l) (s_ubar V P Th st0) + vsum l.
  Proof.
    induction l as [|bt l IH]; intros st0 Hok.
    - exists st0. split; [reflexivity|cbn; lra].
    - destruct Hok as [Hs Hr].
      destruct (back_step_adjoint st0 dth (head_dU dU0 l) bt Hs) as (st1 & Hb & E1).
      destruct (IH st1 Hr) as (st & Hsw & E).
      exists st. split; [cbn [map sweep]; rewrite Hb; exact Hsw|].
      cbn [vsum head_dU]. lra.
  Qed.

  (* histories of nonlinear_solve_with_state (kept as a named special case) *)
  Theorem with_state_history_adjoint (dth : Th) (dU0 : V) (l : list (bstep * tstep)) (st0 : sstate) :
    Forall (fun bt => b_state V P Th (fst bt) = true) l -> hist_ok dth dU0 l ->
    exists st, sweep_of st0 (map fst l) = Some st
      /\ ipT dth (s_thbar V P Th st) + ipV dU0 (s_ubar V P Th st)
         = ipT dth (s_thbar V P Th st0) + ipV (head_dU dU0 l) (s_ubar V P Th st0) + vsum l.
  Proof. intros _ Hok. apply history_adjoint. exact Hok. Qed.

  (* histories of nonlinear_solve: NO hypothesis on objective.p (neither at the start of the sweep nor between the forward passes); every solve is asked
     what a with-state solve is asked, at the Params its forward rule saved *)
  Definition design_step_ok (dth : Th) (dUprev : V) (bt : bstep * tstep) : Prop :=
    b_state V P Th (fst bt) = false /\ (exists q0, nth 2 (pf_of bt) None = Some q0)
    /\ (forall v, hyps (pf_of bt) (e_Uu V P (b_env V P Th (fst bt))) v)
    /\ (forall k c, ipP (t_dp (snd bt) k) c = ipT dth (b_At V P Th (fst bt) k c) + ipV dUprev (b_Bt V P Th (fst bt) k c))
    /\ tot (pf_of bt) (b_env V P Th (fst bt)) (expected_of (fst bt)) (t_dp (snd bt)) (t_dU (snd bt)).
  Fixpoint design_hist_ok (dth : Th) (dU0 : V) (l : list (bstep * tstep)) : Prop :=
    match l with [] => True | bt :: l' => design_step_ok dth (head_dU dU0 l') bt /\ design_hist_ok dth dU0 l' end.

  Lemma design_hist_ok_hist_ok dth dU0 : forall l, design_hist_ok dth dU0 l -> hist_ok dth dU0 l.
  Proof.
    induction l as [|bt l IH]; intros Hd; [exact I|].
    destruct Hd as [(Hb & Hq & Hrest) Hd']. split; [|exact (IH Hd')].
    split; [intros _; exact Hq|exact Hrest].
  Qed.

  Theorem design_history_adjoint (dth : Th) (dU0 : V) (l : list (bstep * tstep)) (st0 : sstate) :
    design_hist_ok dth dU0 l ->
    exists st, sweep_of st0 (map fst l) = Some st
      /\ ipT dth (s_thbar V P Th st) + ipV dU0 (s_ubar V P Th st)
         = ipT dth (s_thbar V P Th st0) + ipV (head_dU dU0 l) (s_ubar V P Th st0) + vsum l.
  Proof. intros Hd. apply history_adjoint. exact (design_hist_ok_hist_ok dth dU0 l Hd). Qed.
End History.

(* ------------------------------------------------------------------ refutation of the rule shape BEFORE /repo 42a60d0 (RestoreSlot 2: the reverse rule
   re-established the design slot only; finding C07-DESIGN-RESTORE, fixed): load stepping through objective.p with nonlinear_solve.
   V = P = R, gradient x - bc * design (the design multiplies the load), Hessian 1.  The forward pass of the solve ran while objective.p held
   bc = 1; when its reverse rule runs objective.p holds bc = 2 (a later load step assigned it).  With RestoreSlot 2 the rule returns the cotangent for
   bc = 2: <v, u> = 1 but <dp, c> = 2 for the implicit-function tangent u at the forward parameters.  (With the extracted RestoreSaved: design_rule_ift.) *)
Definition r_gradx (x : R) (p : Par R) : R := x - slotv p 0 * slotv p 2.
Definition r_env : renv R R :=
  {| e_pcur := [Some 2; None; Some 5; None; None; None]; e_psaved := []; e_dsaved := 3; e_Uu := 0; e_v := 1;
     e_jV := 0; e_jop := fun z => z; e_jpre := fun z => z; e_rad := 0 |}.
Definition r_pobj : Par R := [Some 1; None; Some 0; None; None; None].

Lemma r_hyps : forall p x v, solve_hyps R R Rplus Rmult Rmult r_gradx i_jvp i_cg 0 p x v.
Proof.
  intros p x v. unfold solve_hyps, hess_op, i_jvp, r_gradx, i_cg, qmodel. cbn [fst]. repeat split; intros; try ring.
  replace (x + 1 - slotv p 0 * slotv p 2 - (x - slotv p 0 * slotv p 2)) with 1 by ring.
  assert (E : v * z + / 2 * (z * (1 * z)) - (v * (- v / (1 * 1)) + / 2 * (- v / (1 * 1) * (1 * (- v / (1 * 1))))) = / 2 * ((z + v) * (z + v))) by (field; lra).
  pose proof (Rle_0_sqr (z + v)) as Hs. unfold Rsqr in Hs. lra.
Qed.

Theorem design_rule_load_stepping_refuted :
  (forall a b : R, a * b = b * a)
  /\ (forall a b c t : R, a * (b + t * c) = a * b + t * (a * c))
  /\ (forall g q w dp, dp * i_vjp g q w = i_deriv g q dp * w)
  /\ (forall p x v, solve_hyps R R Rplus Rmult Rmult r_gradx i_jvp i_cg 0 p x v)
  /\ List.length r_pobj = 6%nat
  /\ (forall j, (j < 6)%nat -> j <> 0%nat -> j <> 2%nat -> nth j (e_pcur R R r_env) None = nth j r_pobj None)
  /\ let o := rule_out R R r_gradx i_vjp i_jvp i_cg 0 (fun z => z) objective_vjp_closures rule_nonlinear_solve_b (RestoreSlot 2)
                objective_hessian_vec_is_jvp_of_grad_x_at_self_p r_env in
     exists c dp u, snd o = [CotVal R c]
       /\ ift_tangent R R Rmult r_gradx i_jvp i_deriv (upd R r_pobj 2 (e_dsaved R R r_env)) (e_Uu R R r_env) 2 (e_dsaved R R r_env) dp u
       /\ e_v R R r_env * u <> dp * c.
Proof.
  assert (Hsym : forall a b : R, a * b = b * a) by (intros; ring).
  assert (Hlin : forall a b c t : R, a * (b + t * c) = a * b + t * (a * c)) by (intros; ring).
  assert (Hvjp : forall g q w dp, dp * i_vjp g q w = i_deriv g q dp * w) by (intros; unfold i_vjp, i_deriv; ring).
  split; [exact Hsym|]. split; [exact Hlin|]. split; [exact Hvjp|]. split; [exact r_hyps|]. split; [reflexivity|].
  split.
  { intros j Hj H0 H2. do 6 (destruct j as [|j]; [try reflexivity; congruence|]). lia. }
  intros o.
  destruct (design_rule_prefix_ift R R Rplus Rmult Rmult Rmult r_gradx i_vjp i_jvp i_deriv i_cg 0 (fun z => z) Hsym Hlin Hvjp
              r_env (e_pcur R R r_env) eq_refl (fun j _ _ => eq_refl) (r_hyps _ _ _)) as (_ & c & Hc & Hpair).
  (* at the parameters objective.p holds NOW the tangent for dp = 1 is u = 2, so c = 2 *)
  assert (Hc2 : 1 * 2 = 1 * c).
  { apply (Hpair 1 2). intros w. unfold hess_op, i_jvp, i_deriv, r_gradx, slotv, upd, piu_apply. cbn. ring. }
  exists c, 1, 1. split; [exact Hc|]. split.
  - intros w. unfold hess_op, i_jvp, i_deriv, r_gradx, slotv, upd, piu_apply. cbn. ring.
  - cbn [e_v r_env]. lra.
Qed.

(* ------------------------------------------------------------------ the hypotheses of the history theorems are jointly satisfiable: V = P = Th = R,
   gradient h x + j (p0 + p1 + p2 + p4) (proofs/L_C07_Rule.v), a two-solve history of nonlinear_solve_with_state whose second solve takes its
   state slot from the first solution (b_Bt 1 = s) and both take their boundary slot from theta (b_At 0 = a) *)
Section HistInstance.
  Variables h j a s : R.
  Hypothesis Hh : 0 < h.
  Definition hi_env (p : Par R) (x : R) : renv R R :=
    {| e_pcur := []; e_psaved := p; e_dsaved := 0; e_Uu := x; e_v := 0; e_jV := 0; e_jop := fun z => z; e_jpre := fun z => z; e_rad := 0 |}.
  Definition hi_par (b st : R) : Par R := [Some b; Some st; None; None; None; None].
  Definition hi_At (k : nat) (c : R) : R := if Nat.eqb k 0 then a * c else 0.
  Definition hi_Bt (k : nat) (c : R) : R := if Nat.eqb k 1 then s * c else 0.
  Definition hi_step (p : Par R) (x v : R) : bstep R R R := {| b_state := true; b_env := hi_env p x; b_vout := v; b_At := hi_At; b_Bt := hi_Bt |}.
  (* directions: slot 0 moves with theta (a dth), slot 1 with the previous tangent (s dUprev); tangent of the solution - j (dp0 + dp1) / h *)
  Definition hi_t (dth dUprev : R) : tstep R R :=
    {| t_dp := fun k => if Nat.eqb k 0 then a * dth else if Nat.eqb k 1 then s * dUprev else 0;
       t_dU := - (j * (a * dth + s * dUprev)) / h |}.

  Example history_nonvacuous (dth b1 s1 x1 v1 b2 s2 x2 v2 : R) :
    let t1 := hi_t dth 0 in let t2 := hi_t dth (t_dU R R t1) in
    hist_ok R R R Rplus Rmult Rmult Rmult Rmult (i_gradx h j) i_jvp i_deriv i_cg 0 dth 0
      [(hi_step (hi_par b2 s2) x2 v2, t2); (hi_step (hi_par b1 s1) x1 v1, t1)].
  Proof.
    intros t1 t2. destruct (instance_hyps h j Hh) as (_ & _ & _ & Hhyp).
    cbn [hist_ok]. split; [|split; [|exact I]].
    - unfold step_ok. cbn [fst snd head_dU]. split; [intros Hc; discriminate|]. split; [intros v; apply Hhyp|]. split.
      + intros k c. unfold t2, hi_t, hi_step, hi_At, hi_Bt. cbn [t_dp b_At b_Bt]. destruct k as [|[|k]]; cbn; ring.
      + intros w. unfold hess_op, i_jvp, i_gradx, slot_dir, i_deriv, slotv, upd, piu_apply. cbn. unfold t2, hi_t. cbn. field. lra.
    - unfold step_ok. cbn [fst snd head_dU]. split; [intros Hc; discriminate|]. split; [intros v; apply Hhyp|]. split.
      + intros k c. unfold t1, hi_t, hi_step, hi_At, hi_Bt. cbn [t_dp b_At b_Bt]. destruct k as [|[|k]]; cbn; ring.
      + intros w. unfold hess_op, i_jvp, i_gradx, slot_dir, i_deriv, slotv, upd, piu_apply. cbn. unfold t1, hi_t. cbn. field. lra.
  Qed.
End HistInstance.

(* ------------------------------------------------------------------ nonlinear_solve_with_state_b on the regenerated tables, all slots at once *)
Theorem with_state_rule_total (V P : Type) (vadd : V -> V -> V) (vscale : R -> V -> V) (ipV : V -> V -> R) (ipP : P -> P -> R)
    (gradx : V -> Par P -> V) (vjp_at : (P -> V) -> P -> V -> P) (jvp_at : (V -> V) -> V -> V -> V) (deriv : (P -> V) -> P -> P -> V)
    (cg : V -> V -> (V -> V) -> (V -> V) -> option R -> V * V) (vzero : V) (precond : V -> V) :
  (forall a b, ipV a b = ipV b a) ->
  (forall a b c t, ipV a (vadd b (vscale t c)) = ipV a b + t * ipV a c) ->
  (forall g q w dp, ipP dp (vjp_at g q w) = ipV (deriv g q dp) w) ->
  forall (e : renv V P) (dp : nat -> P) (dU : V),
  let o := rule_out V P gradx vjp_at jvp_at cg vzero precond objective_vjp_closures rule_nonlinear_solve_with_state_b
             restore_nonlinear_solve_with_state_b objective_hessian_vec_is_jvp_of_grad_x_at_self_p e in
  solve_hyps V P vadd vscale ipV gradx jvp_at cg vzero (e_psaved V P e) (e_Uu V P e) (e_v V P e) ->
  total_tangent V P ipV gradx jvp_at deriv (e_psaved V P e) e expected_slots_with_state dp dU ->
  ipV (e_v V P e) dU = wsum P (fun k c => ipP (dp k) c) expected_slots_with_state (snd o).
Proof.
  intros ip_sym ip_lin vjp_tr e dp dU o Hh Htan.
  destruct tables_facts as (Hcl & Hhv & Hrs & _ & _). destruct reverse_rules_ok as (_ & Hrule & _).
  assert (Hpu : p_used V P restore_nonlinear_solve_with_state_b e = e_psaved V P e) by (rewrite Hrs; reflexivity).
  destruct (rule_total V P vadd vscale ipV ipP gradx vjp_at jvp_at deriv cg vzero precond ip_sym ip_lin vjp_tr
              objective_vjp_closures rule_nonlinear_solve_with_state_b restore_nonlinear_solve_with_state_b expected_slots_with_state
              e (e_psaved V P e) dp dU Hrule Hcl Hpu Hh (resolvable_state V P gradx jvp_at cg vzero precond e) Htan) as (_ & _ & _ & Hpair).
  unfold o. rewrite Hhv. exact Hpair.
Qed.

(* ------------------------------------------------------------------ the forward passes of a history of nonlinear_solve keep slots 0,1,3,4,5 of objective.p:
   discharges, for histories made of nonlinear_solve only, the hypotheses of design_history_adjoint on t_pobj and on the start of the sweep *)
Definition fwd_tables_ok : bool :=
  match primal_params_nonlinear_solve with RestoreSlot 2 => true | _ => false end
  && match primal_params_nonlinear_solve_with_state with RestoreSaved => true | _ => false end
  && equation_solve_assigns_objective_p
  && match fwd_saves_nonlinear_solve with RestoreSlot 2 => true | _ => false end
  && match fwd_saves_nonlinear_solve_with_state with RestoreSaved => true | _ => false end.
Theorem fwd_tables_resolve : fwd_tables_ok = true.
Proof. vm_compute. reflexivity. Qed.

Lemma agree_off2_sym (P : Type) (p p' : Par P) : agree_off2 P p p' -> agree_off2 P p' p.
Proof. intros H j Hj Hn. symmetry. apply H; assumption. Qed.

Theorem fwd_design_invariant (V P : Type) (solve : V -> Par P -> V) (pobj0 : Par P) : List.length pobj0 = 6%nat ->
  forall (cs : list (V -> fcall P)) (pobj : Par P) (u : V),
  (forall c u', In c cs -> exists d, c u' = FDesign P d) -> List.length pobj = 6%nat -> agree_off2 P pobj pobj0 ->
  let res := fwd_run V P solve primal_params_nonlinear_solve primal_params_nonlinear_solve_with_state equation_solve_assigns_objective_p pobj u cs in
  List.length (snd res) = 6%nat /\ agree_off2 P (snd res) pobj0
  /\ forall pb p x, In (pb, p, x) (fst res) -> List.length pb = 6%nat /\ agree_off2 P pobj0 pb /\ exists d, p = upd P pb 2 d.
Proof.
  intros Hl0. pose proof fwd_tables_resolve as Ht. unfold fwd_tables_ok in Ht.
  repeat (match goal with H : _ && _ = true |- _ => apply andb_prop in H; destruct H end).
  assert (Hd : primal_params_nonlinear_solve = RestoreSlot 2)
    by (destruct primal_params_nonlinear_solve as [|k|]; try discriminate; do 3 (destruct k as [|k]; try discriminate); reflexivity).
  match goal with H : equation_solve_assigns_objective_p = true |- _ => rename H into Ha end.
  induction cs as [|c cs IH]; intros pobj u Hall Hl Hag.
  - cbn. split; [exact Hl|]. split; [exact Hag|]. intros ? ? ? [].
  - cbn [fwd_run]. destruct (Hall c u (or_introl eq_refl)) as [d Hc].
    unfold fwd_call. rewrite Hc. cbn [params_of]. rewrite Hd, Ha.
    specialize (IH (upd P pobj 2 d) (solve u (upd P pobj 2 d)) (fun c' u' Hi => Hall c' u' (or_intror Hi))
                  (upd_length P pobj 2 d Hl ltac:(lia)) (agree_off2_upd P pobj pobj0 d Hl Hag)).
    rewrite Hd, Ha in IH.
    destruct (fwd_run V P solve (RestoreSlot 2) primal_params_nonlinear_solve_with_state true (upd P pobj 2 d) (solve u (upd P pobj 2 d)) cs) as [rec pfin].
    cbn [fst snd] in *. destruct IH as (Hi1 & Hi2 & Hi3).
    split; [exact Hi1|]. split; [exact Hi2|].
    intros pb p x [E|Hi].
    + inversion E; subst. split; [exact Hl|]. split; [apply agree_off2_sym; exact Hag|]. exists d. reflexivity.
    + apply (Hi3 pb p x Hi).
Qed.

(* nonlinear_solve_with_state runs with exactly the Params it is given -- what its forward rule saves and its reverse rule restores *)
Theorem fwd_state_params (V P : Type) (solve : V -> Par P -> V) (pobj : Par P) (u : V) (p : Par P) :
  fwd_call V P solve primal_params_nonlinear_solve primal_params_nonlinear_solve_with_state equation_solve_assigns_objective_p pobj u (FState P p)
  = (p, solve u p, p).
Proof.
  pose proof fwd_tables_resolve as Ht. unfold fwd_tables_ok in Ht.
  repeat (match goal with H : _ && _ = true |- _ => apply andb_prop in H; destruct H end).
  unfold fwd_call. cbn [params_of].
  destruct primal_params_nonlinear_solve_with_state; try discriminate.
  match goal with H : equation_solve_assigns_objective_p = true |- _ => rewrite H end. reflexivity.
Qed.

(* ... and those of the design-history theorem: two nonlinear_solve calls whose saved Params are [b_i; st_i; d_i; -; -; -] (different loads), designs a * theta *)
Section DesignHistInstance.
  Variables h j a : R.
  Hypothesis Hh : 0 < h.
  Definition di_env (b st d x : R) : renv R R :=
    {| e_pcur := []; e_psaved := [Some b; Some st; Some d; None; None; None]; e_dsaved := d; e_Uu := x; e_v := 0;
       e_jV := 0; e_jop := fun z => z; e_jpre := fun z => z; e_rad := 0 |}.
  Definition di_step (b st d x v : R) : bstep R R R :=
    {| b_state := false; b_env := di_env b st d x; b_vout := v; b_At := fun k c => if Nat.eqb k 2 then a * c else 0; b_Bt := fun _ _ => 0 |}.
  Definition di_t (dth : R) : tstep R R :=
    {| t_dp := fun k => if Nat.eqb k 2 then a * dth else 0; t_dU := - (j * (a * dth)) / h |}.

  Example design_history_nonvacuous (dth b1 st1 d1 x1 v1 b2 st2 d2 x2 v2 : R) :
    design_hist_ok R R R Rplus Rmult Rmult Rmult Rmult (i_gradx h j) i_jvp i_deriv i_cg 0 dth 0
      [(di_step b2 st2 d2 x2 v2, di_t dth); (di_step b1 st1 d1 x1 v1, di_t dth)].
  Proof.
    destruct (instance_hyps h j Hh) as (_ & _ & _ & Hhyp).
    cbn [design_hist_ok]. split; [|split; [|exact I]].
    - unfold design_step_ok. cbn [fst snd head_dU]. split; [reflexivity|]. split; [exists d2; reflexivity|]. split; [intros v; apply Hhyp|]. split.
      + intros k c. unfold di_t, di_step. cbn [t_dp b_At b_Bt]. destruct (Nat.eqb k 2); ring.
      + intros w. unfold hess_op, i_jvp, i_gradx, slot_dir, i_deriv, slotv, upd, piu_apply. cbn. field. lra.
    - unfold design_step_ok. cbn [fst snd head_dU]. split; [reflexivity|]. split; [exists d1; reflexivity|]. split; [intros v; apply Hhyp|]. split.
      + intros k c. unfold di_t, di_step. cbn [t_dp b_At b_Bt]. destruct (Nat.eqb k 2); ring.
      + intros w. unfold hess_op, i_jvp, i_gradx, slot_dir, i_deriv, slotv, upd, piu_apply. cbn. field. lra.
  Qed.
End DesignHistInstance.

(* both forward rules save EXACTLY the parameters their solve ran with (for nonlinear_solve: objective.p with the design slot := the argument, rebuilt after
   the primal left objective.p = those very parameters), and for nonlinear_solve the saved Params carry the design -- what step_ok asks of a design step *)
Lemma upd_upd (P : Type) (p : Par P) k d d' : List.length p = 6%nat -> (k < 6)%nat -> upd P (upd P p k d) k d' = upd P p k d'.
Proof.
  intros Hl Hk. do 7 (destruct p as [|? p]; try discriminate).
  do 6 (destruct k as [|k]; [reflexivity|]). lia.
Qed.

Theorem fwd_rule_saves_params_run_with (V P : Type) (solve : V -> Par P -> V) (pobj : Par P) (u : V) (c : fcall P) : List.length pobj = 6%nat ->
  let '(pobj', x, p, saved) := fwd_rule V P solve primal_params_nonlinear_solve primal_params_nonlinear_solve_with_state equation_solve_assigns_objective_p
                                 fwd_saves_nonlinear_solve fwd_saves_nonlinear_solve_with_state pobj u c in
  saved = p /\ pobj' = p /\ x = solve u p
  /\ match c with FDesign _ d => p = upd P pobj 2 d /\ nth 2 saved None = Some d | FState _ q => p = q end.
Proof.
  intros Hl. pose proof fwd_tables_resolve as Ht. unfold fwd_tables_ok in Ht.
  repeat (match goal with H : _ && _ = true |- _ => apply andb_prop in H; destruct H end).
  assert (Hd : primal_params_nonlinear_solve = RestoreSlot 2)
    by (destruct primal_params_nonlinear_solve as [|k|]; try discriminate; do 3 (destruct k as [|k]; try discriminate); reflexivity).
  assert (Hf : fwd_saves_nonlinear_solve = RestoreSlot 2)
    by (destruct fwd_saves_nonlinear_solve as [|k|]; try discriminate; do 3 (destruct k as [|k]; try discriminate); reflexivity).
  assert (Hs : primal_params_nonlinear_solve_with_state = RestoreSaved) by (destruct primal_params_nonlinear_solve_with_state; try discriminate; reflexivity).
  assert (Hfs : fwd_saves_nonlinear_solve_with_state = RestoreSaved) by (destruct fwd_saves_nonlinear_solve_with_state; try discriminate; reflexivity).
  match goal with H : equation_solve_assigns_objective_p = true |- _ => rename H into Ha end.
  unfold fwd_rule, fwd_call, fwd_saved. rewrite Hd, Hf, Hs, Hfs, Ha. destruct c as [d|q]; cbn [params_of].
  - rewrite upd_upd by (try exact Hl; lia). split; [reflexivity|]. split; [reflexivity|]. split; [reflexivity|]. split; [reflexivity|].
    rewrite upd_get by (try exact Hl; lia). reflexivity.
  - split; [reflexivity|]. split; [reflexivity|]. split; reflexivity.
Qed.
