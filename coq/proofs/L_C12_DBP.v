(* C12 (round 4): invariants of the Denman-Beavers product iteration of LinAlg.sqrtm_dbp (model/M_C12_DBP.v, 3x3 real matrices).
   For the iterates (X_k, M_k) started at X_0 = M_0 = A, with ANY nonzero scale factors and as long as the scaled M_k stay
   invertible:  X_k^2 = A M_k  and  X_k M_k = M_k X_k;  hence  X_k^2 - A = A (M_k - I): the loop's exit test ||M_k - I||_F <= tol
   bounds the residual of the returned square root, and M = I is exactly "X is a square root of A".
   The proofs use only ring laws of matrices plus the two-sided inverse (generated TensorMath.inv, C12_inv_left/right). *)
From Coq Require Import Reals Lra List.
From OV.base Require Import Num.
From OV.gen Require Import Gen_TensorMath.
From OV.model Require Import M_C08 M_C12_DBP.
From OV.proofs Require Import L_C08 L_C12.
Import ListNotations.
Local Open Scope R_scope.
Notation M := (mat R).

Definition comm (A B : M) : Prop := mmul A B = mmul B A.
Lemma comm_sym A B : comm A B -> comm B A. Proof. unfold comm; intros H; symmetry; exact H. Qed.
Lemma comm_id A : comm A mid. Proof. unfold comm. rewrite mmul_id_l, mmul_id_r. reflexivity. Qed.
Lemma comm_add A B C : comm A B -> comm A C -> comm A (madd B C).
Proof. unfold comm; intros H1 H2. rewrite mmul_madd_l, mmul_madd_r, H1, H2. reflexivity. Qed.
Lemma comm_scal s A B : comm A B -> comm A (mscal s B).
Proof. unfold comm; intros H. rewrite mmul_mscal_l, mmul_mscal_r, H. reflexivity. Qed.
Lemma comm_mul A B C : comm A C -> comm B C -> comm (mmul A B) C.
Proof. unfold comm; intros H1 H2. rewrite mmul_assoc, H2, <- mmul_assoc, H1, mmul_assoc. reflexivity. Qed.
Lemma comm_scal_l s A B : comm A B -> comm (mscal s A) B.
Proof. intros H. apply comm_sym, comm_scal, comm_sym, H. Qed.
Lemma comm_inv A B N : comm A B -> mmul B N = mid -> mmul N B = mid -> comm A N.
Proof.
  unfold comm; intros H HBN HNB.
  rewrite <- (mmul_id_l (mmul A N)), <- HNB.
  rewrite (mmul_assoc N B), <- (mmul_assoc B A N), <- H, (mmul_assoc A B N), HBN, mmul_id_r. reflexivity.
Qed.

Lemma dbp_inv_is_tinv (A : M) : dbp_inv A = tinv A. Proof. reflexivity. Qed.

(* scaling keeps the invariants *)
Lemma dbp_scaled_inv (A X Mk : M) g : mmul X X = mmul A Mk -> comm X Mk ->
  let XM := dbp_scaled g (X, Mk) in mmul (fst XM) (fst XM) = mmul A (snd XM) /\ comm (fst XM) (snd XM).
Proof.
  intros H1 H2. cbn [dbp_scaled fst snd]. split.
  - rewrite mmul_mscal_l, mmul_mscal_r, H1, mmul_mscal_r. dm A; dm Mk. mat_eq.
  - apply comm_scal_l, comm_scal, H2.
Qed.

(* the core update keeps the invariants *)
Lemma dbp_core_inv (A X Mk : M) : mmul X X = mmul A Mk -> comm X Mk -> mdet Mk <> 0 ->
  let XM := dbp_core (X, Mk) in mmul (fst XM) (fst XM) = mmul A (snd XM) /\ comm (fst XM) (snd XM).
Proof.
  intros H1 H2 Hd. cbn [dbp_core fst snd]. rewrite dbp_inv_is_tinv. set (N := tinv Mk).
  assert (HMN : mmul Mk N = mid) by (apply inv_right; exact Hd).
  assert (HNM : mmul N Mk = mid) by (apply inv_left; exact Hd).
  assert (HXN : comm X N) by (apply (comm_inv X Mk N); assumption).
  assert (HMkN : comm Mk N) by (unfold comm; rewrite HMN, HNM; reflexivity).
  assert (HIN : comm X (madd mid N)) by (apply comm_add; [apply comm_id|exact HXN]).
  clearbody N. split.
  - (* X'^2 = 1/4 X (I+N) X (I+N) = 1/4 X X (I+N)(I+N) = 1/4 A M (I+N)(I+N) = 1/4 A (M + 2I + N) = A M' *)
    rewrite mmul_mscal_l, mmul_mscal_r.
    rewrite (mmul_assoc X (madd mid N)), <- (mmul_assoc (madd mid N) X), <- HIN.
    rewrite (mmul_assoc X (madd mid N)), <- (mmul_assoc X X), H1.
    rewrite (mmul_assoc A Mk).
    assert (E : mmul Mk (mmul (madd mid N) (madd mid N)) = madd (madd Mk (mscal 2 mid)) N).
    { rewrite <- mmul_assoc, (mmul_madd_r mid N Mk), mmul_id_r, HMN, mmul_madd_l, (mmul_madd_r mid N Mk), (mmul_madd_r mid N mid).
      rewrite !mmul_id_r, HMN, mmul_id_l.
      clear. dm Mk; dm N. mat_eq. }
    rewrite E.
    rewrite (mmul_mscal_r nhalf A), (mmul_madd_r mid _ A), mmul_id_r, (mmul_mscal_r nhalf A), (mmul_madd_r Mk N A).
    rewrite (mmul_madd_r _ N A), (mmul_madd_r Mk _ A), (mmul_mscal_r 2 A), mmul_id_r.
    clear. generalize (mmul A Mk) (mmul A N). intros P Q. dm A; dm P; dm Q. mnum. f_equal; field.
  - apply comm_scal_l, comm_scal. apply comm_mul.
    + apply comm_add; [apply comm_id|]. apply comm_scal, comm_add; [exact H2|exact HXN].
    + apply comm_sym. apply comm_add; [apply comm_id|]. apply comm_sym.
      apply comm_add; [apply comm_id|]. apply comm_scal, comm_add; [apply comm_sym, HMkN | unfold comm; reflexivity].
Qed.

(* invertibility along the path (the routine calls inv on the scaled M at every pass) *)
Fixpoint dbp_regular (gs : list R) (XM : M * M) : Prop :=
  match gs with [] => True | g :: gs' => mdet (snd (dbp_scaled g XM)) <> 0 /\ dbp_regular gs' (dbp_step g XM) end.

Theorem dbp_invariant (A : M) (gs : list R) : forall X Mk, mmul X X = mmul A Mk -> comm X Mk -> dbp_regular gs (X, Mk) ->
  let XM := dbp_iter gs (X, Mk) in mmul (fst XM) (fst XM) = mmul A (snd XM) /\ comm (fst XM) (snd XM).
Proof.
  induction gs as [|g gs IH]; intros X Mk H1 H2 Hr; cbn [dbp_iter].
  - split; assumption.
  - destruct Hr as [Hd Hr]. unfold dbp_step in *.
    destruct (dbp_scaled_inv A X Mk g H1 H2) as [S1 S2].
    destruct (dbp_scaled g (X, Mk)) as [Xs Ms] eqn:Es. cbn [fst snd] in *.
    destruct (dbp_core_inv A Xs Ms S1 S2 Hd) as [C1 C2].
    destruct (dbp_core (Xs, Ms)) as [X' M'] eqn:Ec. cbn [fst snd] in *.
    apply IH; assumption.
Qed.

(* from the routine's start X0 = M0 = A: the residual of the returned X is A (M - I) *)
Theorem dbp_residual (A : M) (gs : list R) : dbp_regular gs (A, A) ->
  let XM := dbp_iter gs (A, A) in
  msub (mmul (fst XM) (fst XM)) A = mmul A (msub (snd XM) mid) /\ (snd XM = mid -> mmul (fst XM) (fst XM) = A).
Proof.
  intros Hr. cbv zeta. destruct (dbp_invariant A gs A A eq_refl eq_refl Hr) as [H1 _].
  split.
  - rewrite H1, mmul_msub_r, mmul_id_r. reflexivity.
  - intros E. rewrite H1, E, mmul_id_r. reflexivity.
Qed.

(* non-vacuity: A = diag(4, 9, 16), one unscaled pass: X1 = diag(5/2, 5, 17/2) (one Newton step for the square roots 2, 3, 4) *)
Lemma dbp_nonvacuous : let A := mk 4 0 0 0 9 0 0 0 16 in
  dbp_regular [1] (A, A) /\ fst (dbp_iter [1] (A, A)) = mk (5 / 2) 0 0 0 5 0 0 0 (17 / 2).
Proof.
  cbv zeta. cbv [dbp_regular dbp_iter dbp_step dbp_core dbp_scaled dbp_inv fst snd]. mnum. cbv beta iota zeta delta [t_inv]. mnum.
  split; [split; [lra|exact I]|f_equal; field].
Qed.

(* ---------- LinAlg._logm_iss: the inverse scaling-and-squaring identity ---------- *)
(* X_0 = A, X_{i+1} = sqrtm(X_i); the routine returns 2^k * log_pade_pf(X_k - I).  For ANY function L obeying the doubling law
   L(X X) = 2 L(X) on a set `good` containing the iterates (the principal logarithm does, on matrices without eigenvalues on the
   closed negative axis), L(A) = 2^k L(X_k) whenever every X_{i+1} is a square root of X_i. *)
Section ISS.
  Variable Mx : Type.
  Variable mul : Mx -> Mx -> Mx.
  Variable scal : R -> Mx -> Mx.
  Variable L : Mx -> Mx.
  Variable good : Mx -> Prop.
  Hypothesis L_double : forall X, good X -> L (mul X X) = scal 2 (L X).
  Hypothesis scal_scal : forall s t X, scal s (scal t X) = scal (s * t) X.
  Hypothesis scal_one : forall X, scal 1 X = X.

  (* the square-root chain produced by the loop: each new iterate squares to the previous one *)
  Fixpoint sqrt_chain (A : Mx) (Xs : list Mx) : Prop :=
    match Xs with [] => True | X :: Xs' => mul X X = A /\ good X /\ sqrt_chain X Xs' end.
  Lemma last_cons_default (X : Mx) (Xs : list Mx) (d d' : Mx) : last (X :: Xs) d = last (X :: Xs) d'.
  Proof. revert X. induction Xs as [|Y Xs IH]; intros X; [reflexivity|]. change (last (Y :: Xs) d = last (Y :: Xs) d'). apply IH. Qed.
  Lemma last_shift (X : Mx) (Xs : list Mx) (A : Mx) : last (X :: Xs) A = last Xs X.
  Proof. destruct Xs as [|Y Xs]; [reflexivity|]. change (last (Y :: Xs) A = last (Y :: Xs) X). apply last_cons_default. Qed.
  Theorem iss_identity_abstract (Xs : list Mx) : forall A, sqrt_chain A Xs -> L A = scal (2 ^ length Xs) (L (last Xs A)).
  Proof.
    induction Xs as [|X Xs IH]; intros A Hc.
    - cbn. rewrite scal_one. reflexivity.
    - destruct Hc as (Hsq & Hg & Hc). rewrite <- Hsq, (L_double X Hg), (IH X Hc), scal_scal.
      rewrite last_shift.
      cbn [length pow]. reflexivity.
  Qed.
End ISS.

(* scalar instance (1x1 matrices): ln a = 2^k ln(a^(1/2^k)) along any chain of positive square roots *)
Theorem iss_identity_scalar (Xs : list R) (a : R) :
  sqrt_chain R Rmult (fun x => 0 < x) a Xs -> ln a = 2 ^ length Xs * ln (last Xs a).
Proof.
  intros Hc. apply (iss_identity_abstract R Rmult Rmult ln (fun x => 0 < x)); try assumption.
  - intros X HX. rewrite ln_mult by assumption. ring.
  - intros s t X. ring.
  - intros X. ring.
Qed.
Lemma iss_nonvacuous : sqrt_chain R Rmult (fun x => 0 < x) 16 [4; 2] /\ ln 16 = 2 ^ 2 * ln 2.
Proof.
  assert (H : sqrt_chain R Rmult (fun x => 0 < x) 16 [4; 2]) by (cbn; repeat split; lra).
  split; [exact H|]. exact (iss_identity_scalar [4; 2] 16 H).
Qed.
