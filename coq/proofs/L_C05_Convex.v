(* C05 -- the convex clause with a NON-ZERO tolerance: for a gradient that is strongly monotone (modulus mu) and Lipschitz (L)
   between the point x and the bound-constrained minimiser xs, the distance to the minimiser is bounded by the projected-gradient
   optimality measure: mu |x - xs| <= (1 + L) |P(x - g(x)) - x|.  With the flag theorem (success => measure < tol) this bounds
   the distance of every point returned with success from the constrained minimiser by (1 + L)/mu * tol. *)
From Coq Require Import Reals Lra Lia List QArith Psatz Bool.
From OV.base Require Import Num.
From OV.gen Require Import Gen_TrustRegionSPG.
From OV.model Require Import M_C06_Vec M_C06_CG M_C01_TR M_C05_SPG M_C05_Full.
From OV.proofs Require Import L_C06_Vec L_C01 L_C05 L_C05_Full.
Import ListNotations.
Local Open Scope R_scope.

(* variational inequality of the box projection: (v - P v).(y - P v) <= 0 for every y in the box *)
Lemma project_obtuse v y bs : wf_box bs -> length v = length bs -> in_box bs y ->
  rsub v (projectR v bs) ⋅ rsub y (projectR v bs) <= 0.
Proof.
  revert y bs; induction v as [|a v IH]; intros [|c y] [|b bs] W E H; simpl in E, H; try discriminate; try contradiction.
  - cbn. unfold_num. q2r. lra.
  - inversion W as [|? ? H3 H4]; subst. destruct H as [H1 H2].
    change (projectR (a :: v) (b :: bs)) with (clampR a b :: projectR v bs).
    change (rsub (a :: v) (clampR a b :: projectR v bs)) with ((a - clampR a b) :: rsub v (projectR v bs)).
    change (rsub (c :: y) (clampR a b :: projectR v bs)) with ((c - clampR a b) :: rsub y (projectR v bs)).
    rewrite rdot_cons. pose proof (clamp_obtuse a c b H3 H1). specialize (IH y bs H4 ltac:(congruence) H2). lra.
Qed.

(* componentwise identity: (x - gx - p).(xs - p) - gs.(p - xs) = r.r - r.e - dg.r + dg.e  with r = x - p, e = x - xs, dg = gx - gs *)
Lemma pg_identity n : forall x xs p gx gs : rvec, length x = n -> length xs = n -> length p = n -> length gx = n -> length gs = n ->
  rsub (rsub x gx) p ⋅ rsub xs p - gs ⋅ rsub p xs =
  rsub x p ⋅ rsub x p - rsub x p ⋅ rsub x xs - rsub gx gs ⋅ rsub x p + rsub gx gs ⋅ rsub x xs.
Proof.
  induction n as [|n IH]; intros [|a x] [|b xs] [|c p] [|d gx] [|e gs] E1 E2 E3 E4 E5; simpl in E1, E2, E3, E4, E5; try discriminate.
  - cbn. unfold_num. q2r. lra.
  - specialize (IH x xs p gx gs ltac:(lia) ltac:(lia) ltac:(lia) ltac:(lia) ltac:(lia)).
    unfold vsub in *. cbn [vmap2]. rewrite !rdot_cons. unfold_num. nra.
Qed.

Lemma rdot_rsub_swap n : forall a b : rvec, length a = n -> length b = n -> rsub a b ⋅ rsub a b = rsub b a ⋅ rsub b a.
Proof.
  induction n as [|n IH]; intros [|a0 a] [|b0 b] E1 E2; simpl in E1, E2; try discriminate; [reflexivity|].
  unfold vsub in *. cbn [vmap2]. rewrite !rdot_cons. unfold_num. rewrite (IH a b) by lia. lra.
Qed.

Theorem pg_small_near_minimizer bs (x xs gx gs : rvec) mu L :
  wf_box bs -> in_box bs x -> in_box bs xs -> length gx = length bs -> length gs = length bs ->
  0 < mu -> 0 <= L ->
  (forall y, in_box bs y -> 0 <= gs ⋅ rsub y xs) ->                        (* xs is the constrained minimiser (first-order condition) *)
  mu * (rsub x xs ⋅ rsub x xs) <= rsub gx gs ⋅ rsub x xs ->                (* strong monotonicity of the gradient between x and xs *)
  rsub gx gs ⋅ rsub gx gs <= L * L * (rsub x xs ⋅ rsub x xs) ->            (* Lipschitz gradient between x and xs *)
  mu * sqrt (rsub x xs ⋅ rsub x xs) <= (1 + L) * @optimality R NumR x gx bs.
Proof.
  intros W Hx Hs Eg Es Hmu HL Hopt Hmono Hlip.
  pose proof (in_box_length _ _ Hx) as Lx. pose proof (in_box_length _ _ Hs) as Ls.
  set (p := projectR (rsub x gx) bs).
  assert (Lv : length (rsub x gx) = length bs).
  { pose proof (len_rsub (length bs) x gx Lx Eg) as Q. exact Q. }
  assert (Hp : in_box bs p) by (apply project_in_box; assumption).
  pose proof (in_box_length _ _ Hp) as Lp.
  pose proof (project_obtuse (rsub x gx) xs bs W Lv Hs) as V1. fold p in V1.
  pose proof (Hopt p Hp) as V2.
  pose proof (pg_identity (length bs) x xs p gx gs Lx Ls Lp Eg Es) as Hid.
  assert (Lr : len (length bs) (rsub x p)) by (apply len_rsub; assumption).
  assert (Le : len (length bs) (rsub x xs)) by (apply len_rsub; assumption).
  assert (Ld : len (length bs) (rsub gx gs)) by (apply len_rsub; assumption).
  pose proof (rdot_cauchy_schwarz _ _ _ Lr Le) as CS1.
  pose proof (rdot_cauchy_schwarz _ _ _ Ld Lr) as CS2.
  (* the optimality measure is |p - x| = |x - p| *)
  assert (Hoptm : @optimality R NumR x gx bs = sqrt (rsub x p ⋅ rsub x p)).
  { unfold optimality, vnorm. fold p. unfold_num. f_equal. apply (rdot_rsub_swap (length bs)); assumption. }
  rewrite Hoptm.
  set (ee := rsub x xs ⋅ rsub x xs) in *. set (rr := rsub x p ⋅ rsub x p) in *.
  set (re := rsub x p ⋅ rsub x xs) in *. set (dd := rsub gx gs ⋅ rsub gx gs) in *.
  set (de := rsub gx gs ⋅ rsub x xs) in *. set (dr := rsub gx gs ⋅ rsub x p) in *.
  assert (Hee : 0 <= ee) by apply rdot_self_nonneg. assert (Hrr : 0 <= rr) by apply rdot_self_nonneg.
  assert (Hdd : 0 <= dd) by apply rdot_self_nonneg.
  assert (HA : de <= re + dr - rr) by lra.
  set (E := sqrt ee). set (Rn := sqrt rr).
  assert (HE : 0 <= E) by apply sqrt_pos. assert (HR : 0 <= Rn) by apply sqrt_pos.
  assert (HE2 : E * E = ee) by (apply sqrt_sqrt; exact Hee). assert (HR2 : Rn * Rn = rr) by (apply sqrt_sqrt; exact Hrr).
  assert (B1 : re <= Rn * E).
  { assert (0 <= Rn * E) by (apply Rmult_le_pos; assumption).
    destruct (Rle_dec re (Rn * E)) as [Q|Q]; [exact Q|]. exfalso.
    assert (Rn * E < re) by lra. assert ((Rn * E) * (Rn * E) < re * re) by nra.
    assert ((Rn * E) * (Rn * E) = rr * ee) by (rewrite <- HE2, <- HR2; ring). lra. }
  assert (B2 : dr <= L * E * Rn).
  { assert (0 <= L * E * Rn) by (apply Rmult_le_pos; [apply Rmult_le_pos|]; assumption).
    destruct (Rle_dec dr (L * E * Rn)) as [Q|Q]; [exact Q|]. exfalso.
    assert (L * E * Rn < dr) by lra. assert ((L * E * Rn) * (L * E * Rn) < dr * dr) by nra.
    assert ((L * E * Rn) * (L * E * Rn) = L * L * ee * rr) by (rewrite <- HE2, <- HR2; ring).
    assert (dd * rr <= L * L * ee * rr) by (apply Rmult_le_compat_r; assumption). lra. }
  assert (HM : mu * (E * E) <= (1 + L) * Rn * E) by (rewrite HE2; nra).
  destruct (Req_dec E 0) as [Z|NZ].
  - rewrite Z. assert (0 <= (1 + L) * Rn) by (apply Rmult_le_pos; lra). lra.
  - assert (0 < E) by lra. apply Rmult_le_reg_r with E; [assumption|]. nra.
Qed.

(* the complete solver model: a point returned with success is within (1 + L)/mu * tol of the bound-constrained minimiser *)
Theorem success_near_minimizer (value : rvec -> R) (grad : rvec -> rvec) (hessvec : rvec -> rvec -> rvec) (brent : nat -> R)
    (bs : list rbound) (S : settings R) (G : spg_settings R) :
  wf_box bs ->
  (forall x, length x = length bs -> length (grad x) = length bs) ->
  (forall x v, length x = length bs -> length v = length bs -> length (hessvec x v) = length bs) ->
  forall x0, in_box bs x0 ->
  forall xs mu L, in_box bs xs -> 0 < mu -> 0 <= L ->
  (forall y, in_box bs y -> 0 <= grad xs ⋅ rsub y xs) ->
  (forall x, in_box bs x -> mu * (rsub x xs ⋅ rsub x xs) <= rsub (grad x) (grad xs) ⋅ rsub x xs /\
                            rsub (grad x) (grad xs) ⋅ rsub (grad x) (grad xs) <= L * L * (rsub x xs ⋅ rsub x xs)) ->
  forall xr tr, @full_minimize R NumR value grad hessvec brent bs S G x0 = (Some (xr, true), tr) ->
  mu * sqrt (rsub xr xs ⋅ rsub xr xs) < (1 + L) * s_tol S.
Proof.
  intros W GL HL x0 Hx0 xs mu L Hs Hmu HLn Hopt Hreg xr tr E.
  pose proof (full_minimize_feasible value grad hessvec brent bs S G W GL HL x0 Hx0) as F.
  pose proof (full_minimize_flag value grad hessvec brent bs S G x0) as Fl.
  rewrite E in F, Fl. destruct F as (_ & F). specialize (F xr true eq_refl).
  destruct (Fl xr eq_refl) as (Ho & _).
  destruct (Hreg xr F) as (Hm & Hl).
  pose proof (pg_small_near_minimizer bs xr xs (grad xr) (grad xs) mu L W F Hs
                (GL xr (in_box_length _ _ F)) (GL xs (in_box_length _ _ Hs)) Hmu HLn Hopt Hm Hl) as H.
  eapply Rle_lt_trans; [exact H|]. apply Rmult_lt_compat_l; [lra|exact Ho].
Qed.

(* non-vacuity of the hypotheses of success_near_minimizer: f = x^2/2 on [0, +inf), minimiser 0, mu = L = 1 *)
Lemma example_convex_hypotheses :
  let b : list rbound := [(Some 0, None)] in let grad := (fun y : rvec => y) in
  in_box b [0] /\ 0 < 1 /\ 0 <= 1 /\
  (forall y, in_box b y -> 0 <= grad [0] ⋅ rsub y [0]) /\
  (forall x, in_box b x -> 1 * (rsub x [0] ⋅ rsub x [0]) <= rsub (grad x) (grad [0]) ⋅ rsub x [0] /\
                           rsub (grad x) (grad [0]) ⋅ rsub (grad x) (grad [0]) <= 1 * 1 * (rsub x [0] ⋅ rsub x [0])).
Proof.
  cbv zeta. split; [cbn; unfold in_bound, lb_ok, ub_ok; cbn; repeat split; lra|]. split; [lra|]. split; [lra|]. split.
  - intros [|y0 [|? ?]] H; cbn in H; try contradiction; destruct H as [H1 H2]; try contradiction. cbn. unfold_num. q2r. lra.
  - intros [|y0 [|? ?]] H; cbn in H; try contradiction; destruct H as [H1 H2]; try contradiction. cbn. unfold_num. q2r. split; nra.
Qed.
