(* C01 -- the driver nonlinear_equation_solve.
   (1) driver_is_closed_form: running the syntax tree of nonlinear_equation_solve extracted from /repo (gen/CFG_TR.v) with the
       interpreter of model/M_C01_Drv.v IS the hand-written closed form driver_hand, for every number type, every parameter
       type, all oracles, every solver, both values of useWarmStart / updatePrecond, with or without callback, every scaling,
       every state of the objective on entry.  Proof: symbolic execution of the interpreter on the extracted tree.
   (2) consequences: on every return objective.p is the requested p, the store precedes the (single) solver call, the solver
       runs with the oracles at the requested p, the warm start ran under the old p.
   (3) with the hand model of trust_region_minimize as the solver, over R: success => the gradient UNDER THE REQUESTED
       PARAMETERS at the returned (unscaled) point is below tol. *)
From Coq Require Import Reals ZArith List String Bool Lia Lra.
From OV.base Require Import Num.
From OV.model Require Import M_C06_Vec M_C06_CG M_C01_TR M_C01_CFG M_C01_Drv.
From OV.gen Require Import CFG_TR.
From OV.proofs Require Import L_C06_Vec L_C01.
Import ListNotations.
Open Scope string_scope.
Open Scope list_scope.

Section DrvTie.
  Context {T : Type} {NT : Num T} {P : Type}.
  Local Notation vec := (list T).
  Variable warm : P -> P -> vec -> vec -> P -> vec.
  Variable scaling invScaling : scal T.
  Variable solver : string -> fundef -> list (@val T) -> P -> P -> vec -> option (vec * bool * list (@rawev T) * vec).

  Notation Drun := (@drun_default T NT P warm scaling invScaling solver cfg_functions).
  Notation Dhand := (@driver_hand T NT P warm scaling invScaling solver "trust_region_minimize" cfg_trust_region_minimize).

  (* the callback argument: a callable or None *)
  Definition cb_val (has_cb : bool) : @dval T P := if has_cb then DCb else DNone.
  Definition cb_arg (has_cb : bool) : @val T := if has_cb then VCb else VNone.

  Lemma driver_is_closed_form F0 x0 p has_cb uw up par pcp xp :
    dresult_of (Drun (20 + F0) cfg_nonlinear_equation_solve x0 p (cb_val has_cb) uw up par pcp xp)
    = Dhand x0 p (cb_arg has_cb) uw up par pcp xp.
  Proof.
    destruct has_cb, uw, up, scaling, invScaling; vm_compute;
      match goal with |- context [solver ?a ?b ?c ?d ?e ?f] => destruct (solver a b c d e f) as [[[[? ?] ?] ?]|] end; reflexivity.
  Qed.

  (* what every returning run of the driver looks like: objective.p is the requested p afterwards; before the store only
     update_precond under the OLD parameters happened (and the warm start, a pure oracle of the old state); the store precedes
     the optional preconditioner rebuild (under the NEW parameters) and the single solver call, which runs under the requested p
     and whose flag and point (unscaled) are what the driver returns *)
  Lemma driver_installs_parameters F0 x0 p has_cb uw up par pcp xp x f par' pcp' xp' tr :
    dresult_of (Drun (20 + F0) cfg_nonlinear_equation_solve x0 p (cb_val has_cb) uw up par pcp xp) = Some (x, f, par', pcp', xp', tr) ->
    par' = p /\
    exists pre pcp2 xp2 xb1 xs ev,
      tr = pre ++ [DSetP p] ++ (if up then [DUpdatePrecond p xb1] else []) ++
           [DSolve "trust_region_minimize" p pcp2 xp2 [VObj; VV xb1; VSet; cb_arg has_cb] xs f ev] /\
      (forall e, In e pre -> exists y, e = DUpdatePrecond par y) /\
      pcp2 = (if up then p else if uw then pcp else pcp) /\
      x = smul invScaling xs /\
      solver "trust_region_minimize" cfg_trust_region_minimize [VObj; VV xb1; VSet; cb_arg has_cb] p pcp2 xp2 = Some (xs, f, ev, xp').
  Proof.
    rewrite driver_is_closed_form. unfold driver_hand.
    destruct uw, up; cbn [andb];
      match goal with |- context [solver ?a ?b ?c ?d ?e ?g] => destruct (solver a b c d e g) as [[[[xs fl] ev] xp3]|] eqn:Hs end;
      try discriminate; intros H; injection H as <- <- <- <- <- <-; (split; [reflexivity|]).
    - exists [DUpdatePrecond par (smul scaling x0)]. do 5 eexists. split; [cbn [app]; reflexivity|].
      split; [|split; [reflexivity|split; [reflexivity|exact Hs]]]. intros e [<-|[]]. eexists; reflexivity.
    - exists []. do 5 eexists. split; [cbn [app]; reflexivity|]. split; [|split; [reflexivity|split; [reflexivity|exact Hs]]]. intros e [].
    - exists []. do 5 eexists. split; [cbn [app]; reflexivity|]. split; [|split; [reflexivity|split; [reflexivity|exact Hs]]]. intros e [].
    - exists []. do 5 eexists. split; [cbn [app]; reflexivity|]. split; [|split; [reflexivity|split; [reflexivity|exact Hs]]]. intros e [].
  Qed.
End DrvTie.

(* ---- with the hand model of trust_region_minimize as the solver, over R *)
Section DrvR.
  Local Open Scope R_scope.
  Variable P : Type.
  Variable value : P -> rvec -> R.
  Variable grad : P -> rvec -> rvec.
  Variable hessvec : P -> rvec -> rvec -> rvec.
  Variable precond mult_approx : P -> P -> rvec -> rvec -> rvec.
  Variable warm : P -> P -> rvec -> rvec -> P -> rvec.
  Variable scaling invScaling : scal R.
  Variable S : settings R.
  Variable chk : bool.
  Variable fuel : nat.

  Notation solverH := (@solver_hand R NumR P value grad hessvec precond mult_approx S chk fuel).

  Theorem driver_success_small_gradient F0 x0 p has_cb uw up par pcp xp x par' pcp' xp' tr :
    dresult_of (@drun_default R NumR P warm scaling invScaling solverH cfg_functions (20 + F0) cfg_nonlinear_equation_solve
                  x0 p (cb_val has_cb) uw up par pcp xp) = Some (x, true, par', pcp', xp', tr) ->
    par' = p /\ exists xBar, x = smul invScaling xBar /\ grad p xBar ⋅ grad p xBar < @tol2 R NumR S.
  Proof.
    intros H. apply driver_installs_parameters in H. destruct H as (Hp & pre & pcp2 & xp2 & xb1 & xs & ev & _ & _ & _ & Hx & Hs).
    split; [exact Hp|]. exists xs. split; [exact Hx|].
    unfold solver_hand in Hs. cbn [String.eqb Ascii.eqb Bool.eqb] in Hs.
    pose proof (trm_spec (value p) (grad p) (hessvec p) (precond pcp2 p) (mult_approx pcp2 p) S fuel xb1 xp2) as Ht.
    destruct has_cb; cbn [cb_arg] in Hs;
      destruct (@trust_region_minimize R NumR (value p) (grad p) (hessvec p) (precond pcp2 p) (mult_approx pcp2 p) S fuel xb1 xp2) as [[xr flag] tr0];
      destruct (existsb is_fuel tr0); try discriminate; injection Hs as Hxr Hfl _ _; subst xr flag;
      destruct Ht as (_ & _ & Ht & _); apply Ht; reflexivity.
  Qed.
End DrvR.

(* the hypothesis of driver_success_small_gradient is satisfiable (a run that converges at the initial test) *)
Example driver_success_nonvacuous :
  exists x tr, dresult_of (@drun_default R NumR unit (fun _ _ _ _ _ => []) (ScS 1%R) (ScS 1%R)
     (@solver_hand R NumR unit (fun _ _ => 0%R) (fun _ _ => []) (fun _ _ _ => []) (fun _ _ _ v => v) (fun _ _ _ v => v) default_settings_R false 15)
     cfg_functions (20 + 0) cfg_nonlinear_equation_solve [] tt (cb_val true) false false tt tt []) = Some (x, true, tt, tt, [], tr).
Proof.
  eexists. eexists. rewrite driver_is_closed_form. unfold driver_hand, solver_hand, trust_region_minimize.
  cbn [String.eqb Ascii.eqb Bool.eqb cb_arg smul vscale map andb].
  assert (E : ([] ⋅ [] <? @tol2 R NumR default_settings_R)%num = true).
  { unfold tol2. unfold_num. cbn. apply Rltb_true. lra. }
  rewrite E. cbn. reflexivity.
Qed.
