(* C13 -- combine_mesh (repaired, 157ff14): offsets, ranges, and no member is lost whatever the names *)
From Coq Require Import List Arith ZArith Bool Lia.
From OV.base Require Import Num.
From OV.model Require Import M_C13_Struct M_C13_Combine.
Import ListNotations.

Lemma dset_fresh {V} (d : dict V) k v : ~ In k (map fst d) -> dset d k v = d ++ [(k, v)].
Proof.
  induction d as [| [k' v'] d IH]; intros H; [reflexivity |]. cbn [dset]. cbn [map fst In] in H.
  destruct (Z.eqb_spec k k') as [-> | _]; [tauto |]. rewrite IH by tauto. reflexivity.
Qed.

Lemma nodup_app_l {A} (l l' : list A) : NoDup (l ++ l') -> NoDup l.
Proof.
  induction l as [| x l IH]; intros H; [constructor |]. cbn [app] in H. inversion H as [| ? ? Hn Hd]; subst.
  constructor; [intros Hin; apply Hn; apply in_or_app; now left | now apply IH].
Qed.

Lemma fold_dset_fresh {V} (g : Z * V -> V) : forall (s acc : dict V),
  NoDup (map fst acc ++ map fst s) ->
  fold_left (fun d kv => dset d (fst kv) (g kv)) s acc = acc ++ map (fun kv => (fst kv, g kv)) s.
Proof.
  induction s as [| [k v] s IH]; intros acc H; cbn [fold_left map]; [now rewrite app_nil_r |].
  cbn [map fst] in H. assert (Hk : ~ In k (map fst acc)).
  { apply NoDup_remove_2 in H. intros Hin. apply H. apply in_or_app. now left. }
  cbn [fst]. rewrite dset_fresh by exact Hk. rewrite IH.
  - rewrite <- app_assoc. reflexivity.
  - rewrite map_app. cbn [map fst]. rewrite <- app_assoc. cbn [app]. exact H.
Qed.

Lemma first_loop {V} (s1 : dict V) : NoDup (map fst s1) -> fold_left (fun d kv => dset d (fst kv) (snd kv)) s1 [] = s1.
Proof.
  intros H. rewrite (fold_dset_fresh (fun kv => snd kv) s1 []) by exact H. cbn [app].
  rewrite <- (map_id s1) at 2. apply map_ext. now intros [].
Qed.

(* ---- dupd *)
Lemma dget_dupd_same {V} (d : dict V) k upd fresh :
  dget (dupd d k upd fresh) k = Some (match dget d k with Some old => upd old | None => fresh end).
Proof.
  induction d as [| [k' v'] d IH]; cbn [dupd dget]; [now rewrite Z.eqb_refl |].
  destruct (Z.eqb_spec k k') as [-> | Hn]; cbn [dget]; [now rewrite Z.eqb_refl |].
  destruct (Z.eqb_spec k k'); [contradiction | exact IH].
Qed.
Lemma dget_dupd_other {V} (d : dict V) k k' upd fresh : k' <> k -> dget (dupd d k upd fresh) k' = dget d k'.
Proof.
  intros Hn. induction d as [| [k0 v0] d IH]; cbn [dupd dget].
  - destruct (Z.eqb_spec k' k); [contradiction | reflexivity].
  - destruct (Z.eqb_spec k k0) as [-> | Hk]; cbn [dget].
    + destruct (Z.eqb_spec k' k0); [contradiction | reflexivity].
    + destruct (Z.eqb_spec k' k0); [reflexivity | exact IH].
Qed.
Lemma dupd_fresh {V} (d : dict V) k upd fresh : ~ In k (map fst d) -> dupd d k upd fresh = d ++ [(k, fresh)].
Proof.
  induction d as [| [k' v'] d IH]; intros H; [reflexivity |]. cbn [dupd]. cbn [map fst In] in H.
  destruct (Z.eqb_spec k k') as [-> | _]; [tauto |]. rewrite IH by tauto. reflexivity.
Qed.
Lemma members_dupd {A} (d : dict (list A)) k upd fresh n :
  length fresh = n -> (forall old, length (upd old) = length old + n) -> members (dupd d k upd fresh) = members d + n.
Proof.
  intros Hf Hu. unfold members. induction d as [| [k' v'] d IH]; cbn [dupd map list_sum fold_right snd]; [lia |].
  destruct (Z.eqb k k'); cbn [map list_sum fold_right snd].
  - rewrite Hu. fold (list_sum (map (fun kv : Z * list A => length (snd kv)) d)). lia.
  - fold (list_sum (map (fun kv : Z * list A => length (snd kv)) (dupd d k upd fresh))).
    fold (list_sum (map (fun kv : Z * list A => length (snd kv)) d)). lia.
Qed.
Lemma Forall_dupd {A} (P : list A -> Prop) (d : dict (list A)) k upd fresh :
  Forall (fun kv => P (snd kv)) d -> P fresh -> (forall old, P old -> P (upd old)) -> Forall (fun kv => P (snd kv)) (dupd d k upd fresh).
Proof.
  intros H Hf Hu. induction H as [| [k' v'] d Hx Hd IH]; cbn [dupd]; [repeat constructor; exact Hf |].
  cbn [snd] in Hx. destruct (Z.eqb k k'); constructor; cbn [snd]; auto.
Qed.
Lemma dget_in {V} (d : dict V) k v : NoDup (map fst d) -> In (k, v) d -> dget d k = Some v.
Proof.
  induction d as [| [k' v'] d IH]; intros Hn Hin; [destruct Hin |]. cbn [map fst] in Hn. inversion Hn as [| ? ? Hnin Hn']; subst.
  cbn [dget]. destruct Hin as [E | Hin].
  - inversion E; subst. now rewrite Z.eqb_refl.
  - destruct (Z.eqb_spec k k') as [-> | _]; [| now apply IH]. exfalso. apply Hnin. apply in_map_iff. now exists (k', v).
Qed.

Lemma members_nil {A} : members (@nil (Z * list A)) = 0.
Proof. reflexivity. Qed.
Lemma members_cons {A} k (v : list A) d : members ((k, v) :: d) = length v + members d.
Proof. reflexivity. Qed.

(* ---- the second loop, for any merge function that behaves as concatenation *)
Section Loop.
  Context {A : Type} (mrg : list A -> list A -> list A) (g : list A -> list A).
  Hypothesis mrg_app : forall old val, mrg old val = old ++ val.
  Let step := fun (d : dict (list A)) (kv : Z * list A) => dupd d (fst kv) (fun old => mrg old (g (snd kv))) (g (snd kv)).

  Lemma loop_keeps : forall s2 d k v, dget d k = Some v ->
    exists v', dget (fold_left step s2 d) k = Some v' /\ forall x, In x v -> In x v'.
  Proof.
    induction s2 as [| [k2 v2] s2 IH]; intros d k v H; cbn [fold_left]; [exists v; auto |].
    destruct (Z.eq_dec k k2) as [-> | Hn].
    - destruct (IH (step d (k2, v2)) k2 (v ++ g v2)) as [v' [E Hsub]].
      { unfold step. cbn [fst snd]. rewrite dget_dupd_same, H, mrg_app. reflexivity. }
      exists v'. split; [exact E |]. intros x Hx. apply Hsub. apply in_or_app. now left.
    - apply IH. unfold step. cbn [fst snd]. now rewrite dget_dupd_other.
  Qed.

  Lemma loop_adds : forall s2 d k v, In (k, v) s2 ->
    exists v', dget (fold_left step s2 d) k = Some v' /\ forall x, In x (g v) -> In x v'.
  Proof.
    induction s2 as [| [k2 v2] s2 IH]; intros d k v Hin; [destruct Hin |]. cbn [fold_left]. destruct Hin as [E | Hin].
    - inversion E; subst. set (now := match dget d k with Some old => old ++ g v | None => g v end).
      destruct (loop_keeps s2 (step d (k, v)) k now) as [v' [E' Hsub]].
      { unfold step, now. cbn [fst snd]. rewrite dget_dupd_same. destruct (dget d k); [now rewrite mrg_app | reflexivity]. }
      exists v'. split; [exact E' |]. intros x Hx. apply Hsub. unfold now. destruct (dget d k); [apply in_or_app; now right | exact Hx].
    - now apply IH.
  Qed.

  Lemma loop_members : (forall v, length (g v) = length v) ->
    forall s2 d, members (fold_left step s2 d) = members d + members s2.
  Proof.
    intros Hg. induction s2 as [| [k2 v2] s2 IH]; intros d; cbn [fold_left]; [rewrite members_nil; lia |].
    rewrite IH. unfold step. cbn [fst snd]. rewrite (members_dupd d k2 _ _ (length v2)).
    - rewrite members_cons. lia.
    - apply Hg.
    - intros old. now rewrite mrg_app, app_length, Hg.
  Qed.

  Lemma loop_Forall (P Q : A -> Prop) : (forall v, Forall Q v -> Forall P (g v)) ->
    forall s2 d, Forall (fun kv => Forall P (snd kv)) d -> Forall (fun kv => Forall Q (snd kv)) s2 ->
    Forall (fun kv => Forall P (snd kv)) (fold_left step s2 d).
  Proof.
    intros Hg. induction s2 as [| [k2 v2] s2 IH]; intros d Hd Hs; cbn [fold_left]; [exact Hd |].
    inversion Hs as [| ? ? Hv Hs']; subst. cbn [snd] in Hv. apply IH; [| exact Hs'].
    unfold step. cbn [fst snd]. apply Forall_dupd; [exact Hd | now apply Hg |].
    intros old Ho. rewrite mrg_app. apply Forall_app. split; [exact Ho | now apply Hg].
  Qed.

  (* distinct names: the exact shape *)
  Lemma loop_fresh : forall s2 d, NoDup (map fst d ++ map fst s2) ->
    fold_left step s2 d = d ++ map (fun kv => (fst kv, g (snd kv))) s2.
  Proof.
    induction s2 as [| [k v] s2 IH]; intros d H; cbn [fold_left map]; [now rewrite app_nil_r |].
    cbn [map fst] in H. assert (Hk : ~ In k (map fst d)).
    { apply NoDup_remove_2 in H. intros Hin. apply H. apply in_or_app. now left. }
    unfold step at 2. cbn [fst snd]. rewrite dupd_fresh by exact Hk. rewrite IH.
    - rewrite <- app_assoc. reflexivity.
    - rewrite map_app. cbn [map fst]. rewrite <- app_assoc. cbn [app]. exact H.
  Qed.
End Loop.

Lemma merge_cat_app {A} (old val : list A) : merge_cat old val = old ++ val.
Proof. reflexivity. Qed.
Lemma merge_sides_app {A} (old val : list A) : merge_sides old val = old ++ val.
Proof. destruct old, val; cbn [merge_sides app]; try reflexivity. now rewrite app_nil_r. Qed.

(* NO member is lost, whatever the names: every member of a first-mesh set and every (shifted) member of a second-mesh set
   is found under its name in the merged dict, and the total number of members is the sum *)
Lemma combine_dicts_no_loss {A} (mrg : list A -> list A -> list A) (g : list A -> list A) (s1 s2 : dict (list A)) :
  (forall old val, mrg old val = old ++ val) -> NoDup (map fst s1) ->
  (forall k v, In (k, v) s1 -> exists v', dget (combine_dicts mrg g s1 s2) k = Some v' /\ forall x, In x v -> In x v')
  /\ (forall k v, In (k, v) s2 -> exists v', dget (combine_dicts mrg g s1 s2) k = Some v' /\ forall x, In x (g v) -> In x v')
  /\ ((forall v, length (g v) = length v) -> members (combine_dicts mrg g s1 s2) = members s1 + members s2).
Proof.
  intros Hm Hn. unfold combine_dicts. rewrite (first_loop s1 Hn). split; [| split].
  - intros k v Hin. apply (loop_keeps mrg g Hm). now apply dget_in.
  - intros k v Hin. now apply (loop_adds mrg g Hm).
  - intros Hg. now apply (loop_members mrg g Hm).
Qed.

Lemma combine_dicts_distinct {A} (mrg : list A -> list A -> list A) (g : list A -> list A) (s1 s2 : dict (list A)) :
  NoDup (map fst s1 ++ map fst s2) -> combine_dicts mrg g s1 s2 = s1 ++ map (fun kv => (fst kv, g (snd kv))) s2.
Proof.
  intros H. unfold combine_dicts. rewrite (first_loop s1) by (now apply nodup_app_l in H). now apply loop_fresh.
Qed.

Lemma combine_dicts_Forall {A} (mrg : list A -> list A -> list A) (g : list A -> list A) (P Q : A -> Prop) (s1 s2 : dict (list A)) :
  (forall old val, mrg old val = old ++ val) -> NoDup (map fst s1) -> (forall v, Forall Q v -> Forall P (g v)) ->
  Forall (fun kv => Forall P (snd kv)) s1 -> Forall (fun kv => Forall Q (snd kv)) s2 ->
  Forall (fun kv => Forall P (snd kv)) (combine_dicts mrg g s1 s2).
Proof.
  intros Hm Hn Hg H1 H2. unfold combine_dicts. rewrite (first_loop s1 Hn). now apply (loop_Forall mrg g Hm P Q).
Qed.

Lemma shift_length off v : length (shift off v) = length v.
Proof. apply map_length. Qed.
Lemma shift_sides_length off v : length (shift_sides off v) = length v.
Proof. apply map_length. Qed.

Section Mesh.
  Context {T : Type}.
  Variables m1 m2 : cmesh T.
  Let n1 := length (cm_coords m1).
  Let n2 := length (cm_coords m2).

  Lemma combine_counts :
    length (cm_coords (combine_mesh m1 m2)) = n1 + n2
    /\ length (cm_conns (combine_mesh m1 m2)) = length (cm_conns m1) + length (cm_conns m2).
  Proof. unfold combine_mesh. cbn [cm_coords cm_conns]. now rewrite !app_length, map_length. Qed.

  Lemma combine_conns_form :
    cm_conns (combine_mesh m1 m2) = cm_conns m1 ++ map (map (Nat.add n1)) (cm_conns m2).
  Proof. reflexivity. Qed.

  Lemma combine_in_range :
    Forall (Forall (fun i => i < n1)) (cm_conns m1) -> Forall (Forall (fun i => i < n2)) (cm_conns m2) ->
    Forall (Forall (fun i => i < n1 + n2)) (cm_conns (combine_mesh m1 m2)).
  Proof.
    intros H1 H2. unfold combine_mesh. cbn [cm_conns]. apply Forall_app. split.
    - eapply Forall_impl; [| exact H1]. intros t Ht. eapply Forall_impl; [| exact Ht]. cbn beta. intros; lia.
    - apply Forall_forall. intros t Ht. apply in_map_iff in Ht. destruct Ht as [t' [<- Ht']].
      rewrite Forall_forall in H2. specialize (H2 _ Ht'). unfold shift. apply Forall_forall. intros i Hi.
      apply in_map_iff in Hi. destruct Hi as [i' [<- Hi']]. rewrite Forall_forall in H2. specialize (H2 _ Hi'). fold n1. lia.
  Qed.

  Lemma combine_every_node_used :
    (forall n, n < n1 -> exists t, In t (cm_conns m1) /\ In n t) ->
    (forall n, n < n2 -> exists t, In t (cm_conns m2) /\ In n t) ->
    forall n, n < n1 + n2 -> exists t, In t (cm_conns (combine_mesh m1 m2)) /\ In n t.
  Proof.
    intros H1 H2 n Hn. unfold combine_mesh. cbn [cm_conns]. destruct (Nat.lt_ge_cases n n1) as [Hl | Hg].
    - destruct (H1 n Hl) as [t [Ht Hi]]. exists t. split; [apply in_or_app; now left | exact Hi].
    - destruct (H2 (n - n1) ltac:(lia)) as [t [Ht Hi]]. exists (shift n1 t). split.
      + apply in_or_app. right. now apply in_map.
      + unfold shift. replace n with (n1 + (n - n1)) by (fold n1; lia). now apply in_map.
  Qed.

  (* geometry is untouched: first-mesh elements see their own coordinates, shifted second-mesh elements see theirs *)
  Context {NT : Num T}.
  Lemma combine_area_first t : Forall (fun i => i < n1) t ->
    tri_area2 (cm_coords (combine_mesh m1 m2)) t = tri_area2 (cm_coords m1) t.
  Proof.
    intros H. unfold combine_mesh. cbn [cm_coords]. destruct t as [| i [| j [| k [| ? ?]]]]; try reflexivity.
    inversion H as [| ? ? Hi H']; subst. inversion H' as [| ? ? Hj H'']; subst. inversion H'' as [| ? ? Hk _]; subst.
    unfold tri_area2. now rewrite !nth_error_app1 by assumption.
  Qed.
  Lemma combine_area_second t :
    tri_area2 (cm_coords (combine_mesh m1 m2)) (shift n1 t) = tri_area2 (cm_coords m2) t.
  Proof.
    unfold combine_mesh. cbn [cm_coords]. destruct t as [| i [| j [| k [| ? ?]]]]; try reflexivity.
    unfold tri_area2, shift. cbn [map]. rewrite !nth_error_app2 by (fold n1; lia). fold n1.
    now replace (n1 + i - n1) with i by lia; replace (n1 + j - n1) with j by lia; replace (n1 + k - n1) with k by lia.
  Qed.

  (* sets, ANY names: nothing is lost, members stay in range *)
  Lemma combine_blocks_no_loss : NoDup (map fst (cm_blocks m1)) ->
    (forall k v, In (k, v) (cm_blocks m1) -> exists v', dget (cm_blocks (combine_mesh m1 m2)) k = Some v' /\ forall e, In e v -> In e v')
    /\ (forall k v, In (k, v) (cm_blocks m2) ->
          exists v', dget (cm_blocks (combine_mesh m1 m2)) k = Some v' /\ forall e, In e v -> In (length (cm_conns m1) + e) v')
    /\ members (cm_blocks (combine_mesh m1 m2)) = members (cm_blocks m1) + members (cm_blocks m2).
  Proof.
    intros Hn. unfold combine_mesh. cbn [cm_blocks]. unfold combine_blocks.
    destruct (combine_dicts_no_loss merge_cat (shift (length (cm_conns m1))) (cm_blocks m1) (cm_blocks m2) merge_cat_app Hn) as (H1 & H2 & H3).
    split; [exact H1 |]. split; [| apply H3, shift_length].
    intros k v Hin. destruct (H2 k v Hin) as [v' [E Hs]]. exists v'. split; [exact E |]. intros e He. apply Hs. unfold shift. now apply in_map.
  Qed.

  Lemma combine_blocks_in_range : NoDup (map fst (cm_blocks m1)) ->
    Forall (fun kv => Forall (fun e => e < length (cm_conns m1)) (snd kv)) (cm_blocks m1) ->
    Forall (fun kv => Forall (fun e => e < length (cm_conns m2)) (snd kv)) (cm_blocks m2) ->
    Forall (fun kv => Forall (fun e => e < length (cm_conns (combine_mesh m1 m2))) (snd kv)) (cm_blocks (combine_mesh m1 m2)).
  Proof.
    intros Hn H1 H2. destruct combine_counts as [_ ->]. unfold combine_mesh. cbn [cm_blocks]. unfold combine_blocks.
    apply (combine_dicts_Forall merge_cat _ _ (fun e => e < length (cm_conns m2)) _ _ merge_cat_app Hn); [| | exact H2].
    - intros v Hv. unfold shift. apply Forall_forall. intros e He. apply in_map_iff in He. destruct He as [e' [<- He']].
      rewrite Forall_forall in Hv. specialize (Hv _ He'). lia.
    - eapply Forall_impl; [| exact H1]. intros kv Hkv. eapply Forall_impl; [| exact Hkv]. cbn beta. intros; lia.
  Qed.

  Lemma combine_nodesets_no_loss d1 d2 : cm_nodesets m1 = Some d1 -> cm_nodesets m2 = Some d2 -> NoDup (map fst d1) ->
    exists d, cm_nodesets (combine_mesh m1 m2) = Some d
    /\ (forall k v, In (k, v) d1 -> exists v', dget d k = Some v' /\ forall x, In x v -> In x v')
    /\ (forall k v, In (k, v) d2 -> exists v', dget d k = Some v' /\ forall x, In x v -> In (n1 + x) v')
    /\ members d = members d1 + members d2.
  Proof.
    intros E1 E2 Hn. unfold combine_mesh. cbn [cm_nodesets]. rewrite E1, E2. unfold combine_nodesets. eexists. split; [reflexivity |].
    destruct (combine_dicts_no_loss merge_cat (shift n1) d1 d2 merge_cat_app Hn) as (H1 & H2 & H3). fold n1.
    split; [exact H1 |]. split; [| apply H3, shift_length].
    intros k v Hin. destruct (H2 k v Hin) as [v' [E Hs]]. exists v'. split; [exact E |]. intros x Hx. apply Hs. unfold shift. now apply in_map.
  Qed.

  Lemma combine_sidesets_no_loss d1 d2 : cm_sidesets m1 = Some d1 -> cm_sidesets m2 = Some d2 -> NoDup (map fst d1) ->
    exists d, cm_sidesets (combine_mesh m1 m2) = Some d
    /\ (forall k v, In (k, v) d1 -> exists v', dget d k = Some v' /\ forall x, In x v -> In x v')
    /\ (forall k v, In (k, v) d2 -> exists v', dget d k = Some v' /\ forall es, In es v -> In (length (cm_conns m1) + fst es, snd es) v')
    /\ members d = members d1 + members d2.
  Proof.
    intros E1 E2 Hn. unfold combine_mesh. cbn [cm_sidesets]. rewrite E1, E2. unfold combine_sidesets. eexists. split; [reflexivity |].
    destruct (combine_dicts_no_loss merge_sides (shift_sides (length (cm_conns m1))) d1 d2 merge_sides_app Hn) as (H1 & H2 & H3).
    split; [exact H1 |]. split; [| apply H3, shift_sides_length].
    intros k v Hin. destruct (H2 k v Hin) as [v' [E Hs]]. exists v'. split; [exact E |]. intros es Hes. apply Hs.
    unfold shift_sides. apply in_map_iff. now exists es.
  Qed.

  (* distinct names: exact shape *)
  Lemma combine_blocks_form : NoDup (map fst (cm_blocks m1) ++ map fst (cm_blocks m2)) ->
    cm_blocks (combine_mesh m1 m2)
    = cm_blocks m1 ++ map (fun kv => (fst kv, map (Nat.add (length (cm_conns m1))) (snd kv))) (cm_blocks m2).
  Proof. intros H. unfold combine_mesh. cbn [cm_blocks]. unfold combine_blocks. now rewrite combine_dicts_distinct. Qed.
End Mesh.

(* formerly F8 (fixed by 157ff14): equal block names -- two 3x3 structured meshes (8 elements each, both with the single
   block 'block_0' = id 0): the merged block lists all 16 elements *)
Definition smesh (Nx Ny : nat) : cmesh unit :=
  mkCMesh (struct_coords Nx Ny (fun _ => tt) (fun _ => tt)) (struct_conns Nx Ny) [(0%Z, struct_block0 Nx Ny)] None None.
Lemma combine_name_clash_regression :
  let m := combine_mesh (smesh 3 3) (smesh 3 3) in
  length (cm_conns m) = 16 /\ cm_blocks m = [(0%Z, seq 0 16)] /\ members (cm_blocks m) = 16.
Proof. cbv zeta. repeat split; vm_compute; reflexivity. Qed.
