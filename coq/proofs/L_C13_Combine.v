(* C13 -- combine_mesh: offsets, ranges, nothing lost when names are distinct; members lost when names clash *)
From Coq Require Import List Arith ZArith Bool Lia.
From OV.base Require Import Num.
From OV.model Require Import M_C13_Struct M_C13_Combine.
Import ListNotations.

Lemma dset_fresh {V} (d : dict V) k v : ~ In k (map fst d) -> dset d k v = d ++ [(k, v)].
Proof.
  induction d as [| [k' v'] d IH]; intros H; [reflexivity |]. cbn [dset]. cbn [map fst In] in H.
  destruct (Z.eqb_spec k k') as [-> | _]; [tauto |]. rewrite IH by tauto. reflexivity.
Qed.

Lemma nodup_app_l {A} (l l' : list A) : NoDup (l ++ l') -> NoDup l.
Proof.
  induction l as [| x l IH]; intros H; [constructor |]. cbn [app] in H. inversion H as [| ? ? Hn Hd]; subst.
  constructor; [intros Hin; apply Hn; apply in_or_app; now left | now apply IH].
Qed.

Lemma fold_dset_fresh {V} (g : Z * V -> V) : forall (s acc : dict V),
  NoDup (map fst acc ++ map fst s) ->
  fold_left (fun d kv => dset d (fst kv) (g kv)) s acc = acc ++ map (fun kv => (fst kv, g kv)) s.
Proof.
  induction s as [| [k v] s IH]; intros acc H; cbn [fold_left map]; [now rewrite app_nil_r |].
  cbn [map fst] in H. assert (Hk : ~ In k (map fst acc)).
  { apply NoDup_remove_2 in H. intros Hin. apply H. apply in_or_app. now left. }
  cbn [fst]. rewrite dset_fresh by exact Hk. rewrite IH.
  - rewrite <- app_assoc. reflexivity.
  - rewrite map_app. cbn [map fst]. rewrite <- app_assoc. cbn [app]. exact H.
Qed.

(* with pairwise distinct names the result is the first dict followed by the shifted second dict *)
Lemma combine_dicts_distinct {V} (g : V -> V) (s1 s2 : dict V) : NoDup (map fst s1 ++ map fst s2) ->
  combine_dicts g s1 s2 = s1 ++ map (fun kv => (fst kv, g (snd kv))) s2.
Proof.
  intros H. unfold combine_dicts.
  rewrite (fold_dset_fresh (fun kv => snd kv) s1 []) by (cbn [map app]; now apply nodup_app_l in H).
  cbn [app]. replace (map (fun kv : Z * V => (fst kv, snd kv)) s1) with s1.
  - now rewrite (fold_dset_fresh (fun kv => g (snd kv)) s2 s1 H).
  - rewrite <- (map_id s1) at 1. apply map_ext. now intros [].
Qed.

Lemma members_app {A} (d1 d2 : dict (list A)) : members (d1 ++ d2) = members d1 + members d2.
Proof. unfold members. now rewrite map_app, list_sum_app. Qed.

Lemma combine_blocks_members s1 s2 off : NoDup (map fst s1 ++ map fst s2) ->
  members (combine_blocks s1 s2 off) = members s1 + members s2.
Proof.
  intros H. unfold combine_blocks. rewrite combine_dicts_distinct by exact H. rewrite members_app. f_equal.
  unfold members. rewrite map_map. f_equal. apply map_ext. intros [k v]. cbn [snd]. unfold shift. now rewrite map_length.
Qed.

Section Mesh.
  Context {T : Type}.
  Variables m1 m2 : cmesh T.
  Let n1 := length (cm_coords m1).
  Let n2 := length (cm_coords m2).

  Lemma combine_counts :
    length (cm_coords (combine_mesh m1 m2)) = n1 + n2
    /\ length (cm_conns (combine_mesh m1 m2)) = length (cm_conns m1) + length (cm_conns m2).
  Proof. unfold combine_mesh. cbn [cm_coords cm_conns]. now rewrite !app_length, map_length. Qed.

  Lemma combine_conns_form :
    cm_conns (combine_mesh m1 m2) = cm_conns m1 ++ map (map (Nat.add n1)) (cm_conns m2).
  Proof. reflexivity. Qed.

  Lemma combine_in_range :
    Forall (Forall (fun i => i < n1)) (cm_conns m1) -> Forall (Forall (fun i => i < n2)) (cm_conns m2) ->
    Forall (Forall (fun i => i < n1 + n2)) (cm_conns (combine_mesh m1 m2)).
  Proof.
    intros H1 H2. unfold combine_mesh. cbn [cm_conns]. apply Forall_app. split.
    - eapply Forall_impl; [| exact H1]. intros t Ht. eapply Forall_impl; [| exact Ht]. cbn beta. intros; lia.
    - apply Forall_forall. intros t Ht. apply in_map_iff in Ht. destruct Ht as [t' [<- Ht']].
      rewrite Forall_forall in H2. specialize (H2 _ Ht'). unfold shift. apply Forall_forall. intros i Hi.
      apply in_map_iff in Hi. destruct Hi as [i' [<- Hi']]. rewrite Forall_forall in H2. specialize (H2 _ Hi'). fold n1. lia.
  Qed.

  Lemma combine_every_node_used :
    (forall n, n < n1 -> exists t, In t (cm_conns m1) /\ In n t) ->
    (forall n, n < n2 -> exists t, In t (cm_conns m2) /\ In n t) ->
    forall n, n < n1 + n2 -> exists t, In t (cm_conns (combine_mesh m1 m2)) /\ In n t.
  Proof.
    intros H1 H2 n Hn. unfold combine_mesh. cbn [cm_conns]. destruct (Nat.lt_ge_cases n n1) as [Hl | Hg].
    - destruct (H1 n Hl) as [t [Ht Hi]]. exists t. split; [apply in_or_app; now left | exact Hi].
    - destruct (H2 (n - n1) ltac:(lia)) as [t [Ht Hi]]. exists (shift n1 t). split.
      + apply in_or_app. right. now apply in_map.
      + unfold shift. replace n with (n1 + (n - n1)) by (fold n1; lia). now apply in_map.
  Qed.

  (* geometry is untouched: first-mesh elements see their own coordinates, shifted second-mesh elements see theirs *)
  Context {NT : Num T}.
  Lemma combine_area_first t : Forall (fun i => i < n1) t ->
    tri_area2 (cm_coords (combine_mesh m1 m2)) t = tri_area2 (cm_coords m1) t.
  Proof.
    intros H. unfold combine_mesh. cbn [cm_coords]. destruct t as [| i [| j [| k [| ? ?]]]]; try reflexivity.
    inversion H as [| ? ? Hi H']; subst. inversion H' as [| ? ? Hj H'']; subst. inversion H'' as [| ? ? Hk _]; subst.
    unfold tri_area2. now rewrite !nth_error_app1 by assumption.
  Qed.
  Lemma combine_area_second t :
    tri_area2 (cm_coords (combine_mesh m1 m2)) (shift n1 t) = tri_area2 (cm_coords m2) t.
  Proof.
    unfold combine_mesh. cbn [cm_coords]. destruct t as [| i [| j [| k [| ? ?]]]]; try reflexivity.
    unfold tri_area2, shift. cbn [map]. rewrite !nth_error_app2 by (fold n1; lia). fold n1.
    now replace (n1 + i - n1) with i by lia; replace (n1 + j - n1) with j by lia; replace (n1 + k - n1) with k by lia.
  Qed.

  (* sets: distinct names => first mesh's sets unchanged, second mesh's sets shifted by the element / node counts *)
  Lemma combine_blocks_form : NoDup (map fst (cm_blocks m1) ++ map fst (cm_blocks m2)) ->
    cm_blocks (combine_mesh m1 m2)
    = cm_blocks m1 ++ map (fun kv => (fst kv, map (Nat.add (length (cm_conns m1))) (snd kv))) (cm_blocks m2).
  Proof. intros H. unfold combine_mesh. cbn [cm_blocks]. unfold combine_blocks. now rewrite combine_dicts_distinct. Qed.

  Lemma combine_blocks_in_range : NoDup (map fst (cm_blocks m1) ++ map fst (cm_blocks m2)) ->
    Forall (fun kv => Forall (fun e => e < length (cm_conns m1)) (snd kv)) (cm_blocks m1) ->
    Forall (fun kv => Forall (fun e => e < length (cm_conns m2)) (snd kv)) (cm_blocks m2) ->
    Forall (fun kv => Forall (fun e => e < length (cm_conns (combine_mesh m1 m2))) (snd kv)) (cm_blocks (combine_mesh m1 m2)).
  Proof.
    intros H H1 H2. rewrite combine_blocks_form by exact H. destruct combine_counts as [_ ->]. apply Forall_app. split.
    - eapply Forall_impl; [| exact H1]. intros kv Hkv. eapply Forall_impl; [| exact Hkv]. cbn beta. intros; lia.
    - apply Forall_forall. intros kv Hkv. apply in_map_iff in Hkv. destruct Hkv as [kv' [<- Hin]]. cbn [snd].
      rewrite Forall_forall in H2. specialize (H2 _ Hin). apply Forall_forall. intros e He.
      apply in_map_iff in He. destruct He as [e' [<- He']]. rewrite Forall_forall in H2. specialize (H2 _ He'). lia.
  Qed.

  Lemma combine_nodesets_form d1 d2 : cm_nodesets m1 = Some d1 -> cm_nodesets m2 = Some d2 ->
    NoDup (map fst d1 ++ map fst d2) ->
    cm_nodesets (combine_mesh m1 m2) = Some (d1 ++ map (fun kv => (fst kv, map (Nat.add n1) (snd kv))) d2).
  Proof.
    intros E1 E2 H. unfold combine_mesh. cbn [cm_nodesets]. rewrite E1, E2. unfold combine_nodesets.
    now rewrite combine_dicts_distinct.
  Qed.
  Lemma combine_sidesets_form d1 d2 : cm_sidesets m1 = Some d1 -> cm_sidesets m2 = Some d2 ->
    NoDup (map fst d1 ++ map fst d2) ->
    cm_sidesets (combine_mesh m1 m2)
    = Some (d1 ++ map (fun kv => (fst kv, map (fun es => (length (cm_conns m1) + fst es, snd es)) (snd kv))) d2).
  Proof.
    intros E1 E2 H. unfold combine_mesh. cbn [cm_sidesets]. rewrite E1, E2. unfold combine_sidesets.
    now rewrite combine_dicts_distinct.
  Qed.
End Mesh.

(* F8: equal block names -- the later entry overwrites the earlier: two 3x3 structured meshes (8 elements each, both
   with the single block 'block_0' = id 0): the merged mesh has 16 elements but block_0 lists only the second mesh's 8 *)
Definition smesh (Nx Ny : nat) : cmesh unit :=
  mkCMesh (struct_coords Nx Ny (fun _ => tt) (fun _ => tt)) (struct_conns Nx Ny) [(0%Z, struct_block0 Nx Ny)] None None.
Lemma combine_name_clash_witness :
  let m := combine_mesh (smesh 3 3) (smesh 3 3) in
  length (cm_conns m) = 16 /\ cm_blocks m = [(0%Z, [8; 9; 10; 11; 12; 13; 14; 15])]
  /\ members (cm_blocks m) = 8 /\ members (cm_blocks (smesh 3 3)) + members (cm_blocks (smesh 3 3)) = 16
  /\ ~ (forall e, e < 16 -> exists kv, In kv (cm_blocks m) /\ In e (snd kv)).
Proof.
  cbv zeta. repeat split; try (vm_compute; reflexivity).
  intros H. destruct (H 0 ltac:(lia)) as [kv [Hkv He]]. vm_compute in Hkv. destruct Hkv as [<- | []].
  cbn [snd In] in He. repeat (destruct He as [He | He]; [discriminate |]). exact He.
Qed.
