(* C08 (deepening, round 4, part 2): Kirchhoff-stress symmetry as a derivative statement for the models that go through the spectral
   tensor functions (log_sqrt_symm / pow_symm), from OBJECTIVITY (L_C08d.kirchhoff_from_objectivity) and the differentiability of the
   spectral function at the one argument it is called on:
     SpecDiffAt f C0 L :  L is linear and for every differentiable curve C of symmetric matrices with C 0 = C0,
                          t |-> f (C t) is differentiable at 0 with derivative L (C' 0)           (Hadamard differentiability at C0).
   For every such model the energy is then differentiable at H along every differentiable curve through H, with a gradient P
   (first Piola-Kirchhoff stress, d/dt E(g t) = P : g'(0)), and tau = P F^T is symmetric.  No equivariance of L is assumed. *)
From Coq Require Import Reals Lra QArith Nsatz.
From Coquelicot Require Import Coquelicot.
From OV.base Require Import Num.
From OV.gen Require Import Gen_TensorMath Gen_LinearElastic Gen_Neohookean Gen_Gent Gen_J2Elastic
  Gen_HyperViscoelastic Gen_MultiBranchHyperViscoelastic Gen_PhaseFieldThreshold.
From OV.model Require Import M_C08 M_C08b.
From OV.proofs Require Import L_C08 L_C08b L_C08c L_C08d.
Local Open Scope R_scope.

(* ---------- linear functionals and maps on matrices; the gradient of a linear functional ---------- *)
Definition linear_fun (l : M -> R) : Prop := (forall X Y, l (madd X Y) = l X + l Y) /\ (forall s X, l (mscal s X) = s * l X).
Definition linear_map (L : M -> M) : Prop := (forall X Y, L (madd X Y) = madd (L X) (L Y)) /\ (forall s X, L (mscal s X) = mscal s (L X)).
Definition grad_of (l : M -> R) : M :=
  mk (l (mk 1 0 0 0 0 0 0 0 0)) (l (mk 0 1 0 0 0 0 0 0 0)) (l (mk 0 0 1 0 0 0 0 0 0))
     (l (mk 0 0 0 1 0 0 0 0 0)) (l (mk 0 0 0 0 1 0 0 0 0)) (l (mk 0 0 0 0 0 1 0 0 0))
     (l (mk 0 0 0 0 0 0 1 0 0)) (l (mk 0 0 0 0 0 0 0 1 0)) (l (mk 0 0 0 0 0 0 0 0 1)).
Lemma linear_grad l : linear_fun l -> forall D, l D = mddot (grad_of l) D.
Proof.
  intros (Ha & Hs) D. destruct D as [d0 d1 d2 d3 d4 d5 d6 d7 d8].
  replace (mk d0 d1 d2 d3 d4 d5 d6 d7 d8) with
    (madd (mscal d0 (mk 1 0 0 0 0 0 0 0 0)) (madd (mscal d1 (mk 0 1 0 0 0 0 0 0 0)) (madd (mscal d2 (mk 0 0 1 0 0 0 0 0 0))
    (madd (mscal d3 (mk 0 0 0 1 0 0 0 0 0)) (madd (mscal d4 (mk 0 0 0 0 1 0 0 0 0)) (madd (mscal d5 (mk 0 0 0 0 0 1 0 0 0))
    (madd (mscal d6 (mk 0 0 0 0 0 0 1 0 0)) (madd (mscal d7 (mk 0 0 0 0 0 0 0 1 0)) (mscal d8 (mk 0 0 0 0 0 0 0 0 1)))))))))) at 1
    by (mnum; f_equal; ring).
  rewrite !Ha, !Hs. unfold grad_of, mddot. cbn [m00 m01 m02 m10 m11 m12 m20 m21 m22]. unfold nadd, nmul, NumR. ring.
Qed.
Lemma linear_mddot P : linear_fun (mddot P).
Proof. split; [intros X Y; dm P; dm X; dm Y | intros s X; dm P; dm X]; mnum; ring. Qed.
Lemma linear_mtrace : linear_fun mtrace.
Proof. split; [intros X Y; dm X; dm Y | intros s X; dm X]; mnum; ring. Qed.
Lemma linear_plus l1 l2 : linear_fun l1 -> linear_fun l2 -> linear_fun (fun D => l1 D + l2 D).
Proof. intros (A1 & S1) (A2 & S2). split; [intros X Y; rewrite A1, A2 | intros s X; rewrite S1, S2]; ring. Qed.
Lemma linear_scale k l : linear_fun l -> linear_fun (fun D => k * l D).
Proof. intros (A1 & S1). split; [intros X Y; rewrite A1 | intros s X; rewrite S1]; ring. Qed.
Lemma linear_comp l L : linear_fun l -> linear_map L -> linear_fun (fun D => l (L D)).
Proof. intros (A1 & S1) (A2 & S2). split; [intros X Y; rewrite A2, A1 | intros s X; rewrite S2, S1]; reflexivity. Qed.
Lemma linear_map_comp L1 L2 : linear_map L1 -> linear_map L2 -> linear_map (fun D => L1 (L2 D)).
Proof. intros (A1 & S1) (A2 & S2). split; [intros X Y; rewrite A2, A1 | intros s X; rewrite S2, S1]; reflexivity. Qed.
Lemma linear_map_scal k : linear_map (mscal k).
Proof. split; [intros X Y; dm X; dm Y | intros s X; dm X]; mat_eq. Qed.
Lemma linear_map_dCCe H G : linear_map (dCCe H G).
Proof. split; [intros X Y; dm X; dm Y | intros s X; dm X]; dm H; dm G; unfold dCCe; mat_eq. Qed.

(* ---------- differentiability along curves: chain rule, sums, restriction to straight lines ---------- *)
Definition mcurve_diff (F : M -> M) (H : M) (LF : M -> M) : Prop :=
  forall (g : R -> M) (D : M), g 0 = H -> mderive g 0 D -> mderive (fun t => F (g t)) 0 (LF D).
Lemma curve_diff_chain (E : M -> R) (F : M -> M) H l LF : mcurve_diff F H LF -> curve_diff E (F H) l -> curve_diff (fun X => E (F X)) H (fun D => l (LF D)).
Proof. intros HF HE g D H0 Hg. apply (HE (fun t => F (g t)) (LF D)); [rewrite H0; reflexivity | apply HF; assumption]. Qed.
Lemma curve_diff_plus E1 E2 H l1 l2 : curve_diff E1 H l1 -> curve_diff E2 H l2 -> curve_diff (fun X => E1 X + E2 X) H (fun D => l1 D + l2 D).
Proof. intros H1 H2 g D H0 Hg. apply (is_derive_plus' (fun t => E1 (g t)) (fun t => E2 (g t))); [apply H1 | apply H2]; assumption. Qed.
Lemma curve_diff_ext_l E H l l' : (forall D, l D = l' D) -> curve_diff E H l -> curve_diff E H l'.
Proof. intros Hl HE g D H0 Hg. rewrite <- Hl. apply HE; assumption. Qed.
Lemma curve_diff_line E H l D : curve_diff E H l -> is_derive (fun t => E (madd H (mscal t D))) 0 (l D).
Proof.
  intros HE. apply (HE (fun t => madd H (mscal t D))); [apply line0 |].
  dm H; dm D. unfold mderive. mnum. repeat match goal with |- _ /\ _ => split end; (auto_derive; [trivial | ring]).
Qed.
(* two energies that agree wherever det F <> 0 have the same derivatives along curves through a point with det F > 0 *)
Lemma JJ_curve_locally (g : R -> M) D : mderive g 0 D -> 0 < JJ (g 0) -> locally 0 (fun t => JJ (g t) <> 0).
Proof.
  intros Hg HJ.
  assert (Hc : continuous (fun t => JJ (g t)) 0).
  { apply (ex_derive_continuous (fun t => JJ (g t))). eexists. apply JJ_curve, Hg. }
  assert (HP : locally (JJ (g 0)) (fun y => 0 < y)) by (apply (open_gt 0); exact HJ).
  specialize (Hc _ HP). unfold filtermap in Hc. revert Hc. apply filter_imp. intros t Ht. lra.
Qed.
Lemma curve_diff_ext_JJ (E E' : M -> R) H l : 0 < JJ H -> (forall X, JJ X <> 0 -> E X = E' X) -> curve_diff E' H l -> curve_diff E H l.
Proof.
  intros HJ HE HE' g D H0 Hg.
  apply (is_derive_ext_loc (fun t => E' (g t))).
  - assert (HJ0 : 0 < JJ (g 0)) by (rewrite H0; exact HJ).
    generalize (JJ_curve_locally g D Hg HJ0). apply filter_imp. intros t Ht. symmetry. apply HE, Ht.
  - apply HE'; assumption.
Qed.

(* the generic conclusion: gradient P = grad_of l and symmetry of tau = P F^T *)
Theorem kirchhoff_of_linear (E : M -> R) (H : M) (l : M -> R) :
  (forall Q, rotation Q -> E (rotL Q H) = E H) -> curve_diff E H l -> linear_fun l ->
  exists P : M, curve_diff E H (mddot P) /\ msym (mmul P (mtr (defgrad H))).
Proof.
  intros Hobj Hd Hl. exists (grad_of l).
  assert (Hd' : curve_diff E H (mddot (grad_of l))) by (apply (curve_diff_ext_l E H l); [apply linear_grad, Hl | exact Hd]).
  split; [exact Hd' | apply (kirchhoff_from_objectivity E H _ Hobj Hd')].
Qed.

(* ---------- building blocks ---------- *)
(* the quadratic law W(S) = phi_q kappa mu (tr S) (S:S) *)
Definition Wq (kappa mu : R) (S : M) : R := phi_q kappa mu (mtrace S) (mddot S S).
Definition lWq (kappa mu : R) (S0 S' : M) : R :=
  kappa * mtrace S0 * mtrace S' + mu * (2 * mddot S0 S' - 2 * mtrace S0 * mtrace S' / 3).
Lemma phi_q_chain kappa mu (a b : R -> R) a' b' : is_derive a 0 a' -> is_derive b 0 b' ->
  is_derive (fun t => phi_q kappa mu (a t) (b t)) 0 (kappa * a 0 * a' + mu * (b' - 2 * a 0 * a' / 3)).
Proof.
  intros Ha Hb. unfold phi_q. auto_derive.
  - repeat split; eexists; eassumption.
  - assert (Da : Derive (fun x => a x) 0 = a') by (apply is_derive_unique; exact Ha).
    assert (Db : Derive (fun x => b x) 0 = b') by (apply is_derive_unique; exact Hb).
    rewrite Da, Db. field.
Qed.
Lemma Wq_curve_diff kappa mu S0 : curve_diff (Wq kappa mu) S0 (lWq kappa mu S0).
Proof.
  intros g D H0 Hg. unfold Wq, lWq.
  pose proof (phi_q_chain kappa mu (fun t => mtrace (g t)) (fun t => mddot (g t) (g t)) _ _ (mtrace_curve g D Hg) (mddot_curve g D Hg)) as P.
  cbv beta in P. rewrite H0 in P. evar_last; [exact P | ring].
Qed.
Lemma lWq_linear kappa mu S0 : linear_fun (lWq kappa mu S0).
Proof. split; [intros X Y; dm X; dm Y | intros s X; dm X]; dm S0; unfold lWq; mnum; field. Qed.

(* logarithmic strain  lso X J = dev X + (ln J / 3) I  along a curve *)
Definition dlso (X' : M) (J0 j' : R) : M := madd (mdevm X') (mscal (j' / J0 / 3) mid).
Lemma mderive_mscal_fun (s : R -> R) s' (A : M) : is_derive s 0 s' -> mderive (fun t => mscal (s t) A) 0 (mscal s' A).
Proof.
  intros Hs. unfold mderive, mscal; cbn [m00 m01 m02 m10 m11 m12 m20 m21 m22]. unfold nmul, NumR.
  repeat match goal with |- _ /\ _ => split end;
    match goal with |- is_derive (fun t => s t * ?c) 0 _ =>
      apply (is_derive_ext (fun t => c * s t)); [intros t; apply Rmult_comm |]; evar_last; [apply is_derive_scal', Hs | apply Rmult_comm] end.
Qed.
Lemma is_derive_div3 (f : R -> R) f' : is_derive f 0 f' -> is_derive (fun t => f t / 3) 0 (f' / 3).
Proof.
  intros Hf. auto_derive; [eexists; exact Hf |].
  assert (Df : Derive (fun x => f x) 0 = f') by (apply is_derive_unique; exact Hf). rewrite Df. field.
Qed.
Lemma is_derive_ln3 (j : R -> R) j' : is_derive j 0 j' -> 0 < j 0 -> is_derive (fun t => ln (j t) / 3) 0 (j' / j 0 / 3).
Proof.
  intros Hj Hj0. auto_derive; [split; [eexists; exact Hj | split; [exact Hj0 | trivial]] |].
  assert (Dj : Derive (fun x => j x) 0 = j') by (apply is_derive_unique; exact Hj). rewrite Dj. field. lra.
Qed.
Lemma lso_curve (Xf : R -> M) X' (j : R -> R) j' : mderive Xf 0 X' -> is_derive j 0 j' -> 0 < j 0 ->
  mderive (fun t => lso (Xf t) (j t)) 0 (dlso X' (j 0) j').
Proof.
  intros HX Hj Hj0. unfold lso, dlso, mdevm.
  apply mderive_madd.
  - apply mderive_msub; [exact HX |]. apply (mderive_mscal_fun (fun t => mtrace (Xf t) / 3)).
    apply (is_derive_div3 (fun t => mtrace (Xf t))), mtrace_curve, HX.
  - apply (mderive_mscal_fun (fun t => ln (j t) / 3)). apply is_derive_ln3; assumption.
Qed.
Lemma linear_map_dlso J0 (LX : M -> M) (lj : M -> R) : linear_map LX -> linear_fun lj -> linear_map (fun D => dlso (LX D) J0 (lj D)).
Proof.
  intros (A1 & S1) (A2 & S2). split.
  - intros X Y. rewrite A1, A2. destruct (LX X), (LX Y). unfold dlso, mdevm. mnum. f_equal; unfold Rdiv; ring.
  - intros s X. rewrite S1, S2. destruct (LX X). unfold dlso, mdevm. mnum. f_equal; unfold Rdiv; ring.
Qed.

(* Hadamard differentiability of a spectral tensor function at C0 *)
Record SpecDiffAt (f : M -> M) (C0 : M) (L : M -> M) : Prop := {
  sda_linear : linear_map L;
  sda_curve : forall (C : R -> M) (C' : M), (forall t, msym (C t)) -> C 0 = C0 -> mderive C 0 C' -> mderive (fun t => f (C t)) 0 (L C') }.
Definition LogSqrtDiffAt (lss : M -> M) (C0 : M) (L : M -> M) : Prop := SpecDiffAt lss C0 L.
Definition PowDiffAt (pw : M -> R -> M) (m : R) (C0 : M) (L : M -> M) : Prop := SpecDiffAt (fun A => pw A m) C0 L.
(* satisfiable (NOT the logarithm / power): affine functions *)
Lemma SpecDiffAt_inhabited C0 : LogSqrtDiffAt (fun A => mscal (/ 2) (msub A mid)) C0 (mscal (/ 2))
  /\ PowDiffAt (fun A m => madd mid (mscal m (msub A mid))) (/ 4) C0 (mscal (/ 4)).
Proof.
  split; split.
  - apply linear_map_scal.
  - intros C C' _ _ HD. apply mderive_mscal. apply (mderive_cast _ _ (msub C' mzero)); [dm C'; mat_eq |]. apply mderive_msub; [exact HD | apply mderive_const].
  - apply linear_map_scal.
  - intros C C' _ _ HD. apply (mderive_cast _ _ (madd mzero (mscal (/ 4) (msub C' mzero)))); [dm C'; mat_eq |].
    apply mderive_madd; [apply mderive_const |]. apply mderive_mscal. apply mderive_msub; [exact HD | apply mderive_const].
Qed.

Section SpectralStrain.
  Variables (f : M -> M) (G : M) (H : M) (L : M -> M).
  Hypothesis HL : SpecDiffAt f (CCe H G) L.
  (* X |-> f ((F G)^T (F G)) *)
  Lemma spec_CCe_mcurve : mcurve_diff (fun X => f (CCe X G)) H (fun D => L (dCCe H G D)).
  Proof.
    intros g D H0 Hg. apply (sda_curve _ _ _ HL (fun t => CCe (g t) G)); [intros t; apply CCe_sym | rewrite H0; reflexivity |].
    rewrite <- H0. apply CCe_curve, Hg.
  Qed.
  Lemma spec_CCe_linear : linear_map (fun D => L (dCCe H G D)).
  Proof. apply linear_map_comp; [apply (sda_linear _ _ _ HL) | apply linear_map_dCCe]. Qed.
  (* X |-> dev f(Ce X) + (ln det(I+X) / 3) I *)
  Hypothesis HJ : 0 < JJ H.
  Definition dlogstrain (D : M) : M := dlso (L (dCCe H G D)) (JJ H) (mddot (mcof (defgrad H)) D).
  Lemma logstrain_mcurve : mcurve_diff (fun X => lso (f (CCe X G)) (JJ X)) H dlogstrain.
  Proof.
    intros g D H0 Hg. unfold dlogstrain. rewrite <- H0.
    apply (lso_curve (fun t => f (CCe (g t) G)) _ (fun t => JJ (g t))).
    - rewrite H0. apply spec_CCe_mcurve; assumption.
    - apply JJ_curve, Hg.
    - rewrite H0. exact HJ.
  Qed.
  Lemma dlogstrain_linear : linear_map dlogstrain.
  Proof. apply linear_map_dlso; [apply spec_CCe_linear | apply linear_mddot]. Qed.
  (* quadratic law of the logarithmic strain *)
  Definition l_log (kappa mu : R) (D : M) : R := lWq kappa mu (lso (f (CCe H G)) (JJ H)) (dlogstrain D).
  Lemma log_energy_curve_diff kappa mu : curve_diff (fun X => Wq kappa mu (lso (f (CCe X G)) (JJ X))) H (l_log kappa mu).
  Proof. exact (curve_diff_chain (Wq kappa mu) (fun X => lso (f (CCe X G)) (JJ X)) H (lWq kappa mu (lso (f (CCe H G)) (JJ H))) dlogstrain logstrain_mcurve (Wq_curve_diff kappa mu _)). Qed.
  Lemma l_log_linear kappa mu : linear_fun (l_log kappa mu).
  Proof. apply (linear_comp (lWq kappa mu _) dlogstrain); [apply lWq_linear | apply dlogstrain_linear]. Qed.
  (* quadratic law of the spectral function itself (non-equilibrium branch energies of the viscoelastic models) *)
  Definition l_tail (k : R) (D : M) : R := lWq 0 k (f (CCe H G)) (L (dCCe H G D)).
  Lemma tail_curve_diff k : curve_diff (fun X => Wq 0 k (f (CCe X G))) H (l_tail k).
  Proof. exact (curve_diff_chain (Wq 0 k) (fun X => f (CCe X G)) H (lWq 0 k (f (CCe H G))) (fun D => L (dCCe H G D)) spec_CCe_mcurve (Wq_curve_diff 0 k _)). Qed.
  Lemma l_tail_linear k : linear_fun (l_tail k).
  Proof. apply (linear_comp (lWq 0 k _) (fun D => L (dCCe H G D))); [apply lWq_linear | apply spec_CCe_linear]. Qed.
End SpectralStrain.

(* ---------- LinearElastic / logarithmic strain ---------- *)
Theorem le_log_kirchhoff lss L p H : 0 < JJ H -> LogSqrtDiffAt lss (CC H) L ->
  exists P : M, curve_diff (E_le_log lss p) H (mddot P) /\ msym (mmul P (mtr (defgrad H))).
Proof.
  intros HJ HL. destruct p as [[[a b] mu] kappa]. rewrite CC_CCe in HL.
  apply (kirchhoff_of_linear _ H (l_log lss mid H L kappa mu)).
  - intros Q HR. apply le_log_objective, HR.
  - apply (curve_diff_ext_JJ _ (fun X => Wq kappa mu (lso (lss (CCe X mid)) (JJ X))) H _ HJ).
    + intros X _. unfold E_le_log. rewrite W_le_bridge, strain_log_bridge', CC_CCe. reflexivity.
    + apply log_energy_curve_diff; assumption.
  - apply l_log_linear; assumption.
Qed.

(* ---------- J2 plasticity, logarithmic kinematics, elastic regime, every admissible plastic distortion ---------- *)
Theorem j2_log_kirchhoff lss L p eqps Fp H : 0 < JJ H -> mdet Fp <> 0 -> LogSqrtDiffAt lss (CCe H (tinv Fp)) L ->
  exists P : M, curve_diff (E_j2_log lss p eqps Fp) H (mddot P) /\ msym (mmul P (mtr (defgrad H))).
Proof.
  intros HJ Hd HL. destruct p as [[[[a b] mu] kappa] e].
  apply (kirchhoff_of_linear _ H (l_log lss (tinv Fp) H L kappa mu)).
  - intros Q HR. apply j2_log_objective; assumption.
  - apply (curve_diff_ext_JJ _ (fun X => Wq kappa mu (lso (lss (CCe X (tinv Fp))) (JJ X))) H _ HJ).
    + intros X _. unfold E_j2_log. rewrite W_j2_bridge, j2_strain_log_bridge by exact Hd. reflexivity.
    + apply log_energy_curve_diff; assumption.
  - apply l_log_linear; assumption.
Qed.

(* ---------- phase field, logarithmic kinematics, undamaged (phase = 0; for phase <> 0 the volumetric split has a kink at det F = 1) ---------- *)
Theorem pf_log_kirchhoff lss L p g0 g1 g2 H : 0 < JJ H -> LogSqrtDiffAt lss (CC H) L ->
  exists P : M, curve_diff (E_pf_log lss p 0 g0 g1 g2) H (mddot P) /\ msym (mmul P (mtr (defgrad H))).
Proof.
  intros HJ HL. destruct p as [[[[[a b] mu] kappa] Gc] ell]. rewrite CC_CCe in HL.
  apply (kirchhoff_of_linear _ H (fun D => l_log lss mid H L kappa mu D + 0)).
  - intros Q HR. apply pf_log_objective, HR.
  - apply (curve_diff_ext_JJ _ (fun X => Wq kappa mu (lso (lss (CCe X mid)) (JJ X)) + 3 * Gc / 8 * (0 / ell + ell * (g0 * g0 + g1 * g1 + g2 * g2))) H _ HJ).
    + intros X _. unfold E_pf_log. rewrite W_pf_bridge, pf_strain_log_bridge, phi_pf_phase0, CC_CCe. reflexivity.
    + apply (curve_diff_plus (fun X => Wq kappa mu (lso (lss (CCe X mid)) (JJ X))) (fun _ => 3 * Gc / 8 * (0 / ell + ell * (g0 * g0 + g1 * g1 + g2 * g2)))).
      * apply log_energy_curve_diff; assumption.
      * intros g D _ _. apply (is_derive_const (V := R_NormedModule)).
  - apply (linear_plus _ (fun _ => 0)); [apply l_log_linear; assumption | split; intros; ring].
Qed.

(* ---------- J2 plasticity, 'seth hill' kinematics, elastic regime, every plastic strain ---------- *)
Theorem j2_seth_hill_kirchhoff pw L p eqps Ep H : PowDiffAt pw (/ 4) (CC H) L ->
  exists P : M, curve_diff (E_j2_seth_hill pw p eqps Ep) H (mddot P) /\ msym (mmul P (mtr (defgrad H))).
Proof.
  intros HL. destruct p as [[[[a b] mu] kappa] e]. unfold PowDiffAt in HL. rewrite CC_CCe in HL.
  set (S := fun X => msub (mscal 2 (msub (pw (CCe X mid) (/ 4)) mid)) Ep).
  set (LS := fun D => mscal 2 (L (dCCe H mid D))).
  assert (HS : mcurve_diff S H LS).
  { intros g D H0 Hg. unfold S, LS.
    apply (mderive_cast _ _ (msub (mscal 2 (msub (L (dCCe H mid D)) mzero)) mzero)); [destruct (L (dCCe H mid D)); mat_eq |].
    apply mderive_msub; [| apply mderive_const]. apply mderive_mscal. apply mderive_msub; [| apply mderive_const].
    apply (spec_CCe_mcurve (fun A => pw A (/ 4)) mid H L HL g D H0 Hg). }
  apply (kirchhoff_of_linear _ H (fun D => lWq kappa mu (S H) (LS D))).
  - intros Q HR. apply j2_seth_hill_objective, HR.
  - intros g D H0 Hg.
    apply (is_derive_ext (fun t => Wq kappa mu (S (g t)))).
    + intros t. unfold E_j2_seth_hill, S, Wq. rewrite W_j2_bridge, j2_strain_seth_hill_bridge, CC_CCe. reflexivity.
    + apply (curve_diff_chain (Wq kappa mu) S H _ LS HS (Wq_curve_diff kappa mu (S H)) g D H0 Hg).
  - apply (linear_comp (lWq kappa mu (S H)) LS); [apply lWq_linear |].
    apply (linear_map_comp (mscal 2) (fun D => L (dCCe H mid D))); [apply linear_map_scal | apply (spec_CCe_linear _ mid H L HL)].
Qed.

(* ---------- viscoelastic models: complete incremental energies, every admissible viscous state ---------- *)
Lemma hv_tail_Wq Gn tau dt (X : M) :
  hv_tail Gn tau dt (mtrace X) (mddot X X) =
  Wq 0 (Gn * ((1 - hv_c tau dt) * (1 - hv_c tau dt)) + dt * (Gn * tau * (hv_c tau dt / dt * (hv_c tau dt / dt)))) X.
Proof. unfold hv_tail, Wq, phi_q. generalize (hv_c tau dt / dt) (1 - hv_c tau dt). intros u v. field. Qed.
Definition hv_k (Gn tau dt : R) : R := Gn * ((1 - hv_c tau dt) * (1 - hv_c tau dt)) + dt * (Gn * tau * (hv_c tau dt / dt * (hv_c tau dt / dt))).
Lemma adagio_curve_diff K G H : 0 < JJ H -> curve_diff (fun X => psi_adagio K G (I1 X) (JJ X)) H (mddot (P_adagio K G H)).
Proof.
  intros HJ g D H0 Hg. unfold P_adagio. rewrite pk1_ddot.
  pose proof (adagio_chain2 K G (I1 H) (JJ H) HJ (fun t => I1 (g t)) (fun t => JJ (g t)) _ _ (I1_curve g D Hg) (JJ_curve g D Hg)) as P.
  rewrite H0 in P. apply P; rewrite H0; reflexivity.
Qed.

Theorem hv_kirchhoff lss L p Fv dt H : 0 < JJ H -> mdet Fv <> 0 -> 0 < dt -> (let '(_, _, _, tau) := p in 0 < tau) ->
  LogSqrtDiffAt lss (CCe H (linv Fv)) L ->
  exists P : M, curve_diff (E_hv lss p Fv dt) H (mddot P) /\ msym (mmul P (mtr (defgrad H))).
Proof.
  intros HJ Hd Hdt Htau HL.
  apply (kirchhoff_of_linear _ H (let '(K, G, Gn, tau) := p in fun D => mddot (P_adagio K G H) D + l_tail lss (linv Fv) H L (hv_k Gn tau dt) D)).
  - intros Q HR. apply hv_objective; assumption.
  - apply (curve_diff_ext_JJ _ (let '(K, G, Gn, tau) := p in
             fun X => psi_adagio K G (I1 X) (JJ X) + Wq 0 (hv_k Gn tau dt) (lss (CCe X (linv Fv)))) H _ HJ).
    + intros X HX. rewrite (hv_bridge lss p Fv dt X HX Hd Hdt Htau). destruct p as [[[K G] Gn] tau]. cbv zeta. rewrite hv_tail_Wq. reflexivity.
    + destruct p as [[[K G] Gn] tau].
      apply (curve_diff_plus (fun X => psi_adagio K G (I1 X) (JJ X)) (fun X => Wq 0 (hv_k Gn tau dt) (lss (CCe X (linv Fv))))).
      * apply adagio_curve_diff, HJ.
      * apply tail_curve_diff, HL.
  - destruct p as [[[K G] Gn] tau]. apply (linear_plus (mddot (P_adagio K G H)) (l_tail lss (linv Fv) H L (hv_k Gn tau dt))); [apply linear_mddot | apply l_tail_linear, HL].
Qed.

Theorem mb_kirchhoff lss L1 L2 L3 p Fv1 Fv2 Fv3 dt H :
  0 < JJ H -> mdet Fv1 <> 0 -> mdet Fv2 <> 0 -> mdet Fv3 <> 0 -> 0 < dt -> mb_taus_pos p ->
  LogSqrtDiffAt lss (CCe H (linv Fv1)) L1 -> LogSqrtDiffAt lss (CCe H (linv Fv2)) L2 -> LogSqrtDiffAt lss (CCe H (linv Fv3)) L3 ->
  exists P : M, curve_diff (E_mb lss p Fv1 Fv2 Fv3 dt) H (mddot P) /\ msym (mmul P (mtr (defgrad H))).
Proof.
  intros HJ Hd1 Hd2 Hd3 Hdt Htau HL1 HL2 HL3.
  apply (kirchhoff_of_linear _ H (let '(K, G, G1, t1, G2, t2, G3, t3) := p in
           fun D => mddot (P_adagio K G H) D + l_tail lss (linv Fv1) H L1 (hv_k G1 t1 dt) D + l_tail lss (linv Fv2) H L2 (hv_k G2 t2 dt) D
                    + l_tail lss (linv Fv3) H L3 (hv_k G3 t3 dt) D)).
  - intros Q HR. apply mb_objective; assumption.
  - apply (curve_diff_ext_JJ _ (let '(K, G, G1, t1, G2, t2, G3, t3) := p in
             fun X => psi_adagio K G (I1 X) (JJ X) + Wq 0 (hv_k G1 t1 dt) (lss (CCe X (linv Fv1))) + Wq 0 (hv_k G2 t2 dt) (lss (CCe X (linv Fv2)))
                      + Wq 0 (hv_k G3 t3 dt) (lss (CCe X (linv Fv3)))) H _ HJ).
    + intros X HX. rewrite (mb_bridge lss p Fv1 Fv2 Fv3 dt X HX Hd1 Hd2 Hd3 Hdt Htau). destruct p as [[[[[[[K G] G1] t1] G2] t2] G3] t3].
      unfold mb_tail. cbv zeta. rewrite !hv_tail_Wq. reflexivity.
    + destruct p as [[[[[[[K G] G1] t1] G2] t2] G3] t3].
      apply (curve_diff_plus (fun X => psi_adagio K G (I1 X) (JJ X) + Wq 0 (hv_k G1 t1 dt) (lss (CCe X (linv Fv1))) + Wq 0 (hv_k G2 t2 dt) (lss (CCe X (linv Fv2))))
                             (fun X => Wq 0 (hv_k G3 t3 dt) (lss (CCe X (linv Fv3))))); [| apply tail_curve_diff, HL3].
      apply (curve_diff_plus (fun X => psi_adagio K G (I1 X) (JJ X) + Wq 0 (hv_k G1 t1 dt) (lss (CCe X (linv Fv1))))
                             (fun X => Wq 0 (hv_k G2 t2 dt) (lss (CCe X (linv Fv2))))); [| apply tail_curve_diff, HL2].
      apply (curve_diff_plus (fun X => psi_adagio K G (I1 X) (JJ X)) (fun X => Wq 0 (hv_k G1 t1 dt) (lss (CCe X (linv Fv1))))); [| apply tail_curve_diff, HL1].
      apply adagio_curve_diff, HJ.
  - destruct p as [[[[[[[K G] G1] t1] G2] t2] G3] t3].
    apply (linear_plus (fun D => mddot (P_adagio K G H) D + l_tail lss (linv Fv1) H L1 (hv_k G1 t1 dt) D + l_tail lss (linv Fv2) H L2 (hv_k G2 t2 dt) D)
                       (l_tail lss (linv Fv3) H L3 (hv_k G3 t3 dt))); [| apply l_tail_linear, HL3].
    apply (linear_plus (fun D => mddot (P_adagio K G H) D + l_tail lss (linv Fv1) H L1 (hv_k G1 t1 dt) D)
                       (l_tail lss (linv Fv2) H L2 (hv_k G2 t2 dt))); [| apply l_tail_linear, HL2].
    apply (linear_plus (mddot (P_adagio K G H)) (l_tail lss (linv Fv1) H L1 (hv_k G1 t1 dt))); [apply linear_mddot | apply l_tail_linear, HL1].
Qed.

(* the curve statement contains the straight-line statement of the closed-form theorems (L_C08c) *)
Lemma curve_diff_gives_lines E H P : curve_diff E H (mddot P) -> forall D, is_derive (fun t => E (madd H (mscal t D))) 0 (mddot P D).
Proof. intros HE D. apply (curve_diff_line E H (mddot P) D HE). Qed.

Example nonvacuous_witness_kirchhoff :
  (LogSqrtDiffAt (fun A => mscal (/ 2) (msub A mid)) (CC (mk (/ 2) (/ 4) 0 0 (/ 3) 0 0 0 0)) (mscal (/ 2))
   /\ PowDiffAt (fun A m => madd mid (mscal m (msub A mid))) (/ 4) (CC (mk (/ 2) (/ 4) 0 0 (/ 3) 0 0 0 0)) (mscal (/ 4)))
  /\ (PowSpec pw_poly /\ PowDiffAtId pw_poly) /\ 0 < JJ (mk (/ 2) (/ 4) 0 0 (/ 3) 0 0 0 0).
Proof.
  split; [apply SpecDiffAt_inhabited |]. split; [split; [apply PowSpec_poly | apply PowDiffAtId_poly] |]. unfold JJ; mnum; lra.
Qed.
