(* C16 part 2: the mortar model (model/M_C16_Mortar.v) over R: the Cramer solve is the intended linear solve,
   rigid-motion invariance, non-negativity, vanishing, parallel segments; penalty contact energy. *)
From Coq Require Import Reals Lra Lia QArith Psatz List Bool Classical_Prop.
From OV.base Require Import Num.
From OV.gen Require Import Gen_MortarContact.
From OV.model Require Import M_C16_Mortar.
From OV.proofs Require Import L_C18 L_C16.
Import ListNotations.
Local Open Scope R_scope.

Notation cand := (@M_C16_Mortar.cand R).
Notation xiR := (@compute_xi R NumR).
Notation candsR := (@candidates R NumR).
Notation validR := (@valid R NumR).
Notation selmin := (@sel_min R NumR).
Notation selmax := (@sel_max R NumR).
Notation activeR := (@active R NumR).
Notation seglenR := (@seglen R NumR).

Ltac mnum := unfold_num; q2r; unfold Rltb, Rleb, Reqb in *.

Lemma div_eq (a b a' b' : R) : a = a' -> b = b' -> a / b = a' / b'.
Proof. intros -> ->. reflexivity. Qed.

(* ---------- the 2x2 solve ---------- *)
Theorem compute_xi_solves xa0 xa1 e00 e01 e10 e11 n0 n1 :
  (e00 - e10) * n1 - n0 * (e01 - e11) <> 0 ->
  let '(xi, g) := xiR xa0 xa1 e00 e01 e10 e11 n0 n1 in
  xa0 - ((1 - xi) * e00 + xi * e10) + g * n0 = 0 /\ xa1 - ((1 - xi) * e01 + xi * e11) + g * n1 = 0.
Proof. intros H. unfold compute_xi, solve2. mnum. cbv zeta. split; field; exact H. Qed.

Section Rigid.
  Variables c s tx ty : R.
  Hypothesis Hcs : c * c + s * s = 1.
  Notation rX := (rx c s tx). Notation rY := (ry c s ty).
  Definition rot0 (n0 n1 : R) : R := c * n0 - s * n1.
  Definition rot1 (n0 n1 : R) : R := s * n0 + c * n1.
  Ltac rot_ring := match goal with |- ?l = ?r => transitivity ((c * c + s * s) * r); [unfold rx, ry, rot0, rot1; ring | rewrite Hcs; ring] end.

  Lemma compute_xi_rigid xa0 xa1 e00 e01 e10 e11 n0 n1 :
    xiR (rX xa0 xa1) (rY xa0 xa1) (rX e00 e01) (rY e00 e01) (rX e10 e11) (rY e10 e11) (rot0 n0 n1) (rot1 n0 n1)
    = xiR xa0 xa1 e00 e01 e10 e11 n0 n1.
  Proof. unfold compute_xi, solve2. mnum. cbv zeta. apply pair_eq; apply div_eq; rot_ring. Qed.

  Lemma candidates_rigid a00 a01 a10 a11 b00 b01 b10 b11 n0 n1 :
    candsR (rX a00 a01) (rY a00 a01) (rX a10 a11) (rY a10 a11) (rX b00 b01) (rY b00 b01) (rX b10 b11) (rY b10 b11) (rot0 n0 n1) (rot1 n0 n1)
    = candsR a00 a01 a10 a11 b00 b01 b10 b11 n0 n1.
  Proof.
    unfold candidates. cbn [nopp NumR].
    replace (- rot0 n0 n1) with (rot0 (- n0) (- n1)) by (unfold rot0; ring).
    replace (- rot1 n0 n1) with (rot1 (- n0) (- n1)) by (unfold rot1; ring).
    rewrite !compute_xi_rigid. reflexivity.
  Qed.

  Lemma seglen_rigid e00 e01 e10 e11 : seglenR (rX e00 e01) (rY e00 e01) (rX e10 e11) (rY e10 e11) = seglenR e00 e01 e10 e11.
  Proof. unfold seglen. mnum. f_equal. rot_ring. Qed.

  (* every mortar integral is unchanged when both segments undergo the same rigid motion and the common normal rotates along *)
  Theorem mortar_with_normal_rigid a00 a01 a10 a11 b00 b01 b10 b11 n0 n1 f l quad :
    @mortar_with_normal R NumR (rX a00 a01) (rY a00 a01) (rX a10 a11) (rY a10 a11) (rX b00 b01) (rY b00 b01) (rX b10 b11) (rY b10 b11)
       (rot0 n0 n1) (rot1 n0 n1) f l quad
    = @mortar_with_normal R NumR a00 a01 a10 a11 b00 b01 b10 b11 n0 n1 f l quad.
  Proof. unfold mortar_with_normal. cbv zeta. rewrite candidates_rigid, !seglen_rigid. reflexivity. Qed.

  (* both common-normal rules of the source rotate with the segments *)
  Lemma m_compute_normal_closed a0 a1 b0 b1 :
    @compute_normal R NumR a0 a1 b0 b1 = ((b1 - a1) / dist b0 b1 a0 a1, - (b0 - a0) / dist b0 b1 a0 a1).
  Proof.
    unfold compute_normal. mnum. cbv zeta.
    repeat match goal with |- context [sqrt ?X] =>
      replace (sqrt X) with (dist b0 b1 a0 a1) by (unfold dist; f_equal; unfold d2; ring) end.
    apply pair_eq; unfold Rdiv; ring.
  Qed.
  Lemma m_compute_normal_rigid a0 a1 b0 b1 :
    @compute_normal R NumR (rX a0 a1) (rY a0 a1) (rX b0 b1) (rY b0 b1)
    = (rot0 (fst (@compute_normal R NumR a0 a1 b0 b1)) (snd (@compute_normal R NumR a0 a1 b0 b1)),
       rot1 (fst (@compute_normal R NumR a0 a1 b0 b1)) (snd (@compute_normal R NumR a0 a1 b0 b1))).
  Proof.
    rewrite !m_compute_normal_closed. rewrite (dist_rigid c s tx ty Hcs). cbn [fst snd].
    apply pair_eq; unfold rx, ry, rot0, rot1, Rdiv; ring.
  Qed.

  Theorem normal_from_a_rigid a00 a01 a10 a11 b00 b01 b10 b11 :
    @normal_from_a R NumR (rX a00 a01) (rY a00 a01) (rX a10 a11) (rY a10 a11) (rX b00 b01) (rY b00 b01) (rX b10 b11) (rY b10 b11)
    = (rot0 (fst (@normal_from_a R NumR a00 a01 a10 a11 b00 b01 b10 b11)) (snd (@normal_from_a R NumR a00 a01 a10 a11 b00 b01 b10 b11)),
       rot1 (fst (@normal_from_a R NumR a00 a01 a10 a11 b00 b01 b10 b11)) (snd (@normal_from_a R NumR a00 a01 a10 a11 b00 b01 b10 b11))).
  Proof. unfold normal_from_a. apply m_compute_normal_rigid. Qed.

  Theorem average_normal_rigid a00 a01 a10 a11 b00 b01 b10 b11 :
    @average_normal R NumR (rX a00 a01) (rY a00 a01) (rX a10 a11) (rY a10 a11) (rX b00 b01) (rY b00 b01) (rX b10 b11) (rY b10 b11)
    = (rot0 (fst (@average_normal R NumR a00 a01 a10 a11 b00 b01 b10 b11)) (snd (@average_normal R NumR a00 a01 a10 a11 b00 b01 b10 b11)),
       rot1 (fst (@average_normal R NumR a00 a01 a10 a11 b00 b01 b10 b11)) (snd (@average_normal R NumR a00 a01 a10 a11 b00 b01 b10 b11))).
  Proof.
    unfold average_normal. rewrite !m_compute_normal_rigid.
    destruct (@compute_normal R NumR a00 a01 a10 a11) as [na0 na1].
    destruct (@compute_normal R NumR b00 b01 b10 b11) as [nb0 nb1]. cbn [fst snd]. mnum. cbv zeta. cbn [fst snd].
    replace ((rot0 na0 na1 - rot0 nb0 nb1) * (rot0 na0 na1 - rot0 nb0 nb1) + (rot1 na0 na1 - rot1 nb0 nb1) * (rot1 na0 na1 - rot1 nb0 nb1))
      with ((na0 - nb0) * (na0 - nb0) + (na1 - nb1) * (na1 - nb1)) by (symmetry; rot_ring).
    apply pair_eq; unfold rot0, rot1, Rdiv; ring.
  Qed.

  Theorem mortar_rigid (rule : R -> R -> R -> R -> R -> R -> R -> R -> R * R) a00 a01 a10 a11 b00 b01 b10 b11 f l quad :
    rule (rX a00 a01) (rY a00 a01) (rX a10 a11) (rY a10 a11) (rX b00 b01) (rY b00 b01) (rX b10 b11) (rY b10 b11)
      = (rot0 (fst (rule a00 a01 a10 a11 b00 b01 b10 b11)) (snd (rule a00 a01 a10 a11 b00 b01 b10 b11)),
         rot1 (fst (rule a00 a01 a10 a11 b00 b01 b10 b11)) (snd (rule a00 a01 a10 a11 b00 b01 b10 b11))) ->
    @mortar R NumR rule (rX a00 a01) (rY a00 a01) (rX a10 a11) (rY a10 a11) (rX b00 b01) (rY b00 b01) (rX b10 b11) (rY b10 b11) f l quad
    = @mortar R NumR rule a00 a01 a10 a11 b00 b01 b10 b11 f l quad.
  Proof.
    intros Hr. unfold mortar. rewrite Hr. destruct (rule a00 a01 a10 a11 b00 b01 b10 b11) as [n0 n1]. cbn [fst snd].
    apply mortar_with_normal_rigid.
  Qed.
End Rigid.

(* ---------- selection of the overlap end points ---------- *)
Definition vP (x : cand) : Prop := 0 <= cxa x <= 1 /\ 0 <= cxb x <= 1.
Lemma valid_iff (x : cand) : validR x = true <-> vP x.
Proof.
  unfold valid, vP. mnum. rewrite !andb_true_iff.
  destruct (Rle_dec 0 (cxa x)), (Rle_dec (cxa x) 1), (Rle_dec 0 (cxb x)), (Rle_dec (cxb x) 1);
    split; intros H; try lra; try (repeat split; (reflexivity || lra)); try (destruct H as [[[? ?] ?] ?]; discriminate).
Qed.

Definition ltR : R -> R -> bool := @nltb R NumR.
Definition gtR (x y : R) : bool := ltR y x.
Notation fbR := (@first_best R NumR).

(* first_best returns a valid candidate that is extremal among the valid ones (the first such), or None when there is none *)
Lemma fb_min_spec l : forall best,
  (forall b, best = Some b -> vP b) ->
  match fbR ltR l best with
  | None => best = None /\ (forall x, In x l -> ~ vP x)
  | Some m => vP m /\ (In m l \/ best = Some m) /\ (forall x, In x l -> vP x -> cxa m <= cxa x) /\ (forall b, best = Some b -> cxa m <= cxa b)
  end.
Proof.
  induction l as [|x r IH]; intros best Hb; cbn [first_best].
  - destruct best as [b|]; [|split; [reflexivity|intros ? []]].
    split; [apply Hb; reflexivity|]. split; [right; reflexivity|]. split; [intros ? []|]. intros b' E; injection E as <-; lra.
  - destruct (validR x) eqn:V.
    + apply valid_iff in V.
      destruct best as [b|].
      * destruct (ltR (cxa x) (cxa b)) eqn:Hc; [change (Rltb (cxa x) (cxa b) = true) in Hc; apply Rltb_true in Hc|change (Rltb (cxa x) (cxa b) = false) in Hc; apply Rltb_false in Hc].
        -- specialize (IH (Some x)). destruct (fbR ltR r (Some x)) as [m|].
           ++ destruct IH as (Vm & Hin & Hall & Hbest); [intros ? E; injection E as <-; exact V|].
              specialize (Hbest x eq_refl).
              split; [exact Vm|]. split; [destruct Hin as [Hin|E]; [left; right; exact Hin|injection E as <-; left; left; reflexivity]|].
              split; [intros y [<-|Hy] Vy; [exact Hbest|apply Hall; assumption]|]. intros b' E; injection E as <-; lra.
           ++ destruct IH as [E _]; [intros ? E; injection E as <-; exact V|discriminate].
        -- specialize (IH (Some b) Hb). destruct (fbR ltR r (Some b)) as [m|].
           ++ destruct IH as (Vm & Hin & Hall & Hbest). specialize (Hbest b eq_refl).
              split; [exact Vm|]. split; [destruct Hin as [Hin|E]; [left; right; exact Hin|right; exact E]|].
              split; [intros y [<-|Hy] Vy; [lra|apply Hall; assumption]|]. intros b' E; injection E as <-; lra.
           ++ destruct IH as [E _]; discriminate.
      * specialize (IH (Some x)). destruct (fbR ltR r (Some x)) as [m|].
        -- destruct IH as (Vm & Hin & Hall & Hbest); [intros ? E; injection E as <-; exact V|].
           specialize (Hbest x eq_refl).
           split; [exact Vm|]. split; [destruct Hin as [Hin|E]; [left; right; exact Hin|injection E as <-; left; left; reflexivity]|].
           split; [intros y [<-|Hy] Vy; [exact Hbest|apply Hall; assumption]|]. intros b' E; discriminate.
        -- destruct IH as [E _]; [intros ? E; injection E as <-; exact V|discriminate].
    + assert (NV : ~ vP x) by (intros H; apply valid_iff in H; congruence).
      specialize (IH best Hb). destruct (fbR ltR r best) as [m|].
      * destruct IH as (Vm & Hin & Hall & Hbest).
        split; [exact Vm|]. split; [destruct Hin as [Hin|E]; [left; right; exact Hin|right; exact E]|].
        split; [intros y [<-|Hy] Vy; [contradiction|apply Hall; assumption]|exact Hbest].
      * destruct IH as [E Hall]. split; [exact E|]. intros y [<-|Hy]; [exact NV|apply Hall; exact Hy].
Qed.

Lemma fb_max_spec l : forall best,
  (forall b, best = Some b -> vP b) ->
  match fbR gtR l best with
  | None => best = None /\ (forall x, In x l -> ~ vP x)
  | Some m => vP m /\ (In m l \/ best = Some m) /\ (forall x, In x l -> vP x -> cxa x <= cxa m) /\ (forall b, best = Some b -> cxa b <= cxa m)
  end.
Proof.
  induction l as [|x r IH]; intros best Hb; cbn [first_best].
  - destruct best as [b|]; [|split; [reflexivity|intros ? []]].
    split; [apply Hb; reflexivity|]. split; [right; reflexivity|]. split; [intros ? []|]. intros b' E; injection E as <-; lra.
  - destruct (validR x) eqn:V.
    + apply valid_iff in V.
      destruct best as [b|].
      * destruct (gtR (cxa x) (cxa b)) eqn:Hc; [change (Rltb (cxa b) (cxa x) = true) in Hc; apply Rltb_true in Hc|change (Rltb (cxa b) (cxa x) = false) in Hc; apply Rltb_false in Hc].
        -- specialize (IH (Some x)). destruct (fbR gtR r (Some x)) as [m|].
           ++ destruct IH as (Vm & Hin & Hall & Hbest); [intros ? E; injection E as <-; exact V|].
              specialize (Hbest x eq_refl).
              split; [exact Vm|]. split; [destruct Hin as [Hin|E]; [left; right; exact Hin|injection E as <-; left; left; reflexivity]|].
              split; [intros y [<-|Hy] Vy; [exact Hbest|apply Hall; assumption]|]. intros b' E; injection E as <-; lra.
           ++ destruct IH as [E _]; [intros ? E; injection E as <-; exact V|discriminate].
        -- specialize (IH (Some b) Hb). destruct (fbR gtR r (Some b)) as [m|].
           ++ destruct IH as (Vm & Hin & Hall & Hbest). specialize (Hbest b eq_refl).
              split; [exact Vm|]. split; [destruct Hin as [Hin|E]; [left; right; exact Hin|right; exact E]|].
              split; [intros y [<-|Hy] Vy; [lra|apply Hall; assumption]|]. intros b' E; injection E as <-; lra.
           ++ destruct IH as [E _]; discriminate.
      * specialize (IH (Some x)). destruct (fbR gtR r (Some x)) as [m|].
        -- destruct IH as (Vm & Hin & Hall & Hbest); [intros ? E; injection E as <-; exact V|].
           specialize (Hbest x eq_refl).
           split; [exact Vm|]. split; [destruct Hin as [Hin|E]; [left; right; exact Hin|injection E as <-; left; left; reflexivity]|].
           split; [intros y [<-|Hy] Vy; [exact Hbest|apply Hall; assumption]|]. intros b' E; discriminate.
        -- destruct IH as [E _]; [intros ? E; injection E as <-; exact V|discriminate].
    + assert (NV : ~ vP x) by (intros H; apply valid_iff in H; congruence).
      specialize (IH best Hb). destruct (fbR gtR r best) as [m|].
      * destruct IH as (Vm & Hin & Hall & Hbest).
        split; [exact Vm|]. split; [destruct Hin as [Hin|E]; [left; right; exact Hin|right; exact E]|].
        split; [intros y [<-|Hy] Vy; [contradiction|apply Hall; assumption]|exact Hbest].
      * destruct IH as [E Hall]. split; [exact E|]. intros y [<-|Hy]; [exact NV|apply Hall; exact Hy].
Qed.

(* when all valid candidates share one xiA both searches keep their first valid candidate *)
Lemma fb_const (better : R -> R -> bool) v l : better v v = false -> forall b, cxa b = v ->
  (forall x, In x l -> vP x -> cxa x = v) -> fbR better l (Some b) = Some b.
Proof.
  intros Hbt. induction l as [|x r IH]; intros b Eb Hall; cbn [first_best]; [reflexivity|].
  destruct (validR x) eqn:V.
  - apply valid_iff in V. rewrite (Hall x (or_introl eq_refl) V), Eb, Hbt. apply IH; [exact Eb|]. intros y Hy; apply Hall; right; exact Hy.
  - apply IH; [exact Eb|]. intros y Hy; apply Hall; right; exact Hy.
Qed.
Lemma fb_const_none (b1 b2 : R -> R -> bool) v l : b1 v v = false -> b2 v v = false ->
  (forall x, In x l -> vP x -> cxa x = v) -> fbR b1 l None = fbR b2 l None.
Proof.
  intros H1 H2. induction l as [|x r IH]; intros Hall; cbn [first_best]; [reflexivity|].
  destruct (validR x) eqn:V.
  - apply valid_iff in V. pose proof (Hall x (or_introl eq_refl) V) as Ex.
    rewrite (fb_const b1 v r H1 x Ex), (fb_const b2 v r H2 x Ex); try reflexivity; intros y Hy; apply Hall; right; exact Hy.
  - apply IH. intros y Hy; apply Hall; right; exact Hy.
Qed.

Definition some_valid (l : list cand) : Prop := exists x, In x l /\ vP x.

Theorem selection_spec l : some_valid l ->
  vP (selmin l) /\ vP (selmax l) /\ In (selmin l) l /\ In (selmax l) l /\
  (forall x, In x l -> vP x -> cxa (selmin l) <= cxa x <= cxa (selmax l)).
Proof.
  intros (x0 & Hin0 & V0).
  pose proof (fb_min_spec l None) as Hm. pose proof (fb_max_spec l None) as HM.
  unfold sel_min, sel_max. fold ltR. change (fun x y : R => ltR y x) with gtR.
  destruct (fbR ltR l None) as [m|]; [|destruct Hm as [_ Hn]; [intros ? E; discriminate|exfalso; apply (Hn x0 Hin0 V0)]].
  destruct (fbR gtR l None) as [M|]; [|destruct HM as [_ Hn]; [intros ? E; discriminate|exfalso; apply (Hn x0 Hin0 V0)]].
  destruct Hm as (Vm & Im & Am & _); [intros ? E; discriminate|].
  destruct HM as (VM & IM & AM & _); [intros ? E; discriminate|].
  split; [exact Vm|]. split; [exact VM|].
  split; [destruct Im as [?|E]; [assumption|discriminate]|]. split; [destruct IM as [?|E]; [assumption|discriminate]|].
  intros x Hi Vx. split; [apply Am|apply AM]; assumption.
Qed.

Theorem selection_none l : ~ some_valid l -> selmin l = selmax l.
Proof.
  intros Hn. pose proof (fb_min_spec l None) as Hm. pose proof (fb_max_spec l None) as HM.
  unfold sel_min, sel_max. fold ltR. change (fun x y : R => ltR y x) with gtR.
  destruct (fbR ltR l None) as [m|].
  - destruct Hm as (Vm & [Im|E] & _); [intros ? E; discriminate| |discriminate]. exfalso. apply Hn. exists m. split; assumption.
  - destruct (fbR gtR l None) as [M|]; [|reflexivity].
    destruct HM as (VM & [IM|E] & _); [intros ? E; discriminate| |discriminate]. exfalso. apply Hn. exists M. split; assumption.
Qed.

(* touching at a point: smallest and largest valid xiA coincide => the SAME candidate is selected twice *)
Theorem selection_touching l : cxa (selmin l) = cxa (selmax l) -> selmin l = selmax l.
Proof.
  intros E. destruct (classic (some_valid l)) as [Hv|Hn]; [|apply selection_none; exact Hn].
  destruct (selection_spec l Hv) as (_ & _ & _ & _ & Hall).
  set (v := cxa (selmin l)) in *.
  assert (Hc : forall x, In x l -> vP x -> cxa x = v) by (intros x Hi Vx; specialize (Hall x Hi Vx); lra).
  clear Hall E. clearbody v.
  unfold sel_min, sel_max. fold ltR. change (fun x y : R => ltR y x) with gtR.
  rewrite (fb_const_none ltR gtR v l); [reflexivity| | |exact Hc].
  - change (Rltb v v = false). apply Rltb_false. lra.
  - change (Rltb v v = false). apply Rltb_false. lra.
Qed.

(* ---------- the quadrature sum ---------- *)
Definition wsum (f : R -> R -> R -> R) (cmin cmax : cand) (quad : list (R * R)) : R :=
  fold_right (fun q acc => snd q * f (@eval_linear_field_on_edge R NumR (cxa cmin) (cxa cmax) (fst q))
                                     (@eval_linear_field_on_edge R NumR (cxb cmin) (cxb cmax) (fst q))
                                     (@eval_linear_field_on_edge R NumR (cg cmin) (cg cmax) (fst q)) + acc) 0 quad.
Definition dxiA (cmin cmax : cand) (l : R) : R := slin l (cxa cmax) - slin l (cxa cmin).
Definition dxiB (cmin cmax : cand) (l : R) : R := Rabs (slin l (cxb cmax) - slin l (cxb cmin)).

Lemma active_factor cmin cmax lenA lenB f l quad :
  activeR cmin cmax lenA lenB f l quad = / 2 * (lenA * dxiA cmin cmax l + lenB * dxiB cmin cmax l) * wsum f cmin cmax quad.
Proof.
  unfold active, dxiA, dxiB, slin, wsum, eval_linear_field_on_edge. cbv zeta. mnum.
  induction quad as [|[xg wg] r IH]; cbn [map nsum fold_right fst snd].
  - mnum. ring.
  - cbn [nadd NumR]. rewrite IH. field.
Qed.

(* the same candidate at both ends (no valid candidate, or touching at a point): the integral vanishes *)
Theorem active_same x lenA lenB f l quad : activeR x x lenA lenB f l quad = 0.
Proof. rewrite active_factor. unfold dxiA, dxiB. rewrite !Rminus_diag_eq by reflexivity. rewrite Rabs_R0. ring. Qed.

Ltac use_if H := match type of H with ?A -> _ => let a := fresh in first [assert (a : A) by lra; specialize (H a) | clear H] end.

Section Smooth.
  Variable l : R.
  Hypothesis Hl : 0 < l <= 1 / 2.

  Lemma qmono z1 z2 : 0 <= z1 <= z2 -> z1 ^ 2 / (2 * l) <= z2 ^ 2 / (2 * l).
  Proof. intros H. unfold Rdiv. apply Rmult_le_compat_r; [left; apply Rinv_0_lt_compat; lra|nra]. Qed.
  Lemma qbound z : 0 <= z <= l -> 0 <= z ^ 2 / (2 * l) <= l / 2.
  Proof.
    intros H. split.
    - apply Rmult_le_pos; [nra|left; apply Rinv_0_lt_compat; lra].
    - apply Rmult_le_reg_r with (2 * l); [lra|]. unfold Rdiv. rewrite Rmult_assoc, Rinv_l by lra. nra.
  Qed.

  (* smooth_linear is non-decreasing on [0,1] *)
  Theorem slin_monotone x y : 0 <= x <= y -> y <= 1 -> slin l x <= slin l y.
  Proof.
    intros Hx Hy. rewrite !(slin_is_pw l Hl). unfold slin_pw, Piecewise.pw.
    destruct (Rle_dec x l), (Rle_dec y l), (Rle_dec x (1 - l)), (Rle_dec y (1 - l)); try lra.
    all: pose proof (qbound x) as B1; pose proof (qbound (1 - y)) as B2; pose proof (qmono x y) as B3;
      pose proof (qmono (1 - y) (1 - x)) as B4; use_if B1; use_if B2; use_if B3; use_if B4; lra.
  Qed.

  (* and within l/2 of the straight line x - l/2 *)
  Lemma slin_near_line x : 0 <= x <= 1 -> Rabs (slin l x - (x - l / 2)) <= l / 2.
  Proof.
    intros Hx. rewrite (slin_is_pw l Hl). unfold slin_pw, Piecewise.pw.
    destruct (Rle_dec x l), (Rle_dec x (1 - l)); try lra.
    - replace (x ^ 2 / (2 * l) - (x - l / 2)) with ((l - x) ^ 2 / (2 * l)) by (field; lra).
      pose proof (qbound (l - x)) as B; use_if B. rewrite Rabs_right; lra.
    - rewrite Rabs_right; lra.
    - replace (1 - l - (1 - x) ^ 2 / (2 * l) - (x - l / 2)) with (- ((l - (1 - x)) ^ 2 / (2 * l))) by (field; lra).
      pose proof (qbound (l - (1 - x))) as B; use_if B. rewrite Rabs_Ropp, Rabs_right; lra.
  Qed.
  Lemma slin_increment x0 x1 : 0 <= x0 <= 1 -> 0 <= x1 <= 1 -> Rabs ((slin l x1 - slin l x0) - (x1 - x0)) <= l.
  Proof.
    intros H0 H1. pose proof (slin_near_line x0 H0) as A0. pose proof (slin_near_line x1 H1) as A1.
    replace (slin l x1 - slin l x0 - (x1 - x0)) with ((slin l x1 - (x1 - l / 2)) - (slin l x0 - (x0 - l / 2))) by ring.
    eapply Rle_trans; [apply Rabs_triang|]. rewrite Rabs_Ropp. lra.
  Qed.

  Lemma wsum_nonneg f cmin cmax quad : (forall q, In q quad -> 0 <= snd q) -> (forall xa xb g, 0 <= f xa xb g) -> 0 <= wsum f cmin cmax quad.
  Proof.
    intros Hw Hf. unfold wsum. induction quad as [|q r IH]; cbn [fold_right]; [lra|].
    assert (0 <= snd q) by (apply Hw; left; reflexivity).
    assert (0 <= fold_right (fun q acc => snd q * f (@eval_linear_field_on_edge R NumR (cxa cmin) (cxa cmax) (fst q))
                                     (@eval_linear_field_on_edge R NumR (cxb cmin) (cxb cmax) (fst q))
                                     (@eval_linear_field_on_edge R NumR (cg cmin) (cg cmax) (fst q)) + acc) 0 r)
      by (apply IH; intros; apply Hw; right; assumption).
    pose proof (Hf (@eval_linear_field_on_edge R NumR (cxa cmin) (cxa cmax) (fst q)) (@eval_linear_field_on_edge R NumR (cxb cmin) (cxb cmax) (fst q))
                   (@eval_linear_field_on_edge R NumR (cg cmin) (cg cmax) (fst q))). nra.
  Qed.

  (* non-negative integrand, non-negative quadrature weights => non-negative integral, for ANY common normal *)
  Theorem mortar_nonneg a00 a01 a10 a11 b00 b01 b10 b11 n0 n1 f quad :
    (forall q, In q quad -> 0 <= snd q) -> (forall xa xb g, 0 <= f xa xb g) ->
    0 <= @mortar_with_normal R NumR a00 a01 a10 a11 b00 b01 b10 b11 n0 n1 f l quad.
  Proof.
    intros Hw Hf. unfold mortar_with_normal. cbv zeta. set (cs := candsR _ _ _ _ _ _ _ _ _ _).
    destruct (classic (some_valid cs)) as [Hv|Hn]; [|rewrite (selection_none cs Hn), active_same; lra].
    destruct (selection_spec cs Hv) as (Vm & VM & Im & IM & Hall).
    rewrite active_factor. pose proof (wsum_nonneg f (selmin cs) (selmax cs) quad Hw Hf) as W.
    assert (0 <= dxiA (selmin cs) (selmax cs) l).
    { unfold dxiA. pose proof (Hall (selmax cs) IM VM) as Hx. destruct Vm as [Vm _], VM as [VM _]. pose proof (slin_monotone (cxa (selmin cs)) (cxa (selmax cs))). lra. }
    assert (0 <= dxiB (selmin cs) (selmax cs) l) by (unfold dxiB; apply Rabs_pos).
    assert (0 <= seglenR a00 a01 a10 a11) by (unfold seglen; mnum; apply sqrt_pos).
    assert (0 <= seglenR b00 b01 b10 b11) by (unfold seglen; mnum; apply sqrt_pos).
    apply Rmult_le_pos; [|exact W]. apply Rmult_le_pos; [lra|]. apply Rplus_le_le_0_compat; apply Rmult_le_pos; assumption.
  Qed.

  (* no valid candidate pair (segments do not overlap along the common normal): the integral is zero *)
  Theorem mortar_no_overlap a00 a01 a10 a11 b00 b01 b10 b11 n0 n1 f quad :
    ~ some_valid (candsR a00 a01 a10 a11 b00 b01 b10 b11 n0 n1) ->
    @mortar_with_normal R NumR a00 a01 a10 a11 b00 b01 b10 b11 n0 n1 f l quad = 0.
  Proof. intros Hn. unfold mortar_with_normal. cbv zeta. rewrite (selection_none _ Hn). apply active_same. Qed.

  (* the overlap degenerates to a point: zero *)
  Theorem mortar_touching a00 a01 a10 a11 b00 b01 b10 b11 n0 n1 f quad :
    let cs := candsR a00 a01 a10 a11 b00 b01 b10 b11 n0 n1 in
    cxa (selmin cs) = cxa (selmax cs) ->
    @mortar_with_normal R NumR a00 a01 a10 a11 b00 b01 b10 b11 n0 n1 f l quad = 0.
  Proof. cbv zeta. intros E. unfold mortar_with_normal. cbv zeta. rewrite (selection_touching _ E). apply active_same. Qed.
End Smooth.

(* ---------- penalty contact energy ---------- *)
Lemma nsumR_nonneg (l : list R) : (forall x, In x l -> 0 <= x) -> 0 <= @nsum R NumR l /\ (@nsum R NumR l = 0 <-> forall x, In x l -> x = 0).
Proof.
  induction l as [|x r IH]; intros H; cbn [nsum].
  - mnum. split; [lra|]. split; [intros _ ? []|reflexivity].
  - cbn [nadd NumR]. assert (Hx : 0 <= x) by (apply H; left; reflexivity).
    destruct IH as [P Z]; [intros; apply H; right; assumption|]. split; [lra|]. split.
    + intros E y [<-|Hy]; [lra|]. apply Z; [lra|exact Hy].
    + intros A. rewrite (A x (or_introl eq_refl)). assert (@nsum R NumR r = 0) by (apply Z; intros; apply A; right; assumption). lra.
Qed.

Lemma negpart_sq phi : 0 <= @nsq R NumR (@nmin R NumR 0 phi) /\ (@nsq R NumR (@nmin R NumR 0 phi) = 0 <-> 0 <= phi).
Proof.
  unfold nsq, nmin. mnum. destruct (Rlt_dec 0 phi); split; try nra; split; intros; try lra; try nra.
Qed.

(* one edge: stiffness > 0, edge length > 0, quadrature weights > 0 *)
Theorem penalty_edge_sign k jac (wphi : list (R * R)) : 0 < k -> 0 < jac -> (forall q, In q wphi -> 0 < fst q) ->
  0 <= @penalty_edge R NumR k jac wphi /\
  (@penalty_edge R NumR k jac wphi = 0 <-> forall q, In q wphi -> 0 <= snd q).
Proof.
  intros Hk Hj Hw. unfold penalty_edge.
  set (terms := map _ wphi).
  assert (Ht : forall x, In x terms -> 0 <= x).
  { intros x Hx. apply in_map_iff in Hx. destruct Hx as ([w phi] & <- & Hin). specialize (Hw _ Hin). cbn [fst] in Hw.
    cbn [nmul NumR]. pose proof (proj1 (negpart_sq phi)). apply Rmult_le_pos; [nra|]. mnum. exact H. }
  destruct (nsumR_nonneg terms Ht) as [P Z]. cbn [nmul NumR]. split; [nra|]. split.
  - intros E [w phi] Hin. cbn [snd]. assert (E' : @nsum R NumR terms = 0) by nra.
    pose proof (proj1 Z E' (jac * w * @nsq R NumR (@nmin R NumR 0 phi))) as T0.
    assert (In (jac * w * @nsq R NumR (@nmin R NumR 0 phi)) terms) as Hi.
    { unfold terms. apply in_map_iff. exists (w, phi). split; [mnum; reflexivity|exact Hin]. }
    specialize (T0 Hi). specialize (Hw _ Hin). cbn [fst] in Hw.
    apply (proj2 (negpart_sq phi)). apply Rmult_integral in T0. destruct T0 as [T0|T0]; [|exact T0].
    pose proof (Rmult_lt_0_compat _ _ Hj Hw). lra.
  - intros A. assert (E' : @nsum R NumR terms = 0); [|rewrite E'; ring].
    apply Z. intros x Hx. apply in_map_iff in Hx. destruct Hx as ([w phi] & <- & Hin).
    specialize (A _ Hin). cbn [snd] in A. apply (proj2 (negpart_sq phi)) in A. cbn [nmul NumR]. mnum. rewrite A. ring.
Qed.

(* all edges: the total vanishes exactly when no sample point penetrates *)
Theorem penalty_total_sign (edges : list (R * R * list (R * R))) :
  (forall e, In e edges -> 0 < fst (fst e) /\ 0 < snd (fst e) /\ forall q, In q (snd e) -> 0 < fst q) ->
  0 <= @penalty_total R NumR edges /\
  (@penalty_total R NumR edges = 0 <-> forall e q, In e edges -> In q (snd e) -> 0 <= snd q).
Proof.
  intros H. unfold penalty_total. set (terms := map _ edges).
  assert (Ht : forall x, In x terms -> 0 <= x).
  { intros x Hx. apply in_map_iff in Hx. destruct Hx as ([[k jac] wphi] & <- & Hin). destruct (H _ Hin) as (Hk & Hj & Hw).
    apply penalty_edge_sign; assumption. }
  destruct (nsumR_nonneg terms Ht) as [P Z]. split; [exact P|]. split.
  - intros E [[k jac] wphi] q Hin Hq. cbn [snd] in *. destruct (H _ Hin) as (Hk & Hj & Hw). cbn [fst snd] in *.
    apply (proj2 (penalty_edge_sign k jac wphi Hk Hj Hw)); [|exact Hq].
    apply (proj1 Z E). unfold terms. apply in_map_iff. exists (k, jac, wphi). split; [reflexivity|exact Hin].
  - intros A. apply Z. intros x Hx. apply in_map_iff in Hx. destruct Hx as ([[k jac] wphi] & <- & Hin).
    destruct (H _ Hin) as (Hk & Hj & Hw). cbn [fst snd] in *.
    apply (proj2 (penalty_edge_sign k jac wphi Hk Hj Hw)). intros q Hq. apply (A _ q Hin). exact Hq.
Qed.

(* ---------- parallel, oppositely oriented segments ---------- *)
Lemma list4_eq (a b c d a' b' c' d' : cand) : a = a' -> b = b' -> c = c' -> d = d' -> [a; b; c; d] = [a'; b'; c'; d'].
Proof. intros -> -> -> ->. reflexivity. Qed.

Lemma wsum_one cmin cmax quad : wsum (fun _ _ _ => 1) cmin cmax quad = fold_right (fun q acc => snd q + acc) 0 quad.
Proof. unfold wsum. induction quad as [|q r IH]; cbn [fold_right]; [reflexivity|]. rewrite IH. ring. Qed.
Lemma wsum_const_gap cmin cmax quad h : cg cmin = h -> cg cmax = h ->
  wsum (fun _ _ g => g) cmin cmax quad = h * fold_right (fun q acc => snd q + acc) 0 quad.
Proof.
  intros E0 E1. unfold wsum. rewrite E0, E1. induction quad as [|q r IH]; cbn [fold_right]; [ring|]. rewrite IH.
  unfold eval_linear_field_on_edge. mnum. ring.
Qed.

Section Parallel.
  (* segment A from (0,0) to (LA,0); segment B from (u,-h) to (v,-h) with v < u (opposite orientation), signed distance h
     along A's outward normal (0,-1).  By mortar_rigid this covers every position and orientation of such a pair. *)
  Variables LA u v h l : R.
  Hypothesis HLA : 0 < LA.
  Hypothesis Huv : v < u.
  Hypothesis Hl : 0 < l <= 1 / 2.
  Let lo := Rmax 0 v.
  Let hi := Rmin LA u.
  Hypothesis Hov : lo <= hi.          (* the projections overlap (possibly in a single point) *)
  Let cs := candsR 0 0 LA 0 u (- h) v (- h) 0 (- 1).

  Lemma cs_explicit : cs = [(0, u / (u - v), h); (1, (u - LA) / (u - v), h); (u / LA, 0, h); (v / LA, 1, h)].
  Proof.
    unfold cs, candidates, compute_xi, solve2. mnum. cbv beta iota zeta.
    apply list4_eq; apply triple_eq; try reflexivity; field; lra.
  Qed.

  Definition Xof (x : cand) : R := LA * cxa x.
  Lemma cs_invariant x : In x cs -> Xof x = u - (u - v) * cxb x /\ cg x = h.
  Proof.
    rewrite cs_explicit. unfold Xof. intros [<-|[<-|[<-|[<-|[]]]]]; unfold cxa, cxb, cg; cbn [fst snd]; split; try reflexivity; field; lra.
  Qed.
  Lemma valid_by_X x : Xof x = u - (u - v) * cxb x -> (vP x <-> lo <= Xof x <= hi).
  Proof.
    unfold vP, Xof, lo, hi, Rmax, Rmin. intros E. set (xa := cxa x) in *. set (xb := cxb x) in *.
    assert (Exb : (u - v) * xb = u - LA * xa) by lra.
    destruct (Rle_dec 0 v), (Rle_dec LA u); split; intros H; repeat split; try nra.
  Qed.

  Lemma lo_attained : exists x, In x cs /\ Xof x = lo.
  Proof.
    rewrite cs_explicit. unfold lo, Rmax. destruct (Rle_dec 0 v).
    - exists (v / LA, 1, h). split; [right; right; right; left; reflexivity|]. unfold Xof, cxa; cbn [fst]. field. lra.
    - exists (0, u / (u - v), h). split; [left; reflexivity|]. unfold Xof, cxa; cbn [fst]. ring.
  Qed.
  Lemma hi_attained : exists x, In x cs /\ Xof x = hi.
  Proof.
    rewrite cs_explicit. unfold hi, Rmin. destruct (Rle_dec LA u).
    - exists (1, (u - LA) / (u - v), h). split; [right; left; reflexivity|]. unfold Xof, cxa; cbn [fst]. ring.
    - exists (u / LA, 0, h). split; [right; right; left; reflexivity|]. unfold Xof, cxa; cbn [fst]. field. lra.
  Qed.

  Lemma selected_ends : vP (selmin cs) /\ vP (selmax cs) /\ Xof (selmin cs) = lo /\ Xof (selmax cs) = hi /\
    cg (selmin cs) = h /\ cg (selmax cs) = h /\
    (u - v) * cxb (selmin cs) = u - lo /\ (u - v) * cxb (selmax cs) = u - hi.
  Proof.
    destruct lo_attained as (xl & Il & El). destruct hi_attained as (xh & Ih & Eh).
    pose proof (cs_invariant xl Il) as [Jl _]. pose proof (cs_invariant xh Ih) as [Jh _].
    assert (Vl : vP xl) by (apply (valid_by_X xl Jl); lra).
    assert (Vh : vP xh) by (apply (valid_by_X xh Jh); lra).
    assert (Hv : some_valid cs) by (exists xl; split; assumption).
    destruct (selection_spec cs Hv) as (Vm & VM & Im & IM & Hall).
    pose proof (cs_invariant _ Im) as [Jm Gm]. pose proof (cs_invariant _ IM) as [JM GM].
    pose proof (proj1 (valid_by_X _ Jm) Vm) as Rm. pose proof (proj1 (valid_by_X _ JM) VM) as RM.
    pose proof (Hall xl Il Vl) as [Al _]. pose proof (Hall xh Ih Vh) as [_ Ah].
    assert (Xof (selmin cs) <= Xof xl) by (unfold Xof; apply Rmult_le_compat_l; lra).
    assert (Xof xh <= Xof (selmax cs)) by (unfold Xof; apply Rmult_le_compat_l; lra).
    assert (Xof (selmin cs) = lo) by lra. assert (Xof (selmax cs) = hi) by lra.
    repeat split; try assumption; try apply Vm; try apply VM; lra.
  Qed.

  Lemma seglen_A : seglenR 0 0 LA 0 = LA.
  Proof. unfold seglen. mnum. replace ((0 - LA) * (0 - LA) + (0 - 0) * (0 - 0)) with (LA * LA) by ring. apply sqrt_square. lra. Qed.
  Lemma seglen_B : seglenR u (- h) v (- h) = u - v.
  Proof. unfold seglen. mnum. replace ((u - v) * (u - v) + (- h - - h) * (- h - - h)) with ((u - v) * (u - v)) by ring. apply sqrt_square. lra. Qed.

  Lemma normal_from_a_axis : @normal_from_a R NumR 0 0 LA 0 u (- h) v (- h) = (0, - 1).
  Proof.
    unfold normal_from_a. rewrite m_compute_normal_closed. unfold dist, d2.
    replace ((LA - 0) * (LA - 0) + (0 - 0) * (0 - 0)) with (LA * LA) by ring. rewrite sqrt_square by lra.
    apply pair_eq; field; lra.
  Qed.

  Variable quad : list (R * R).
  Hypothesis Hw1 : fold_right (fun q acc => snd q + acc) 0 quad = 1.

  (* area integral: the overlap length up to the smoothing length l*(|A|+|B|)/2; gap integral: exactly h times the area integral *)
  Theorem parallel_segments :
    Rabs (@mortar R NumR (@normal_from_a R NumR) 0 0 LA 0 u (- h) v (- h) (fun _ _ _ => 1) l quad - (hi - lo)) <= l * (LA + (u - v)) / 2 /\
    @mortar R NumR (@normal_from_a R NumR) 0 0 LA 0 u (- h) v (- h) (fun _ _ g => g) l quad
      = h * @mortar R NumR (@normal_from_a R NumR) 0 0 LA 0 u (- h) v (- h) (fun _ _ _ => 1) l quad.
  Proof.
    unfold mortar. rewrite normal_from_a_axis. unfold mortar_with_normal. cbv zeta. fold cs.
    rewrite seglen_A, seglen_B, !active_factor.
    destruct selected_ends as (Vm & VM & Xm & XM & Gm & GM & Bm & BM).
    rewrite wsum_one, (wsum_const_gap _ _ _ h Gm GM), Hw1. split; [|ring].
    unfold Xof in Xm, XM. set (m := selmin cs) in *. set (M := selmax cs) in *.
    destruct Vm as [Am Bm'], VM as [AM BM'].
    pose proof (slin_increment l Hl (cxa m) (cxa M) Am AM) as IA.
    pose proof (slin_increment l Hl (cxb m) (cxb M) Bm' BM') as IB.
    assert (EA : LA * dxiA m M l - (hi - lo) = LA * ((slin l (cxa M) - slin l (cxa m)) - (cxa M - cxa m))) by (unfold dxiA; rewrite <- Xm, <- XM; ring).
    assert (EBx : (u - v) * Rabs (cxb M - cxb m) = hi - lo).
    { rewrite <- (Rabs_right (u - v)) at 1 by lra. rewrite <- Rabs_mult.
      replace ((u - v) * (cxb M - cxb m)) with (- (hi - lo)) by lra. rewrite Rabs_Ropp. apply Rabs_right. lra. }
    assert (IB' : Rabs (dxiB m M l - Rabs (cxb M - cxb m)) <= l).
    { unfold dxiB. eapply Rle_trans; [apply Rabs_triang_inv2|exact IB]. }
    assert (ES : / 2 * (LA * dxiA m M l + (u - v) * dxiB m M l) * 1 - (hi - lo)
      = / 2 * (LA * dxiA m M l - (hi - lo)) + / 2 * ((u - v) * (dxiB m M l - Rabs (cxb M - cxb m)))).
    { set (K := hi - lo) in *. rewrite <- EBx. field. }
    rewrite ES.
    eapply Rle_trans; [apply Rabs_triang|]. rewrite EA, !Rabs_mult, (Rabs_right (/ 2)), (Rabs_right LA), (Rabs_right (u - v)) by lra.
    assert (LA * Rabs (slin l (cxa M) - slin l (cxa m) - (cxa M - cxa m)) <= LA * l) by (apply Rmult_le_compat_l; lra).
    assert ((u - v) * Rabs (dxiB m M l - Rabs (cxb M - cxb m)) <= (u - v) * l) by (apply Rmult_le_compat_l; lra).
    lra.
  Qed.
End Parallel.

(* the same in every position and orientation (rotation (c,s), translation (tx,ty)) *)
Theorem parallel_segments_any_position c s tx ty LA u v h l quad :
  c * c + s * s = 1 -> 0 < LA -> v < u -> 0 < l <= 1 / 2 -> Rmax 0 v <= Rmin LA u ->
  fold_right (fun q acc => snd q + acc) 0 quad = 1 ->
  let m f := @mortar R NumR (@normal_from_a R NumR)
               (rx c s tx 0 0) (ry c s ty 0 0) (rx c s tx LA 0) (ry c s ty LA 0)
               (rx c s tx u (- h)) (ry c s ty u (- h)) (rx c s tx v (- h)) (ry c s ty v (- h)) f l quad in
  Rabs (m (fun _ _ _ => 1) - (Rmin LA u - Rmax 0 v)) <= l * (LA + (u - v)) / 2 /\
  m (fun _ _ g => g) = h * m (fun _ _ _ => 1).
Proof.
  intros Hcs HLA Huv Hl Hov Hw. cbv beta zeta.
  rewrite !(mortar_rigid c s tx ty Hcs (@normal_from_a R NumR)) by (apply normal_from_a_rigid; exact Hcs).
  apply parallel_segments; assumption.
Qed.

(* hypotheses of the theorems above are satisfiable *)
Lemma C16_mortar_nonvacuous :
  (0 < 1 <= 1 / 2 + 1 / 2) /\ (3 / 5 * (3 / 5) + 4 / 5 * (4 / 5) = 1) /\ Rmax 0 (1 / 4) <= Rmin 1 (3 / 4) /\
  fold_right (fun q acc => snd q + acc) 0 [(1 / 4, 1 / 2); (3 / 4, 1 / 2)] = 1 /\
  vP (1 / 2, 1 / 2, 0).
Proof.
  repeat split; try lra; try (cbn [fold_right snd]; lra); try (unfold cxa, cxb; cbn [fst snd]; lra).
  unfold Rmax, Rmin. destruct (Rle_dec 0 (1 / 4)), (Rle_dec 1 (3 / 4)); lra.
Qed.

(* ---------- Contact.get_closest_distance: nearest of several edges ---------- *)
Lemma closest_of_spec l : forall best,
  (@closest_of R NumR best l = best \/ In (@closest_of R NumR best l) l) /\
  Rabs (@closest_of R NumR best l) <= Rabs best /\ (forall d, In d l -> Rabs (@closest_of R NumR best l) <= Rabs d).
Proof.
  induction l as [|d r IH]; intros best; cbn [closest_of].
  - split; [left; reflexivity|]. split; [lra|intros ? []].
  - cbn [nltb nabs NumR]. unfold Rltb. destruct (Rlt_dec (Rabs d) (Rabs best)) as [H|H].
    + destruct (IH d) as (I & B & A). split; [right; destruct I as [->|I]; [left; reflexivity|right; exact I]|].
      split; [lra|]. intros x [<-|Hx]; [exact B|apply A; exact Hx].
    + destruct (IH best) as (I & B & A). split; [destruct I as [->|I]; [left; reflexivity|right; right; exact I]|].
      split; [exact B|]. intros x [<-|Hx]; [lra|apply A; exact Hx].
Qed.
(* the returned signed distance is one of the edges' and has the smallest magnitude: with cpp_distance_abs its magnitude is the
   Euclidean distance from the point to the union of the edges *)
Theorem closest_distance_spec l : l <> [] ->
  In (@closest_distance R NumR l) l /\ forall d, In d l -> Rabs (@closest_distance R NumR l) <= Rabs d.
Proof.
  destruct l as [|d r]; [congruence|]. intros _. unfold closest_distance. destruct (closest_of_spec r d) as (I & B & A).
  split; [destruct I as [->|I]; [left; reflexivity|right; exact I]|]. intros x [<-|Hx]; [exact B|apply A; exact Hx].
Qed.

(* the two rules shipped with the source, end to end *)
Corollary mortar_rigid_from_a c s tx ty : c * c + s * s = 1 -> forall a00 a01 a10 a11 b00 b01 b10 b11 f l quad,
  @mortar R NumR (@normal_from_a R NumR) (rx c s tx a00 a01) (ry c s ty a00 a01) (rx c s tx a10 a11) (ry c s ty a10 a11)
     (rx c s tx b00 b01) (ry c s ty b00 b01) (rx c s tx b10 b11) (ry c s ty b10 b11) f l quad
  = @mortar R NumR (@normal_from_a R NumR) a00 a01 a10 a11 b00 b01 b10 b11 f l quad.
Proof. intros H *. apply (mortar_rigid c s tx ty H). apply normal_from_a_rigid. exact H. Qed.
Corollary mortar_rigid_average c s tx ty : c * c + s * s = 1 -> forall a00 a01 a10 a11 b00 b01 b10 b11 f l quad,
  @mortar R NumR (@average_normal R NumR) (rx c s tx a00 a01) (ry c s ty a00 a01) (rx c s tx a10 a11) (ry c s ty a10 a11)
     (rx c s tx b00 b01) (ry c s ty b00 b01) (rx c s tx b10 b11) (ry c s ty b10 b11) f l quad
  = @mortar R NumR (@average_normal R NumR) a00 a01 a10 a11 b00 b01 b10 b11 f l quad.
Proof. intros H *. apply (mortar_rigid c s tx ty H). apply average_normal_rigid. exact H. Qed.
