(* C06 -- treigen.solve returns a global minimiser of the model over the ball: ONE theorem about model/M_C06_Treigen.v at T := R,
   derived from the contract of numpy's eigh (orthogonal V given as a list of rows, A = V diag(sig) V^T, sig ascending).
   Ingredients: (A) matrix algebra over lists for the model's matvec / transpose_n; (B) the eigen-coordinate identities;
   (C) the More'-Sorensen hypotheses of L_C06_Treigen.ms_sufficiency for p = -V (bv/(sig+lam)); (D) the invariant of the secular
   Newton iteration (the iterates stay on the side |p(lam)| >= Delta, by convexity of 1/(1+h y)^2), so the returned multiplier is
   admissible; every continuing pass raises lam by at least (sig_0 + lam_0) * tol while sig_0 + lam <= |b|/Delta, which bounds the number
   of passes: the loop leaves through its tolerance test for every tolerance > 0 once the cap exceeds that bound; over R the exit
   `lamNew == lam` is never taken; (E) the branches of treigen_solve as repaired by repo commits 4d37146 (zero Hessian) and 545a5c4
   (capped loop with a stall exit). *)
From Coq Require Import Reals Lra Lia List QArith Psatz Bool ZArith.
From OV.base Require Import Num.
From OV.model Require Import M_C06_Vec M_C06_Treigen.
From OV.proofs Require Import L_C06_Vec L_C06_Treigen.
Import ListNotations.
Local Open Scope R_scope.

Notation rmatvec := (@matvec R NumR).
Notation rtranspose := (@transpose_n R NumR).
Notation rmul := (@vmul R NumR).
Notation rdiv := (@vdiv R NumR).
Notation rshift := (@vshift R NumR).

(* ------------------------------------------------------------------ (A) matrices as lists of rows *)
Definition rows (k : nat) (M : list rvec) : Prop := forall row, In row M -> len k row.

Lemma matvec_cons row M y : rmatvec (row :: M) y = (row ⋅ y) :: rmatvec M y.
Proof. reflexivity. Qed.
Lemma raxpy_cons x xs t y ys : raxpy (x :: xs) t (y :: ys) = (x + t * y) :: raxpy xs t ys.
Proof. reflexivity. Qed.
Lemma rneg_cons x xs : rneg (x :: xs) = (- x) :: rneg xs.
Proof. reflexivity. Qed.
Lemma rscale_cons t x xs : rscale t (x :: xs) = (t * x) :: rscale t xs.
Proof. reflexivity. Qed.
Lemma length_matvec M y : length (rmatvec M y) = length M.
Proof. unfold matvec. apply map_length. Qed.
Lemma length_transpose k M : length (rtranspose k M) = k.
Proof. revert M; induction k as [|k IH]; intros M; [reflexivity|]. cbn [transpose_n length]. rewrite IH. reflexivity. Qed.
Lemma rows_tl k M : rows (S k) M -> rows k (map (@tl R) M).
Proof.
  intros H row Hin. apply in_map_iff in Hin. destruct Hin as (r & <- & Hr). specialize (H r Hr).
  unfold len in *. destruct r; [discriminate|]. cbn in *. congruence.
Qed.

Lemma dot_matvec_nil M x : x ⋅ rmatvec M [] = 0.
Proof.
  revert x; induction M as [|row M IH]; intros x.
  - apply rdot_nil_r.
  - destruct x as [|a x]; [apply rdot_nil_l|]. rewrite matvec_cons, rdot_cons, IH, rdot_nil_r. ring.
Qed.
Lemma dot_matvec_cons k M x y0 y' : rows (S k) M ->
  x ⋅ rmatvec M (y0 :: y') = y0 * (map (fun row : rvec => hd (@nzero R NumR) row) M ⋅ x) + x ⋅ rmatvec (map (@tl R) M) y'.
Proof.
  revert x; induction M as [|row M IH]; intros x HM.
  - cbn [map]. change (rmatvec [] (y0 :: y')) with (@nil R). change (rmatvec [] y') with (@nil R).
    rewrite rdot_nil_r, rdot_nil_l. ring.
  - destruct x as [|a x].
    + rewrite !rdot_nil_l, rdot_nil_r. ring.
    + assert (Hrow := HM row (or_introl eq_refl)). destruct row as [|r0 r']; [discriminate|].
      cbn [map hd tl]. rewrite !matvec_cons, !rdot_cons. rewrite IH by (intros r Hr; apply HM; right; exact Hr). ring.
Qed.
(* transpose_n k M is the transpose of M: x . (M y) = (M^T x) . y *)
Lemma adjoint k : forall M x y, rows k M -> len k y -> x ⋅ rmatvec M y = rmatvec (rtranspose k M) x ⋅ y.
Proof.
  induction k as [|k IH]; intros M x y HM Hy.
  - destruct y; [|discriminate]. rewrite dot_matvec_nil. cbn [transpose_n]. symmetry. apply rdot_nil_r.
  - destruct y as [|y0 y']; [discriminate|]. cbn [transpose_n]. rewrite matvec_cons, rdot_cons.
    rewrite (dot_matvec_cons k) by assumption.
    rewrite (IH (map (@tl R) M) x y') by (try apply rows_tl; try assumption; unfold len in *; cbn in Hy; congruence). ring.
Qed.

Lemma matvec_raxpy k M a t c : len k a -> len k c -> rmatvec M (raxpy a t c) = raxpy (rmatvec M a) t (rmatvec M c).
Proof.
  intros Ha Hc. induction M as [|row M IH]; [reflexivity|].
  rewrite !matvec_cons, raxpy_cons, IH. f_equal. apply (rdot_raxpy_r k); assumption.
Qed.
Lemma matvec_rneg M y : rmatvec M (rneg y) = rneg (rmatvec M y).
Proof. induction M as [|row M IH]; [reflexivity|]. rewrite !matvec_cons, rneg_cons, IH. f_equal. apply rdot_rneg_r. Qed.
Lemma matvec_rscale M t y : rmatvec M (rscale t y) = rscale t (rmatvec M y).
Proof. induction M as [|row M IH]; [reflexivity|]. rewrite !matvec_cons, rscale_cons, IH. f_equal. apply rdot_rscale_r. Qed.

(* the unit vector e_0 and the first column *)
Definition e0 (k : nat) : rvec := 1 :: repeat 0 k.
Lemma rdot_repeat0_r a k : a ⋅ repeat 0 k = 0.
Proof.
  revert k; induction a as [|x a IH]; intros k; [apply rdot_nil_l|]. destruct k; [apply rdot_nil_r|].
  cbn [repeat]. rewrite rdot_cons, IH. ring.
Qed.
Lemma len_e0 k : len (S k) (e0 k).
Proof. unfold len, e0. cbn. rewrite repeat_length. reflexivity. Qed.
Lemma e0_unit k : e0 k ⋅ e0 k = 1.
Proof. unfold e0. rewrite rdot_cons, rdot_repeat0_r. ring. Qed.
Lemma first_column k M : rows (S k) M -> map (fun row : rvec => hd (@nzero R NumR) row) M = rmatvec M (e0 k).
Proof.
  intros HM. induction M as [|row M IH]; [reflexivity|].
  assert (Hrow := HM row (or_introl eq_refl)). destruct row as [|r0 r']; [discriminate|].
  cbn [map hd]. rewrite matvec_cons. rewrite IH by (intros r Hr; apply HM; right; exact Hr). f_equal.
  unfold e0. rewrite rdot_cons, rdot_repeat0_r. ring.
Qed.

(* ------------------------------------------------------------------ (B) eigen-coordinate identities (componentwise) *)
Lemma rmul_cons x a y b : rmul (x :: a) (y :: b) = (x * y) :: rmul a b.
Proof. reflexivity. Qed.
Lemma rdiv_cons x a y b : rdiv (x :: a) (y :: b) = (x / y) :: rdiv a b.
Proof. reflexivity. Qed.
Lemma rshift_cons k x a : rshift k (x :: a) = (x + k) :: rshift k a.
Proof. reflexivity. Qed.
Lemma length_rmul a b : length a = length b -> length (rmul a b) = length a.
Proof. revert b; induction a as [|x a IH]; intros [|y b] E; try discriminate; [reflexivity|]. rewrite rmul_cons. cbn in *. f_equal. apply IH. congruence. Qed.
Lemma length_rdiv a b : length a = length b -> length (rdiv a b) = length a.
Proof. revert b; induction a as [|x a IH]; intros [|y b] E; try discriminate; [reflexivity|]. rewrite rdiv_cons. cbn in *. f_equal. apply IH. congruence. Qed.
Lemma length_rshift k a : length (rshift k a) = length a.
Proof. unfold vshift. apply map_length. Qed.

Definition pnsq := @pnorm_squared R NumR.
Definition qnsq := @qnorm_squared R NumR.
Lemma pnsq_nil_l s : pnsq [] s = 0.
Proof. unfold pnsq, pnorm_squared. apply rdot_nil_l. Qed.
Lemma pnsq_cons w bvv x s : pnsq (w :: bvv) (x :: s) = w * (1 / (x * x)) + pnsq bvv s.
Proof. reflexivity. Qed.
Lemma qnsq_cons w bvv x s : qnsq (w :: bvv) (x :: s) = w * (1 / (x * x * x)) + qnsq bvv s.
Proof. reflexivity. Qed.

Lemma dot_vdiv_self bv s : length bv = length s -> (forall x, In x s -> x <> 0) ->
  rdiv bv s ⋅ rdiv bv s = pnsq (rmul bv bv) s.
Proof.
  revert s; induction bv as [|a bv IH]; intros [|x s] E Hnz; try discriminate.
  - rewrite pnsq_nil_l. apply rdot_nil_l.
  - rewrite rdiv_cons, rmul_cons, rdot_cons, pnsq_cons. rewrite IH; [|cbn in E; congruence|intros y Hy; apply Hnz; right; exact Hy].
    assert (x <> 0) by (apply Hnz; left; reflexivity). field. assumption.
Qed.

(* (sig + lam) q = -bv componentwise, tested against u *)
Lemma shifted_system_coords lam : forall bv sig u, length bv = length sig -> length u = length sig ->
  (forall x, In x sig -> x + lam <> 0) ->
  let q := rneg (rdiv bv (rshift lam sig)) in
  rmul sig q ⋅ u + lam * (q ⋅ u) = - (bv ⋅ u).
Proof.
  induction bv as [|a bv IH]; intros [|x sig] [|y u] E1 E2 Hnz; try discriminate; cbv zeta.
  - rewrite !rdot_nil_l. ring.
  - rewrite rshift_cons, rdiv_cons, rneg_cons, rmul_cons, !rdot_cons.
    specialize (IH sig u ltac:(cbn in E1; congruence) ltac:(cbn in E2; congruence) ltac:(intros z Hz; apply Hnz; right; exact Hz)).
    cbv zeta in IH. assert (x + lam <> 0) by (apply Hnz; left; reflexivity).
    replace (x * - (a / (x + lam)) * y + rmul sig (rneg (rdiv bv (rshift lam sig))) ⋅ u +
             lam * (- (a / (x + lam)) * y + rneg (rdiv bv (rshift lam sig)) ⋅ u))
      with ((x * - (a / (x + lam)) * y + lam * (- (a / (x + lam)) * y)) +
            (rmul sig (rneg (rdiv bv (rshift lam sig))) ⋅ u + lam * (rneg (rdiv bv (rshift lam sig)) ⋅ u))) by ring.
    rewrite IH. field. assumption.
Qed.
Lemma shifted_psd_coords lam : forall sig u, length u = length sig -> (forall x, In x sig -> 0 <= x + lam) ->
  0 <= u ⋅ rmul sig u + lam * (u ⋅ u).
Proof.
  induction sig as [|x sig IH]; intros [|y u] E Hnn; try discriminate.
  - rewrite !rdot_nil_l. lra.
  - rewrite rmul_cons, !rdot_cons. specialize (IH u ltac:(cbn in E; congruence) ltac:(intros z Hz; apply Hnn; right; exact Hz)).
    assert (0 <= x + lam) by (apply Hnn; left; reflexivity). assert (0 <= (x + lam) * (y * y)) by nra. nra.
Qed.
Lemma rmul_sym : forall sig a c, length a = length sig -> length c = length sig -> rmul sig a ⋅ c = a ⋅ rmul sig c.
Proof.
  induction sig as [|x sig IH]; intros [|y a] [|z c] E1 E2; try discriminate.
  - reflexivity.
  - rewrite !rmul_cons, !rdot_cons. rewrite IH by (cbn in *; congruence). ring.
Qed.
Lemma rmul_raxpy t : forall sig a c, length a = length sig -> length c = length sig ->
  rmul sig (raxpy a t c) = raxpy (rmul sig a) t (rmul sig c).
Proof.
  induction sig as [|x sig IH]; intros [|y a] [|z c] E1 E2; try discriminate.
  - reflexivity.
  - rewrite raxpy_cons, !rmul_cons, raxpy_cons. rewrite IH by (cbn in *; congruence). f_equal. ring.
Qed.
Lemma rmul_e0 x sig : rmul (x :: sig) (e0 (length sig)) = rscale x (e0 (length sig)).
Proof.
  unfold e0. rewrite rmul_cons, rscale_cons. f_equal.
  induction sig as [|y sig IH]; [reflexivity|]. cbn [length repeat]. rewrite rmul_cons, rscale_cons, IH. f_equal. ring.
Qed.
Lemma rshift_0 s : rshift 0 s = s.
Proof. induction s as [|x s IH]; [reflexivity|]. rewrite rshift_cons, IH. f_equal. ring. Qed.
Lemma in_rshift lam sig y : In y (rshift lam sig) -> exists x, In x sig /\ y = x + lam.
Proof. unfold vshift. intros H. apply in_map_iff in H. destruct H as (x & E & Hx). exists x. split; [assumption|]. symmetry. exact E. Qed.
Lemma rdot_rneg_rneg a c : rneg a ⋅ rneg c = a ⋅ c.
Proof. rewrite rdot_rneg_l, rdot_rneg_r. ring. Qed.

(* ------------------------------------------------------------------ (D) the secular Newton iteration *)
(* tangent-line inequality for the convex function y -> 1/(1+h y)^2, written with a = 1/y and T = 1 + h ybar *)
Lemma tangent_ineq a h T : 0 < a -> 0 <= h -> 0 < T ->
  (3 * T * (1 / (a * a)) - 2 * (1 / (a * a) + h * (1 / (a * a * a)))) / (T * T * T) <= 1 / ((a + h) * (a + h)).
Proof.
  intros Ha Hh HT.
  assert (E : 1 / ((a + h) * (a + h)) - (3 * T * (1 / (a * a)) - 2 * (1 / (a * a) + h * (1 / (a * a * a)))) / (T * T * T)
              = ((T * a - (a + h)) * (T * a - (a + h)) * (T * a + 2 * (a + h))) / (a * a * a * (T * T * T) * ((a + h) * (a + h)))).
  { field. repeat split; lra. }
  assert (0 <= (T * a - (a + h)) * (T * a - (a + h)) * (T * a + 2 * (a + h))).
  { apply Rmult_le_pos; [apply Rle_0_sqr || nra|]. assert (0 < T * a) by (apply Rmult_lt_0_compat; assumption). lra. }
  assert (0 < a * a * a * (T * T * T) * ((a + h) * (a + h))).
  { repeat apply Rmult_lt_0_compat; lra. }
  assert (0 <= ((T * a - (a + h)) * (T * a - (a + h)) * (T * a + 2 * (a + h))) / (a * a * a * (T * T * T) * ((a + h) * (a + h)))).
  { apply Rmult_le_pos; [assumption|]. left. apply Rinv_0_lt_compat. assumption. }
  lra.
Qed.

Lemma pq_nonneg : forall w s, length w = length s -> (forall x, In x w -> 0 <= x) -> (forall x, In x s -> 0 < x) ->
  0 <= pnsq w s /\ 0 <= qnsq w s /\ (0 < pnsq w s -> 0 < qnsq w s).
Proof.
  induction w as [|c w IH]; intros [|x s] E Hw Hs; try discriminate.
  - unfold pnsq, qnsq, pnorm_squared, qnorm_squared. rewrite !rdot_nil_l. repeat split; lra.
  - rewrite pnsq_cons, qnsq_cons.
    destruct (IH s ltac:(cbn in E; congruence) ltac:(intros y Hy; apply Hw; right; exact Hy) ltac:(intros y Hy; apply Hs; right; exact Hy))
      as (H1 & H2 & H3).
    assert (Hc : 0 <= c) by (apply Hw; left; reflexivity). assert (Hx : 0 < x) by (apply Hs; left; reflexivity).
    assert (P2 : 0 < 1 / (x * x)) by (apply Rdiv_lt_0_compat; nra).
    assert (P3 : 0 < 1 / (x * x * x)) by (apply Rdiv_lt_0_compat; [lra|]; repeat apply Rmult_lt_0_compat; lra).
    assert (0 <= c * (1 / (x * x))) by (apply Rmult_le_pos; lra).
    assert (0 <= c * (1 / (x * x * x))) by (apply Rmult_le_pos; lra).
    repeat split; try lra. intros HN.
    destruct (Rle_lt_or_eq_dec 0 c Hc) as [Hpos|Hz].
    + assert (0 < c * (1 / (x * x * x))) by (apply Rmult_lt_0_compat; assumption). lra.
    + subst c. assert (HNt : 0 < pnsq w s) by lra. specialize (H3 HNt). lra.
Qed.

(* the sum form of Jensen: N(lam + h) >= (3 T N - 2 (N + h Q)) / T^3 for every T > 0 *)
Lemma secular_convexity lam h T : 0 <= h -> 0 < T ->
  forall w sig, length w = length sig -> (forall x, In x w -> 0 <= x) -> (forall x, In x sig -> 0 < x + lam) ->
  (3 * T * pnsq w (rshift lam sig) - 2 * (pnsq w (rshift lam sig) + h * qnsq w (rshift lam sig))) / (T * T * T)
    <= pnsq w (rshift (lam + h) sig).
Proof.
  intros Hh HT. induction w as [|c w IH]; intros [|x sig] E Hw Hs; try discriminate.
  - unfold pnsq, qnsq, pnorm_squared, qnorm_squared. rewrite !rdot_nil_l. unfold Rdiv. rewrite !Rmult_0_r, !Rplus_0_r, Rminus_0_r || idtac.
    assert (E0 : (3 * T * 0 - 2 * (0 + h * 0)) * / (T * T * T) = 0) by (field; lra). lra.
  - rewrite !rshift_cons, !pnsq_cons, qnsq_cons.
    specialize (IH sig ltac:(cbn in E; congruence) ltac:(intros y Hy; apply Hw; right; exact Hy) ltac:(intros y Hy; apply Hs; right; exact Hy)).
    assert (Hc : 0 <= c) by (apply Hw; left; reflexivity). assert (Ha : 0 < x + lam) by (apply Hs; left; reflexivity).
    pose proof (tangent_ineq (x + lam) h T Ha Hh HT) as Ht.
    replace (x + (lam + h)) with (x + lam + h) by ring.
    set (a := x + lam) in *. set (N := pnsq w (rshift lam sig)) in *. set (Q := qnsq w (rshift lam sig)) in *.
    set (N' := pnsq w (rshift (lam + h) sig)) in *.
    assert (Esplit : (3 * T * (c * (1 / (a * a)) + N) - 2 * (c * (1 / (a * a)) + N + h * (c * (1 / (a * a * a)) + Q))) / (T * T * T)
                     = c * ((3 * T * (1 / (a * a)) - 2 * (1 / (a * a) + h * (1 / (a * a * a)))) / (T * T * T))
                       + (3 * T * N - 2 * (N + h * Q)) / (T * T * T)).
    { field. unfold a in *. repeat split; lra. }
    rewrite Esplit.
    assert (c * ((3 * T * (1 / (a * a)) - 2 * (1 / (a * a) + h * (1 / (a * a * a)))) / (T * T * T)) <= c * (1 / ((a + h) * (a + h))))
      by (apply Rmult_le_compat_l; assumption).
    lra.
Qed.

(* one Newton step from the side |p(lam)| >= Delta stays on that side and does not decrease lam *)
Lemma secular_step w sig lam Delta : length w = length sig -> (forall x, In x w -> 0 <= x) -> (forall x, In x sig -> 0 < x + lam) ->
  0 < Delta ->
  let N := pnsq w (rshift lam sig) in let Q := qnsq w (rshift lam sig) in
  Delta <= sqrt N ->
  let lam' := lam + N / Q * ((sqrt N - Delta) / Delta) in
  lam <= lam' /\ Delta <= sqrt (pnsq w (rshift lam' sig)).
Proof.
  intros E Hw Hs HD N Q Hge lam'.
  assert (Hs' : forall y, In y (rshift lam sig) -> 0 < y).
  { intros y Hy. destruct (in_rshift _ _ _ Hy) as (x & Hx & ->). apply Hs; assumption. }
  destruct (pq_nonneg w (rshift lam sig) ltac:(rewrite length_rshift; exact E) Hw Hs') as (HN0 & HQ0 & HNQ).
  fold N in HN0, HNQ. fold Q in HQ0, HNQ.
  assert (Hsq : sqrt N * sqrt N = N) by (apply sqrt_sqrt; assumption).
  assert (HNpos : 0 < N) by nra.
  assert (HQpos : 0 < Q) by (apply HNQ; assumption).
  set (s := sqrt N) in *.
  set (be := (s - Delta) / Delta).
  assert (Hbe : 0 <= be) by (unfold be; apply Rmult_le_pos; [lra|left; apply Rinv_0_lt_compat; assumption]).
  set (h := N / Q * be).
  assert (Hh : 0 <= h).
  { unfold h. apply Rmult_le_pos; [|assumption]. apply Rmult_le_pos; [lra|left; apply Rinv_0_lt_compat; assumption]. }
  assert (HT : 0 < s / Delta) by (apply Rdiv_lt_0_compat; lra).
  pose proof (secular_convexity lam h (s / Delta) Hh HT w sig E Hw Hs) as Hcv. fold N in Hcv. fold Q in Hcv.
  assert (Eval : (3 * (s / Delta) * N - 2 * (N + h * Q)) / (s / Delta * (s / Delta) * (s / Delta)) = Delta * Delta).
  { unfold h, be. rewrite <- Hsq. field. repeat split; lra. }
  rewrite Eval in Hcv.
  split; [unfold lam'; fold s; fold be; fold h; lra|].
  unfold lam'. fold s. fold be. fold h.
  rewrite <- (sqrt_square Delta) by lra. apply sqrt_le_1_alt. exact Hcv.
Qed.

Definition c9 : R := 1 / 1000000000.
Definition rsum := @nsum R NumR.
Lemma rsum_cons x a : rsum (x :: a) = x + rsum a.
Proof. reflexivity. Qed.
Lemma rsum_nil : rsum [] = 0.
Proof. unfold rsum. cbn. unfold_num. q2r. reflexivity. Qed.

(* m * Q <= N  and  m^2 * N <= sum w  when every shifted eigenvalue is >= m > 0 *)
Lemma pq_ratio m : 0 < m -> forall w s, length w = length s -> (forall x, In x w -> 0 <= x) -> (forall y, In y s -> m <= y) ->
  m * qnsq w s <= pnsq w s /\ m * m * pnsq w s <= rsum w.
Proof.
  intros Hm. induction w as [|c w IH]; intros [|x s] E Hw Hs; try discriminate.
  - unfold pnsq, qnsq, pnorm_squared, qnorm_squared. rewrite !rdot_nil_l, rsum_nil. split; lra.
  - rewrite pnsq_cons, qnsq_cons, rsum_cons.
    destruct (IH s ltac:(cbn in E; congruence) ltac:(intros y Hy; apply Hw; right; exact Hy) ltac:(intros y Hy; apply Hs; right; exact Hy))
      as (H1 & H2).
    assert (Hc : 0 <= c) by (apply Hw; left; reflexivity). assert (Hx : m <= x) by (apply Hs; left; reflexivity).
    assert (Hx0 : 0 < x) by lra.
    assert (E1 : 1 / (x * x) - m * (1 / (x * x * x)) = (x - m) / (x * x * x)) by (field; lra).
    assert (P3 : 0 < x * x * x) by (repeat apply Rmult_lt_0_compat; lra).
    assert (0 <= (x - m) / (x * x * x)) by (apply Rmult_le_pos; [lra|left; apply Rinv_0_lt_compat; exact P3]).
    assert (E2 : 1 - m * m * (1 / (x * x)) = (x * x - m * m) / (x * x)) by (field; lra).
    assert (0 <= (x * x - m * m) / (x * x)) by (apply Rmult_le_pos; [nra|left; apply Rinv_0_lt_compat; nra]).
    assert (0 <= c * (1 / (x * x) - m * (1 / (x * x * x)))) by (rewrite E1; apply Rmult_le_pos; assumption).
    assert (0 <= c * (1 - m * m * (1 / (x * x)))) by (rewrite E2; apply Rmult_le_pos; assumption).
    split; nra.
Qed.

(* on the side |p(lam)| >= Delta the shifted lowest eigenvalue is at most sqrt(sum w)/Delta (= |b|/Delta) *)
Lemma shift_upper w sig Delta m lam : length w = length sig -> (forall x, In x w -> 0 <= x) -> (forall x, In x sig -> m <= x) ->
  0 < m + lam -> 0 < Delta -> Delta <= sqrt (pnsq w (rshift lam sig)) -> m + lam <= sqrt (rsum w) / Delta.
Proof.
  intros E Hw Hm Hpos HD Hge.
  assert (Hs : forall y, In y (rshift lam sig) -> m + lam <= y).
  { intros y Hy. destruct (in_rshift _ _ _ Hy) as (x & Hx & ->). specialize (Hm x Hx). lra. }
  destruct (pq_ratio (m + lam) Hpos w (rshift lam sig) ltac:(rewrite length_rshift; exact E) Hw Hs) as (_ & H2).
  set (N := pnsq w (rshift lam sig)) in *. set (W := rsum w) in *.
  assert (HN : Delta * Delta <= N).
  { destruct (Rle_dec 0 N) as [H0|H0].
    - pose proof (sqrt_sqrt N H0). pose proof (sqrt_pos N). nra.
    - rewrite sqrt_neg_0 in Hge by lra. lra. }
  assert (Hmm : 0 <= (m + lam) * (m + lam)) by nra.
  assert (Hc : (m + lam) * (m + lam) * (Delta * Delta) <= (m + lam) * (m + lam) * N) by (apply Rmult_le_compat_l; assumption).
  assert (HW : ((m + lam) * Delta) * ((m + lam) * Delta) <= W) by lra.
  assert (HW0 : 0 <= W) by nra.
  assert (Hsq : (m + lam) * Delta <= sqrt W).
  { rewrite <- (sqrt_square ((m + lam) * Delta)) by nra. apply sqrt_le_1_alt. exact HW. }
  apply Rmult_le_reg_r with Delta; [exact HD|]. unfold Rdiv. rewrite Rmult_assoc, Rinv_l, Rmult_1_r by lra. exact Hsq.
Qed.

Lemma head_test_R tol be : Rltb tol (Rabs be) = @nltb R NumR tol (@nabs R NumR be).
Proof. reflexivity. Qed.

(* what every exit of the secular loop guarantees, from a state on the side |p(lam)| >= Delta:
   lam does not decrease, the final state is on the same side; the tolerance exit means |p| - Delta <= tol*Delta, the end of the
   range with the test still failing means |p| - Delta > tol*Delta after exactly `cap` further updates, and the exit `lamNew == lam`
   is not taken (the Newton correction N/Q * bError is positive as long as bError > tol >= 0) *)
Lemma secular_spec w sig Delta lam0 tol : length w = length sig -> (forall x, In x w -> 0 <= x) ->
  (forall x, In x sig -> 0 < x + lam0) -> 0 < Delta -> 0 <= tol ->
  forall cap k lam lam' br,
  lam0 <= lam -> Delta <= sqrt (pnsq w (rshift lam sig)) ->
  @secular R NumR tol cap k w sig Delta lam (pnsq w (rshift lam sig)) ((sqrt (pnsq w (rshift lam sig)) - Delta) / Delta) = (lam', br) ->
  lam <= lam' /\ Delta <= sqrt (pnsq w (rshift lam' sig)) /\
  match br with
  | TSecular j => sqrt (pnsq w (rshift lam' sig)) - Delta <= tol * Delta /\ (k <= j <= k + cap)%nat
  | TCapped j => tol * Delta < sqrt (pnsq w (rshift lam' sig)) - Delta /\ j = (k + cap)%nat
  | _ => False
  end.
Proof.
  intros E Hw Hs HD Htol.
  assert (Hbe : forall N, Delta <= sqrt N -> Rabs ((sqrt N - Delta) / Delta) = (sqrt N - Delta) / Delta /\ 0 <= (sqrt N - Delta) / Delta).
  { intros N HN. assert (0 <= (sqrt N - Delta) / Delta) by (apply Rmult_le_pos; [lra|left; apply Rinv_0_lt_compat; exact HD]).
    split; [apply Rabs_right; lra|assumption]. }
  assert (Hmul : forall N, (sqrt N - Delta) / Delta * Delta = sqrt N - Delta) by (intros N; field; lra).
  induction cap as [|cap IH]; intros k lam lam' br Hlam Hge Hsec.
  - cbn [secular] in Hsec. unfold_num. q2r. destruct (Hbe _ Hge) as (Eabs & Hnn). rewrite Eabs in Hsec.
    destruct (Rltb tol _) eqn:Et; injection Hsec as <- <-; (split; [lra|]); (split; [exact Hge|]).
    + apply Rltb_true in Et. split; [|lia]. rewrite <- Hmul. apply Rmult_lt_compat_r; assumption.
    + apply Rltb_false in Et. split; [|lia]. rewrite <- Hmul. apply Rmult_le_compat_r; lra.
  - cbn [secular] in Hsec. unfold_num. q2r. destruct (Hbe _ Hge) as (Eabs & Hnn). rewrite Eabs in Hsec.
    destruct (Rltb tol _) eqn:Et.
    + apply Rltb_true in Et.
      assert (Hs1 : forall x, In x sig -> 0 < x + lam) by (intros x Hx; specialize (Hs x Hx); lra).
      destruct (secular_step w sig lam Delta E Hw Hs1 HD Hge) as (Hup & Hge').
      fold pnsq qnsq in Hsec. fold pnsq qnsq in Hup. cbv zeta in Hup, Hge'.
      set (N := pnsq w (rshift lam sig)) in *. set (Q := qnsq w (rshift lam sig)) in *.
      destruct (Reqb _ lam) eqn:Eq.
      * (* the stall exit cannot be taken *)
        apply Reqb_true in Eq. exfalso.
        assert (Hs' : forall y, In y (rshift lam sig) -> 0 < y).
        { intros y Hy. destruct (in_rshift _ _ _ Hy) as (x & Hx & ->). apply Hs1; assumption. }
        destruct (pq_nonneg w (rshift lam sig) ltac:(rewrite length_rshift; exact E) Hw Hs') as (HN0 & HQ0 & HNQ).
        fold N in HN0, HNQ. fold Q in HQ0, HNQ.
        assert (HNpos : 0 < N). { pose proof (sqrt_sqrt N HN0). nra. }
        specialize (HNQ HNpos).
        assert (0 < N / Q) by (apply Rdiv_lt_0_compat; assumption).
        assert (0 < N / Q * ((sqrt N - Delta) / Delta)) by (apply Rmult_lt_0_compat; lra).
        lra.
      * apply IH in Hsec; [|lra|exact Hge'].
        destruct Hsec as (H1 & H2 & H3). split; [lra|]. split; [exact H2|].
        destruct br; try exact H3; destruct H3 as (H3 & H4); (split; [exact H3|lia]).
    + apply Rltb_false in Et. injection Hsec as <- <-. split; [lra|]. split; [exact Hge|].
      split; [|lia]. rewrite <- Hmul. apply Rmult_le_compat_r; lra.
Qed.

(* the pass count: a run that leaves through the end of the range made `cap` updates, each of at least (m + lam0) * tol, and
   m + lam stays <= sqrt(sum w)/Delta: so  cap * (m + lam0) * tol <= sqrt(sum w)/Delta - (m + lam) *)
Lemma secular_cap_bound w sig Delta lam0 tol m : length w = length sig -> (forall x, In x w -> 0 <= x) ->
  (forall x, In x sig -> m <= x) -> 0 < m + lam0 -> 0 < Delta -> 0 <= tol ->
  forall cap k lam lam' j,
  lam0 <= lam -> Delta <= sqrt (pnsq w (rshift lam sig)) ->
  @secular R NumR tol cap k w sig Delta lam (pnsq w (rshift lam sig)) ((sqrt (pnsq w (rshift lam sig)) - Delta) / Delta) = (lam', TCapped j) ->
  INR cap * ((m + lam0) * tol) <= sqrt (rsum w) / Delta - (m + lam).
Proof.
  intros E Hw Hm Hpos HD Htol.
  assert (Hs : forall x, In x sig -> 0 < x + lam0) by (intros x Hx; specialize (Hm x Hx); lra).
  induction cap as [|cap IH]; intros k lam lam' j Hlam Hge Hsec.
  - cbn [INR]. rewrite Rmult_0_l.
    pose proof (shift_upper w sig Delta m lam E Hw Hm ltac:(lra) HD Hge). lra.
  - cbn [secular] in Hsec. unfold_num. q2r.
    assert (Hnn : 0 <= (sqrt (pnsq w (rshift lam sig)) - Delta) / Delta)
      by (apply Rmult_le_pos; [lra|left; apply Rinv_0_lt_compat; exact HD]).
    rewrite (Rabs_right _ (Rle_ge _ _ Hnn)) in Hsec.
    destruct (Rltb tol _) eqn:Et; [|discriminate].
    apply Rltb_true in Et.
    assert (Hs1 : forall x, In x sig -> 0 < x + lam) by (intros x Hx; specialize (Hs x Hx); lra).
    destruct (secular_step w sig lam Delta E Hw Hs1 HD Hge) as (Hup & Hge').
    fold pnsq qnsq in Hsec. fold pnsq qnsq in Hup. cbv zeta in Hup, Hge'.
    assert (Hsm : forall y, In y (rshift lam sig) -> m + lam <= y).
    { intros y Hy. destruct (in_rshift _ _ _ Hy) as (x & Hx & ->). specialize (Hm x Hx). lra. }
    destruct (pq_ratio (m + lam) ltac:(lra) w (rshift lam sig) ltac:(rewrite length_rshift; exact E) Hw Hsm) as (HR & _).
    assert (Hs' : forall y, In y (rshift lam sig) -> 0 < y) by (intros y Hy; specialize (Hsm y Hy); lra).
    destruct (pq_nonneg w (rshift lam sig) ltac:(rewrite length_rshift; exact E) Hw Hs') as (HN0 & HQ0 & HNQ).
    set (N := pnsq w (rshift lam sig)) in *. set (Q := qnsq w (rshift lam sig)) in *.
    assert (HNpos : 0 < N). { pose proof (sqrt_sqrt N HN0). nra. }
    specialize (HNQ HNpos).
    assert (Hratio : m + lam <= N / Q).
    { apply Rmult_le_reg_r with Q; [exact HNQ|]. unfold Rdiv. rewrite Rmult_assoc, Rinv_l, Rmult_1_r by lra. exact HR. }
    set (be := (sqrt N - Delta) / Delta) in *.
    assert (Hstep : (m + lam0) * tol <= N / Q * be).
    { apply Rmult_le_compat; try lra. }
    destruct (Reqb _ lam) eqn:Eq; [discriminate|].
    apply IH in Hsec; [|lra|exact Hge'].
    rewrite S_INR. lra.
Qed.

(* an explicit contraction: with all shifted eigenvalues in [m + lam, amax], one Newton step from the side |p| >= Delta multiplies the
   relative radius error bError = (|p| - Delta)/Delta by at most 1 - (m + lam)/amax  (each term of N shrinks by at least
   (amax/(amax+h))^2 under the shift h, and h >= (m + lam) * bError) *)
Lemma pnsq_shrinks lam h amax : 0 <= h -> forall w sig, length w = length sig -> (forall x, In x w -> 0 <= x) ->
  (forall x, In x sig -> 0 < x + lam <= amax) ->
  pnsq w (rshift (lam + h) sig) <= pnsq w (rshift lam sig) * (amax / (amax + h) * (amax / (amax + h))).
Proof.
  intros Hh. induction w as [|c w IH]; intros [|x sig] E Hw Hs; try discriminate.
  - unfold pnsq, pnorm_squared. rewrite !rdot_nil_l. lra.
  - rewrite !rshift_cons, !pnsq_cons.
    specialize (IH sig ltac:(cbn in E; congruence) ltac:(intros y Hy; apply Hw; right; exact Hy) ltac:(intros y Hy; apply Hs; right; exact Hy)).
    assert (Hc : 0 <= c) by (apply Hw; left; reflexivity). destruct (Hs x (or_introl eq_refl)) as (Ha & Hamax).
    replace (x + (lam + h)) with (x + lam + h) by ring. set (a := x + lam) in *.
    set (q := amax / (amax + h)) in *.
    assert (Hu : 0 <= a / (a + h) <= q).
    { split; [apply Rmult_le_pos; [lra|left; apply Rinv_0_lt_compat; lra]|].
      assert (E1 : a / (a + h) = 1 - h / (a + h)) by (field; lra).
      assert (E2 : q = 1 - h / (amax + h)) by (unfold q; field; lra).
      rewrite E1, E2.
      assert (h / (amax + h) <= h / (a + h)).
      { unfold Rdiv. apply Rmult_le_compat_l; [exact Hh|]. apply Rinv_le_contravar; lra. }
      lra. }
    assert (Hsq : a / (a + h) * (a / (a + h)) <= q * q) by nra.
    assert (E3 : 1 / ((a + h) * (a + h)) = 1 / (a * a) * (a / (a + h) * (a / (a + h)))) by (field; lra).
    rewrite E3.
    assert (P2 : 0 < 1 / (a * a)) by (apply Rdiv_lt_0_compat; nra).
    assert (0 <= c * (1 / (a * a))) by (apply Rmult_le_pos; lra).
    assert (c * (1 / (a * a) * (a / (a + h) * (a / (a + h)))) <= c * (1 / (a * a)) * (q * q)).
    { rewrite <- Rmult_assoc. apply Rmult_le_compat_l; assumption. }
    lra.
Qed.

Lemma secular_step_contracts w sig lam Delta m amax : length w = length sig -> (forall x, In x w -> 0 <= x) ->
  (forall x, In x sig -> m <= x) -> 0 < m + lam -> (forall x, In x sig -> x + lam <= amax) -> 0 < Delta ->
  let N := pnsq w (rshift lam sig) in let Q := qnsq w (rshift lam sig) in
  Delta <= sqrt N ->
  let be := (sqrt N - Delta) / Delta in
  let lam' := lam + N / Q * be in
  let be' := (sqrt (pnsq w (rshift lam' sig)) - Delta) / Delta in
  0 <= be' <= (1 - (m + lam) / amax) * be.
Proof.
  intros E Hw Hm Hpos Hmax HD N Q Hge be lam' be'.
  assert (Hs1 : forall x, In x sig -> 0 < x + lam) by (intros x Hx; specialize (Hm x Hx); lra).
  destruct (secular_step w sig lam Delta E Hw Hs1 HD Hge) as (Hup & Hge'). fold N Q be lam' in Hup, Hge'.
  assert (Hsm : forall y, In y (rshift lam sig) -> m + lam <= y).
  { intros y Hy. destruct (in_rshift _ _ _ Hy) as (x & Hx & ->). specialize (Hm x Hx). lra. }
  destruct (pq_ratio (m + lam) Hpos w (rshift lam sig) ltac:(rewrite length_rshift; exact E) Hw Hsm) as (HR & _).
  assert (Hs' : forall y, In y (rshift lam sig) -> 0 < y) by (intros y Hy; specialize (Hsm y Hy); lra).
  destruct (pq_nonneg w (rshift lam sig) ltac:(rewrite length_rshift; exact E) Hw Hs') as (HN0 & HQ0 & HNQ).
  fold N in HR, HN0, HNQ. fold Q in HR, HQ0, HNQ.
  assert (Hsq : sqrt N * sqrt N = N) by (apply sqrt_sqrt; assumption).
  assert (HNpos : 0 < N) by nra. specialize (HNQ HNpos).
  assert (Hratio : m + lam <= N / Q).
  { apply Rmult_le_reg_r with Q; [exact HNQ|]. unfold Rdiv. rewrite Rmult_assoc, Rinv_l, Rmult_1_r by lra. exact HR. }
  assert (Hbe : 0 <= be) by (unfold be; apply Rmult_le_pos; [lra|left; apply Rinv_0_lt_compat; exact HD]).
  set (h := N / Q * be) in *.
  assert (Hh0 : (m + lam) * be <= h) by (unfold h; apply Rmult_le_compat_r; assumption).
  assert (Hh : 0 <= h) by nra.
  assert (Hamax : m + lam <= amax).
  { destruct sig as [|x0 sig']; [destruct w; [|discriminate]; unfold N, pnsq, pnorm_squared in HNpos; rewrite rdot_nil_l in HNpos; lra|].
    specialize (Hm x0 (or_introl eq_refl)). specialize (Hmax x0 (or_introl eq_refl)). lra. }
  pose proof (pnsq_shrinks lam h amax Hh w sig E Hw ltac:(intros x Hx; split; [apply Hs1; exact Hx|apply Hmax; exact Hx])) as Hsh.
  fold N in Hsh. fold lam' in Hsh. set (N' := pnsq w (rshift lam' sig)) in *.
  set (q := amax / (amax + h)) in *.
  assert (Hq : 0 < q) by (unfold q; apply Rdiv_lt_0_compat; lra).
  assert (Hroot : sqrt N' <= sqrt N * q).
  { rewrite <- (sqrt_square (sqrt N * q)) by (apply Rmult_le_pos; [apply sqrt_pos|lra]).
    apply sqrt_le_1_alt. replace (sqrt N * q * (sqrt N * q)) with (sqrt N * sqrt N * (q * q)) by ring. rewrite Hsq. exact Hsh. }
  assert (Es : sqrt N = Delta * (1 + be)) by (unfold be; field; lra).
  assert (Hq2 : q <= amax / (amax + (m + lam) * be)).
  { unfold q, Rdiv. apply Rmult_le_compat_l; [lra|]. apply Rinv_le_contravar; nra. }
  split.
  - unfold be'. apply Rmult_le_pos; [lra|left; apply Rinv_0_lt_compat; exact HD].
  - assert (Hb' : be' <= (1 + be) * q - 1).
    { unfold be'. apply Rmult_le_reg_r with Delta; [exact HD|]. unfold Rdiv. rewrite Rmult_assoc, Rinv_l, Rmult_1_r by lra.
      rewrite Es in Hroot. nra. }
    set (mu := m + lam) in *.
    assert (Hden : 0 < amax + mu * be) by nra.
    assert (E4 : (1 + be) * (amax / (amax + mu * be)) - 1 = be * (amax - mu) / (amax + mu * be)) by (field; lra).
    assert (H5 : (1 + be) * q <= (1 + be) * (amax / (amax + mu * be))) by (apply Rmult_le_compat_l; lra).
    assert (H6 : be * (amax - mu) / (amax + mu * be) <= be * (amax - mu) / amax).
    { unfold Rdiv. apply Rmult_le_compat_l; [nra|]. apply Rinv_le_contravar; nra. }
    assert (E7 : be * (amax - mu) / amax = (1 - mu / amax) * be) by (field; lra).
    lra.
Qed.

(* the secular Newton iteration as ONE statement, for every tolerance >= 0 and every cap, from any start on the side |p(lam0)| >= Delta
   with all shifted eigenvalues positive (m = a lower bound of the eigenvalues): the multiplier only grows, the final state is on
   the same side, the loop leaves either through its tolerance test or through the end of the range -- never through `lamNew == lam` --
   and the end of the range with the test still failing is possible only while cap*(m+lam0)*tol <= sqrt(sum w)/Delta - (m+lam0). *)
Lemma secular_newton_spec (w sig : rvec) Delta lam0 tol m :
  length w = length sig -> (forall x, In x w -> 0 <= x) -> (forall x, In x sig -> m <= x) -> 0 < m + lam0 -> 0 < Delta -> 0 <= tol ->
  let N := fun lam => pnsq w (rshift lam sig) in
  Delta <= sqrt (N lam0) ->
  forall cap,
  let res := @secular R NumR tol cap 0 w sig Delta lam0 (N lam0) ((sqrt (N lam0) - Delta) / Delta) in
  lam0 <= fst res /\ Delta <= sqrt (N (fst res)) /\
  match snd res with
  | TSecular j => sqrt (N (fst res)) - Delta <= tol * Delta /\ (j <= cap)%nat
  | TCapped j => tol * Delta < sqrt (N (fst res)) - Delta /\ j = cap /\
                 INR cap * ((m + lam0) * tol) <= sqrt (rsum w) / Delta - (m + lam0)
  | _ => False
  end.
Proof.
  intros E Hw Hm Hpos HD Htol N Hge cap res.
  assert (Hs : forall x, In x sig -> 0 < x + lam0) by (intros x Hx; specialize (Hm x Hx); lra).
  destruct res as [lam' br] eqn:Es. unfold res in Es. cbn [fst snd].
  pose proof Es as Es2.
  apply (secular_spec w sig Delta lam0 tol E Hw Hs HD Htol) in Es; [|lra|exact Hge].
  destruct Es as (H1 & H2 & H3). split; [exact H1|]. split; [exact H2|].
  destruct br; try exact H3.
  - destruct H3 as (H3 & H4). split; [exact H3|lia].
  - destruct H3 as (H3 & H4). split; [exact H3|]. split; [lia|].
    exact (secular_cap_bound w sig Delta lam0 tol m E Hw Hm Hpos HD Htol cap 0%nat lam0 lam' iters ltac:(lra) Hge Es2).
Qed.
(* termination for every tolerance > 0: a cap beyond the bound makes the loop leave through its tolerance test *)
Lemma secular_newton_terminates (w sig : rvec) Delta lam0 tol m :
  length w = length sig -> (forall x, In x w -> 0 <= x) -> (forall x, In x sig -> m <= x) -> 0 < m + lam0 -> 0 < Delta -> 0 < tol ->
  let N := fun lam => pnsq w (rshift lam sig) in
  Delta <= sqrt (N lam0) ->
  forall cap, sqrt (rsum w) / Delta - (m + lam0) < INR cap * ((m + lam0) * tol) ->
  exists lam' j, @secular R NumR tol cap 0 w sig Delta lam0 (N lam0) ((sqrt (N lam0) - Delta) / Delta) = (lam', TSecular j) /\
                 (j <= cap)%nat /\ lam0 <= lam' /\ 0 <= sqrt (N lam') - Delta <= tol * Delta.
Proof.
  intros E Hw Hm Hpos HD Htol N Hge cap Hcap.
  pose proof (secular_newton_spec w sig Delta lam0 tol m E Hw Hm Hpos HD ltac:(lra) Hge cap) as H. cbv zeta in H. fold N in H.
  destruct (secular _ _ _ _ _ _ _ _ _) as [lam' br]. cbn [fst snd] in H. destruct H as (H1 & H2 & H3).
  destruct br; try (exfalso; exact H3).
  - exists lam', iters. destruct H3 as (H3 & H4). repeat split; try assumption; lra.
  - exfalso. destruct H3 as (_ & _ & H5). lra.
Qed.

(* A = 0 (finding F2b, fixed by repo commit 4d37146): the model is s.b and its minimiser over the ball is -Delta*b/|b|,
   what the early return yields *)
Lemma linear_model_minimiser n (b s : rvec) Delta : len n b -> len n s -> 0 < Delta -> 0 < b ⋅ b -> s ⋅ s <= Delta * Delta ->
  let p := rscale (- Delta / sqrt (b ⋅ b)) b in
  p ⋅ p = Delta * Delta /\ energyR (fun v => rzero v) b p <= energyR (fun v => rzero v) b s.
Proof.
  intros Hb Hs HD Hbb Hss. cbv zeta. unfold energyR. rewrite !rdot_rzero_r.
  rewrite !rdot_rscale_l, rdot_rscale_r.
  pose proof (sqrt_sqrt (b ⋅ b) ltac:(lra)) as Hq. pose proof (sqrt_lt_R0 _ Hbb) as Hq0.
  set (r := sqrt (b ⋅ b)) in *.
  split.
  - rewrite <- Hq. field. lra.
  - assert (E : - Delta / r * (b ⋅ b) = - (Delta * r)) by (rewrite <- Hq; field; lra).
    replace (/ 2 * 0 + - Delta / r * (b ⋅ b)) with (- (Delta * r)) by lra.
    pose proof (rdot_cauchy_schwarz n s b Hs Hb) as Hcs.
    assert (H2 : (s ⋅ b) * (s ⋅ b) <= (Delta * r) * (Delta * r)).
    { replace (Delta * r * (Delta * r)) with (Delta * Delta * (r * r)) by ring. rewrite Hq.
      pose proof (rdot_self_nonneg s). nra. }
    assert (0 < Delta * r) by (apply Rmult_lt_0_compat; assumption).
    destruct (Rle_dec 0 (s ⋅ b)); nra.
Qed.

Lemma linear_min_dot n (b s : rvec) Delta : len n b -> len n s -> 0 < Delta -> 0 < b ⋅ b -> s ⋅ s <= Delta * Delta ->
  let p := rscale (- (Delta / sqrt (b ⋅ b))) b in p ⋅ p = Delta * Delta /\ p ⋅ b <= s ⋅ b.
Proof.
  intros Hb Hs HD Hbb Hss. cbv zeta.
  destruct (linear_model_minimiser n b s Delta Hb Hs HD Hbb Hss) as (H1 & H2). cbv zeta in H1, H2.
  replace (- (Delta / sqrt (b ⋅ b))) with (- Delta / sqrt (b ⋅ b)) by (unfold Rdiv; ring).
  split; [exact H1|]. unfold energyR in H2. rewrite !rdot_rzero_r in H2. lra.
Qed.
Lemma rsum_abs_nonneg (s : rvec) : 0 <= rsum (map Rabs s).
Proof. induction s as [|x s IH]; cbn [map]; [rewrite rsum_nil; lra|]. rewrite rsum_cons. pose proof (Rabs_pos x). lra. Qed.
Lemma rsum_abs_zero (s : rvec) : rsum (map Rabs s) = 0 -> forall x, In x s -> x = 0.
Proof.
  induction s as [|y s IH]; intros H x Hx; [destruct Hx|]. cbn [map] in H. rewrite rsum_cons in H.
  pose proof (Rabs_pos y). pose proof (rsum_abs_nonneg s).
  destruct Hx as [<-|Hx]; [|apply IH; [lra|exact Hx]].
  destruct (Req_dec y 0) as [E|E]; [exact E|]. pose proof (Rabs_pos_lt y E). lra.
Qed.
Lemma rmul_zero_dot : forall sig u, length u = length sig -> (forall x, In x sig -> x = 0) -> u ⋅ rmul sig u = 0.
Proof.
  induction sig as [|x sig IH]; intros [|y u] E Hz; try discriminate.
  - apply rdot_nil_l.
  - rewrite rmul_cons, rdot_cons. rewrite IH by (try (cbn in E; congruence); intros w Hw; apply Hz; right; exact Hw).
    rewrite (Hz x (or_introl eq_refl)). ring.
Qed.
Lemma rsum_rmul_self a : rsum (rmul a a) = a ⋅ a.
Proof. induction a as [|x a IH]; [rewrite rdot_nil_l; apply rsum_nil|]. rewrite rmul_cons, rsum_cons, rdot_cons, IH. reflexivity. Qed.

(* ------------------------------------------------------------------ (C) what the eigh contract gives *)
Section Eigh.
  Variable k : nat.
  Let n := S k.
  Variable A : rvec -> rvec.
  Variables (sig : rvec) (V : list rvec) (b : rvec).
  Let Vt := rtranspose n V.
  Hypothesis siglen : len n sig.
  Hypothesis Vrows : rows n V.
  Hypothesis Vlen : length V = n.
  Hypothesis blen : len n b.
  Hypothesis orth1 : forall y, len n y -> rmatvec Vt (rmatvec V y) = y.        (* V^T V = I *)
  Hypothesis orth2 : forall x, len n x -> rmatvec V (rmatvec Vt x) = x.        (* V V^T = I *)
  Hypothesis decomp : forall x, len n x -> A x = rmatvec V (rmul sig (rmatvec Vt x)).   (* A = V diag(sig) V^T *)
  Hypothesis ascending : forall x, In x sig -> hd 0 sig <= x.

  Lemma len_V y : len n (rmatvec V y).
  Proof. unfold len. rewrite length_matvec. exact Vlen. Qed.
  Lemma len_Vt x : len n (rmatvec Vt x).
  Proof. unfold len, Vt. rewrite length_matvec. apply length_transpose. Qed.
  Lemma adj x y : len n y -> x ⋅ rmatvec V y = rmatvec Vt x ⋅ y.
  Proof. intros Hy. apply adjoint; assumption. Qed.
  Lemma norm_V y : len n y -> rmatvec V y ⋅ rmatvec V y = y ⋅ y.
  Proof. intros Hy. rewrite adj by assumption. rewrite orth1 by assumption. reflexivity. Qed.
  Lemma dot_via_Vt x w : len n x -> len n w -> x ⋅ w = rmatvec Vt x ⋅ rmatvec Vt w.
  Proof.
    intros Hx Hw. rewrite <- (orth2 x Hx) at 1. rewrite rdot_comm. rewrite adj by apply len_Vt. apply rdot_comm.
  Qed.
  Lemma len_sigmul u : len n u -> len n (rmul sig u).
  Proof. intros Hu. unfold len in *. rewrite length_rmul; congruence. Qed.

  Lemma Alen x : len n x -> len n (A x).
  Proof. intros Hx. rewrite decomp by assumption. apply len_V. Qed.
  Lemma Alin a t c : len n a -> len n c -> A (raxpy a t c) = raxpy (A a) t (A c).
  Proof.
    intros Ha Hc. rewrite !decomp by auto with vlen. unfold Vt. rewrite (matvec_raxpy n) by assumption. fold Vt.
    rewrite rmul_raxpy by (rewrite ?(len_Vt a), ?(len_Vt c); symmetry; exact siglen).
    apply (matvec_raxpy n); apply len_sigmul; apply len_Vt.
  Qed.
  Lemma Asym a c : len n a -> len n c -> a ⋅ A c = A a ⋅ c.
  Proof.
    intros Ha Hc. rewrite !decomp by assumption.
    rewrite adj by (apply len_sigmul; apply len_Vt).
    rewrite (rdot_comm (rmatvec V _) c). rewrite adj by (apply len_sigmul; apply len_Vt).
    rewrite (rdot_comm (rmatvec Vt c)). symmetry. apply rmul_sym; [rewrite (len_Vt a)|rewrite (len_Vt c)]; symmetry; exact siglen.
  Qed.

  Let bv := rmatvec Vt b.
  Let bvv := rmul bv bv.
  Definition pof (lam : R) : rvec := rneg (rmatvec V (rdiv bv (rshift lam sig))).

  Lemma bvlen : length bv = length sig.
  Proof. unfold bv. rewrite (len_Vt b). symmetry. exact siglen. Qed.
  Lemma qlen lam : len n (rdiv bv (rshift lam sig)).
  Proof. unfold len. rewrite length_rdiv by (rewrite length_rshift; exact bvlen). rewrite bvlen. exact siglen. Qed.
  Lemma bvv_nonneg : forall x, In x bvv -> 0 <= x.
  Proof.
    unfold bvv. generalize bv. intros r. induction r as [|y r IH]; intros x Hx; [destruct Hx|].
    rewrite rmul_cons in Hx. destruct Hx as [<-|Hx]; [nra|apply IH; exact Hx].
  Qed.
  Lemma bvvlen : length bvv = length sig.
  Proof. unfold bvv. rewrite length_rmul by reflexivity. exact bvlen. Qed.

  Lemma pof_len lam : len n (pof lam).
  Proof. unfold pof. apply len_rneg. apply len_V. Qed.
  Lemma pof_norm lam : (forall x, In x sig -> x + lam <> 0) -> pof lam ⋅ pof lam = pnsq bvv (rshift lam sig).
  Proof.
    intros Hnz. unfold pof. rewrite rdot_rneg_rneg. rewrite norm_V by apply qlen.
    apply dot_vdiv_self; [rewrite length_rshift; exact bvlen|].
    intros y Hy. destruct (in_rshift _ _ _ Hy) as (x & Hx & ->). apply Hnz; assumption.
  Qed.
  Lemma pof_system lam : (forall x, In x sig -> x + lam <> 0) ->
    forall w, len n w -> A (pof lam) ⋅ w + lam * (pof lam ⋅ w) = - (b ⋅ w).
  Proof.
    intros Hnz w Hw. unfold pof. rewrite <- matvec_rneg.
    set (q := rneg (rdiv bv (rshift lam sig))).
    assert (Hq : len n q) by (unfold q; apply len_rneg, qlen).
    rewrite decomp by apply len_V. rewrite orth1 by assumption.
    rewrite !(rdot_comm (rmatvec V _) w). rewrite !adj by (try apply len_sigmul; assumption).
    rewrite (dot_via_Vt b w) by assumption. fold bv.
    rewrite (rdot_comm (rmatvec Vt w) (rmul sig q)), (rdot_comm (rmatvec Vt w) q).
    apply shifted_system_coords; [exact bvlen|rewrite (len_Vt w); symmetry; exact siglen|exact Hnz].
  Qed.
  Lemma pof_psd lam : (forall x, In x sig -> 0 <= x + lam) -> forall v, len n v -> 0 <= v ⋅ A v + lam * (v ⋅ v).
  Proof.
    intros Hnn v Hv. rewrite decomp by assumption. rewrite adj by (apply len_sigmul, len_Vt).
    rewrite (dot_via_Vt v v) by assumption.
    apply shifted_psd_coords; [rewrite (len_Vt v); symmetry; exact siglen|exact Hnn].
  Qed.
  Lemma all_shift_pos lam : 0 < hd 0 sig + lam -> forall x, In x sig -> 0 < x + lam.
  Proof. intros H x Hx. specialize (ascending x Hx). lra. Qed.

  (* More'-Sorensen for p(lam) = -V (bv/(sig+lam)): minimiser over the ball of radius R whenever it is inside and complementary *)
  Lemma pof_optimal lam Rad : 0 <= lam -> 0 < hd 0 sig + lam -> pof lam ⋅ pof lam <= Rad * Rad ->
    lam * (Rad * Rad - pof lam ⋅ pof lam) = 0 ->
    forall s, len n s -> s ⋅ s <= Rad * Rad -> energyR A b (pof lam) <= energyR A b s.
  Proof.
    intros Hlam Hpos Hin Hcomp s Hs Hball.
    pose proof (all_shift_pos lam Hpos) as Hall.
    apply (ms_sufficiency n A b (pof lam) lam Rad Alen Alin Asym (pof_len lam) Hlam); try assumption.
    - apply pof_system. intros x Hx. specialize (Hall x Hx). lra.
    - apply pof_psd. intros x Hx. specialize (Hall x Hx). lra.
  Qed.

  (* ---- the lowest eigenvector z = v[:,0] *)
  Let z := map (fun row : rvec => hd (@nzero R NumR) row) V.
  Lemma z_is : z = rmatvec V (e0 k).
  Proof. unfold z. apply first_column. exact Vrows. Qed.
  Lemma z_len : len n z.
  Proof. rewrite z_is. apply len_V. Qed.
  Lemma z_unit : z ⋅ z = 1.
  Proof. rewrite z_is. rewrite norm_V by apply len_e0. apply e0_unit. Qed.
  Lemma z_eigen lam w : len n w -> A z ⋅ w + lam * (z ⋅ w) = (hd 0 sig + lam) * (z ⋅ w).
  Proof.
    intros Hw. rewrite z_is. rewrite decomp by apply len_V. rewrite orth1 by apply len_e0.
    destruct sig as [|x sig'] eqn:Es; [discriminate siglen|].
    assert (Ek : k = length sig') by (unfold len, n in siglen; cbn in siglen; congruence).
    rewrite Ek. rewrite rmul_e0. rewrite matvec_rscale, rdot_rscale_l. cbn [hd]. ring.
  Qed.

  Lemma sqrt_lt_sq x D : 0 <= x -> 0 < D -> sqrt x < D -> x < D * D.
  Proof. intros Hx HD Hs. pose proof (sqrt_sqrt x Hx). pose proof (sqrt_pos x). nra. Qed.

  Variable Delta : R.
  Hypothesis Dpos : 0 < Delta.
  Variable cap : nat.                                    (* the `range(100)` of the secular loop *)
  Definition c12 : R := 1 / 1000000000000.
  Definition eps_shift : R := c12 * @vmean_abs R NumR sig.   (* eps = 1e-12 * mean|sig| *)

  Lemma pof_norm' lam : pof lam ⋅ pof lam = rdiv bv (rshift lam sig) ⋅ rdiv bv (rshift lam sig).
  Proof. unfold pof. rewrite rdot_rneg_rneg. apply norm_V. apply qlen. Qed.
  Lemma vnorm_R a : @vnorm R NumR a = sqrt (a ⋅ a).
  Proof. reflexivity. Qed.
  Lemma tau_bound (p zz : rvec) tau : len n p -> len n zz -> zz ⋅ zz = 1 -> p ⋅ p <= Delta * Delta ->
    raxpy p tau zz ⋅ raxpy p tau zz = Delta * Delta -> Rabs tau <= 2 * Delta.
  Proof.
    intros Hp Hz Hzz Hpp Hxx.
    pose proof (rdot_cauchy_schwarz n (raxpy p tau zz) p ltac:(auto with vlen) Hp) as Hcs.
    rewrite Hxx in Hcs. rewrite (rdot_raxpy_l n) in Hcs by assumption.
    rewrite (rdot_raxpy_self n) in Hxx by assumption. rewrite Hzz in Hxx.
    rewrite (rdot_comm zz p) in Hcs.
    set (u := tau * (p ⋅ zz)) in *. set (pp := p ⋅ p) in *.
    pose proof (rdot_self_nonneg p) as Hpp0. fold pp in Hpp0.
    assert (Hlow : - (Delta * Delta) <= pp + u).
    { destruct (Rle_dec 0 (pp + u)); [nra|].
      assert ((pp + u) * (pp + u) <= (Delta * Delta) * (Delta * Delta)) by nra. nra. }
    assert (Ht2 : tau * tau <= (2 * Delta) * (2 * Delta)).
    { replace (2 * tau * (p ⋅ zz)) with (2 * u) in Hxx by (unfold u; ring). nra. }
    apply Rabs_le. split; nra.
  Qed.

  Lemma mean_abs_R : @vmean_abs R NumR sig = rsum (map Rabs sig) / INR n.
  Proof.
    unfold vmean_abs. rewrite (siglen : length sig = n). unfold_num. q2r. fold rsum. rewrite <- INR_IZR_INZ. reflexivity.
  Qed.
  Lemma mean_abs_nonneg : 0 <= @vmean_abs R NumR sig.
  Proof.
    rewrite mean_abs_R. apply Rmult_le_pos; [apply rsum_abs_nonneg|]. left. apply Rinv_0_lt_compat. apply lt_0_INR. unfold n. lia.
  Qed.
  Lemma mean_abs_zero : @vmean_abs R NumR sig = 0 -> forall x, In x sig -> x = 0.
  Proof.
    rewrite mean_abs_R. intros H. apply rsum_abs_zero.
    assert (Hn : 0 < INR n) by (apply lt_0_INR; unfold n; lia).
    apply Rmult_eq_compat_r with (r := INR n) in H. unfold Rdiv in H. rewrite Rmult_assoc, Rinv_l, Rmult_1_r, Rmult_0_l in H by lra. exact H.
  Qed.
  Lemma bvv_sum : rsum bvv = b ⋅ b.
  Proof. unfold bvv. rewrite rsum_rmul_self. unfold bv. symmetry. apply dot_via_Vt; exact blen. Qed.

  Definition PostT (res : trbranch * rvec) : Prop :=
    match res with
    | (TInterior, p) => len n p /\ p ⋅ p < Delta * Delta /\
                        forall s, len n s -> s ⋅ s <= Delta * Delta -> energyR A b p <= energyR A b s
    | (THard, p) => len n p /\ p ⋅ p = Delta * Delta /\
                    forall s, len n s -> s ⋅ s <= Delta * Delta -> energyR A b p <= energyR A b s + 4 * eps_shift * (Delta * Delta)
    | (TZero, p) => len n p /\ p ⋅ p <= Delta * Delta /\ (0 < b ⋅ b -> p ⋅ p = Delta * Delta) /\
                    forall s, len n s -> s ⋅ s <= Delta * Delta -> energyR A b p <= energyR A b s
    | (TSecular j, p) => len n p /\ Rabs (sqrt (p ⋅ p) - Delta) <= c9 * Delta /\ (j <= cap)%nat /\
                         forall s, len n s -> s ⋅ s <= p ⋅ p -> energyR A b p <= energyR A b s
    | (TCapped j, p) => len n p /\ (1 + c9) * Delta < sqrt (p ⋅ p) /\ j = cap /\
                        INR cap * (eps_shift * c9) <= sqrt (b ⋅ b) / Delta - eps_shift /\
                        forall s, len n s -> s ⋅ s <= p ⋅ p -> energyR A b p <= energyR A b s
    | (TStalled _, _) => False
    end.

  Lemma c9_is : @c_1em9 R NumR = c9.
  Proof. unfold c_1em9, c9. unfold_num. q2r. reflexivity. Qed.

  Lemma secular_branch lam0 : 0 <= lam0 -> 0 < hd 0 sig + lam0 -> eps_shift <= hd 0 sig + lam0 -> 0 < eps_shift ->
    Delta <= sqrt (rdiv bv (rshift lam0 sig) ⋅ rdiv bv (rshift lam0 sig)) ->
    PostT (let '(lam', br) := @secular R NumR (@c_1em9 R NumR) cap 0 bvv sig Delta lam0 (pnsq bvv (rshift lam0 sig))
                                 ((sqrt (pnsq bvv (rshift lam0 sig)) - Delta) / Delta) in
           (br, rneg (rmatvec V (rdiv bv (rshift lam' sig))))).
  Proof.
    intros Hl0 Hpos0 Heps1 Heps0 Hge. rewrite c9_is.
    pose proof (all_shift_pos lam0 Hpos0) as Hall0.
    assert (EN0 : rdiv bv (rshift lam0 sig) ⋅ rdiv bv (rshift lam0 sig) = pnsq bvv (rshift lam0 sig)).
    { apply dot_vdiv_self; [rewrite length_rshift; exact bvlen|].
      intros y Hy. destruct (in_rshift _ _ _ Hy) as (x & Hx & ->). specialize (Hall0 x Hx). lra. }
    rewrite EN0 in Hge.
    assert (Hc9 : 0 <= c9) by (unfold c9; lra).
    destruct (secular _ _ _ _ _ _ _ _ _) as [lam' br] eqn:Es.
    pose proof Es as Es2.
    apply (secular_spec bvv sig Delta lam0 c9 bvvlen bvv_nonneg Hall0 Dpos Hc9) in Es; [|lra|exact Hge].
    destruct Es as (Hl & Hge' & Hbr).
    fold (pof lam').
    assert (Hpos : 0 < hd 0 sig + lam') by lra.
    pose proof (all_shift_pos lam' Hpos) as Hall.
    assert (Hnorm : pof lam' ⋅ pof lam' = pnsq bvv (rshift lam' sig))
      by (apply pof_norm; intros x Hx; specialize (Hall x Hx); lra).
    destruct (pq_nonneg bvv (rshift lam' sig) ltac:(rewrite length_rshift; exact bvvlen) bvv_nonneg
                ltac:(intros y Hy; destruct (in_rshift _ _ _ Hy) as (x & Hx & ->); apply Hall; exact Hx)) as (HN & _).
    pose proof (sqrt_sqrt _ HN) as Hsq.
    assert (Hopt : forall s, len n s -> s ⋅ s <= pof lam' ⋅ pof lam' -> energyR A b (pof lam') <= energyR A b s).
    { intros s Hs Hball. rewrite Hnorm in Hball.
      apply (pof_optimal lam' (sqrt (pnsq bvv (rshift lam' sig)))); try assumption; try lra.
      all: rewrite ?Hnorm, ?Hsq; try lra; ring. }
    destruct br as [| |j| |j|j]; try (exfalso; exact Hbr); unfold PostT; rewrite Hnorm.
    - destruct Hbr as (Hclose & Hj). split; [apply pof_len|]. split; [rewrite Rabs_right by lra; exact Hclose|].
      split; [lia|]. rewrite <- Hnorm. exact Hopt.
    - destruct Hbr as (Hfar & Hj). split; [apply pof_len|]. split; [lra|]. split; [lia|].
      split; [|rewrite <- Hnorm; exact Hopt].
      subst j.
      pose proof (secular_cap_bound bvv sig Delta lam0 c9 (hd 0 sig) bvvlen bvv_nonneg ascending Hpos0 Dpos Hc9
                    cap 0%nat lam0 lam' (0 + cap)%nat ltac:(lra) Hge Es2) as Hb.
      rewrite bvv_sum in Hb. pose proof (pos_INR cap) as Hcap.
      assert (INR cap * (eps_shift * c9) <= INR cap * ((hd 0 sig + lam0) * c9)).
      { apply Rmult_le_compat_l; [exact Hcap|]. apply Rmult_le_compat_r; lra. }
      lra.
  Qed.

  Lemma hard_branch : 0 < eps_shift -> hd 0 sig < eps_shift ->
    sqrt (rdiv bv (rshift (- hd 0 sig + eps_shift) sig) ⋅ rdiv bv (rshift (- hd 0 sig + eps_shift) sig)) < Delta ->
    PostT (THard, @hard_case_step R NumR (rneg (rmatvec V (rdiv bv (rshift (- hd 0 sig + eps_shift) sig)))) z Delta).
  Proof.
    intros Heps E2 E3.
    set (lam0 := - hd 0 sig + eps_shift) in *. fold (pof lam0).
    assert (Hl0 : 0 <= lam0) by (unfold lam0; lra).
    assert (Hpos0 : 0 < hd 0 sig + lam0) by (unfold lam0; lra).
    pose proof (all_shift_pos lam0 Hpos0) as Hall0.
    assert (Hpp : pof lam0 ⋅ pof lam0 < Delta * Delta)
      by (rewrite pof_norm'; apply sqrt_lt_sq; [apply rdot_self_nonneg|exact Dpos|exact E3]).
    destruct (hard_case_on_boundary n (pof lam0) z Delta (pof_len lam0) z_len z_unit Hpp) as (Hxl & Hxx).
    unfold PostT. split; [exact Hxl|]. split; [exact Hxx|].
    intros s Hs Hball.
    revert Hxl Hxx. unfold hard_case_step. unfold_num. q2r.
    match goal with |- context [raxpy _ ?t z] => set (tau := t) end.
    intros Hxl Hxx.
    assert (Hsys : forall w, len n w -> A (pof lam0) ⋅ w + lam0 * (pof lam0 ⋅ w) = - (b ⋅ w))
      by (apply pof_system; intros x Hx; specialize (Hall0 x Hx); lra).
    assert (Hpsd : forall v, len n v -> 0 <= v ⋅ A v + lam0 * (v ⋅ v))
      by (apply pof_psd; intros x Hx; specialize (Hall0 x Hx); lra).
    assert (Hze : forall w, len n w -> A z ⋅ w + lam0 * (z ⋅ w) = eps_shift * (z ⋅ w))
      by (intros w Hw; rewrite (z_eigen lam0 w Hw); unfold lam0; ring).
    pose proof (hard_case_near_optimal_full n A b (pof lam0) z lam0 eps_shift tau Delta Alen Alin Asym blen (pof_len lam0) z_len
                  Hl0 ltac:(lra) ltac:(lra) Hsys Hpsd z_unit Hze Hxx s Hs Hball) as Hopt.
    pose proof (tau_bound (pof lam0) z tau (pof_len lam0) z_len z_unit ltac:(lra) Hxx) as Htau.
    assert (2 * Rabs tau * eps_shift * Delta <= 4 * eps_shift * (Delta * Delta))
      by (assert (Rabs tau * Delta <= 2 * Delta * Delta) by nra; nra).
    lra.
  Qed.

  (* sigScale == 0: every eigenvalue is zero, the model is s.b *)
  Lemma zero_branch : @vmean_abs R NumR sig = 0 ->
    PostT (TZero, if Rltb 0 (sqrt (b ⋅ b)) then rscale (- (Delta / sqrt (b ⋅ b))) b else rscale 0 b).
  Proof.
    intros HZ. pose proof (mean_abs_zero HZ) as Hall.
    assert (Hq : forall s, len n s -> s ⋅ A s = 0).
    { intros s Hs. rewrite decomp by assumption. rewrite adj by (apply len_sigmul, len_Vt).
      apply rmul_zero_dot; [rewrite (len_Vt s); symmetry; exact siglen|exact Hall]. }
    assert (Hen : forall s, len n s -> energyR A b s = s ⋅ b) by (intros s Hs; unfold energyR; rewrite (Hq s Hs); ring).
    unfold PostT. destruct (Rltb 0 (sqrt (b ⋅ b))) eqn:Eb.
    - apply Rltb_true in Eb.
      assert (Hbb : 0 < b ⋅ b).
      { destruct (Rle_lt_or_eq_dec 0 (b ⋅ b) (rdot_self_nonneg b)) as [H|H]; [exact H|]. rewrite <- H, sqrt_0 in Eb. lra. }
      split; [auto with vlen|].
      assert (Hz0 : rzero b ⋅ rzero b <= Delta * Delta) by (rewrite rdot_rzero_l; nra).
      destruct (linear_min_dot n b (rzero b) Delta blen ltac:(auto with vlen) Dpos Hbb Hz0) as (Hpp & _). cbv zeta in Hpp.
      split; [lra|]. split; [intros _; exact Hpp|].
      intros s Hs Hball. rewrite (Hen s Hs), Hen by auto with vlen.
      destruct (linear_min_dot n b s Delta blen Hs Dpos Hbb Hball) as (_ & H2). exact H2.
    - apply Rltb_false in Eb.
      assert (Hbb : b ⋅ b = 0).
      { pose proof (rdot_self_nonneg b) as H0. pose proof (sqrt_pos (b ⋅ b)). apply sqrt_eq_0; [exact H0|lra]. }
      split; [auto with vlen|].
      rewrite rdot_rscale_l, rdot_rscale_r.
      split; [nra|]. split; [intros H; lra|].
      intros s Hs Hball. rewrite (Hen s Hs), Hen by auto with vlen.
      rewrite rdot_rscale_l. rewrite (rdot_comm s b), (rdot_self_zero b Hbb s). lra.
  Qed.

  Theorem treigen_minimiser : PostT (@treigen_solve R NumR cap sig V b Delta).
  Proof.
    unfold treigen_solve. cbv zeta. rewrite (siglen : length sig = n). fold Vt. fold bv. fold bvv. fold z.
    rewrite !vnorm_R. unfold c_1em12. unfold_num. q2r. fold c12. fold eps_shift. fold pnsq.
    set (sig0 := hd 0 sig).
    destruct (Rltb 0 sig0) eqn:E0; destruct (Rltb (sqrt (rdiv bv sig ⋅ rdiv bv sig)) Delta) eqn:E1; cbn [andb].
    1: { (* interior *)
      apply Rltb_true in E0. apply Rltb_true in E1.
      assert (Ep : rneg (rmatvec V (rdiv bv sig)) = pof 0) by (unfold pof; rewrite rshift_0; reflexivity).
      rewrite Ep. unfold PostT.
      assert (Hpp : pof 0 ⋅ pof 0 < Delta * Delta).
      { rewrite pof_norm', rshift_0. apply sqrt_lt_sq; [apply rdot_self_nonneg|exact Dpos|exact E1]. }
      split; [apply pof_len|]. split; [exact Hpp|].
      apply (pof_optimal 0 Delta); [lra|fold sig0; lra|lra|ring]. }
    all: destruct (Reqb (@vmean_abs R NumR sig) 0) eqn:EZ.
    all: try (apply Reqb_true in EZ; apply zero_branch; exact EZ).
    all: apply Reqb_false in EZ.
    all: assert (Heps : 0 < eps_shift) by (pose proof mean_abs_nonneg; unfold eps_shift, c12; apply Rmult_lt_0_compat; lra).
    all: destruct (Rltb sig0 eps_shift) eqn:E2; cbn [andb].
    all: try (destruct (Rltb (sqrt (rdiv bv (rshift (- sig0 + eps_shift) sig) ⋅ rdiv bv (rshift (- sig0 + eps_shift) sig))) Delta) eqn:E3).
    all: try (apply Rltb_true in E2); try (apply Rltb_false in E2).
    (* secular branches with lam0 = 0: eps <= sig0, so sig0 > 0 and the interior test failed on the norm *)
    all: try (apply Rltb_false in E0; exfalso; lra).
    all: try match goal with |- PostT (let '(_, _) := secular _ _ _ _ _ _ 0 _ _ in _) =>
           apply Rltb_false in E1; apply secular_branch; [lra|fold sig0; lra|fold sig0; lra|exact Heps|rewrite rshift_0; exact E1] end.
    (* secular branches with lam0 = -sig0 + eps *)
    all: try match goal with |- PostT (let '(_, _) := secular _ _ _ _ _ _ _ _ _ in _) =>
           apply Rltb_false in E3; apply secular_branch; [lra|fold sig0; lra|fold sig0; lra|exact Heps|exact E3] end.
    (* hard case *)
    all: apply Rltb_true in E3; apply hard_branch; assumption.
  Qed.
End Eigh.


(* every admissible multiplier gives a minimiser over the ball of its own radius: what a secular loop that stops early (iteration cap,
   or a Newton correction below the resolution of lam -- the patch proposed for finding F2c) returns is still optimal for the radius it reached *)
Lemma shifted_step_optimal k (A : rvec -> rvec) (sig : rvec) (V : list rvec) (b : rvec) :
  len (S k) sig -> rows (S k) V -> length V = S k -> len (S k) b ->
  (forall y, len (S k) y -> rmatvec (rtranspose (S k) V) (rmatvec V y) = y) ->
  (forall x, len (S k) x -> rmatvec V (rmatvec (rtranspose (S k) V) x) = x) ->
  (forall x, len (S k) x -> A x = rmatvec V (rmul sig (rmatvec (rtranspose (S k) V) x))) ->
  (forall x, In x sig -> hd 0 sig <= x) ->
  forall lam, 0 <= lam -> 0 < hd 0 sig + lam ->
  let p := rneg (rmatvec V (rdiv (rmatvec (rtranspose (S k) V) b) (rshift lam sig))) in
  len (S k) p /\ forall s, len (S k) s -> s ⋅ s <= p ⋅ p -> energyR A b p <= energyR A b s.
Proof.
  intros Hsig Hrows HV Hb O1 O2 Dec Asc lam Hlam Hpos. cbv zeta.
  fold (pof k sig V b lam).
  split; [apply (pof_len k sig V b HV)|].
  intros s Hs Hball.
  pose proof (rdot_self_nonneg (pof k sig V b lam)) as Hnn. pose proof (sqrt_sqrt _ Hnn) as Hsq.
  apply (pof_optimal k A sig V b Hsig Hrows HV Hb O1 O2 Dec Asc lam (sqrt (pof k sig V b lam ⋅ pof k sig V b lam))); try assumption; try lra.
  rewrite Hsq. ring.
Qed.

(* ------------------------------------------------------------------ the hypotheses are satisfiable and the secular branch is reached:
   A = (2), b = (4), Delta = 1: one Newton step (exact in one dimension) gives lam = 2, p = (-1) *)
Lemma len1_inv (v : rvec) : len 1 v -> exists a, v = [a].
Proof. destruct v as [|a [|c v]]; cbn; try discriminate. intros _. eauto. Qed.
Lemma treigen_nonvacuous :
  let sig := [2] in let V := [[1]] in let b := [4] in
  let A := fun x : rvec => rmatvec V (rmul sig (rmatvec (rtranspose 1 V) x)) in
  len 1 sig /\ rows 1 V /\ length V = 1%nat /\ len 1 b /\
  (forall y, len 1 y -> rmatvec (rtranspose 1 V) (rmatvec V y) = y) /\
  (forall x, len 1 x -> rmatvec V (rmatvec (rtranspose 1 V) x) = x) /\
  (forall x, len 1 x -> A x = rmatvec V (rmul sig (rmatvec (rtranspose 1 V) x))) /\
  (forall x, In x sig -> hd 0 sig <= x) /\ 0 < @vmean_abs R NumR sig /\
  @treigen_solve R NumR 1 sig V b 1 = (TSecular 1, [-1]).
Proof.
  cbv zeta. repeat split; auto.
  - intros row [<-|[]]. reflexivity.
  - intros y Hy. destruct (len1_inv y Hy) as (a & ->). cbn. unfold_num. q2r. f_equal. ring.
  - intros y Hy. destruct (len1_inv y Hy) as (a & ->). cbn. unfold_num. q2r. f_equal. ring.
  - intros x [<-|[]]. cbn. lra.
  - cbv beta iota zeta delta [vmean_abs nsum map length Z.of_nat Pos.of_succ_nat]. unfold_num. q2r. rewrite Rabs_right by lra. lra.
  - cbv beta iota zeta delta [treigen_solve secular length matvec transpose_n map hd tl vmul vdiv vshift vmap2 vnorm vneg vdot ndot pnorm_squared qnorm_squared vrecip_pow2 vrecip_pow3 vmean_abs nsum c_1em12 c_1em9 Z.of_nat Pos.of_succ_nat].
    unfold_num. q2r.
    repeat first
      [ match goal with |- context [Rabs ?e] => first [rewrite (Rabs_right e) by lra | rewrite (Rabs_left e) by lra] end
      | match goal with |- context [sqrt ?e] =>
          first [replace e with (2 * 2) by lra; rewrite (sqrt_square 2) by lra | replace e with (1 * 1) by lra; rewrite (sqrt_square 1) by lra] end
      | match goal with |- context [Rltb ?a ?b] =>
          first [rewrite (proj2 (Rltb_true a b)) by lra | rewrite (proj2 (Rltb_false a b)) by lra] end
      | match goal with |- context [Reqb ?a ?b] =>
          first [rewrite (proj2 (Reqb_true a b)) by lra | rewrite (proj2 (Reqb_false a b)) by lra] end
      | progress cbn [andb] ].
    repeat f_equal. lra.
Qed.

(* ... and the zero-Hessian return is reached with the same contract: A = (0), b = (2), Delta = 1 gives the step (-1) *)
Lemma treigen_zero_nonvacuous :
  let sig := [0] in let V := [[1]] in let b := [2] in
  let A := fun x : rvec => rmatvec V (rmul sig (rmatvec (rtranspose 1 V) x)) in
  len 1 sig /\ rows 1 V /\ length V = 1%nat /\ len 1 b /\
  (forall y, len 1 y -> rmatvec (rtranspose 1 V) (rmatvec V y) = y) /\
  (forall x, len 1 x -> rmatvec V (rmatvec (rtranspose 1 V) x) = x) /\
  (forall x, len 1 x -> A x = rmatvec V (rmul sig (rmatvec (rtranspose 1 V) x))) /\
  (forall x, In x sig -> hd 0 sig <= x) /\
  @treigen_solve R NumR 100 sig V b 1 = (TZero, [-1]).
Proof.
  cbv zeta. repeat split; auto.
  - intros row [<-|[]]. reflexivity.
  - intros y Hy. destruct (len1_inv y Hy) as (a & ->). cbn. unfold_num. q2r. f_equal. ring.
  - intros y Hy. destruct (len1_inv y Hy) as (a & ->). cbn. unfold_num. q2r. f_equal. ring.
  - intros x [<-|[]]. cbn. lra.
  - cbv beta iota zeta delta [treigen_solve length matvec transpose_n map hd tl vmul vdiv vshift vmap2 vnorm vneg vscale vdot ndot vmean_abs nsum Z.of_nat Pos.of_succ_nat].
    unfold_num. q2r.
    repeat first
      [ match goal with |- context [Rabs ?e] => first [rewrite (Rabs_right e) by lra | rewrite (Rabs_left e) by lra] end
      | match goal with |- context [sqrt ?e] =>
          first [replace e with (2 * 2) by lra; rewrite (sqrt_square 2) by lra | replace e with (0 * 0) by lra; rewrite (sqrt_square 0) by lra] end
      | match goal with |- context [Rltb ?a ?b] =>
          first [rewrite (proj2 (Rltb_true a b)) by lra | rewrite (proj2 (Rltb_false a b)) by lra] end
      | match goal with |- context [Reqb ?a ?b] =>
          first [rewrite (proj2 (Reqb_true a b)) by lra | rewrite (proj2 (Reqb_false a b)) by lra] end
      | progress cbn [andb] ].
    repeat f_equal. lra.
Qed.
