(* C03 -- real-valued meaning of the certificate checkers of model/M_C03.v and their soundness *)
From Coq Require Import ZArith QArith List Bool Lia Reals Lra.
From OV.model Require Import M_C03.
From OV.proofs Require Import L_C03sn.
Import ListNotations.
Local Open Scope R_scope.

(* ---------------------------------------------------------------- the identities, over R *)
Definition tri_moment (i j : nat) : R := INR (fact i) * INR (fact j) / INR (fact (i + j + 2)).

(* a rule (pts, ws) on the reference triangle integrates x^i y^j, i + j <= d, to the exact moment within eps *)
Definition TriQuadExact (d : nat) (eps : R) (pts : list (R * R)) (ws : list R) : Prop :=
  length pts = length ws /\
  (forall i j, (i + j <= d)%nat -> Rabs (rdot ws (map (fun p => rmon p (i, j)) pts) - tri_moment i j) <= eps) /\
  (forall w, In w ws -> 0 < w) /\
  (forall p, In p pts -> 0 <= fst p /\ 0 <= snd p /\ fst p + snd p <= 1).

Definition Gauss1dExact (d : nat) (eps : R) (xs ws : list R) : Prop :=
  length xs = length ws /\
  (forall k, (k <= d)%nat -> Rabs (rdot ws (map (fun x => x ^ k) xs) - 1 / INR (S k)) <= eps) /\
  (forall w, In w ws -> 0 < w) /\
  (forall x, In x xs -> 0 <= x <= 1).

(* reference identities of a nodal basis of order p at one evaluation point q:
   N_a = shape values, (Gx_a, Gy_a) = parametric gradients, nodes = reference node coordinates *)
Definition RefIds (p : nat) (eps : R) (nodes : list (R * R)) (q : R * R) (N Gx Gy : list R) : Prop :=
  length N = length nodes /\ length Gx = length nodes /\ length Gy = length nodes /\
  forall i j, (i + j <= p)%nat ->
    Rabs (rdot N (map (fun nd => rmon nd (i, j)) nodes) - rmon q (i, j)) <= eps /\
    Rabs (rdot Gx (map (fun nd => rmon nd (i, j)) nodes) - rmon_dx q (i, j)) <= eps /\
    Rabs (rdot Gy (map (fun nd => rmon nd (i, j)) nodes) - rmon_dy q (i, j)) <= eps.

Definition RefIds1 (p : nat) (eps : R) (nodes : list R) (s : R) (N dN : list R) : Prop :=
  length N = length nodes /\ length dN = length nodes /\
  forall k, (k <= p)%nat ->
    Rabs (rdot N (map (fun x => x ^ k) nodes) - s ^ k) <= eps /\
    Rabs (rdot dN (map (fun x => x ^ k) nodes) - rdmon s k) <= eps.

Definition rvertex (f : nat) : R * R := match f with O => (1, 0) | S O => (0, 1) | _ => (0, 0) end.
Definition rlerp (s : R) (p q : R * R) : R * R := ((1 - s) * fst p + s * fst q, (1 - s) * snd p + s * snd q).
Definition pclose (eps : R) (p q : R * R) : Prop := Rabs (fst p - fst q) <= eps /\ Rabs (snd p - snd q) <= eps.

(* ---------------------------------------------------------------- soundness *)
Section Sound.
  Variable b : Z.
  Hypothesis Hb : (2 <= b)%Z.
  Notation s2r := (s2r b).
  Notation p2r := (p2r b).

  Lemma map_mon pts ij : map s2r (map (fun p => s_mon p ij) pts) = map (fun p => rmon p ij) (map p2r pts).
  Proof. rewrite !map_map. apply map_ext. intros p. apply s2r_mon, Hb. Qed.
  Lemma map_pow xs k : map s2r (map (fun x => s_pow x k) xs) = map (fun x => x ^ k) (map s2r xs).
  Proof. rewrite !map_map. apply map_ext. intros x. apply s2r_pow, Hb. Qed.

  Lemma map_pows_mon d i j pts : (i <= d)%nat -> (j <= d)%nat ->
    map s2r (map (fun t => s_mul (nth i (fst t) (0, 0)%Z) (nth j (snd t) (0, 0)%Z))
                 (map (fun p => (s_pows (fst p) d, s_pows (snd p) d)) pts))
    = map (fun p => rmon p (i, j)) (map p2r pts).
  Proof.
    intros Hi Hj. rewrite !map_map. apply map_ext. intros p. cbn [fst snd].
    rewrite (s2r_mul b Hb), !(s2r_pows b Hb) by assumption. reflexivity.
  Qed.

  Theorem tri_rule_ok_sound d pts ws tn td : (0 < td)%Z -> tri_rule_ok b d pts ws tn td = true ->
    TriQuadExact d (IZR tn / IZR td) (map p2r pts) (map s2r ws).
  Proof.
    intros Htd H. unfold tri_rule_ok in H. rewrite !andb_true_iff in H. destruct H as [[[Hl Hm] Hw] Hp].
    apply Nat.eqb_eq in Hl. rewrite forallb_forall in Hm, Hw, Hp.
    split; [rewrite !map_length; exact Hl|]. split; [|split].
    - intros i j Hij. pose proof Hij as Hle. apply in_monos in Hij. cbv zeta in Hm. specialize (Hm _ Hij). unfold tri_mono_ok in Hm. cbn [fst snd] in Hm.
      apply (s_close_frac_sound b Hb) in Hm; [| apply zfact_pos | exact Htd].
      rewrite (s2r_dot b Hb) in Hm.
      rewrite (map_pows_mon d i j pts) in Hm by lia. unfold tri_moment.
      rewrite mult_IZR, !zfact_fact in Hm. exact Hm.
    - intros w Hin. apply in_map_iff in Hin. destruct Hin as [w' [<- Hin]]. specialize (Hw _ Hin).
      apply (s_ltb_sound b Hb) in Hw. rewrite (s2r_Z b) in Hw. exact Hw.
    - intros p Hin. apply in_map_iff in Hin. destruct Hin as [p' [<- Hin]]. specialize (Hp _ Hin).
      unfold in_ref_tri in Hp. rewrite !andb_true_iff in Hp. destruct Hp as [[H1 H2] H3].
      apply (s_leb_sound b Hb) in H1, H2, H3. rewrite (s2r_Z b) in H1, H2, H3. rewrite (s2r_add b Hb) in H3.
      unfold L_C03sn.p2r; cbn [fst snd]. auto.
  Qed.

  Theorem gauss1d_ok_sound d xs ws tn td : (0 < td)%Z -> gauss1d_ok b d xs ws tn td = true ->
    Gauss1dExact d (IZR tn / IZR td) (map s2r xs) (map s2r ws).
  Proof.
    intros Htd H. unfold gauss1d_ok in H. rewrite !andb_true_iff in H. destruct H as [[[Hl Hm] Hw] Hp].
    apply Nat.eqb_eq in Hl. rewrite forallb_forall in Hm, Hw, Hp.
    split; [rewrite !map_length; exact Hl|]. split; [|split].
    - intros k Hk. assert (Hin : In k (seq 0 (S d))) by (apply in_seq; lia).
      specialize (Hm _ Hin). unfold gauss1d_mono_ok in Hm.
      apply (s_close_frac_sound b Hb) in Hm; [| lia | exact Htd].
      rewrite (s2r_dot b Hb), map_pow in Hm. rewrite <- INR_IZR_INZ in Hm. exact Hm.
    - intros w Hin. apply in_map_iff in Hin. destruct Hin as [w' [<- Hin]]. specialize (Hw _ Hin).
      apply (s_ltb_sound b Hb) in Hw. rewrite (s2r_Z b) in Hw. exact Hw.
    - intros x Hin. apply in_map_iff in Hin. destruct Hin as [x' [<- Hin]]. specialize (Hp _ Hin).
      rewrite andb_true_iff in Hp. destruct Hp as [H1 H2].
      apply (s_leb_sound b Hb) in H1, H2. rewrite (s2r_Z b) in H1, H2. split; assumption.
  Qed.

  Definition qrec2r (r : qrec) : (R * R) * (list R * (list R * list R)) :=
    let '(q, (N, (Gx, Gy))) := r in (p2r q, (map s2r N, (map s2r Gx, map s2r Gy))).

  Theorem shapes_ok_sound p nodes qrecs tn td : (0 < td)%Z -> shapes_ok b p nodes qrecs tn td = true ->
    forall q N Gx Gy, In (q, (N, (Gx, Gy))) qrecs ->
      RefIds p (IZR tn / IZR td) (map p2r nodes) (p2r q) (map s2r N) (map s2r Gx) (map s2r Gy).
  Proof.
    intros Htd H q N Gx Gy Hin. unfold shapes_ok in H. rewrite forallb_forall in H.
    assert (Hlen : length N = length nodes /\ length Gx = length nodes /\ length Gy = length nodes).
    { assert (H0 : In (0%nat, 0%nat) (monos p)) by (apply in_monos; lia).
      specialize (H _ H0). cbv zeta in H. rewrite forallb_forall in H. specialize (H _ Hin).
      unfold shape_q_ok in H. rewrite !andb_true_iff in H. destruct H as [[[[[H1 H2] H3] _] _] _].
      apply Nat.eqb_eq in H1, H2, H3. auto. }
    destruct Hlen as [L1 [L2 L3]].
    unfold RefIds. rewrite !map_length. repeat (split; [assumption|]).
    intros i j Hij. apply in_monos in Hij. specialize (H _ Hij). cbv zeta in H.
    rewrite forallb_forall in H. specialize (H _ Hin). unfold shape_q_ok in H.
    rewrite !andb_true_iff in H. destruct H as [[[_ H1] H2] H3].
    apply (s_close_sound b Hb) in H1, H2, H3; try exact Htd.
    rewrite (s2r_dot b Hb), map_mon in H1, H2, H3.
    rewrite (s2r_mon b Hb) in H1. rewrite (s2r_mon_dx b Hb) in H2. rewrite (s2r_mon_dy b Hb) in H3. auto.
  Qed.

  Theorem shapes1d_ok_sound p nodes qrecs tn td : (0 < td)%Z -> shapes1d_ok b p nodes qrecs tn td = true ->
    forall s N dN, In (s, (N, dN)) qrecs ->
      RefIds1 p (IZR tn / IZR td) (map s2r nodes) (s2r s) (map s2r N) (map s2r dN).
  Proof.
    intros Htd H s N dN Hin. unfold shapes1d_ok in H. rewrite forallb_forall in H.
    assert (Hlen : length N = length nodes /\ length dN = length nodes).
    { assert (H0 : In 0%nat (seq 0 (S p))) by (apply in_seq; lia).
      specialize (H _ H0). cbv zeta in H. rewrite forallb_forall in H. specialize (H _ Hin).
      unfold shape1_q_ok in H. rewrite !andb_true_iff in H. destruct H as [[[H1 H2] _] _].
      apply Nat.eqb_eq in H1, H2. auto. }
    destruct Hlen as [L1 L2].
    unfold RefIds1. rewrite !map_length. repeat (split; [assumption|]).
    intros k Hk. assert (Hin' : In k (seq 0 (S p))) by (apply in_seq; lia).
    specialize (H _ Hin'). cbv zeta in H. rewrite forallb_forall in H. specialize (H _ Hin).
    unfold shape1_q_ok in H. rewrite !andb_true_iff in H. destruct H as [[_ H1] H2].
    apply (s_close_sound b Hb) in H1, H2; try exact Htd.
    rewrite (s2r_dot b Hb), map_pow in H1, H2.
    rewrite (s2r_pow b Hb) in H1. rewrite (s2r_dmon b Hb) in H2. auto.
  Qed.

  (* face-node layout *)
  Lemma ref_vertex_r f : p2r (ref_vertex f) = rvertex f.
  Proof.
    destruct f as [|[|f]]; unfold L_C03sn.p2r, ref_vertex, rvertex; cbn [fst snd]; rewrite !(s2r_Z b); reflexivity.
  Qed.
  Lemma pt_close_sound p q tn td : (0 < td)%Z -> pt_close b p q tn td = true -> pclose (IZR tn / IZR td) (p2r p) (p2r q).
  Proof.
    intros Htd H. unfold pt_close in H. rewrite andb_true_iff in H. destruct H as [H1 H2].
    apply (s_close_sound b Hb) in H1, H2; try exact Htd. split; assumption.
  Qed.
  Lemma lerp_r s p q : p2r (lerp b s p q) = rlerp (s2r s) (p2r p) (p2r q).
  Proof.
    unfold lerp, rlerp, L_C03sn.p2r; cbn [fst snd].
    rewrite !(s2r_add b Hb), !(s2r_mul b Hb), !(s2r_sub b Hb), !(s2r_Z b). reflexivity.
  Qed.
  (* meaning of faces_ok: the three vertex nodes are exactly the reference vertices; every face has as many nodes
     as the 1-D element; node number fn[a] of face f sits at (1 - s_a) V_f + s_a V_{f+1} *)
  Theorem faces_ok_sound nodes vn faces nodes1 tn td : (0 < td)%Z -> faces_ok b nodes vn faces nodes1 tn td = true ->
    (exists a c d, vn = [a; c; d] /\
       exists pa pc pd, nth_error nodes a = Some pa /\ nth_error nodes c = Some pc /\ nth_error nodes d = Some pd /\
         p2r pa = rvertex 0 /\ p2r pc = rvertex 1 /\ p2r pd = rvertex 2) /\
    length faces = 3%nat /\
    forall f fn, nth_error faces f = Some fn ->
      length fn = length nodes1 /\
      forall a ia s, nth_error fn a = Some ia -> nth_error nodes1 a = Some s ->
        exists pt, nth_error nodes ia = Some pt /\
          pclose (IZR tn / IZR td) (p2r pt) (rlerp (s2r s) (rvertex f) (rvertex (S f mod 3))).
  Proof.
    intros Htd H. unfold faces_ok in H. rewrite !andb_true_iff in H. destruct H as [[[Hv Hl] Hf] _].
    apply Nat.eqb_eq in Hl. split; [|split; [exact Hl|]].
    - unfold vertices_ok in Hv. destruct vn as [|a [|c [|d [|]]]]; try discriminate.
      exists a, c, d. split; [reflexivity|]. unfold nth_node in Hv.
      destruct (nth_error nodes a) as [pa|]; [|discriminate].
      destruct (nth_error nodes c) as [pc|]; [|discriminate].
      destruct (nth_error nodes d) as [pd|]; [|discriminate].
      rewrite !andb_true_iff in Hv. destruct Hv as [[H1 H2] H3].
      exists pa, pc, pd. repeat (split; [reflexivity|]).
      assert (Hz : forall p q, pt_close b p q 0 1 = true -> p2r p = p2r q).
      { intros p q Hc. apply pt_close_sound in Hc; [|lia]. destruct Hc as [C1 C2].
        replace (0 / 1) with 0 in C1, C2 by field.
        destruct (p2r p) as [x y], (p2r q) as [x' y']; cbn [fst snd] in *.
        f_equal; [pose proof (Rabs_pos (x - x')); apply Rminus_diag_uniq; destruct (Req_dec (x - x') 0); [assumption|]; apply Rabs_pos_lt in H0; lra
                 | pose proof (Rabs_pos (y - y')); apply Rminus_diag_uniq; destruct (Req_dec (y - y') 0); [assumption|]; apply Rabs_pos_lt in H0; lra]. }
      rewrite <- !ref_vertex_r. repeat split; apply Hz; assumption.
    - rewrite forallb_forall in Hf. intros f fn Hnth.
      assert (Hin : In (f, fn) (combine (seq 0 3) faces)).
      { destruct faces as [|f0 [|f1 [|f2 [|]]]]; try discriminate.
        destruct f as [|[|[|f]]]; cbn in Hnth; try discriminate; inversion Hnth; subst; cbn; auto.
        destruct f; discriminate. }
      specialize (Hf _ Hin). cbn [fst snd] in Hf. unfold face_ok in Hf. rewrite andb_true_iff in Hf.
      destruct Hf as [Hlen Hall]. apply Nat.eqb_eq in Hlen. split; [exact Hlen|].
      rewrite forallb_forall in Hall. intros a ia s Ha Hs.
      assert (Hin2 : In (ia, s) (combine fn nodes1)).
      { clear - Ha Hs. revert a nodes1 Ha Hs. induction fn as [|x fn IH]; intros [|a] [|y l] Ha Hs; cbn in *; try discriminate.
        - inversion Ha; inversion Hs; subst; auto.
        - right. eapply IH; eassumption. }
      specialize (Hall _ Hin2). cbn [fst snd] in Hall. unfold nth_node in Hall.
      destruct (nth_error nodes ia) as [pt|]; [|discriminate]. exists pt. split; [reflexivity|].
      apply pt_close_sound in Hall; [|exact Htd]. rewrite lerp_r, !ref_vertex_r in Hall. exact Hall.
  Qed.

  (* 1-D nodes *)
  Lemma increasing_sound l : increasing b l = true ->
    forall a x y, nth_error l a = Some x -> nth_error l (S a) = Some y -> s2r x < s2r y.
  Proof.
    induction l as [|x0 l IH]; intros H a x y Hx Hy; [destruct a; discriminate|].
    destruct l as [|y0 l]; [destruct a; cbn in Hy; try discriminate; destruct a; discriminate|].
    cbn [increasing] in H. rewrite andb_true_iff in H. destruct H as [H1 H2].
    destruct a as [|a].
    - cbn in Hx, Hy. inversion Hx; inversion Hy; subst. apply (s_ltb_sound b Hb), H1.
    - apply (IH H2 a); assumption.
  Qed.
  Theorem nodes1d_ok_sound p xs tn td : (0 < td)%Z -> nodes1d_ok b p xs tn td = true ->
    length xs = S p /\ s2r (hd (1, 0)%Z xs) = 0 /\ s2r (last xs (0, 0)%Z) = 1 /\
    (forall a x y, nth_error xs a = Some x -> nth_error xs (S a) = Some y -> s2r x < s2r y) /\
    (forall a x y, nth_error xs a = Some x -> nth_error (rev xs) a = Some y -> Rabs (s2r x + s2r y - 1) <= IZR tn / IZR td).
  Proof.
    intros Htd H. unfold nodes1d_ok in H. rewrite !andb_true_iff in H. destruct H as [[[[Hl H0] H1] Hi] Hr].
    apply Nat.eqb_eq in Hl.
    assert (Hz : forall u v, s_close b u v 0 1 = true -> s2r u = s2r v).
    { intros u v Hc. apply (s_close_sound b Hb) in Hc; [|lia]. replace (0 / 1) with 0 in Hc by field.
      apply Rminus_diag_uniq. destruct (Req_dec (s2r u - s2r v) 0); [assumption|]. apply Rabs_pos_lt in H. lra. }
    split; [exact Hl|]. split; [rewrite (Hz _ _ H0); apply (s2r_Z b)|]. split; [rewrite (Hz _ _ H1); apply (s2r_Z b)|].
    split; [apply increasing_sound; exact Hi|].
    rewrite forallb_forall in Hr. intros a x y Hx Hy.
    assert (Hin : In (x, y) (combine xs (rev xs))).
    { clear - Hx Hy. revert a Hx Hy. generalize (rev xs) as l'. induction xs as [|u l IH]; intros [|v l'] [|a] Hx Hy; cbn in *; try discriminate.
      - inversion Hx; inversion Hy; subst; auto.
      - right. eapply IH; eassumption. }
    specialize (Hr _ Hin). cbn [fst snd] in Hr.
    apply (s_close_sound b Hb) in Hr; [|exact Htd]. rewrite (s2r_add b Hb), (s2r_Z b) in Hr. exact Hr.
  Qed.
End Sound.

(* ---------------------------------------------------------------- decimal tables as rationals *)
Lemma q2dec_sound S q x : (0 <= S)%Z -> q2dec S q = Some x -> s2r 10 x = Q2R q.
Proof.
  intros HS H. unfold q2dec in H. destruct (Z.eqb_spec (Zpos (Qden q)) (fpow 10 S)) as [E|]; [|discriminate].
  inversion H; subst x. unfold s2r, Q2R; cbn [fst snd]. f_equal.
  rewrite E, IZR_fpow by lia. rewrite <- powerRZ_neg' by lra. f_equal.
Qed.
Lemma omap_sound {A B} (f : A -> option B) l l' : omap f l = Some l' ->
  length l = length l' /\ forall k x, nth_error l k = Some x -> exists y, nth_error l' k = Some y /\ f x = Some y.
Proof.
  revert l'; induction l as [|a l IH]; intros l' H; cbn [omap] in H.
  - inversion H; subst. split; [reflexivity|]. intros [|k] x Hx; discriminate.
  - destruct (f a) as [y|] eqn:Fa; [|discriminate]. destruct (omap f l) as [ys|]; [|discriminate].
    inversion H; subst. destruct (IH ys eq_refl) as [L N]. split; [cbn; f_equal; exact L|].
    intros [|k] x Hx; cbn in *; [inversion Hx; subst; eauto | apply N, Hx].
Qed.
Lemma omap_map {A B C} (f : A -> option B) (g : B -> C) (h : A -> C) l l' :
  (forall x y, f x = Some y -> g y = h x) -> omap f l = Some l' -> map g l' = map h l.
Proof.
  intros Hfg. revert l'; induction l as [|a l IH]; intros l' H; cbn [omap] in H.
  - inversion H; reflexivity.
  - destruct (f a) as [y|] eqn:Fa; [|discriminate]. destruct (omap f l) as [ys|]; [|discriminate].
    inversion H; subst. cbn [map]. f_equal; [apply Hfg, Fa | apply IH; reflexivity].
Qed.

Definition Q2R2 (p : Q * Q) : R * R := (Q2R (fst p), Q2R (snd p)).

Theorem tri_table_ok_sound S bs tn td d : (0 <= S)%Z -> (0 < td)%Z -> tri_table_ok S bs tn td d = true ->
  exists pts ws, select_branch bs (Z.of_nat d) = Some (pts, ws) /\
    TriQuadExact d (IZR tn / IZR td) (map Q2R2 pts) (map Q2R ws).
Proof.
  intros HS Htd H. unfold tri_table_ok in H.
  destruct (select_branch bs (Z.of_nat d)) as [[pts ws]|]; [|discriminate].
  destruct (omap (q2dec2 S) pts) as [dp|] eqn:Ep; [|discriminate].
  destruct (omap (q2dec S) ws) as [dw|] eqn:Ew; [|discriminate].
  exists pts, ws. split; [reflexivity|].
  apply tri_rule_ok_sound in H; [|lia|exact Htd].
  assert (E1 : map (p2r 10) dp = map Q2R2 pts).
  { apply (omap_map (q2dec2 S)); [|exact Ep].
    intros [x1 x2] [y1 y2] Hxy. unfold q2dec2 in Hxy; cbn [fst snd] in Hxy.
    destruct (q2dec S x1) as [u|] eqn:E1; [|discriminate]. destruct (q2dec S x2) as [v|] eqn:E2; [|discriminate].
    inversion Hxy; subst. unfold p2r, Q2R2; cbn [fst snd]. f_equal; apply (q2dec_sound S); assumption. }
  assert (E2 : map (s2r 10) dw = map Q2R ws).
  { apply (omap_map (q2dec S)); [|exact Ew]. intros x y Hxy. apply (q2dec_sound S); assumption. }
  rewrite E1, E2 in H. exact H.
Qed.

Lemma select_index_branch bs d k : select_index bs d = Some k -> select_branch bs d = nth_error (map snd bs) k.
Proof.
  revert k; induction bs as [|[c t] r IH]; intros k H; cbn [select_index select_branch] in *; [discriminate|].
  destruct (cond_holds c d); [inversion H; reflexivity|].
  destruct (select_index r d) as [k'|]; [|discriminate]. inversion H; subst. cbn [map nth_error]. apply IH. reflexivity.
Qed.
Lemma same_index_select bs d D : same_index bs d D = true -> select_branch bs (Z.of_nat d) = select_branch bs (Z.of_nat D).
Proof.
  unfold same_index. destruct (select_index bs (Z.of_nat d)) as [a|] eqn:Ea; [|discriminate].
  destruct (select_index bs (Z.of_nat D)) as [c|] eqn:Ec; [|discriminate]. intros H. apply Nat.eqb_eq in H. subst c.
  rewrite (select_index_branch _ _ _ Ea), (select_index_branch _ _ _ Ec). reflexivity.
Qed.
Lemma TriQuadExact_mono d D eps pts ws : (d <= D)%nat -> TriQuadExact D eps pts ws -> TriQuadExact d eps pts ws.
Proof. intros Hd [L [H R]]. split; [exact L|]. split; [|exact R]. intros i j Hij. apply H. lia. Qed.

Theorem tri_tables_ok_sound S bs tn td dmax : (0 <= S)%Z -> (0 < td)%Z -> tri_tables_ok S bs tn td dmax = true ->
  forall d, (1 <= d <= dmax)%nat ->
  exists pts ws, select_branch bs (Z.of_nat d) = Some (pts, ws) /\
    TriQuadExact d (IZR tn / IZR td) (map Q2R2 pts) (map Q2R ws).
Proof.
  intros HS Htd H d Hd. unfold tri_tables_ok in H. cbv zeta in H. rewrite andb_true_iff in H. destruct H as [H1 H2].
  rewrite forallb_forall in H1, H2.
  assert (Hin : In d (seq 1 dmax)) by (apply in_seq; lia).
  specialize (H2 _ Hin). apply existsb_exists in H2. destruct H2 as [D [HD HdD]].
  rewrite andb_true_iff in HdD. destruct HdD as [Hle Hsame]. apply Nat.leb_le in Hle.
  specialize (H1 _ HD). apply tri_table_ok_sound in H1; [|exact HS|exact Htd].
  destruct H1 as [pts [ws [Hsel HQ]]]. exists pts, ws. split.
  - rewrite (same_index_select _ _ _ Hsame). exact Hsel.
  - eapply TriQuadExact_mono; eassumption.
Qed.

(* instances for binary64 tables (b = 2) *)
Lemma two_le_2 : (2 <= 2)%Z.
Proof. lia. Qed.
Definition tri_rule_ok_sound_b2 := tri_rule_ok_sound 2 two_le_2.
Definition gauss1d_ok_sound_b2 := gauss1d_ok_sound 2 two_le_2.
Definition shapes_ok_sound_b2 := shapes_ok_sound 2 two_le_2.
Definition shapes1d_ok_sound_b2 := shapes1d_ok_sound 2 two_le_2.
Definition faces_ok_sound_b2 := faces_ok_sound 2 two_le_2.
Definition nodes1d_ok_sound_b2 := nodes1d_ok_sound 2 two_le_2.
