(* C03 layer 3 -- lifting the reference identities to every affine element and every mesh (over R).
   Subject: the R-instance of the geometric kernels of model/M_C03.v (el_jac, el_vols, map_grad, el_vols_axi), which
   follow optimism/FunctionSpace.py (structure re-extracted into gen/Tab_FsGeom.v, binary64 behaviour tied by the
   correspondence).  Hypotheses RefIds / TriQuadExact are exactly what the certificate checkers establish for the
   runtime tables (proofs/L_C03cert.v), with their tolerance eps carried through explicitly. *)
From Coq Require Import ZArith QArith List Bool Lia Reals Lra Psatz.
From Coquelicot Require Import Coquelicot.
From OV.base Require Import Num.
From OV.model Require Import M_C03.
From OV.proofs Require Import L_C03sn L_C03cert.
From OV.gen Require Import Tab_FsGeom.
Import ListNotations.
Local Open Scope R_scope.

(* ------------------------------------------------------------------ sums *)
Lemma rdot_nil_r a : rdot a [] = 0.
Proof. destruct a; reflexivity. Qed.
Lemma rdot_map_add N {A} (f g : A -> R) l :
  rdot N (map (fun x => f x + g x) l) = rdot N (map f l) + rdot N (map g l).
Proof. revert l; induction N as [|n N IH]; intros [|x l]; cbn [map rdot]; try lra. rewrite IH. ring. Qed.
Lemma rdot_map_scal N {A} c (f : A -> R) l : rdot N (map (fun x => c * f x) l) = c * rdot N (map f l).
Proof. revert l; induction N as [|n N IH]; intros [|x l]; cbn [map rdot]; try lra. rewrite IH. ring. Qed.
Lemma rdot_map_zero N {A} (l : list A) : rdot N (map (fun _ => 0) l) = 0.
Proof. revert l; induction N as [|n N IH]; intros [|x l]; cbn [map rdot]; try lra. rewrite IH. ring. Qed.
Lemma rdot_map_ext N {A} (f g : A -> R) l : (forall x, f x = g x) -> rdot N (map f l) = rdot N (map g l).
Proof. intros H. f_equal. apply map_ext, H. Qed.
Lemma rdot_ones N {A} (l : list A) : length N = length l -> rdot N (map (fun _ => 1) l) = rsum N.
Proof. revert l; induction N as [|n N IH]; intros [|x l] H; cbn in *; try lra; try discriminate. rewrite IH by lia. ring. Qed.
Lemma rsum_app a c : rsum (a ++ c) = rsum a + rsum c.
Proof. induction a; cbn [app rsum]; [lra | rewrite IHa; ring]. Qed.
Lemma rsum_map_scal {A} c (f : A -> R) l : rsum (map (fun x => c * f x) l) = c * rsum (map f l).
Proof. induction l; cbn [map rsum]; [lra | rewrite IHl; ring]. Qed.
Lemma rsum_map_add {A} (f g : A -> R) l : rsum (map (fun x => f x + g x) l) = rsum (map f l) + rsum (map g l).
Proof. induction l; cbn [map rsum]; [lra | rewrite IHl; ring]. Qed.
Lemma rdot_comm a c : rdot a c = rdot c a.
Proof. revert c; induction a as [|x a IH]; intros [|y c]; cbn [rdot]; try lra. rewrite IH. ring. Qed.

(* ------------------------------------------------------------------ polynomials as monomial lists *)
Definition mono := (nat * nat)%type.
Definition poly := list (R * mono).
Definition plin (phi : mono -> R) (P : poly) : R := rsum (map (fun t => fst t * phi (snd t)) P).
Definition peval (P : poly) (x : R * R) : R := plin (rmon x) P.
Definition pdx (P : poly) (x : R * R) : R := plin (rmon_dx x) P.
Definition pdy (P : poly) (x : R * R) : R := plin (rmon_dy x) P.
Definition pnorm1 (P : poly) : R := rsum (map (fun t => Rabs (fst t)) P).
Definition pdeg_le (k : nat) (P : poly) : Prop := forall t, In t P -> (fst (snd t) + snd (snd t) <= k)%nat.
Definition madd (m n : mono) : mono := (fst m + fst n, snd m + snd n)%nat.
Definition pmul (P Q : poly) : poly := flat_map (fun s => map (fun t => (fst s * fst t, madd (snd s) (snd t))) Q) P.
(* integral over the reference triangle by the monomial formula  int x^i y^j = i! j! / (i+j+2)! *)
Definition pint_ref (P : poly) : R := plin (fun m => tri_moment (fst m) (snd m)) P.

Lemma pnorm1_nonneg P : 0 <= pnorm1 P.
Proof. induction P as [|t P IH]; unfold pnorm1 in *; cbn [map rsum]; [lra | pose proof (Rabs_pos (fst t)); lra]. Qed.
Lemma plin_app phi P Q : plin phi (P ++ Q) = plin phi P + plin phi Q.
Proof. unfold plin. rewrite map_app, rsum_app. reflexivity. Qed.
Lemma plin_cons phi t P : plin phi (t :: P) = fst t * phi (snd t) + plin phi P.
Proof. reflexivity. Qed.

(* bilinearity of the product for any functional that splits on sums of exponents *)
Lemma plin_pmul phi al be ga de P Q :
  (forall m n, phi (madd m n) = al m * be n + ga m * de n) ->
  plin phi (pmul P Q) = plin al P * plin be Q + plin ga P * plin de Q.
Proof.
  intros H. induction P as [|s P IH]; unfold pmul; cbn [flat_map]; [unfold plin; cbn; ring|].
  rewrite plin_app. fold (pmul P Q). rewrite IH, !plin_cons.
  assert (E : plin phi (map (fun t => (fst s * fst t, madd (snd s) (snd t))) Q)
              = fst s * (al (snd s) * plin be Q + ga (snd s) * plin de Q)).
  { clear IH. induction Q as [|t Q IHQ]; [unfold plin; cbn; ring|].
    cbn [map]. rewrite !plin_cons, IHQ. cbn [fst snd]. rewrite H. ring. }
  rewrite E. ring.
Qed.

Lemma rdmon_add x i j : rdmon x (i + j) = rdmon x i * x ^ j + x ^ i * rdmon x j.
Proof.
  unfold rdmon. destruct i as [|a]; [cbn; ring|]. destruct j as [|c].
  - rewrite Nat.add_0_r. cbn [pred pow INR]. ring.
  - replace (pred (S a + S c)) with (a + S c)%nat by lia. cbn [pred]. rewrite plus_INR, !pow_add. cbn [pow]. ring.
Qed.
Lemma rmon_madd x m n : rmon x (madd m n) = rmon x m * rmon x n.
Proof. unfold rmon, madd; cbn [fst snd]. rewrite !pow_add. ring. Qed.
Lemma rmon_dx_madd x m n : rmon_dx x (madd m n) = rmon_dx x m * rmon x n + rmon x m * rmon_dx x n.
Proof. unfold rmon_dx, rmon, madd; cbn [fst snd]. rewrite rdmon_add, !pow_add. ring. Qed.
Lemma rmon_dy_madd x m n : rmon_dy x (madd m n) = rmon_dy x m * rmon x n + rmon x m * rmon_dy x n.
Proof. unfold rmon_dy, rmon, madd; cbn [fst snd]. rewrite rdmon_add, !pow_add. ring. Qed.

Lemma peval_pmul P Q x : peval (pmul P Q) x = peval P x * peval Q x.
Proof.
  unfold peval. rewrite (plin_pmul _ (rmon x) (rmon x) (fun _ => 0) (fun _ => 0)).
  - replace (plin (fun _ => 0) P) with 0; [ring|]. unfold plin. induction P; cbn; [reflexivity|]. rewrite <- IHP. ring.
  - intros. rewrite rmon_madd. ring.
Qed.
Lemma pdx_pmul P Q x : pdx (pmul P Q) x = pdx P x * peval Q x + peval P x * pdx Q x.
Proof. unfold pdx, peval. apply plin_pmul. intros. apply rmon_dx_madd. Qed.
Lemma pdy_pmul P Q x : pdy (pmul P Q) x = pdy P x * peval Q x + peval P x * pdy Q x.
Proof. unfold pdy, peval. apply plin_pmul. intros. apply rmon_dy_madd. Qed.
Lemma pdeg_pmul k l P Q : pdeg_le k P -> pdeg_le l Q -> pdeg_le (k + l) (pmul P Q).
Proof.
  intros HP HQ t Hin. unfold pmul in Hin. apply in_flat_map in Hin. destruct Hin as [s [Hs Ht]].
  apply in_map_iff in Ht. destruct Ht as [u [<- Hu]]. specialize (HP _ Hs). specialize (HQ _ Hu).
  unfold madd; cbn [fst snd]. lia.
Qed.
Lemma pdeg_app k P Q : pdeg_le k P -> pdeg_le k Q -> pdeg_le k (P ++ Q).
Proof. intros HP HQ t Hin. apply in_app_or in Hin. destruct Hin; auto. Qed.
Lemma pdeg_mono k l P : (k <= l)%nat -> pdeg_le k P -> pdeg_le l P.
Proof. intros H HP t Hin. specialize (HP _ Hin). lia. Qed.

(* ------------------------------------------------------------------ polynomial functions with their gradients *)
Inductive PolyG : nat -> (R * R -> R) -> (R * R -> R) -> (R * R -> R) -> Prop :=
| PG_const c : PolyG 0 (fun _ => c) (fun _ => 0) (fun _ => 0)
| PG_x : PolyG 1 (fun x => fst x) (fun _ => 1) (fun _ => 0)
| PG_y : PolyG 1 (fun x => snd x) (fun _ => 0) (fun _ => 1)
| PG_add k f fx fy g gx gy : PolyG k f fx fy -> PolyG k g gx gy ->
    PolyG k (fun x => f x + g x) (fun x => fx x + gx x) (fun x => fy x + gy x)
| PG_mul k l f fx fy g gx gy : PolyG k f fx fy -> PolyG l g gx gy ->
    PolyG (k + l) (fun x => f x * g x) (fun x => fx x * g x + f x * gx x) (fun x => fy x * g x + f x * gy x)
| PG_le k l f fx fy : (k <= l)%nat -> PolyG k f fx fy -> PolyG l f fx fy
| PG_ext k f fx fy f' fx' fy' : (forall x, f x = f' x) -> (forall x, fx x = fx' x) -> (forall x, fy x = fy' x) ->
    PolyG k f fx fy -> PolyG k f' fx' fy'.

(* the second and third components really are the partial derivatives *)
Lemma PolyG_is_derive k f fx fy : PolyG k f fx fy ->
  forall x y, is_derive (fun t => f (t, y)) x (fx (x, y)) /\ is_derive (fun t => f (x, t)) y (fy (x, y)).
Proof.
  induction 1; intros x y.
  - split; apply @is_derive_const.
  - split; cbn [fst]; [apply @is_derive_id | apply @is_derive_const].
  - split; cbn [snd]; [apply @is_derive_const | apply @is_derive_id].
  - destruct (IHPolyG1 x y), (IHPolyG2 x y). split; apply @is_derive_plus; assumption.
  - destruct (IHPolyG1 x y) as [A1 A2], (IHPolyG2 x y) as [B1 B2].
    split.
    + apply (is_derive_mult (fun t => f (t, y)) (fun t => g (t, y)) x (fx (x, y)) (gx (x, y)) A1 B1). intros; apply Rmult_comm.
    + apply (is_derive_mult (fun t => f (x, t)) (fun t => g (x, t)) y (fy (x, y)) (gy (x, y)) A2 B2). intros; apply Rmult_comm.
  - apply IHPolyG.
  - destruct (IHPolyG x y) as [A1 A2]. split.
    + rewrite <- H0. apply is_derive_ext with (2 := A1). intros; apply H.
    + rewrite <- H1. apply is_derive_ext with (2 := A2). intros; apply H.
Qed.

(* normal form *)
Lemma PolyG_normal_form k f fx fy : PolyG k f fx fy ->
  exists P, pdeg_le k P /\ forall x, f x = peval P x /\ fx x = pdx P x /\ fy x = pdy P x.
Proof.
  induction 1.
  - exists [(c, (0, 0)%nat)]. split; [intros t [<-|[]]; cbn; lia|].
    intros x. unfold peval, pdx, pdy, plin, rmon, rmon_dx, rmon_dy, rdmon; cbn. repeat split; ring.
  - exists [(1, (1, 0)%nat)]. split; [intros t [<-|[]]; cbn; lia|].
    intros x. unfold peval, pdx, pdy, plin, rmon, rmon_dx, rmon_dy, rdmon; cbn. repeat split; ring.
  - exists [(1, (0, 1)%nat)]. split; [intros t [<-|[]]; cbn; lia|].
    intros x. unfold peval, pdx, pdy, plin, rmon, rmon_dx, rmon_dy, rdmon; cbn. repeat split; ring.
  - destruct IHPolyG1 as [P [DP EP]], IHPolyG2 as [Q [DQ EQ]]. exists (P ++ Q). split; [apply pdeg_app; assumption|].
    intros x. destruct (EP x) as [E1 [E2 E3]], (EQ x) as [F1 [F2 F3]]. unfold peval, pdx, pdy in *. rewrite !plin_app. repeat split; congruence.
  - destruct IHPolyG1 as [P [DP EP]], IHPolyG2 as [Q [DQ EQ]]. exists (pmul P Q). split; [apply pdeg_pmul; assumption|].
    intros x. destruct (EP x) as [E1 [E2 E3]], (EQ x) as [F1 [F2 F3]].
    rewrite peval_pmul, pdx_pmul, pdy_pmul, E1, E2, E3, F1, F2, F3. repeat split; reflexivity.
  - destruct IHPolyG as [P [DP EP]]. exists P. split; [eapply pdeg_mono; eassumption | exact EP].
  - destruct IHPolyG as [P [DP EP]]. exists P. split; [exact DP|]. intros x. rewrite <- H, <- H0, <- H1. apply EP.
Qed.

(* closure under affine substitution, with the chain rule *)
Definition affmap (a0 a1 a2 b0 b1 b2 : R) (xi : R * R) : R * R :=
  (a0 + a1 * fst xi + a2 * snd xi, b0 + b1 * fst xi + b2 * snd xi).
Lemma PolyG_affine k f fx fy a0 a1 a2 b0 b1 b2 : PolyG k f fx fy ->
  let A := affmap a0 a1 a2 b0 b1 b2 in
  PolyG k (fun xi => f (A xi)) (fun xi => fx (A xi) * a1 + fy (A xi) * b1) (fun xi => fx (A xi) * a2 + fy (A xi) * b2).
Proof.
  intros H A. induction H.
  - eapply PG_ext; [| | | apply (PG_const c)]; intros; cbv beta; ring.
  - eapply PG_ext; [| | | apply (PG_le 1 1 _ _ _ (le_n 1)
      (PG_add 1 _ _ _ _ _ _ (PG_le 0 1 _ _ _ (le_S _ _ (le_n 0)) (PG_const a0))
         (PG_add 1 _ _ _ _ _ _ (PG_mul 0 1 _ _ _ _ _ _ (PG_const a1) PG_x) (PG_mul 0 1 _ _ _ _ _ _ (PG_const a2) PG_y))))];
      intros; unfold A, affmap; cbn [fst snd]; ring.
  - eapply PG_ext; [| | | apply (PG_le 1 1 _ _ _ (le_n 1)
      (PG_add 1 _ _ _ _ _ _ (PG_le 0 1 _ _ _ (le_S _ _ (le_n 0)) (PG_const b0))
         (PG_add 1 _ _ _ _ _ _ (PG_mul 0 1 _ _ _ _ _ _ (PG_const b1) PG_x) (PG_mul 0 1 _ _ _ _ _ _ (PG_const b2) PG_y))))];
      intros; unfold A, affmap; cbn [fst snd]; ring.
  - eapply PG_ext; [| | | apply (PG_add _ _ _ _ _ _ _ IHPolyG1 IHPolyG2)]; intros; cbv beta; ring.
  - eapply PG_ext; [| | | apply (PG_mul _ _ _ _ _ _ _ _ IHPolyG1 IHPolyG2)]; intros; cbv beta; ring.
  - eapply PG_le; eassumption.
  - eapply PG_ext; [| | | apply IHPolyG]; intros; cbv beta; rewrite ?H, ?H0, ?H1; reflexivity.
Qed.

(* ------------------------------------------------------------------ from monomials to polynomials (linearity) *)
Lemma rdot_peval N nodes P :
  rdot N (map (peval P) nodes) = plin (fun m => rdot N (map (fun nd => rmon nd m) nodes)) P.
Proof.
  induction P as [|t P IH].
  - change (map (peval []) nodes) with (map (fun _ : R * R => 0) nodes). rewrite rdot_map_zero. reflexivity.
  - change (map (peval (t :: P)) nodes) with (map (fun x => fst t * rmon x (snd t) + peval P x) nodes).
    rewrite rdot_map_add, rdot_map_scal, IH, plin_cons. reflexivity.
Qed.
Lemma plin_diff_bound phi psi P eps k : pdeg_le k P ->
  (forall m, (fst m + snd m <= k)%nat -> Rabs (phi m - psi m) <= eps) ->
  Rabs (plin phi P - plin psi P) <= eps * pnorm1 P.
Proof.
  intros HP H. induction P as [|t P IH]; [unfold plin, pnorm1; cbn; rewrite Rminus_0_r, Rabs_R0; lra|].
  rewrite !plin_cons. unfold pnorm1; cbn [map rsum]; fold (pnorm1 P).
  assert (HP' : pdeg_le k P) by (intros u Hu; apply HP; right; exact Hu).
  specialize (IH HP'). specialize (H (snd t) (HP t (or_introl eq_refl))).
  replace (fst t * phi (snd t) + plin phi P - (fst t * psi (snd t) + plin psi P))
    with (fst t * (phi (snd t) - psi (snd t)) + (plin phi P - plin psi P)) by ring.
  eapply Rle_trans; [apply Rabs_triang|]. rewrite Rabs_mult.
  pose proof (Rabs_pos (fst t)). nra.
Qed.

Lemma ref_poly p eps nodes q N Gx Gy P : RefIds p eps nodes q N Gx Gy -> pdeg_le p P ->
  Rabs (rdot N (map (peval P) nodes) - peval P q) <= eps * pnorm1 P /\
  Rabs (rdot Gx (map (peval P) nodes) - pdx P q) <= eps * pnorm1 P /\
  Rabs (rdot Gy (map (peval P) nodes) - pdy P q) <= eps * pnorm1 P.
Proof.
  intros [_ [_ [_ H]]] HP. rewrite !rdot_peval. unfold peval, pdx, pdy.
  repeat split; apply plin_diff_bound with (k := p); try exact HP; intros [i j] Hm; cbn [fst snd] in Hm; apply (H i j Hm).
Qed.

(* ------------------------------------------------------------------ the element map and the kernels at R *)
Definition elmap (v0 v1 v2 : R * R) : R * R -> R * R :=
  affmap (fst v2) (fst v0 - fst v2) (fst v1 - fst v2) (snd v2) (snd v0 - snd v2) (snd v1 - snd v2).
Lemma elmap_vertices v0 v1 v2 : elmap v0 v1 v2 (1, 0) = v0 /\ elmap v0 v1 v2 (0, 1) = v1 /\ elmap v0 v1 v2 (0, 0) = v2.
Proof. destruct v0, v1, v2. unfold elmap, affmap; cbn [fst snd]. repeat split; f_equal; ring. Qed.

Definition jacR (v0 v1 v2 : R * R) : R := @el_jac R NumR v0 v1 v2.
Lemma jacR_eq v0 v1 v2 :
  jacR v0 v1 v2 = (fst v1 - fst v0) * (snd v2 - snd v0) - (snd v1 - snd v0) * (fst v2 - fst v0).
Proof. reflexivity. Qed.
(* the same number is the determinant of the Jacobian used by the gradient map *)
Lemma jacR_det v0 v1 v2 :
  jacR v0 v1 v2 = (fst v0 - fst v2) * (snd v1 - snd v2) - (fst v1 - fst v2) * (snd v0 - snd v2).
Proof. rewrite jacR_eq. ring. Qed.
(* the index structure extracted from the source is the one the model uses *)
Lemma geom_structure_as_modelled :
  vol_cross_idx = ((1, 0), (2, 0))%nat /\ jac_cols_idx = ((0, 2), (1, 2))%nat /\ edge_tangent_idx = (1, 0)%nat.
Proof. repeat split; reflexivity. Qed.

Definition tri_area_signed (v0 v1 v2 : R * R) : R :=
  ((fst v1 - fst v0) * (snd v2 - snd v0) - (fst v2 - fst v0) * (snd v1 - snd v0)) / 2.
Lemma area_jac v0 v1 v2 : tri_area_signed v0 v1 v2 = jacR v0 v1 v2 / 2.
Proof. unfold tri_area_signed. rewrite jacR_eq. field. Qed.
(* invariance under cyclic renumbering of the vertices *)
Lemma jacR_cyclic v0 v1 v2 : jacR v1 v2 v0 = jacR v0 v1 v2.
Proof. rewrite !jacR_eq. ring. Qed.

Definition mgR (v0 v1 v2 : R * R) : R * R -> R * R := @map_grad R NumR v0 v1 v2.
Lemma mgR_eq v0 v1 v2 dN :
  mgR v0 v1 v2 dN =
  (((snd v1 - snd v2) * fst dN - (snd v0 - snd v2) * snd dN) / jacR v0 v1 v2,
   ((fst v0 - fst v2) * snd dN - (fst v1 - fst v2) * fst dN) / jacR v0 v1 v2).
Proof. rewrite jacR_det. reflexivity. Qed.

(* FunctionSpace: shapeGrads[a] = map_grad (dN_a);  grad u = tensordot(u, shapeGrads, axes=[0,0]) *)
Definition phys_grads (v0 v1 v2 : R * R) (Gx Gy : list R) : list (R * R) := map (mgR v0 v1 v2) (combine Gx Gy).
Definition field_grad (sg : list (R * R)) (u : list R) : R * R := (rdot u (map fst sg), rdot u (map snd sg)).

Lemma field_grad_linear v0 v1 v2 Gx Gy u : length Gx = length Gy ->
  field_grad (phys_grads v0 v1 v2 Gx Gy) u = mgR v0 v1 v2 (rdot Gx u, rdot Gy u).
Proof.
  revert Gy u. induction Gx as [|gx Gx IH]; intros [|gy Gy] u HL; try discriminate.
  - unfold field_grad, phys_grads; cbn [combine map rdot]. rewrite rdot_nil_r, mgR_eq; cbn [fst snd]. f_equal; unfold Rdiv; ring.
  - destruct u as [|u0 u].
    + unfold field_grad; cbn [rdot]. rewrite ?rdot_nil_r, mgR_eq; cbn [fst snd]. f_equal; unfold Rdiv; ring.
    + injection HL as HL. specialize (IH Gy u HL). unfold field_grad, phys_grads in *. cbn [combine map rdot].
      rewrite mgR_eq in IH; cbn [fst snd] in IH. inversion IH as [[E1 E2]]. rewrite E1, E2, !mgR_eq; cbn [fst snd]. f_equal; unfold Rdiv; ring.
Qed.

Lemma Rabs_lin2 a c x y e : Rabs x <= e -> Rabs y <= e -> Rabs (a * x - c * y) <= (Rabs a + Rabs c) * e.
Proof.
  intros Hx Hy. unfold Rminus. eapply Rle_trans; [apply Rabs_triang|]. rewrite Rabs_Ropp, !Rabs_mult.
  pose proof (Rabs_pos a). pose proof (Rabs_pos c). nra.
Qed.

(* ------------------------------------------------------------------ lifting: interpolation and gradients *)
Lemma solve_err a1 b1 a2 b2 s0 s1 fx fy j : j = a1 * b2 - a2 * b1 -> j <> 0 ->
  (b2 * s0 - b1 * s1) / j - fx = (b2 * (s0 - (fx * a1 + fy * b1)) - b1 * (s1 - (fx * a2 + fy * b2))) / j /\
  (a1 * s1 - a2 * s0) / j - fy = (a1 * (s1 - (fx * a2 + fy * b2)) - a2 * (s0 - (fx * a1 + fy * b1))) / j.
Proof. intros -> H. split; field; exact H. Qed.
Lemma Rabs_div_bound n j c e : j <> 0 -> Rabs n <= c * e -> Rabs (n / j) <= c / Rabs j * e.
Proof.
  intros Hj Hn. unfold Rdiv. rewrite Rabs_mult, Rabs_inv.
  assert (0 < / Rabs j) by (apply Rinv_0_lt_compat, Rabs_pos_lt, Hj).
  replace (c * / Rabs j * e) with ((c * e) * / Rabs j) by ring. apply Rmult_le_compat_r; lra.
Qed.

Section Element.
  Variables v0 v1 v2 : R * R.
  Let X := elmap v0 v1 v2.
  Let jac := jacR v0 v1 v2.

  (* core statement, for any monomial representation P of the pulled-back field f o X *)
  Lemma lift_core p eps nodes q N Gx Gy (f fx fy : R * R -> R) P :
    RefIds p eps nodes q N Gx Gy -> pdeg_le p P ->
    (forall xi, f (X xi) = peval P xi /\
                fx (X xi) * (fst v0 - fst v2) + fy (X xi) * (snd v0 - snd v2) = pdx P xi /\
                fx (X xi) * (fst v1 - fst v2) + fy (X xi) * (snd v1 - snd v2) = pdy P xi) ->
    let u := map f (map X nodes) in
    Rabs (rdot N u - f (X q)) <= eps * pnorm1 P /\
    (jac <> 0 ->
     let g := field_grad (phys_grads v0 v1 v2 Gx Gy) u in
     Rabs (fst g - fx (X q)) <= (Rabs (snd v1 - snd v2) + Rabs (snd v0 - snd v2)) / Rabs jac * (eps * pnorm1 P) /\
     Rabs (snd g - fy (X q)) <= (Rabs (fst v0 - fst v2) + Rabs (fst v1 - fst v2)) / Rabs jac * (eps * pnorm1 P)).
  Proof.
    intros HR HP HE u.
    assert (Eu : u = map (peval P) nodes).
    { unfold u. rewrite map_map. apply map_ext. intros xi. apply HE. }
    destruct (ref_poly _ _ _ _ _ _ _ P HR HP) as [B0 [B1 B2]].
    destruct (HE q) as [E0 [E1 E2]].
    split; [rewrite Eu, E0; exact B0|].
    intros Hj g. destruct HR as [L1 [L2 [L3 _]]].
    unfold g. rewrite field_grad_linear by congruence. rewrite mgR_eq; cbn [fst snd]. fold jac.
    rewrite <- Eu in B1, B2. rewrite <- E1 in B1. rewrite <- E2 in B2.
    set (s0 := rdot Gx u) in *. set (s1 := rdot Gy u) in *.
    assert (Ej : jac = (fst v0 - fst v2) * (snd v1 - snd v2) - (fst v1 - fst v2) * (snd v0 - snd v2)) by (unfold jac; apply jacR_det).
    destruct (solve_err _ _ _ _ s0 s1 (fx (X q)) (fy (X q)) jac Ej Hj) as [S0 S1].
    rewrite S0, S1. split; apply Rabs_div_bound; try exact Hj; apply Rabs_lin2; assumption.
  Qed.

  (* every polynomial field of degree <= p has such a representation (affine closure + normal form) *)
  Lemma pullback_normal_form k f fx fy : PolyG k f fx fy ->
    exists P, pdeg_le k P /\ forall xi, f (X xi) = peval P xi /\
      fx (X xi) * (fst v0 - fst v2) + fy (X xi) * (snd v0 - snd v2) = pdx P xi /\
      fx (X xi) * (fst v1 - fst v2) + fy (X xi) * (snd v1 - snd v2) = pdy P xi.
  Proof.
    intros H.
    pose proof (PolyG_affine k f fx fy (fst v2) (fst v0 - fst v2) (fst v1 - fst v2) (snd v2) (snd v0 - snd v2) (snd v1 - snd v2) H) as HA.
    cbv zeta in HA. apply PolyG_normal_form in HA. destruct HA as [P [DP EP]]. exists P. split; [exact DP|].
    intros xi. apply (EP xi).
  Qed.

  Theorem lift_interp_grad p f fx fy : PolyG p f fx fy ->
    exists C, 0 <= C /\ forall eps nodes q N Gx Gy, RefIds p eps nodes q N Gx Gy ->
      let u := map f (map X nodes) in
      Rabs (rdot N u - f (X q)) <= C * eps /\
      (jac <> 0 ->
       let g := field_grad (phys_grads v0 v1 v2 Gx Gy) u in
       Rabs (fst g - fx (X q)) <= (Rabs (snd v1 - snd v2) + Rabs (snd v0 - snd v2)) / Rabs jac * (C * eps) /\
       Rabs (snd g - fy (X q)) <= (Rabs (fst v0 - fst v2) + Rabs (fst v1 - fst v2)) / Rabs jac * (C * eps)).
  Proof.
    intros H. destruct (pullback_normal_form p f fx fy H) as [P [DP EP]].
    exists (pnorm1 P). split; [apply pnorm1_nonneg|].
    intros eps nodes q N Gx Gy HR. rewrite (Rmult_comm (pnorm1 P) eps).
    apply (lift_core p eps nodes q N Gx Gy f fx fy P HR DP EP).
  Qed.

  (* exact reference data give exact values and exact gradients *)
  Corollary lift_interp_grad_exact p f fx fy nodes q N Gx Gy : PolyG p f fx fy -> RefIds p 0 nodes q N Gx Gy -> jac <> 0 ->
    let u := map f (map X nodes) in
    rdot N u = f (X q) /\ field_grad (phys_grads v0 v1 v2 Gx Gy) u = (fx (X q), fy (X q)).
  Proof.
    intros H HR Hj u. destruct (lift_interp_grad p f fx fy H) as [C [HC HB]].
    destruct (HB 0 nodes q N Gx Gy HR) as [B0 B1]. destruct (B1 Hj) as [B2 B3]. cbv zeta in *.
    rewrite !Rmult_0_r in *.
    assert (Z : forall x, Rabs x <= 0 -> x = 0).
    { intros x Hx. destruct (Req_dec x 0); [assumption|]. apply Rabs_pos_lt in H0. lra. }
    split; [apply Rminus_diag_uniq, Z, B0|].
    fold u in B2, B3. destruct (field_grad (phys_grads v0 v1 v2 Gx Gy) u) as [g0 g1]; cbn [fst snd] in *.
    f_equal; apply Rminus_diag_uniq, Z; assumption.
  Qed.

  (* partition of unity and vanishing gradient sum at every quadrature point of every element *)
  Theorem lift_partition_of_unity p eps nodes q N Gx Gy : RefIds p eps nodes q N Gx Gy ->
    Rabs (rsum N - 1) <= eps /\
    (jac <> 0 ->
     let sg := phys_grads v0 v1 v2 Gx Gy in
     Rabs (rsum (map fst sg)) <= (Rabs (snd v1 - snd v2) + Rabs (snd v0 - snd v2)) / Rabs jac * eps /\
     Rabs (rsum (map snd sg)) <= (Rabs (fst v0 - fst v2) + Rabs (fst v1 - fst v2)) / Rabs jac * eps).
  Proof.
    intros HR.
    assert (DP : pdeg_le p [(1, (0, 0)%nat)]) by (intros t [<-|[]]; cbn; lia).
    pose proof (lift_core p eps nodes q N Gx Gy (fun _ => 1) (fun _ => 0) (fun _ => 0) [(1, (0, 0)%nat)] HR DP) as H.
    assert (HE : forall xi, 1 = peval [(1, (0, 0)%nat)] xi /\ 0 * (fst v0 - fst v2) + 0 * (snd v0 - snd v2) = pdx [(1, (0, 0)%nat)] xi /\
                   0 * (fst v1 - fst v2) + 0 * (snd v1 - snd v2) = pdy [(1, (0, 0)%nat)] xi).
    { intros xi. unfold peval, pdx, pdy, plin, rmon, rmon_dx, rmon_dy, rdmon; cbn. repeat split; ring. }
    specialize (H HE). cbv zeta in H.
    assert (N1 : pnorm1 [(1, (0, 0)%nat)] = 1) by (unfold pnorm1; cbn; rewrite Rabs_R1; ring).
    rewrite N1, Rmult_1_r in H. destruct HR as [L1 [L2 [L3 _]]].
    assert (Eu : map (fun _ : R * R => 1) (map X nodes) = map (fun _ => 1) nodes) by (rewrite map_map; reflexivity).
    rewrite Eu in H. rewrite rdot_ones in H by exact L1. destruct H as [H0 H1]. split; [exact H0|].
    intros Hj sg. specialize (H1 Hj). unfold field_grad in H1; cbn [fst snd] in H1.
    rewrite !Rminus_0_r in H1. rewrite !(rdot_comm (map (fun _ => 1) nodes)) in H1.
    assert (Lsg : length (phys_grads v0 v1 v2 Gx Gy) = length nodes).
    { unfold phys_grads. rewrite map_length, combine_length. lia. }
    rewrite !rdot_ones in H1 by (rewrite map_length; exact Lsg). exact H1.
  Qed.
End Element.

(* ------------------------------------------------------------------ volumes, areas, integrals *)
Definition volsR (v0 v1 v2 : R * R) (ws : list R) : list R := @el_vols R NumR v0 v1 v2 ws.
Lemma volsR_eq v0 v1 v2 ws : volsR v0 v1 v2 ws = map (fun w => jacR v0 v1 v2 * w) ws.
Proof. reflexivity. Qed.
Lemma rdot_scal_l c ws l : rdot (map (fun w => c * w) ws) l = c * rdot ws l.
Proof. revert l; induction ws as [|w ws IH]; intros [|x l]; cbn [map rdot]; try lra. rewrite IH. ring. Qed.
Lemma rsum_scal c ws : rsum (map (fun w => c * w) ws) = c * rsum ws.
Proof. induction ws; cbn [map rsum]; [lra | rewrite IHws; ring]. Qed.
Lemma tri_moment_00 : tri_moment 0 0 = 1 / 2.
Proof. unfold tri_moment; cbn. field. Qed.
Lemma quad_weight_sum d eps pts ws : TriQuadExact d eps pts ws -> Rabs (rsum ws - 1 / 2) <= eps.
Proof.
  intros [L [H _]]. specialize (H 0%nat 0%nat (Nat.le_0_l d)). rewrite tri_moment_00 in H.
  rewrite (rdot_map_ext ws (fun p => rmon p (0, 0)%nat) (fun _ => 1)) in H by (intros; unfold rmon; cbn; ring).
  rewrite rdot_ones in H by (symmetry; exact L). exact H.
Qed.

Lemma ndot_R a c : @ndot R NumR a c = rdot a c.
Proof.
  revert c; induction a as [|x a IH]; intros [|y c]; cbn [ndot rdot]; try reflexivity;
    cbn [nadd nmul NumR]; rewrite IH; reflexivity.
Qed.

Section ElementInt.
  Variables v0 v1 v2 : R * R.
  Let X := elmap v0 v1 v2.
  Let jac := jacR v0 v1 v2.

  (* sum of the quadrature-point volumes of an element = its signed area (= area for counter-clockwise vertices) *)
  Theorem lift_element_area d eps pts ws : TriQuadExact d eps pts ws ->
    Rabs (rsum (volsR v0 v1 v2 ws) - tri_area_signed v0 v1 v2) <= Rabs jac * eps.
  Proof.
    intros H. apply quad_weight_sum in H. rewrite volsR_eq, rsum_scal, area_jac. fold jac.
    replace (jac * rsum ws - jac / 2) with (jac * (rsum ws - 1 / 2)) by field.
    rewrite Rabs_mult. apply Rmult_le_compat_l; [apply Rabs_pos | exact H].
  Qed.

  (* quadrature on the mapped element: for any monomial representation P (degree <= d) of the pulled-back integrand,
     sum_q vol_q f(x_q) = jac * (reference integral of P by the monomial formula), i.e. the affine change of variables *)
  Lemma lift_quad_core d eps pts ws (f : R * R -> R) P : TriQuadExact d eps pts ws -> pdeg_le d P ->
    (forall xi, f (X xi) = peval P xi) ->
    Rabs (rdot (volsR v0 v1 v2 ws) (map f (map X pts)) - jac * pint_ref P) <= Rabs jac * (eps * pnorm1 P).
  Proof.
    intros [L [H _]] DP HE. rewrite volsR_eq, rdot_scal_l. fold jac.
    replace (map f (map X pts)) with (map (peval P) pts) by (rewrite map_map; apply map_ext; intros; symmetry; apply HE).
    rewrite rdot_peval. rewrite <- Rmult_minus_distr_l, Rabs_mult.
    apply Rmult_le_compat_l; [apply Rabs_pos|]. unfold pint_ref.
    apply plin_diff_bound with (k := d); [exact DP|]. intros [i j] Hm; cbn [fst snd] in *. apply (H i j Hm).
  Qed.

  Theorem lift_quadrature d f fx fy : PolyG d f fx fy ->
    exists P, pdeg_le d P /\ (forall xi, f (X xi) = peval P xi) /\
      forall eps pts ws, TriQuadExact d eps pts ws ->
        Rabs (rdot (volsR v0 v1 v2 ws) (map f (map X pts)) - jac * pint_ref P) <= Rabs jac * (eps * pnorm1 P).
  Proof.
    intros H. destruct (pullback_normal_form v0 v1 v2 d f fx fy H) as [P [DP EP]].
    exists P. split; [exact DP|]. split; [intros xi; apply (EP xi)|].
    intros eps pts ws HQ. apply (lift_quad_core d eps pts ws f P HQ DP). intros xi; apply (EP xi).
  Qed.

  (* axisymmetric mode: vol_q * 2 pi r_q with r_q interpolated from the nodal x coordinates; one degree is spent on r.
     Stated for exact reference data (identities with eps = 0); the weight 2 pi enters as the real number PI. *)
  Definition vols_axiR (Ns : list (list R)) (xs ws : list R) : list R := @el_vols_axi R NumR (2 * PI) v0 v1 v2 Ns xs ws.
  Theorem lift_axisymmetric p d k nodes pts Ns ws f fx fy P :
    (1 <= p)%nat -> (k + 1 <= d)%nat -> PolyG k f fx fy ->
    TriQuadExact d 0 pts ws ->
    Forall2 (fun q N => exists Gx Gy, RefIds p 0 nodes q N Gx Gy) pts Ns ->
    pdeg_le d P -> (forall xi, fst (X xi) * f (X xi) = peval P xi) ->
    rdot (vols_axiR Ns (map fst (map X nodes)) ws) (map f (map X pts)) = 2 * PI * (jac * pint_ref P).
  Proof.
    intros Hp Hk Hf HQ HN DP HE.
    assert (Z : forall x, Rabs x <= 0 -> x = 0).
    { intros x Hx. destruct (Req_dec x 0); [assumption|]. apply Rabs_pos_lt in H. lra. }
    (* r_q is exact: fst o X has degree 1 <= p *)
    assert (Hr : forall q N, (exists Gx Gy, RefIds p 0 nodes q N Gx Gy) -> rdot N (map fst (map X nodes)) = fst (X q)).
    { intros q N [Gx [Gy HR]].
      assert (Hx : PolyG p (fun x => fst x) (fun _ => 1) (fun _ => 0)) by (apply (PG_le 1 p); [exact Hp | apply PG_x]).
      destruct (lift_interp_grad v0 v1 v2 p _ _ _ Hx) as [C [_ HB]].
      destruct (HB 0 nodes q N Gx Gy HR) as [B0 _]. cbv zeta in B0. rewrite Rmult_0_r in B0.
      apply Rminus_diag_uniq, Z. exact B0. }
    assert (E : rdot (vols_axiR Ns (map fst (map X nodes)) ws) (map f (map X pts))
                = 2 * PI * (jac * rdot ws (map (fun xi => fst (X xi) * f (X xi)) pts))).
    { unfold vols_axiR, el_vols_axi. assert (L : length pts = length ws) by apply HQ. clear HQ DP HE. revert ws L.
      induction HN as [|q N pts' Ns' HqN HN IH]; intros ws L.
      - cbn [combine map rdot]. rewrite rdot_nil_r. ring.
      - destruct ws as [|w ws]; [discriminate|]. injection L as L. specialize (IH ws L).
        cbn [combine map rdot fst snd]. rewrite IH. cbn [nadd nmul NumR]. rewrite ndot_R, (Hr q N HqN). change (@el_jac R NumR v0 v1 v2) with jac. ring. }
    rewrite E. f_equal. f_equal.
    replace (map (fun xi => fst (X xi) * f (X xi)) pts) with (map (peval P) pts) by (apply map_ext; intros; symmetry; apply HE).
    destruct HQ as [L [H _]]. rewrite rdot_peval. unfold pint_ref.
    apply Rminus_diag_uniq, Z.
    eapply Rle_trans; [apply plin_diff_bound with (k := d) (eps := 0); [exact DP|]|rewrite Rmult_0_l; lra].
    intros [i j] Hm; cbn [fst snd] in *. apply (H i j Hm).
  Qed.
  (* such a representation exists for every polynomial integrand of degree <= d - 1 *)
  Lemma axisymmetric_integrand_form k f fx fy : PolyG k f fx fy ->
    exists P, pdeg_le (1 + k) P /\ forall xi, fst (X xi) * f (X xi) = peval P xi.
  Proof.
    intros H. pose proof (PG_mul 1 k _ _ _ _ _ _ PG_x H) as HM.
    destruct (pullback_normal_form v0 v1 v2 _ _ _ _ HM) as [P [DP EP]]. exists P. split; [exact DP|].
    intros xi. apply (EP xi).
  Qed.
End ElementInt.

(* axisymmetric mode with certified (inexact) tables: explicit error bound *)
Lemma axi_radius_bound v0 v1 v2 p eps nodes q N Gx Gy : (1 <= p)%nat -> RefIds p eps nodes q N Gx Gy ->
  let X := elmap v0 v1 v2 in
  Rabs (rdot N (map fst (map X nodes)) - fst (X q)) <= eps * (Rabs (fst v2) + Rabs (fst v0 - fst v2) + Rabs (fst v1 - fst v2)).
Proof.
  intros Hp HR X.
  set (P := [(fst v2, (0, 0)%nat); (fst v0 - fst v2, (1, 0)%nat); (fst v1 - fst v2, (0, 1)%nat)] : poly).
  assert (DP : pdeg_le p P) by (intros t [<-|[<-|[<-|[]]]]; cbn; lia).
  destruct (ref_poly p eps nodes q N Gx Gy P HR DP) as [B _].
  assert (E : forall xi, fst (X xi) = peval P xi).
  { intros xi. unfold X, elmap, affmap, peval, plin, P, rmon; cbn. ring. }
  replace (map fst (map X nodes)) with (map (peval P) nodes) by (rewrite map_map; apply map_ext; intros; symmetry; apply E).
  rewrite E. replace (Rabs (fst v2) + Rabs (fst v0 - fst v2) + Rabs (fst v1 - fst v2)) with (pnorm1 P) by (unfold pnorm1, P; cbn; ring).
  exact B.
Qed.
Lemma axi_sum_bound (X : R * R -> R * R) (f : R * R -> R) xs D M pts Ns ws :
  Forall2 (fun q N => Rabs (rdot N xs - fst (X q)) <= D) pts Ns -> length pts = length ws ->
  (forall w, In w ws -> 0 < w) -> (forall q, In q pts -> Rabs (f (X q)) <= M) -> 0 <= D -> 0 <= M ->
  Rabs (rdot (map (fun Nw : list R * R => rdot (fst Nw) xs * snd Nw) (combine Ns ws)) (map f (map X pts))
        - rdot ws (map (fun xi => fst (X xi) * f (X xi)) pts)) <= D * M * rsum ws.
Proof.
  intros HF. revert ws. induction HF as [|q N pts' Ns' Hq HF IH]; intros ws L Hw Hf HD HM.
  - destruct ws; [|discriminate]. cbn. rewrite Rminus_0_r, Rabs_R0. lra.
  - destruct ws as [|w ws]; [discriminate|]. injection L as L.
    assert (IH' := IH ws L (fun w' H => Hw w' (or_intror H)) (fun q' H => Hf q' (or_intror H)) HD HM).
    cbn [combine map rdot rsum fst snd].
    match goal with |- Rabs (?a + ?b - (?c + ?e)) <= _ => replace (a + b - (c + e)) with ((a - c) + (b - e)) by ring end.
    eapply Rle_trans; [apply Rabs_triang|].
    assert (W : 0 < w) by (apply Hw; left; reflexivity).
    assert (Fq : Rabs (f (X q)) <= M) by (apply Hf; left; reflexivity).
    replace (rdot N xs * w * f (X q) - w * (fst (X q) * f (X q))) with (w * ((rdot N xs - fst (X q)) * f (X q))) by ring.
    rewrite Rabs_mult, (Rabs_pos_eq w) by lra. rewrite Rabs_mult.
    pose proof (Rabs_pos (rdot N xs - fst (X q))). pose proof (Rabs_pos (f (X q))).
    assert (Rabs (rdot N xs - fst (X q)) * Rabs (f (X q)) <= D * M) by nra. nra.
Qed.
Theorem lift_axisymmetric_tol v0 v1 v2 p d k nodes pts Ns ws f fx fy P eps_s eps_q M :
  (1 <= p)%nat -> (k + 1 <= d)%nat -> PolyG k f fx fy ->
  TriQuadExact d eps_q pts ws ->
  Forall2 (fun q N => exists Gx Gy, RefIds p eps_s nodes q N Gx Gy) pts Ns ->
  pdeg_le d P -> (forall xi, fst (elmap v0 v1 v2 xi) * f (elmap v0 v1 v2 xi) = peval P xi) ->
  0 <= M -> (forall q, In q pts -> Rabs (f (elmap v0 v1 v2 q)) <= M) -> 0 <= eps_s ->
  Rabs (rdot (vols_axiR v0 v1 v2 Ns (map fst (map (elmap v0 v1 v2) nodes)) ws) (map f (map (elmap v0 v1 v2) pts))
        - 2 * PI * (jacR v0 v1 v2 * pint_ref P))
    <= 2 * PI * Rabs (jacR v0 v1 v2) *
       (eps_q * pnorm1 P
        + eps_s * (Rabs (fst v2) + Rabs (fst v0 - fst v2) + Rabs (fst v1 - fst v2)) * M * (1 / 2 + eps_q)).
Proof.
  intros Hp Hk Hf HQ HN DP HE HM0 HM Hes.
  set (X := elmap v0 v1 v2) in *. set (jac := jacR v0 v1 v2). set (xs := map fst (map X nodes)).
  set (Cx := Rabs (fst v2) + Rabs (fst v0 - fst v2) + Rabs (fst v1 - fst v2)).
  assert (HCx : 0 <= Cx) by (unfold Cx; pose proof (Rabs_pos (fst v2)); pose proof (Rabs_pos (fst v0 - fst v2)); pose proof (Rabs_pos (fst v1 - fst v2)); lra).
  pose proof (quad_weight_sum d eps_q pts ws HQ) as HW. apply Rabs_le_between in HW.
  assert (HF : Forall2 (fun q N => Rabs (rdot N xs - fst (X q)) <= eps_s * Cx) pts Ns).
  { clear - HN Hp. induction HN as [|q N pts' Ns' [Gx [Gy HR]] HN IH]; constructor; [|exact IH].
    apply (axi_radius_bound v0 v1 v2 p eps_s nodes q N Gx Gy Hp HR). }
  set (S1 := rdot (map (fun Nw : list R * R => rdot (fst Nw) xs * snd Nw) (combine Ns ws)) (map f (map X pts))).
  set (S2 := rdot ws (map (fun xi => fst (X xi) * f (X xi)) pts)).
  assert (E : rdot (vols_axiR v0 v1 v2 Ns xs ws) (map f (map X pts)) = 2 * PI * jac * S1).
  { unfold vols_axiR, el_vols_axi, S1.
    rewrite (map_ext _ (fun Nw : list R * R => (2 * PI * jac) * (rdot (fst Nw) xs * snd Nw))).
    - rewrite <- (map_map (fun Nw : list R * R => rdot (fst Nw) xs * snd Nw) (fun y => 2 * PI * jac * y)). apply rdot_scal_l.
    - intros [N w]. cbn [fst snd nmul NumR]. rewrite ndot_R. change (@el_jac R NumR v0 v1 v2) with jac. ring. }
  rewrite E.
  assert (B1 : Rabs (S1 - S2) <= eps_s * Cx * M * rsum ws).
  { destruct HQ as [L [_ [Hw _]]]. apply axi_sum_bound; try assumption. apply Rmult_le_pos; assumption. }
  assert (B2 : Rabs (jac * S2 - jac * pint_ref P) <= Rabs jac * (eps_q * pnorm1 P)).
  { pose proof (lift_quad_core v0 v1 v2 d eps_q pts ws (fun y => fst y * f y) P HQ DP HE) as B.
    rewrite volsR_eq, rdot_scal_l, map_map in B. exact B. }
  replace (2 * PI * jac * S1 - 2 * PI * (jac * pint_ref P))
    with (2 * PI * (jac * (S1 - S2)) + 2 * PI * (jac * S2 - jac * pint_ref P)) by ring.
  eapply Rle_trans; [apply Rabs_triang|].
  pose proof PI_RGT_0 as Hpi.
  rewrite !Rabs_mult, (Rabs_pos_eq 2), (Rabs_pos_eq PI) by lra.
  pose proof (Rabs_pos jac) as Hj. pose proof (pnorm1_nonneg P) as HP.
  assert (B3 : Rabs (S1 - S2) <= eps_s * Cx * M * (1 / 2 + eps_q)).
  { eapply Rle_trans; [exact B1|]. apply Rmult_le_compat_l; [|lra]. apply Rmult_le_pos; [apply Rmult_le_pos|]; assumption. }
  assert (T1 : 2 * PI * (Rabs jac * Rabs (S1 - S2)) <= 2 * PI * (Rabs jac * (eps_s * Cx * M * (1 / 2 + eps_q)))).
  { apply Rmult_le_compat_l; [lra|]. apply Rmult_le_compat_l; assumption. }
  assert (T2 : 2 * PI * Rabs (jac * S2 - jac * pint_ref P) <= 2 * PI * (Rabs jac * (eps_q * pnorm1 P))).
  { apply Rmult_le_compat_l; [lra | exact B2]. }
  lra.
Qed.

(* ------------------------------------------------------------------ meshes: lists of vertex triples *)
Definition tri := ((R * R) * (R * R) * (R * R))%type.
Definition tri_vols (ws : list R) (t : tri) : list R := let '(a, c, d) := t in volsR a c d ws.
Definition tri_sarea (t : tri) : R := let '(a, c, d) := t in tri_area_signed a c d.
Definition tri_jac (t : tri) : R := let '(a, c, d) := t in jacR a c d.
Definition ccw (t : tri) : Prop := 0 < tri_jac t.

Theorem lift_mesh_area d eps pts ws (mesh : list tri) : TriQuadExact d eps pts ws ->
  Rabs (rsum (map (fun t => rsum (tri_vols ws t)) mesh) - rsum (map tri_sarea mesh))
    <= rsum (map (fun t => Rabs (tri_jac t)) mesh) * eps.
Proof.
  intros H. induction mesh as [|t mesh IH]; cbn [map rsum]; [rewrite Rminus_0_r, Rabs_R0; lra|].
  destruct t as [[a c] e]. pose proof (lift_element_area a c e d eps pts ws H) as Ht.
  cbn [tri_vols tri_sarea tri_jac] in *.
  replace (rsum (volsR a c e ws) + rsum (map (fun t => rsum (tri_vols ws t)) mesh) - (tri_area_signed a c e + rsum (map tri_sarea mesh)))
    with ((rsum (volsR a c e ws) - tri_area_signed a c e) + (rsum (map (fun t => rsum (tri_vols ws t)) mesh) - rsum (map tri_sarea mesh))) by ring.
  eapply Rle_trans; [apply Rabs_triang|]. lra.
Qed.
(* on a counter-clockwise mesh the signed areas are the (positive) triangle areas *)
Lemma ccw_area t : ccw t -> tri_sarea t = Rabs (tri_sarea t) /\ 0 < tri_sarea t.
Proof.
  destruct t as [[a c] e]. unfold ccw; cbn [tri_jac tri_sarea]. intros H. rewrite area_jac.
  assert (0 < jacR a c e / 2) by lra. split; [rewrite Rabs_pos_eq; lra | assumption].
Qed.
Theorem lift_mesh_area_ccw d eps pts ws (mesh : list tri) : TriQuadExact d eps pts ws -> List.Forall ccw mesh ->
  Rabs (rsum (map (fun t => rsum (tri_vols ws t)) mesh) - rsum (map (fun t => Rabs (tri_sarea t)) mesh))
    <= 2 * rsum (map (fun t => Rabs (tri_sarea t)) mesh) * eps.
Proof.
  intros H HC. pose proof (lift_mesh_area d eps pts ws mesh H) as HM.
  assert (E1 : rsum (map tri_sarea mesh) = rsum (map (fun t => Rabs (tri_sarea t)) mesh)).
  { clear HM. induction HC as [|t m Ht HC IH]; cbn [map rsum]; [reflexivity|]. rewrite <- IH. destruct (ccw_area t Ht) as [E _]. rewrite <- E. reflexivity. }
  assert (E2 : rsum (map (fun t => Rabs (tri_jac t)) mesh) = 2 * rsum (map (fun t => Rabs (tri_sarea t)) mesh)).
  { clear. induction mesh as [|t m IH]; cbn [map rsum]; [ring|]. rewrite IH. destruct t as [[a c] e]; cbn [tri_jac tri_sarea].
    rewrite area_jac. unfold Rdiv. rewrite Rabs_mult, (Rabs_pos_eq (/ 2)) by lra. field. }
  rewrite <- E2, <- E1. exact HM.
Qed.

(* integral over a mesh of a field that is one polynomial of degree <= d on the whole domain:
   sum over elements of the quadrature sums = sum over elements of jac_e * (reference integral of the pull-back) *)
Definition tri_X (t : tri) : R * R -> R * R := let '(a, c, d) := t in elmap a c d.
Theorem lift_mesh_quadrature d f fx fy (mesh : list tri) : PolyG d f fx fy ->
  exists Ps : list poly, length Ps = length mesh /\
    Forall2 (fun t P => pdeg_le d P /\ forall xi, f (tri_X t xi) = peval P xi) mesh Ps /\
    forall eps pts ws, TriQuadExact d eps pts ws ->
      Rabs (rsum (map (fun t => rdot (tri_vols ws t) (map f (map (tri_X t) pts))) mesh)
            - rsum (map (fun tP => tri_jac (fst tP) * pint_ref (snd tP)) (combine mesh Ps)))
        <= rsum (map (fun tP => Rabs (tri_jac (fst tP)) * pnorm1 (snd tP)) (combine mesh Ps)) * eps.
Proof.
  intros Hf. induction mesh as [|t mesh IH].
  - exists []. split; [reflexivity|]. split; [constructor|]. intros. cbn. rewrite Rminus_0_r, Rabs_R0. lra.
  - destruct IH as [Ps [L [HF HB]]]. destruct t as [[a c] e].
    destruct (lift_quadrature a c e d f fx fy Hf) as [P [DP [EP HP]]].
    exists (P :: Ps). split; [cbn; f_equal; exact L|]. split; [constructor; [split; assumption | exact HF]|].
    intros eps pts ws HQ. specialize (HB eps pts ws HQ). specialize (HP eps pts ws HQ).
    cbn [combine map rsum fst snd tri_vols tri_X tri_jac].
    match goal with |- Rabs (?a + ?b - (?c + ?e)) <= _ => replace (a + b - (c + e)) with ((a - c) + (b - e)) by ring end.
    eapply Rle_trans; [apply Rabs_triang|]. lra.
Qed.

(* ------------------------------------------------------------------ the hypotheses are satisfiable (exact P1 data, one-point rule) *)
Definition p1_nodes : list (R * R) := [(1, 0); (0, 1); (0, 0)].
Definition p1_q : R * R := (1 / 3, 1 / 3).
Lemma p1_refids_exact : RefIds 1 0 p1_nodes p1_q [1 / 3; 1 / 3; 1 / 3] [1; 0; -1] [0; 1; -1].
Proof.
  repeat (split; [reflexivity|]). intros i j H.
  assert (C : ((i = 0 /\ j = 0) \/ (i = 1 /\ j = 0) \/ (i = 0 /\ j = 1))%nat) by lia.
  destruct C as [[-> ->]|[[-> ->]|[-> ->]]];
    unfold p1_nodes, p1_q, rmon, rmon_dx, rmon_dy, rdmon; cbn [map rdot fst snd pow pred INR];
    repeat split; match goal with |- Rabs ?x <= 0 => replace x with 0 by field; rewrite Rabs_R0; lra end.
Qed.
Lemma p1_quad_exact : TriQuadExact 1 0 [p1_q] [1 / 2].
Proof.
  split; [reflexivity|]. split; [|split].
  - intros i j H.
    assert (C : ((i = 0 /\ j = 0) \/ (i = 1 /\ j = 0) \/ (i = 0 /\ j = 1))%nat) by lia.
    destruct C as [[-> ->]|[[-> ->]|[-> ->]]];
      unfold p1_q, rmon, tri_moment; cbn [map rdot fst snd pow fact Nat.add Nat.mul INR];
      match goal with |- Rabs ?x <= 0 => replace x with 0 by field; rewrite Rabs_R0; lra end.
  - intros w [<-|[]]. lra.
  - intros p [<-|[]]. unfold p1_q; cbn [fst snd]. lra.
Qed.
Lemma nonvacuous_triangle : jacR (0, 0) (2, 0) (0, 1) <> 0 /\ ccw ((0, 0), (2, 0), (0, 1)) /\
  PolyG 1 (fun x => 3 + 2 * fst x - snd x) (fun _ => 2) (fun _ => -1).
Proof.
  split; [rewrite jacR_eq; cbn [fst snd]; lra|]. split; [unfold ccw; cbn [tri_jac]; rewrite jacR_eq; cbn [fst snd]; lra|].
  eapply PG_ext; [| | | apply (PG_add 1 _ _ _ _ _ _ (PG_le 0 1 _ _ _ (le_S _ _ (le_n 0)) (PG_const 3))
     (PG_add 1 _ _ _ _ _ _ (PG_mul 0 1 _ _ _ _ _ _ (PG_const 2) PG_x) (PG_mul 0 1 _ _ _ _ _ _ (PG_const (-1)) PG_y)))];
    intros; cbv beta; ring.
Qed.
