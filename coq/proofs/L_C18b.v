(* C18, second part: remaining partial derivatives, the friction potential along arbitrary lines, the documented domain of
   smooth_linear (l <= 1/2 is necessary), and EdgeCpp.smoothstep. *)
From Coq Require Import Reals Lra Lia QArith.
From Coquelicot Require Import Coquelicot.
From OV.base Require Import Num Piecewise.
From OV.gen Require Import Gen_SmoothFunctions Gen_Math Gen_Friction Gen_MortarContact Gen_Surface Gen_EdgeCpp.
From OV.proofs Require Import L_C18.
Local Open Scope R_scope.

(* smoothed maximum in its second argument *)
Theorem smax_C1_in_y x e : safeTol < e -> C1_with (fun y => smax x y e) (fun y => dsmin_dx (- x) e (- y)).
Proof.
  intros He. apply (C1_ext (fun y => smax y x e) (fun y => dsmin_dx (- x) e (- y))).
  - intros y. apply smax_sym. - reflexivity. - apply smax_C1_in_x. exact He.
Qed.

(* friction potential restricted to ANY line t |-> a + t d is C1 (in particular both partial derivatives exist and are continuous) *)
Theorem friction_C1_along_line mu sReg a0 a1 d0 d1 : 0 < sReg ->
  C1_with (fun t => phi mu sReg (a0 + t * d0) (a1 + t * d1))
          (fun t => mu * (dfE sReg ((a0 + t * d0) * (a0 + t * d0) + (a1 + t * d1) * (a1 + t * d1))
                          * (2 * (a0 + t * d0) * d0 + 2 * (a1 + t * d1) * d1))).
Proof.
  intros Hs. destruct (friction_profile_C1 sReg Hs) as [D Cn].
  set (q := fun t : R => (a0 + t * d0) * (a0 + t * d0) + (a1 + t * d1) * (a1 + t * d1)).
  split; intros t.
  - apply (is_derive_ext (fun t => mu * fE sReg (q t))); [intros; symmetry; apply phi_fE|].
    evar_last. apply (is_derive_scal (fun t => fE sReg (q t)) t mu).
    apply (is_derive_comp (fE sReg) q t). apply D.
    unfold q. auto_derive; [trivial|reflexivity].
    unfold scal; simpl; unfold mult; simpl. unfold q. ring.
  - apply (continuous_scal_r mu (fun t => dfE sReg (q t) * (2 * (a0 + t * d0) * d0 + 2 * (a1 + t * d1) * d1))).
    apply (continuous_mult (fun t => dfE sReg (q t)) (fun t => 2 * (a0 + t * d0) * d0 + 2 * (a1 + t * d1) * d1)).
    + apply (continuous_comp q (dfE sReg)); [|apply Cn].
      apply (ex_derive_continuous q). unfold q. auto_derive. trivial.
    + apply (ex_derive_continuous (fun t => 2 * (a0 + t * d0) * d0 + 2 * (a1 + t * d1) * d1)). auto_derive. trivial.
Qed.
Corollary friction_C1_partial_1 mu sReg s0 : 0 < sReg ->
  C1_with (fun s1 => phi mu sReg s0 s1) (fun s1 => mu * (dfE sReg (s0 * s0 + s1 * s1) * (2 * s1))).
Proof.
  intros Hs. apply (C1_ext (fun t => phi mu sReg (s0 + t * 0) (0 + t * 1))
                          (fun t => mu * (dfE sReg ((s0 + t * 0) * (s0 + t * 0) + (0 + t * 1) * (0 + t * 1)) * (2 * (s0 + t * 0) * 0 + 2 * (0 + t * 1) * 1)))).
  - intros t. f_equal; ring.
  - intros t. f_equal. f_equal; [f_equal|]; ring.
  - apply friction_C1_along_line. exact Hs.
Qed.

(* smooth_linear: the restriction l <= 1/2 of the C1 theorem is necessary -- for l = 1 the function jumps from 1/2 to 0 at xi = 1 *)
Theorem smooth_linear_not_continuous_for_l_1_refuted :
  forall delta, 0 < delta -> exists x, Rabs (x - 1) < delta /\ 1 / 4 <= Rabs (slin 1 x - slin 1 1).
Proof.
  intros delta Hd. set (h := Rmin delta (1 / 4) / 2).
  assert (Hh : 0 < h <= 1 / 8 /\ h < delta).
  { unfold h, Rmin. destruct (Rle_dec delta (1 / 4)); lra. }
  exists (1 - h). split; [rewrite Rabs_left; lra|].
  unfold slin, smooth_linear. unfold_num. q2r. unfold Rltb.
  destruct (Rlt_dec (1 - h) 1); [|lra]. destruct (Rlt_dec 1 1); [lra|]. destruct (Rlt_dec (1 - 1) 1); [|lra].
  rewrite Rabs_right; nra.
Qed.

(* EdgeCpp.smoothstep: values in [0,1], C1 with derivative 6x(1-x) on [0,1] and 0 outside *)
Definition sstep (x : R) : R := @smoothstep R NumR x.
Definition sstep_pw (x : R) : R := pw 0 (fun _ => 0) (pw 1 (fun x => 3 * x ^ 2 - 2 * x ^ 3) (fun _ => 1)) x.
Definition dsstep (x : R) : R := pw 0 (fun _ => 0) (pw 1 (fun x => 6 * x - 6 * x ^ 2) (fun _ => 0)) x.
Lemma sstep_is_pw x : sstep x = sstep_pw x.
Proof.
  unfold sstep, smoothstep, nmin, nmax, sstep_pw, pw. unfold_num. q2r. unfold Rltb. cbv zeta.
  destruct (Rlt_dec x 1), (Rle_dec x 0), (Rle_dec x 1);
    repeat match goal with |- context [Rlt_dec ?a ?b] => destruct (Rlt_dec a b) end; try lra; try ring;
    try (assert (x = 0) by lra; subst x; ring); try (assert (x = 1) by lra; subst x; ring).
Qed.
Theorem smoothstep_C1 : C1_with sstep dsstep.
Proof.
  apply (C1_ext sstep_pw dsstep); [intros; symmetry; apply sstep_is_pw|reflexivity|].
  unfold sstep_pw, dsstep. apply C1_pw.
  - c1_auto.
  - apply C1_pw; [c1_auto|c1_auto|ring|ring].
  - unfold pw. destruct (Rle_dec 0 1); [|lra]. ring.
  - unfold pw. destruct (Rle_dec 0 1); [|lra]. ring.
Qed.
Theorem smoothstep_range x : 0 <= sstep x <= 1.
Proof.
  rewrite sstep_is_pw. unfold sstep_pw, pw. destruct (Rle_dec x 0), (Rle_dec x 1); try lra.
  assert (0 <= x * x * (3 - 2 * x)) by (apply Rmult_le_pos; nra).
  assert (0 <= (1 - x) * (1 - x) * (1 + 2 * x)) by (apply Rmult_le_pos; nra). nra.
Qed.
