(* C06 -- truncated CG with use_preconditioned_inner_product_for_cg=True: the conjugacy induction.
   With precond = M^-1 for a symmetric positive definite M, the scalars zz, zd, dd that solve_trust_region_minimization
   tracks through update_step_length_squared / cg_inner_products_preconditioned (the Gould recurrences, generated kernels)
   ARE the M-inner products z.Mz, z.Md, d.Md of the iterates; hence every returned step lies inside the trust region
   measured in the M-norm, and on its boundary when tagged boundary / negative curvature.
   Subject: model/M_C06_CG.v at T := R (cg_loop, solve_trust_region_minimization).
   The history `ds` of earlier search directions is a proof device only (it does not occur in the model). *)
From Coq Require Import Reals Lra Lia List QArith Psatz Bool.
From OV.base Require Import Num.
From OV.gen Require Import Gen_EquationSolver Gen_EquationSolverSubspace.
From OV.model Require Import M_C06_Vec M_C06_CG.
From OV.proofs Require Import L_C06_Vec L_C06_CG.
Import ListNotations.
Local Open Scope R_scope.

Section CGpc.
  Variable n : nat.
  Variables Hf Pf Mf : rvec -> rvec.        (* hess_vec_func, precond, and the operator M with precond = M^-1 *)
  Variables D tol2 : R.
  Hypothesis Hlen : forall v, len n v -> len n (Hf v).
  Hypothesis Plen : forall v, len n v -> len n (Pf v).
  Hypothesis Hsym : forall a b, len n a -> len n b -> a ⋅ Hf b = Hf a ⋅ b.
  Hypothesis Msym : forall a b, len n a -> len n b -> a ⋅ Mf b = Mf a ⋅ b.
  Hypothesis MP : forall v, len n v -> Mf (Pf v) = v.
  Hypothesis Mpos : forall v, len n v -> 0 < v ⋅ v -> 0 < v ⋅ Mf v.
  Hypothesis tol2_pos : 0 < tol2.

  (* ---- consequences of precond = M^-1 *)
  Lemma Psym a b : len n a -> len n b -> Pf a ⋅ b = a ⋅ Pf b.
  Proof.
    intros Ha Hb. transitivity (Pf a ⋅ Mf (Pf b)); [rewrite MP by assumption; reflexivity|].
    rewrite Msym by auto. rewrite MP by assumption. reflexivity.
  Qed.
  Lemma Ppos v : len n v -> 0 < v ⋅ v -> 0 < v ⋅ Pf v.
  Proof.
    intros Hv Hvv. assert (HP := Plen v Hv).
    assert (E : v ⋅ Pf v = Pf v ⋅ Mf (Pf v)) by (rewrite MP by assumption; apply rdot_comm).
    rewrite E. pose proof (rdot_self_nonneg (Pf v)) as Hnn.
    destruct (Req_dec (Pf v ⋅ Pf v) 0) as [Hz|Hnz]; [|apply Mpos; [assumption|lra]].
    exfalso. pose proof (rdot_self_zero (Pf v) Hz (Mf v)) as H0.
    rewrite Msym, MP in H0 by assumption. lra.
  Qed.
  (* M applied to the two shapes of vectors the loop builds, seen through the inner product (symmetry of M only) *)
  Lemma M_raxpy x z a d : len n x -> len n z -> len n d -> x ⋅ Mf (raxpy z a d) = x ⋅ Mf z + a * (x ⋅ Mf d).
  Proof.
    intros Hx Hz Hd. rewrite Msym by auto with vlen. rewrite (rdot_raxpy_r n) by assumption.
    rewrite <- !Msym by assumption. reflexivity.
  Qed.
  Lemma M_newdir x u b d : len n x -> len n u -> len n d ->
    x ⋅ Mf (radd (rneg u) (rscale b d)) = - (x ⋅ Mf u) + b * (x ⋅ Mf d).
  Proof.
    intros Hx Hu Hd. rewrite Msym by auto with vlen. rewrite (rdot_radd_r n) by auto with vlen.
    rewrite rdot_rneg_r, rdot_rscale_r. rewrite <- !Msym by assumption. reflexivity.
  Qed.
  Lemma newdir_dot_l u b d c : len n u -> len n d -> radd (rneg u) (rscale b d) ⋅ c = - (u ⋅ c) + b * (d ⋅ c).
  Proof. intros Hu Hd. rewrite (rdot_radd_l n) by auto with vlen. rewrite rdot_rneg_l, rdot_rscale_l. reflexivity. Qed.
  Lemma newdir_dot_r u b d c : len n u -> len n d -> c ⋅ radd (rneg u) (rscale b d) = - (c ⋅ u) + b * (c ⋅ d).
  Proof. intros Hu Hd. rewrite (rdot_radd_r n) by auto with vlen. rewrite rdot_rneg_r, rdot_rscale_r. reflexivity. Qed.

  (* ---- the invariant: ds = the earlier search directions d_0 .. d_{k-1} (newest first) *)
  Definition orth (w : rvec) (ds : list rvec) : Prop := forall e, In e ds -> w ⋅ e = 0.

  Record InvM (ds : list rvec) (z r d : rvec) (rPr zz zd dd : R) : Prop := {
    m_z : len n z; m_r : len n r; m_d : len n d;
    m_ds : forall e, In e ds -> len n e;
    m_rPr : rPr = r ⋅ Pf r;
    m_rr : 0 < r ⋅ r;
    m_rd : r ⋅ d = - rPr;
    m_zz : zz = z ⋅ Mf z;                               (* the tracked scalars are the M-inner products *)
    m_zd : zd = z ⋅ Mf d;
    m_dd : dd = d ⋅ Mf d;
    m_in : zz <= D * D;
    m_rds : orth r ds;                                   (* residual orthogonal to all earlier directions *)
    m_dHds : forall e, In e ds -> d ⋅ Hf e = 0;          (* H-conjugacy *)
    m_Pr : forall w, len n w -> orth w (d :: ds) -> w ⋅ Pf r = 0;            (* P r in span(d :: ds) *)
    m_PH : forall e, In e ds -> forall w, len n w -> orth w (d :: ds) -> Pf w ⋅ Hf e = 0;   (* P H e in span(d :: ds) *)
    m_zsp : forall w, len n w -> orth w ds -> w ⋅ z = 0 }.                   (* z in span(ds) *)

  Lemma invM_dd_pos ds z r d rPr zz zd dd : InvM ds z r d rPr zz zd dd -> 0 < rPr /\ 0 < dd.
  Proof.
    intros I; destruct I.
    assert (HrPr : 0 < rPr) by (subst rPr; apply Ppos; assumption).
    split; [assumption|]. subst dd. apply Mpos; [assumption|].
    pose proof (rdot_self_nonneg d). destruct (Req_dec (d ⋅ d) 0) as [Hz|]; [|lra].
    pose proof (rdot_self_zero d Hz r) as H0. rewrite rdot_comm in H0. lra.
  Qed.

  (* one pass of the loop body that continues: the next state satisfies the invariant with d pushed on the history *)
  Lemma invM_step ds z r d rPr zz zd dd : InvM ds z r d rPr zz zd dd ->
    let curv := d ⋅ Hf d in
    let a := rPr / curv in
    let z' := raxpy z a d in
    let zz' := zz + 2 * a * zd + a * a * dd in
    let r' := raxpy r a (Hf d) in
    let rPr' := r' ⋅ Pf r' in
    let b := rPr' / rPr in
    let d' := radd (rneg (Pf r')) (rscale b d) in
    0 < curv -> zz' <= D * D -> ~ r' ⋅ r' < tol2 ->
    InvM (d :: ds) z' r' d' rPr' zz' (b * (zd + a * dd)) (rPr' + b * b * dd).
  Proof.
    intros I curv a z' zz' r' rPr' b d' Hc Hin Hbig.
    destruct (invM_dd_pos _ _ _ _ _ _ _ _ I) as (HrPr & Hdd).
    destruct I as [Iz Ir Id Ids IrPr Irr Ird Izz Izd Idd Iin Irds IdH IPr IPH Izsp].
    assert (HdL := Hlen d Id).
    assert (Ha : 0 < a) by (apply Rdiv_lt_0_compat; assumption).
    assert (Hr'L : len n r') by (unfold r'; auto with vlen).
    assert (Hz'L : len n z') by (unfold z'; auto with vlen).
    assert (HPr'L : len n (Pf r')) by auto.
    assert (Hd'L : len n d') by (unfold d'; auto with vlen).
    assert (Hrr' : 0 < r' ⋅ r') by lra.
    assert (HrPr' : 0 < rPr') by (apply Ppos; assumption).
    (* r' is orthogonal to d and to the history *)
    assert (Hr'd : r' ⋅ d = 0).
    { unfold r'. rewrite (rdot_raxpy_l n) by assumption. rewrite Ird, (rdot_comm (Hf d) d). fold curv.
      unfold a. field. lra. }
    assert (Hr'ds : orth r' (d :: ds)).
    { intros e [<-|He]; [exact Hr'd|]. unfold r'. rewrite (rdot_raxpy_l n) by assumption.
      rewrite (Irds e He). rewrite <- Hsym by auto. rewrite (IdH e He). ring. }
    assert (Hr'z : r' ⋅ z = 0) by (apply Izsp; [assumption|]; intros e He; apply Hr'ds; right; exact He).
    assert (Hr'z' : r' ⋅ z' = 0).
    { unfold z'. rewrite (rdot_raxpy_r n) by assumption. rewrite Hr'z, Hr'd. ring. }
    assert (Hr'Pr : r' ⋅ Pf r = 0) by (apply IPr; assumption).
    (* a * (P w . H d) = w . P r' - w . P r *)
    assert (HPHd : forall w, len n w -> a * (Pf w ⋅ Hf d) = w ⋅ Pf r' - w ⋅ Pf r).
    { intros w Hw. rewrite <- !Psym by assumption. unfold r'. rewrite (rdot_raxpy_r n) by assumption. ring. }
    constructor; try assumption; try reflexivity.
    - intros e [<-|He]; [assumption|apply Ids; exact He].
    - (* r'.d' = -rPr' *)
      unfold d'. rewrite newdir_dot_r by assumption. rewrite Hr'd. fold rPr'. ring.
    - (* zz' = z'.M z' *)
      unfold zz', z'. rewrite M_raxpy by auto with vlen. rewrite !(rdot_raxpy_l n) by assumption.
      rewrite Izz, Izd, Idd. rewrite (Msym d z) by assumption. rewrite (rdot_comm (Mf d) z). ring.
    - (* zd' = z'.M d'  : needs z'.r' = 0, i.e. the residual is orthogonal to ALL earlier directions *)
      unfold d'. rewrite M_newdir by assumption. rewrite MP by assumption. rewrite (rdot_comm z' r'), Hr'z'.
      unfold z'. rewrite (rdot_raxpy_l n) by assumption. rewrite Izd, Idd. ring.
    - (* dd' = d'.M d' *)
      unfold d' at 2. rewrite M_newdir by assumption. rewrite MP by assumption.
      unfold d'. rewrite !newdir_dot_l by assumption.
      rewrite (rdot_comm (Pf r') r'). fold rPr'. rewrite (rdot_comm d r'), Hr'd.
      rewrite (Msym (Pf r') d) by assumption. rewrite MP by assumption. rewrite Hr'd, Idd. ring.
    - (* d' is H-conjugate to d and to the history *)
      intros e He. unfold d'. rewrite newdir_dot_l by assumption. destruct He as [<-|He].
      + fold curv. pose proof (HPHd r' Hr'L) as E. fold rPr' in E. rewrite Hr'Pr in E.
        assert (E2 : Pf r' ⋅ Hf d = rPr' / a) by (field_simplify_eq; [lra|lra]).
        rewrite E2. unfold b, a. field. split; lra.
      + rewrite (IdH e He). rewrite (IPH e He r' Hr'L Hr'ds). ring.
    - (* P r' in span(d' :: d :: ds) *)
      intros w Hw Ho. pose proof (Ho d' (or_introl eq_refl)) as E. unfold d' in E.
      rewrite newdir_dot_r in E by assumption. rewrite (Ho d (or_intror (or_introl eq_refl))) in E. lra.
    - (* P H e in span(d' :: d :: ds) for e in d :: ds *)
      intros e He w Hw Ho.
      assert (Ho' : orth w (d :: ds)) by (intros e' He'; apply Ho; right; exact He').
      destruct He as [<-|He]; [|exact (IPH e He w Hw Ho')].
      pose proof (HPHd w Hw) as E. rewrite (IPr w Hw Ho') in E.
      assert (E3 : w ⋅ Pf r' = 0).
      { pose proof (Ho d' (or_introl eq_refl)) as E4. unfold d' in E4.
        rewrite newdir_dot_r in E4 by assumption. rewrite (Ho' d (or_introl eq_refl)) in E4. lra. }
      rewrite E3 in E. nra.
    - (* z' in span(d :: ds) *)
      intros w Hw Ho. unfold z'. rewrite (rdot_raxpy_r n) by assumption.
      rewrite (Ho d (or_introl eq_refl)). rewrite Izsp; [ring|assumption|].
      intros e He; apply Ho; right; exact He.
  Qed.

  (* ---- the loop body at pcip = true, as a decision tree over the reals *)
  Lemma loop_unfold_pc f i cp z r d rPr zz zd dd :
    let curv := d ⋅ Hf d in
    let a := rPr / curv in
    let t := tauR D zz zd dd in
    let z' := raxpy z a d in
    let zz' := zz + 2 * a * zd + a * a * dd in
    let r' := raxpy r a (Hf d) in
    let rPr' := r' ⋅ Pf r' in
    let b := rPr' / rPr in
    let d' := radd (rneg (Pf r')) (rscale b d) in
    loopR Hf Pf true D (S f) i tol2 cp z r d rPr zz zd dd =
      if Rle_dec curv 0 then mk (raxpy z t d) cp NegCurve (S i)
      else if Rlt_dec (D * D) zz' then mk (raxpy z t d) cp Boundary (S i)
      else if Rlt_dec (r' ⋅ r') tol2 then mk z' cp Interior (S i)
      else loopR Hf Pf true D f (S i) tol2 cp z' r' d' rPr' zz' (b * (zd + a * dd)) (rPr' + b * b * dd).
  Proof.
    intros curv a t z' zz' r' rPr' b d'.
    unfold loopR. cbn [cg_loop]. unfold project_coefs. rewrite upd_R, cgip_R. unfold_num. q2r.
    fold curv. fold a. fold zz'. fold (tauR D zz zd dd). fold t. fold r'. fold rPr'. fold b. fold d'. fold z'.
    unfold Rleb, Rltb.
    destruct (Rle_dec curv 0); [reflexivity|].
    destruct (Rlt_dec (D * D) zz'); [reflexivity|].
    destruct (Rlt_dec (r' ⋅ r') tol2); reflexivity.
  Qed.

  Definition PostM (res : @cgres R) : Prop :=
    len n (cg_z res) /\ cg_z res ⋅ Mf (cg_z res) <= D * D /\
    (is_on_boundary (cg_tag res) = true -> cg_z res ⋅ Mf (cg_z res) = D * D).

  Lemma on_ray_M z d t zz zd dd : len n z -> len n d -> zz = z ⋅ Mf z -> zd = z ⋅ Mf d -> dd = d ⋅ Mf d ->
    raxpy z t d ⋅ Mf (raxpy z t d) = zz + 2 * t * zd + t * t * dd.
  Proof.
    intros Hz Hd -> -> ->. rewrite M_raxpy by auto with vlen. rewrite !(rdot_raxpy_l n) by assumption.
    rewrite (Msym d z) by assumption. rewrite (rdot_comm (Mf d) z). ring.
  Qed.

  Lemma cg_loop_postM f : forall i cp ds z r d rPr zz zd dd, InvM ds z r d rPr zz zd dd ->
    PostM (loopR Hf Pf true D f i tol2 cp z r d rPr zz zd dd).
  Proof.
    induction f as [|f IH]; intros i cp ds z r d rPr zz zd dd I.
    - unfold loopR; cbn [cg_loop]. unfold PostM; cbn [cg_z cg_tag]. destruct I.
      split; [assumption|]. split; [lra|]. cbn. discriminate.
    - destruct (invM_dd_pos _ _ _ _ _ _ _ _ I) as (HrPr & Hdd).
      pose proof (invM_step _ _ _ _ _ _ _ _ I) as Hstep. cbv zeta in Hstep.
      rewrite loop_unfold_pc. cbv zeta.
      assert (Iz := m_z _ _ _ _ _ _ _ _ I). assert (Id := m_d _ _ _ _ _ _ _ _ I).
      assert (Ezz := m_zz _ _ _ _ _ _ _ _ I). assert (Ezd := m_zd _ _ _ _ _ _ _ _ I).
      assert (Edd := m_dd _ _ _ _ _ _ _ _ I). assert (Iin := m_in _ _ _ _ _ _ _ _ I).
      destruct (tau_spec D zz zd dd Iin Hdd) as (_ & _ & Hq).
      destruct (Rle_dec (d ⋅ Hf d) 0) as [Hc|Hc].
      { unfold PostM, mk; cbn [cg_z cg_tag]. rewrite (on_ray_M z d _ zz zd dd) by assumption.
        split; [auto with vlen|]. split; [lra|intros _; lra]. }
      destruct (Rlt_dec (D * D) (zz + 2 * (rPr / (d ⋅ Hf d)) * zd + rPr / (d ⋅ Hf d) * (rPr / (d ⋅ Hf d)) * dd)) as [Hb|Hb].
      { unfold PostM, mk; cbn [cg_z cg_tag]. rewrite (on_ray_M z d _ zz zd dd) by assumption.
        split; [auto with vlen|]. split; [lra|intros _; lra]. }
      destruct (Rlt_dec _ tol2) as [Ht|Ht].
      { unfold PostM, mk; cbn [cg_z cg_tag]. rewrite (on_ray_M z d _ zz zd dd) by assumption.
        split; [auto with vlen|]. split; [lra|cbn; discriminate]. }
      eapply IH. apply Hstep; [lra|lra|exact Ht].
  Qed.

  (* ---- the loop state after k passes that continue (a proof-side device, built from the same generated kernels);
          `next s = None` when the pass exits (negative curvature, boundary, converged) *)
  Record cgstate := { s_z : rvec; s_r : rvec; s_d : rvec; s_rPr : R; s_zz : R; s_zd : R; s_dd : R }.
  Definition cg_next (s : cgstate) : option cgstate :=
    let curv := s_d s ⋅ Hf (s_d s) in
    let a := s_rPr s / curv in
    let zz' := @update_step_length_squared R NumR a (s_zz s) (s_zd s) (s_dd s) in
    let r' := raxpy (s_r s) a (Hf (s_d s)) in
    let rPr' := r' ⋅ Pf r' in
    let b := rPr' / s_rPr s in
    let zd_dd := @cg_inner_products_preconditioned R NumR a b (s_zd s) (s_dd s) rPr' 0 0 in
    if Rle_dec curv 0 then None else if Rlt_dec (D * D) zz' then None else if Rlt_dec (r' ⋅ r') tol2 then None else
    Some {| s_z := raxpy (s_z s) a (s_d s); s_r := r'; s_d := radd (rneg (Pf r')) (rscale b (s_d s)); s_rPr := rPr';
            s_zz := zz'; s_zd := fst zd_dd; s_dd := snd zd_dd |}.
  Fixpoint cg_iter (k : nat) (s : cgstate) : option cgstate :=
    match k with O => Some s | S k' => match cg_next s with None => None | Some s' => cg_iter k' s' end end.
  Definition loop_from (f i : nat) (cp : rvec) (s : cgstate) : @cgres R :=
    loopR Hf Pf true D f i tol2 cp (s_z s) (s_r s) (s_d s) (s_rPr s) (s_zz s) (s_zd s) (s_dd s).
  Definition InvS (ds : list rvec) (s : cgstate) : Prop :=
    InvM ds (s_z s) (s_r s) (s_d s) (s_rPr s) (s_zz s) (s_zd s) (s_dd s).

  Lemma cg_next_spec ds s s' : InvS ds s -> cg_next s = Some s' ->
    InvS (s_d s :: ds) s' /\ forall f i cp, loop_from (S f) i cp s = loop_from f (S i) cp s'.
  Proof.
    intros I E. destruct s as [z r d rPr zz zd dd]. unfold InvS, loop_from in *. cbn [s_z s_r s_d s_rPr s_zz s_zd s_dd] in *.
    destruct (invM_dd_pos _ _ _ _ _ _ _ _ I) as (HrPr & Hdd).
    pose proof (invM_step _ _ _ _ _ _ _ _ I) as Hstep. cbv zeta in Hstep.
    unfold cg_next in E. cbn [s_z s_r s_d s_rPr s_zz s_zd s_dd] in E. rewrite upd_R, cgip_R in E. cbn [fst snd] in E.
    destruct (Rle_dec (d ⋅ Hf d) 0) as [Hc|Hc]; [discriminate|].
    destruct (Rlt_dec (D * D) _) as [Hb|Hb]; [discriminate|].
    destruct (Rlt_dec _ tol2) as [Ht|Ht]; [discriminate|].
    injection E as <-. cbn [s_z s_r s_d s_rPr s_zz s_zd s_dd]. split.
    - apply Hstep; [lra|lra|exact Ht].
    - intros f i cp. rewrite loop_unfold_pc. cbv zeta.
      destruct (Rle_dec (d ⋅ Hf d) 0); [contradiction|].
      destruct (Rlt_dec (D * D) _); [contradiction|].
      destruct (Rlt_dec _ tol2); [contradiction|]. reflexivity.
  Qed.

  Lemma cg_iter_spec k : forall ds s s' i, InvS ds s -> cg_iter k s = Some s' ->
    (exists ds', InvS ds' s') /\ forall f cp, loop_from (k + f) i cp s = loop_from f (k + i) cp s'.
  Proof.
    induction k as [|k IH]; intros ds s s' i I E; cbn [cg_iter] in E.
    - injection E as <-. split; [exists ds; exact I|]. intros; reflexivity.
    - destruct (cg_next s) as [s1|] eqn:E1; [|discriminate].
      destruct (cg_next_spec ds s s1 I E1) as (I1 & L1).
      destruct (IH _ s1 s' (S i) I1 E) as (Hex & L2). split; [exact Hex|].
      intros f cp. cbn [Nat.add]. rewrite L1, L2. f_equal. lia.
  Qed.
End CGpc.

(* ------------------------------------------------------------------ the public entry point, preconditioned mode *)
Section CGpcMain.
  Variable n : nat.
  Variables Hf Pf Mf : rvec -> rvec.
  Variables D cg_tol cg_ratio : R.
  Variables x g : rvec.
  Hypothesis Hlen : forall v, len n v -> len n (Hf v).
  Hypothesis Plen : forall v, len n v -> len n (Pf v).
  Hypothesis Hsym : forall a b, len n a -> len n b -> a ⋅ Hf b = Hf a ⋅ b.
  Hypothesis Msym : forall a b, len n a -> len n b -> a ⋅ Mf b = Mf a ⋅ b.
  Hypothesis MP : forall v, len n v -> Mf (Pf v) = v.
  Hypothesis Mpos : forall v, len n v -> 0 < v ⋅ v -> 0 < v ⋅ Mf v.
  Hypothesis tol_nz : cg_tol <> 0.
  Hypothesis xlen : len n x.
  Hypothesis glen : len n g.

  Let tol2 := @cg_tol_squared R NumR cg_tol cg_ratio g.

  Lemma invM_start : ~ g ⋅ g < tol2 ->
    InvM n Hf Pf Mf D [] (rzero x) g (rneg (Pf g)) (g ⋅ Pf g) 0 0 (g ⋅ Pf g).
  Proof.
    intros Hbig. pose proof (tol2_pos cg_tol cg_ratio g tol_nz) as Htol. fold tol2 in Htol.
    assert (HPg : len n (Pf g)) by auto.
    constructor; try reflexivity; auto with vlen.
    - intros e [].
    - lra.
    - rewrite rdot_rneg_r. reflexivity.
    - rewrite rdot_rzero_l. reflexivity.
    - rewrite rdot_rzero_l. reflexivity.
    - rewrite rdot_rneg_l. rewrite Msym by auto with vlen. rewrite MP by assumption.
      rewrite rdot_rneg_r. ring.
    - nra.
    - intros e [].
    - intros e [].
    - intros w Hw Ho. pose proof (Ho _ (or_introl eq_refl)) as E. rewrite rdot_rneg_r in E. lra.
    - intros e [].
    - intros w Hw _. apply rdot_rzero_r.
  Qed.

  Theorem cg_solve_radius_pc f :
    let res := @solve_trust_region_minimization R NumR Hf Pf true D cg_tol cg_ratio (S f) x g in
    len n (cg_z res) /\ cg_z res ⋅ Mf (cg_z res) <= D * D /\
    (is_on_boundary (cg_tag res) = true -> cg_z res ⋅ Mf (cg_z res) = D * D).
  Proof.
    intros res. subst res. unfold solve_trust_region_minimization.
    fold tol2. unfold_num. q2r. unfold Rltb.
    pose proof (tol2_pos cg_tol cg_ratio g tol_nz) as Htol. fold tol2 in Htol.
    destruct (Rlt_dec (g ⋅ g) tol2) as [Hsmall|Hbig]; cbn [cg_z cg_tag cg_iters].
    - split; [auto with vlen|]. rewrite rdot_rzero_l. split; [nra|cbn; discriminate].
    - eapply cg_loop_postM with (ds := []); try eassumption. apply invM_start; assumption.
  Qed.

  (* the tracked scalars are the M-inner products at EVERY pass the loop reaches, and the state is the loop's state *)
  Definition cg_start : cgstate :=
    {| s_z := rzero x; s_r := g; s_d := rneg (Pf g); s_rPr := g ⋅ Pf g; s_zz := 0; s_zd := 0; s_dd := g ⋅ Pf g |}.
  Theorem cg_gould_recurrences k s : ~ g ⋅ g < tol2 ->
    cg_iter Hf Pf D tol2 k cg_start = Some s ->
    s_zz s = s_z s ⋅ Mf (s_z s) /\ s_zd s = s_z s ⋅ Mf (s_d s) /\ s_dd s = s_d s ⋅ Mf (s_d s) /\ s_zz s <= D * D /\
    forall f, @solve_trust_region_minimization R NumR Hf Pf true D cg_tol cg_ratio (k + f) x g =
              @cg_loop R NumR Hf Pf true D f k tol2 (rneg (Pf g)) (s_z s) (s_r s) (s_d s) (s_rPr s) (s_zz s) (s_zd s) (s_dd s).
  Proof.
    intros Hbig E. pose proof (tol2_pos cg_tol cg_ratio g tol_nz) as Htol. fold tol2 in Htol.
    pose proof (invM_start Hbig) as I0.
    destruct (cg_iter_spec n Hf Pf Mf D tol2 Hlen Plen Hsym Msym MP Mpos Htol k [] cg_start s 0%nat I0 E) as ((ds' & I) & L).
    destruct I. repeat (split; [assumption|]).
    intros f. specialize (L f (rneg (Pf g))). unfold loop_from, loopR in L. cbn [s_z s_r s_d s_rPr s_zz s_zd s_dd] in L.
    rewrite Nat.add_0_r in L. rewrite <- L.
    unfold solve_trust_region_minimization. fold tol2. unfold_num. q2r. unfold Rltb.
    destruct (Rlt_dec (g ⋅ g) tol2); [contradiction|]. reflexivity.
  Qed.
End CGpcMain.

(* the hypotheses are satisfiable: H = 2 I, precond = 2 I = M^-1 with M = I/2, any dimension *)
Lemma rscale_rscale a b (v : rvec) : rscale a (rscale b v) = rscale (a * b) v.
Proof. induction v as [|x v IH]; [reflexivity|]. cbn. unfold_num. f_equal; [ring|exact IH]. Qed.
Lemma rscale_one (v : rvec) : rscale 1 v = v.
Proof. induction v as [|x v IH]; [reflexivity|]. cbn. unfold_num. f_equal; [ring|exact IH]. Qed.
Lemma cgpc_hypotheses_satisfiable n :
  let Hf := rscale 2 in let Pf := rscale 2 in let Mf := rscale (/ 2) in
  (forall v, len n v -> len n (Hf v)) /\ (forall v, len n v -> len n (Pf v)) /\
  (forall a b, len n a -> len n b -> a ⋅ Hf b = Hf a ⋅ b) /\
  (forall a b, len n a -> len n b -> a ⋅ Mf b = Mf a ⋅ b) /\
  (forall v, len n v -> Mf (Pf v) = v) /\
  (forall v, len n v -> 0 < v ⋅ v -> 0 < v ⋅ Mf v) /\ len 2 [1; 0].
Proof.
  cbv zeta. repeat split; intros; auto with vlen.
  - rewrite rdot_rscale_r, rdot_rscale_l. reflexivity.
  - rewrite rdot_rscale_r, rdot_rscale_l. reflexivity.
  - rewrite rscale_rscale. replace (/ 2 * 2) with 1 by field. apply rscale_one.
  - rewrite rdot_rscale_r. lra.
Qed.

(* ... and the statement about the tracked scalars is not vacuous: H = diag(1,2), precond = M = I, g = (1,1), Delta = 10 satisfy the
   hypotheses, the loop reaches its second pass, and there the recurrence value zd is non-zero *)
Lemma len2_inv (v : rvec) : len 2 v -> exists a b, v = [a; b].
Proof. destruct v as [|a [|b [|c v]]]; cbn; try discriminate. intros _. eauto. Qed.
Lemma gould_nonvacuous :
  let Hf := @vmul R NumR [1; 2] in let Pf := fun v : rvec => v in let Mf := fun v : rvec => v in
  (forall v, len 2 v -> len 2 (Hf v)) /\ (forall v, len 2 v -> len 2 (Pf v)) /\
  (forall a b, len 2 a -> len 2 b -> a ⋅ Hf b = Hf a ⋅ b) /\
  (forall a b, len 2 a -> len 2 b -> a ⋅ Mf b = Mf a ⋅ b) /\
  (forall v, len 2 v -> Mf (Pf v) = v) /\
  (forall v, len 2 v -> 0 < v ⋅ v -> 0 < v ⋅ Mf v) /\
  ~ [1; 1] ⋅ [1; 1] < @cg_tol_squared R NumR (/ 10) 0 [1; 1] /\
  exists s, cg_iter Hf Pf 10 (@cg_tol_squared R NumR (/ 10) 0 [1; 1]) 1 (cg_start Pf [0; 0] [1; 1]) = Some s /\ s_zd s <> 0.
Proof.
  cbv zeta.
  assert (Et : @cg_tol_squared R NumR (/ 10) 0 [1; 1] = / 100).
  { unfold cg_tol_squared, nmax. vunf. cbn [ndot]. unfold_num. q2r. unfold Rltb. destruct (Rlt_dec _ _); lra. }
  assert (E2 : [1; 1] ⋅ [1; 1] = 2) by (rewrite !rdot_cons, rdot_nil_l; lra).
  repeat split; auto.
  - intros v Hv. destruct (len2_inv v Hv) as (a & b & ->). reflexivity.
  - intros a b Ha Hb. destruct (len2_inv a Ha) as (a0 & a1 & ->). destruct (len2_inv b Hb) as (b0 & b1 & ->).
    cbn. unfold_num. ring.
  - rewrite Et, E2. lra.
  - unfold cg_iter, cg_next, cg_start. cbn [s_z s_r s_d s_rPr s_zz s_zd s_dd].
    rewrite upd_R, cgip_R. cbn [fst snd].
    rewrite Et.
    assert (Ed : rneg [1; 1] = [-1; -1]) by (cbn; unfold_num; repeat (f_equal; try lra)).
    rewrite Ed.
    assert (EH : @vmul R NumR [1; 2] [-1; -1] = [-1; -2]) by (cbn; unfold_num; repeat (f_equal; try lra)).
    rewrite EH.
    assert (E1 : [-1; -1] ⋅ [-1; -2] = 3) by (rewrite !rdot_cons, rdot_nil_l; lra).
    rewrite E1, E2.
    assert (Er : raxpy [1; 1] (2 / 3) [-1; -2] = [/ 3; - / 3]) by (cbn; unfold_num; repeat (f_equal; try lra)).
    rewrite Er.
    assert (E3 : [/ 3; - / 3] ⋅ [/ 3; - / 3] = 2 / 9) by (rewrite !rdot_cons, rdot_nil_l; lra).
    rewrite E3.
    destruct (Rle_dec 3 0); [lra|].
    destruct (Rlt_dec (10 * 10) _); [lra|].
    destruct (Rlt_dec (2 / 9) (/ 100)); [lra|].
    eexists; split; [reflexivity|]. cbn [s_zd]. lra.
Qed.
