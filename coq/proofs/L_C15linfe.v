(* C15: linearity / scale invariance of the Newmark run over the MODELLED energies of a mesh (model/M_C15_FE.v): no hypothesis
   about forms left -- positive weights, unisolvent quadrature points, rho > 0, E > 0, -1 < nu < 1/2, beta > 0. *)
From Coq Require Import Reals Lra List.
From Coquelicot Require Import Coquelicot.
From OV.base Require Import Num.
From OV.model Require Import M_C15_Newmark M_C15_FE.
From OV.proofs Require Import L_C15 L_C15fe L_C15lin.
Local Open Scope R_scope.

Section FE.
  Variable A : Type.
  Variable mesh : list (@elem R A).
  Variables rho E nu g b : R.
  Hypothesis Hr : 0 < rho.
  Hypothesis HE : 0 < E.
  Hypothesis Hnu : -1 < nu < 1 / 2.
  Hypothesis Hb : 0 < b.
  Hypothesis Hw : weights_pos A mesh.
  Hypothesis Hu : unisolvent A mesh.
  Variable solve : @nfield R A -> R -> @nfield R A.
  Hypothesis Hst : forall Up dt, dt <> 0 -> fe_stationary A mesh rho E nu b dt Up (solve Up dt).

  Let Hwn : weights_nonneg A mesh.
  Proof. intros e q He Hq. apply Rlt_le, (Hw e q He Hq). Qed.

  Theorem fe_run_homogeneous (s : R) (dts : list R) (st : @state R (@dof A)) : (forall dt, In dt dts -> dt <> 0) ->
    @newmark_run R NumR (@dof A) g b solve (scaleS (@dof A) s st) dts = scaleS (@dof A) s (@newmark_run R NumR (@dof A) g b solve st dts).
  Proof.
    intros Hnz. destruct (le_moduli_pos E nu HE Hnu) as [Hmu Hka].
    apply (run_homogeneous (@dof A) (@fe_mass_form R NumR A rho mesh) (@fe_stiff_form R NumR A (le_mu E nu) (le_kappa E nu) mesh)
             (fe_mass_sbf A mesh rho) (fe_stiff_sbf A mesh _ _) b Hb).
    - intros x. apply fe_mass_psd; [lra|exact Hwn].
    - apply (proj2 (fe_mass_definite_iff A mesh rho Hr Hw)). exact Hu.
    - intros x. apply fe_stiff_psd; [lra|lra|exact Hwn].
    - intros Up dt Hdt. exact (proj1 (fe_stationary_abstract A mesh rho E nu b dt Up (solve Up dt)) (Hst Up dt Hdt)).
    - exact Hnz.
  Qed.
  Theorem fe_run_additive (dts : list R) (st st' : @state R (@dof A)) : (forall dt, In dt dts -> dt <> 0) ->
    @newmark_run R NumR (@dof A) g b solve (addS (@dof A) st st') dts
    = addS (@dof A) (@newmark_run R NumR (@dof A) g b solve st dts) (@newmark_run R NumR (@dof A) g b solve st' dts).
  Proof.
    intros Hnz. destruct (le_moduli_pos E nu HE Hnu) as [Hmu Hka].
    apply (run_additive (@dof A) (@fe_mass_form R NumR A rho mesh) (@fe_stiff_form R NumR A (le_mu E nu) (le_kappa E nu) mesh)
             (fe_mass_sbf A mesh rho) (fe_stiff_sbf A mesh _ _) b Hb).
    - intros x. apply fe_mass_psd; [lra|exact Hwn].
    - apply (proj2 (fe_mass_definite_iff A mesh rho Hr Hw)). exact Hu.
    - intros x. apply fe_stiff_psd; [lra|lra|exact Hwn].
    - intros Up dt Hdt. exact (proj1 (fe_stationary_abstract A mesh rho E nu b dt Up (solve Up dt)) (Hst Up dt Hdt)).
    - exact Hnz.
  Qed.
End FE.
