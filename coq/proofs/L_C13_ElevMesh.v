(* C13 -- ONE closed statement over the whole elevated mesh: for every element t and every reference position pos the node
   id stored at elevated[t][pos] is in range and its stored coordinate em_coord (vertex row / edge-point row / interior-point
   row of the stacked coordinate array) is the affine image of reference node pos in element t, up to the certificate
   tolerances.  Composition of: every_entry_written (L_C13_Elev3), elev_vertex / elev_edge / elev_interior (which id sits
   where, L_C13_Elev2), coord_of_*_id (which coordinate an id has) and the placement lemmas (L_C13_Coords). *)
From Coq Require Import List Arith Lia Bool Reals Lra.
From OV.base Require Import Num.
From OV.model Require Import M_C13_Edges M_C13_Elevate M_C13_Coords M_C13_ElevMesh.
From OV.proofs Require Import L_C13_Edges L_C13_Elevate L_C13_Elev2 L_C13_Elev3 L_C13_Coords.
Import ListNotations.

(* ---- the generic coordinate column, instantiated at R, is the coordinate model of M_C13_Coords *)
Lemma em_coord_R X s1d ref pe nV m conns id :
  @em_coord R NumR X s1d ref pe nV m conns id
  = elev_coord X s1d (em_N0 ref pe) (em_N1 ref pe)
      (fun e => e_a (nth e (create_edges conns) row0)) (fun e => e_b (nth e (create_edges conns) row0))
      (em_tri conns) nV (length (create_edges conns)) m (length (pe_interior pe)) id.
Proof. reflexivity. Qed.
Lemma em_affine_R X ref conns t pos :
  @em_affine R NumR X ref conns t pos
  = affine_image (fst (ref pos)) (snd (ref pos)) (X (em_tri conns t 0)) (X (em_tri conns t 1)) (X (em_tri conns t 2)).
Proof. reflexivity. Qed.
Lemma em_coords_nth {T} {NT : Num T} (X s1d : nat -> T) ref pe nV m conns id d : id < em_nnodes pe nV m conns ->
  nth id (em_coords X s1d ref pe nV m conns) d = em_coord X s1d ref pe nV m conns id.
Proof.
  intros H. unfold em_coords. cbv zeta.
  rewrite (nth_indep _ d (em_coord_rows X s1d ref pe nV m conns (create_edges conns) 0)) by (now rewrite map_length, seq_length).
  rewrite (map_nth (em_coord_rows X s1d ref pe nV m conns (create_edges conns)) (seq 0 (em_nnodes pe nV m conns)) 0 id).
  now rewrite seq_nth.
Qed.
Lemma em_coords_length {T} {NT : Num T} (X s1d : nat -> T) ref pe nV m conns :
  length (em_coords X s1d ref pe nV m conns) = em_nnodes pe nV m conns.
Proof. unfold em_coords. cbv zeta. now rewrite map_length, seq_length. Qed.

(* ---- reference-element coordinate certificate, as a proposition: vertex positions at the unit points (1,0), (0,1), (0,0);
        face position k of side s within delta of the point with barycentric weights side_weight s . (s1d k) *)
Local Open Scope R_scope.
Definition unit_pt (i : nat) : R * R := match i with 0%nat => (1, 0) | 1%nat => (0, 1) | _ => (0, 0) end.
Record ref_good (ref : nat -> R * R) (pe : pelem) (s1d : nat -> R) (delta : R) : Prop := {
  rg_vertex : forall i p, nth_error (pe_vertex pe) i = Some p -> ref p = unit_pt i;
  rg_face : forall s k p, (s < 3)%nat -> nth_error (pe_mid pe s) k = Some p ->
            Rabs (fst (ref p) - side_weight s 0 (s1d k)) <= delta /\ Rabs (snd (ref p) - side_weight s 1 (s1d k)) <= delta }.

Lemma nth_error_rev {A} (l : list A) i : (i < length l)%nat -> nth_error (rev l) i = nth_error l (length l - S i).
Proof.
  intros H. destruct l as [| d l']; [cbn in H; lia |]. set (l := d :: l') in *.
  rewrite (nth_error_nth' (rev l) d) by (rewrite rev_length; exact H).
  rewrite (nth_error_nth' l d) by lia. now rewrite rev_nth.
Qed.
Lemma mod3_lt s : ((s + 1) mod 3 < 3)%nat.
Proof. apply Nat.mod_upper_bound. lia. Qed.
Lemma nth_sel3 (a b c : R) (f : nat -> R) s : (s < 3)%nat -> a = f 0%nat -> b = f 1%nat -> c = f 2%nat -> nth s [a; b; c] 0 = f s.
Proof. intros Hs -> -> ->. destruct s as [| [| [| s]]]; try lia; reflexivity. Qed.

Section Closed.
  Variables X s1d : nat -> R.
  Variable ref : nat -> R * R.
  Variable pe : pelem.
  Variables nV m : nat.
  Variable conns : list (list nat).
  Variables delta delta' : R.
  Hypothesis Hok : pe_okb pe m = true.
  Hypothesis Hnd : NoDup (all_faces conns).                                  (* no directed vertex pair occurs twice *)
  Hypothesis Hnondeg : forall f, In f (all_faces conns) -> fst f <> snd f.   (* no degenerate side *)
  Hypothesis Hlen : Forall (fun c => length c = 3%nat) conns.
  Hypothesis Hrange : Forall (Forall (fun i => (i < nV)%nat)) conns.
  Hypothesis Href : ref_good ref pe s1d delta.
  Hypothesis Hsym : forall k, (k < m)%nat -> Rabs (s1d k + s1d (m - 1 - k) - 1) <= delta'.
  Hypothesis Hd : 0 <= delta.
  Hypothesis Hd' : 0 <= delta'.
  Let rows := create_edges conns.
  Let W := events pe nV m conns.
  Let Hpe := pe_okb_good pe m Hok.
  Let Xv (t i : nat) : R := X (em_tri conns t i).

  (* the uniform bound for element t: delta from the face-node certificate, delta' from the Lobatto symmetry certificate *)
  Definition em_bound (t : nat) : R :=
    delta * (Rabs (Xv t 0 - Xv t 2) + Rabs (Xv t 1 - Xv t 2))
    + delta' * (Rabs (Xv t 0 - Xv t 1) + Rabs (Xv t 1 - Xv t 2) + Rabs (Xv t 2 - Xv t 0)).

  Lemma side_abs_le t s : (s < 3)%nat ->
    Rabs (Xv t s - Xv t ((s + 1) mod 3)) <= Rabs (Xv t 0 - Xv t 1) + Rabs (Xv t 1 - Xv t 2) + Rabs (Xv t 2 - Xv t 0).
  Proof.
    intros Hs. pose proof (Rabs_pos (Xv t 0 - Xv t 1)). pose proof (Rabs_pos (Xv t 1 - Xv t 2)). pose proof (Rabs_pos (Xv t 2 - Xv t 0)).
    destruct s as [| [| [| s]]]; try lia; cbn [Nat.add Nat.modulo Nat.divmod fst snd Nat.sub]; lra.
  Qed.
  Lemma bound_parts t : 0 <= delta * (Rabs (Xv t 0 - Xv t 2) + Rabs (Xv t 1 - Xv t 2))
    /\ 0 <= delta' * (Rabs (Xv t 0 - Xv t 1) + Rabs (Xv t 1 - Xv t 2) + Rabs (Xv t 2 - Xv t 0)).
  Proof.
    pose proof (Rabs_pos (Xv t 0 - Xv t 1)). pose proof (Rabs_pos (Xv t 1 - Xv t 2)). pose proof (Rabs_pos (Xv t 2 - Xv t 0)).
    pose proof (Rabs_pos (Xv t 0 - Xv t 2)). split; apply Rmult_le_pos; lra.
  Qed.

  Lemma holds_ends t s f : holds conns t s f -> fst f = em_tri conns t s /\ snd f = em_tri conns t ((s + 1) mod 3).
  Proof. intros (_ & _ & <-). unfold side, em_tri. cbn [fst snd]. split; reflexivity. Qed.

  (* the stored id, by kind of reference position *)
  Theorem elevated_node_affine t pos : (t < length conns)%nat -> (pos < pe_n pe)%nat ->
    let id := nth pos (nth t (elevated pe nV m conns) []) 0%nat in
    (id < em_nnodes pe nV m conns)%nat
    /\ Rabs (@em_coord R NumR X s1d ref pe nV m conns id - @em_affine R NumR X ref conns t pos) <= em_bound t.
  Proof.
    intros Ht Hp. cbv zeta.
    destruct (elevated_entry_written conns pe nV m Hok Hnd Hnondeg Hlen t pos Ht Hp) as [v [Hv ->]].
    split; [exact (elev_in_range conns pe nV m Hrange _ _ Hv) |].
    rewrite em_coord_R, em_affine_R. fold (Xv t 0) (Xv t 1) (Xv t 2).
    destruct (bound_parts t) as [B1 B2].
    pose proof (positions_cover pe m Hok pos Hp) as Hin. unfold pe_positions in Hin.
    destruct (nth_error conns t) as [c |] eqn:Ec; [| apply nth_error_None in Ec; lia].
    assert (Hc : length c = 3%nat) by (rewrite Forall_forall in Hlen; apply Hlen; now apply nth_error_In in Ec).
    assert (Ect : nth t conns [] = c) by (now apply nth_error_nth).
    apply in_app_or in Hin. destruct Hin as [Hvx | Hin].
    - (* vertex position i: id = conns[t][i], coordinate X[id], reference point = unit point i *)
      destruct (In_nth_error _ _ Hvx) as [i Hi].
      assert (Hi3 : (i < 3)%nat) by (rewrite <- (pg_len_v _ _ Hpe); apply nth_error_Some; congruence).
      destruct (nth_error_len_some c i ltac:(lia)) as [vi Hvi].
      pose proof (elev_vertex conns pe nV m Hpe Hnondeg t c i pos vi Ec Hi Hvi) as L. fold W in Hv. unfold W in Hv. rewrite L in Hv. inversion Hv; subst v.
      assert (Evi : vi = em_tri conns t i) by (unfold em_tri; rewrite Ect; symmetry; now apply nth_error_nth).
      assert (Hlt : (vi < nV)%nat).
      { rewrite Forall_forall in Hrange. pose proof (Hrange c (nth_error_In _ _ Ec)) as Hr. rewrite Forall_forall in Hr. apply Hr. now apply nth_error_In in Hvi. }
      rewrite coord_of_vertex_id by exact Hlt. rewrite (rg_vertex _ _ _ _ Href i pos Hi). rewrite Evi. fold (Xv t i).
      unfold em_bound.
      replace (Xv t i - affine_image (fst (unit_pt i)) (snd (unit_pt i)) (Xv t 0) (Xv t 1) (Xv t 2)) with 0.
      + rewrite Rabs_R0. lra.
      + destruct i as [| [| [| i]]]; try lia; unfold affine_image, unit_pt; cbn [fst snd]; ring.
    - assert (Hmid : forall s, (s < 3)%nat -> In pos (pe_mid pe s) ->
        Rabs (elev_coord X s1d (em_N0 ref pe) (em_N1 ref pe) (fun e => e_a (nth e (create_edges conns) row0))
                (fun e => e_b (nth e (create_edges conns) row0)) (em_tri conns) nV (length (create_edges conns)) m (length (pe_interior pe)) v
              - affine_image (fst (ref pos)) (snd (ref pos)) (Xv t 0) (Xv t 1) (Xv t 2)) <= em_bound t).
      { intros s Hs Hm. destruct (side_has_slot conns Hnd t s Ht Hs) as (e & r & sl & He & Hsl & Efs).
        destruct (In_nth_error _ _ Hm) as [i Hi].
        assert (Hilt : (i < m)%nat) by (rewrite <- (pg_len_m _ _ Hpe s); apply nth_error_Some; congruence).
        assert (Helt : (e < length (create_edges conns))%nat) by (apply nth_error_Some; congruence).
        assert (Er : nth e (create_edges conns) row0 = r) by (now apply nth_error_nth).
        destruct (slot_holds conns r sl (nth_error_In _ _ He) Hsl) as [f [Hh [_ Ef]]]. rewrite Efs in Hh. cbn [fst snd] in Hh.
        destruct (holds_ends t s f Hh) as [Ea Eb].
        destruct (rg_face _ _ _ _ Href s i pos Hs Hi) as [F0 F1].
        pose proof (elev_edge conns pe nV m Hpe Hnondeg e r sl i pos) as L. rewrite Efs in L. cbn [fst snd] in L.
        destruct sl as [[t' s'] b]. cbn [fst snd] in *. inversion Efs; subst t' s'. destruct b.
        - (* left element: ids in order *)
          specialize (L (nV + e * m + i)%nat He Hsl Hi (edge_ids_nth nV m e i Hilt)). fold W in Hv. unfold W in Hv. rewrite L in Hv. inversion Hv; subst v.
          rewrite coord_of_edge_id by assumption. unfold edge_coord. rewrite Er. subst f. cbn [fst snd] in Ea, Eb. rewrite Ea, Eb.
          fold (Xv t s) (Xv t ((s + 1) mod 3)). rewrite Rabs_minus_sym.
          pose proof (affine_placement_left s (s1d i) (fst (ref pos)) (snd (ref pos)) (Xv t 0) (Xv t 1) (Xv t 2) delta Hs F0 F1) as P. cbv zeta in P.
          rewrite (nth_sel3 _ _ _ (Xv t) s Hs eq_refl eq_refl eq_refl) in P.
          rewrite (nth_sel3 _ _ _ (Xv t) ((s + 1) mod 3) (mod3_lt s) eq_refl eq_refl eq_refl) in P.
          unfold em_bound. lra.
        - (* right element: ids reversed, 1-D parameter s1d (m-1-i) seen from the other end *)
          assert (Hrev : nth_error (rev (edge_ids nV m e)) i = Some (nV + e * m + (m - 1 - i))%nat).
          { rewrite nth_error_rev by (unfold edge_ids; rewrite map_length, seq_length; exact Hilt).
            rewrite (proj2 (edge_ids_right_rev nV m e)). replace (m - S i)%nat with (m - 1 - i)%nat by lia. apply edge_ids_nth. lia. }
          specialize (L _ He Hsl Hi Hrev). fold W in Hv. unfold W in Hv. rewrite L in Hv. inversion Hv; subst v.
          rewrite coord_of_edge_id by (try assumption; lia). unfold edge_coord. rewrite Er. subst f. cbn [fst snd] in Ea, Eb. rewrite Ea, Eb.
          fold (Xv t s) (Xv t ((s + 1) mod 3)). rewrite Rabs_minus_sym.
          pose proof (affine_placement_right s (s1d i) (s1d (m - 1 - i)) (fst (ref pos)) (snd (ref pos)) (Xv t 0) (Xv t 1) (Xv t 2) delta delta' Hs F0 F1 (Hsym i Hilt)) as P.
          cbv zeta in P.
          rewrite (nth_sel3 _ _ _ (Xv t) s Hs eq_refl eq_refl eq_refl) in P.
          rewrite (nth_sel3 _ _ _ (Xv t) ((s + 1) mod 3) (mod3_lt s) eq_refl eq_refl eq_refl) in P.
          pose proof (side_abs_le t s Hs) as S.
          assert (delta' * Rabs (Xv t s - Xv t ((s + 1) mod 3))
                  <= delta' * (Rabs (Xv t 0 - Xv t 1) + Rabs (Xv t 1 - Xv t 2) + Rabs (Xv t 2 - Xv t 0))) by (apply Rmult_le_compat_l; assumption).
          unfold em_bound. lra. }
      apply in_app_or in Hin. destruct Hin as [H0 | Hin]; [exact (Hmid 0%nat ltac:(lia) H0) |].
      apply in_app_or in Hin. destruct Hin as [H1 | Hin]; [exact (Hmid 1%nat ltac:(lia) H1) |].
      apply in_app_or in Hin. destruct Hin as [H2 | Hi]; [exact (Hmid 2%nat ltac:(lia) H2) |].
      (* interior position k: id = nV + nE m + t nI + k, coordinate = barycentric combination with the reference coordinates as weights *)
      destruct (In_nth_error _ _ Hi) as [k Hk].
      assert (Hklt : (k < length (pe_interior pe))%nat) by (apply nth_error_Some; congruence).
      pose proof (elev_interior conns pe nV m Hpe Hnondeg t k pos Ht Hk) as L. fold W in Hv. unfold W in Hv. rewrite L in Hv. inversion Hv; subst v.
      rewrite coord_of_interior_id by exact Hklt. rewrite affine_placement_interior.
      assert (Ek : em_ipos pe k = pos) by (unfold em_ipos; now apply nth_error_nth).
      unfold em_N0, em_N1. rewrite Ek. fold (Xv t 0) (Xv t 1) (Xv t 2).
      replace (affine_image (fst (ref pos)) (snd (ref pos)) (Xv t 0) (Xv t 1) (Xv t 2) - affine_image (fst (ref pos)) (snd (ref pos)) (Xv t 0) (Xv t 1) (Xv t 2)) with 0 by ring.
      rewrite Rabs_R0. unfold em_bound. lra.
  Qed.
End Closed.

(* ---- shape of the whole table: one row per element, pe_n entries per row, every entry a node id in range, every node id
        0 .. N-1 stored somewhere (no unused node), vertex columns reproduce the simplex connectivity *)
Section Shape.
  Variable conns : list (list nat).
  Variable pe : pelem.
  Variables nV m : nat.
  Hypothesis Hok : pe_okb pe m = true.
  Hypothesis Hnd : NoDup (all_faces conns).
  Hypothesis Hnondeg : forall f, In f (all_faces conns) -> fst f <> snd f.
  Hypothesis Hlen : Forall (fun c => length c = 3%nat) conns.
  Hypothesis Hrange : Forall (Forall (fun i => (i < nV)%nat)) conns.
  Let Hpe := pe_okb_good pe m Hok.
  Let E := elevated pe nV m conns.

  Lemma event_key_in_range k v : In (k, v) (events pe nV m conns) -> (fst k < length conns)%nat /\ (snd k < pe_n pe)%nat.
  Proof.
    unfold events. intros H. apply in_app_or in H. destruct H as [H | H]; [| apply in_app_or in H; destruct H as [H | H]].
    - apply ev_vertex_in in H. destruct H as [H1 H2]. split; [exact H1 |]. apply (pg_range _ _ Hpe). unfold pe_positions. apply in_or_app. now left.
    - apply ev_edges_in in H. destruct H as (e & r & sl & He & Hsl & E1 & E2).
      destruct (slot_side_lt conns r sl (nth_error_In _ _ He) Hsl) as [L1 L2]. split; [now rewrite E1 |].
      apply (pg_range _ _ Hpe). unfold pe_positions. apply in_or_app. right.
      destruct (snd (fst sl)) as [| [| s]]; cbn [pe_mid] in E2.
      + apply in_or_app. now left.
      + apply in_or_app. right. apply in_or_app. now left.
      + apply in_or_app. right. apply in_or_app. right. apply in_or_app. now left.
    - apply ev_interior_in in H. destruct H as [H1 H2]. split; [exact H1 |]. apply (pg_range _ _ Hpe). unfold pe_positions.
      do 4 (apply in_or_app; right). exact H2.
  Qed.

  Theorem elevated_mesh_shape :
    length E = length conns
    /\ Forall (fun row => length row = pe_n pe /\ Forall (fun id => (id < em_nnodes pe nV m conns)%nat) row) E
    /\ ((forall n, (n < nV)%nat -> exists c, In c conns /\ In n c) ->
        forall id, (id < em_nnodes pe nV m conns)%nat ->
        exists t pos, (t < length conns)%nat /\ (pos < pe_n pe)%nat /\ nth pos (nth t E []) 0%nat = id)
    /\ (forall t i p, (t < length conns)%nat -> nth_error (pe_vertex pe) i = Some p ->
        (p < pe_n pe)%nat /\ nth p (nth t E []) 0%nat = em_tri conns t i).
  Proof.
    split; [unfold E, elevated; now rewrite map_length, seq_length |]. split; [| split].
    - apply Forall_forall. intros row Hrow. unfold E, elevated in Hrow. apply in_map_iff in Hrow. destruct Hrow as [t [<- Ht]]. apply in_seq in Ht.
      split; [now rewrite map_length, seq_length |]. apply Forall_forall. intros id Hid. apply in_map_iff in Hid. destruct Hid as [pos [<- Hp]]. apply in_seq in Hp.
      destruct (every_entry_written conns pe nV m Hok Hnd Hnondeg Hlen t pos ltac:(lia) ltac:(lia)) as [v Hv]. rewrite Hv.
      exact (elev_in_range conns pe nV m Hrange _ _ Hv).
    - intros Hused id Hid. destruct (elev_onto conns pe nV m Hpe Hnondeg Hlen Hused id Hid) as [[t pos] Hk].
      destruct (event_key_in_range _ _ (lookup_some _ _ _ Hk)) as [L1 L2]. cbn [fst snd] in L1, L2.
      exists t, pos. split; [exact L1 |]. split; [exact L2 |]. unfold E. rewrite (elevated_entry conns pe nV m t pos L1 L2). now rewrite Hk.
    - intros t i p Ht Hi.
      assert (Hp : (p < pe_n pe)%nat) by (apply (pg_range _ _ Hpe); unfold pe_positions; apply in_or_app; left; now apply nth_error_In in Hi).
      split; [exact Hp |].
      assert (Hi3 : (i < 3)%nat) by (rewrite <- (pg_len_v _ _ Hpe); apply nth_error_Some; congruence).
      destruct (nth_error conns t) as [c |] eqn:Ec; [| apply nth_error_None in Ec; lia].
      assert (Hc : length c = 3%nat) by (rewrite Forall_forall in Hlen; apply Hlen; now apply nth_error_In in Ec).
      destruct (nth_error_len_some c i ltac:(lia)) as [vi Hvi].
      unfold E. rewrite (elevated_entry conns pe nV m t p Ht Hp). rewrite (elev_vertex conns pe nV m Hpe Hnondeg t c i p vi Ec Hi Hvi).
      unfold em_tri. rewrite (nth_error_nth _ _ [] Ec). symmetry. now apply nth_error_nth.
  Qed.
End Shape.

(* ---- soundness of the rational certificates: what [elev_cert_okb] computes implies the hypotheses of the closed theorem *)
From Coq Require Import QArith Qabs Qreals.
Local Open Scope R_scope.
Definition ref_of_q (refq : list (Q * Q)) (p : nat) : R * R := (Q2R (fst (qnth refq p)), Q2R (snd (qnth refq p))).
Definition s1d_of_q (nodes : list Q) (in1d : list nat) (k : nat) : R := Q2R (nth k (s1d_q nodes in1d) 0%Q).

Lemma Qabs_le_R x tol : Qle_bool (Qabs x) tol = true -> Rabs (Q2R x) <= Q2R tol.
Proof.
  intros H. apply Qle_bool_iff in H. apply Qabs_Qle_condition in H. destruct H as [H1 H2].
  apply Qle_Rle in H1, H2. rewrite Q2R_opp in H1. apply Rabs_le. split; assumption.
Qed.
Lemma Q2R_zero : Q2R 0%Q = 0. Proof. unfold Q2R; cbn; lra. Qed.
Lemma Q2R_one : Q2R 1%Q = 1. Proof. unfold Q2R; cbn; lra. Qed.
Lemma qweight_R s j sk : Q2R (qweight s j sk) = side_weight s j (Q2R sk).
Proof.
  unfold qweight, side_weight. rewrite Q2R_plus.
  destruct (Nat.eqb j s), (Nat.eqb j ((s + 1) mod 3)); rewrite ?Q2R_minus, ?Q2R_zero, ?Q2R_one; reflexivity.
Qed.
Lemma combine_nth_in {A B} (l : list A) (l' : list B) k p d : nth_error l k = Some p -> length l = length l' -> In (p, nth k l' d) (combine l l').
Proof.
  revert l' k. induction l as [| a l IH]; intros [| b l'] k Hk Hl; try (destruct k; discriminate); try discriminate.
  destruct k; cbn in *; [inversion Hk; now left | right; apply IH; auto].
Qed.
Lemma list_eqb_eq a b : list_eqb a b = true -> a = b.
Proof.
  revert b. induction a as [| x a IH]; intros [| y b] H; try discriminate; [reflexivity |].
  cbn in H. apply andb_true_iff in H. destruct H as [H1 H2]. apply Nat.eqb_eq in H1. subst. f_equal. now apply IH.
Qed.

Lemma ref_vertex_sound refq vertex : ref_vertex_okb refq vertex = true ->
  forall i p, nth_error vertex i = Some p -> ref_of_q refq p = unit_pt i.
Proof.
  unfold ref_vertex_okb. destruct vertex as [| v0 [| v1 [| v2 [| ? ?]]]]; try discriminate.
  rewrite !andb_true_iff. intros [[[[[A B] C] D] E] F] i p Hi.
  apply Qeq_bool_iff, Qeq_eqR in A, B, C, D, E, F. rewrite ?Q2R_zero, ?Q2R_one in *.
  destruct i as [| [| [| i]]]; cbn in Hi; try (destruct i; discriminate); inversion Hi; subst p; unfold ref_of_q, unit_pt; congruence.
Qed.
Lemma ref_face_sound refq pe s1dq tol : ref_face_okb refq [pe_m0 pe; pe_m1 pe; pe_m2 pe] s1dq tol = true ->
  forall s k p, (s < 3)%nat -> nth_error (pe_mid pe s) k = Some p ->
    Rabs (fst (ref_of_q refq p) - side_weight s 0 (Q2R (nth k s1dq 0%Q))) <= Q2R tol
    /\ Rabs (snd (ref_of_q refq p) - side_weight s 1 (Q2R (nth k s1dq 0%Q))) <= Q2R tol.
Proof.
  unfold ref_face_okb. intros H s k p Hs Hk. rewrite forallb_forall in H.
  assert (Hin : In (s, pe_mid pe s) (combine [0; 1; 2]%nat [pe_m0 pe; pe_m1 pe; pe_m2 pe])).
  { destruct s as [| [| [| s]]]; try lia; cbn; auto. }
  specialize (H _ Hin). cbn [fst snd] in H. apply andb_true_iff in H. destruct H as [Hl H]. apply Nat.eqb_eq in Hl.
  rewrite forallb_forall in H. specialize (H _ (combine_nth_in _ _ k p 0%Q Hk Hl)). cbn [fst snd] in H.
  apply andb_true_iff in H. destruct H as [H0 H1]. apply Qabs_le_R in H0, H1. rewrite Q2R_minus, qweight_R in H0, H1.
  unfold ref_of_q. cbn [fst snd]. split; assumption.
Qed.
Lemma lobatto_sym_sound nodes tol m : lobatto_sym_okb nodes tol = true -> length nodes = (m + 2)%nat ->
  forall k, (k < m)%nat -> Rabs (Q2R (nth (S k) nodes 0%Q) + Q2R (nth (S (m - 1 - k)) nodes 0%Q) - 1) <= Q2R tol.
Proof.
  unfold lobatto_sym_okb. intros H Hl k Hk. rewrite forallb_forall in H.
  assert (Hin : In (nth (S k) nodes 0%Q, nth (S k) (rev nodes) 0%Q) (combine nodes (rev nodes))).
  { apply combine_nth_in; [apply nth_error_nth'; lia | now rewrite rev_length]. }
  specialize (H _ Hin). cbn [fst snd] in H. rewrite rev_nth in H by lia.
  replace (length nodes - S (S k))%nat with (S (m - 1 - k)) in H by lia.
  apply Qabs_le_R in H. now rewrite Q2R_minus, Q2R_plus, Q2R_one in H.
Qed.
Lemma s1d_q_nth nodes m k : (k < m)%nat -> nth k (s1d_q nodes (seq 1 m)) 0%Q = nth (S k) nodes 0%Q.
Proof.
  intros Hk. unfold s1d_q. rewrite (nth_indep _ 0%Q (nth 0 nodes 0%Q)) by (now rewrite map_length, seq_length).
  rewrite (map_nth (fun i => nth i nodes 0%Q) (seq 1 m) 0%nat k). now rewrite seq_nth.
Qed.

(* the closed statement with every table hypothesis discharged by the computed certificate *)
Theorem elevated_mesh_certified pe m refq faces nodes in1d tol conns nV (X : nat -> R) :
  elev_cert_okb pe m refq faces nodes in1d tol = true ->
  NoDup (all_faces conns) -> (forall f, In f (all_faces conns) -> fst f <> snd f) ->
  Forall (fun c => length c = 3%nat) conns -> Forall (Forall (fun i => (i < nV)%nat)) conns ->
  forall t pos, (t < length conns)%nat -> (pos < pe_n pe)%nat ->
    let id := nth pos (nth t (elevated pe nV m conns) []) 0%nat in
    (id < em_nnodes pe nV m conns)%nat
    /\ Rabs (@em_coord R NumR X (s1d_of_q nodes in1d) (ref_of_q refq) pe nV m conns id - @em_affine R NumR X (ref_of_q refq) conns t pos)
       <= em_bound X conns (Q2R tol) (Q2R tol) t.
Proof.
  unfold elev_cert_okb. rewrite !andb_true_iff. intros [[[[[[[[[Hok Hn] Hin1] _] _] _] Hv] Hf] Hs] Ht] Hnd Hnondeg Hlen Hrange.
  apply Nat.eqb_eq in Hn. apply list_eqb_eq in Hin1. subst in1d.
  assert (Htol : 0 <= Q2R tol) by (apply Qle_bool_iff, Qle_Rle in Ht; now rewrite Q2R_zero in Ht).
  apply (elevated_node_affine X (s1d_of_q nodes (seq 1 m)) (ref_of_q refq) pe nV m conns (Q2R tol) (Q2R tol) Hok Hnd Hnondeg Hlen Hrange); try assumption.
  - constructor.
    + exact (ref_vertex_sound refq (pe_vertex pe) Hv).
    + intros s k p Hs3 Hk. unfold s1d_of_q. exact (ref_face_sound refq pe _ tol Hf s k p Hs3 Hk).
  - intros k Hk. unfold s1d_of_q. rewrite !s1d_q_nth by lia. exact (lobatto_sym_sound nodes tol m Hs Hn k Hk).
Qed.

(* ---- non-vacuity: the quadratic reference element (exact tables) on the structured 3 x 4 mesh satisfies every hypothesis *)
From OV.model Require Import M_C13_Struct.
Definition pe_quadratic : pelem := mkPE 6 [0; 2; 5]%nat [1]%nat [4]%nat [3]%nat [].
Lemma elevated_mesh_nonvacuous :
  elev_cert_okb pe_quadratic 1 [(1, 0); (1 # 2, 1 # 2); (0, 1); (1 # 2, 0); (0, 1 # 2); (0, 0)]%Q
                [[0; 1; 2]; [2; 4; 5]; [5; 3; 0]]%nat [0; 1 # 2; 1]%Q [1]%nat 0%Q = true
  /\ NoDup (all_faces (struct_conns 3 4)) /\ (forall f, In f (all_faces (struct_conns 3 4)) -> fst f <> snd f)
  /\ Forall (fun c => length c = 3%nat) (struct_conns 3 4) /\ Forall (Forall (fun i => (i < 12)%nat)) (struct_conns 3 4)
  /\ (forall n, (n < 12)%nat -> exists c, In c (struct_conns 3 4) /\ In n c)
  /\ nth 1 (nth 0 (elevated pe_quadratic 12 1 (struct_conns 3 4)) []) 0%nat = 12%nat.
Proof.
  split; [vm_compute; reflexivity |]. split.
  { replace (all_faces (struct_conns 3 4))
      with (nodup (fun a b : nat * nat => ltac:(decide equality; apply Nat.eq_dec) : {a = b} + {a <> b}) (all_faces (struct_conns 3 4)))
      by (vm_compute; reflexivity).
    apply NoDup_nodup. }
  split.
  { assert (H : forallb (fun f : nat * nat => negb (fst f =? snd f)%nat) (all_faces (struct_conns 3 4)) = true) by (vm_compute; reflexivity).
    rewrite forallb_forall in H. intros f Hf E. specialize (H f Hf). apply negb_true_iff, Nat.eqb_neq in H. contradiction. }
  split.
  { assert (H : forallb (fun c : list nat => (length c =? 3)%nat) (struct_conns 3 4) = true) by (vm_compute; reflexivity).
    rewrite forallb_forall in H. apply Forall_forall. intros c Hc. now apply Nat.eqb_eq, H. }
  split.
  { assert (H : forallb (forallb (fun i => (i <? 12)%nat)) (struct_conns 3 4) = true) by (vm_compute; reflexivity).
    rewrite forallb_forall in H. apply Forall_forall. intros c Hc. specialize (H c Hc). rewrite forallb_forall in H.
    apply Forall_forall. intros i Hi. now apply Nat.ltb_lt, H. }
  split; [| vm_compute; reflexivity].
  assert (H : forallb (fun n => existsb (existsb (Nat.eqb n)) (struct_conns 3 4)) (seq 0 12) = true) by (vm_compute; reflexivity).
  rewrite forallb_forall in H. intros n Hn. specialize (H n ltac:(apply in_seq; lia)). apply existsb_exists in H. destruct H as [c [Hc H]].
  apply existsb_exists in H. destruct H as [x [Hx E]]. apply Nat.eqb_eq in E. subst x. exists c. split; assumption.
Qed.
