(* C04: the complete model of BoundConstrainedSolver.bound_constrained_solve (model/M_C04_BC.v: flags useWarmStart / updatePrecond /
   sub_problem_callback, the warm-start oracle, its own event trace; tied to the implementation by the executed trace correspondence
   `bc trace` of tools/props/c04.py) -- what every run of it satisfies, for ARBITRARY oracles and flags. *)
From Coq Require Import Reals Lra Lia QArith List Bool Psatz.
From OV.base Require Import Num.
From OV.gen Require Import Gen_ConstrainedObjective Gen_AlSolver Gen_BoundConstrainedObjective.
From OV.model Require Import M_C04_AL M_C04_BC.
From OV.proofs Require Import L_C04 L_C04_Upd.
Import ListNotations.
Local Open Scope R_scope.

Section BC.
  Variable cfg : @settings R.
  Variable orc : @oracles R.
  Variable warm : list R -> list R.

  (* the trace of every run: reset_kappa first, then the front-end prologue, then the nested solve's own assignment and ITS trace *)
  Lemma bc_front_shape fl scaling isc sc_c kappa0 x0 lam o ev :
    bc_front cfg orc warm fl scaling isc sc_c kappa0 x0 lam = (o, ev) ->
    exists oa eva,
      al_solve cfg orc kappa0 (bc_start warm fl scaling x0) lam kappa0 = (oa, eva)
      /\ ev = BCReset kappa0 :: bc_prologue warm fl scaling x0 ++ [BCNestedAssignP] ++ map (@BCAl R) eva
      /\ o = match oa with
             | Returned xBar lam' kappa' => BCReturned (@vmul R NumR isc xBar) (@vmul R NumR lam' sc_c) lam' kappa'
             | NotConverged _ _ _ => BCNotConverged
             end.
  Proof.
    unfold bc_front.
    destruct (al_solve cfg orc kappa0 (bc_start warm fl scaling x0) lam kappa0) as [[xB lB kB|xB lB kB] eva] eqn:E;
      intros H; inversion H; subst; clear H; eexists; eexists; (split; [reflexivity|]); split; try reflexivity;
      cbn [app]; rewrite <- app_assoc; reflexivity.
  Qed.

  (* the prologue installs the parameters exactly once, after the warm start (if any), and contains no event of the nested solve *)
  Lemma bc_prologue_assigns_once fl scaling x0 :
    exists a b, bc_prologue warm fl scaling x0 = a ++ BCAssignP (use_warm_start fl) :: b
      /\ existsb (@is_bc_assign R) a = false /\ existsb (@is_bc_assign R) b = false
      /\ existsb (@is_bc_warm R) b = false
      /\ existsb (@is_bc_warm R) a = use_warm_start fl
      /\ existsb (@is_bc_al R) (a ++ b) = false.
  Proof.
    unfold bc_prologue. destruct fl as [[] [] []]; cbn [use_warm_start update_precond has_sub_callback app].
    all: first [ exists [BCPrecond (@vmul R NumR scaling x0); BCWarm (@vmul R NumR scaling x0) (warm (@vmul R NumR scaling x0))];
                 eexists; split; [reflexivity|]; repeat split; reflexivity
               | exists [BCWarm (@vmul R NumR scaling x0) (warm (@vmul R NumR scaling x0))];
                 eexists; split; [reflexivity|]; repeat split; reflexivity
               | exists []; eexists; split; [reflexivity|]; repeat split; reflexivity ].
  Qed.

  (* every normal return of the complete front end, any flags, any oracles *)
  Theorem bc_front_return fl scaling isc sc_c kappa0 x0 lam x mult lam' kappa' ev :
    bc_front cfg orc warm fl scaling isc sc_c kappa0 x0 lam = (BCReturned x mult lam' kappa', ev) ->
    1 <= penalty_scaling cfg -> pos kappa0 -> pos sc_c ->
    nonneg lam' /\ nonneg mult /\ mult = @vmul R NumR lam' sc_c
    /\ List.Forall2 (fun k0 k => 0 < k0 <= k) kappa0 kappa'
    /\ (exists xBar it, x = @vmul R NumR isc xBar /\ (it < max_al_iters cfg)%nat
         /\ @norm2 R NumR (gradAL orc it Sub xBar lam' kappa') < tol cfg
         /\ List.Forall (kkt_row (tol cfg)) (zip3 triple (constraint orc it Sub xBar) lam' kappa0))
    /\ exists a b eva xBar,
         ev = BCReset kappa0 :: (a ++ BCAssignP (use_warm_start fl) :: b) ++ [BCNestedAssignP] ++ map (@BCAl R) eva
         /\ existsb (@is_bc_assign R) a = false /\ existsb (@is_bc_assign R) b = false
         /\ existsb (@is_bc_warm R) b = false /\ existsb (@is_bc_al R) (a ++ b) = false
         /\ al_solve cfg orc kappa0 (bc_start warm fl scaling x0) lam kappa0 = (Returned xBar lam' kappa', eva)
         /\ List.Forall (ev_lam_ok) eva.
  Proof.
    intros H Hs Hk Hsc.
    destruct (bc_front_shape _ _ _ _ _ _ _ _ _ H) as (oa & eva & E & Hev & Ho).
    destruct oa as [xB lB kB|xB lB kB]; [|discriminate]. inversion Ho; subst x mult lam' kappa'; clear Ho.
    destruct (al_solve_return_is_KKT _ _ _ _ _ _ _ _ _ _ E) as (HN & L & K & it & Hit & Hg & Hrows).
    split; [exact L|]. split; [apply vmul_nonneg; [exact L | apply pos_nonneg; exact Hsc]|]. split; [reflexivity|]. split.
    { specialize (K Hs (pos_nonneg _ Hk)). clear - K Hk. induction K as [|k0 k a b Hkk Hab IH]; [constructor|].
      inversion Hk; subst. constructor; [lra | apply IH; assumption]. }
    split.
    { exists xB, it. repeat split; assumption. }
    destruct (bc_prologue_assigns_once fl scaling x0) as (a & b & Hp & A1 & A2 & A3 & _ & A4).
    exists a, b, eva, xB. rewrite <- Hp. split; [exact Hev|]. repeat (split; [assumption|]).
    unfold al_solve in E.
    destruct (loop_invariants cfg orc kappa0 _ _ _ _ _ E HN (or_introl eq_refl)) as (V & _). exact V.
  Qed.

  (* not converged: the raise of the nested solve is the only other exit; same trace shape *)
  Theorem bc_front_exits fl scaling isc sc_c kappa0 x0 lam o ev :
    bc_front cfg orc warm fl scaling isc sc_c kappa0 x0 lam = (o, ev) ->
    match o with
    | BCReturned x mult lam' kappa' => exists xBar eva,
        al_solve cfg orc kappa0 (bc_start warm fl scaling x0) lam kappa0 = (Returned xBar lam' kappa', eva)
        /\ x = @vmul R NumR isc xBar /\ mult = @vmul R NumR lam' sc_c
    | BCNotConverged => exists xBar lam' kappa' eva,
        al_solve cfg orc kappa0 (bc_start warm fl scaling x0) lam kappa0 = (NotConverged xBar lam' kappa', eva)
    end.
  Proof.
    intros H. destruct (bc_front_shape _ _ _ _ _ _ _ _ _ H) as (oa & eva & E & _ & Ho).
    destruct oa as [xB lB kB|xB lB kB]; subst o.
    - exists xB, eva. repeat split. exact E.
    - exists xB, lB, kB, eva. exact E.
  Qed.

  (* the older front-end model bc_solve (dxBar an input) computes the same outcome and the same outer-loop trace, with dxBar := the
     warm-start oracle's answer under useWarmStart, the zero vector otherwise -- so every theorem about bc_solve transfers *)
  Lemma vadd_zero (xs : list R) : @vadd R NumR xs (map (fun _ => 0) xs) = xs.
  Proof. unfold vadd. induction xs as [|a xs IH]; cbn [map map2]; [reflexivity|]. rewrite IH. f_equal. unfold_num. lra. Qed.

  Definition bc_dx (fl : bc_flags) (xs : list R) : list R := if use_warm_start fl then warm xs else map (fun _ => 0) xs.

  Theorem bc_front_refines_bc_solve fl scaling isc sc_c kappa0 x0 lam :
    let dx := bc_dx fl (@vmul R NumR scaling x0) in
    fst (bc_front cfg orc warm fl scaling isc sc_c kappa0 x0 lam) = fst (bc_solve cfg orc scaling isc sc_c kappa0 x0 dx lam)
    /\ snd (bc_front cfg orc warm fl scaling isc sc_c kappa0 x0 lam)
       = BCReset kappa0 :: bc_prologue warm fl scaling x0 ++ [BCNestedAssignP]
           ++ map (@BCAl R) (snd (bc_solve cfg orc scaling isc sc_c kappa0 x0 dx lam)).
  Proof.
    cbv zeta. unfold bc_front, bc_solve.
    assert (Hst : bc_start warm fl scaling x0 = @vadd R NumR (@vmul R NumR scaling x0) (bc_dx fl (@vmul R NumR scaling x0))).
    { unfold bc_start, bc_dx. destruct (use_warm_start fl); [reflexivity | symmetry; apply vadd_zero]. }
    rewrite <- Hst.
    destruct (al_solve cfg orc kappa0 (bc_start warm fl scaling x0) lam kappa0) as [[xB lB kB|xB lB kB] eva];
      cbn [fst snd]; (split; [reflexivity|]); cbn [app]; rewrite <- app_assoc; reflexivity.
  Qed.
End BC.


(* non-vacuity: one bound x >= 0 (kappa0 = 5), all flags on, the sub-problem solver answers [1] (inactive bound), zero AL gradient:
   the first outer iteration passes the termination test (FB 1 0 5 = 0) and the front end returns invScaling * xBar *)
Definition bcx_cfg : @settings R :=
  {| penalty_scaling := 4; target_decrease := 3 / 4; use_second_order := false; newton_only := false;
     n_low_order := 3; max_al_iters := 2; tol := 1; sub_tol := 1 |}.
Definition bcx_orc : @oracles R :=
  {| sub_solve := fun _ _ _ _ => ([1], true); constraint := fun _ _ x => x; gradAL := fun _ _ _ _ _ => [0];
     lin_update := fun _ x l _ => (x, l, false) |}.
Example bc_front_nonvacuous : exists ev,
  bc_front bcx_cfg bcx_orc (fun _ => [1]) {| use_warm_start := true; update_precond := true; has_sub_callback := true |}
           [2] [1 / 2] [2] [5] [0] [0] = (BCReturned [1 / 2] [0] [0] [5], ev).
Proof.
  unfold bc_front, al_solve, bcx_cfg. cbn [max_al_iters loop iteration use_second_order newton_only andb orb].
  unfold sub_step. cbn [sub_solve bcx_orc constraint gradAL sx slam skap sncp serr init_state].
  unfold total_residual, lam_update, ncp_of. cbn [zip3 map map2 app gradAL constraint bcx_orc existsb length].
  assert (L : @sub_lam_update R NumR 0 5 1 = 0).
  { rewrite sub_lam_update_closed. unfold Rmax. destruct (Rle_dec (0 - 5 * 1) 0); lra. }
  rewrite L.
  assert (F : @fischer_burmeister R NumR 1 0 5 = 0) by (apply fb_zero_iff; repeat split; lra).
  rewrite F.
  assert (P : @sub_poor_progress R NumR (nabs 0) (nmul c_huge nunit) (3 / 4) 1 (nZ (Z.of_nat 1)) = false).
  { apply not_true_is_false. intros H. apply poor_progress_generated in H. unfold c_huge in H. revert H. unfold_num. q2r.
    rewrite Rabs_R0. change (IZR (Z.of_nat 1)) with 1. rewrite sqrt_1. intros H.
    match type of H with Rmax ?a ?b < _ => pose proof (Rmax_r a b) as Hm end. lra. }
  cbn [target_decrease tol penalty_scaling]. rewrite !P. cbn [orb andb].
  assert (N : @norm2 R NumR [0; 0] = 0).
  { unfold norm2. cbn [map]. unfold_num. cbn [nsum fold_right]. unfold_num.
    match goal with |- sqrt ?a = 0 => replace a with 0; [apply sqrt_0 | q2r; lra] end. }
  rewrite N.
  assert (T : @nltb R NumR 0 1 = true).
  { unfold_num. apply Rltb_true. lra. }
  rewrite T. eexists. f_equal. f_equal.
  - unfold vmul. cbn [map2]. unfold_num. f_equal. lra.
  - unfold vmul. cbn [map2]. unfold_num. f_equal. lra.
Qed.
