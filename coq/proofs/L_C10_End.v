(* C10: the implicit-function derivative of the internal root solve AT AN END OF THE BRACKET.
   find_root(f, x0, bracket, settings) = custom_root(f, x0, rtsafe_(., ., bracket, settings), tangent_solve): the bracket and the initial
   guess only steer the iteration.  The derivative theorem (L_C10.scalar_ift) has NO hypothesis that the root is interior to the bracket --
   the bracket does not occur in it at all.  This file states that explicitly: when the root sits on an end of the bracket (rate-independent
   perfect plasticity: the flow stress is constant, the residual is affine in eqps and its root IS ub = eqpsOld + (trialMises - Y)/(3 mu),
   which rtsafe_ returns without iterating) the derivative of the root is still -b/a; it is NOT zero when the residual depends on the
   parameter (b <> 0), so a rule that hands back the end point with its sensitivity cut (stop_gradient on the bracket) is wrong; and it
   coincides with the derivative of the end-point expression whenever the root stays on that end for nearby parameters (which is why handing
   back the differentiable end point itself would have been harmless). *)
From Coq Require Import Reals Lra.
From Coquelicot Require Import Coquelicot.
From OV.proofs Require Import L_C10.
Local Open Scope R_scope.

Lemma scalar_ift_at_bracket_end (F : R -> R -> R) (x lb ub : R -> R) (p0 a b dx : R) :
  locally p0 (fun p => F (x p) p = 0) ->
  filterdiff (fun xp : R * R => F (fst xp) (snd xp)) (locally (x p0, p0)) (fun h => a * fst h + b * snd h) ->
  is_derive x p0 dx -> a <> 0 ->
  (x p0 = lb p0 \/ x p0 = ub p0) ->
  dx = (- b) / a
  /\ (b <> 0 -> dx <> 0)
  /\ (forall (e : R -> R) (de : R), (e = lb \/ e = ub) -> locally p0 (fun p => x p = e p) -> is_derive e p0 de -> de = (- b) / a).
Proof.
  intros Hz HF Hx Ha _.
  destruct (scalar_ift_with_tangent_solve F x p0 a b dx Hz HF Hx Ha) as [E _].
  split; [exact E|]. split.
  - intros Hb. rewrite E. intros H0.
    apply Hb. apply Rmult_eq_compat_r with (r := a) in H0.
    unfold Rdiv in H0. rewrite Rmult_assoc, Rinv_l, Rmult_1_r, Rmult_0_l in H0 by exact Ha. lra.
  - intros e de _ Hloc He.
    assert (Hx' : is_derive x p0 de).
    { apply is_derive_ext_loc with (f := e); [|exact He].
      revert Hloc. apply filter_imp. intros p Hp. symmetry. exact Hp. }
    rewrite <- E. apply is_derive_unique in Hx'. apply is_derive_unique in Hx. rewrite Hx in Hx'. symmetry. exact Hx'.
Qed.

(* non-vacuity, on the shape of the perfect-plasticity residual: F(x, p) = x - p on the bracket [0, p]; the root x(p) = p is the upper end *)
Lemma bracket_end_nonvacuous :
  exists (F : R -> R -> R) (x lb ub : R -> R) (p0 a b dx : R),
    locally p0 (fun p => F (x p) p = 0)
    /\ filterdiff (fun xp : R * R => F (fst xp) (snd xp)) (locally (x p0, p0)) (fun h => a * fst h + b * snd h)
    /\ is_derive x p0 dx /\ a <> 0 /\ x p0 = ub p0 /\ lb p0 < ub p0 /\ b <> 0
    /\ locally p0 (fun p => x p = ub p) /\ is_derive ub p0 dx.
Proof.
  exists (fun x p : R => x - p). exists (fun p : R => p). exists (fun _ : R => 0). exists (fun p : R => p).
  exists 1. exists 1. exists (-1). exists 1.
  split; [|split; [|split; [|split; [|split; [|split; [|split; [|split]]]]]]].
  - apply filter_forall. intros p. ring.
  - apply filterdiff_ext_lin with (fun h : R * R => minus (fst h) (snd h)).
    + apply (filterdiff_minus_fct (F := locally (1, 1)) (fun xy : R * R => fst xy) (fun xy : R * R => snd xy));
        apply filterdiff_linear; [apply is_linear_fst|apply is_linear_snd].
    + intros [h1 h2]. simpl. unfold minus, plus, opp; simpl. ring.
  - apply (is_derive_id (K := R_AbsRing)).
  - lra.
  - reflexivity.
  - lra.
  - lra.
  - apply filter_forall. intros p. reflexivity.
  - apply (is_derive_id (K := R_AbsRing)).
Qed.
