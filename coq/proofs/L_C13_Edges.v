(* C13 -- create_edges: each undirected edge once, correct left/right adjacency *)
From Coq Require Import List Arith Bool Lia Permutation.
From OV.model Require Import M_C13_Edges.
Import ListNotations.

Lemma face_eqb_eq f g : face_eqb f g = true <-> f = g.
Proof.
  destruct f as [a b], g as [c d]. unfold face_eqb. cbn [fst snd]. rewrite andb_true_iff, !Nat.eqb_eq.
  split; [intros [-> ->]; reflexivity | intros H; inversion H; auto].
Qed.

Lemma existsb_face k seen : existsb (face_eqb k) seen = true <-> In k seen.
Proof.
  rewrite existsb_exists. split.
  - intros [x [Hx E]]. apply face_eqb_eq in E. now subst.
  - intros H. exists k. split; [exact H | now apply face_eqb_eq].
Qed.

(* ---- first occurrences *)
Lemma firsts_spec : forall ks seen s,
  (forall i k, In (i, k) (firsts seen s ks) -> s <= i /\ nth_error ks (i - s) = Some k /\ ~ In k seen)
  /\ NoDup (map snd (firsts seen s ks))
  /\ (forall k, In k ks -> In k seen \/ In k (map snd (firsts seen s ks))).
Proof.
  induction ks as [| k0 ks IH]; intros seen s; cbn [firsts].
  - split; [intros ? ? [] |]. split; [constructor | intros ? []].
  - destruct (existsb (face_eqb k0) seen) eqn:E.
    + apply existsb_face in E. destruct (IH seen (S s)) as (H1 & H2 & H3). split; [| split].
      * intros i k Hin. destruct (H1 _ _ Hin) as (Ha & Hb & Hc). split; [lia |]. split; [| exact Hc].
        replace (i - s) with (S (i - S s)) by lia. exact Hb.
      * exact H2.
      * intros k [<- | Hk]; [now left | now apply H3].
    + assert (Hn : ~ In k0 seen) by (intros H; apply existsb_face in H; congruence).
      destruct (IH (k0 :: seen) (S s)) as (H1 & H2 & H3). split; [| split].
      * intros i k [Heq | Hin].
        -- inversion Heq; subst. split; [lia |]. split; [| exact Hn]. now rewrite Nat.sub_diag.
        -- destruct (H1 _ _ Hin) as (Ha & Hb & Hc). split; [lia |]. split.
           ++ replace (i - s) with (S (i - S s)) by lia. exact Hb.
           ++ intros Hs. apply Hc. now right.
      * cbn [map snd]. constructor; [| exact H2]. intros Hin. apply in_map_iff in Hin.
        destruct Hin as [[i k] [Hk Hin]]. cbn [snd] in Hk. subst k. destruct (H1 _ _ Hin) as (_ & _ & Hc). apply Hc. now left.
      * intros k [<- | Hk]; [right; now left |]. destruct (H3 _ Hk) as [[<- | Hs] | Hr]; [right; now left | now left | right; now right].
Qed.

(* ---- sorting is a permutation *)
Lemma insert_by_perm x l : Permutation (insert_by x l) (x :: l).
Proof.
  induction l as [| y l IH]; cbn [insert_by]; [reflexivity |].
  destruct (key_ltb (snd x) (snd y)); [reflexivity |]. rewrite IH. apply perm_swap.
Qed.
Lemma sort_by_perm l : Permutation (sort_by l) l.
Proof. induction l as [| x l IH]; cbn [sort_by fold_right]; [reflexivity |]. fold (sort_by l). rewrite insert_by_perm. now constructor. Qed.

(* ---- the stacked face list *)
Lemma div_mod_stack nT t p : t < nT -> (t + p * nT) / nT = p /\ (t + p * nT) mod nT = t.
Proof.
  intros H. split.
  - rewrite Nat.div_add by lia. rewrite Nat.div_small by lia. lia.
  - rewrite Nat.mod_add by lia. now apply Nat.mod_small.
Qed.

Lemma all_faces_length conns : length (all_faces conns) = 3 * length conns.
Proof. unfold all_faces. rewrite !app_length, !map_length. lia. Qed.

Lemma all_faces_nth conns t p : t < length conns -> p < 3 ->
  nth_error (all_faces conns) (t + p * length conns) = Some (side (nth t conns []) p).
Proof.
  intros Ht Hp. unfold all_faces. set (nT := length conns).
  assert (Hm : forall q, nth_error (map (fun c => side c q) conns) t = Some (side (nth t conns []) q)).
  { intros q. rewrite nth_error_map, (nth_error_nth' conns [] Ht). reflexivity. }
  destruct p as [| [| [| p]]]; [| | | lia].
  - rewrite Nat.mul_0_l, Nat.add_0_r. rewrite nth_error_app1 by (now rewrite map_length). apply Hm.
  - rewrite nth_error_app2 by (rewrite map_length; fold nT; lia). rewrite map_length. fold nT.
    replace (t + 1 * nT - nT) with t by lia. rewrite nth_error_app1 by (now rewrite map_length). apply Hm.
  - rewrite nth_error_app2 by (rewrite map_length; fold nT; lia). rewrite map_length. fold nT.
    rewrite nth_error_app2 by (rewrite map_length; fold nT; lia). rewrite map_length. fold nT.
    replace (t + 2 * nT - nT - nT) with t by lia. apply Hm.
Qed.

Lemma index_decompose nT i : i < 3 * nT -> i mod nT < nT /\ i / nT < 3 /\ i = i mod nT + (i / nT) * nT.
Proof.
  intros H. assert (nT <> 0) by lia. split; [now apply Nat.mod_upper_bound |]. split.
  - apply Nat.div_lt_upper_bound; lia.
  - pose proof (Nat.div_mod i nT ltac:(assumption)). lia.
Qed.

Lemma all_faces_at conns i f : nth_error (all_faces conns) i = Some f ->
  holds conns (i mod length conns) (i / length conns) f.
Proof.
  intros H. assert (Hi : i < 3 * length conns).
  { rewrite <- all_faces_length. apply nth_error_Some. congruence. }
  destruct (index_decompose _ _ Hi) as (Ht & Hp & E). unfold holds. split; [exact Ht |]. split; [exact Hp |].
  rewrite E in H at 1. rewrite all_faces_nth in H by assumption. congruence.
Qed.

Lemma holds_in_faces conns t p f : holds conns t p f -> nth_error (all_faces conns) (t + p * length conns) = Some f.
Proof. intros (Ht & Hp & <-). now apply all_faces_nth. Qed.

(* ---- searching the flipped pair *)
Lemma find_index_spec f l : match find_index f l with Some j => nth_error l j = Some f | None => ~ In f l end.
Proof.
  induction l as [| g l IH]; cbn [find_index]; [intros [] |].
  destruct (face_eqb f g) eqn:E.
  - apply face_eqb_eq in E. now subst.
  - destruct (find_index f l) as [j |]; cbn [option_map]; [exact IH |].
    intros [-> | H]; [| now apply IH]. assert (face_eqb f f = true) by now apply face_eqb_eq. congruence.
Qed.

(* ---- the theorems *)
Section Edges.
  Variable conns : list (list nat).
  Let faces := all_faces conns.
  Let nT := length conns.

  Lemma unique_index_spec :
    (forall i, In i (unique_index conns) -> i < 3 * nT)
    /\ NoDup (map (fun i => key (nth i faces (0, 0))) (unique_index conns))
    /\ (forall f, In f faces -> exists i, In i (unique_index conns) /\ key (nth i faces (0, 0)) = key f).
  Proof.
    unfold unique_index. fold faces.
    destruct (firsts_spec (map key faces) [] 0) as (H1 & H2 & H3).
    pose proof (sort_by_perm (firsts [] 0 (map key faces))) as P. set (srt := sort_by _) in *. set (fs := firsts _ _ _) in *.
    assert (Hk : forall i k, In (i, k) srt -> i < 3 * nT /\ key (nth i faces (0, 0)) = k).
    { intros i k Hin. apply (Permutation_in _ P) in Hin. destruct (H1 _ _ Hin) as (_ & Hn & _).
      rewrite Nat.sub_0_r in Hn. rewrite nth_error_map in Hn. destruct (nth_error faces i) as [f |] eqn:E; [| discriminate].
      cbn [option_map] in Hn. inversion Hn. split.
      - unfold nT. rewrite <- all_faces_length. apply nth_error_Some. fold faces. congruence.
      - f_equal. now apply nth_error_nth. }
    split; [| split].
    - intros i Hi. apply in_map_iff in Hi. destruct Hi as [[i' k] [<- Hin]]. now apply (Hk _ _ Hin).
    - rewrite map_map. assert (E : map (fun x => key (nth (fst x) faces (0, 0))) srt = map snd srt).
      { apply map_ext_in. intros [i k] Hin. cbn [fst snd]. now apply (Hk _ _ Hin). }
      rewrite E. eapply Permutation_NoDup; [| exact H2]. apply Permutation_map. now symmetry.
    - intros f Hf. destruct (H3 (key f) (in_map key _ _ Hf)) as [[] | Hin].
      apply in_map_iff in Hin. destruct Hin as [[i k] [Hk' Hin]]. cbn [snd] in Hk'. subst k.
      apply (Permutation_in _ (Permutation_sym P)) in Hin. exists i. split.
      + apply in_map_iff. exists (i, key f). split; [reflexivity | exact Hin].
      + now apply (Hk _ _ Hin).
  Qed.

  (* every undirected edge of the triangulation occurs exactly once among the rows, and every row is an edge *)
  Lemma edges_once :
    NoDup (map edge_key (create_edges conns))
    /\ (forall f, In f faces -> In (key f) (map edge_key (create_edges conns)))
    /\ (forall r, In r (create_edges conns) -> In (e_a r, e_b r) faces).
  Proof.
    destruct unique_index_spec as (H1 & H2 & H3). unfold create_edges. split; [| split].
    - rewrite map_map. unfold edge_key, row_of. cbn [e_a e_b]. fold faces.
      erewrite map_ext; [exact H2 |]. intros i. cbn beta. now destruct (nth i faces (0, 0)).
    - intros f Hf. destruct (H3 f Hf) as [i [Hi E]]. rewrite map_map. apply in_map_iff. exists i. split; [| exact Hi].
      unfold edge_key, row_of. cbn [e_a e_b]. fold faces. rewrite <- E. now destruct (nth i faces (0, 0)).
    - intros r Hr. apply in_map_iff in Hr. destruct Hr as [i [<- Hi]]. unfold row_of. cbn [e_a e_b]. fold faces.
      replace (fst (nth i faces (0, 0)), snd (nth i faces (0, 0))) with (nth i faces (0, 0)) by (now destruct (nth i faces (0, 0))).
      apply nth_In. unfold faces. rewrite all_faces_length. now apply H1.
  Qed.

  (* left element: it holds the row's directed pair on the recorded side; right element: it holds the reversed pair,
     or no triangle does *)
  Lemma edges_adjacency r : In r (create_edges conns) ->
    holds conns (e_tl r) (e_pl r) (e_a r, e_b r)
    /\ match e_right r with
       | Some (t, p) => holds conns t p (e_b r, e_a r)
       | None => forall t p, ~ holds conns t p (e_b r, e_a r)
       end.
  Proof.
    intros Hr. destruct unique_index_spec as (H1 & _ & _). unfold create_edges in Hr.
    apply in_map_iff in Hr. destruct Hr as [i [<- Hi]]. specialize (H1 _ Hi).
    assert (Hn : nth_error faces i = Some (nth i faces (0, 0))).
    { apply nth_error_nth'. unfold faces. now rewrite all_faces_length. }
    unfold row_of. cbn [e_a e_b e_tl e_pl e_right]. fold faces. fold nT. set (f := nth i faces (0, 0)) in *.
    split.
    - replace (fst f, snd f) with f by (now destruct f). now apply all_faces_at.
    - pose proof (find_index_spec (flip f) faces) as Hs. unfold flip in *.
      destruct (find_index (snd f, fst f) faces) as [j |].
      + now apply all_faces_at.
      + intros t p Hh. apply Hs. apply holds_in_faces in Hh. now apply nth_error_In in Hh.
  Qed.

  (* when no directed pair occurs twice (consistently oriented manifold triangulation) the holders are unique *)
  Lemma holder_unique t p t' p' f : NoDup faces -> holds conns t p f -> holds conns t' p' f -> t = t' /\ p = p'.
  Proof.
    intros Hnd H H'. pose proof (holds_in_faces _ _ _ _ H) as E. pose proof (holds_in_faces _ _ _ _ H') as E'.
    destruct H as (Ht & Hp & _), H' as (Ht' & Hp' & _).
    assert (Hi : t + p * nT = t' + p' * nT).
    { apply (proj1 (NoDup_nth_error faces) Hnd); [apply nth_error_Some; unfold faces, nT in *; congruence |].
      unfold faces, nT in *. congruence. }
    destruct (div_mod_stack nT t p Ht) as [D M]. destruct (div_mod_stack nT t' p' Ht') as [D' M'].
    split; [rewrite <- M, <- M' | rewrite <- D, <- D']; unfold nT in *; now rewrite Hi.
  Qed.
End Edges.
