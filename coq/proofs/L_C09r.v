(* C09, rate sensitivity: the power-law kinetic potential regenerated from Hardening.power_law_rate_sensitivity, its derivative
   (the overstress k_flow of the scalar model), monotonicity, the one-sided behaviour at eqps_old (infinite slope of the
   overstress, zero slope of the potential), and the consequences for the rate-sensitive update: irreversibility, yield
   consistency, minimality of the incremental potential over eqps >= eqps_old. *)
From Coq Require Import Reals Lra Lia ZArith QArith Bool List Psatz.
From Coquelicot Require Import Coquelicot.
From OV.base Require Import Num.
From OV.gen Require Import Gen_ScalarRootFind Gen_Hardening Gen_TensorMath Gen_J2Flow Gen_J2Elastic.
From OV.model Require Import M_C17 M_C09.
From OV.proofs Require Import L_C17 L_C09.
Import ListNotations.
Local Open Scope R_scope.

Section RateTerm.
  Variables Sr m ed0 eo dt : R.
  Hypothesis Hm : 0 < m.
  Hypothesis Hdt : 0 < dt.
  Hypothesis Hed : 0 < ed0.

  Definition Kr (e : R) : R := @k_energy R NumR (Rate Sr m ed0) e eo dt.
  Definition kf (e : R) : R := @k_flow R NumR (Rate Sr m ed0) e eo dt.
  Definition ks (e : R) : R := @k_slope R NumR (Rate Sr m ed0) e eo dt.
  Definition urate (e : R) : R := (e - eo) / dt / ed0.

  Lemma urate_pos e : eo < e -> 0 < urate e.
  Proof. intros H. unfold urate. apply Rdiv_lt_0_compat; [apply Rdiv_lt_0_compat|]; lra. Qed.
  Lemma urate_alt e : urate e = (e - eo) * / (dt * ed0).
  Proof. unfold urate. field. lra. Qed.

  (* closed forms for eqps > eqps_old *)
  Lemma Kr_pos e : eo < e -> Kr e = m / (m + 1) * Sr * ed0 * dt * exp ((m + 1) / m * ln (urate e)).
  Proof.
    intros H. pose proof (urate_pos e H) as Hu. unfold Kr, k_energy, power_law_rate_sensitivity, npowr. unfold_num. q2r. fold (urate e).
    replace (Reqb (urate e) 0) with false by (symmetry; apply Reqb_false; lra). reflexivity.
  Qed.
  Lemma kf_pos e : eo < e -> kf e = Sr * exp (1 / m * ln (urate e)).
  Proof.
    intros H. pose proof (urate_pos e H) as Hu. unfold kf, k_flow, npowr. unfold_num. q2r. fold (urate e).
    replace (Reqb (urate e) 0) with false by (symmetry; apply Reqb_false; lra). reflexivity.
  Qed.
  Lemma ks_pos e : eo < e -> ks e = Sr / (m * dt * ed0) * exp ((1 / m - 1) * ln (urate e)).
  Proof.
    intros H. pose proof (urate_pos e H) as Hu. unfold ks, k_slope, npowr. unfold_num. q2r. fold (urate e).
    replace (Reqb (urate e) 0) with false by (symmetry; apply Reqb_false; lra). reflexivity.
  Qed.
  Lemma Kr_old : Kr eo = 0.
  Proof.
    unfold Kr, k_energy, power_law_rate_sensitivity, npowr. unfold_num. q2r.
    replace (Reqb ((eo - eo) / dt / ed0) 0) with true by (symmetry; apply Reqb_true; unfold Rdiv; ring). ring.
  Qed.
  Lemma kf_old : kf eo = 0.
  Proof.
    unfold kf, k_flow, npowr. unfold_num. q2r.
    replace (Reqb ((eo - eo) / dt / ed0) 0) with true by (symmetry; apply Reqb_true; unfold Rdiv; ring). ring.
  Qed.

  Lemma ball_pos e x : eo < e -> Rabs (x - e) < (e - eo) / 2 -> eo < x.
  Proof. intros He Hx. apply Rabs_def2 in Hx. lra. Qed.

  (* the overstress is the derivative of the regenerated kinetic potential for eqps > eqps_old *)
  Lemma rate_flow_derive e : eo < e -> is_derive Kr e (kf e).
  Proof.
    intros He. pose proof (urate_pos e He) as Hu.
    apply (is_derive_ext_loc (fun x => m / (m + 1) * Sr * ed0 * dt * exp ((m + 1) / m * ln ((x - eo) * / (dt * ed0))))).
    - assert (Hd : 0 < (e - eo) / 2) by lra.
      exists (mkposreal _ Hd). intros x Hx. unfold ball in Hx; simpl in Hx. unfold AbsRing_ball, abs, minus, plus, opp in Hx; simpl in Hx.
      pose proof (ball_pos e x He Hx) as Hxe. rewrite (Kr_pos x Hxe), urate_alt. reflexivity.
    - rewrite (kf_pos e He). rewrite urate_alt in *.
      auto_derive; [exact Hu|].
      unfold Rdiv. change (e + - eo) with (e - eo).
      replace ((m + 1) * / m * ln ((e - eo) * / (dt * ed0))) with (ln ((e - eo) * / (dt * ed0)) + 1 * / m * ln ((e - eo) * / (dt * ed0))) by (field; lra).
      rewrite exp_plus, exp_ln by exact Hu.
      field. repeat split; lra.
  Qed.

  (* ... and the slope handed to the Newton step is the derivative of the overstress *)
  Lemma rate_slope_derive e : eo < e -> is_derive kf e (ks e).
  Proof.
    intros He. pose proof (urate_pos e He) as Hu.
    apply (is_derive_ext_loc (fun x => Sr * exp (1 / m * ln ((x - eo) * / (dt * ed0))))).
    - assert (Hd : 0 < (e - eo) / 2) by lra.
      exists (mkposreal _ Hd). intros x Hx. unfold ball in Hx; simpl in Hx. unfold AbsRing_ball, abs, minus, plus, opp in Hx; simpl in Hx.
      pose proof (ball_pos e x He Hx) as Hxe. rewrite (kf_pos x Hxe), urate_alt. reflexivity.
    - rewrite (ks_pos e He). rewrite urate_alt in *.
      auto_derive; [exact Hu|].
      unfold Rdiv. change (e + - eo) with (e - eo).
      replace ((1 * / m - 1) * ln ((e - eo) * / (dt * ed0))) with (1 * / m * ln ((e - eo) * / (dt * ed0)) + - ln ((e - eo) * / (dt * ed0))) by ring.
      rewrite exp_plus, exp_Ropp, exp_ln by exact Hu.
      field. repeat split; lra.
  Qed.

  (* the overstress vanishes at eqps_old, is non-negative and non-decreasing beyond it *)
  Lemma rate_flow_nonneg e : 0 <= Sr -> eo <= e -> 0 <= kf e.
  Proof.
    intros HS [He| <-]; [|rewrite kf_old; lra].
    rewrite (kf_pos e He). apply Rmult_le_pos; [exact HS|left; apply exp_pos].
  Qed.
  Lemma rate_flow_monotone x y : 0 <= Sr -> eo <= x -> x <= y -> kf x <= kf y.
  Proof.
    intros HS [Hx| <-] Hxy.
    - assert (Hy : eo < y) by lra. rewrite (kf_pos x Hx), (kf_pos y Hy).
      apply Rmult_le_compat_l; [exact HS|].
      destruct (Req_dec x y) as [->|Hne]; [lra|]. left. apply exp_increasing.
      apply Rmult_lt_compat_l; [apply Rdiv_lt_0_compat; lra|]. apply ln_increasing; [apply urate_pos; exact Hx|].
      rewrite !urate_alt. apply Rmult_lt_compat_r; [apply Rinv_0_lt_compat; nra|lra].
    - rewrite kf_old. apply rate_flow_nonneg; assumption.
  Qed.
  Lemma rate_flow_strict x y : 0 < Sr -> eo <= x -> x < y -> kf x < kf y.
  Proof.
    intros HS [Hx| <-] Hxy.
    - assert (Hy : eo < y) by lra. rewrite (kf_pos x Hx), (kf_pos y Hy).
      apply Rmult_lt_compat_l; [exact HS|]. apply exp_increasing.
      apply Rmult_lt_compat_l; [apply Rdiv_lt_0_compat; lra|]. apply ln_increasing; [apply urate_pos; exact Hx|].
      rewrite !urate_alt. apply Rmult_lt_compat_r; [apply Rinv_0_lt_compat; nra|lra].
    - rewrite kf_old, (kf_pos y Hxy). apply Rmult_lt_0_compat; [exact HS|apply exp_pos].
  Qed.

  (* potential / (eqps - eqps_old) = m/(m+1) * overstress *)
  Lemma Kr_quotient e : eo < e -> Kr e = m / (m + 1) * (e - eo) * kf e.
  Proof.
    intros He. pose proof (urate_pos e He) as Hu. rewrite (Kr_pos e He), (kf_pos e He).
    replace ((m + 1) / m * ln (urate e)) with (ln (urate e) + 1 / m * ln (urate e)) by (field; lra).
    rewrite exp_plus, exp_ln by exact Hu. rewrite urate_alt. field. lra.
  Qed.

  (* the overstress tends to 0 at eqps_old from the right (so it is right-continuous there, although its slope is unbounded) *)
  Lemma rate_flow_right_limit eps : 0 < eps -> exists delta, 0 < delta /\ forall e, eo < e < eo + delta -> Rabs (kf e) < eps.
  Proof.
    intros Heps. set (ep := eps / (Rabs Sr + 1)).
    assert (Hp : 0 < Rabs Sr + 1) by (pose proof (Rabs_pos Sr); lra).
    assert (Hep : 0 < ep) by (apply Rdiv_lt_0_compat; lra).
    exists (dt * ed0 * exp (m * ln ep)). split; [apply Rmult_lt_0_compat; [nra|apply exp_pos]|].
    intros e (He & Hd). pose proof (urate_pos e He) as Hu.
    assert (Hul : urate e < exp (m * ln ep)).
    { rewrite urate_alt. apply (Rmult_lt_reg_r (dt * ed0)); [nra|]. replace ((e - eo) * / (dt * ed0) * (dt * ed0)) with (e - eo) by (field; lra). lra. }
    assert (Hl : 1 / m * ln (urate e) < ln ep).
    { assert (ln (urate e) < m * ln ep) by (rewrite <- (ln_exp (m * ln ep)); apply ln_increasing; assumption).
      apply (Rmult_lt_reg_l m); [exact Hm|]. replace (m * (1 / m * ln (urate e))) with (ln (urate e)) by (field; lra). exact H. }
    rewrite (kf_pos e He), Rabs_mult, (Rabs_pos_eq (exp _)) by (left; apply exp_pos).
    assert (Hx : exp (1 / m * ln (urate e)) < ep) by (rewrite <- (exp_ln ep Hep); apply exp_increasing; exact Hl).
    assert (Hs : Rabs Sr * exp (1 / m * ln (urate e)) <= Rabs Sr * ep) by (apply Rmult_le_compat_l; [apply Rabs_pos|lra]).
    assert (Rabs Sr * ep < eps); [|lra].
    unfold ep. apply (Rmult_lt_reg_r (Rabs Sr + 1)); [exact Hp|].
    replace (Rabs Sr * (eps / (Rabs Sr + 1)) * (Rabs Sr + 1)) with (Rabs Sr * eps) by (field; lra). nra.
  Qed.

  (* one-sided derivative of the kinetic potential at eqps_old: the difference quotient tends to k_flow(eqps_old) = 0 *)
  Lemma rate_right_derivative_at_old eps : 0 < eps ->
    exists delta, 0 < delta /\ forall e, eo < e < eo + delta -> Rabs ((Kr e - Kr eo) / (e - eo) - kf eo) < eps.
  Proof.
    intros Heps. destruct (rate_flow_right_limit eps Heps) as (delta & Hd & H). exists delta. split; [exact Hd|].
    intros e He. destruct He as (He1 & He2). rewrite Kr_old, kf_old, (Kr_quotient e He1).
    replace ((m / (m + 1) * (e - eo) * kf e - 0) / (e - eo) - 0) with (m / (m + 1) * kf e) by (field; lra).
    rewrite Rabs_mult. pose proof (H e (conj He1 He2)) as Hk.
    assert (Hq : 0 < m / (m + 1) < 1).
    { split; [apply Rdiv_lt_0_compat; lra|]. apply (Rmult_lt_reg_r (m + 1)); [lra|]. replace (m / (m + 1) * (m + 1)) with m by (field; lra). lra. }
    rewrite (Rabs_pos_eq (m / (m + 1))) by lra. pose proof (Rabs_pos (kf e)). nra.
  Qed.

  Lemma rate_potential_right_continuous eps : 0 < eps ->
    exists delta, 0 < delta /\ forall e, eo < e < eo + delta -> Rabs (Kr e - Kr eo) < eps.
  Proof.
    intros Heps. destruct (rate_flow_right_limit eps Heps) as (delta & Hd & H).
    exists (Rmin delta 1). split; [apply Rmin_pos; lra|].
    intros e (He1 & He2). pose proof (Rmin_l delta 1). pose proof (Rmin_r delta 1).
    rewrite Kr_old, Rminus_0_r, (Kr_quotient e He1), !Rabs_mult.
    assert (Hk : Rabs (kf e) < eps) by (apply H; lra).
    assert (Hq : 0 < m / (m + 1) < 1).
    { split; [apply Rdiv_lt_0_compat; lra|]. apply (Rmult_lt_reg_r (m + 1)); [lra|]. replace (m / (m + 1) * (m + 1)) with m by (field; lra). lra. }
    rewrite (Rabs_pos_eq (m / (m + 1))) by lra. rewrite (Rabs_pos_eq (e - eo)) by lra.
    pose proof (Rabs_pos (kf e)).
    assert (m / (m + 1) * (e - eo) <= 1) by nra. nra.
  Qed.
End RateTerm.

(* ---------- minimality when the potential is differentiable only on the OPEN half line (lo, oo) and right-continuous at lo
   (the rate-sensitivity potential is not differentiable at eqps_old in the model: it is undefined / NaN below eqps_old) ---------- *)
Lemma stationary_min_open (P r : R -> R) (lo es delta : R) :
  (forall x, lo < x -> is_derive P x (r x)) ->
  (forall eps, 0 < eps -> exists d, 0 < d /\ forall x, lo < x < lo + d -> Rabs (P x - P lo) < eps) ->
  (forall x y, lo <= x -> x <= y -> r x <= r y) -> lo <= es ->
  Rabs (r es) <= delta -> forall e, lo <= e -> P es - delta * Rabs (e - es) <= P e.
Proof.
  intros HD HC Hm Hes Hr e He.
  set (Pc := fun x => P (Rmax x lo)).
  assert (Hpc : forall x, lo <= x -> Pc x = P x) by (intros x Hx; unfold Pc; rewrite Rmax_left by lra; reflexivity).
  assert (HDc : forall x, lo < x -> is_derive Pc x (r x)).
  { intros x Hx. apply (is_derive_ext_loc P); [|apply HD; exact Hx].
    assert (Hd : 0 < x - lo) by lra. exists (mkposreal _ Hd). intros y Hy.
    unfold ball in Hy; simpl in Hy. unfold AbsRing_ball, abs, minus, plus, opp in Hy; simpl in Hy. apply Rabs_def2 in Hy.
    symmetry. apply Hpc. lra. }
  assert (HCc : forall x, lo <= x -> continuity_pt Pc x).
  { intros x [Hx| <-].
    - apply continuity_pt_filterlim. apply (ex_derive_continuous Pc x). exists (r x). apply HDc, Hx.
    - intros eps Heps. destruct (HC eps Heps) as (d & Hd & Hcl). exists d. split; [exact Hd|].
      intros y (_ & Hy). simpl in Hy. unfold R_dist in *. apply Rabs_def2 in Hy.
      destruct (Rle_lt_dec y lo) as [Hle|Hgt].
      + unfold Pc. rewrite (Rmax_right y lo) by lra. rewrite (Rmax_left lo lo) by lra. simpl; unfold R_dist. rewrite Rminus_eq_0, Rabs_R0. exact Heps.
      + rewrite (Hpc y), (Hpc lo) by lra. simpl; unfold R_dist. apply Hcl. lra. }
  destruct (MVT_gen Pc es e r) as (c & Hc & Hmv).
  - intros x Hx. apply HDc. unfold Rmin in Hx. destruct (Rle_dec es e); lra.
  - intros x Hx. apply HCc. unfold Rmin in Hx. destruct (Rle_dec es e); lra.
  - rewrite (Hpc e He), (Hpc es Hes) in Hmv.
    assert (Hr' : - delta <= r es <= delta) by (apply Rabs_le_between; exact Hr).
    unfold Rmin, Rmax in Hc. unfold Rabs. destruct (Rle_dec es e) as [Hle|Hgt], (Rcase_abs (e - es)); try lra.
    + assert (r es <= r c) by (apply Hm; lra). nra.
    + assert (r c <= r es) by (apply Hm; lra). nra.
Qed.

(* ---------- the rate-sensitive update ---------- *)
Section RateUpdate.
  Variable l : @law R.
  Variables Sr m ed0 mu dt : R.
  Hypothesis Hmu : 0 < mu.
  Hypothesis HY0 : 0 <= law_Y0 l.
  Hypothesis HS : 0 <= Sr.
  Hypothesis Hm : 0 < m.
  Hypothesis Hdt : 0 < dt.
  Hypothesis Hed : 0 < ed0.

  Definition Ytot (eo e : R) : R := @h_flow R NumR l e + @k_flow R NumR (Rate Sr m ed0) e eo dt.

  Lemma Ytot_monotone eo : (forall x y, eo <= x -> x <= y -> @h_flow R NumR l x <= @h_flow R NumR l y) ->
    forall x y, eo <= x -> x <= y -> Ytot eo x <= Ytot eo y.
  Proof.
    intros Hh x y Hx Hxy. unfold Ytot. pose proof (Hh x y Hx Hxy).
    pose proof (rate_flow_monotone Sr m ed0 eo dt Hm Hdt Hed x y HS Hx Hxy) as Hk. unfold kf in Hk. lra.
  Qed.

  (* what a successful rate-sensitive update returns: irreversibility and yield consistency, the flow stress now being the
     rate-independent flow stress PLUS the overstress at the plastic strain rate (eqps_new - eqps_old)/dt *)
  Theorem delta_eqps_rate_spec s eo d :
    (forall x y, eo <= x -> x <= y -> @h_flow R NumR l x <= @h_flow R NumR l y) ->
    @delta_eqps R NumR l (Rate Sr m ed0) mu s eo dt = Some d ->
    0 <= d /\ (s - 3 * mu * d) - Ytot eo (eo + d) <= @tolY R NumR l /\
    (0 < d -> Rabs ((s - 3 * mu * d) - Ytot eo (eo + d)) <= @tolY R NumR l).
  Proof.
    intros Hh H. unfold delta_eqps in H.
    assert (Hb : @tolY R NumR l < s - (fun e : R => nadd (h_flow l e) (k_flow (Rate Sr m ed0) e eo dt)) eo ->
                 (fun e : R => nadd (h_flow l e) (k_flow (Rate Sr m ed0) e eo dt)) eo
                 <= (fun e : R => nadd (h_flow l e) (k_flow (Rate Sr m ed0) e eo dt)) (eo + (s - (fun e : R => nadd (h_flow l e) (k_flow (Rate Sr m ed0) e eo dt)) eo) / (3 * mu))).
    { intros Hy.
      pose proof (ub_above (fun e : R => nadd (h_flow l e) (k_flow (Rate Sr m ed0) e eo dt)) mu (tolY l) Hmu (tolY_nonneg l HY0) s eo Hy) as Hub.
      unfold ubR in Hub. cbv beta in *.
      apply (Ytot_monotone eo Hh eo); lra. }
    split; [|exact (yield_consistent _ _ mu (tolY l) Hmu (tolY_nonneg l HY0) s eo d Hb H)].
    exact (delta_nonneg _ _ mu (tolY l) Hmu (tolY_nonneg l HY0) s eo d Hb H).
  Qed.

  (* minimality with rate sensitivity: hardening energy Hh with flow stress h_flow (derivative on [eqps_old, oo), non-decreasing)
     plus the regenerated kinetic potential *)
  Theorem potential_min_rate (Hh : R -> R) s eo es delta :
    (forall x, eo <= x -> is_derive Hh x (@h_flow R NumR l x)) ->
    (forall x y, eo <= x -> x <= y -> @h_flow R NumR l x <= @h_flow R NumR l y) -> eo <= es ->
    Rabs (- s + 3 * mu * (es - eo) + Ytot eo es) <= delta ->
    forall e, eo <= e ->
      @potential R NumR (fun x => Hh x + @k_energy R NumR (Rate Sr m ed0) x eo dt) mu s eo es - delta * Rabs (e - es)
      <= @potential R NumR (fun x => Hh x + @k_energy R NumR (Rate Sr m ed0) x eo dt) mu s eo e.
  Proof.
    intros HD Hmon Hes Hr e He.
    apply (stationary_min_open (fun x => @potential R NumR (fun x => Hh x + @k_energy R NumR (Rate Sr m ed0) x eo dt) mu s eo x)
             (fun x => - s + 3 * mu * (x - eo) + Ytot eo x) eo es delta); auto.
    - intros x Hx.
      apply (potential_derive (fun x => Hh x + @k_energy R NumR (Rate Sr m ed0) x eo dt) (Ytot eo) mu s eo x).
      unfold Ytot. apply (is_derive_plus (V := R_NormedModule) Hh _ x); [apply HD; lra|].
      apply (rate_flow_derive Sr m ed0 eo dt Hm Hdt Hed x Hx).
    - (* right-continuity at eqps_old *)
      intros eps Heps.
      assert (Hc : continuity_pt (fun x => @potential R NumR Hh mu s eo x) eo).
      { apply continuity_pt_filterlim. apply (ex_derive_continuous (fun x => @potential R NumR Hh mu s eo x) eo).
        eexists. apply (potential_derive Hh (fun x => @h_flow R NumR l x) mu s eo eo). apply HD. lra. }
      assert (He2 : 0 < eps / 2) by lra.
      destruct (Hc (eps / 2) He2) as (d1 & Hd1 & Hc1).
      destruct (rate_potential_right_continuous Sr m ed0 eo dt Hm Hdt Hed (eps / 2) He2) as (d2 & Hd2 & Hc2).
      exists (Rmin d1 d2). split; [apply Rmin_pos; assumption|].
      intros x (Hx1 & Hx2). pose proof (Rmin_l d1 d2). pose proof (Rmin_r d1 d2).
      assert (A : Rabs (@potential R NumR Hh mu s eo x - @potential R NumR Hh mu s eo eo) < eps / 2).
      { apply Hc1. split; [split; [exact I|lra]|]. simpl. unfold R_dist. apply Rabs_def1; lra. }
      assert (B : Rabs (Kr Sr m ed0 eo dt x - Kr Sr m ed0 eo dt eo) < eps / 2) by (apply Hc2; lra).
      unfold Kr in B. unfold potential in *. unfold_num.
      apply Rabs_def2 in A. apply Rabs_def2 in B. apply Rabs_def1; lra.
    - intros x y Hx Hxy. pose proof (Ytot_monotone eo Hmon x y Hx Hxy). nra.
  Qed.
End RateUpdate.

(* ---------- the three hardening laws with admissible constants: one statement instead of a monotonicity premise ---------- *)
Definition law_admissible (l : @law R) (eo : R) : Prop :=
  match l with
  | Linear Y0 H => 0 <= Y0 /\ 0 <= H
  | Voce Y0 Ysat eps0 => 0 <= Y0 /\ Y0 <= Ysat /\ 0 < eps0
  | PowerLaw Y0 n eps0 => 0 <= Y0 /\ 0 < n /\ 0 < eps0 /\ 0 < 1 + eo / eps0
  end.

Lemma admissible_Y0 l eo : law_admissible l eo -> 0 <= law_Y0 l.
Proof. destruct l; cbn; intros; tauto. Qed.

Lemma admissible_later l eo x : law_admissible l eo -> eo <= x -> law_admissible l x.
Proof.
  destruct l; cbn; try tauto. intros (A & B & C & D) Hx. repeat split; try assumption.
  assert (eo / eps0 <= x / eps0); [|lra]. unfold Rdiv. apply Rmult_le_compat_r; [left; apply Rinv_0_lt_compat; exact C|exact Hx].
Qed.

Lemma admissible_flow_derive l eo : law_admissible l eo ->
  forall x, eo <= x -> is_derive (fun e => @h_energy R NumR l e) x (@h_flow R NumR l x).
Proof.
  intros Ha x Hx. pose proof (admissible_later l eo x Ha Hx) as Hax. destruct l; cbn in Hax.
  - apply linear_flow_derive.
  - apply voce_flow_derive. lra.
  - apply power_flow_derive; tauto.
Qed.

Lemma admissible_flow_monotone l eo : law_admissible l eo ->
  forall x y, eo <= x -> x <= y -> @h_flow R NumR l x <= @h_flow R NumR l y.
Proof.
  intros Ha x y Hx Hxy. pose proof (admissible_later l eo x Ha Hx) as Hax. destruct l; cbn in Hax.
  - apply linear_flow_monotone; tauto.
  - apply voce_flow_monotone; tauto.
  - apply power_flow_monotone; tauto.
Qed.

(* rate-independent update of the three laws: irreversibility + yield consistency + idempotence, no premise beyond the constants *)
Theorem delta_eqps_norate_spec (l : @law R) mu s eo dt d : 0 < mu -> law_admissible l eo ->
  @delta_eqps R NumR l NoRate mu s eo dt = Some d ->
  0 <= d /\ (s - 3 * mu * d) - @h_flow R NumR l (eo + d) <= @tolY R NumR l /\
  (0 < d -> Rabs ((s - 3 * mu * d) - @h_flow R NumR l (eo + d)) <= @tolY R NumR l) /\
  @delta_eqps R NumR l NoRate mu (s - 3 * mu * d) (eo + d) dt = Some 0.
Proof.
  intros Hmu Ha H. pose proof (admissible_Y0 l eo Ha) as HY. pose proof (admissible_flow_monotone l eo Ha) as Hmon.
  unfold delta_eqps in *.
  assert (Hb : @tolY R NumR l < s - (fun e : R => nadd (h_flow l e) (k_flow NoRate e eo dt)) eo ->
               (fun e : R => nadd (h_flow l e) (k_flow NoRate e eo dt)) eo
               <= (fun e : R => nadd (h_flow l e) (k_flow NoRate e eo dt)) (eo + (s - (fun e : R => nadd (h_flow l e) (k_flow NoRate e eo dt)) eo) / (3 * mu))).
  { intros Hy.
    pose proof (ub_above (fun e : R => nadd (h_flow l e) (k_flow NoRate e eo dt)) mu (tolY l) Hmu (tolY_nonneg l HY) s eo Hy) as Hub.
    unfold ubR in Hub. cbv beta in *. cbn [k_flow] in *. unfold_num. q2r.
    assert (h_flow l eo <= h_flow l (eo + (s - (h_flow l eo + 0)) / (3 * mu))) by (apply Hmon; lra). lra. }
  pose proof (delta_nonneg _ _ mu (tolY l) Hmu (tolY_nonneg l HY) s eo d Hb H) as Hd.
  pose proof (yield_consistent _ _ mu (tolY l) Hmu (tolY_nonneg l HY) s eo d Hb H) as (Hc1 & Hc2).
  pose proof (idempotent _ _ mu (tolY l) Hmu (tolY_nonneg l HY) s eo d Hb H) as Hi.
  cbv beta in Hc1, Hc2. cbn [k_flow] in Hc1, Hc2. unfold_num. q2r. rewrite Rplus_0_r in Hc1, Hc2.
  repeat split; try assumption.
Qed.

Theorem delta_eqps_rate_laws (l : @law R) Sr m ed0 mu s eo dt d : 0 < mu -> law_admissible l eo -> 0 <= Sr -> 0 < m -> 0 < dt -> 0 < ed0 ->
  @delta_eqps R NumR l (Rate Sr m ed0) mu s eo dt = Some d ->
  0 <= d /\ (s - 3 * mu * d) - (@h_flow R NumR l (eo + d) + @k_flow R NumR (Rate Sr m ed0) (eo + d) eo dt) <= @tolY R NumR l /\
  (0 < d -> Rabs ((s - 3 * mu * d) - (@h_flow R NumR l (eo + d) + @k_flow R NumR (Rate Sr m ed0) (eo + d) eo dt)) <= @tolY R NumR l).
Proof.
  intros Hmu Ha HS Hm Hdt Hed H.
  exact (delta_eqps_rate_spec l Sr m ed0 mu dt Hmu (admissible_Y0 l eo Ha) HS Hm Hdt Hed s eo d (admissible_flow_monotone l eo Ha) H).
Qed.

Theorem potential_min_rate_laws (l : @law R) Sr m ed0 mu dt s eo es delta : 0 < mu -> law_admissible l eo -> 0 <= Sr -> 0 < m -> 0 < dt -> 0 < ed0 ->
  eo <= es ->
  Rabs (- s + 3 * mu * (es - eo) + (@h_flow R NumR l es + @k_flow R NumR (Rate Sr m ed0) es eo dt)) <= delta ->
  forall e, eo <= e ->
    @potential R NumR (fun x => @h_energy R NumR l x + @k_energy R NumR (Rate Sr m ed0) x eo dt) mu s eo es - delta * Rabs (e - es)
    <= @potential R NumR (fun x => @h_energy R NumR l x + @k_energy R NumR (Rate Sr m ed0) x eo dt) mu s eo e.
Proof.
  intros Hmu Ha HS Hm Hdt Hed Hes Hr e He.
  exact (potential_min_rate l Sr m ed0 mu dt Hmu HS Hm Hdt Hed (fun x => @h_energy R NumR l x) s eo es delta
           (admissible_flow_derive l eo Ha) (admissible_flow_monotone l eo Ha) Hes Hr e He).
Qed.

(* non-vacuity: a rate-sensitive material with admissible constants; the overstress at rate 1 is the rate-sensitivity stress *)
Lemma nonvacuous_C09_rate :
  @k_flow R NumR (Rate 2 1 1) 1 0 1 = 2 /\ @k_energy R NumR (Rate 2 1 1) 1 0 1 = 1 /\
  law_admissible (Linear 1 2) 0 /\ law_admissible (Voce 1 2 (1 / 10)) 0 /\ law_admissible (PowerLaw 1 4 (1 / 100)) 0.
Proof.
  split; [|split; [|cbn; repeat split; lra]].
  - unfold k_flow, npowr. unfold_num. q2r. replace (Reqb ((1 - 0) / 1 / 1) 0) with false by (symmetry; apply Reqb_false; lra).
    replace ((1 - 0) / 1 / 1) with 1 by field. rewrite ln_1, Rmult_0_r, exp_0. ring.
  - unfold k_energy, power_law_rate_sensitivity, npowr. unfold_num. q2r.
    replace (Reqb ((1 - 0) / 1 / 1) 0) with false by (symmetry; apply Reqb_false; lra).
    replace ((1 - 0) / 1 / 1) with 1 by field. rewrite ln_1, Rmult_0_r, exp_0. field.
Qed.

(* packaged statements for props/P_C09.v *)
Lemma rate_flow_at_old_pack : forall Sr m ed0 eo dt, 0 < m -> 0 < dt -> 0 < ed0 ->
  @k_flow R NumR (Rate Sr m ed0) eo eo dt = 0 /\
  forall eps, 0 < eps -> exists delta, 0 < delta /\ forall e, eo < e < eo + delta ->
    Rabs ((@k_energy R NumR (Rate Sr m ed0) e eo dt - @k_energy R NumR (Rate Sr m ed0) eo eo dt) / (e - eo)
          - @k_flow R NumR (Rate Sr m ed0) eo eo dt) < eps.
Proof. intros Sr m ed0 eo dt Hm Hdt Hed. split; [apply kf_old|apply rate_right_derivative_at_old; assumption]. Qed.

Lemma rate_monotone_pack : forall Sr m ed0 eo dt, 0 < m -> 0 < dt -> 0 < ed0 ->
  (forall x y, 0 <= Sr -> eo <= x -> x <= y -> @k_flow R NumR (Rate Sr m ed0) x eo dt <= @k_flow R NumR (Rate Sr m ed0) y eo dt) /\
  (forall x y, 0 < Sr -> eo <= x -> x < y -> @k_flow R NumR (Rate Sr m ed0) x eo dt < @k_flow R NumR (Rate Sr m ed0) y eo dt) /\
  (forall x, 0 <= Sr -> eo <= x -> 0 <= @k_flow R NumR (Rate Sr m ed0) x eo dt).
Proof.
  intros Sr m ed0 eo dt Hm Hdt Hed. split; [|split].
  - intros x y. apply rate_flow_monotone; assumption.
  - intros x y. apply rate_flow_strict; assumption.
  - intros x. apply rate_flow_nonneg; assumption.
Qed.
