(* C08 (deepening, round 4, part 4): the differentiability hypotheses AT THE IDENTITY (LogSqrtDiffAtId, PowDiffAtId) are THEOREMS for the
   spectral tensor functions V diag(f(lam)) V^T over every eigen-solver that decomposes every symmetric matrix -- although the
   decomposition the solver returns may depend discontinuously on the argument.  Argument: for symmetric A = V diag(w) V^T,
     spectral f A - f(1) I - f'(1) (A - I) = V diag(r(w_i)) V^T,   r(w) = f(w) - f(1) - f'(1)(w - 1),
   whose Frobenius norm is (sum r(w_i)^2)^(1/2) <= K sum (w_i - 1)^2 = K |A - I|_F^2 when |r(w)| <= K (w-1)^2 near 1; along a
   differentiable curve through I the squared distance |C(t) - I|_F^2 has derivative 0 at 0, so the remainder does too (squeeze). *)
From Coq Require Import Reals Lra Psatz QArith List.
From Coquelicot Require Import Coquelicot.
From OV.base Require Import Num.
From OV.gen Require Import Gen_TensorMath Gen_HyperViscoelastic Gen_MultiBranchHyperViscoelastic Gen_ViscoState.
From OV.model Require Import M_C08 M_C08b M_C11 M_C11s M_C08s.
From OV.proofs Require Import L_C11a L_C11 L_C11s L_C11t L_C11e L_C11u.
From OV.proofs Require Import L_C08 L_C08b L_C08c L_C08d L_C08s.
Local Open Scope R_scope.

(* ---------- a squeeze lemma for derivatives ---------- *)
Lemma ball_R (x y : R) (e : posreal) : ball x e y <-> Rabs (y - x) < e.
Proof. unfold ball; simpl. unfold AbsRing_ball, abs, minus, plus, opp; simpl. tauto. Qed.
Lemma abs_le_of_sq x y : 0 <= y -> x * x <= y * y -> Rabs x <= y.
Proof. intros Hy H. apply Rabs_le. split; nra. Qed.
Lemma is_derive_squeeze (r n : R -> R) K : 0 <= K -> is_derive n 0 0 -> n 0 = 0 -> locally 0 (fun t => Rabs (r t) <= K * n t) -> is_derive r 0 0.
Proof.
  intros HK Hn Hn0 [d2 H2].
  assert (Hr0 : r 0 = 0).
  { pose proof (H2 0 (ball_center 0 d2)) as B. rewrite Hn0, Rmult_0_r in B. pose proof (Rabs_pos (r 0)).
    destruct (Req_dec (r 0) 0) as [E | E]; [exact E |]. apply Rabs_pos_lt in E. lra. }
  apply is_derive_Reals. apply is_derive_Reals in Hn. intros eps Heps.
  assert (He : 0 < eps / (K + 1)) by (apply Rdiv_lt_0_compat; lra).
  destruct (Hn (eps / (K + 1)) He) as [d1 H1].
  assert (Hd : 0 < Rmin d1 d2) by (apply Rmin_pos; [apply cond_pos | apply cond_pos]).
  exists (mkposreal _ Hd). intros h Hh0 Hh. simpl in Hh.
  assert (Hh1 : Rabs h < d1) by (eapply Rlt_le_trans; [exact Hh | apply Rmin_l]).
  assert (Hh2 : Rabs h < d2) by (eapply Rlt_le_trans; [exact Hh | apply Rmin_r]).
  specialize (H1 h Hh0 Hh1). rewrite Rplus_0_l, Hn0, !Rminus_0_r in H1.
  assert (B : Rabs (r h) <= K * n h) by (apply H2, ball_R; rewrite Rminus_0_r; exact Hh2).
  rewrite Rplus_0_l, Hr0, !Rminus_0_r.
  rewrite Rabs_div in * by exact Hh0.
  assert (Ph : 0 < Rabs h) by (apply Rabs_pos_lt, Hh0).
  assert (B2 : Rabs (r h) <= K * Rabs (n h)).
  { eapply Rle_trans; [exact B |]. apply Rmult_le_compat_l; [exact HK | apply Rle_abs]. }
  assert (B3 : Rabs (r h) / Rabs h <= K * (Rabs (n h) / Rabs h)).
  { unfold Rdiv. rewrite <- Rmult_assoc. apply Rmult_le_compat_r; [left; apply Rinv_0_lt_compat, Ph | exact B2]. }
  assert (B4 : K * (Rabs (n h) / Rabs h) <= K * (eps / (K + 1))) by (apply Rmult_le_compat_l; [exact HK | left; exact H1]).
  assert (B5 : K * (eps / (K + 1)) < eps).
  { unfold Rdiv. rewrite (Rmult_comm eps), <- Rmult_assoc. rewrite <- (Rmult_1_l eps) at 2. apply Rmult_lt_compat_r; [exact Heps |].
    apply (Rmult_lt_reg_r (K + 1)); [lra |]. rewrite Rmult_assoc, Rinv_l by lra. lra. }
  lra.
Qed.

(* ---------- Frobenius norm under an orthogonal change of basis ---------- *)
Lemma mtr_cj V D : mtr (cj V D) = cj V (mtr D).
Proof. unfold cj. rewrite !mtr_mmul, mtr_mtr, mmul_assoc. reflexivity. Qed.
Lemma ddot_cj V D : mmul (mtr V) V = mid -> mddot (cj V D) (cj V D) = mddot D D.
Proof. intros HV. rewrite !mddot_trace, mtr_cj, (cj_mul V _ _ HV). unfold cj. apply (conj_trace V _ HV). Qed.
Lemma ddot_mdiag a b c : mddot (mdiag a b c) (mdiag a b c) = a * a + b * b + c * c.
Proof. unfold mdiag. mnum. ring. Qed.
Definition Nid (A : M) : R := mddot (msub A mid) (msub A mid).
Lemma Nid_nonneg A : 0 <= Nid A.
Proof. unfold Nid. destruct (msub A mid). mnum. nra. Qed.

Lemma sq_nonneg x : 0 <= x * x. Proof. apply Rle_0_sqr. Qed.
Lemma sq_le_of_between r c : - c <= r <= c -> r * r <= c * c. Proof. intros [A B]. nra. Qed.
Lemma sum3_sq r0 r1 r2 x y z : 0 <= x -> 0 <= y -> 0 <= z -> r0 * r0 <= x * x -> r1 * r1 <= y * y -> r2 * r2 <= z * z ->
  r0 * r0 + r1 * r1 + r2 * r2 <= (x + y + z) * (x + y + z).
Proof. intros. nra. Qed.

Section SpectralDiffAtId.
  Variables (eigh : M -> E3) (f : R -> R) (f1 f' K delta : R).
  Hypothesis Hok : solver_ok eigh.
  Hypothesis HK : 0 <= K.
  Hypothesis Hdelta : 0 < delta.
  Hypothesis Hf : forall w, Rabs (w - 1) <= delta -> Rabs (f w - f1 - f' * (w - 1)) <= K * ((w - 1) * (w - 1)).
  Definition Rem (A : M) : M := msub (msub (spectral eigh f A) (mscal f1 mid)) (mscal f' (msub A mid)).

  Lemma Rem_bound A : L_C08.msym A -> Nid A <= delta * delta -> mddot (Rem A) (Rem A) <= (K * Nid A) * (K * Nid A).
  Proof.
    intros HA HN. pose proof (Hok A HA) as Hc. unfold eigh_ok in Hc. unfold Rem, Nid in *. unfold spectral.
    destruct (eigh A) as [[[w0 w1] w2] V]. destruct Hc as (H1 & H2 & HAe).
    fold (cj V (mdiag (f w0) (f w1) (f w2))). fold (cj V (mdiag w0 w1 w2)) in HAe.
    assert (Ei : forall c, mscal c mid = cj V (mdiag c c c)).
    { intros c. rewrite <- (cj_id V H2) at 1. rewrite cj_scal. f_equal. unfold mdiag. mat_eq. }
    assert (EA : msub A mid = cj V (mdiag (w0 - 1) (w1 - 1) (w2 - 1))).
    { rewrite <- HAe. replace (@mid R NumR) with (mscal 1 (@mid R NumR)) at 1 by mat_eq. rewrite (Ei 1), cj_sub, mdiag_sub. reflexivity. }
    rewrite EA in HN |- *. rewrite (ddot_cj V _ H1), ddot_mdiag in HN.
    rewrite (Ei f1), cj_scal, mdiag_scal, !cj_sub, !mdiag_sub, !(ddot_cj V _ H1), !ddot_mdiag.
    assert (Hw : forall w, (w - 1) * (w - 1) <= delta * delta -> Rabs (f w - f1 - f' * (w - 1)) <= K * ((w - 1) * (w - 1))).
    { intros w Hle. apply Hf. apply abs_le_of_sq; lra. }
    pose proof (Hw w0) as B0. pose proof (Hw w1) as B1. pose proof (Hw w2) as B2.
    set (a0 := (w0 - 1) * (w0 - 1)) in *. set (a1 := (w1 - 1) * (w1 - 1)) in *. set (a2 := (w2 - 1) * (w2 - 1)) in *.
    assert (P0 : 0 <= a0) by apply sq_nonneg. assert (P1 : 0 <= a1) by apply sq_nonneg. assert (P2 : 0 <= a2) by apply sq_nonneg.
    assert (A0 : a0 <= delta * delta) by lra. assert (A1 : a1 <= delta * delta) by lra. assert (A2 : a2 <= delta * delta) by lra.
    specialize (B0 A0). specialize (B1 A1). specialize (B2 A2).
    apply Rabs_le_between in B0. apply Rabs_le_between in B1. apply Rabs_le_between in B2.
    replace (K * (a0 + a1 + a2)) with (K * a0 + K * a1 + K * a2) by ring.
    apply sum3_sq; try (apply Rmult_le_pos; assumption); apply sq_le_of_between; assumption.
  Qed.

  Definition proj_ok (p : M -> R) : Prop :=
    (forall X Y, p (msub X Y) = p X - p Y) /\ (forall s X, p (mscal s X) = s * p X) /\ (forall X, p X * p X <= mddot X X).

  Lemma affine_derive (q : R -> R) q' a b c : is_derive q 0 q' -> is_derive (fun t => a + b * (q t - c)) 0 (b * q').
  Proof.
    intros Hq. auto_derive; [eexists; exact Hq |].
    assert (Dq : Derive (fun x => q x) 0 = q') by (apply is_derive_unique; exact Hq). rewrite Dq. ring.
  Qed.
  Lemma Nid_curve (C : R -> M) C' : C 0 = mid -> mderive C 0 C' -> is_derive (fun t => Nid (C t)) 0 0 /\ Nid (C 0) = 0.
  Proof.
    intros H0 HD. split.
    - unfold Nid. evar_last.
      + apply (mddot_curve (fun t => msub (C t) mid) (msub C' mzero)). apply mderive_msub; [exact HD | apply mderive_const].
      + cbv beta. rewrite H0. destruct (msub C' mzero). mnum. ring.
    - rewrite H0. unfold Nid. mnum. ring.
  Qed.

  Lemma spectral_proj_derive (p : M -> R) (C : R -> M) C' : proj_ok p -> (forall t, L_C08.msym (C t)) -> C 0 = mid -> mderive C 0 C' ->
    is_derive (fun t => p (C t)) 0 (p C') -> is_derive (fun t => p (spectral eigh f (C t))) 0 (f' * p C').
  Proof.
    intros (Hsub & Hscal & Hsq) Hs H0 HD Hp.
    destruct (Nid_curve C C' H0 HD) as (HN & HN0).
    assert (E : forall t, p (spectral eigh f (C t)) = p (Rem (C t)) + (f1 * p mid + f' * (p (C t) - p mid))).
    { intros t. unfold Rem. rewrite !Hsub, !Hscal, Hsub. ring. }
    apply (is_derive_ext (fun t => p (Rem (C t)) + (f1 * p mid + f' * (p (C t) - p mid)))); [intros t; symmetry; apply E |].
    evar_last.
    - apply (is_derive_plus' (fun t => p (Rem (C t))) (fun t => f1 * p mid + f' * (p (C t) - p mid)) 0 0 (f' * p C')).
      + apply (is_derive_squeeze _ (fun t => Nid (C t)) K HK HN HN0).
        assert (Hc : continuous (fun t => Nid (C t)) 0) by (apply (ex_derive_continuous (fun t => Nid (C t))); eexists; exact HN).
        assert (HP : locally (Nid (C 0)) (fun y => y < delta * delta)) by (apply (open_lt (delta * delta)); rewrite HN0; apply Rmult_lt_0_compat; exact Hdelta).
        specialize (Hc _ HP). unfold filtermap in Hc. revert Hc. apply filter_imp. intros t Ht.
        pose proof (Rem_bound (C t) (Hs t) (Rlt_le _ _ Ht)) as B. pose proof (Nid_nonneg (C t)) as NN.
        apply abs_le_of_sq; [nra |]. eapply Rle_trans; [apply Hsq | exact B].
      + apply (affine_derive (fun t => p (C t))). exact Hp.
    - ring.
  Qed.

  Theorem spectral_diff_at_id (C : R -> M) C' : (forall t, L_C08.msym (C t)) -> C 0 = mid -> mderive C 0 C' ->
    mderive (fun t => spectral eigh f (C t)) 0 (mscal f' C').
  Proof.
    intros Hs H0 HD. pose proof HD as (D0 & D1 & D2 & D3 & D4 & D5 & D6 & D7 & D8).
    assert (PK : forall p : M -> R, (forall X Y, p (msub X Y) = p X - p Y) -> (forall s X, p (mscal s X) = s * p X) -> (forall X, p X * p X <= mddot X X) -> proj_ok p)
      by (intros p A1 A2 A3; repeat split; assumption).
    unfold mderive.
    repeat match goal with |- _ /\ _ => split end;
      match goal with |- is_derive (fun t => ?p (spectral eigh f (C t))) 0 _ =>
        apply (spectral_proj_derive p C C'); [ | exact Hs | exact H0 | exact HD | assumption];
        apply PK; [intros X Y; dm X; dm Y; mnum; ring | intros s X; dm X; mnum; ring | intros X; dm X; mnum; nra] end.
  Qed.
End SpectralDiffAtId.

(* ---------- scalar expansions at 1 ---------- *)
Lemma ln_upper w : 0 < w -> ln w <= w - 1.
Proof. intros Hw. pose proof (exp_ineq1_le (ln w)) as E. rewrite exp_ln in E by exact Hw. lra. Qed.
Lemma ln_lower w : 0 < w -> 1 - / w <= ln w.
Proof.
  intros Hw. assert (Hi : 0 < / w) by (apply Rinv_0_lt_compat, Hw).
  pose proof (ln_upper (/ w) Hi) as E. rewrite ln_Rinv in E by exact Hw. lra.
Qed.
Lemma ln_quad w : Rabs (w - 1) <= / 2 -> Rabs (ln w - 0 - 1 * (w - 1)) <= 2 * ((w - 1) * (w - 1)).
Proof.
  intros Hw. apply Rabs_le_between in Hw. assert (Pw : 0 < w) by lra.
  pose proof (ln_upper w Pw) as U. pose proof (ln_lower w Pw) as Lo.
  assert (Hi : 0 < / w) by (apply Rinv_0_lt_compat, Pw). assert (Ei : w * / w = 1) by (apply Rinv_r; lra).
  assert (Hi2 : / w <= 2). { pose proof (Rmult_le_pos (w - / 2) (/ w) ltac:(lra) ltac:(lra)) as X. rewrite Rmult_minus_distr_r, Ei in X. lra. }
  pose proof (sq_nonneg (w - 1)) as Sq.
  apply Rabs_le. split; [| lra].
  (* 1 - i - (w - 1) = -(w-1)^2 i  with i = 1/w *)
  assert (Eq : 1 - / w - (w - 1) = - ((w - 1) * (w - 1)) * / w).
  { field. lra. }
  pose proof (Rmult_le_compat_l _ _ _ Sq Hi2) as X. lra.
Qed.

Theorem lss_spec_LogSqrtDiffAtId (eigh : M -> E3) : solver_ok eigh -> LogSqrtDiffAtId (lss_spec eigh).
Proof.
  intros Hok C C' Hs H0 HD. unfold lss_spec.
  apply (mderive_cast _ _ (mscal nhalf (mscal 1 C'))); [dm C'; mnum; f_equal; field |].
  apply mderive_mscal.
  apply (spectral_diff_at_id eigh (@nln R NumR) 0 1 2 (/ 2) Hok); [lra | lra | exact ln_quad | exact Hs | exact H0 | exact HD].
Qed.
Theorem lss_R_LogSqrtDiffAtId : LogSqrtDiffAtId lss_R.
Proof. apply lss_spec_LogSqrtDiffAtId, eigh_sym_solver_ok. Qed.

(* ---------- the power: npowr w m = exp (m ln w) near 1 ---------- *)
Lemma exp_quad y : y <= / 2 -> 0 <= exp y - 1 - y <= 2 * (y * y).
Proof.
  intros Hy. split; [pose proof (exp_ineq1_le y); lra |].
  pose proof (exp_ineq1_le (- y)) as E1. pose proof (exp_pos y) as Pe.
  assert (E2 : exp y * exp (- y) = 1) by (rewrite <- exp_plus, Rplus_opp_r; apply exp_0).
  (* e (1 - y) <= e e' = 1 *)
  assert (E3 : exp y * (1 - y) <= 1).
  { rewrite <- E2. apply Rmult_le_compat_l; [lra | lra]. }
  set (e := exp y) in *. clearbody e. clear E1 E2.
  (* (e - 1 - y - 2 y^2)(1 - y) <= - y^2 (1 - 2y) <= 0 and 1 - y > 0 *)
  assert (P : 0 <= y * y * (1 - 2 * y)) by (apply Rmult_le_pos; [apply sq_nonneg | lra]).
  assert (Q : (e - 1 - y - 2 * (y * y)) * (1 - y) <= 0) by nra.
  destruct (Rle_dec (e - 1 - y) (2 * (y * y))) as [Y | N]; [exact Y | exfalso].
  assert (0 < (e - 1 - y - 2 * (y * y)) * (1 - y)) by (apply Rmult_lt_0_compat; lra). lra.
Qed.
Lemma npowr_pos w m : 0 < w -> @npowr R NumR w m = exp (m * ln w).
Proof.
  intros Hw. unfold npowr. rewrite nzero_R. change (@neqb R NumR) with Reqb. rewrite (proj2 (Reqb_false w 0)) by lra.
  change (@nexp R NumR) with exp. change (@nln R NumR) with ln. change (@nmul R NumR) with Rmult. reflexivity.
Qed.
Lemma pow_core (a X dl AL e am : R) : 0 <= a -> 0 <= X -> 4 * (a + 1) * X <= 1 -> 0 <= dl <= 2 * (X * X) -> 0 <= AL <= dl + X ->
  0 <= e <= 2 * ((a * AL) * (a * AL)) -> 0 <= am <= a * dl -> e + am <= (8 * (a * a) + 2 * a) * (X * X).
Proof.
  intros Ha HX Hd [D0 D1] [L0 L1] [E0 E1] [M0 M1].
  assert (X4 : X <= / 4) by nra.
  assert (L2 : AL <= 2 * X) by nra.
  assert (Y : a * AL <= 2 * a * X) by nra.
  assert (Y0 : 0 <= a * AL) by nra.
  assert (E2 : e <= 2 * ((2 * a * X) * (2 * a * X))) by nra.
  assert (M2 : am <= a * (2 * (X * X))) by nra.
  nra.
Qed.
Lemma pow_quad m w : Rabs (w - 1) <= / (4 * (Rabs m + 1)) ->
  Rabs (@npowr R NumR w m - 1 - m * (w - 1)) <= (8 * (m * m) + 2 * Rabs m) * ((w - 1) * (w - 1)).
Proof.
  intros Hw. pose proof (Rabs_pos m) as Pa. set (a := Rabs m) in *.
  assert (Pd : 0 < 4 * (a + 1)) by lra.
  assert (Hd4 : / (4 * (a + 1)) <= / 4).
  { apply Rinv_le_contravar; lra. }
  assert (Hw2 : Rabs (w - 1) <= / 2) by lra.
  pose proof (ln_quad w Hw2) as LQ. replace (ln w - 0 - 1 * (w - 1)) with (ln w - (w - 1)) in LQ by ring.
  assert (Pw : 0 < w) by (apply Rabs_le_between in Hw2; lra).
  rewrite (npowr_pos w m Pw).
  set (x := w - 1) in *. set (L := ln w) in *. set (X := Rabs x) in *.
  assert (PX : 0 <= X) by apply Rabs_pos.
  assert (XX : x * x = X * X) by (unfold X; rewrite <- Rabs_mult; symmetry; apply Rabs_right, Rle_ge, sq_nonneg).
  assert (AA : m * m = a * a) by (unfold a; rewrite <- Rabs_mult; symmetry; apply Rabs_right, Rle_ge, sq_nonneg).
  assert (HdX : 4 * (a + 1) * X <= 1).
  { apply (Rmult_le_compat_l (4 * (a + 1))) in Hw; [| lra]. rewrite Rinv_r in Hw by lra. exact Hw. }
  set (dl := Rabs (L - x)) in *. assert (Pdl : 0 <= dl) by apply Rabs_pos.
  assert (HAL : Rabs L <= dl + X).
  { replace L with ((L - x) + x) at 1 by ring. apply Rabs_triang. }
  assert (Hy : Rabs (m * L) = a * Rabs L) by apply Rabs_mult.
  assert (Hy2 : m * L <= / 2).
  { eapply Rle_trans; [apply Rle_abs |]. rewrite Hy. pose proof (Rabs_pos L).
    assert (Rabs L <= 2 * X) by (rewrite XX in LQ; nra). nra. }
  pose proof (exp_quad (m * L) Hy2) as [E0 E1].
  assert (Ysq : (m * L) * (m * L) = (a * Rabs L) * (a * Rabs L)).
  { rewrite <- Hy, <- Rabs_mult. symmetry. apply Rabs_right, Rle_ge, sq_nonneg. }
  replace (exp (m * L) - 1 - m * x) with ((exp (m * L) - 1 - m * L) + m * (L - x)) by ring.
  eapply Rle_trans; [apply Rabs_triang |].
  rewrite (Rabs_right (exp (m * L) - 1 - m * L)) by lra. rewrite Rabs_mult. fold a. fold dl.
  rewrite AA, XX.
  apply (pow_core a X dl (Rabs L) (exp (m * L) - 1 - m * L) (a * dl)); try lra.
  - split; [apply Rabs_pos | exact HAL].
  - split; [apply Rmult_le_pos; assumption | lra].
Qed.

Theorem pw_spec_PowDiffAtId (eigh : M -> E3) : solver_ok eigh -> PowDiffAtId (pw_spec eigh).
Proof.
  intros Hok m C C' Hs H0 HD. unfold pw_spec.
  assert (Pa : 0 <= Rabs m) by apply Rabs_pos.
  apply (spectral_diff_at_id eigh (fun x => @npowr R NumR x m) 1 m (8 * (m * m) + 2 * Rabs m) (/ (4 * (Rabs m + 1))) Hok).
  - pose proof (sq_nonneg m). lra.
  - apply Rinv_0_lt_compat. lra.
  - intros w Hw. apply pow_quad, Hw.
  - exact Hs.
  - exact H0.
  - exact HD.
Qed.
Theorem pw_R_PowDiffAtId : PowDiffAtId pw_R.
Proof. apply pw_spec_PowDiffAtId, eigh_sym_solver_ok. Qed.

(* ---------- zero stress at rest with NO hypothesis on the tensor functions: lss_R / pw_R of L_C11u.v / L_C08s.v ---------- *)
Theorem unconditional_rest_stress D :
  (forall p, is_derive (fun t => E_le_log lss_R p (mscal t D)) 0 0) /\
  (forall p eqps, is_derive (fun t => E_j2_log lss_R p eqps mid (mscal t D)) 0 0) /\
  (forall p eqps, is_derive (fun t => E_j2_seth_hill pw_R p eqps mzero (mscal t D)) 0 0) /\
  (forall p g0 g1 g2, is_derive (fun t => E_pf_log lss_R p 0 g0 g1 g2 (mscal t D)) 0 0) /\
  (forall p dt, 0 < dt -> (let '(_, _, _, tau) := p in 0 < tau) -> is_derive (fun t => E_hv lss_R p mid dt (mscal t D)) 0 0) /\
  (forall p dt, 0 < dt -> mb_taus_pos p -> is_derive (fun t => E_mb lss_R p mid mid mid dt (mscal t D)) 0 0).
Proof.
  pose proof lss_R_LogSqrtSpec as HS. pose proof lss_R_LogSqrtDiffAtId as HD. pose proof pw_R_PowSpec as HP. pose proof pw_R_PowDiffAtId as HPD.
  split; [intros; apply le_log_rest_stress; assumption |].
  split; [intros; apply j2_log_rest_stress; assumption |].
  split; [intros; apply j2_seth_hill_rest_stress; assumption |].
  split; [intros; apply pf_log_rest_stress; assumption |].
  split; [intros; apply hv_rest_stress; assumption |].
  intros; apply mb_rest_stress; assumption.
Qed.
